/-
Decidable sufficient conditions for the side facts `TabOK`, and inertness of programs under
content maps that rename nothing.
-/
import PqlModel.Lemmas.ShapeCompile
namespace Pql

mutual
/-- every operator of the pipeline, at any depth, satisfies `P` -/
def TabAll (P : Op → Bool) : Tabular → Bool
  | .nil => true
  | .mk _ ops => OpsAll P ops
def OpsAll (P : Op → Bool) : OpList → Bool
  | .nil => true
  | .cons o os => OpAll P o && OpsAll P os
def OpAll (P : Op → Bool) : Op → Bool
  | .join _ _ _ _ _ _ right _ _ _ => TabAll P right
  | o => P o
end

section
variable {φ : CMap} {R : List Chunk → List Chunk → Prop} {src src' : Bytes} {P : Op → Bool}

mutual
theorem TabOK_of_all (hP : ∀ o, P o = true → OpOK φ R src src' o) :
    (t : Tabular) → TabAll P t = true → TabOK φ R src src' t
  | .nil, _ => by simp only [TabOK]
  | .mk _ ops, h => by
    simp only [TabAll] at h
    simp only [TabOK]
    exact OpsOK_of_all hP ops h
theorem OpsOK_of_all (hP : ∀ o, P o = true → OpOK φ R src src' o) :
    (ops : OpList) → OpsAll P ops = true → OpsOK φ R src src' ops
  | .nil, _ => by simp only [OpsOK]
  | .cons o os, h => by
    simp only [OpsAll, Bool.and_eq_true] at h
    simp only [OpsOK]
    refine ⟨?_, OpsOK_of_all hP os h.2⟩
    cases o with
    | join p k kind ka fl lp right rp on conds =>
      simp only [OpAll] at h
      simp only [OpOKJ]
      exact TabOK_of_all hP right h.1
    | count => exact hP _ h.1
    | where_ => exact hP _ h.1
    | sort => exact hP _ h.1
    | take => exact hP _ h.1
    | top => exact hP _ h.1
    | project => exact hP _ h.1
    | extend => exact hP _ h.1
    | summarize => exact hP _ h.1
    | as_ => exact hP _ h.1
    | render => exact hP _ h.1
end

end

/-! ### shapes: unnamed columns need slices that succeed together -/

theorem sliceSource_error {src : Bytes} {sp : Span} {e : WErr} (h : sliceSource src sp = .error e) : e = .panic := by
  unfold sliceSource at h
  split at h
  · cases h
  · cases h; rfl

/-- the alias of every unnamed column can be cut from the old source iff it can be cut from the new -/
def sliceCols (φ : CMap) (src src' : Bytes) (cs : List Column) : Bool :=
  cs.all fun c => c.name.isSome || ((sliceSource src c.x.spanOf).isOk == (sliceSource src' (mapE φ c.x).spanOf).isOk)

def sliceOp (φ : CMap) (src src' : Bytes) : Op → Bool
  | .extend _ _ cs => sliceCols φ src src' cs
  | .summarize _ _ cs _ gs => sliceCols φ src src' cs && sliceCols φ src src' gs
  | _ => true

theorem aliasRel_of_sliceCols {φ : CMap} {src src' : Bytes} {cs : List Column} (h : sliceCols φ src src' cs = true) :
    ∀ c ∈ cs, AliasRel φ SameShape src src' c := by
  intro c hc hn
  simp only [sliceCols, List.all_eq_true] at h
  have := h c hc
  simp only [hn, Option.isSome_none, Bool.false_or, beq_iff_eq] at this
  revert this
  cases h1 : sliceSource src c.x.spanOf with
  | error e =>
    cases h2 : sliceSource src' (mapE φ c.x).spanOf with
    | error e' =>
      intro _
      rw [sliceSource_error h1, sliceSource_error h2]
      exact ExRel.error_error _
    | ok _ => intro h; cases h
  | ok t =>
    cases h2 : sliceSource src' (mapE φ c.x).spanOf with
    | error e' => intro h; cases h
    | ok t' => intro _; exact (rfl : SameShape [.qid t] [.qid t'])

theorem opOK_shape {φ : CMap} {src src' : Bytes} (o : Op) (h : sliceOp φ src src' o = true) :
    OpOK φ SameShape src src' o := by
  cases o with
  | extend p k cs =>
    simp only [sliceOp] at h
    simp only [OpOK]
    exact aliasRel_of_sliceCols h
  | summarize p k cs b gs =>
    simp only [sliceOp, Bool.and_eq_true] at h
    simp only [OpOK]
    exact ⟨aliasRel_of_sliceCols h.1, aliasRel_of_sliceCols h.2⟩
  | project p k cs =>
    simp only [OpOK]
    exact fun _ _ _ => rfl
  | render p k ch w lp props rp =>
    simp only [OpOK]
    exact ⟨rfl, fun _ _ => ⟨rfl, rfl⟩⟩
  | count => simp only [OpOK]
  | where_ => simp only [OpOK]
  | sort => simp only [OpOK]
  | take => simp only [OpOK]
  | top => simp only [OpOK]
  | join => simp only [OpOK]
  | as_ => simp only [OpOK]

theorem SameShape.splitCong (φ : CMap) : SplitCong φ SameShape := ⟨SameShape.cong φ, fun _ => rfl, rfl⟩

/-! ### exact: all extend / summarize columns named, no render -/

def colsNamedB (cs : List Column) : Bool := cs.all fun c => c.name.isSome

def exactOp : Op → Bool
  | .extend _ _ cs => colsNamedB cs
  | .summarize _ _ cs _ gs => colsNamedB cs && colsNamedB gs
  | .render .. => false
  | _ => true

theorem aliasRel_of_named {φ : CMap} {R : List Chunk → List Chunk → Prop} {src src' : Bytes} {cs : List Column}
    (h : colsNamedB cs = true) : ∀ c ∈ cs, AliasRel φ R src src' c := by
  intro c hc hn
  simp only [colsNamedB, List.all_eq_true] at h
  have := h c hc
  rw [hn] at this
  cases this

theorem opOK_exact {φ : CMap} {src src' : Bytes} (hnil : φ.fn [] = []) (o : Op) (h : exactOp o = true) :
    OpOK φ (MapsTo φ) src src' o := by
  cases o with
  | extend p k cs =>
    simp only [exactOp] at h
    simp only [OpOK]
    exact aliasRel_of_named h
  | summarize p k cs b gs =>
    simp only [exactOp, Bool.and_eq_true] at h
    simp only [OpOK]
    exact ⟨aliasRel_of_named h.1, aliasRel_of_named h.2⟩
  | project p k cs =>
    simp only [OpOK]
    intro _ _ _
    show [Chunk.qid []] = [Chunk.qid (φ.fn [])]
    rw [hnil]
  | render p k ch w lp props rp => simp only [exactOp] at h; cases h
  | count => simp only [OpOK]
  | where_ => simp only [OpOK]
  | sort => simp only [OpOK]
  | take => simp only [OpOK]
  | top => simp only [OpOK]
  | join => simp only [OpOK]
  | as_ => simp only [OpOK]

theorem MapsTo.splitCong (φ : CMap) (hgen : ∀ i, φ.fn (subqueryName i) = subqueryName i) (hnil : φ.fn [] = []) :
    SplitCong φ (MapsTo φ) :=
  ⟨MapsTo.cong φ, fun i => by show [Chunk.qid _] = [Chunk.qid (φ.fn _)]; rw [hgen],
    by show [Chunk.qid []] = [Chunk.qid (φ.fn [])]; rw [hnil]⟩

/-! ### a content map that renames nothing is inert on every program -/

section
variable {φ : CMap} (hn : ∀ n, φ.fn n = n)
include hn

theorem inertTerms_of_fn_id (s : Scope) (m : Mode) (ts : List SortTerm) : inertTerms s m φ ts = true := by
  simp only [inertTerms, List.all_eq_true]
  exact fun t _ => inertE_of_fn_id hn s m t.x

theorem inertCols_of_fn_id (s : Scope) (m : Mode) (cs : List Column) : inertCols s m φ cs = true := by
  simp only [inertCols, List.all_eq_true]
  exact fun c _ => inertE_of_fn_id hn s m c.x

theorem inertOp_of_fn_id (s : Scope) (m : Mode) (o : Op) : inertOp s m φ o = true := by
  cases o <;> simp only [inertOp, inertE_of_fn_id hn, inertCols_of_fn_id hn, Bool.and_self, List.all_eq_true,
    implies_true]

theorem fixesAliases_of_fn_id : fixesAliases φ = true := by
  simp only [fixesAliases, hn, beq_self_eq_true, Bool.and_self]

mutual
theorem inertT_of_fn_id (s : Scope) : (t : Tabular) → inertT s φ t = true
  | .nil => by simp only [inertT]
  | .mk _ ops => by simp only [inertT, inertOps_of_fn_id s ops]
theorem inertOps_of_fn_id (s : Scope) : (ops : OpList) → inertOps s φ ops = true
  | .nil => by simp only [inertOps]
  | .cons o os => by
    simp only [inertOps, inertOps_of_fn_id s os, Bool.and_true]
    cases o with
    | join p k kind ka fl lp right rp on conds =>
      simp only [inertO, inertT_of_fn_id s right, inertL_of_fn_id hn, fixesAliases_of_fn_id hn, Bool.and_self]
    | sort p k ts => simp only [inertO, inertTerms_of_fn_id hn]
    | take p k n => simp only [inertO, inertE_of_fn_id hn]
    | top p k n b c =>
      cases c <;> simp only [inertO, inertTermOpt, inertE_of_fn_id hn, Bool.and_self]
    | count => simp only [inertO, inertOp_of_fn_id hn]
    | where_ => simp only [inertO, inertOp_of_fn_id hn]
    | project => simp only [inertO, inertOp_of_fn_id hn]
    | extend => simp only [inertO, inertOp_of_fn_id hn]
    | summarize => simp only [inertO, inertOp_of_fn_id hn]
    | as_ => simp only [inertO, inertOp_of_fn_id hn]
    | render => simp only [inertO, inertOp_of_fn_id hn]
end

theorem inertProg_of_fn_id (src : Bytes) : (stmts : List Stmt) → (scope : Scope) → (q : Option Tabular) →
    inertProg src φ stmts scope q = true
  | [], scope, q => by
    cases q <;> simp only [inertProg, inertT_of_fn_id hn]
  | .tabular t :: rest, scope, q => by
    cases q with
    | some _ => simp only [inertProg]
    | none =>
      simp only [inertProg]
      exact inertProg_of_fn_id src rest scope (some t)
  | .let_ _ name _ x :: rest, scope, q => by
    cases q with
    | some t =>
      simp only [inertProg]
      exact inertProg_of_fn_id src rest scope (some t)
    | none =>
      simp only [inertProg, inertE_of_fn_id hn, Bool.true_and]
      split
      · exact inertProg_of_fn_id src rest _ none
      · rfl

end

end Pql
