/-
The operator `!=`, part 5 — (P), statement level: a statement the reference SQL reader
`parseStatement` reads from a token list without `!=` symbol has no `!=` operator
(`noBangStatement`).  Clause by clause along `pSelect'` (Lemmas/ParseStmtSelect.lean).
-/
import PqlModel.Lemmas.E2EFinalNoBangExpr
import PqlModel.Lemmas.ParseStmtSelect
import PqlModel.Lemmas.E2ESelect
namespace Pql.E2EFinal
set_option linter.unusedSimpArgs false
open Pql Sql JoinSem Pql.C05 Pql.E2E

theorem NB_tail {t : STok} {ts : List STok} (h : NB (t :: ts)) : NB ts := ((NB_cons t ts).1 h).2

theorem pAlias_nb (ts : List STok) (h : NB ts) : NB (pAlias ts).2 := by
  unfold pAlias
  split
  · split
    · exact NB_tail (NB_tail h)
    · exact h
  · exact h

theorem pTableRef_nb {ts : List STok} {tr : TableRef} {r : List STok} (h : pTableRef ts = some (tr, r))
    (hnb : NB ts) : NB r := by
  unfold pTableRef at h
  split at h
  · cases h; exact pAlias_nb _ (NB_tail hnb)
  · split at h
    · cases h
      exact pAlias_nb _ (NB_tail (NB_tail (NB_tail (NB_tail (NB_tail (NB_tail (NB_tail hnb)))))))
    · cases h
  · cases h

theorem pItems_nb : ∀ (fuel : Nat) (ts : List STok) (items : List SelectItem) (r : List STok),
    pItems fuel ts = some (items, r) → NB ts → (∀ it ∈ items, noBang it.expr = true) ∧ NB r
  | 0, _, _, _, h, _ => by simp [pItems] at h
  | fuel + 1, ts, items, r, h, hnb => by
    simp only [pItems] at h
    split at h
    · rename_i it r1 hone
      have hit : noBang it.expr = true ∧ NB r1 := by
        split at hone
        · split at hone
          · cases hone; exact ⟨rfl, NB_tail hnb⟩
          · split at hone
            · rename_i e r0 he
              cases hone
              have := pExprS_noBang he hnb
              exact ⟨this.1, pAlias_nb _ this.2⟩
            · cases hone
        · cases hone
      split at h
      · split at h
        · simp only [Option.map_eq_some_iff] at h
          obtain ⟨⟨l, r'⟩, hl, hh⟩ := h
          cases hh
          have ih := pItems_nb fuel _ _ _ hl (NB_tail hit.2)
          refine ⟨?_, ih.2⟩
          intro x hx
          rcases List.mem_cons.1 hx with rfl | hx
          · exact hit.1
          · exact ih.1 x hx
        · cases h
          exact ⟨by simpa using hit.1, hit.2⟩
      · cases h
        exact ⟨by simpa using hit.1, hit.2⟩
    · cases h

theorem pExprsComma_nb : ∀ (fuel : Nat) (ts : List STok) (es : List SExpr) (r : List STok),
    pExprsComma fuel ts = some (es, r) → NB ts → (∀ e ∈ es, noBang e = true) ∧ NB r
  | 0, _, _, _, h, _ => by simp [pExprsComma] at h
  | fuel + 1, ts, es, r, h, hnb => by
    simp only [pExprsComma] at h
    split at h
    · rename_i e r1 he
      have hit := pExprS_noBang he hnb
      split at h
      · split at h
        · simp only [Option.map_eq_some_iff] at h
          obtain ⟨⟨l, r'⟩, hl, hh⟩ := h
          cases hh
          have ih := pExprsComma_nb fuel _ _ _ hl (NB_tail hit.2)
          refine ⟨?_, ih.2⟩
          intro x hx
          rcases List.mem_cons.1 hx with rfl | hx
          · exact hit.1
          · exact ih.1 x hx
        · cases h
          exact ⟨by simpa using hit.1, hit.2⟩
      · cases h
        exact ⟨by simpa using hit.1, hit.2⟩
    · cases h

theorem pOrderTerms_nb : ∀ (fuel : Nat) (ts : List STok) (os : List OrderTerm) (r : List STok),
    pOrderTerms fuel ts = some (os, r) → NB ts → (∀ o ∈ os, noBang o.expr = true) ∧ NB r
  | 0, _, _, _, h, _ => by simp [pOrderTerms] at h
  | fuel + 1, ts, os, r, h, hnb => by
    simp only [pOrderTerms] at h
    split at h
    · rename_i e r1 he
      have hit := pExprS_noBang he hnb
      split at h
      · split at h
        · have hr2 := NB_tail (NB_tail (NB_tail hit.2))
          split at h
          · split at h
            · simp only [Option.map_eq_some_iff] at h
              obtain ⟨⟨l, r'⟩, hl, hh⟩ := h
              cases hh
              have ih := pOrderTerms_nb fuel _ _ _ hl (NB_tail hr2)
              refine ⟨?_, ih.2⟩
              intro x hx
              rcases List.mem_cons.1 hx with rfl | hx
              · exact hit.1
              · exact ih.1 x hx
            · cases h
              exact ⟨by simpa using hit.1, hr2⟩
          · cases h
            exact ⟨by simpa using hit.1, hr2⟩
        · cases h
      · cases h
    · cases h

/-! ### the clauses -/

def optNB (w : Option SExpr) : Bool := match w with | some e => noBang e | none => true
def joinNB (jn : Option JoinClause) : Bool := match jn with | some j => noBang j.on | none => true

theorem joinPart_nb {ts : List STok} {jn : Option JoinClause} {r : List STok} (h : joinPart ts = some (jn, r))
    (hnb : NB ts) : joinNB jn = true ∧ NB r := by
  unfold joinPart at h
  split at h
  · rename_i j r4
    dsimp only at h
    have key : ∀ (left : Bool) (r5 : List STok), NB r5 →
        (match pTableRef r5 with
          | some (tr, r6) =>
            match r6 with
            | on :: r7 =>
              if (!isWord on "ON") = true then none
              else
                match pExprS (fuelOf r7) 0 r7 with
                | some (c, r8) => some (some (⟨left, tr, c⟩ : JoinClause), r8)
                | none => none
            | [] => none
          | none => none) = some (jn, r) →
        joinNB jn = true ∧ NB r := by
      intro left r5 h5 hh
      split at hh
      · rename_i tr r6 htr
        have h6 := pTableRef_nb htr h5
        split at hh
        · split at hh
          · cases hh
          · split at hh
            · rename_i c r8 hc
              cases hh
              exact pExprS_noBang hc (NB_tail h6)
            · cases hh
        · cases hh
      · cases hh
    by_cases hj : isWord j "JOIN" = true
    · simp only [hj, if_true] at h
      exact key _ _ (NB_tail hnb) h
    · simp only [hj, if_false, Bool.false_eq_true] at h
      by_cases hl : isWord j "LEFT" = true
      · simp only [hl, if_true] at h
        cases r4 with
        | nil => simp at h
        | cons j2 r5 =>
          by_cases hj2 : isWord j2 "JOIN" = true
          · simp only [hj2, if_true] at h
            exact key _ _ (NB_tail (NB_tail hnb)) h
          · simp [hj2] at h
      · simp only [hl, if_false, Bool.false_eq_true] at h
        cases h
        exact ⟨rfl, hnb⟩
  · cases h; exact ⟨rfl, NB_nil⟩

theorem optPart_nb {ts : List STok} {kw : String} {w : Option SExpr} {r : List STok}
    (h : (match ts with
      | w :: r5 =>
        if isWord w kw then (pExprS (fuelOf r5) 0 r5).map fun rr => (some rr.1, rr.2) else some (none, ts)
      | [] => some (none, [])) = some (w, r))
    (hnb : NB ts) : optNB w = true ∧ NB r := by
  cases ts with
  | nil => cases h; exact ⟨rfl, NB_nil⟩
  | cons t r5 =>
  simp only at h
  refine (?_ : optNB w = true ∧ NB r)
  · split at h
    · simp only [Option.map_eq_some_iff] at h
      obtain ⟨⟨e, r'⟩, he, hh⟩ := h
      cases hh
      exact pExprS_noBang he (NB_tail hnb)
    · cases h; exact ⟨rfl, hnb⟩

theorem wherePart_nb {ts : List STok} {w : Option SExpr} {r : List STok} (h : wherePart ts = some (w, r))
    (hnb : NB ts) : optNB w = true ∧ NB r :=
  optPart_nb (kw := "WHERE") h hnb

theorem limitPart_nb {ts : List STok} {w : Option SExpr} {r : List STok} (h : limitPart ts = some (w, r))
    (hnb : NB ts) : optNB w = true ∧ NB r :=
  optPart_nb (kw := "LIMIT") h hnb

theorem groupPart_nb {ts : List STok} {gb : List SExpr} {r : List STok} (h : groupPart ts = some (gb, r))
    (hnb : NB ts) : (∀ e ∈ gb, noBang e = true) ∧ NB r := by
  unfold groupPart at h
  split at h
  · split at h
    · exact pExprsComma_nb _ _ _ _ h (NB_tail (NB_tail hnb))
    · cases h; exact ⟨by simp, hnb⟩
  · cases h; exact ⟨by simp, hnb⟩

theorem orderPart_nb {ts : List STok} {ob : List OrderTerm} {r : List STok} (h : orderPart ts = some (ob, r))
    (hnb : NB ts) : (∀ o ∈ ob, noBang o.expr = true) ∧ NB r := by
  unfold orderPart at h
  split at h
  · split at h
    · exact pOrderTerms_nb _ _ _ _ h (NB_tail (NB_tail hnb))
    · cases h; exact ⟨by simp, hnb⟩
  · cases h; exact ⟨by simp, hnb⟩

/-- **(P), one SELECT** -/
theorem pSelect_nb {ts : List STok} {sel : Select} {r : List STok} (h : pSelect ts = some (sel, r))
    (hnb : NB ts) : noBangSel sel = true ∧ NB r := by
  rw [pSelect_eq] at h
  unfold pSelect' at h
  split at h
  · split at h
    · cases h
    · split at h
      · rename_i items r1 hitems
        have h1 := pItems_nb _ _ _ _ hitems (NB_tail hnb)
        split at h
        · split at h
          · cases h
          · split at h
            · rename_i src r3 hsrc
              have h3 := pTableRef_nb hsrc (NB_tail h1.2)
              split at h
              · rename_i jn r4 hjn
                have h4 := joinPart_nb hjn h3
                split at h
                · rename_i wh r5 hwh
                  have h5 := wherePart_nb hwh h4.2
                  split at h
                  · rename_i gb r6 hgb
                    have h6 := groupPart_nb hgb h5.2
                    split at h
                    · rename_i ob r7 hob
                      have h7 := orderPart_nb hob h6.2
                      split at h
                      · rename_i lim r8 hlim
                        have h8 := limitPart_nb hlim h7.2
                        cases h
                        refine ⟨?_, h8.2⟩
                        simp only [noBangSel, Bool.and_eq_true, List.all_eq_true]
                        simp only [optNB, joinNB] at h4 h5 h8
                        exact ⟨⟨⟨⟨⟨h1.1, h4.1⟩, h5.1⟩, h6.1⟩, h7.1⟩, h8.1⟩
                      · cases h
                    · cases h
                  · cases h
                · cases h
              · cases h
            · cases h
        · cases h
      · cases h
  · cases h

theorem pCtes_nb : ∀ (fuel : Nat) (ts : List STok) (ctes : List (Bytes × Select)) (r : List STok),
    pCtes fuel ts = some (ctes, r) → NB ts → (∀ c ∈ ctes, noBangSel c.2 = true) ∧ NB r
  | 0, _, _, _, h, _ => by simp [pCtes] at h
  | fuel + 1, ts, ctes, r, h, hnb => by
    simp only [pCtes] at h
    split at h
    · split at h
      · split at h
        · rename_i sel r1 hsel
          have h1 := pSelect_nb hsel (NB_tail (NB_tail (NB_tail hnb)))
          split at h
          · split at h
            · cases h
            · split at h
              · split at h
                · simp only [Option.map_eq_some_iff] at h
                  obtain ⟨⟨l, r'⟩, hl, hh⟩ := h
                  cases hh
                  have ih := pCtes_nb fuel _ _ _ hl (NB_tail (NB_tail h1.2))
                  refine ⟨?_, ih.2⟩
                  intro x hx
                  rcases List.mem_cons.1 hx with rfl | hx
                  · exact h1.1
                  · exact ih.1 x hx
                · cases h
                  exact ⟨by simpa using h1.1, NB_tail h1.2⟩
              · cases h
                exact ⟨by simpa using h1.1, NB_nil⟩
          · cases h
        · cases h
      · cases h
    · cases h

/-- **(P)**: a statement read from a token list without `!=` symbol has no `!=` operator -/
theorem parseStatement_noBang {ts : List STok} {st : Statement} (h : parseStatement ts = some st)
    (hnb : STok.sym "!=" ∉ ts) : noBangStatement st = true := by
  have hnb := NB_of_not_mem hnb
  unfold parseStatement at h
  dsimp only at h
  split at h
  · rename_i ctes r hwith
    have hw : (∀ c ∈ ctes, noBangSel c.2 = true) ∧ NB r := by
      split at hwith
      · split at hwith
        · exact pCtes_nb _ _ _ _ hwith (NB_tail hnb)
        · cases hwith; exact ⟨by simp, hnb⟩
      · cases hwith
    split at h
    · rename_i body r2 hbody
      have hb := pSelect_nb hbody hw.2
      split at h
      · split at h
        · cases h
          simp only [noBangStatement, Bool.and_eq_true, List.all_eq_true]
          exact ⟨hw.1, hb.1⟩
        · cases h
      · cases h
    · cases h
  · cases h

end Pql.E2EFinal
