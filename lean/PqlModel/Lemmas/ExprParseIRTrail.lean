/-
`ExprParseIR`, `exprBinaryTrail`: the precedence-climbing loop, its `in (…)` form and the inner loop that
resolves operators of higher precedence first.
-/
import PqlModel.Lemmas.ExprParseIRList
namespace Pql.ExprParseIR
open Pql
set_option linter.unusedSimpArgs false
set_option maxRecDepth 8000

/-- the body of the inner loop of `exprBinaryTrail` ("resolve any higher precedence operators first") -/
def higherBody : List Stmt :=
  [.assign true [.var "op2", .var "ok"] (.pcall "p" "next" []),
   .ite (.not (.var "ok")) [.brk ""] [],
   .do_ (.pcall "p" "prev" []),
   .assign true [.var "precedence2"] (.e (.call "operatorPrecedence" [.field (.var "op2") "Kind"])),
   .ite (.or (.cmp "lt" (.var "precedence2") (.int 0)) (.cmp "le" (.var "precedence2") (.var "precedence1"))) [.brk ""] [],
   .assign false [.var "y", .var "err"] (.pcall "p" "exprBinaryTrail" [.var "y", .add (.var "precedence1") (.int 1)]),
   .ite (.cmp "ne" (.var "err") (.nil)) [.assign false [.var "finalError"] (.e (.call "joinErrors" [.var "finalError", .call "makeErrorOpaque" [.var "err"]]))] []]

/-- the body of the main loop of `exprBinaryTrail` -/
def trailBody : List Stmt :=
  [.assign true [.var "op1", .var "ok"] (.pcall "p" "next" []),
   .ite (.not (.var "ok")) [.ret [.var "x", .var "finalError"]] [],
   .assign true [.var "precedence1"] (.e (.call "operatorPrecedence" [.field (.var "op1") "Kind"])),
   .ite
     (.or (.cmp "lt" (.var "precedence1") (.int 0)) (.cmp "lt" (.var "precedence1") (.var "minPrecedence")))
     [.do_ (.pcall "p" "prev" []), .ret [.var "x", .var "finalError"]]
     [],
   .ite
     (.cmp "eq" (.field (.var "op1") "Kind") (.kind "TokenIn"))
     [.assign true [.var "lparen", .blank] (.pcall "p" "next" []),
      .ite
        (.cmp "ne" (.field (.var "lparen") "Kind") (.kind "TokenLParen"))
        [.assign false [.var "x"] (.e (.new "InExpr" ["X", "In", "Lparen", "Rparen"] [.var "x", .field (.var "op1") "Span", .call "nullSpan" [], .call "nullSpan" []])),
         .assign false [.var "finalError"] (.e (.call "joinErrors" [.var "finalError", .perr false (.field (.var "lparen") "Span")])),
         .ret [.var "x", .var "finalError"]]
        [],
      .assign true [.var "valParser"] (.pcall "p" "split" [.kind "TokenRParen"]),
      .assign true [.var "vals", .var "err"] (.pcall "valParser" "exprList" []),
      .assign false [.var "finalError"] (.e (.call "joinErrors" [.var "finalError", .call "makeErrorOpaque" [.var "err"], .mcall "endSplit" (.var "valParser")])),
      .assign true [.var "rparen", .blank] (.pcall "p" "next" []),
      .ite
        (.cmp "ne" (.field (.var "rparen") "Kind") (.kind "TokenRParen"))
        [.assign
           false
           [.var "x"]
           (.e (.new "InExpr" ["X", "In", "Lparen", "Vals", "Rparen"] [.var "x", .field (.var "op1") "Span", .field (.var "lparen") "Span", .var "vals", .call "nullSpan" []])),
         .assign false [.var "finalError"] (.e (.call "joinErrors" [.var "finalError", .perr false (.field (.var "lparen") "Span")])),
         .ret [.var "x", .var "finalError"]]
        [],
      .assign
        false
        [.var "x"]
        (.e (.new "InExpr" ["X", "In", "Lparen", "Vals", "Rparen"] [.var "x", .field (.var "op1") "Span", .field (.var "lparen") "Span", .var "vals", .field (.var "rparen") "Span"])),
      .cont]
     [],
   .assign true [.var "y", .var "err"] (.pcall "p" "unaryExpr" []),
   .ite (.cmp "ne" (.var "err") (.nil)) [.assign false [.var "finalError"] (.e (.call "joinErrors" [.var "finalError", .call "makeErrorOpaque" [.var "err"]]))] [],
   .loop "" (.bool true) higherBody,
   .assign false [.var "x"] (.e (.new "BinaryExpr" ["X", "OpSpan", "Op", "Y"] [.var "x", .field (.var "op1") "Span", .field (.var "op1") "Kind", .var "y"]))]

theorem trailIR_loop : trailIR = [.decl "finalError" "error", .loop "" (.bool true) trailBody] := rfl
theorem trailBody_notLeaves : leaves trailBody = false := by rfl
theorem higherBody_notLeaves : leaves higherBody = false := by rfl

def trailState (x : Expr) (acc : Errs) (m : Int) (p : PState) : State :=
  ⟨[("finalError", .err acc), ("p", .parser p), ("x", .expr x), ("minPrecedence", .int m)]⟩

def higherState (e : Errs) (y : Expr) (p1 : Int) (op1 : Token) (acc : Errs) (p : PState) (x : Expr) (m : Int) : State :=
  ⟨[("err", .err e), ("y", .expr y), ("precedence1", .int p1), ("ok", .bool true), ("op1", .tok op1),
    ("finalError", .err acc), ("p", .parser p), ("x", .expr x), ("minPrecedence", .int m)]⟩

theorem mkOpaque_nil : mkOpaque [] = [] := rfl

set_option maxHeartbeats 1000000 in
/-- the inner loop is `pHigher`: it runs out of budget (and then the budget was below `4 * tokens + 2`), or it ends normally with the model's `y`,
    accumulated errors and rest (the last `err` and what `prev()` could go back to do not matter) -/
theorem higherLoop (c : ICtx) (F : Nat) (ih : Below c F) (x : Expr) (m p1 : Int) (op1 : Token)
    (sk : Option TokKind) :
    ∀ (d : Nat), d ≤ F → ∀ (e : Errs) (y : Expr) (acc : Errs) (ts : List Token) (bk : Option (List Token)),
      (¬ (4 * ts.length + 2 ≤ d) ∧
        iter (loopStep c (semAt c F) (.bool true) higherBody) "" d
          (higherState e y p1 op1 acc ⟨ts, bk, sk⟩ x m) = .fuel) ∨
      ∃ e' bk',
        iter (loopStep c (semAt c F) (.bool true) higherBody) "" d
            (higherState e y p1 op1 acc ⟨ts, bk, sk⟩ x m) =
          .ok (.next (higherState e' (pHigher c.pctx d y p1 acc ts).val p1 op1 (pHigher c.pctx d y p1 acc ts).errs
            ⟨(pHigher c.pctx d y p1 acc ts).rest, bk', sk⟩ x m)) := by
  intro d
  induction d with
  | zero => intro _ e y acc ts bk; left; exact ⟨by omega, by rw [iter]⟩
  | succ d ihd =>
    intro hd e y acc ts bk
    have hd' : d ≤ F := by omega
    have hmin : min d F = d := Nat.min_eq_left hd'
    rw [iter]
    cases ts with
    | nil =>
      right
      refine ⟨e, some [], ?_⟩
      prod_simp [pHigher, loopStep, higherBody, higherState, semAt]
    | cons op2 rest =>
      simp only [pHigher]
      generalize hp2 : precOf op2.kind = p2
      by_cases h1 : p2 < 0
      · right
        refine ⟨e, none, ?_⟩
        prod_simp [loopStep, higherBody, higherState, semAt, hp2, h1]
      · by_cases h2 : p2 ≤ p1
        · right
          refine ⟨e, none, ?_⟩
          have h2' : ¬ p1 < p2 := by omega
          prod_simp [loopStep, higherBody, higherState, semAt, hp2, h1, h2, h2']
        · have h2' : p1 < p2 := by omega
          rcases (ih d hd').trail y (p1 + 1) (op2 :: rest) sk with ⟨hbt, ht⟩ | ht
          · left
            refine ⟨by bound_omega, ?_⟩
            prod_simp [loopStep, higherBody, higherState, semAt, hp2, h1, h2, h2', hmin, ht]
          · have hd0 : d ≠ 0 := by
              intro h0; subst h0; rw [runUnit_zero] at ht; cases ht
            have hprog : (pTrail c.pctx d y (p1 + 1) [] (op2 :: rest)).rest.length ≤ rest.length := by
              obtain ⟨d', rfl⟩ := Nat.exists_eq_succ_of_ne_zero hd0
              exact pTrail_progress c.pctx d' y (p1 + 1) [] op2 rest (by rw [hp2]; omega)
            generalize pTrail c.pctx d y (p1 + 1) [] (op2 :: rest) = r at ht hprog ⊢
            obtain ⟨rv, re, rr⟩ := r
            simp only [] at hprog
            by_cases he : re = []
            · subst he
              have key := ihd hd' [] rv acc rr none
              simp only [higherState] at key
              unfold higherBody at key
              rcases key with ⟨hbk, key⟩ | ⟨e', bk', key⟩
              · left
                refine ⟨by bound_omega, ?_⟩
                prod_simp [loopStep, higherBody, higherState, semAt, hp2, h1, h2, h2', hmin, ht, mkOpaque_nil]
                exact key
              · right
                refine ⟨e', bk', ?_⟩
                prod_simp [loopStep, higherBody, higherState, semAt, hp2, h1, h2, h2', hmin, ht, mkOpaque_nil]
                exact key
            · have key := ihd hd' re rv (acc ++ mkOpaque re) rr none
              simp only [higherState] at key
              unfold higherBody at key
              rcases key with ⟨hbk, key⟩ | ⟨e', bk', key⟩
              · left
                refine ⟨by bound_omega, ?_⟩
                prod_simp [loopStep, higherBody, higherState, semAt, hp2, h1, h2, h2', hmin, ht, he]
                exact key
              · right
                refine ⟨e', bk', ?_⟩
                prod_simp [loopStep, higherBody, higherState, semAt, hp2, h1, h2, h2', hmin, ht, he]
                exact key

/-- what the main loop is to be proved equal to, with the budget and the state as parameters -/
def TrailOK (c : ICtx) (F : Nat) (m : Int) (sk : Option TokKind) (b : Nat) : Prop :=
  ∀ (x : Expr) (acc : Errs) (ts : List Token) (bk : Option (List Token)),
    AgreeE (4 * ts.length + 1 ≤ b)
      (((iter (loopStep c (semAt c F) (.bool true) trailBody) "" b
          (trailState x acc m ⟨ts, bk, sk⟩)).bind (finish "p" ["Expr", "error"])).bind asPState)
      (pTrail c.pctx b x m acc ts) sk

set_option maxHeartbeats 1000000 in
/-- one iteration: the `in (…)` form -/
theorem trail_in (c : ICtx) (F : Nat) (ih : Below c F) (m : Int) (sk : Option TokKind) (b : Nat) (hb : b ≤ F)
    (ihb : TrailOK c F m sk b) (x : Expr) (acc : Errs) (op1 : Token) (rest : List Token) (bk : Option (List Token))
    (hstop : ¬ (precOf op1.kind < 0 ∨ precOf op1.kind < m)) (hin : op1.kind = .in_) :
    AgreeE (4 * (op1 :: rest).length + 1 ≤ b + 1)
      ((((match loopStep c (semAt c F) (.bool true) trailBody b (trailState x acc m ⟨op1 :: rest, bk, sk⟩) with
          | .ok (.next st') => iter (loopStep c (semAt c F) (.bool true) trailBody) "" b st'
          | .ok (.cont st') => iter (loopStep c (semAt c F) (.bool true) trailBody) "" b st'
          | .ok (.brk l st') => if l == "" || l == "" then .ok (.next st') else .ok (.brk l st')
          | .ok (.ret vs st') => .ok (.ret vs st')
          | .panic => .panic
          | .stuck => .stuck
          | .fuel => .fuel)).bind (finish "p" ["Expr", "error"])).bind asPState)
      (pTrail c.pctx (b + 1) x m acc (op1 :: rest)) sk := by
  have hmin : min b F = b := Nat.min_eq_left hb
  have h1 : ¬ precOf op1.kind < 0 := fun h => hstop (Or.inl h)
  have h2 : ¬ precOf op1.kind < m := fun h => hstop (Or.inr h)
  simp only [pTrail]
  rw [hin] at h1 h2 hstop
  cases rest with
  | nil => prod_simp [loopStep, trailBody, trailState, semAt, h1, h2, hstop, hin]
  | cons lp rest2 =>
    by_cases hlp : lp.kind = .lparen
    · have hsp := split_ir c ⟨rest2, none, sk⟩ .rparen ⟨by decide, by decide⟩
      simp only [] at hsp
      have hs1 := split_fst_le .rparen rest2
      have hs2 := split_snd_le .rparen rest2
      prod_simp [loopStep, trailBody, trailState, semAt, h1, h2, hstop, hin, hlp]
      generalize split .rparen rest2 = sp at hsp hs1 hs2 ⊢
      obtain ⟨s1, s2⟩ := sp
      rcases (ih b hb).exprList s1 (some .rparen) with ⟨hbl, hl⟩ | hl
      · prod_simp [hsp, hl, hmin]
        bound_omega
      · generalize pExprList c.pctx b s1 = rl at hl ⊢
        cases s2 with
        | nil => prod_simp [hsp, hl, hmin, endSplitP]
        | cons rp rest3 =>
          by_cases hrp : rp.kind = .rparen
          · have key := ihb (.inE x op1.span lp.span rl.val rp.span) (acc ++ mkOpaque rl.errs ++ endSplit rl.rest)
              rest3 (some (rp :: rest3))
            simp only [trailState, AgreeE, semAt] at key
            unfold trailBody at key
            prod_simp [hsp, hl, hmin, endSplitP, hrp]
            simp only [List.append_assoc, Token.span] at key
            rcases key with ⟨hbk, key⟩ | key
            · left; exact ⟨by bound_omega, key⟩
            · right; exact key
          · prod_simp [hsp, hl, hmin, endSplitP, hrp]
    · prod_simp [loopStep, trailBody, trailState, semAt, h1, h2, hstop, hin, hlp]

set_option maxHeartbeats 1000000 in
/-- one iteration: a binary operator -/
theorem trail_bin (c : ICtx) (F : Nat) (ih : Below c F) (m : Int) (sk : Option TokKind) (b : Nat) (hb : b ≤ F)
    (ihb : TrailOK c F m sk b) (x : Expr) (acc : Errs) (op1 : Token) (rest : List Token) (bk : Option (List Token))
    (hstop : ¬ (precOf op1.kind < 0 ∨ precOf op1.kind < m)) (hin : ¬ op1.kind = .in_) :
    AgreeE (4 * (op1 :: rest).length + 1 ≤ b + 1)
      ((((match loopStep c (semAt c F) (.bool true) trailBody b (trailState x acc m ⟨op1 :: rest, bk, sk⟩) with
          | .ok (.next st') => iter (loopStep c (semAt c F) (.bool true) trailBody) "" b st'
          | .ok (.cont st') => iter (loopStep c (semAt c F) (.bool true) trailBody) "" b st'
          | .ok (.brk l st') => if l == "" || l == "" then .ok (.next st') else .ok (.brk l st')
          | .ok (.ret vs st') => .ok (.ret vs st')
          | .panic => .panic
          | .stuck => .stuck
          | .fuel => .fuel)).bind (finish "p" ["Expr", "error"])).bind asPState)
      (pTrail c.pctx (b + 1) x m acc (op1 :: rest)) sk := by
  have hmin : min b F = b := Nat.min_eq_left hb
  simp only [pTrail]
  generalize hp1 : precOf op1.kind = p1 at hstop ⊢
  have h1 : ¬ p1 < 0 := fun h => hstop (Or.inl h)
  have h2 : ¬ p1 < m := fun h => hstop (Or.inr h)
  have hlu := (exprLen c.pctx b).unary rest
  rcases (ih b hb).unary rest sk with ⟨hbu, hu⟩ | hu
  · prod_simp [loopStep, trailBody, trailState, semAt, hp1, h1, h2, hstop, hin, hmin, hu]
    bound_omega
  · generalize pUnary c.pctx b rest = ry at hu hlu ⊢
    obtain ⟨yv, ye, yr⟩ := ry
    simp only [] at hlu
    have hH := higherLoop c F ih x m p1 op1 sk b hb ye yv (acc ++ mkOpaque ye) yr none
    have hlh := (exprLen c.pctx b).higher yv p1 (acc ++ mkOpaque ye) yr
    generalize pHigher c.pctx b yv p1 (acc ++ mkOpaque ye) yr = rh at hH hlh ⊢
    have key := ihb (.binary x op1.span op1.kind rh.val) rh.errs rh.rest
    simp only [trailState, AgreeE, semAt, Token.span] at key
    unfold trailBody at key
    simp only [higherState, semAt] at hH
    by_cases he : ye = []
    · subst he
      simp only [mkOpaque_nil, List.append_nil] at hH
      rcases hH with ⟨hbh, hH⟩ | ⟨e', bk', hH⟩
      · prod_simp [loopStep, trailBody, trailState, semAt, hp1, h1, h2, hstop, hin, hmin, hu, higherBody_notLeaves, hH]
        bound_omega
      · prod_simp [loopStep, trailBody, trailState, semAt, hp1, h1, h2, hstop, hin, hmin, hu, higherBody_notLeaves, hH]
        rcases key bk' with ⟨hbk, key⟩ | key
        · left; exact ⟨by bound_omega, key⟩
        · right; exact key
    · rcases hH with ⟨hbh, hH⟩ | ⟨e', bk', hH⟩
      · prod_simp [loopStep, trailBody, trailState, semAt, hp1, h1, h2, hstop, hin, hmin, hu, higherBody_notLeaves, hH,
          he]
        bound_omega
      · prod_simp [loopStep, trailBody, trailState, semAt, hp1, h1, h2, hstop, hin, hmin, hu, higherBody_notLeaves, hH,
          he]
        rcases key bk' with ⟨hbk, key⟩ | key
        · left; exact ⟨by bound_omega, key⟩
        · right; exact key

/-- the main loop of `exprBinaryTrail` is `pTrail` -/
theorem trailLoop (c : ICtx) (F : Nat) (ih : Below c F) (m : Int) (sk : Option TokKind) :
    ∀ (b : Nat), b ≤ F + 1 → TrailOK c F m sk b := by
  intro b
  induction b with
  | zero => intro _ x acc ts bk; left; exact ⟨by omega, by rw [iter]; rfl⟩
  | succ b ihb =>
    intro hb x acc ts bk
    have hb' : b ≤ F := by omega
    rw [iter]
    cases ts with
    | nil => prod_simp [pTrail, loopStep, trailBody, trailState, semAt]
    | cons op1 rest =>
      by_cases hstop : precOf op1.kind < 0 ∨ precOf op1.kind < m
      · simp only [pTrail]
        generalize hp1 : precOf op1.kind = p1 at hstop ⊢
        rcases hstop with h | h
        · prod_simp [loopStep, trailBody, trailState, semAt, hp1, h]
        · by_cases h0 : p1 < 0 <;> prod_simp [loopStep, trailBody, trailState, semAt, hp1, h, h0]
      · by_cases hin : op1.kind = .in_
        · exact trail_in c F ih m sk b hb' (ihb (by omega)) x acc op1 rest bk hstop hin
        · exact trail_bin c F ih m sk b hb' (ihb (by omega)) x acc op1 rest bk hstop hin

/-- **`exprBinaryTrail`**, one level up -/
theorem trail_step (c : ICtx) (F : Nat) (ih : Below c F) (x : Expr) (m : Int) (ts : List Token)
    (sk : Option TokKind) :
    AgreeE (4 * ts.length + 1 ≤ F + 1) (runUnit c (F + 1) "exprBinaryTrail" [.expr x, .int m] ⟨ts, none, sk⟩)
      (pTrail c.pctx (F + 1) x m [] ts) sk := by
  rw [runUnit_succ]
  simp only [runBody, trailIR_ir, params_trail, results_trail, loopFn_trail, if_true]
  have hl := trailLoop c F ih m sk (F + 1) (Nat.le_refl _) x [] ts none
  simp only [trailState, AgreeE] at hl
  prod_simp [trailIR_loop, trailBody_notLeaves]
  rcases hl with ⟨hk, hl⟩ | hl
  · left; exact ⟨by bound_omega, hl⟩
  · right; exact hl

end Pql.ExprParseIR
