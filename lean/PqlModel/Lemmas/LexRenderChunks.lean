/-
LexRender, part 6: chunks.  `atomize` cuts a fixed piece of SQL text into atoms (it is only a
proposal: `chunkOK` checks that the atoms render to exactly the text, so nothing has to be proved
about `atomize` itself); `AdjC rest cs` is the adjacency predicate on chunk lists and
`lexRender_of_adj` the compositional lexing lemma of the chunk level.
-/
import PqlModel.Lemmas.LexRenderAtoms
namespace Pql.LexRender
open Pql Sql

/-- body of a block comment before the first `*/`, and the text after it -/
def splitBlock : Bytes → Option (Bytes × Bytes)
  | [] => none
  | [_] => none
  | a :: b :: r =>
    if a == 42 && b == 47 then some ([], r)
    else (splitBlock (b :: r)).map fun p => (a :: p.1, p.2)

def atomizeAux : Nat → Bytes → List Atom
  | 0, _ => []
  | _ + 1, [] => []
  | f + 1, c :: rest =>
    if isSpaceB c then .sp c :: atomizeAux f rest
    else if isWordStart c then
      .word (c :: (spanWhile isWordCont rest).1) :: atomizeAux f (spanWhile isWordCont rest).2
    else if c == 47 && rest.head? == some 42 then
      match splitBlock rest.tail with
      | some (b, r) => .cmt b :: atomizeAux f r
      | none => []
    else if c == 34 then
      match lexQuoted .standard 34 rest with
      | some (v, r) => .qid v :: atomizeAux f r
      | none => []
    else if c == 39 then
      match lexQuoted .standard 39 rest with
      | some (v, r) => .str v :: atomizeAux f r
      | none => []
    else
      match rest with
      | d :: r =>
        if (twoCharSyms.find? (fun o => o.1 == c && o.2.1 == d)).isSome then .sym2 c d :: atomizeAux f r
        else .sym1 c :: atomizeAux f rest
      | [] => [.sym1 c]

/-- a proposed cutting of a text into atoms -/
def atomize (b : Bytes) : List Atom := atomizeAux (b.length + 1) b

def chunkAtoms : Chunk → List Atom
  | .txt s => atomize (Bytes.ofString s)
  | .qid n => [.qid n]
  | .qstr v => [.str v]
  | .num v => [.num v]
  | .fname v => [.word v]
  | .raw _ => []

/-- the atoms are a faithful cutting of the chunk's bytes (parameters' raw SQL is not covered) -/
def chunkOK : Chunk → Bool
  | .txt s => renderAtoms (atomize (Bytes.ofString s)) == Bytes.ofString s
  | .raw _ => false
  | _ => true

def atomsOf (cs : List Chunk) : List Atom := cs.flatMap chunkAtoms

/-- the tokens `lexAux` emits for a chunk list (comments included) and the number of lexer
    iterations it takes -/
def rawToksOf (cs : List Chunk) : List STok := rawToks (atomsOf cs)
def steps (cs : List Chunk) : Nat := (atomsOf cs).length

/-- **adjacency of a chunk list followed by `rest`**: every chunk is cut faithfully into atoms,
    every atom is well formed (`numOK` numbers, word-shaped function names, known symbols,
    terminated comments) and no atom is directly followed — inside its chunk, across a chunk
    boundary, or by `rest` — by a byte that would change its reading -/
def AdjC (rest : Bytes) (cs : List Chunk) : Bool := cs.all chunkOK && AdjBefore rest (atomsOf cs)

/-- adjacency of a complete text -/
def Adj (cs : List Chunk) : Bool := AdjC [] cs

theorem atomsOf_cons (c : Chunk) (cs : List Chunk) : atomsOf (c :: cs) = chunkAtoms c ++ atomsOf cs := by
  simp [atomsOf]
theorem atomsOf_append (a b : List Chunk) : atomsOf (a ++ b) = atomsOf a ++ atomsOf b := by
  simp [atomsOf]
theorem renderChunks_cons (c : Chunk) (cs : List Chunk) : renderChunks (c :: cs) = c.bytes ++ renderChunks cs := by
  simp [renderChunks]
theorem renderChunks_append (a b : List Chunk) : renderChunks (a ++ b) = renderChunks a ++ renderChunks b := by
  simp [renderChunks]
theorem toksOf_cons (c : Chunk) (cs : List Chunk) : toksOf (c :: cs) = chunkToks c ++ toksOf cs := by
  simp [toksOf]
theorem toksOf_append (a b : List Chunk) : toksOf (a ++ b) = toksOf a ++ toksOf b := by
  simp [toksOf]

theorem chunk_render {c : Chunk} (h : chunkOK c = true) : renderAtoms (chunkAtoms c) = c.bytes := by
  cases c with
  | txt s => simpa [chunkOK, chunkAtoms, Chunk.bytes] using h
  | raw v => simp [chunkOK] at h
  | _ => simp [chunkAtoms, renderAtoms, Atom.bytes, Chunk.bytes]

theorem render_atomsOf {cs : List Chunk} (h : cs.all chunkOK = true) :
    renderAtoms (atomsOf cs) = renderChunks cs := by
  induction cs with
  | nil => rfl
  | cons c r ih =>
    simp only [List.all_cons, Bool.and_eq_true] at h
    rw [atomsOf_cons, renderAtoms_append, renderChunks_cons, chunk_render h.1, ih h.2]

theorem AdjC_elim {rest : Bytes} {cs : List Chunk} (h : AdjC rest cs = true) :
    cs.all chunkOK = true ∧ AdjBefore rest (atomsOf cs) = true := by
  simpa [AdjC] using h

theorem AdjC_nil (rest : Bytes) : AdjC rest [] = true := rfl

/-- **adjacency composes**: `a ++ b` is adjacent before `rest` when `b` is, and `a` is adjacent
    before the bytes of `b` followed by `rest` -/
theorem AdjC_append {rest : Bytes} {a b : List Chunk} (ha : AdjC (renderChunks b ++ rest) a = true)
    (hb : AdjC rest b = true) : AdjC rest (a ++ b) = true := by
  obtain ⟨ha1, ha2⟩ := AdjC_elim ha
  obtain ⟨hb1, hb2⟩ := AdjC_elim hb
  simp only [AdjC, List.all_append, ha1, hb1, Bool.and_self, atomsOf_append,
    AdjBefore_append, render_atomsOf hb1, ha2, hb2]

theorem AdjC_cons {rest : Bytes} {c : Chunk} {b : List Chunk} (ha : AdjC (renderChunks b ++ rest) [c] = true)
    (hb : AdjC rest b = true) : AdjC rest (c :: b) = true :=
  AdjC_append (a := [c]) ha hb

/-- and decomposes -/
theorem AdjC_split {rest : Bytes} {a b : List Chunk} (h : AdjC rest (a ++ b) = true) :
    AdjC (renderChunks b ++ rest) a = true ∧ AdjC rest b = true := by
  obtain ⟨h1, h2⟩ := AdjC_elim h
  simp only [List.all_append, Bool.and_eq_true] at h1
  simp only [atomsOf_append, AdjBefore_append, Bool.and_eq_true, render_atomsOf h1.2] at h2
  simp [AdjC, h1.1, h1.2, h2.1, h2.2]

/-- the chunk tokens of the bridge are the atoms' tokens without the comments -/
theorem chunkToks_eq {c : Chunk} (hok : chunkOK c = true) (hadj : AdjBefore [] (chunkAtoms c) = true) :
    (rawToks (chunkAtoms c)).filter (· != .comment) = chunkToks c := by
  cases c with
  | txt s =>
    have := lex_atoms _ hadj
    rw [chunk_render hok] at this
    simp only [Chunk.bytes] at this
    simp only [chunkToks, txtToks, this, Option.getD_some]
  | raw v => simp [chunkOK] at hok
  | _ => simp [chunkAtoms, rawToks, Atom.toks, chunkToks]

theorem toksOf_eq {rest : Bytes} {cs : List Chunk} (h : AdjC rest cs = true) :
    (rawToksOf cs).filter (· != .comment) = toksOf cs := by
  induction cs generalizing rest with
  | nil => rfl
  | cons c r ih =>
    have hs := AdjC_split (a := [c]) (b := r) h
    obtain ⟨h1, h2⟩ := AdjC_elim hs.1
    simp only [List.all_cons, List.all_nil, Bool.and_true] at h1
    have h2' : AdjBefore (renderChunks r ++ rest) (chunkAtoms c) = true := by
      simpa [atomsOf] using h2
    rw [rawToksOf, atomsOf_cons, rawToks_append, List.filter_append, toksOf_cons,
      chunkToks_eq h1 (AdjBefore_nil_of h2')]
    congr 1
    exact ih hs.2

/-- **LexRender, compositional form (raw tokens).**  Lexing the bytes of an adjacent chunk list
    followed by any text `rest` that may follow it takes `steps cs` iterations, emits the
    chunks' tokens and continues with `rest`. -/
theorem lexRender_of_adj_raw (cs : List Chunk) (rest : Bytes) (fuel : Nat) (h : AdjC rest cs = true) :
    lexAux .standard (fuel + steps cs) (renderChunks cs ++ rest) =
      (lexAux .standard fuel rest).map (rawToksOf cs ++ ·) := by
  obtain ⟨h1, h2⟩ := AdjC_elim h
  rw [← render_atomsOf h1]
  exact lexAux_atoms _ fuel rest h2

/-- **LexRender, compositional form.**  The same with comments dropped, in terms of the bridge's
    `toksOf`. -/
theorem lexRender_of_adj (cs : List Chunk) (rest : Bytes) (fuel : Nat) (h : AdjC rest cs = true) :
    (lexAux .standard (fuel + steps cs) (renderChunks cs ++ rest)).map (·.filter (· != .comment)) =
      (lexAux .standard fuel rest).map (fun ts => toksOf cs ++ ts.filter (· != .comment)) := by
  rw [lexRender_of_adj_raw cs rest fuel h, ← toksOf_eq h]
  cases lexAux .standard fuel rest <;> simp

/-- `steps cs` never exceeds the fuel `Sql.lex` supplies -/
theorem steps_le {rest : Bytes} {cs : List Chunk} (h : AdjC rest cs = true) :
    steps cs ≤ (renderChunks cs).length := by
  obtain ⟨h1, h2⟩ := AdjC_elim h
  rw [← render_atomsOf h1]; exact adj_length_le h2

/-- **LexRender for a complete text.** -/
theorem lexRender_of_adj_top (cs : List Chunk) (h : Adj cs = true) :
    lex .standard (renderChunks cs) = some (toksOf cs) := by
  obtain ⟨h1, h2⟩ := AdjC_elim h
  rw [← render_atomsOf h1, lex_atoms _ h2]
  exact congrArg some (toksOf_eq h)

end Pql.LexRender
