/-
Bodies `SELECT e₁ AS a₁, …` (project) and `SELECT keys, aggregates … GROUP BY keys` (summarize).
-/
import PqlModel.Lemmas.SelSemOps2
namespace Pql.SelSem
open Pql Sql CompileOracle Intended SplitQ

/-! ### project -/

/-- the expression of a project column (`project name` stands for `project name = name`) -/
def projExpr (c : Column) : Expr :=
  match c.x with
  | .nil => .qident (match c.name with | some n => [n] | none => [])
  | x => x

theorem projectItem_eq (c : Column) :
    projectItem c = (tr false (projExpr c)).map fun e => ⟨false, e, some (identName c.name)⟩ := by
  unfold projectItem projExpr
  cases hn : c.name <;> cases hx : c.x <;> simp only [bind, Option.bind, pure]
  all_goals (split <;> (rename_i heq; rw [heq]; rfl))

theorem mapM_projectItem (cols : List Column) (its : List SelectItem)
    (h : cols.mapM projectItem = some its) :
    its = cols.map (fun c => ⟨false, trD (projExpr c), some (identName c.name)⟩) ∧
      ∀ c ∈ cols, tr false (projExpr c) = some (trD (projExpr c)) := by
  obtain ⟨h1, h2⟩ := mapM_some projectItem ⟨false, .none_, none⟩ cols its h
  have key : ∀ c ∈ cols, tr false (projExpr c) = some (trD (projExpr c)) := by
    intro c hc
    have := h2 c hc
    rw [projectItem_eq] at this
    cases hx : tr false (projExpr c) with
    | none => simp [hx] at this
    | some e => simp [trD, hx]
  refine ⟨?_, key⟩
  rw [h1]
  apply List.map_congr_left
  intro c hc
  rw [projectItem_eq, key c hc]
  rfl

theorem outCols_items (n : Bytes) (its : List SelectItem) (gb : List SExpr) (t : Table)
    (hns : ∀ it ∈ its, it.star = false) :
    outColsOf (mkSel n its none gb [] none) t = its.map fun it => it.alias.getD (Bytes.ofString "?") := by
  simp only [outColsOf, mkSel]
  rw [← flatMap_single]
  apply flatMap_congr'
  intro it hit
  simp [hns it hit]

theorem outRows_items (n : Bytes) (its : List SelectItem) (t : Table) (hns : ∀ it ∈ its, it.star = false)
    (hna : ∀ it ∈ its, hasAgg it.expr = false) :
    outRowsOf (mkSel n its none [] [] none) t =
      t.rows.map fun r => ((envOfRow [] t.cols r, [],
        its.map fun it => evalS [] (envOfRow [] t.cols r) it.expr) : ORow) := by
  have hq : isAggQ (mkSel n its none [] [] none) = false := by
    simp only [isAggQ, mkSel, List.isEmpty_nil, Bool.not_true, Bool.false_or, List.any_eq_false]
    intro it hit
    simp [hna it hit]
  unfold outRowsOf
  rw [hq]
  simp only [Bool.false_eq_true, ↓reduceIte, whereRows, mkSel, srcRowsOf, List.map_map]
  apply List.map_congr_left
  intro r _
  simp only [Function.comp_def, Prod.mk.injEq, true_and]
  rw [← flatMap_single]
  apply flatMap_congr'
  intro it hit
  simp [hns it hit]

theorem hasAgg_projExpr (c : Column) (h : Rel.isAggExpr c.x = false)
    (htr : tr false (projExpr c) = some (trD (projExpr c))) : hasAgg (trD (projExpr c)) = false := by
  cases hx : c.x with
  | nil =>
    have hp : projExpr c = .qident (match c.name with | some n => [n] | none => []) := by
      unfold projExpr; rw [hx]
    rw [hp]
    cases c.name with
    | none => simp [trD, tr, hasAgg]
    | some i =>
      simp only [trD, tr]
      split
      · simp [hasAgg]
      · split
        · simp [hasAgg]
        · split <;> simp [hasAgg]
  | _ =>
    have hp : projExpr c = c.x := by
      unfold projExpr; rw [hx]
    rw [hp] at htr ⊢
    rw [← isAggExpr_trD _ htr]
    exact h

theorem sel_project (src : Bytes) (db : DB) (ctes : List (Bytes × Table)) (a : SubA) (n : Bytes)
    (pp k : Span) (cols : List Column) (its : List SelectItem) (hits : cols.mapM projectItem = some its)
    (hna : ∀ c ∈ cols, Rel.isAggExpr c.x = false)
    (obs : List OrderTerm) (lim : Option SExpr) (ho : obsOf a = some obs) (hl : limOf a = some lim)
    (hop : a.op = some (.project pp k cols)) (hs : a.sort = none) :
    evalSelect db ctes (mkSel n its none [] obs lim) = subEvalA src db (lookupTable db ctes n) a := by
  obtain ⟨hi, htr⟩ := mapM_projectItem cols its hits
  subst hi
  have hns : ∀ it ∈ cols.map (fun c => (⟨false, trD (projExpr c), some (identName c.name)⟩ : SelectItem)),
      it.star = false := by
    intro it hit
    simp only [List.mem_map] at hit
    obtain ⟨c, _, rfl⟩ := hit; rfl
  apply sel_core src db ctes a n _ _ _ obs lim ho hl (lookupTable db ctes n).rows
    (fun r => ((envOfRow [] (lookupTable db ctes n).cols r, [],
        (cols.map (fun c => (⟨false, trD (projExpr c), some (identName c.name)⟩ : SelectItem))).map
          fun it => evalS [] (envOfRow [] (lookupTable db ctes n).cols r) it.expr) : ORow))
    (Rel.interpOp src db (lookupTable db ctes n) (.project pp k cols))
  · rw [outCols_items n _ [] _ hns]
    simp only [Rel.interpOp, List.map_map]
    apply List.map_congr_left
    intro c _
    show identName c.name = (c.name.map (·.name)).getD []
    cases c.name <;> rfl
  · apply outRows_items n _ _ hns
    intro it hit
    simp only [List.mem_map] at hit
    obtain ⟨c, hc, rfl⟩ := hit
    exact hasAgg_projExpr c (hna c hc) (htr c hc)
  · simp only [Rel.interpOp, List.map_map]
    apply List.map_congr_left
    intro r _
    apply List.map_congr_left
    intro c hc
    show _ = evalS [] (envOfRow [] (lookupTable db ctes n).cols r) (trD (projExpr c))
    rw [← evalP_trD _ _ _ (htr c hc)]
    unfold projExpr
    cases hx : c.x <;> simp only [Rel.rowEnv]
    cases c.name <;> rfl
  · left; exact hs
  · simp [opPartA, hop, interpClause]

end Pql.SelSem
