/-
`splitQueries` is parametric in contents: the mapped pipeline is split in the same way, into
subqueries that are the images of the original ones (and each of them can be written:
inertness and the side facts `SubOK` travel with the relation).
-/
import PqlModel.Lemmas.ShapeJoin
namespace Pql

/-! ### the join step of `splitOps`, cut out -/

def flavorNameOf (fl : Option Ident) : Bytes :=
  match fl with | some f => f.name | none => Bytes.ofString "innerunique"

def joinKwOf (fn : Bytes) : Option String :=
  if fn == Bytes.ofString "inner" || fn == Bytes.ofString "innerunique" then some " JOIN "
  else if fn == Bytes.ofString "leftouter" then some " LEFT JOIN "
  else none

def joinLeftOf (source : Option Ident) (ds n : Nat) (e1 : Option Subquery) : List Chunk :=
  if ((n : Int) - 1) ≥ (ds : Int) then
    match e1 with
    | some s => [.qid s.name]
    | none => []
  else [.qid (identName source)]

def joinRightOf (g : Option Subquery) : Bytes :=
  match g with | some s => s.name | none => []

def joinSrc (unique : Bool) (kw : String) (left : List Chunk) (right : Bytes) (cond : List Chunk) : List Chunk :=
  (if unique then [.txt "(SELECT DISTINCT * FROM "] else []) ++ left ++
  (if unique then [.txt ")"] else []) ++
  [.txt (" AS \"" ++ Facts.leftJoinTableAlias ++ "\""), .txt kw, .qid right,
   .txt (" AS \"" ++ Facts.rightJoinTableAlias ++ "\" ON ")] ++ cond

/-- the subquery a join operator adds after its right-hand side has been split into `d` -/
def joinSub (src : Bytes) (scope : Scope) (source : Option Ident) (ds n : Nat) (d : List Subquery)
    (fn : Bytes) (conds : ExprList) : Except WErr Subquery :=
  match joinKwOf fn with
  | none => .error .err
  | some kw => do
    let cond ← writeExpr ⟨src, scope, .join⟩ (buildJoinCondition conds)
    pure { name := subqueryName d.length,
           source := joinSrc (fn == Bytes.ofString "innerunique") kw
             (joinLeftOf source ds n d[((n : Int) - 1).toNat]?) (joinRightOf d.getLast?) cond }

theorem splitOps_join (src : Bytes) (scope : Scope) (source : Option Ident) (ds : Nat) (dst : List Subquery)
    (p k kind ka : Span) (flavor : Option Ident) (lp : Span) (right : Tabular) (rp on : Span) (conds : ExprList)
    (rest : OpList) :
    splitOps src scope source ds dst (.cons (.join p k kind ka flavor lp right rp on conds) rest) =
      (splitQueries src scope dst right >>= fun d =>
        joinSub src scope source ds dst.length d (flavorNameOf flavor) conds >>= fun sub =>
          splitOps src scope source ds (d ++ [sub]) rest) := by
  simp only [splitOps]
  cases splitQueries src scope dst right with
  | error e => rfl
  | ok d =>
    show _ = (joinSub src scope source ds dst.length d (flavorNameOf flavor) conds >>= _)
    show (Except.ok d >>= _) = _
    rw [show ∀ (f : List Subquery → Except WErr (List Subquery)), (Except.ok d >>= f) = f d from fun _ => rfl]
    split
    · rename_i hk
      have hk' : joinKwOf (flavorNameOf flavor) = none := hk
      simp only [joinSub, hk']
      rfl
    · rename_i kw hk
      have hk' : joinKwOf (flavorNameOf flavor) = some kw := hk
      simp only [joinSub, hk']
      cases writeExpr { src := src, scope := scope, mode := Mode.join } (buildJoinCondition conds) with
      | error e => rfl
      | ok c => rfl

theorem flavorNameOf_map (φ : CMap) (fl : Option Ident) : flavorNameOf (fl.map φ.fnIdent) = flavorNameOf fl := by
  cases fl <;> rfl

/-- what the splitter needs of the relation beyond `MapCong`: generated names and the empty
    name (a missing identifier) are related to themselves -/
structure SplitCong (φ : CMap) (R : List Chunk → List Chunk → Prop) : Prop where
  cong : MapCong φ R
  gen : ∀ i, R [.qid (subqueryName i)] [.qid (subqueryName i)]
  qnil : R [.qid []] [.qid []]

/-! ### conditions on a whole pipeline -/

def inertTermOpt (s : Scope) (φ : CMap) : Option SortTerm → Bool
  | some t => inertE s .default φ t.x
  | none => true

mutual
/-- inertness of every expression of the pipeline, each in the mode it is written in; a pipeline
    with a join needs a renaming that fixes `$left` / `$right` -/
def inertT (s : Scope) (φ : CMap) : Tabular → Bool
  | .nil => true
  | .mk _ ops => inertOps s φ ops
def inertOps (s : Scope) (φ : CMap) : OpList → Bool
  | .nil => true
  | .cons o os => inertO s φ o && inertOps s φ os
def inertO (s : Scope) (φ : CMap) : Op → Bool
  | .sort _ _ ts => inertTerms s .default φ ts
  | .take _ _ n => inertE s .default φ n
  | .top _ _ n _ c => inertE s .default φ n && inertTermOpt s φ c
  | .join _ _ _ _ _ _ right _ _ conds => inertT s φ right && inertL s .join φ conds && fixesAliases φ
  | o => inertOp s .default φ o
end

mutual
/-- the side facts about output that does not come through `writeExpr` (aliases of unnamed
    columns, render properties), for every operator of the pipeline -/
def TabOK (φ : CMap) (R : List Chunk → List Chunk → Prop) (src src' : Bytes) : Tabular → Prop
  | .nil => True
  | .mk _ ops => OpsOK φ R src src' ops
def OpsOK (φ : CMap) (R : List Chunk → List Chunk → Prop) (src src' : Bytes) : OpList → Prop
  | .nil => True
  | .cons o os => OpOKJ φ R src src' o ∧ OpsOK φ R src src' os
def OpOKJ (φ : CMap) (R : List Chunk → List Chunk → Prop) (src src' : Bytes) : Op → Prop
  | .join _ _ _ _ _ _ right _ _ _ => TabOK φ R src src' right
  | o => OpOK φ R src src' o
end

/-- related subqueries, the first of which satisfies the hypotheses of `Subquery.write_mrel` -/
structure WSubRel (φ : CMap) (R : List Chunk → List Chunk → Prop) (src src' : Bytes) (s : Scope)
    (sub sub' : Subquery) : Prop extends MSubRel φ R sub sub' where
  inert : inertSub s .default φ sub = true
  ok : SubOK φ R src src' sub

section
variable {φ : CMap} {R : List Chunk → List Chunk → Prop} {src src' : Bytes} {s s' : Scope}

local notation "Rel" => WSubRel φ R src src' s

theorem mchain_rel (H : SplitCong φ R) {dst dst' : List Subquery} (h : ListRel Rel dst dst') (ds : Nat)
    (source : Option Ident) :
    Rel (chainSubquery dst ds source) (chainSubquery dst' ds (source.map φ.ident)) := by
  have hsrc : R (chainSubquery dst ds source).source (chainSubquery dst' ds (source.map φ.ident)).source := by
    unfold chainSubquery
    rw [← h.length_eq]
    dsimp only
    split
    · have hg := h.getLast?
      revert hg
      generalize dst.getLast? = g
      generalize dst'.getLast? = g'
      intro hg
      cases hg with
      | none => exact H.cong.nil
      | some hab => exact hab.name
    · exact identName_rel H.cong source fun _ => H.qnil
  refine ⟨⟨?_, hsrc, rfl, rfl, rfl⟩, rfl, trivial⟩
  unfold chainSubquery
  rw [← h.length_eq]
  exact H.gen _

theorem mlastOf_rel {dst dst' : List Subquery} (h : ListRel Rel dst dst') (ds : Nat) :
    OptRel Rel (lastOf dst ds) (lastOf dst' ds) := by
  unfold lastOf
  rw [← h.length_eq]
  split
  · exact h.getLast?
  · exact .none

theorem msetLast_rel {dst dst' : List Subquery} (h : ListRel Rel dst dst') {f g : Subquery → Subquery}
    (hf : ∀ a b, Rel a b → Rel (f a) (g b)) : ListRel Rel (setLast dst f) (setLast dst' g) := by
  unfold setLast
  have hr := h.reverse
  revert hr
  generalize dst.reverse = r
  generalize dst'.reverse = r'
  intro hr
  cases hr with
  | nil => exact .nil
  | cons hab hrest => exact (ListRel.cons (hf _ _ hab) hrest).reverse

theorem mattach_dst_rel (H : SplitCong φ R) {dst dst' : List Subquery} (h : ListRel Rel dst dst') (c : Bool)
    (ds : Nat) (source : Option Ident) :
    ListRel Rel (if c = true then dst else dst ++ [chainSubquery dst ds source])
      (if c = true then dst' else dst' ++ [chainSubquery dst' ds (source.map φ.ident)]) := by
  cases c with
  | true => exact h
  | false =>
    simp only [Bool.false_eq_true, if_false]
    exact h.append (ListRel.single (mchain_rel H h ds source))

/-- pushing a subquery that carries an operator -/
theorem mpush_op_rel (H : SplitCong φ R) {dst dst' : List Subquery} (h : ListRel Rel dst dst') (ds : Nat)
    (source : Option Ident) (o : Op) (hi : inertOp s .default φ o = true) (hok : OpOK φ R src src' o) :
    ListRel Rel (dst ++ [{ chainSubquery dst ds source with op := some o }])
      (dst' ++ [{ chainSubquery dst' ds (source.map φ.ident) with op := some (mapOp φ o) }]) := by
  have hc := mchain_rel H h ds source
  refine h.append (ListRel.single ⟨⟨hc.name, hc.source, rfl, rfl, rfl⟩, ?_, hok⟩)
  simp only [inertSub, inertOpOpt, inertSortOpt, inertTakeOpt, chainSubquery, hi, Bool.and_self]

theorem mattach3_eq {a b : Subquery} (hab : Rel a b) :
    (canAttachSort b.op && b.sort.isNone && b.take.isNone) = (canAttachSort a.op && a.sort.isNone && a.take.isNone) := by
  rw [hab.op, hab.sort, hab.take, canAttachSort_mapOp]
  simp only [Option.isNone_map]

theorem mattach2_eq {a b : Subquery} (hab : Rel a b) :
    (canAttachSort b.op && b.take.isNone) = (canAttachSort a.op && a.take.isNone) := by
  rw [hab.op, hab.take, canAttachSort_mapOp]
  simp only [Option.isNone_map]

theorem inertSub_split {sub : Subquery} (h : inertSub s .default φ sub = true) :
    inertOpOpt s .default φ sub.op = true ∧ inertSortOpt s .default φ sub.sort = true ∧
      inertTakeOpt s .default φ sub.take = true := by
  simp only [inertSub, Bool.and_eq_true] at h
  exact ⟨h.1.1, h.1.2, h.2⟩

theorem inertSub_mk {name : Bytes} {source : List Chunk} {op : Option Op} {sort : Option (List SortTerm)}
    {take : Option Expr} (h1 : inertOpOpt s .default φ op = true) (h2 : inertSortOpt s .default φ sort = true)
    (h3 : inertTakeOpt s .default φ take = true) :
    inertSub s .default φ ⟨name, source, op, sort, take⟩ = true := by
  simp only [inertSub, h1, h2, h3, Bool.and_self]

/-- setting the sort terms of a subquery -/
theorem setSort_rel (ts : List SortTerm) (hts : inertTerms s .default φ ts = true) (a b : Subquery) (hab : Rel a b) :
    Rel { a with sort := some ts } { b with sort := some (ts.map (mapSortTerm φ)) } := by
  obtain ⟨h1, _, h3⟩ := inertSub_split hab.inert
  exact ⟨⟨hab.name, hab.source, hab.op, rfl, hab.take⟩, inertSub_mk h1 hts h3, hab.ok⟩

theorem setTake_rel (n : Expr) (hn : inertE s .default φ n = true) (a b : Subquery) (hab : Rel a b) :
    Rel { a with take := some n } { b with take := some (mapE φ n) } := by
  obtain ⟨h1, h2, _⟩ := inertSub_split hab.inert
  exact ⟨⟨hab.name, hab.source, hab.op, hab.sort, rfl⟩, inertSub_mk h1 h2 hn, hab.ok⟩

theorem setSortTake_rel (c : SortTerm) (hc : inertE s .default φ c.x = true) (n : Expr)
    (hn : inertE s .default φ n = true) (a b : Subquery) (hab : Rel a b) :
    Rel { a with sort := some [c], take := some n } { b with sort := some [mapSortTerm φ c], take := some (mapE φ n) } := by
  obtain ⟨h1, _, _⟩ := inertSub_split hab.inert
  refine ⟨⟨hab.name, hab.source, hab.op, rfl, rfl⟩, inertSub_mk h1 ?_ hn, hab.ok⟩
  simp only [inertSortOpt, inertTerms, List.all_cons, List.all_nil, hc, Bool.and_self]

theorem joinSub_rel (H : SplitCong φ R) (hs : ScopeRel R s s') (hf : fixesAliases φ = true)
    (conds : ExprList) (hi : inertL s .join φ conds = true) {d d' : List Subquery} (hd : ListRel Rel d d')
    (source : Option Ident) (ds n : Nat) (fn : Bytes) :
    ExRel Rel (joinSub src s source ds n d fn conds)
      (joinSub src' s' (source.map φ.ident) ds n d' fn (mapL φ conds)) := by
  unfold joinSub
  cases joinKwOf fn with
  | none => exact ExRel.error_error _
  | some kw =>
    dsimp only
    refine ExRel.bind (buildJoin_rel H.cong hs hf conds hi) fun c c' hc => ExRel.pure_pure ?_
    rw [← hd.length_eq]
    refine ⟨⟨H.gen _, ?_, rfl, rfl, rfl⟩, rfl, trivial⟩
    have hC := H.cong
    have hg := hd.getLast?
    have he := hd.getElem? ((n : Int) - 1).toNat
    revert hg he
    generalize d.getLast? = g
    generalize d'.getLast? = g'
    generalize d[((n : Int) - 1).toNat]? = e1
    generalize d'[((n : Int) - 1).toNat]? = e1'
    intro hg he
    have hright : R [Chunk.qid (joinRightOf g)] [Chunk.qid (joinRightOf g')] := by
      cases hg with
      | none => exact H.qnil
      | some hab => exact hab.name
    have hleft : R (joinLeftOf source ds n e1) (joinLeftOf (source.map φ.ident) ds n e1') := by
      unfold joinLeftOf
      split
      · cases he with
        | none => exact hC.nil
        | some hab => exact hab.name
      · exact identName_rel hC source fun _ => H.qnil
    show R (joinSrc _ _ _ _ _) (joinSrc _ _ _ _ _)
    unfold joinSrc
    refine hC.append (hC.append (hC.append (hC.append ?_ hleft) ?_) ?_) hc
    · split
      · exact hC.txt _
      · exact hC.nil
    · split
      · exact hC.txt _
      · exact hC.nil
    · exact hC.cons_txt _ (hC.cons_txt _ (hC.cons_of hright (hC.txt _)))

mutual
theorem msplitQueries_rel (H : SplitCong φ R) (hs : ScopeRel R s s') :
    (t : Tabular) → inertT s φ t = true → TabOK φ R src src' t → (dst dst' : List Subquery) → ListRel Rel dst dst' →
      ExRel (ListRel Rel) (splitQueries src s dst t) (splitQueries src' s' dst' (mapT φ t))
  | .nil, _, _, dst, dst', _ => by
    simp only [mapT, splitQueries]
    exact ExRel.error_error _
  | .mk source ops, hi, hok, dst, dst', h => by
    simp only [inertT] at hi
    simp only [TabOK] at hok
    simp only [mapT, splitQueries]
    rw [← h.length_eq]
    refine ExRel.bind (msplitOps_rel H hs ops hi hok source dst.length dst dst' h) fun d d' hd => ?_
    rw [← hd.length_eq]
    split
    · exact ExRel.pure_pure (hd.append (ListRel.single (mchain_rel H hd _ source)))
    · exact ExRel.pure_pure hd

theorem msplitOps_rel (H : SplitCong φ R) (hs : ScopeRel R s s') :
    (ops : OpList) → inertOps s φ ops = true → OpsOK φ R src src' ops → (source : Option Ident) → (ds : Nat) →
      (dst dst' : List Subquery) → ListRel Rel dst dst' →
      ExRel (ListRel Rel) (splitOps src s source ds dst ops)
        (splitOps src' s' (source.map φ.ident) ds dst' (mapOps φ ops))
  | .nil, _, _, source, ds, dst, dst', h => by
    simp only [mapOps, splitOps]
    exact ExRel.pure_pure h
  | .cons (.as_ p kw name) rest, hi, hok, source, ds, dst, dst', h => by
    simp only [inertOps, Bool.and_eq_true] at hi
    simp only [OpsOK] at hok
    simp only [mapOps, mapOp, splitOps]
    refine msplitOps_rel H hs rest hi.2 hok.2 source ds _ _ ?_
    have hc := mchain_rel H h ds source
    refine h.append (ListRel.single ⟨⟨?_, hc.source, rfl, rfl, rfl⟩, rfl, trivial⟩)
    exact identName_rel H.cong name fun _ => H.qnil
  | .cons (.count p kw) rest, hi, hok, source, ds, dst, dst', h => by
    simp only [inertOps, Bool.and_eq_true] at hi
    simp only [OpsOK] at hok
    simp only [mapOps, mapOp, splitOps]
    exact msplitOps_rel H hs rest hi.2 hok.2 source ds _ _ (mpush_op_rel H h ds source (.count p kw) rfl trivial)
  | .cons (.render p kw c w lp props rp) rest, hi, hok, source, ds, dst, dst', h => by
    simp only [inertOps, Bool.and_eq_true] at hi
    simp only [OpsOK, OpOKJ] at hok
    simp only [mapOps, mapOp, splitOps]
    exact msplitOps_rel H hs rest hi.2 hok.2 source ds _ _
      (mpush_op_rel H h ds source (.render p kw c w lp props rp) rfl hok.1)
  | .cons (.where_ p kw e) rest, hi, hok, source, ds, dst, dst', h => by
    simp only [inertOps, inertO, Bool.and_eq_true] at hi
    simp only [OpsOK, OpOKJ] at hok
    simp only [mapOps, mapOp, splitOps]
    exact msplitOps_rel H hs rest hi.2 hok.2 source ds _ _ (mpush_op_rel H h ds source (.where_ p kw e) hi.1 hok.1)
  | .cons (.project p kw cs) rest, hi, hok, source, ds, dst, dst', h => by
    simp only [inertOps, inertO, Bool.and_eq_true] at hi
    simp only [OpsOK, OpOKJ] at hok
    simp only [mapOps, mapOp, splitOps]
    exact msplitOps_rel H hs rest hi.2 hok.2 source ds _ _ (mpush_op_rel H h ds source (.project p kw cs) hi.1 hok.1)
  | .cons (.extend p kw cs) rest, hi, hok, source, ds, dst, dst', h => by
    simp only [inertOps, inertO, Bool.and_eq_true] at hi
    simp only [OpsOK, OpOKJ] at hok
    simp only [mapOps, mapOp, splitOps]
    exact msplitOps_rel H hs rest hi.2 hok.2 source ds _ _ (mpush_op_rel H h ds source (.extend p kw cs) hi.1 hok.1)
  | .cons (.summarize p kw cs b gs) rest, hi, hok, source, ds, dst, dst', h => by
    simp only [inertOps, inertO, Bool.and_eq_true] at hi
    simp only [OpsOK, OpOKJ] at hok
    simp only [mapOps, mapOp, splitOps]
    exact msplitOps_rel H hs rest hi.2 hok.2 source ds _ _
      (mpush_op_rel H h ds source (.summarize p kw cs b gs) hi.1 hok.1)
  | .cons (.sort p kw terms) rest, hi, hok, source, ds, dst, dst', h => by
    simp only [inertOps, inertO, Bool.and_eq_true] at hi
    simp only [OpsOK] at hok
    simp only [mapOps, mapOp, splitOps]
    have hl := mlastOf_rel h ds
    revert hl
    generalize lastOf dst ds = l
    generalize lastOf dst' ds = l'
    intro hl
    cases hl with
    | none =>
      exact msplitOps_rel H hs rest hi.2 hok.2 source ds _ _
        (msetLast_rel (mattach_dst_rel H h false ds source) (setSort_rel terms hi.1))
    | some hab =>
      simp only [mattach3_eq hab]
      exact msplitOps_rel H hs rest hi.2 hok.2 source ds _ _
        (msetLast_rel (mattach_dst_rel H h _ ds source) (setSort_rel terms hi.1))
  | .cons (.take p kw n) rest, hi, hok, source, ds, dst, dst', h => by
    simp only [inertOps, inertO, Bool.and_eq_true] at hi
    simp only [OpsOK] at hok
    simp only [mapOps, mapOp, splitOps]
    have hl := mlastOf_rel h ds
    revert hl
    generalize lastOf dst ds = l
    generalize lastOf dst' ds = l'
    intro hl
    cases hl with
    | none =>
      exact msplitOps_rel H hs rest hi.2 hok.2 source ds _ _
        (msetLast_rel (mattach_dst_rel H h false ds source) (setTake_rel n hi.1))
    | some hab =>
      simp only [mattach2_eq hab]
      exact msplitOps_rel H hs rest hi.2 hok.2 source ds _ _
        (msetLast_rel (mattach_dst_rel H h _ ds source) (setTake_rel n hi.1))
  | .cons (.top p kw n by_ col) rest, hi, hok, source, ds, dst, dst', h => by
    simp only [inertOps, inertO, Bool.and_eq_true] at hi
    simp only [OpsOK] at hok
    simp only [mapOps, mapOp, splitOps]
    cases col with
    | none => exact ExRel.error_error _
    | some c =>
      simp only [Option.map_some]
      have hc : inertE s .default φ c.x = true := hi.1.2
      have hl := mlastOf_rel h ds
      revert hl
      generalize lastOf dst ds = l
      generalize lastOf dst' ds = l'
      intro hl
      cases hl with
      | none =>
        exact msplitOps_rel H hs rest hi.2 hok.2 source ds _ _
          (msetLast_rel (mattach_dst_rel H h false ds source) (setSortTake_rel c hc n hi.1.1))
      | some hab =>
        simp only [mattach3_eq hab]
        exact msplitOps_rel H hs rest hi.2 hok.2 source ds _ _
          (msetLast_rel (mattach_dst_rel H h _ ds source) (setSortTake_rel c hc n hi.1.1))
  | .cons (.join p kw kind ka flavor lp right rp on conds) rest, hi, hok, source, ds, dst, dst', h => by
    simp only [inertOps, inertO, Bool.and_eq_true] at hi
    simp only [OpsOK, OpOKJ] at hok
    rw [splitOps_join]
    simp only [mapOps, mapOp]
    rw [splitOps_join, flavorNameOf_map, ← h.length_eq]
    refine ExRel.bind (msplitQueries_rel H hs right hi.1.1.1 hok.1 dst dst' h) fun d d' hd => ?_
    refine ExRel.bind (joinSub_rel H hs hi.1.2 conds hi.1.1.2 hd source ds dst.length _) fun sub sub' hsub => ?_
    exact msplitOps_rel H hs rest hi.2 hok.2 source ds _ _ (hd.append (ListRel.single hsub))
end

end

end Pql
