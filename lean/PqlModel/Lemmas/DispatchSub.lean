/-
The sub-scanners `scanIdent`, `stringLoop`, `qidentLoop` of the model equal the interpretation of the
regenerated shapes of `(*scanner).ident`, `(*scanner).string`, `(*scanner).quotedIdent`.
-/
import PqlModel.Lemmas.DispatchRune
namespace Pql.Dispatch
open Pql
open Pql.Facts (StrAction)
set_option linter.unusedSimpArgs false

/-! ### ident -/

set_option maxRecDepth 100000 in
/-- the extracted continuation condition is the model's `isIdentCont`, on every byte -/
theorem identCont_all : ∀ n, n < 256 →
    condHolds Facts.identCont.1 Facts.identCont.2 n = some (isIdentCont (UInt8.ofNat n)) := by
  decide

theorem identContByte_eq (c : UInt8) : identContByte c = some (isIdentCont c) := by
  have := identCont_all c.toNat (UInt8.toNat_lt c)
  rwa [UInt8.ofNat_toNat] at this

theorem identLoopI_eq (s : Bytes) : identLoopI s = some (identLoop s) := by
  induction s with
  | nil => rfl
  | cons c rest ih =>
    simp only [identLoopI, identContByte_eq, identLoop, ih]
    cases isIdentCont c <;> simp

theorem keyword_kinds_known :
    Facts.keywords.all (fun kv => (TokKind.ofGoName kv.2).isSome) = true := by decide

theorem identKind_eq : TokKind.ofGoName Facts.identKind = some .ident := by decide

/-- **`scanIdent` is the interpretation of the extracted shape of `(*scanner).ident`** -/
theorem identInterp_eq (s : Bytes) : identInterp s = some (scanIdent s) := by
  unfold identInterp scanIdent keywordKind
  simp only [identLoopI_eq, identKind_eq]
  cases hf : Facts.keywords.find? (fun kv => Bytes.ofString kv.1 == List.take (identLoop s.tail + 1) s) with
  | none => simp
  | some kv =>
    have hm := List.mem_of_find?_eq_some hf
    have := (List.all_eq_true.mp keyword_kinds_known) kv hm
    cases hk : TokKind.ofGoName kv.2 with
    | none => simp [hk] at this
    | some k => simp [hk, Facts.identKeywordClearsValue]

/-! ### string -/

theorem strSelect_outer (q c : UInt8) :
    strSelect Facts.stringCases Facts.stringDefault q.toNat c.toNat =
      if c == q then .close else if c == 10 then .bad true else if c == 92 then .escape else .copy := by
  have e10 : ((10 : Nat) == c.toNat) = (c == 10) := by rw [beq_toNat]; exact Bool.beq_comm
  have e92 : ((92 : Nat) == c.toNat) = (c == 92) := by rw [beq_toNat]; exact Bool.beq_comm
  have eq : (q.toNat == c.toNat) = (c == q) := by rw [beq_toNat c q]; exact Bool.beq_comm
  simp only [strSelect, Facts.stringCases, Facts.stringDefault, List.find?_cons, Option.getD_none,
    Option.getD_some, eq, e10, e92, List.find?_nil]
  cases c == q <;> cases c == 10 <;> cases c == 92 <;> rfl

theorem strSelect_escape (q e : UInt8) :
    strSelect Facts.stringEscapes Facts.stringEscapeDefault q.toNat e.toNat =
      if e == 10 then .bad true else if e == 110 then .rune 10 else if e == 116 then .rune 9 else .copy := by
  have e10 : ((10 : Nat) == e.toNat) = (e == 10) := by rw [beq_toNat]; exact Bool.beq_comm
  have e110 : ((110 : Nat) == e.toNat) = (e == 110) := by rw [beq_toNat]; exact Bool.beq_comm
  have e116 : ((116 : Nat) == e.toNat) = (e == 116) := by rw [beq_toNat]; exact Bool.beq_comm
  simp only [strSelect, Facts.stringEscapes, Facts.stringEscapeDefault, List.find?_cons,
    Option.getD_some, e10, e110, e116, List.find?_nil]
  cases e == 10 <;> cases e == 110 <;> cases e == 116 <;> rfl

/-- **`stringLoop` is the interpretation of the two extracted switches of `(*scanner).string`**,
    for every opening byte `q` and every suffix -/
theorem strInterp_eq (q : UInt8) (s : Bytes) : strInterp q s = some (stringLoop q s) := by
  induction hn : s.length using Nat.strongRecOn generalizing s with
  | _ n ih =>
    cases s with
    | nil => rfl
    | cons c rest =>
      rw [strInterp.eq_def, stringLoop.eq_def]
      simp only [strSelect_outer]
      by_cases h1 : c = q
      · simp [h1]
      simp only [beq_iff_eq, h1, ↓reduceIte]
      by_cases h2 : c = 10
      · simp [h2]
      simp only [h2, ↓reduceIte]
      by_cases h3 : c = 92
      · simp only [h3, ↓reduceIte]
        cases rest with
        | nil => rfl
        | cons e rest' =>
          simp only [strSelect_escape]
          have ihr := ih rest'.length (by simp at hn; omega) rest' rfl
          by_cases g1 : e = 10
          · simp [g1]
          by_cases g2 : e = 110
          · subst g2; simp [ihr]
          by_cases g3 : e = 116
          · subst g3; simp [ihr]
          simp [g1, g2, g3, ihr]
      · simp only [h3, ↓reduceIte]
        rw [ih rest.length (by simp at hn; omega) rest rfl]
        rfl

/-! ### quoted identifier -/

/-- **`qidentLoop` is the interpretation of the extracted shape of `(*scanner).quotedIdent`** -/
theorem qidentInterp_eq (s : Bytes) : qidentInterp s = qidentLoop s := by
  induction hn : s.length using Nat.strongRecOn generalizing s with
  | _ n ih =>
    cases s with
    | nil => rfl
    | cons c rest =>
      have e96 (x : UInt8) : (x.toNat == 96) = (x == 96) := by rw [beq_toNat]; rfl
      have e10 (x : UInt8) : (x.toNat == 10) = (x == 10) := by rw [beq_toNat]; rfl
      rw [qidentInterp.eq_def, qidentLoop.eq_def]
      simp only [Facts.quotedIdentShape, e96, e10]
      by_cases h1 : c = 96
      · subst h1
        cases rest with
        | nil => rfl
        | cons d rest' =>
          by_cases h2 : d = 96
          · subst h2
            simp [ih rest'.length (by simp at hn; omega) rest' rfl]
          · simp [h2]
      · simp only [beq_iff_eq, h1, ↓reduceIte]
        by_cases h2 : c = 10
        · simp [h2]
        · simp [h2, ih rest.length (by simp at hn; omega) rest rfl]

end Pql.Dispatch
