/-
Stage 2 of property C08, continued: the mutually recursive block
`pTabular` / `pOps` / `pOperator` / `pJoin`, and `pLet`.
-/
import PqlModel.Lemmas.AccountedOps
namespace Pql
open Grammar

theorem unparseOps_snoc : ∀ (ops : OpList) (o : Op) (uo u : List UTok),
    unparseOps ops = some uo → unparseOp o = some u → unparseOps (ops.snoc o) = some (uo ++ u)
  | .nil, o, uo, u, h1, h2 => by
    simp only [unparseOps, Option.some.injEq] at h1
    subst h1
    simp [OpList.snoc, unparseOps, h2]
  | .cons a as, o, uo, u, h1, h2 => by
    simp only [unparseOps, Option.bind_eq_bind, Option.pure_def] at h1
    cases ha : unparseOp a with
    | none => simp [ha] at h1
    | some ua =>
      cases has : unparseOps as with
      | none => simp [ha, has] at h1
      | some uas =>
        simp only [ha, has, Option.bind_some, Option.some.injEq] at h1
        subst h1
        have ih := unparseOps_snoc as o uas u has h2
        simp [OpList.snoc, unparseOps, ha, ih]

theorem unparseTabular_mk {s : Ident} {ops : OpList} {os : List UTok} (h : unparseOps ops = some os) :
    unparseTabular (.mk (some s) ops) = some (identTok s :: os) := by
  simp [unparseTabular, h]

/-- the operator loop only ever adds to the error accumulator -/
theorem pOps_errs_nil (c : PCtx) (fuel : Nat) : ∀ (ops : OpList) (acc : Errs) (ts : List Token),
    (pOps c fuel ops acc ts).errs = [] → acc = [] := by
  induction fuel with
  | zero => intro ops acc ts h; simp [pOps] at h
  | succ f ih =>
    intro ops acc ts
    unfold pOps
    split
    · exact id
    · dsimp only
      split
      · exact id
      · split
        · intro h; have := ih _ _ _ h; simp at this
        · split
          · intro h; have := ih _ _ _ h; simp at this
          · split
            · intro h; have := ih _ _ _ h; simp at this
            · intro h
              have := ih _ _ _ h
              simp only [List.append_eq_nil_iff] at this
              exact this.1.1

def STab (c : PCtx) (f : Nat) : Prop :=
  ∀ ts t rest, TokOK ts → pTabular c f ts = ⟨t, [], rest⟩ →
    ∃ us cons, unparseTabular t = some us ∧ ts = cons ++ rest ∧ accounts true us cons = true
def SOps (c : PCtx) (f : Nat) : Prop :=
  ∀ ops acc ts l rest, TokOK ts → pOps c f ops acc ts = ⟨l, [], rest⟩ →
    ∀ uo, unparseOps ops = some uo →
      ∃ more cons, unparseOps l = some (uo ++ more) ∧ ts = cons ++ rest ∧ accounts true more cons = true
def SOperator (c : PCtx) (f : Nat) : Prop :=
  ∀ pipeTok name ts op rest, TokOK (pipeTok :: name :: ts) → pipeTok.kind = .pipe → name.kind = .ident →
    pOperator c f pipeTok.span name ts = some ⟨op, [], rest⟩ → OpAcc pipeTok name ts op rest
def SJoin (c : PCtx) (f : Nat) : Prop :=
  ∀ pipeTok name ts op rest, TokOK (pipeTok :: name :: ts) → pipeTok.kind = .pipe → name.kind = .ident →
    name.value = Bytes.ofString "join" →
    pJoin c f pipeTok.span name.span ts = ⟨op, [], rest⟩ → OpAcc pipeTok name ts op rest

theorem step_tab {c : PCtx} {f : Nat} (hO : SOps c f) : STab c (f + 1) := by
  intro ts t rest hok h
  unfold pTabular at h
  dsimp only at h
  generalize hi : pIdent c ts = ri at h
  obtain ⟨iv, ie, irest⟩ := ri
  dsimp only at h
  rcases pIdent_cases hi with ⟨t0, rfl, hk0, rfl, rfl⟩ | ⟨rfl, hie, -, -⟩
  · dsimp only at h
    generalize hr : pOps c f .nil [] irest = r at h
    obtain ⟨rv, re, rrest⟩ := r
    simp only [PRes.mk.injEq] at h
    obtain ⟨rfl, rfl, rfl⟩ := h
    obtain ⟨more, cons, hu, hts, ha⟩ := hO _ _ _ _ _ hok.tail hr [] (by simp [unparseOps])
    simp only [List.nil_append] at hu
    exact ⟨_, t0 :: cons, unparseTabular_mk hu, by rw [hts]; simp, accounts_cons (tokOk_identTok hk0) ha⟩
  · simp only [PRes.mk.injEq] at h
    exact absurd h.2.1 hie

theorem step_ops {c : PCtx} {f : Nat} (hO : SOps c f) (hOp : SOperator c f) : SOps c (f + 1) := by
  intro ops acc ts l rest hok h uo huo
  have hrefl : ∃ more cons, unparseOps ops = some (uo ++ more) ∧ ts = cons ++ ts ∧
      accounts true more cons = true := ⟨[], [], by simpa using huo, rfl, accounts_nil _⟩
  unfold pOps at h
  split at h
  · simp only [PRes.mk.injEq] at h
    obtain ⟨rfl, -, rfl⟩ := h
    exact hrefl
  · rename_i pipeTok rest0
    dsimp only at h
    split at h
    · simp only [PRes.mk.injEq] at h
      obtain ⟨rfl, -, rfl⟩ := h
      exact hrefl
    · rename_i hpipe
      have hpipe' : pipeTok.kind = .pipe := Classical.not_not.mp hpipe
      split at h
      · have := pOps_errs_nil c f _ _ _ (by rw [h]); simp at this
      · rename_i name opToks hsp1
        split at h
        · have := pOps_errs_nil c f _ _ _ (by rw [h]); simp at this
        · rename_i hname
          have hname' : name.kind = .ident := Classical.not_not.mp hname
          split at h
          · have := pOps_errs_nil c f _ _ _ (by rw [h]); simp at this
          · rename_i r hop
            obtain ⟨rv, re, rrest⟩ := r
            dsimp only at h
            have hacc := pOps_errs_nil c f _ _ _ (by rw [h])
            simp only [List.append_eq_nil_iff, endSplit_eq_nil] at hacc
            obtain ⟨⟨rfl, rfl⟩, rfl⟩ := hacc
            have hrest0 : rest0 = (name :: opToks) ++ (split .pipe rest0).2 := by
              rw [← hsp1, split_append]
            have hok' : TokOK ((pipeTok :: name :: opToks) ++ (split .pipe rest0).2) := by
              have := hok; rw [hrest0] at this; simpa using this
            obtain ⟨us, cons, hus, hts, ha⟩ := hOp _ _ _ _ _ hok'.left hpipe' hname' hop
            simp only [List.append_nil] at hts
            subst hts
            obtain ⟨more, cons', hu, hts', ha'⟩ :=
              hO _ _ _ _ _ hok'.right h _ (unparseOps_snoc _ _ _ _ huo hus)
            refine ⟨us ++ more, (pipeTok :: name :: opToks) ++ cons', by rw [hu]; simp, ?_,
              accounts_append ha ha'⟩
            rw [hrest0, hts']; simp

theorem tokOk_byStop {t : Token} (hk : t.kind = .by_) (hv : t.value = []) :
    tokOk { kind := .by_, stop := some (t.stop : Int) } t = true := by
  simp [tokOk, tokMatches, posMatches, hk, hv]

theorem step_operator {c : PCtx} {f : Nat} (hJ : SJoin c f) : SOperator c (f + 1) := by
  intro pipeTok name ts op rest hok hp hk h
  have hokt : TokOK ts := hok.tail.tail
  unfold pOperator at h
  extract_lets kw v rE rR rP rX rI at h
  have hE : pExpr c f ts = rE := rfl
  have hR : pRowCount c f ts = rR := rfl
  have hP : pProjectCols c f (ts.length + 1) [] ts = rP := rfl
  have hX : pExtendCols c f (ts.length + 1) [] ts = rX := rfl
  have hI : pIdent c ts = rI := rfl
  have hvv : v = name.value := rfl
  have hkw : kw = name.span := rfl
  clear_value rE rR rP rX rI v kw
  subst hvv hkw
  -- keep the keyword spellings opaque while splitting
  generalize hs1 : Bytes.ofString "count" = s1 at h
  generalize hs2 : Bytes.ofString "where" = s2 at h
  generalize hs3 : Bytes.ofString "filter" = s3 at h
  generalize hs4 : Bytes.ofString "sort" = s4 at h
  generalize hs5 : Bytes.ofString "order" = s5 at h
  generalize hs6 : Bytes.ofString "take" = s6 at h
  generalize hs7 : Bytes.ofString "limit" = s7 at h
  generalize hs8 : Bytes.ofString "top" = s8 at h
  generalize hs9 : Bytes.ofString "project" = s9 at h
  generalize hs10 : Bytes.ofString "extend" = s10 at h
  generalize hs11 : Bytes.ofString "summarize" = s11 at h
  generalize hs12 : Bytes.ofString "join" = s12 at h
  generalize hs13 : Bytes.ofString "as" = s13 at h
  generalize hs14 : Bytes.ofString "render" = s14 at h
  have one : ∀ {a : String} {s : Bytes}, Bytes.ofString a = s → (name.value == s) = true →
      name.value ∈ [a].map Bytes.ofString := by
    intro a s hs hv
    rw [List.map_cons, List.map_nil, hs, eq_of_beq hv]; exact List.mem_singleton.mpr rfl
  have two : ∀ {a b : String} {s s' : Bytes}, Bytes.ofString a = s → Bytes.ofString b = s' →
      (name.value == s || name.value == s') = true → name.value ∈ [a, b].map Bytes.ofString := by
    intro a b s s' hs hs' hv
    rw [List.map_cons, List.map_cons, List.map_nil, hs, hs']
    rcases Bool.or_eq_true_iff.mp hv with hv | hv
    · rw [eq_of_beq hv]; exact List.mem_cons_self
    · rw [eq_of_beq hv]; exact List.mem_cons_of_mem _ List.mem_cons_self
  by_cases hv : (name.value == s1) = true
  · -- count
    rw [if_pos hv] at h
    simp only [Option.some.injEq, PRes.mk.injEq, true_and] at h
    obtain ⟨rfl, rfl⟩ := h
    exact opAcc_intro (cons := []) hok hp hk (one hs1 hv) (unparse_count _ _) rfl (accounts_nil _)
  rw [if_neg hv] at h
  clear hv
  by_cases hv : (name.value == s2 || name.value == s3) = true
  · -- where / filter
    rw [if_pos hv] at h
    obtain ⟨rv, re, rrest⟩ := rE
    simp only [Option.some.injEq, PRes.mk.injEq, mkOpaque_eq_nil] at h
    obtain ⟨rfl, rfl, rfl⟩ := h
    obtain ⟨ux, cx, hux, hts, hax⟩ := pExpr_acc hokt hE
    exact opAcc_intro hok hp hk (two hs2 hs3 hv) (unparse_where _ _ hux) hts hax
  rw [if_neg hv] at h
  clear hv
  by_cases hv : (name.value == s4 || name.value == s5) = true
  · -- sort / order
    rw [if_pos hv] at h
    have hvm := two hs4 hs5 hv
    split at h
    · simp at h
    · rename_i by_ rest1
      split at h
      · simp at h
      · rename_i hby
        have hby' : by_.kind = .by_ := Classical.not_not.mp hby
        generalize hr : pSortTerms c f (rest1.length + 1) [] rest1 = r at h
        obtain ⟨rv, re, rrest⟩ := r
        simp only [Option.some.injEq, PRes.mk.injEq] at h
        obtain ⟨rfl, rfl, rfl⟩ := h
        obtain ⟨more, cons, rfl, hts, hne, us, hus, hacc⟩ := pSortTerms_acc c f _ _ _ _ _ hokt.tail hr
        refine ⟨_, by_ :: cons,
          unparse_sort pipeTok.span ⟨name.span.start, by_.stop⟩ (by simpa using hne) (by simpa using hus),
          by rw [hts]; simp, ?_⟩
        exact accounts_cons (tokOk_sym hp (hok.head.symVal hp))
          (accounts_cons (tokOk_kwPlain_start hk hvm)
            (accounts_cons (tokOk_byStop hby' (hokt.head.symVal hby')) hacc))
  rw [if_neg hv] at h
  clear hv
  by_cases hv : (name.value == s6 || name.value == s7) = true
  · -- take / limit
    rw [if_pos hv] at h
    obtain ⟨rv, re, rrest⟩ := rR
    simp only [Option.some.injEq, PRes.mk.injEq, mkOpaque_eq_nil] at h
    obtain ⟨rfl, rfl, rfl⟩ := h
    obtain ⟨ux, cx, hux, hts, hax⟩ := pExpr_acc hokt (pRowCount_acc hR)
    exact opAcc_intro hok hp hk (two hs6 hs7 hv) (unparse_take _ _ hux) hts hax
  rw [if_neg hv] at h
  clear hv
  by_cases hv : (name.value == s8) = true
  · -- top
    rw [if_pos hv] at h
    have hvm := one hs8 hv
    obtain ⟨rv, re, rrest⟩ := rR
    dsimp only at h
    split at h
    · rename_i hne
      simp only [Option.some.injEq, PRes.mk.injEq, mkOpaque_eq_nil] at h
      exact absurd h.2.1 hne
    · rename_i hre
      have hre' : re = [] := Classical.not_not.mp hre
      subst hre'
      obtain ⟨ux, cx, hux, hts, hax⟩ := pExpr_acc hokt (pRowCount_acc hR)
      split at h
      · simp at h
      · rename_i by_ rest1
        split at h
        · simp at h
        · rename_i hby
          have hby' : by_.kind = .by_ := Classical.not_not.mp hby
          generalize hrt : pSortTerm c f rest1 = rt at h
          obtain ⟨tv, te, trest⟩ := rt
          simp only [Option.some.injEq, PRes.mk.injEq, mkOpaque_eq_nil] at h
          obtain ⟨rfl, rfl, rfl⟩ := h
          have hok1 : TokOK (by_ :: rest1) := hokt.of_eq_append hts
          obtain ⟨term, us, cons, rfl, hus, hts1, ha⟩ := pSortTerm_acc hok1.tail hrt
          refine opAcc_intro (cons := cx ++ by_ :: cons) hok hp hk hvm
            (unparse_top _ _ _ hux hus) (by rw [hts, hts1]; simp) ?_
          exact accounts_append hax (accounts_cons (tokOk_sym hby' (hok1.head.symVal hby')) ha)
  rw [if_neg hv] at h
  clear hv
  by_cases hv : (name.value == s9) = true
  · -- project
    rw [if_pos hv] at h
    obtain ⟨rv, re, rrest⟩ := rP
    simp only [Option.some.injEq, PRes.mk.injEq] at h
    obtain ⟨rfl, rfl, rfl⟩ := h
    obtain ⟨more, cons, rfl, hts, hne, us, hus, hacc⟩ := pProjectCols_acc c f _ _ _ _ _ hokt hP
    exact opAcc_intro hok hp hk (one hs9 hv)
      (unparse_project _ _ (by simpa using hne) (by simpa using hus)) hts hacc
  rw [if_neg hv] at h
  clear hv
  by_cases hv : (name.value == s10) = true
  · -- extend
    rw [if_pos hv] at h
    obtain ⟨rv, re, rrest⟩ := rX
    simp only [Option.some.injEq, PRes.mk.injEq] at h
    obtain ⟨rfl, rfl, rfl⟩ := h
    obtain ⟨more, cons, rfl, hts, hne, us, hus, hacc⟩ := pExtendCols_acc c f _ _ _ _ _ hokt hX
    exact opAcc_intro hok hp hk (one hs10 hv)
      (unparse_extend _ _ (by simpa using hne) (by simpa using hus)) hts hacc
  rw [if_neg hv] at h
  clear hv
  by_cases hv : (name.value == s11) = true
  · -- summarize
    rw [if_pos hv] at h
    simp only [Option.some.injEq] at h
    exact pSummarize_acc hok hp hk (by rw [hs11]; exact eq_of_beq hv) h
  rw [if_neg hv] at h
  clear hv
  by_cases hv : (name.value == s12) = true
  · -- join
    rw [if_pos hv] at h
    simp only [Option.some.injEq] at h
    exact hJ _ _ _ _ _ hok hp hk (by rw [hs12]; exact eq_of_beq hv) h
  rw [if_neg hv] at h
  clear hv
  by_cases hv : (name.value == s13) = true
  · -- as
    rw [if_pos hv] at h
    obtain ⟨iv, ie, irest⟩ := rI
    simp only [Option.some.injEq, PRes.mk.injEq, mkOpaque_eq_nil] at h
    obtain ⟨rfl, rfl, rfl⟩ := h
    obtain ⟨t0, rfl, hk0, rfl⟩ := pIdent_acc hI
    exact opAcc_intro (cons := [t0]) hok hp hk (one hs13 hv) (unparse_as _ _ _) rfl
      (accounts_single (tokOk_identTok hk0))
  rw [if_neg hv] at h
  clear hv
  by_cases hv : (name.value == s14) = true
  · -- render
    rw [if_pos hv] at h
    simp only [Option.some.injEq] at h
    exact pRender_acc hok hp hk (by rw [hs14]; exact eq_of_beq hv) h
  rw [if_neg hv] at h
  clear hv
  simp at h

theorem step_join {c : PCtx} {f : Nat} (hT : STab c f) : SJoin c (f + 1) := by
  intro pipeTok name ts op rest hok hp hk hv h
  have hvm : name.value ∈ ["join"].map Bytes.ofString := by simp [hv]
  unfold pJoin at h
  dsimp only at h
  split at h
  · simp at h
  · rename_i t0 rest0
    split at h
    · -- the header reported an error
      rename_i hdr r heq
      subst h
      split at heq
      · split at heq
        · simp at heq
        · split at heq
          · simp at heq
          · split at heq
            · simp at heq
            · split at heq
              · simp at heq
              · simp at heq
      · simp at heq
    · rename_i hdr heq
      split at heq
      · split at heq
        · simp at heq
        · split at heq
          · simp at heq
          · split at heq
            · simp at heq
            · split at heq
              · simp at heq
              · simp at heq
      · simp at heq
    · rename_i hdr kind ka fl e0 rest1 heq
      -- the two shapes of a successful header
      have hdr_spec :
          (kind = .null ∧ ka = .null ∧ fl = none ∧ e0 = [] ∧ rest1 = t0 :: rest0) ∨
          (∃ asg flt, isIdentNamed t0 "kind" = true ∧ rest0 = asg :: flt :: rest1 ∧ asg.kind = .assign ∧
            flt.kind = .ident ∧ kind = t0.span ∧ ka = asg.span ∧
            fl = some ⟨flt.value, flt.span, false⟩) := by
        split at heq
        · rename_i hkind
          split at heq
          · simp at heq
          · rename_i asg rest1'
            split at heq
            · simp at heq
            · rename_i hasg
              split at heq
              · simp at heq
              · rename_i flt rest2
                split at heq
                · simp at heq
                · rename_i hfl
                  simp only [Sum.inl.injEq, Option.some.injEq, Prod.mk.injEq] at heq
                  obtain ⟨rfl, rfl, rfl, -, rfl⟩ := heq
                  exact Or.inr ⟨asg, flt, hkind, rfl, Classical.not_not.mp hasg, Classical.not_not.mp hfl,
                    rfl, rfl, rfl⟩
        · simp only [Sum.inl.injEq, Option.some.injEq, Prod.mk.injEq] at heq
          obtain ⟨rfl, rfl, rfl, rfl, rfl⟩ := heq
          exact Or.inl ⟨rfl, rfl, rfl, rfl, rfl⟩
      clear heq
      have hok1 : TokOK rest1 := by
        rcases hdr_spec with ⟨-, -, -, -, rfl⟩ | ⟨asg, flt, -, rfl, -⟩
        · exact hok.tail.tail
        · exact hok.tail.tail.tail.tail.tail
      -- the part after the header
      split at h
      · simp at h
      · rename_i lp rest2
        split at h
        · simp at h
        · rename_i hlp
          have hlp' : lp.kind = .lparen := Classical.not_not.mp hlp
          generalize hr : pTabular c f (split .rparen rest2).1 = rr at h
          obtain ⟨rv, re, rrest⟩ := rr
          dsimp only at h
          split at h
          · simp at h
          · rename_i rp rest3 hsp2
            split at h
            · simp at h
            · rename_i hrp
              have hrp' : rp.kind = .rparen := Classical.not_not.mp hrp
              split at h
              · simp at h
              · rename_i on rest4
                split at h
                · simp at h
                · rename_i hon
                  have hon' : isIdentNamed on "on" = true := by simpa using hon
                  obtain ⟨hkon, hvon⟩ := isIdentNamed_iff.mp hon'
                  generalize hc : pExprList c f rest4 = rc at h
                  obtain ⟨cv, ce, crest⟩ := rc
                  simp only [PRes.mk.injEq, List.append_eq_nil_iff, mkOpaque_eq_nil, endSplit_eq_nil] at h
                  obtain ⟨rfl, ⟨⟨⟨rfl, rfl⟩, rfl⟩, rfl⟩, rfl⟩ := h
                  have hok2 : TokOK rest2 := hok1.tail
                  have hok3 : TokOK (rp :: on :: rest4) := by
                    have := hok2.split2 (k := .rparen); rwa [hsp2] at this
                  obtain ⟨ur, cr, hur, hsp1, har⟩ := hT _ _ _ hok2.split1 hr
                  simp only [List.append_nil] at hsp1
                  obtain ⟨hcne, uc, cc, huc, hts4, hac⟩ := pExprList_acc hok3.tail.tail hc
                  have hrest2 : rest2 = cr ++ rp :: on :: rest4 := by
                    rw [← split_append .rparen rest2, hsp2, hsp1]
                  have htail : accounts true
                      (sym .lparen lp.span :: ur ++ sym .rparen rp.span :: kwTok ["on"] on.span :: uc)
                      (lp :: cr ++ rp :: on :: cc) = true :=
                    accounts_cons (tokOk_sym hlp' (hok1.head.symVal hlp'))
                      (accounts_append har (accounts_cons (tokOk_sym hrp' (hok3.head.symVal hrp'))
                        (accounts_cons (tokOk_kwTok hkon (by simp [hvon])) hac)))
                  rcases hdr_spec with ⟨rfl, rfl, rfl, -, hr1⟩ | ⟨asg, flt, hkind, hr0, hasg, hflt, rfl, rfl, rfl⟩
                  · refine opAcc_intro (cons := lp :: cr ++ rp :: on :: cc) hok hp hk hvm
                      (unparse_join_plain _ _ _ _ _ hur huc hcne) ?_ htail
                    rw [← hr1, hrest2, hts4]; simp
                  · obtain ⟨hkk, hvk⟩ := isIdentNamed_iff.mp hkind
                    refine opAcc_intro (cons := t0 :: asg :: flt :: (lp :: cr ++ rp :: on :: cc)) hok hp hk hvm
                      (unparse_join_kind _ _ _ _ _ _ _ _ hur huc hcne) ?_ ?_
                    · rw [hr0, hrest2, hts4]; simp
                    · have hokk : TokOK (t0 :: asg :: flt :: lp :: rest2) := by
                        have := hok.tail.tail; rwa [hr0] at this
                      exact accounts_cons (tokOk_kwTok hkk (by simp [hvk]))
                        (accounts_cons (tokOk_sym hasg (hokk.tail.head.symVal hasg))
                          (accounts_cons (tokOk_identTok_plain hflt) htail))

/-- Stage 2, the mutually recursive tabular productions at once. -/
theorem acc_tab_all (c : PCtx) (fuel : Nat) :
    STab c fuel ∧ SOps c fuel ∧ SOperator c fuel ∧ SJoin c fuel := by
  induction fuel with
  | zero =>
    refine ⟨?_, ?_, ?_, ?_⟩
    · intro ts t rest _ h; simp [pTabular] at h
    · intro ops acc ts l rest _ h; simp [pOps] at h
    · intro pipeTok name ts op rest _ _ _ h; simp [pOperator] at h
    · intro pipeTok name ts op rest _ _ _ _ h; simp [pJoin] at h
  | succ f ih =>
    obtain ⟨hT, hO, hOp, hJ⟩ := ih
    exact ⟨step_tab hO, step_ops hO hOp, step_operator hJ, step_join hT⟩

theorem pTabular_acc {c : PCtx} {fuel : Nat} {ts : List Token} {t : Tabular} {rest : List Token}
    (hok : TokOK ts) (h : pTabular c fuel ts = ⟨t, [], rest⟩) :
    ∃ us cons, unparseTabular t = some us ∧ ts = cons ++ rest ∧ accounts true us cons = true :=
  (acc_tab_all c fuel).1 ts t rest hok h

theorem pOperator_acc {c : PCtx} {fuel : Nat} {pipeTok name : Token} {ts : List Token} {op : Op}
    {rest : List Token} (hok : TokOK (pipeTok :: name :: ts)) (hp : pipeTok.kind = .pipe)
    (hk : name.kind = .ident) (h : pOperator c fuel pipeTok.span name ts = some ⟨op, [], rest⟩) :
    OpAcc pipeTok name ts op rest :=
  (acc_tab_all c fuel).2.2.1 pipeTok name ts op rest hok hp hk h

/-! ### let -/

theorem unparse_let {x : Expr} {xs : List UTok} (kw asg : Span) (n : Ident) (hx : unparseExpr x = some xs) :
    unparseStmt (.let_ kw (some n) asg x) = some (kwTok ["let"] kw :: identTok n :: sym .assign asg :: xs) := by
  simp [unparseStmt, hx]

theorem pLet_acc {c : PCtx} {fuel : Nat} {ts : List Token} {v : Option Stmt} {rest : List Token}
    (hok : TokOK ts) (h : pLet c fuel ts = ⟨v, [], rest⟩) :
    ∃ s us cons, v = some s ∧ unparseStmt s = some us ∧ ts = cons ++ rest ∧ accounts true us cons = true := by
  unfold pLet at h
  split at h
  · simp at h
  · rename_i kwd rest0
    split at h
    · simp at h
    · rename_i hlet
      have hlet' : isIdentNamed kwd "let" = true := by simpa using hlet
      obtain ⟨hkl, hvl⟩ := isIdentNamed_iff.mp hlet'
      dsimp only at h
      generalize hi : pIdent c rest0 = ri at h
      obtain ⟨iv, ie, irest⟩ := ri
      dsimp only at h
      rcases pIdent_cases hi with ⟨t0, rfl, hk0, rfl, rfl⟩ | ⟨rfl, hie, -, -⟩
      · dsimp only at h
        split at h
        · simp at h
        · rename_i asg rest2
          split at h
          · simp at h
          · rename_i hasg
            have hasg' : asg.kind = .assign := Classical.not_not.mp hasg
            generalize hr : pExpr c fuel rest2 = r at h
            obtain ⟨rv, re, rrest⟩ := r
            simp only [PRes.mk.injEq, mkOpaque_eq_nil] at h
            obtain ⟨rfl, rfl, rfl⟩ := h
            obtain ⟨ux, cx, hux, hts, hax⟩ := pExpr_acc hok.tail.tail.tail hr
            refine ⟨_, _, kwd :: t0 :: asg :: cx, rfl, unparse_let _ _ _ hux, by rw [hts]; simp, ?_⟩
            exact accounts_cons (tokOk_kwTok hkl (by simp [hvl]))
              (accounts_cons (tokOk_identTok hk0)
                (accounts_cons (tokOk_sym hasg' (hok.tail.tail.head.symVal hasg')) hax))
      · simp only [PRes.mk.injEq, mkOpaque_eq_nil] at h
        exact absurd h.2.1 hie

end Pql
