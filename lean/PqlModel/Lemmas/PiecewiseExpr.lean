/-
Property C15, parse half — identifiers and the expression block commute with moving the tokens.
-/
import PqlModel.Lemmas.PiecewiseDefs
namespace Pql.Piecewise
open Pql

variable {n m d : Nat}


/-- closes the equation of a leaf: unfold the tree shift, move token spans -/
macro "sh_eq" : tactic =>
  `(tactic| first
    | rfl
    | (simp (config := { failIfUnchanged := false }) only [shExpr, shExprList, shIdent, span_shift, mapE_errAt_tok, mapE_nfAt_tok,
        mapE_endSplit, mapE_nil, mapE_append, mapE_mkOpaque, mapE_errAt_eof, mapE_nfAt_eof,
        mapE_errNoPos, mapE_errFuel, List.map_cons, List.map_nil, List.map_append, Option.map_some,
        Option.map_none, shift_kind_eq, shift_value, shSpan_null, shSpan_zero, *] <;> rfl))

theorem pIdent_sh (ts : List Token) (h : TokP ts) :
    Sh n m d (Option.map (shIdent d)) (pIdent ⟨n⟩ ts) (pIdent ⟨m⟩ (ts.map (Token.shift d))) := by
  cases ts with
  | nil => exact ⟨by simp [pIdent], by simp [pIdent]⟩
  | cons t rest =>
    obtain ⟨h1, h2⟩ := (TokP_cons _ _).mp h
    simp only [pIdent, List.map_cons, shift_kind_eq]
    split
    · exact ⟨by simp [shIdent, span_shift d t h1], h2⟩
    · exact ⟨by simp, h⟩

theorem pQualTail_sh : ∀ (fuel : Nat) (parts : List Ident) (ts : List Token), TokP ts →
    Sh n m d (List.map (shIdent d)) (pQualTail ⟨n⟩ fuel parts ts)
      (pQualTail ⟨m⟩ fuel (parts.map (shIdent d)) (ts.map (Token.shift d))) := by
  intro fuel
  induction fuel with
  | zero => intro parts ts h; exact ⟨by simp [pQualTail], h⟩
  | succ fuel ih =>
    intro parts ts h
    cases ts with
    | nil => exact ⟨by simp [pQualTail], by simp [pQualTail]⟩
    | cons t rest =>
      obtain ⟨h1, h2⟩ := (TokP_cons _ _).mp h
      simp only [pQualTail, List.map_cons, shift_kind_eq]
      split
      · obtain ⟨e, p⟩ := pIdent_sh (n := n) (m := m) (d := d) rest h2
        rw [e]
        rcases hv : (pIdent ⟨n⟩ rest).val with _ | sel
        · exact ⟨by simp, p⟩
        · have := ih (parts ++ [sel]) _ p
          simpa using this
      · exact ⟨by simp, h⟩

theorem pQualifiedIdent_sh (ts : List Token) (h : TokP ts) :
    Sh n m d (Option.map (List.map (shIdent d))) (pQualifiedIdent ⟨n⟩ ts)
      (pQualifiedIdent ⟨m⟩ (ts.map (Token.shift d))) := by
  obtain ⟨e, p⟩ := pIdent_sh (n := n) (m := m) (d := d) ts h
  simp only [pQualifiedIdent]
  rw [e]
  rcases hv : (pIdent ⟨n⟩ ts).val with _ | id
  · exact ⟨by simp, p⟩
  · obtain ⟨e2, p2⟩ := pQualTail_sh (n := n) (m := m) (d := d) ((pIdent ⟨n⟩ ts).rest.length + 1) [id] _ p
    simp only [Option.map_some, List.length_map]
    simp only [List.map_cons, List.map_nil] at e2
    rw [e2]
    exact ⟨by simp, p2⟩


/-! ### expressions -/

structure ExprSh (n m d fuel : Nat) : Prop where
  expr : ∀ ts, TokP ts →
    Sh n m d (shExpr d) (pExpr ⟨n⟩ fuel ts) (pExpr ⟨m⟩ fuel (ts.map (Token.shift d)))
  trail : ∀ x mp acc ts, TokP ts →
    Sh n m d (shExpr d) (pTrail ⟨n⟩ fuel x mp acc ts)
      (pTrail ⟨m⟩ fuel (shExpr d x) mp (mapE n m d acc) (ts.map (Token.shift d)))
  higher : ∀ y p1 acc ts, TokP ts →
    Sh n m d (shExpr d) (pHigher ⟨n⟩ fuel y p1 acc ts)
      (pHigher ⟨m⟩ fuel (shExpr d y) p1 (mapE n m d acc) (ts.map (Token.shift d)))
  unary : ∀ ts, TokP ts →
    Sh n m d (shExpr d) (pUnary ⟨n⟩ fuel ts) (pUnary ⟨m⟩ fuel (ts.map (Token.shift d)))
  primary : ∀ ts, TokP ts →
    Sh n m d (shExpr d) (pPrimary ⟨n⟩ fuel ts) (pPrimary ⟨m⟩ fuel (ts.map (Token.shift d)))
  inner : ∀ ts, TokP ts →
    Sh n m d (shExpr d) (pInner ⟨n⟩ fuel ts) (pInner ⟨m⟩ fuel (ts.map (Token.shift d)))
  exprList : ∀ ts, TokP ts →
    Sh n m d (shExprList d) (pExprList ⟨n⟩ fuel ts) (pExprList ⟨m⟩ fuel (ts.map (Token.shift d)))
  exprListTail : ∀ acc ts, TokP ts →
    Sh n m d (shExprList d) (pExprListTail ⟨n⟩ fuel acc ts)
      (pExprListTail ⟨m⟩ fuel (shExprList d acc) (ts.map (Token.shift d)))

theorem ExprSh.zero : ExprSh n m d 0 := by
  constructor <;> intros <;>
    simp only [pExpr, pTrail, pHigher, pUnary, pPrimary, pInner, pExprList, pExprListTail] <;>
    exact ⟨by simp [shExpr, shExprList], by assumption⟩

theorem pExpr_sh_step (fuel : Nat) (ih : ExprSh n m d fuel) (ts : List Token) (h : TokP ts) :
    Sh n m d (shExpr d) (pExpr ⟨n⟩ (fuel + 1) ts) (pExpr ⟨m⟩ (fuel + 1) (ts.map (Token.shift d))) := by
  obtain ⟨e1, p1⟩ := ih.unary ts h
  simp only [pExpr]
  rw [e1]
  simp only [isNF_mapE]
  split
  · exact ⟨rfl, p1⟩
  · obtain ⟨e2, p2⟩ := ih.trail (pUnary ⟨n⟩ fuel ts).val 0 [] _ p1
    simp only [mapE_nil] at e2
    rw [e2]
    exact ⟨by simp, p2⟩

theorem pTrail_sh_step (fuel : Nat) (ih : ExprSh n m d fuel) (x : Expr) (mp : Int) (acc : Errs)
    (ts : List Token) (h : TokP ts) :
    Sh n m d (shExpr d) (pTrail ⟨n⟩ (fuel + 1) x mp acc ts)
      (pTrail ⟨m⟩ (fuel + 1) (shExpr d x) mp (mapE n m d acc) (ts.map (Token.shift d))) := by
  cases ts with
  | nil => exact ⟨by simp [pTrail], by simp [pTrail]⟩
  | cons op1 rest =>
    obtain ⟨h1, h2⟩ := (TokP_cons _ _).mp h
    simp only [pTrail, List.map_cons, shift_kind_eq]
    split
    · exact ⟨by simp, h⟩
    · split
      · cases rest with
        | nil => exact ⟨by sh_eq, TokP_nil⟩
        | cons lp rest2 =>
          obtain ⟨h3, h4⟩ := (TokP_cons _ _).mp h2
          simp only [List.map_cons, split_shift, shift_kind_eq]
          split
          · exact ⟨by sh_eq, h4⟩
          · obtain ⟨e1, p1⟩ := ih.exprList _ (h4.split1 (k := .rparen))
            rw [e1]
            have hs2 := h4.split2 (k := .rparen)
            rcases hsp : (split .rparen rest2).2 with _ | ⟨rp, rest3⟩
            · exact ⟨by sh_eq, TokP_nil⟩
            · rw [hsp] at hs2
              obtain ⟨h5, h6⟩ := (TokP_cons _ _).mp hs2
              simp only [List.map_cons, shift_kind_eq]
              split
              · exact ⟨by sh_eq, h6⟩
              · have := ih.trail (.inE x op1.span lp.span (pExprList ⟨n⟩ fuel (split .rparen rest2).1).val
                  rp.span) mp (acc ++ mkOpaque (pExprList ⟨n⟩ fuel (split .rparen rest2).1).errs ++
                    endSplit (pExprList ⟨n⟩ fuel (split .rparen rest2).1).rest) rest3 h6
                obtain ⟨e2, p2⟩ := this
                refine ⟨?_, p2⟩
                rw [← e2]
                congr 1 <;> sh_eq
      · obtain ⟨e1, p1⟩ := ih.unary rest h2
        rw [e1]
        obtain ⟨e2, p2⟩ := ih.higher (pUnary ⟨n⟩ fuel rest).val (precOf op1.kind)
          (acc ++ mkOpaque (pUnary ⟨n⟩ fuel rest).errs) _ p1
        simp only [mapE_append, mapE_mkOpaque] at e2
        rw [e2]
        obtain ⟨e3, p3⟩ := ih.trail (.binary x op1.span op1.kind (pHigher ⟨n⟩ fuel (pUnary ⟨n⟩ fuel rest).val
          (precOf op1.kind) (acc ++ mkOpaque (pUnary ⟨n⟩ fuel rest).errs) (pUnary ⟨n⟩ fuel rest).rest).val)
          mp (pHigher ⟨n⟩ fuel (pUnary ⟨n⟩ fuel rest).val
          (precOf op1.kind) (acc ++ mkOpaque (pUnary ⟨n⟩ fuel rest).errs) (pUnary ⟨n⟩ fuel rest).rest).errs _ p2
        refine ⟨?_, p3⟩
        rw [← e3]
        congr 1; sh_eq

theorem pHigher_sh_step (fuel : Nat) (ih : ExprSh n m d fuel) (y : Expr) (p1 : Int) (acc : Errs)
    (ts : List Token) (h : TokP ts) :
    Sh n m d (shExpr d) (pHigher ⟨n⟩ (fuel + 1) y p1 acc ts)
      (pHigher ⟨m⟩ (fuel + 1) (shExpr d y) p1 (mapE n m d acc) (ts.map (Token.shift d))) := by
  cases ts with
  | nil => exact ⟨by simp [pHigher], by simp [pHigher]⟩
  | cons op2 rest =>
    simp only [pHigher, List.map_cons, shift_kind_eq]
    split
    · exact ⟨by simp, h⟩
    · obtain ⟨e1, p1'⟩ := ih.trail y (p1 + 1) [] (op2 :: rest) h
      simp only [mapE_nil, List.map_cons] at e1
      rw [e1]
      obtain ⟨e2, p2⟩ := ih.higher (pTrail ⟨n⟩ fuel y (p1 + 1) [] (op2 :: rest)).val p1
        (acc ++ mkOpaque (pTrail ⟨n⟩ fuel y (p1 + 1) [] (op2 :: rest)).errs) _ p1'
      simp only [mapE_append, mapE_mkOpaque] at e2
      exact ⟨e2, p2⟩

theorem pUnary_sh_step (fuel : Nat) (ih : ExprSh n m d fuel) (ts : List Token) (h : TokP ts) :
    Sh n m d (shExpr d) (pUnary ⟨n⟩ (fuel + 1) ts) (pUnary ⟨m⟩ (fuel + 1) (ts.map (Token.shift d))) := by
  cases ts with
  | nil => exact ⟨by simp [pUnary, shExpr], by simp [pUnary]⟩
  | cons t rest =>
    obtain ⟨h1, h2⟩ := (TokP_cons _ _).mp h
    simp only [pUnary, List.map_cons, shift_kind_eq]
    split
    · obtain ⟨e1, p1⟩ := ih.primary rest h2
      rw [e1]
      exact ⟨by sh_eq, p1⟩
    · have := ih.primary (t :: rest) h
      simpa using this

theorem pPrimary_sh_step (fuel : Nat) (ih : ExprSh n m d fuel) (ts : List Token) (h : TokP ts) :
    Sh n m d (shExpr d) (pPrimary ⟨n⟩ (fuel + 1) ts) (pPrimary ⟨m⟩ (fuel + 1) (ts.map (Token.shift d))) := by
  obtain ⟨e1, p1⟩ := ih.inner ts h
  simp only [pPrimary]
  rw [e1]
  simp only [ne_eq, mapE_eq_nil]
  split
  · exact ⟨rfl, p1⟩
  · rename_i hnil
    simp only [Decidable.not_not] at hnil
    rcases hr : (pInner ⟨n⟩ fuel ts).rest with _ | ⟨t, rest⟩
    · exact ⟨by simp, TokP_nil⟩
    · rw [hr] at p1
      obtain ⟨h3, h4⟩ := (TokP_cons _ _).mp p1
      simp only [List.map_cons, split_shift, shift_kind_eq]
      split
      · obtain ⟨e2, p2⟩ := ih.expr _ (h4.split1 (k := .rbracket))
        rw [e2]
        have hs2 := h4.split2 (k := .rbracket)
        rcases hsp : (split .rbracket rest).2 with _ | ⟨rb, rest2⟩
        · exact ⟨by sh_eq, TokP_nil⟩
        · rw [hsp] at hs2
          obtain ⟨h5, h6⟩ := (TokP_cons _ _).mp hs2
          simp only [List.map_cons, shift_kind_eq]
          split
          · exact ⟨by sh_eq, h6⟩
          · exact ⟨by sh_eq, h6⟩
      · exact ⟨by simp, p1⟩


theorem pInner_sh_step (fuel : Nat) (ih : ExprSh n m d fuel) (ts : List Token) (h : TokP ts) :
    Sh n m d (shExpr d) (pInner ⟨n⟩ (fuel + 1) ts) (pInner ⟨m⟩ (fuel + 1) (ts.map (Token.shift d))) := by
  cases ts with
  | nil => exact ⟨by simp [pInner, shExpr], by simp [pInner]⟩
  | cons t rest =>
    obtain ⟨h1, h2⟩ := (TokP_cons _ _).mp h
    obtain ⟨eq, pq⟩ := pQualifiedIdent_sh (n := n) (m := m) (d := d) (t :: rest) h
    simp only [List.map_cons] at eq
    simp only [pInner, List.map_cons, shift_kind_eq]
    split
    · exact ⟨by sh_eq, h2⟩
    · split
      · rw [eq]
        rcases hv : (pQualifiedIdent ⟨n⟩ (t :: rest)).val with _ | parts
        · exact ⟨by sh_eq, pq⟩
        · simp only [Option.map_some, ne_eq, mapE_eq_nil, List.length_map]
          split
          · exact ⟨by sh_eq, pq⟩
          · split
            · exact ⟨by sh_eq, pq⟩
            · rcases hr : (pQualifiedIdent ⟨n⟩ (t :: rest)).rest with _ | ⟨lp, rest2⟩
              · exact ⟨by sh_eq, TokP_nil⟩
              · rw [hr] at pq
                obtain ⟨h3, h4⟩ := (TokP_cons _ _).mp pq
                simp only [List.map_cons, shift_kind_eq, split_shift]
                split
                · exact ⟨by sh_eq, pq⟩
                · obtain ⟨e1, p1⟩ := ih.exprList _ (h4.split1 (k := .rparen))
                  rw [e1]
                  simp only [isNF_mapE, mapE_eq_nil]
                  have hs2 := h4.split2 (k := .rparen)
                  have herr : mapE n m d (if isNF (pExprList ⟨n⟩ fuel (split .rparen rest2).1).errs = true then []
                      else (pExprList ⟨n⟩ fuel (split .rparen rest2).1).errs) =
                      (if isNF (pExprList ⟨n⟩ fuel (split .rparen rest2).1).errs = true then []
                      else mapE n m d (pExprList ⟨n⟩ fuel (split .rparen rest2).1).errs) := by
                    split <;> rfl
                  -- the remaining tokens of the argument list, after one optional comma
                  by_cases hre : (pExprList ⟨n⟩ fuel (split .rparen rest2).1).errs = []
                  · simp only [hre, ↓reduceIte]
                    rcases hrr : (pExprList ⟨n⟩ fuel (split .rparen rest2).1).rest with _ | ⟨cm, more⟩
                    · simp only [List.map_nil]
                      have harg : TokP [] := TokP_nil
                      rcases hsp : (split .rparen rest2).2 with _ | ⟨rp, rest3⟩
                      · exact ⟨by simp only [List.map_nil, mapE_append, herr, mapE_endSplit n m d _ harg]; sh_eq, TokP_nil⟩
                      · rw [hsp] at hs2
                        obtain ⟨h5, h6⟩ := (TokP_cons _ _).mp hs2
                        simp only [List.map_cons, shift_kind_eq]
                        split
                        · exact ⟨by simp only [mapE_append, herr, mapE_endSplit n m d _ harg]; sh_eq, h6⟩
                        · exact ⟨by simp only [mapE_append, herr, mapE_endSplit n m d _ harg]; sh_eq, hs2⟩
                    · rw [hrr] at p1
                      simp only [List.map_cons, shift_kind_eq]
                      by_cases hc : cm.kind = TokKind.comma
                      · simp only [if_pos hc]
                        have harg : TokP more := ((TokP_cons _ _).mp p1).2
                        rcases hsp : (split .rparen rest2).2 with _ | ⟨rp, rest3⟩
                        · exact ⟨by simp only [List.map_nil, mapE_append, herr, mapE_endSplit n m d _ harg]; sh_eq, TokP_nil⟩
                        · rw [hsp] at hs2
                          obtain ⟨h5, h6⟩ := (TokP_cons _ _).mp hs2
                          simp only [List.map_cons, shift_kind_eq]
                          split
                          · exact ⟨by simp only [mapE_append, herr, mapE_endSplit n m d _ harg]; sh_eq, h6⟩
                          · exact ⟨by simp only [mapE_append, herr, mapE_endSplit n m d _ harg]; sh_eq, hs2⟩
                      · simp only [if_neg hc]
                        have harg : TokP (cm :: more) := p1
                        rcases hsp : (split .rparen rest2).2 with _ | ⟨rp, rest3⟩
                        · exact ⟨by simp only [List.map_nil, mapE_append, herr, mapE_endSplit n m d _ harg]; sh_eq, TokP_nil⟩
                        · rw [hsp] at hs2
                          obtain ⟨h5, h6⟩ := (TokP_cons _ _).mp hs2
                          simp only [List.map_cons, shift_kind_eq]
                          split
                          · exact ⟨by simp only [mapE_append, herr, mapE_endSplit n m d _ harg]; sh_eq, h6⟩
                          · exact ⟨by simp only [mapE_append, herr, mapE_endSplit n m d _ harg]; sh_eq, hs2⟩
                  · simp only [hre, ↓reduceIte]
                    have harg := p1
                    rcases hsp : (split .rparen rest2).2 with _ | ⟨rp, rest3⟩
                    · exact ⟨by simp only [List.map_nil, mapE_append, herr, mapE_endSplit n m d _ harg]; sh_eq, TokP_nil⟩
                    · rw [hsp] at hs2
                      obtain ⟨h5, h6⟩ := (TokP_cons _ _).mp hs2
                      simp only [List.map_cons, shift_kind_eq]
                      split
                      · exact ⟨by simp only [mapE_append, herr, mapE_endSplit n m d _ harg]; sh_eq, h6⟩
                      · exact ⟨by simp only [mapE_append, herr, mapE_endSplit n m d _ harg]; sh_eq, hs2⟩
      · split
        · rw [eq]
          rcases hv : (pQualifiedIdent ⟨n⟩ (t :: rest)).val with _ | parts
          · exact ⟨by sh_eq, pq⟩
          · exact ⟨by sh_eq, pq⟩
        · split
          · simp only [split_shift]
            obtain ⟨e1, p1⟩ := ih.expr _ (h2.split1 (k := .rparen))
            rw [e1]
            have hs2 := h2.split2 (k := .rparen)
            rcases hsp : (split .rparen rest).2 with _ | ⟨rp, rest2⟩
            · exact ⟨by sh_eq, TokP_nil⟩
            · rw [hsp] at hs2
              obtain ⟨h5, h6⟩ := (TokP_cons _ _).mp hs2
              simp only [List.map_cons, shift_kind_eq]
              split
              · exact ⟨by sh_eq, h6⟩
              · exact ⟨by sh_eq, h6⟩
          · exact ⟨by sh_eq, h⟩

theorem pExprList_sh_step (fuel : Nat) (ih : ExprSh n m d fuel) (ts : List Token) (h : TokP ts) :
    Sh n m d (shExprList d) (pExprList ⟨n⟩ (fuel + 1) ts)
      (pExprList ⟨m⟩ (fuel + 1) (ts.map (Token.shift d))) := by
  obtain ⟨e1, p1⟩ := ih.expr ts h
  simp only [pExprList]
  rw [e1]
  simp only [ne_eq, mapE_eq_nil]
  split
  · exact ⟨by sh_eq, p1⟩
  · have := ih.exprListTail (.cons (pExpr ⟨n⟩ fuel ts).val .nil) _ p1
    simpa only [shExprList] using this

theorem pExprListTail_sh_step (fuel : Nat) (ih : ExprSh n m d fuel) (acc : ExprList)
    (ts : List Token) (h : TokP ts) :
    Sh n m d (shExprList d) (pExprListTail ⟨n⟩ (fuel + 1) acc ts)
      (pExprListTail ⟨m⟩ (fuel + 1) (shExprList d acc) (ts.map (Token.shift d))) := by
  cases ts with
  | nil => exact ⟨by simp [pExprListTail], by simp [pExprListTail]⟩
  | cons t rest =>
    obtain ⟨h1, h2⟩ := (TokP_cons _ _).mp h
    simp only [pExprListTail, List.map_cons, shift_kind_eq]
    split
    · exact ⟨by sh_eq, h⟩
    · obtain ⟨e1, p1⟩ := ih.expr rest h2
      rw [e1]
      simp only [isNF_mapE, ne_eq, mapE_eq_nil]
      split
      · exact ⟨by sh_eq, h⟩
      · cases hv : (pExpr ⟨n⟩ fuel rest).val <;> simp only [shExpr] <;>
        · split
          · exact ⟨by simp only [shExprList_snoc]; sh_eq, p1⟩
          · have := ih.exprListTail (match (pExpr ⟨n⟩ fuel rest).val with | .nil => acc | x => acc.snoc x) _ p1
            simp only [hv, shExprList_snoc, shExpr] at this
            exact this

theorem exprSh : ∀ fuel, ExprSh n m d fuel := by
  intro fuel
  induction fuel with
  | zero => exact ExprSh.zero
  | succ fuel ih =>
    exact ⟨pExpr_sh_step fuel ih, pTrail_sh_step fuel ih, pHigher_sh_step fuel ih,
      pUnary_sh_step fuel ih, pPrimary_sh_step fuel ih, pInner_sh_step fuel ih,
      pExprList_sh_step fuel ih, pExprListTail_sh_step fuel ih⟩

theorem pExpr_sh (fuel : Nat) (ts : List Token) (h : TokP ts) :
    Sh n m d (shExpr d) (pExpr ⟨n⟩ fuel ts) (pExpr ⟨m⟩ fuel (ts.map (Token.shift d))) :=
  (exprSh fuel).expr ts h

theorem pExprList_sh (fuel : Nat) (ts : List Token) (h : TokP ts) :
    Sh n m d (shExprList d) (pExprList ⟨n⟩ fuel ts) (pExprList ⟨m⟩ fuel (ts.map (Token.shift d))) :=
  (exprSh fuel).exprList ts h

end Pql.Piecewise
