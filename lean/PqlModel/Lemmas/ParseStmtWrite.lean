/-
C05, syntactic half, stage 2 (d): the Bool side conditions (`exprOK`, `opOK`, `SubA.exprsOK`), the
intended SELECT `selOf` cut along the same lines as `Subquery.write` (`srcOfA`, `bodyA`, `orderA`,
`limitA`), and the expression-level bridge from the C01 round trip.
-/
import PqlModel.Lemmas.ParseStmtRel
namespace Pql.C05
set_option linter.unusedSimpArgs false
set_option linter.unusedVariables false
open Pql Sql CompileOracle Intended Pql.RT

/-! ### side conditions -/

/-- an expression the round trip applies to: lexable literals / names, `shapeOK` (no operator-word
    function names, no empty identifier, no empty `in` list), and translatable by `tr` -/
def exprOKin (join : Bool) (e : Expr) : Bool := e.lexOK && shapeOK e && (tr join e).isSome

abbrev exprOK (e : Expr) : Bool := exprOKin false e

/-- a `project` column: `name` alone stands for `name = name` -/
def projColOK (c : Column) : Bool :=
  match c.x with
  | .nil => c.name.isSome
  | x => exprOK x

def colOK (c : Column) : Bool := exprOK c.x

def opOK : Option Op → Bool
  | none => true
  | some (.as_ ..) => true
  | some (.project _ _ cols) => !cols.isEmpty && cols.all projColOK
  | some (.extend _ _ cols) => cols.all colOK
  | some (.summarize _ _ cols _ gb) => !(gb ++ cols).isEmpty && cols.all colOK && gb.all colOK
  | some (.where_ _ _ p) => exprOK p
  | some (.count ..) => true
  | some (.render ..) => true
  | some _ => false

def srcOK : SrcA → Bool
  | .table _ => true
  | .join _ _ _ _ cond => exprOKin true cond

def sortOK : Option (List SortTerm) → Bool
  | some ts => !ts.isEmpty && ts.all fun t => exprOK t.x
  | none => true

def takeOK : Option Expr → Bool
  | some n => exprOK n
  | none => true

/-- every expression of the link is `exprOK`; lists that SQL needs non-empty are non-empty -/
def subOK (a : SubA) : Bool := srcOK a.source && opOK a.op && sortOK a.sort && takeOK a.take

/-! ### expressions -/

theorem exprP_of_ok {src : Bytes} {m : Mode} {e : Expr} {cs : List Chunk}
    (hok : exprOKin (m == .join) e = true) (hw : writeExpr ⟨src, [], m⟩ e = .ok cs) :
    ∃ want, tr (m == .join) e = some want ∧ ExprP (toksOf cs) want := by
  simp only [exprOKin, Bool.and_eq_true, Option.isSome_iff_exists] at hok
  obtain ⟨⟨hl, hs⟩, want, ht⟩ := hok
  exact ⟨want, ht, (C01.good_all ⟨src, [], m⟩ rfl e hs hl).expr hw ht⟩

theorem exprP_default {src : Bytes} {e : Expr} {cs : List Chunk}
    (hok : exprOK e = true) (hw : writeExpr ⟨src, [], .default⟩ e = .ok cs) :
    ∃ want, tr false e = some want ∧ ExprP (toksOf cs) want :=
  exprP_of_ok (m := .default) hok hw

theorem exprP_join {src : Bytes} {e : Expr} {cs : List Chunk}
    (hok : exprOKin true e = true) (hw : writeExpr ⟨src, [], .join⟩ e = .ok cs) :
    ∃ want, tr true e = some want ∧ ExprP (toksOf cs) want :=
  exprP_of_ok (m := .join) hok hw

/-! ### `selOf` in the steps of `Subquery.write` -/

def srcOfA (s : SrcA) : Option (TableRef × Option JoinClause) :=
  match s with
  | .table n => pure (TableRef.named n none, none)
  | .join unique left l r cond => do
    let c ← tr true cond
    pure (if unique then TableRef.distinctOf l (some leftA) else TableRef.named l (some leftA),
          some ⟨left, .named r (some rightA), c⟩)

def bodyA (src : Bytes) (op : Option Op) (base : Select) : Option Select :=
  match op with
  | none => pure base
  | some (.as_ ..) => pure base
  | some (.project _ _ cols) => do
    let items ← cols.mapM projectItem
    pure { base with items }
  | some (.extend _ _ cols) => do
    let items ← cols.mapM (itemOf src)
    pure { base with items := starItem :: items }
  | some (.summarize _ _ cols _ groupBy) => do
    let gs ← groupBy.mapM (itemOf src)
    let cs ← cols.mapM (itemOf src)
    let gb ← groupBy.mapM fun c => tr false c.x
    pure { base with items := gs ++ cs, groupBy := gb }
  | some (.where_ _ _ pred) => do
    let p ← tr false pred
    pure { base with where_ := some p }
  | some (.count ..) =>
    pure { base with items := [⟨false, .call (Bytes.ofString "COUNT") true .nil .none_, some (Bytes.ofString "count()")⟩] }
  | some (.render _ _ chart _ _ props _) =>
    pure { base with items := starItem :: ⟨false, .str (identName chart), some (Bytes.ofString "render_type")⟩ ::
            props.map fun p => ⟨false, .str (renderPropValue p.value), some (Bytes.ofString "render_prop_" ++ identName p.name)⟩ }
  | some _ => none

def orderA (sort : Option (List SortTerm)) : Option (List OrderTerm) :=
  match sort with
  | some terms => terms.mapM orderOf
  | none => pure []

def limitA (take : Option Expr) : Option (Option SExpr) :=
  match take with
  | some n => (tr false n).map some
  | none => pure none

def baseSel (source : TableRef) (join : Option JoinClause) : Select :=
  { items := [starItem], source, join, where_ := none, groupBy := [], orderBy := [], limit := none }

theorem selOf_eq (src : Bytes) (s : SubA) :
    selOf src s = (do
      let (source, join) ← srcOfA s.source
      let body ← bodyA src s.op (baseSel source join)
      let orderBy ← orderA s.sort
      let limit ← limitA s.take
      pure { body with orderBy, limit }) := by
  obtain ⟨name, source, op, sort, take⟩ := s
  cases source with
  | table n =>
    rcases op with _ | o
    · cases sort <;> cases take <;> rfl
    · cases o <;> cases sort <;> cases take <;> first | rfl | (simp only [selOf, srcOfA, bodyA, orderA, limitA, baseSel, Option.bind_eq_bind, Option.pure_def, Option.bind_some, Option.bind_assoc, Option.map_eq_bind]; done)
  | join u l a b c =>
    simp only [selOf, srcOfA, Option.bind_eq_bind, Option.pure_def, Option.bind_assoc]
    cases tr true c with
    | none => rfl
    | some w =>
      rcases op with _ | o
      · cases sort <;> cases take <;> rfl
      · cases o <;> cases sort <;> cases take <;> first | rfl | (simp only [selOf, srcOfA, bodyA, orderA, limitA, baseSel, Option.bind_eq_bind, Option.pure_def, Option.bind_some, Option.bind_assoc, Option.map_eq_bind]; done)

/-- the assembled form: from the three parts to `selOf` -/
theorem selOf_of_parts {src : Bytes} {s : SubA} {source : TableRef} {join : Option JoinClause} {body : Select}
    {ob : List OrderTerm} {lim : Option SExpr}
    (h1 : srcOfA s.source = some (source, join)) (h2 : bodyA src s.op (baseSel source join) = some body)
    (h3 : orderA s.sort = some ob) (h4 : limitA s.take = some lim) :
    selOf src s = some { body with orderBy := ob, limit := lim } := by
  rw [selOf_eq, h1]
  simp only [Option.bind_eq_bind, Option.bind_some, h2, h3, h4]
  rfl

end Pql.C05
