/-
`ExprParseIR`, the cursor: evaluation lemmas for the interpreter of Model/ExprParseIR.lean and the units
`next`, `prev` (concrete reading: token slice and integer position), `endSplit`, `ident`.
-/
import PqlModel.Lemmas.ExprParseIRUnits
namespace Pql.ExprParseIR
open Pql
set_option linter.unusedSimpArgs false
set_option maxRecDepth 8000

/-! ### the monad -/

@[simp] theorem bind_ok {α β : Type} (a : α) (f : α → Out β) : (Out.ok a).bind f = f a := rfl
@[simp] theorem bind_panic {α β : Type} (f : α → Out β) : (Out.panic : Out α).bind f = .panic := rfl
@[simp] theorem bind_stuck {α β : Type} (f : α → Out β) : (Out.stuck : Out α).bind f = .stuck := rfl
@[simp] theorem bind_fuel {α β : Type} (f : α → Out β) : (Out.fuel : Out α).bind f = .fuel := rfl
@[simp] theorem ofOption_some {α : Type} (a : α) : Out.ofOption (some a) = .ok a := rfl
@[simp] theorem ofOption_none {α : Type} : Out.ofOption (none : Option α) = .stuck := rfl

/-! ### parameter and result tables -/

theorem params_next : paramsOf "next" = some ["p"] := by rfl
theorem params_prev : paramsOf "prev" = some ["p"] := by rfl
theorem params_endSplit : paramsOf "endSplit" = some ["p"] := by rfl
theorem params_split : paramsOf "split" = some ["p", "search"] := by rfl
theorem params_ident : paramsOf "ident" = some ["p"] := by rfl
theorem params_qualifiedIdent : paramsOf "qualifiedIdent" = some ["p"] := by rfl
theorem params_inner : paramsOf "innerPrimaryExpr" = some ["p"] := by rfl
theorem params_primary : paramsOf "primaryExpr" = some ["p"] := by rfl
theorem params_unary : paramsOf "unaryExpr" = some ["p"] := by rfl
theorem params_trail : paramsOf "exprBinaryTrail" = some ["p", "x", "minPrecedence"] := by rfl
theorem params_expr : paramsOf "expr" = some ["p"] := by rfl
theorem params_exprList : paramsOf "exprList" = some ["p"] := by rfl

theorem results_next : resultsOf "next" = some ["Token", "bool"] := by rfl
theorem results_prev : resultsOf "prev" = some [] := by rfl
theorem results_endSplit : resultsOf "endSplit" = some ["error"] := by rfl
theorem results_split : resultsOf "split" = some ["*parser"] := by rfl
theorem results_ident : resultsOf "ident" = some ["*Ident", "error"] := by rfl
theorem results_qualifiedIdent : resultsOf "qualifiedIdent" = some ["*QualifiedIdent", "error"] := by rfl
theorem results_inner : resultsOf "innerPrimaryExpr" = some ["Expr", "error"] := by rfl
theorem results_primary : resultsOf "primaryExpr" = some ["Expr", "error"] := by rfl
theorem results_unary : resultsOf "unaryExpr" = some ["Expr", "error"] := by rfl
theorem results_trail : resultsOf "exprBinaryTrail" = some ["Expr", "error"] := by rfl
theorem results_expr : resultsOf "expr" = some ["Expr", "error"] := by rfl
theorem results_exprList : resultsOf "exprList" = some ["[]Expr", "error"] := by rfl

/-- `==` on kinds as a decision, so that `simp` can use hypotheses about kinds -/
theorem kind_beq (a b : TokKind) : (a == b) = decide (a = b) := by
  cases h : decide (a = b) <;> simp_all

theorem kindValue_ne_zero (k : TokKind) : (kindValue k).map (· == 0) = some false := by
  cases k <;> rfl

theorem isTrue_true : isTrue (.bool true) = true := rfl

theorem exec_loop (c : ICtx) (sem : Sem) (label : String) (cond : E) (body : List Stmt) (b : Nat) (st : State) :
    exec c sem (.loop label cond body) b st =
      if isTrue cond && leaves body then
        (execBlock c sem body b st).bind fun f => match f with | .ret vs st' => .ok (.ret vs st') | _ => .stuck
      else iter (loopStep c sem cond body) label b st := by
  rw [exec]; rfl

theorem execBlock_nil (c : ICtx) (sem : Sem) (b : Nat) (st : State) : execBlock c sem [] b st = .ok (.next st) := by
  rw [execBlock]

/-- the last statement of a block -/
theorem execBlock_last (c : ICtx) (sem : Sem) (s : Stmt) (b : Nat) (st : State) :
    execBlock c sem [s] b st = exec c sem s b st := by
  rw [execBlock]
  cases exec c sem s b st with
  | ok f => cases f <;> simp [Out.bind, execBlock]
  | _ => rfl

theorem execBlock_cons2 (c : ICtx) (sem : Sem) (s s' : Stmt) (r : List Stmt) (b : Nat) (st : State) :
    execBlock c sem (s :: s' :: r) b st =
      (exec c sem s b st).bind fun f =>
        match f with
        | .next st' => execBlock c sem (s' :: r) b st'
        | f => .ok f := by
  rw [execBlock]
  congr 1

/-- evaluate the interpreter on a concrete tree -/
syntax "ir_simp" (" [" Lean.Parser.Tactic.simpLemma,* "]")? : tactic
macro_rules
  | `(tactic| ir_simp) => `(tactic| ir_simp [])
  | `(tactic| ir_simp [$ls,*]) =>
    `(tactic| simp [runBody, execBlock_nil, execBlock_last, execBlock_cons2, exec.eq_1, exec.eq_2, exec.eq_3, exec.eq_4, exec.eq_5, exec_loop, exec.eq_7,
        exec.eq_8, exec.eq_9, exec.eq_10, exec.eq_11, evalRhs, evalBool, eval, evalList, State.get, State.set, State.declare,
        State.leave, Flow.leave, assignIn, assignAll, assignOne, coerceLike, readField, writeField, evalLen, evalCmp,
        cmpEq, cmpLt, evalIndex, evalSlice, evalAppend, evalCall, evalMcall, allErrs, asErr, asExpr, asExprs, mkNode,
        onlyFields, fieldOf, spanField, exprField, exprsField, kindField, bytesField, boolField, zeroOf, getParser,
        coerceResults, coerceResult, isTrue_true, TokKind.ofGoName,
        TokKind.all, TokKind.goName, isNilExpr, asPState, coerceIdent, coerceQid, coerceParser, coerceTok, coerceBool,
        callPrecedence, callNullSpan, callIndexSpan, callOpaque, callIsNF, mAsQualified, mEndSplit, mString, identField,
        srcField, toksField, setIndexField, setParts, setPos, setCPos, splitKindVal, kind_beq, finish, $ls,*])

/-! ### `next` and `prev` on the concrete reading -/

/-- where `next` leaves the position -/
def nextPos (toks : List Token) (pos : Nat) : Nat := if pos < toks.length then pos + 1 else toks.length + 1
/-- where `prev` leaves the position -/
def prevPos (toks : List Token) (pos : Nat) : Nat := if 0 < pos ∧ pos ≤ toks.length then pos - 1 else pos

/-- **`next`, translated.**  On the Go fields (token slice, integer position): the token at `pos` and
    `true`, or the synthetic EOF token and `false`; the position moves by one, or to `len + 1` for good. -/
theorem next_ir (c : ICtx) (toks : List Token) (pos : Nat) :
    runCursor c "next" toks pos =
      .ok ([.tok (nextTokV ⟨c.srcLen, Bytes.ofString "EOF"⟩ (toks.drop pos)).1,
            .bool (nextTokV ⟨c.srcLen, Bytes.ofString "EOF"⟩ (toks.drop pos)).2.1],
           .cparser toks (nextPos toks pos)) := by
  by_cases h : pos < toks.length
  · have hd : toks.drop pos = toks[pos] :: toks.drop (pos + 1) := List.drop_eq_getElem_cons h
    have h1 : ¬ (toks.length ≤ pos) := by omega
    have h2 : ¬ ((pos : Int) < 0) := by omega
    have h3 : toks[pos]? = some toks[pos] := List.getElem?_eq_getElem h
    have h4 : ¬ ((pos : Int) + 1 < 0) := by omega
    have h5 : ((pos : Int) + 1).toNat = pos + 1 := by omega
    have hn : ∀ c' : ICtx, nextTokV c' (toks.drop pos) = (toks[pos], true, toks.drop (pos + 1)) := by
      intro c'; rw [hd]; rfl
    rw [hn]
    ir_simp [runCursor, nextIR_ir, nextIR, params_next, results_next, nextPos, h, h1, h2, h3, h4, h5]
  · have hd : toks.drop pos = [] := List.drop_eq_nil_of_le (by omega)
    have h1 : toks.length ≤ pos := by omega
    have h4 : ¬ ((toks.length : Int) + 1 < 0) := by omega
    have h5 : ((toks.length : Int) + 1).toNat = toks.length + 1 := by omega
    rw [hd]
    ir_simp [runCursor, nextIR_ir, nextIR, params_next, results_next, nextTokV, nextPos, h, h1, h4, h5, Span.zero]

/-- **`prev`, translated.** -/
theorem prev_ir (c : ICtx) (toks : List Token) (pos : Nat) :
    runCursor c "prev" toks pos = .ok ([], .cparser toks (prevPos toks pos)) := by
  by_cases h0 : 0 < pos
  · by_cases h1 : pos ≤ toks.length
    · have h2 : ¬ ((pos : Int) - 1 < 0) := by omega
      have h3 : ((pos : Int) - 1).toNat = pos - 1 := by omega
      ir_simp [runCursor, prevIR_ir, prevIR, params_prev, results_prev, prevPos, h0, h1, h2, h3]
    · have h1' : toks.length < pos := by omega
      ir_simp [runCursor, prevIR_ir, prevIR, params_prev, results_prev, prevPos, h0, h1, h1']
  · have : pos = 0 := by omega
    subst this
    ir_simp [runCursor, prevIR_ir, prevIR, params_prev, results_prev, prevPos]

/-- what `next` leaves to be read is what the abstract `nextTokV` leaves -/
theorem next_rest (c : ICtx) (toks : List Token) (pos : Nat) :
    toks.drop (nextPos toks pos) = (nextTokV c (toks.drop pos)).2.2 := by
  unfold nextPos
  by_cases h : pos < toks.length
  · rw [List.drop_eq_getElem_cons h]
    simp only [h, if_true, nextTokV]
  · have hd : toks.drop pos = [] := List.drop_eq_nil_of_le (by omega)
    simp [h, hd, nextTokV]

/-- **one-token push-back**: `prev` directly after `next` gives back what was to be read before — also at
    the end of the input, where both leave nothing to read -/
theorem prev_after_next (toks : List Token) (pos : Nat) :
    toks.drop (prevPos toks (nextPos toks pos)) = toks.drop pos := by
  unfold prevPos nextPos
  by_cases h : pos < toks.length
  · have : 0 < pos + 1 ∧ pos + 1 ≤ toks.length := by omega
    simp [h, this]
  · have h' : ¬ (0 < toks.length + 1 ∧ toks.length + 1 ≤ toks.length) := by omega
    simp only [h, if_false, h']
    rw [List.drop_eq_nil_of_le (by omega), List.drop_eq_nil_of_le (by omega)]

/-- **sticky end of input**: once `next` has reported EOF, neither `prev` nor `next` moves the position -/
theorem eof_sticky (toks : List Token) (pos : Nat) (h : toks.length ≤ pos) :
    prevPos toks (nextPos toks pos) = toks.length + 1 ∧ nextPos toks (nextPos toks pos) = toks.length + 1 := by
  unfold prevPos nextPos
  have h1 : ¬ pos < toks.length := by omega
  have h2 : ¬ (0 < toks.length + 1 ∧ toks.length + 1 ≤ toks.length) := by omega
  simp [h1, h2]

/-- a second `prev` WOULD go back a second token (so the abstract reading, which is stuck there, is the
    careful one): positions 2 → 1 → 0 on a two-token slice -/
theorem prev_twice (t u : Token) : prevPos [t, u] (prevPos [t, u] 2) = 0 := by simp [prevPos]

end Pql.ExprParseIR
