/-
Property C16, semantic half — compiling ignores a span shift together with a prepended text.

`shMap d`            : the content map (Lemmas/ShapeBasic.lean) that moves positions by `shSpan d`
                       and leaves all contents alone; `mapStmt (shMap d) = shStmt d`.
`spanOf_sh`          : for an expression all of whose span fields are token spans (`goodE`),
                       `Span()` commutes with the shift, and is `null` or a token-like span;
`sliceSource_shift`  : `(P ++ s)[sp + |P|] = s[sp]` — the implicit column name is the same text;
`compileChunks_shift`: `compileChunks (P ++ s) [] (stmts.map (shStmt |P|)) = compileChunks s [] stmts`
                       when every sliced column of `stmts` is `goodE` (`colsGoodStmt`).
-/
import PqlModel.Lemmas.CliSemDefs
import PqlModel.Lemmas.ShapeSpan
namespace Pql.CliSem
open Pql Pql.Piecewise

def shMap (d : Nat) : CMap := ⟨id, id, id, shSpan d⟩

@[simp] theorem fsp_shMap (d : Nat) (sp : Span) : (shMap d).fsp sp = shSpan d sp := rfl
@[simp] theorem fn_shMap (d : Nat) (n : Bytes) : (shMap d).fn n = n := rfl

theorem mapC_shMap (d : Nat) (c : Chunk) : Chunk.mapC (shMap d) c = c := by cases c <;> rfl

theorem map_mapC_shMap (d : Nat) (cs : List Chunk) : cs.map (Chunk.mapC (shMap d)) = cs := by
  induction cs with
  | nil => rfl
  | cons c cs ih => rw [List.map_cons, mapC_shMap, ih]

theorem ident_shMap (d : Nat) : (shMap d).ident = shIdent d := rfl
theorem fnIdent_shMap (d : Nat) : (shMap d).fnIdent = shIdent d := rfl

theorem lit_shMap (d : Nat) (k : TokKind) (v : Bytes) : (shMap d).lit k v = v := by
  unfold CMap.lit
  split
  · rfl
  · split <;> rfl

mutual
theorem mapE_shMap (d : Nat) : (e : Expr) → mapE (shMap d) e = shExpr d e
  | .nil => rfl
  | .qident parts => by simp only [mapE, shExpr, ident_shMap]
  | .lit sp k v => by simp only [mapE, shExpr, lit_shMap, fsp_shMap]
  | .unary os op x => by simp only [mapE, shExpr, fsp_shMap, mapE_shMap d x]
  | .binary x os op y => by simp only [mapE, shExpr, fsp_shMap, mapE_shMap d x, mapE_shMap d y]
  | .inE x i lp vals rp => by simp only [mapE, shExpr, fsp_shMap, mapE_shMap d x, mapL_shMap d vals]
  | .paren lp x rp => by simp only [mapE, shExpr, fsp_shMap, mapE_shMap d x]
  | .call fn lp args rp => by simp only [mapE, shExpr, fsp_shMap, fnIdent_shMap, mapL_shMap d args]
  | .index x lb idx rb => by simp only [mapE, shExpr, fsp_shMap, mapE_shMap d x, mapE_shMap d idx]
theorem mapL_shMap (d : Nat) : (es : ExprList) → mapL (shMap d) es = shExprList d es
  | .nil => rfl
  | .cons e es => by simp only [mapL, shExprList, mapE_shMap d e, mapL_shMap d es]
end

theorem mapSortTerm_shMap (d : Nat) : mapSortTerm (shMap d) = shSortTerm d := by
  funext t; simp only [mapSortTerm, shSortTerm, mapE_shMap, fsp_shMap]
theorem mapColumn_shMap (d : Nat) : mapColumn (shMap d) = shColumn d := by
  funext c; simp only [mapColumn, shColumn, mapE_shMap, fsp_shMap, ident_shMap]
theorem mapProp_shMap (d : Nat) : mapProp (shMap d) = shRenderProp d := by
  funext p; simp only [mapProp, shRenderProp, mapE_shMap, fsp_shMap, ident_shMap]

mutual
theorem mapT_shMap (d : Nat) : (t : Tabular) → mapT (shMap d) t = shTabular d t
  | .nil => rfl
  | .mk src ops => by simp only [mapT, shTabular, ident_shMap, mapOps_shMap d ops]
theorem mapOp_shMap (d : Nat) : (o : Op) → mapOp (shMap d) o = shOp d o
  | .count p k => by simp only [mapOp, shOp, fsp_shMap]
  | .where_ p k e => by simp only [mapOp, shOp, fsp_shMap, mapE_shMap]
  | .sort p k ts => by simp only [mapOp, shOp, fsp_shMap, mapSortTerm_shMap]
  | .take p k e => by simp only [mapOp, shOp, fsp_shMap, mapE_shMap]
  | .top p k e b col => by simp only [mapOp, shOp, fsp_shMap, mapE_shMap, mapSortTerm_shMap]
  | .project p k cs => by simp only [mapOp, shOp, fsp_shMap, mapColumn_shMap]
  | .extend p k cs => by simp only [mapOp, shOp, fsp_shMap, mapColumn_shMap]
  | .summarize p k cs b gs => by simp only [mapOp, shOp, fsp_shMap, mapColumn_shMap]
  | .join p k kind ka fl lp right rp on conds => by
    simp only [mapOp, shOp, fsp_shMap, fnIdent_shMap, mapT_shMap d right, mapL_shMap]
  | .as_ p k nm => by simp only [mapOp, shOp, fsp_shMap, ident_shMap]
  | .render p k ch w lp props rp => by simp only [mapOp, shOp, fsp_shMap, ident_shMap, mapProp_shMap]
theorem mapOps_shMap (d : Nat) : (os : OpList) → mapOps (shMap d) os = shOpList d os
  | .nil => rfl
  | .cons o os => by simp only [mapOps, shOpList, mapOp_shMap d o, mapOps_shMap d os]
end

theorem mapStmt_shMap (d : Nat) : mapStmt (shMap d) = shStmt d := by
  funext st
  cases st with
  | let_ kw name asg x => simp only [mapStmt, shStmt, fsp_shMap, fnIdent_shMap, mapE_shMap]
  | tabular t => simp only [mapStmt, shStmt, mapT_shMap]

/-! ### spans that are `null` or token-like -/

/-- `null`, or `0 ≤ start < stop` -/
def G (s : Span) : Prop := s = .null ∨ goodSp s = true

theorem goodSp_iff (s : Span) : goodSp s = true ↔ 0 ≤ s.start ∧ s.start < s.stop := by
  simp [goodSp]

theorem shSpan_good (d : Nat) (s : Span) (h : goodSp s = true) :
    shSpan d s = ⟨s.start + d, s.stop + d⟩ := by
  rw [goodSp_iff] at h
  simp only [shSpan]
  rw [if_pos (by omega)]

theorem goodSp_shSpan (d : Nat) (s : Span) (h : goodSp s = true) : goodSp (shSpan d s) = true := by
  rw [shSpan_good d s h]
  rw [goodSp_iff] at h ⊢
  simp only
  omega

theorem G_null : G .null := Or.inl rfl

theorem G_shSpan (d : Nat) {s : Span} (h : G s) : G (shSpan d s) := by
  rcases h with rfl | h
  · rw [shSpan_null]; exact G_null
  · exact Or.inr (goodSp_shSpan d s h)

theorem isValid_of_good {s : Span} (h : goodSp s = true) : s.isValid = true := by
  rw [goodSp_iff] at h
  simp only [Span.isValid, Bool.and_eq_true, decide_eq_true_eq]
  omega

theorem isValid_null : Span.null.isValid = false := by decide

theorem isValid_shSpan {d : Nat} {s : Span} (h : G s) : (shSpan d s).isValid = s.isValid := by
  rcases h with rfl | h
  · rw [shSpan_null]
  · rw [isValid_of_good h, isValid_of_good (goodSp_shSpan d s h)]

theorem union_shift (d : Nat) {u s : Span} (hu : G u) (hs : G s) :
    G (Span.union u s) ∧ shSpan d (Span.union u s) = Span.union (shSpan d u) (shSpan d s) := by
  rcases hs with rfl | hs
  · -- nothing to add
    have e1 : Span.union u .null = u := by simp [Span.union, isValid_null]
    have e2 : Span.union (shSpan d u) .null = shSpan d u := by simp [Span.union, isValid_null]
    rw [shSpan_null, e1, e2]
    exact ⟨hu, rfl⟩
  · have hsv := isValid_of_good hs
    have hsv' := isValid_of_good (goodSp_shSpan d s hs)
    rcases hu with rfl | hu
    · have e1 : Span.union .null s = s := by simp [Span.union, isValid_null, hsv]
      have e2 : Span.union .null (shSpan d s) = shSpan d s := by
        simp [Span.union, isValid_null, hsv']
      rw [shSpan_null, e1, e2]
      exact ⟨Or.inr hs, rfl⟩
    · have huv := isValid_of_good hu
      have huv' := isValid_of_good (goodSp_shSpan d u hu)
      have e1 : Span.union u s = ⟨min u.start s.start, max u.stop s.stop⟩ := by
        simp [Span.union, hsv, huv]
      have e2 : Span.union (shSpan d u) (shSpan d s) =
          ⟨min (shSpan d u).start (shSpan d s).start, max (shSpan d u).stop (shSpan d s).stop⟩ := by
        simp [Span.union, hsv', huv']
      have hg : goodSp (⟨min u.start s.start, max u.stop s.stop⟩ : Span) = true := by
        rw [goodSp_iff] at hu hs ⊢
        simp only
        omega
      rw [e2, e1]
      refine ⟨Or.inr hg, ?_⟩
      rw [shSpan_good d _ hg, shSpan_good d u hu, shSpan_good d s hs]
      simp only [Span.mk.injEq]
      constructor <;> omega

theorem foldl_union_shift (d : Nat) (ss : List Span) (hs : ∀ s ∈ ss, G s) (u : Span) (hu : G u) :
    G (ss.foldl Span.union u) ∧
      shSpan d (ss.foldl Span.union u) = (ss.map (shSpan d)).foldl Span.union (shSpan d u) := by
  induction ss generalizing u with
  | nil => exact ⟨hu, rfl⟩
  | cons s ss ih =>
    simp only [List.foldl_cons, List.map_cons]
    have h1 := union_shift d hu (hs s (by simp))
    have h2 := ih (fun s' h' => hs s' (by simp [h'])) (Span.union u s) h1.1
    rw [← h1.2]
    exact h2

theorem unions_shift (d : Nat) (ss : List Span) (hs : ∀ s ∈ ss, G s) :
    G (Span.unions ss) ∧ shSpan d (Span.unions ss) = Span.unions (ss.map (shSpan d)) := by
  have := foldl_union_shift d ss hs .null G_null
  rw [shSpan_null] at this
  exact this

theorem filter_isValid_shift (d : Nat) (ss : List Span) (hs : ∀ s ∈ ss, G s) :
    (ss.map (shSpan d)).filter Span.isValid = (ss.filter Span.isValid).map (shSpan d) := by
  induction ss with
  | nil => rfl
  | cons s ss ih =>
    have h1 := isValid_shSpan (d := d) (hs s (by simp))
    have h2 := ih (fun s' h' => hs s' (by simp [h']))
    simp only [List.map_cons, List.filter_cons, h1, h2]
    split <;> simp

theorem sliceSpan_shift (d : Nat) (ss : List Span) (hs : ∀ s ∈ ss, G s) :
    G (sliceSpan ss) ∧ shSpan d (sliceSpan ss) = sliceSpan (ss.map (shSpan d)) := by
  unfold sliceSpan
  rw [filter_isValid_shift d ss hs]
  exact unions_shift d _ (fun s h => hs s (List.mem_filter.mp h).1)

/-! ### `Span()` of a shifted expression -/

mutual
theorem spanOf_sh (d : Nat) : (e : Expr) → goodE e = true →
    G e.spanOf ∧ (shExpr d e).spanOf = shSpan d e.spanOf
  | .nil, _ => ⟨G_null, by simp only [shExpr, Expr.spanOf, shSpan_null]⟩
  | .qident parts, h => by
    simp only [goodE, List.all_eq_true, goodIdent] at h
    have hs : ∀ s ∈ parts.map (fun i => i.span), G s := by
      intro s hmem
      obtain ⟨i, hi, rfl⟩ := List.mem_map.mp hmem
      exact Or.inr (h i hi)
    have := sliceSpan_shift d _ hs
    simp only [shExpr, Expr.spanOf, List.map_map]
    refine ⟨this.1, ?_⟩
    rw [this.2, List.map_map]
    rfl
  | .lit sp _ _, h => by
    simp only [goodE] at h
    exact ⟨Or.inr h, rfl⟩
  | .unary os op x, h => by
    simp only [goodE, Bool.and_eq_true] at h
    obtain ⟨i1, i2⟩ := spanOf_sh d x h.2
    have := unions_shift d [os, x.spanOf] (by
      intro s hmem; simp only [List.mem_cons, List.not_mem_nil, or_false] at hmem
      rcases hmem with rfl | rfl
      · exact Or.inr h.1
      · exact i1)
    simp only [shExpr, Expr.spanOf, i2]
    exact ⟨this.1, this.2.symm⟩
  | .binary x os op y, h => by
    simp only [goodE, Bool.and_eq_true] at h
    obtain ⟨i1, i2⟩ := spanOf_sh d x h.1.1
    obtain ⟨j1, j2⟩ := spanOf_sh d y h.2
    have := unions_shift d [x.spanOf, os, y.spanOf] (by
      intro s hmem; simp only [List.mem_cons, List.not_mem_nil, or_false] at hmem
      rcases hmem with rfl | rfl | rfl
      · exact i1
      · exact Or.inr h.1.2
      · exact j1)
    simp only [shExpr, Expr.spanOf, i2, j2]
    exact ⟨this.1, this.2.symm⟩
  | .inE x i lp vals rp, h => by
    simp only [goodE, Bool.and_eq_true] at h
    obtain ⟨i1, i2⟩ := spanOf_sh d x h.1.1.1.1
    obtain ⟨v1, v2⟩ := spansOf_sh d vals h.1.2
    have hv := sliceSpan_shift d _ v1
    have := unions_shift d [x.spanOf, i, lp, sliceSpan vals.spansOf, rp] (by
      intro s hmem; simp only [List.mem_cons, List.not_mem_nil, or_false] at hmem
      rcases hmem with rfl | rfl | rfl | rfl | rfl
      · exact i1
      · exact Or.inr h.1.1.1.2
      · exact Or.inr h.1.1.2
      · exact hv.1
      · exact Or.inr h.2)
    simp only [shExpr, Expr.spanOf, i2, v2, ← hv.2]
    exact ⟨this.1, this.2.symm⟩
  | .paren lp x rp, h => by
    simp only [goodE, Bool.and_eq_true] at h
    obtain ⟨i1, i2⟩ := spanOf_sh d x h.1.2
    have := unions_shift d [lp, x.spanOf, rp] (by
      intro s hmem; simp only [List.mem_cons, List.not_mem_nil, or_false] at hmem
      rcases hmem with rfl | rfl | rfl
      · exact Or.inr h.1.1
      · exact i1
      · exact Or.inr h.2)
    simp only [shExpr, Expr.spanOf, i2]
    exact ⟨this.1, this.2.symm⟩
  | .call fn lp args rp, h => by
    simp only [goodE, Bool.and_eq_true, goodIdent] at h
    obtain ⟨v1, v2⟩ := spansOf_sh d args h.1.2
    have hv := sliceSpan_shift d _ v1
    have := unions_shift d [fn.span, lp, sliceSpan args.spansOf, rp] (by
      intro s hmem; simp only [List.mem_cons, List.not_mem_nil, or_false] at hmem
      rcases hmem with rfl | rfl | rfl | rfl
      · exact Or.inr h.1.1.1
      · exact Or.inr h.1.1.2
      · exact hv.1
      · exact Or.inr h.2)
    simp only [shExpr, Expr.spanOf, v2, ← hv.2, shIdent]
    exact ⟨this.1, this.2.symm⟩
  | .index x lb idx rb, h => by
    simp only [goodE, Bool.and_eq_true] at h
    obtain ⟨i1, i2⟩ := spanOf_sh d x h.1.1.1
    obtain ⟨j1, j2⟩ := spanOf_sh d idx h.1.2
    have := unions_shift d [x.spanOf, lb, idx.spanOf, rb] (by
      intro s hmem; simp only [List.mem_cons, List.not_mem_nil, or_false] at hmem
      rcases hmem with rfl | rfl | rfl | rfl
      · exact i1
      · exact Or.inr h.1.1.2
      · exact j1
      · exact Or.inr h.2)
    simp only [shExpr, Expr.spanOf, i2, j2]
    exact ⟨this.1, this.2.symm⟩
theorem spansOf_sh (d : Nat) : (es : ExprList) → goodL es = true →
    (∀ s ∈ es.spansOf, G s) ∧ (shExprList d es).spansOf = es.spansOf.map (shSpan d)
  | .nil, _ => by
    simp only [shExprList, ExprList.spansOf, List.map_nil, List.not_mem_nil, and_true]
    intro s h; cases h
  | .cons e es, h => by
    simp only [goodL, Bool.and_eq_true] at h
    obtain ⟨i1, i2⟩ := spanOf_sh d e h.1
    obtain ⟨j1, j2⟩ := spansOf_sh d es h.2
    simp only [shExprList, ExprList.spansOf, i2, j2, List.map_cons]
    refine ⟨?_, trivial⟩
    intro s hmem
    rcases List.mem_cons.mp hmem with rfl | hmem
    · exact i1
    · exact j1 s hmem
end

/-! ### the slice -/

/-- **the implicit column name is the same text**: shifting the span by `|P|` and prepending `P`
    to the source leave the slice unchanged (`sp` is `null` — both fail — or a token-like span) -/
theorem sliceSource_shift (P s : Bytes) (sp : Span) (h : G sp) :
    sliceSource (P ++ s) (shSpan P.length sp) = sliceSource s sp := by
  rcases h with rfl | h
  · rw [shSpan_null]
    simp [sliceSource, Span.null]
  · rw [shSpan_good _ _ h]
    rw [goodSp_iff] at h
    obtain ⟨a, b⟩ := sp
    simp only at h
    unfold sliceSource
    simp only [List.length_append, Int.natCast_add]
    by_cases hb : b ≤ (s.length : Int)
    · rw [if_pos (by omega), if_pos (by omega)]
      have e1 : (a + (P.length : Int)).toNat = P.length + a.toNat := by omega
      have e2 : (b + (P.length : Int) - (a + (P.length : Int))).toNat = (b - a).toNat := by omega
      rw [e1, e2, List.drop_append, List.drop_eq_nil_of_le (by omega), Nat.add_sub_cancel_left,
        List.nil_append]
    · rw [if_neg (by omega), if_neg (by omega)]

/-- the same for the span of a shifted expression -/
theorem sliceSource_shExpr (P s : Bytes) (x : Expr) (h : goodE x = true) :
    sliceSource (P ++ s) (mapE (shMap P.length) x).spanOf = sliceSource s x.spanOf := by
  obtain ⟨h1, h2⟩ := spanOf_sh P.length x h
  rw [mapE_shMap, h2, sliceSource_shift P s _ h1]

/-! ### the side conditions of the parametricity theorem -/

theorem exRel_refl_qid (d : Nat) (r : Except WErr Bytes) :
    ExRel (fun t t' => MapsTo (shMap d) [.qid t] [.qid t']) r r := by
  cases r with
  | error e => exact ExRel.error_error _
  | ok t => exact (rfl : MapsTo (shMap d) [.qid t] [.qid t])

theorem aliasRel_shift (P s : Bytes) (cs : List Column) (h : goodCols cs = true) :
    ∀ c ∈ cs, AliasRel (shMap P.length) (MapsTo (shMap P.length)) s (P ++ s) c := by
  intro c hc _
  simp only [goodCols, List.all_eq_true] at h
  rw [sliceSource_shExpr P s c.x (h c hc)]
  exact exRel_refl_qid _ _

theorem renderPropValue_sh (d : Nat) (x : Expr) : renderPropValue (shExpr d x) = renderPropValue x := by
  cases x with
  | qident parts => cases parts <;> rfl
  | _ => rfl

theorem identName_sh (d : Nat) (i : Option Ident) : identName (i.map (shIdent d)) = identName i := by
  cases i <;> rfl

theorem opOK_shift (P s : Bytes) (o : Op) (h : goodOp o = true) :
    OpOK (shMap P.length) (MapsTo (shMap P.length)) s (P ++ s) o := by
  cases o with
  | extend p k cs =>
    simp only [goodOp] at h
    simp only [OpOK]
    exact aliasRel_shift P s cs h
  | summarize p k cs b gs =>
    simp only [goodOp, Bool.and_eq_true] at h
    simp only [OpOK]
    exact ⟨aliasRel_shift P s cs h.1, aliasRel_shift P s gs h.2⟩
  | project p k cs =>
    simp only [OpOK]
    exact fun _ _ _ => rfl
  | render p k ch w lp props rp =>
    simp only [OpOK]
    refine ⟨?_, fun pr _ => ⟨?_, ?_⟩⟩
    · rw [ident_shMap, identName_sh]; rfl
    · rw [mapE_shMap, renderPropValue_sh]; rfl
    · rw [ident_shMap, identName_sh]; rfl
  | count => simp only [OpOK]
  | where_ => simp only [OpOK]
  | sort => simp only [OpOK]
  | take => simp only [OpOK]
  | top => simp only [OpOK]
  | join => simp only [OpOK]
  | as_ => simp only [OpOK]

theorem tabOK_shift (P s : Bytes) (t : Tabular) (h : colsGood t = true) :
    TabOK (shMap P.length) (MapsTo (shMap P.length)) s (P ++ s) t :=
  TabOK_of_all (P := goodOp) (opOK_shift P s) t h

/-- **Compilation ignores a span shift together with a prepended text.** -/
theorem compileChunks_shift (P s : Bytes) (stmts : List Stmt)
    (hg : ∀ st ∈ stmts, colsGoodStmt st = true) :
    compileChunks (P ++ s) [] (stmts.map (shStmt P.length)) = compileChunks s [] stmts := by
  have H : SplitCong (shMap P.length) (MapsTo (shMap P.length)) :=
    MapsTo.splitCong _ (fun _ => rfl) rfl
  have h := compileChunks_mrel (src := s) (src' := P ++ s) H [] stmts
    (inertProg_of_fn_id (φ := shMap P.length) (fun _ => rfl) s stmts _ none)
    (fun t ht => tabOK_shift P s t (hg _ ht))
  have e := h.mapsTo_eq
  rw [mapStmt_shMap] at e
  rw [e]
  cases compileChunks s [] stmts with
  | error _ => rfl
  | ok cs => simp only [Except.map, map_mapC_shMap]

end Pql.CliSem
