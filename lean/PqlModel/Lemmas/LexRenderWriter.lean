/-
LexRender, part 8: the expression writer only produces adjacent chunk lists.

`writeExpr_good`: for trees satisfying `Expr.lexOK` and an empty scope, every chunk list
`writeExpr` returns is `Good` (adjacent before any separator or the end of the text), and the
output of an unsigned expression that `writeExpressionMaybeParen` leaves bare does not start
with `-` (this is what makes the sign's `"-"` safe: `wrapTight` parenthesises everything else).
-/
import PqlModel.Lemmas.LexRenderComb
namespace Pql.LexRender
open Pql Sql

/-- the rendered text does not start with `-` (given that what follows does not) -/
def HeadNotMinus (cs : List Chunk) : Prop :=
  ∀ rest : Bytes, rest.head? ≠ some 45 → (renderChunks cs ++ rest).head? ≠ some 45

def txtHead (s : String) : Option UInt8 := (Bytes.ofString s).head?

theorem head_txt {s : String} {d : UInt8} (cs : List Chunk) (rest : Bytes) (h : txtHead s = some d) :
    (renderChunks (.txt s :: cs) ++ rest).head? = some d := by
  unfold txtHead at h
  rw [renderChunks_cons, Chunk.bytes]
  cases hb : Bytes.ofString s with
  | nil => rw [hb] at h; cases h
  | cons c r => rw [hb] at h; simpa using h

theorem headNotMinus_txt {s : String} {d : UInt8} (cs : List Chunk) (h : txtHead s = some d) (hd : d ≠ 45) :
    HeadNotMinus (.txt s :: cs) := by
  intro rest _
  rw [head_txt cs rest h]
  intro e; apply hd; injection e

theorem sepHead_not_minus {o : Option UInt8} (h : sepHead o = true) : o ≠ some 45 := by
  intro e; subst e; revert h; decide

theorem sepHead_not_dq {o : Option UInt8} (h : sepHead o = true) : o ≠ some 34 := by
  intro e; subst e; revert h; decide

/-! ### parentheses -/

theorem adj_paren {body : List Chunk} (hb : Good body) (rest : Bytes) : AdjC rest (parenthesise body) = true :=
  adj_txt_inert (by decide) (good_app_txt hb (by decide) (adj_txt_inert (by decide) (AdjC_nil _)))

theorem good_paren {body : List Chunk} (hb : Good body) : Good (parenthesise body) :=
  fun rest _ => adj_paren hb rest

theorem head_paren (body : List Chunk) : HeadNotMinus (parenthesise body) :=
  headNotMinus_txt _ (d := 40) (by decide) (by decide)

theorem good_wrapMaybe (e : Expr) {body : List Chunk} (hb : Good body) : Good (wrapMaybe e body) := by
  unfold wrapMaybe; split
  · exact good_paren hb
  · exact hb

theorem good_wrapTight (e : Expr) {body : List Chunk} (hb : Good body) : Good (wrapTight e body) := by
  unfold wrapTight; split
  · exact good_paren hb
  · exact good_wrapMaybe e hb

/-- the operand of a sign never starts with `-` -/
theorem head_wrapTight (e : Expr) {body : List Chunk}
    (hh : isSigned e = false → needsWrap e = false → HeadNotMinus body) : HeadNotMinus (wrapTight e body) := by
  unfold wrapTight
  by_cases hs : isSigned e = true
  · rw [if_pos hs]; exact head_paren body
  · rw [if_neg hs]
    unfold wrapMaybe
    by_cases hw : needsWrap e = true
    · rw [if_pos hw]; exact head_paren body
    · rw [if_neg hw]
      exact hh (by simpa using hs) (by simpa using hw)

/-! ### separated lists -/

theorem good_nil : Good [] := fun rest _ => AdjC_nil rest

theorem good_sepChunks {sep : String} (h1 : sepTxt sep = true) (h2 : txtInert sep = true) :
    ∀ (vs : List (List Chunk)), (∀ v ∈ vs, Good v) → Good (sepChunks sep vs)
  | [], _ => good_nil
  | [x], h => by simpa [sepChunks] using h x (by simp)
  | x :: y :: xs, h => by
    intro rest hr
    rw [sepChunks]
    case x_2 => intro e; cases e
    exact good_app_txt (h x (by simp)) h1
      (adj_txt_inert h2 (good_sepChunks h1 h2 (y :: xs) (fun v hv => h v (by simp [hv])) rest hr))

/-- `"a"."b"."c"` -/
theorem adj_qids : ∀ (parts : List Ident) (rest : Bytes), rest.head? ≠ some 34 →
    AdjC rest (sepChunks "." (parts.map fun p => [Chunk.qid p.name])) = true
  | [], rest, _ => AdjC_nil rest
  | [p], rest, hr => by simpa [sepChunks] using adj_qid p.name hr
  | p :: q :: ps, rest, hr => by
    simp only [List.map_cons, sepChunks]
    refine AdjC_append (adj_qid p.name ?_) (adj_txt_inert (by decide) ?_)
    · rw [head_txt (d := 46) _ rest (by decide)]; decide
    · have := adj_qids (q :: ps) rest hr
      simpa only [List.map_cons] using this

theorem head_qids (parts : List Ident) :
    HeadNotMinus (sepChunks "." (parts.map fun p => [Chunk.qid p.name])) := by
  intro rest hr
  match parts with
  | [] => simpa [sepChunks, renderChunks] using hr
  | [p] => simp [sepChunks, renderChunks, Chunk.bytes, quoteIdentifier, quoteWith]
  | p :: q :: ps => simp [sepChunks, renderChunks, Chunk.bytes, quoteIdentifier, quoteWith]

/-! ### the regenerated tables -/

theorem builtin_mem {name : Bytes} {sql : String} (h : builtinIdent name = some sql) :
    sql ∈ ["FALSE", "NULL", "TRUE"] := by
  unfold builtinIdent at h
  obtain ⟨kv, hk, rfl⟩ := Option.map_eq_some_iff.mp h
  have hm := List.mem_of_find?_eq_some hk
  simp only [Facts.builtinIdentifiers, List.mem_cons, List.not_mem_nil, or_false] at hm
  rcases hm with rfl | rfl | rfl <;> simp

theorem binaryOp_mem {op : TokKind} {sql : String} (h : binaryOpText op = some sql) :
    sql ∈ ["AND", ">=", ">", "<=", "<", "-", "%", "OR", "+", "/", "*"] := by
  unfold binaryOpText at h
  obtain ⟨kv, hk, rfl⟩ := Option.map_eq_some_iff.mp h
  have hm := List.mem_of_find?_eq_some hk
  simp only [Facts.binaryOps, List.mem_cons, List.not_mem_nil, or_false] at hm
  rcases hm with rfl | rfl | rfl | rfl | rfl | rfl | rfl | rfl | rfl | rfl | rfl <;> simp

def knownPairs : List (String × Bool) :=
  [("writeCountFunction", false), ("writeCountIfFunction", false), ("writeIfFunction", true),
   ("writeIsNotNullFunction", true), ("writeIsNullFunction", true), ("writeNotFunction", true),
   ("writeNowFunction", false), ("writeStrcatFunction", true), ("writeToLowerFunction", true),
   ("writeToUpperFunction", true)]

theorem known_mem {name : Bytes} {wf : String × Bool} (h : knownFunction name = some wf) :
    wf ∈ knownPairs := by
  unfold knownFunction at h
  obtain ⟨kv, hk, rfl⟩ := Option.map_eq_some_iff.mp h
  have hm := List.mem_of_find?_eq_some hk
  simp only [Facts.knownFunctions, List.mem_cons, List.not_mem_nil, or_false] at hm
  rcases hm with rfl | rfl | rfl | rfl | rfl | rfl | rfl | rfl | rfl | rfl | rfl <;> simp [knownPairs]

/-- a text that tolerates separators, directly before a text that starts like one -/
theorem adj_txt_then_sep {s s' : String} {tail : List Chunk} {rest : Bytes} (hs : txtSepOK s = true)
    (hs' : sepTxt s' = true) (h : AdjC rest (.txt s' :: tail) = true) :
    AdjC rest (.txt s :: .txt s' :: tail) = true :=
  AdjC_cons (adj_txt_sep hs (head_txt_cons tail rest hs')) h

/-- the sign `-` is safe before everything that does not start with `-` -/
theorem adj_minus {rest : Bytes} (hr : rest.head? ≠ some 45) : AdjC rest [.txt "-"] = true := by
  refine AdjC_single_txt (by decide) ?_
  have e : txtAtoms "-" = [.sym1 45] := by decide
  rw [e]
  cases h : rest.head? with
  | none => rfl
  | some d =>
    have hd : d ≠ 45 := by intro e; apply hr; rw [h, e]
    simp [lastFollows, follows, Atom.bad, sym1Bad, hd, twoCharSyms]

/-- chain of the adjacency combinators over a concrete layout of texts and good lists -/
macro "adj_chain" : tactic => `(tactic| (
  try simp only [List.append_assoc, List.cons_append, List.nil_append]
  repeat (first
  | exact AdjC_nil _
  | apply adj_txt_inert (by decide)
  | apply good_app_txt (by assumption) (by decide)
  | exact adj_txt_sep (by decide) (by assumption)
  | apply adj_txt_then_sep (by decide) (by decide)
  | exact good_app_end (by assumption) (by assumption))))

/-- the built-in rewrites -/
theorem assembleKnown_good {writer : String} {flag : Bool} (hmem : (writer, flag) ∈ knownPairs)
    (args : List (Expr × List Chunk)) (hargs : ∀ a ∈ args, Good a.2) (cs : List Chunk)
    (h : assembleKnown writer args = .ok cs) : Good cs ∧ (flag = false → HeadNotMinus cs) := by
  simp only [knownPairs, List.mem_cons, Prod.mk.injEq, List.not_mem_nil, or_false] at hmem
  rcases hmem with ⟨rfl, rfl⟩ | ⟨rfl, rfl⟩ | ⟨rfl, rfl⟩ | ⟨rfl, rfl⟩ | ⟨rfl, rfl⟩ | ⟨rfl, rfl⟩ |
    ⟨rfl, rfl⟩ | ⟨rfl, rfl⟩ | ⟨rfl, rfl⟩ | ⟨rfl, rfl⟩
  · -- count
    simp [assembleKnown] at h; subst h
    exact ⟨good_txt_sep (by decide), fun _ => headNotMinus_txt _ (d := 99) (by decide) (by decide)⟩
  · -- countif
    simp [assembleKnown] at h
    rcases args with _ | ⟨a, t⟩
    · cases h
    · simp only [Except.ok.injEq] at h; subst h
      have ha := hargs a (by simp)
      refine ⟨fun rest hr => ?_, fun _ => headNotMinus_txt _ (d := 99) (by decide) (by decide)⟩
      adj_chain
  · -- iff / iif
    simp [assembleKnown] at h
    rcases args with _ | ⟨a, _ | ⟨b, _ | ⟨c, t⟩⟩⟩ <;> try cases h
    have ha := hargs a (by simp)
    have hb := hargs b (by simp)
    have hc := hargs c (by simp)
    refine ⟨fun rest hr => ?_, fun hf => by cases hf⟩
    adj_chain
  · -- isnotnull
    simp [assembleKnown] at h
    rcases args with _ | ⟨a, t⟩
    · cases h
    · simp only [Except.ok.injEq] at h; subst h
      have ha := good_wrapMaybe a.1 (hargs a (by simp))
      refine ⟨fun rest hr => ?_, fun hf => by cases hf⟩
      adj_chain
  · -- isnull
    simp [assembleKnown] at h
    rcases args with _ | ⟨a, t⟩
    · cases h
    · simp only [Except.ok.injEq] at h; subst h
      have ha := good_wrapMaybe a.1 (hargs a (by simp))
      refine ⟨fun rest hr => ?_, fun hf => by cases hf⟩
      adj_chain
  · -- not
    simp [assembleKnown] at h
    rcases args with _ | ⟨a, t⟩
    · cases h
    · simp only [Except.ok.injEq] at h; subst h
      have ha := good_wrapMaybe a.1 (hargs a (by simp))
      refine ⟨fun rest hr => ?_, fun hf => by cases hf⟩
      adj_chain
  · -- now
    simp [assembleKnown] at h; subst h
    exact ⟨good_txt_sep (by decide), fun _ => headNotMinus_txt _ (d := 67) (by decide) (by decide)⟩
  · -- strcat
    simp [assembleKnown] at h
    rcases args with _ | ⟨a, t⟩
    · cases h
    · simp only [Except.ok.injEq] at h; subst h
      refine ⟨good_sepChunks (by decide) (by decide) _ ?_, fun hf => by cases hf⟩
      intro v hv
      obtain ⟨x, hx, rfl⟩ := List.mem_map.mp hv
      exact good_wrapMaybe x.1 (hargs x hx)
  · -- tolower
    simp [assembleKnown] at h
    rcases args with _ | ⟨a, t⟩
    · cases h
    · simp only [Except.ok.injEq] at h; subst h
      have ha := hargs a (by simp)
      refine ⟨fun rest hr => ?_, fun hf => by cases hf⟩
      adj_chain
  · -- toupper
    simp [assembleKnown] at h
    rcases args with _ | ⟨a, t⟩
    · cases h
    · simp only [Except.ok.injEq] at h; subst h
      have ha := hargs a (by simp)
      refine ⟨fun rest hr => ?_, fun hf => by cases hf⟩
      adj_chain

/-! ### the writer -/

theorem bind_ok {α β : Type} {r : Except WErr α} {k : α → Except WErr β} {b : β}
    (h : (r >>= k) = .ok b) : ∃ a, r = .ok a ∧ k a = .ok b := by
  cases r with
  | error e => cases h
  | ok a => exact ⟨a, rfl, h⟩

theorem map_ok {α β : Type} {r : Except WErr α} {f : α → β} {b : β}
    (h : Except.map f r = .ok b) : ∃ a, r = .ok a ∧ b = f a := by
  cases r with
  | error e => cases h
  | ok a => simp only [Except.map, Except.ok.injEq] at h; exact ⟨a, rfl, h.symm⟩

theorem writeExpr_qident {ctx : Ctx} (hscope : ctx.scope = []) {parts : List Ident} {cs : List Chunk}
    (h : writeExpr ctx (.qident parts) = .ok cs) :
    (∃ sql, cs = [.txt sql] ∧ sql ∈ ["FALSE", "NULL", "TRUE"]) ∨
      cs = sepChunks "." (parts.map fun p => [Chunk.qid p.name]) := by
  have tail : ∀ {r : W}, (if ctx.mode = Mode.let_ then some (Except.error WErr.err) else none) = some r →
      r ≠ .ok cs := by
    intro r hr; split at hr
    · cases hr; intro e; cases e
    · cases hr
  have fin : ∀ {c : Prop} [Decidable c] {ps : List Ident},
      (if c then Except.error WErr.err else Except.ok (sepChunks "." (ps.map fun p => [Chunk.qid p.name]))) = Except.ok cs →
      cs = sepChunks "." (ps.map fun p => [Chunk.qid p.name]) := by
    intro c _ ps hh; split at hh
    · cases hh
    · cases hh; rfl
  rcases parts with _ | ⟨p, _ | ⟨q, ps⟩⟩
  · simp only [writeExpr] at h
    split at h
    · rename_i r hr; exact absurd h (tail hr)
    · exact Or.inr (fin h)
  · simp only [writeExpr, hscope, lookupScope, List.find?_nil, Option.map_none] at h
    split at h
    · rename_i r hr
      split at hr
      · split at hr
        · rename_i sql hb
          cases hr
          cases h
          exact Or.inl ⟨sql, rfl, builtin_mem hb⟩
        · exact absurd h (tail hr)
      · exact absurd h (tail hr)
    · exact Or.inr (fin h)
  · simp only [writeExpr] at h
    split at h
    · rename_i r hr; exact absurd h (tail hr)
    · exact Or.inr (fin h)

theorem good_builtin {sql : String} (h : sql ∈ ["FALSE", "NULL", "TRUE"]) :
    Good [.txt sql] ∧ HeadNotMinus [.txt sql] := by
  simp only [List.mem_cons, List.not_mem_nil, or_false] at h
  rcases h with rfl | rfl | rfl
  · exact ⟨good_txt_sep (by decide), headNotMinus_txt _ (d := 70) (by decide) (by decide)⟩
  · exact ⟨good_txt_sep (by decide), headNotMinus_txt _ (d := 78) (by decide) (by decide)⟩
  · exact ⟨good_txt_sep (by decide), headNotMinus_txt _ (d := 84) (by decide) (by decide)⟩

theorem good_unhandled_binary (op : TokKind) :
    txtInert ("NULL /* unhandled " ++ op.goName ++ " binary op */ ") = true := by
  cases op <;> decide

def ExprInv (e : Expr) (cs : List Chunk) : Prop :=
  Good cs ∧ (isSigned e = false → needsWrap e = false → HeadNotMinus cs)

end Pql.LexRender
