/-
The operator `!=`, part 4 — (P), expression level: the reference SQL expression parser builds a
`.bin "!=" …` node only from a `!=` symbol token.  For all seven mutually recursive functions of
Spec/Sql/Parse.lean, by induction on the fuel: if the token list contains no `!=` symbol, the
expression read has no `!=` operator (`noBang`) and the remaining token list contains no `!=` symbol.
-/
import Lean
import PqlModel.Lemmas.SqlRoundtripFuel
import PqlModel.Lemmas.JoinSemNorm
namespace Pql.E2EFinal
set_option linter.unusedSimpArgs false
open Pql Sql JoinSem

/-- no `!=` symbol token -/
def NB (ts : List STok) : Prop := ∀ t ∈ ts, t ≠ STok.sym "!="

theorem NB_nil : NB [] := fun _ h => by cases h
theorem NB_cons (t : STok) (ts : List STok) : NB (t :: ts) ↔ t ≠ STok.sym "!=" ∧ NB ts := by
  simp [NB]
theorem NB_of_not_mem {ts : List STok} (h : STok.sym "!=" ∉ ts) : NB ts := fun t ht e => h (e ▸ ht)

theorem infixPrec_nb {t : STok} {op : String} {p : Nat} (h : infixPrec t = some (op, p))
    (ht : t ≠ STok.sym "!=") : (op != "!=") = true := by
  unfold infixPrec at h
  cases t with
  | word w =>
    simp only at h
    split at h
    · cases h; decide
    · split at h
      · cases h; decide
      · cases h
  | sym s =>
    simp only at h
    have hs : s ≠ "!=" := fun e => ht (by rw [e])
    repeat' split at h
    all_goals first
      | (cases h; done)
      | (simp only [Option.some.injEq, Prod.mk.injEq] at h; rw [← h.1]; simpa using hs)
  | _ => simp at h

/-- the invariant at fuel `k` -/
structure NBInv (k : Nat) : Prop where
  expr : ∀ m ts x r, pExprS k m ts = some (x, r) → NB ts → noBang x = true ∧ NB r
  trail : ∀ m x ts y r, pTrailS k m x ts = some (y, r) → noBang x = true → NB ts → noBang y = true ∧ NB r
  unary : ∀ ts x r, pUnaryS k ts = some (x, r) → NB ts → noBang x = true ∧ NB r
  post : ∀ x ts y r, pPostfixS k x ts = some (y, r) → noBang x = true → NB ts → noBang y = true ∧ NB r
  atom : ∀ ts x r, pAtomS k ts = some (x, r) → NB ts → noBang x = true ∧ NB r
  col : ∀ ps ts x r, pColTail k ps ts = some (x, r) → NB ts → noBang x = true ∧ NB r
  list : ∀ ts l r, pListS k ts = some (l, r) → NB ts → noBangL l = true ∧ NB r

theorem NBInv.zero : NBInv 0 := by
  constructor <;> intros <;> simp_all [pExprS, pTrailS, pUnaryS, pPostfixS, pAtomS, pColTail, pListS]

open Lean Elab Tactic Meta in
/-- `lift_nb ih`: for every hypothesis `pX k … = some (a, b)` add the instance of the invariant -/
elab "lift_nb " ih:ident : tactic => withMainContext do
  let ihE ← elabTerm ih none
  let table : List (Name × Name × Nat) :=
    [(``pExprS, ``NBInv.expr, 5), (``pTrailS, ``NBInv.trail, 6), (``pUnaryS, ``NBInv.unary, 4),
     (``pPostfixS, ``NBInv.post, 5), (``pAtomS, ``NBInv.atom, 4), (``pColTail, ``NBInv.col, 5),
     (``pListS, ``NBInv.list, 4)]
  let lctx ← getLCtx
  let mut g ← getMainGoal
  for d in lctx do
    if d.isImplementationDetail then continue
    let ty ← instantiateMVars d.type
    let some (_, lhs, _) := ty.eq? | continue
    let some fn := lhs.getAppFn.constName? | continue
    let some (_, lemmaName, cnt) := table.find? (·.1 == fn) | continue
    try
      let proj ← mkAppM lemmaName #[ihE]
      let (args, _, concl) ← forallMetaTelescopeReducing (← inferType proj) (some cnt)
      let hArg := args.back!
      if ← isDefEq (← inferType hArg) ty then
        hArg.mvarId!.assign d.toExpr
        let pf ← instantiateMVars (mkAppN proj args)
        let cty ← instantiateMVars concl
        let g' ← g.assert `hnb cty pf
        let (_, g'') ← g'.intro1
        g := g''
    catch _ => pure ()
  replaceMainGoal [g]

/-- closes a leaf of the case analysis of one parser function -/
macro "nb_leaf " ih:ident h:ident : tactic => `(tactic| first
  | contradiction
  | (cases $h:ident; done)
  | (simp only [Option.some.injEq, Prod.mk.injEq] at $h:ident
     obtain ⟨h1, h2⟩ := $h:ident
     subst h1; subst h2
     lift_nb $ih; simp_all [NB_cons, NB_nil, noBang, noBangL]; done)
  | (lift_nb $ih; simp_all [NB_cons, NB_nil, noBang, noBangL]; done)
  | (simp only [Option.map_eq_some_iff] at $h:ident
     obtain ⟨⟨a, b⟩, ha, hh⟩ := $h:ident
     simp only [Prod.mk.injEq] at hh
     obtain ⟨h1, h2⟩ := hh
     subst h1; subst h2
     lift_nb $ih; simp_all [NB_cons, NB_nil, noBang, noBangL]; done))

theorem expr_nb {k : Nat} (ih : NBInv k) (m : Nat) (ts : List STok) (x : SExpr) (r : List STok)
    (h : pExprS (k + 1) m ts = some (x, r)) (hnb : NB ts) : noBang x = true ∧ NB r := by
  simp only [pExprS] at h
  repeat' split at h
  all_goals nb_leaf ih h

theorem trail_nb {k : Nat} (ih : NBInv k) (m : Nat) (x : SExpr) (ts : List STok) (y : SExpr) (r : List STok)
    (h : pTrailS (k + 1) m x ts = some (y, r)) (hx : noBang x = true) (hnb : NB ts) :
    noBang y = true ∧ NB r := by
  simp only [pTrailS] at h
  repeat' split at h
  all_goals first
    | (nb_leaf ih h; done)
    | (have hb := infixPrec_nb ‹infixPrec _ = some _› ((NB_cons _ _).1 hnb).1
       nb_leaf ih h)

theorem unary_nb {k : Nat} (ih : NBInv k) (ts : List STok) (x : SExpr) (r : List STok)
    (h : pUnaryS (k + 1) ts = some (x, r)) (hnb : NB ts) : noBang x = true ∧ NB r := by
  simp only [pUnaryS] at h
  repeat' split at h
  all_goals nb_leaf ih h

theorem post_nb {k : Nat} (ih : NBInv k) (x : SExpr) (ts : List STok) (y : SExpr) (r : List STok)
    (h : pPostfixS (k + 1) x ts = some (y, r)) (hx : noBang x = true) (hnb : NB ts) :
    noBang y = true ∧ NB r := by
  simp only [pPostfixS] at h
  repeat' split at h
  all_goals nb_leaf ih h

theorem col_nb {k : Nat} (ih : NBInv k) (ps : List Bytes) (ts : List STok) (x : SExpr) (r : List STok)
    (h : pColTail (k + 1) ps ts = some (x, r)) (hnb : NB ts) : noBang x = true ∧ NB r := by
  simp only [pColTail] at h
  repeat' split at h
  all_goals nb_leaf ih h

theorem list_nb {k : Nat} (ih : NBInv k) (ts : List STok) (l : SExprList) (r : List STok)
    (h : pListS (k + 1) ts = some (l, r)) (hnb : NB ts) : noBangL l = true ∧ NB r := by
  simp only [pListS] at h
  repeat' split at h
  all_goals nb_leaf ih h

theorem atom_nb {k : Nat} (ih : NBInv k) (ts : List STok) (x : SExpr) (r : List STok)
    (h : pAtomS (k + 1) ts = some (x, r)) (hnb : NB ts) : noBang x = true ∧ NB r := by
  simp only [pAtomS] at h
  repeat' split_hyp
  all_goals try (nb_leaf ih h; done)
  all_goals (repeat (cases ‹some _ = some _›)) <;> lift_nb ih <;> simp_all [NB_cons, NB_nil, noBang, noBangL]

theorem NBInv.succ {k : Nat} (ih : NBInv k) : NBInv (k + 1) :=
  ⟨expr_nb ih, trail_nb ih, unary_nb ih, post_nb ih, atom_nb ih, col_nb ih, list_nb ih⟩

theorem nbInv : ∀ k, NBInv k
  | 0 => NBInv.zero
  | k + 1 => (nbInv k).succ

/-- **(P), expressions**: an expression read from a token list without `!=` symbol has no `!=`
    operator, and no `!=` symbol remains -/
theorem pExprS_noBang {k m : Nat} {ts : List STok} {x : SExpr} {r : List STok}
    (h : pExprS k m ts = some (x, r)) (hnb : NB ts) : noBang x = true ∧ NB r :=
  (nbInv k).expr m ts x r h hnb

end Pql.E2EFinal
