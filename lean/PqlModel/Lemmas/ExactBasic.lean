/-
C13 exactness, basics: the relation `Agrees r b` between a result of the compiler model and a
verdict of the misuse specification ("ok exactly when not bad, a compile error exactly when
bad, never a panic"), its compositional rules for the `Except` monad, and the table facts
(built-in constants, aliases, arities for every argument count).
-/
import PqlModel.Model.Compile
import PqlModel.Spec.Misuse
import PqlModel.Props.C13
namespace Pql.Exact
open Pql

/-- the model result `r` and the specification verdict `b` agree -/
def Agrees {α : Type} (r : Except WErr α) (b : Bool) : Prop :=
  match r with
  | .ok _ => b = false
  | .error .err => b = true
  | .error .panic => False

theorem Agrees.ok {α : Type} (x : α) : Agrees (Except.ok x : Except WErr α) false := rfl
theorem Agrees.pure {α : Type} (x : α) : Agrees (Pure.pure x : Except WErr α) false := rfl
theorem Agrees.err {α : Type} : Agrees (Except.error .err : Except WErr α) true := rfl

theorem Agrees.ok_iff {α : Type} {r : Except WErr α} {b : Bool} (h : Agrees r b) :
    (∃ x, r = .ok x) ↔ b = false := by
  cases r with
  | ok x => exact ⟨fun _ => h, fun _ => ⟨x, rfl⟩⟩
  | error e =>
    cases e with
    | err =>
      have hb : b = true := h
      subst hb
      exact ⟨fun ⟨x, hx⟩ => (by cases hx), fun hb => Bool.noConfusion hb⟩
    | panic => exact absurd h id

theorem Agrees.err_iff {α : Type} {r : Except WErr α} {b : Bool} (h : Agrees r b) :
    r = .error .err ↔ b = true := by
  cases r with
  | ok x =>
    have hb : b = false := h
    subst hb
    exact ⟨fun hx => (by cases hx), fun hb => Bool.noConfusion hb⟩
  | error e =>
    cases e with
    | err => exact ⟨fun _ => h, fun _ => rfl⟩
    | panic => exact absurd h id

theorem Agrees.ne_panic {α : Type} {r : Except WErr α} {b : Bool} (h : Agrees r b) :
    r ≠ .error .panic := by
  intro hr
  subst hr
  exact h

theorem Agrees.of_eq {α : Type} {r : Except WErr α} {b b' : Bool} (h : Agrees r b) (hb : b = b') :
    Agrees r b' := hb ▸ h

theorem Agrees.map {α β : Type} {r : Except WErr α} {b : Bool} (f : α → β) (h : Agrees r b) :
    Agrees (r.map f) b := by
  cases r with
  | ok x => exact h
  | error e => cases e <;> exact h

theorem Agrees.bind {α β : Type} {r : Except WErr α} {f : α → Except WErr β} {b1 b2 : Bool}
    (h1 : Agrees r b1) (h2 : ∀ x, Agrees (f x) b2) : Agrees (r >>= f) (b1 || b2) := by
  cases r with
  | ok x =>
    have hb : b1 = false := h1
    subst hb
    rw [Bool.false_or]
    exact h2 x
  | error e =>
    cases e with
    | err =>
      have hb : b1 = true := h1
      subst hb
      exact rfl
    | panic => exact absurd h1 id

/-- bind where the continuation only needs to agree on the values actually produced -/
theorem Agrees.bind' {α β : Type} {r : Except WErr α} {f : α → Except WErr β} {b1 b2 : Bool}
    (h1 : Agrees r b1) (h2 : ∀ x, r = .ok x → Agrees (f x) b2) : Agrees (r >>= f) (b1 || b2) := by
  cases r with
  | ok x =>
    have hb : b1 = false := h1
    subst hb
    rw [Bool.false_or]
    exact h2 x rfl
  | error e =>
    cases e with
    | err =>
      have hb : b1 = true := h1
      subst hb
      exact rfl
    | panic => exact absurd h1 id

theorem Agrees.bind_pure {α β : Type} {r : Except WErr α} {b : Bool} (f : α → β) (h : Agrees r b) :
    Agrees (r >>= fun x => Pure.pure (f x)) b := by
  cases r with
  | ok x => exact h
  | error e => cases e <;> exact h

/-! ### scope, constants, aliases -/

theorem beq_comm_bytes (a b : Bytes) : (a == b) = (b == a) := BEq.comm

def names (scope : List (Bytes × List Chunk)) : List Bytes := scope.map (·.1)

theorem lookupScope_isSome (scope : List (Bytes × List Chunk)) (name : Bytes) :
    (lookupScope scope name).isSome = (names scope).contains name := by
  induction scope with
  | nil => rfl
  | cons kv rest ih =>
    unfold lookupScope names at *
    rw [List.find?_cons, List.map_cons, List.contains_cons]
    by_cases h : kv.1 == name
    · have h' : (name == kv.1) = true := by rw [beq_iff_eq] at h ⊢; exact h.symm
      simp [h, h']
    · have h' : (name == kv.1) = false := by
        rw [Bool.not_eq_true] at h
        rw [beq_eq_false_iff_ne] at h ⊢
        exact fun e => h e.symm
      simp only [h, h', Bool.false_or]
      exact ih

theorem builtinIdent_isSome (name : Bytes) :
    (builtinIdent name).isSome = Misuse.isBuiltinConst name := by
  unfold builtinIdent Misuse.isBuiltinConst Misuse.bytesEq Facts.builtinIdentifiers
  have e1 : (Bytes.ofString "false" == name) = (name == Bytes.ofString "false") := beq_comm_bytes _ _
  have e2 : (Bytes.ofString "null" == name) = (name == Bytes.ofString "null") := beq_comm_bytes _ _
  have e3 : (Bytes.ofString "true" == name) = (name == Bytes.ofString "true") := beq_comm_bytes _ _
  simp only [List.find?_cons, List.find?_nil, e1, e2, e3]
  generalize Bytes.ofString "false" = s1
  generalize Bytes.ofString "null" = s2
  generalize Bytes.ofString "true" = s3
  cases name == s1 <;> cases name == s2 <;> cases name == s3 <;> rfl

theorem isAlias_eq (name : Bytes) :
    Misuse.isAlias name = (name == leftAlias || name == rightAlias) := rfl

/-! ### arities -/

/-- the model's arity check agrees with the documented arities, for every argument count -/
theorem arity_agrees_all :
    ∀ row ∈ Facts.knownFunctions, ∀ n : Nat,
      arityRejects row.2.1 n = Misuse.wrongArity (Bytes.ofString row.1) n := by
  intro row hrow n
  simp only [Facts.knownFunctions, List.mem_cons, List.not_mem_nil, or_false] at hrow
  rcases hrow with h | h | h | h | h | h | h | h | h | h | h <;> subst h
  all_goals
    unfold arityRejects Misuse.wrongArity
    simp only []
  · have h1 : Facts.writerArityGuard.find? (·.1 == "writeCountFunction") = some ("writeCountFunction", "!=", 0) := by decide
    have h2 : Misuse.arities.find? (fun a => Misuse.bytesEq (Bytes.ofString "count") a.1) = some ("count", true, 0) := by decide
    rw [h1, h2]; rfl
  · have h1 : Facts.writerArityGuard.find? (·.1 == "writeCountIfFunction") = some ("writeCountIfFunction", "!=", 1) := by decide
    have h2 : Misuse.arities.find? (fun a => Misuse.bytesEq (Bytes.ofString "countif") a.1) = some ("countif", true, 1) := by decide
    rw [h1, h2]; rfl
  · have h1 : Facts.writerArityGuard.find? (·.1 == "writeIfFunction") = some ("writeIfFunction", "!=", 3) := by decide
    have h2 : Misuse.arities.find? (fun a => Misuse.bytesEq (Bytes.ofString "iff") a.1) = some ("iff", true, 3) := by decide
    rw [h1, h2]; rfl
  · have h1 : Facts.writerArityGuard.find? (·.1 == "writeIfFunction") = some ("writeIfFunction", "!=", 3) := by decide
    have h2 : Misuse.arities.find? (fun a => Misuse.bytesEq (Bytes.ofString "iif") a.1) = some ("iif", true, 3) := by decide
    rw [h1, h2]; rfl
  · have h1 : Facts.writerArityGuard.find? (·.1 == "writeIsNotNullFunction") = some ("writeIsNotNullFunction", "!=", 1) := by decide
    have h2 : Misuse.arities.find? (fun a => Misuse.bytesEq (Bytes.ofString "isnotnull") a.1) = some ("isnotnull", true, 1) := by decide
    rw [h1, h2]; rfl
  · have h1 : Facts.writerArityGuard.find? (·.1 == "writeIsNullFunction") = some ("writeIsNullFunction", "!=", 1) := by decide
    have h2 : Misuse.arities.find? (fun a => Misuse.bytesEq (Bytes.ofString "isnull") a.1) = some ("isnull", true, 1) := by decide
    rw [h1, h2]; rfl
  · have h1 : Facts.writerArityGuard.find? (·.1 == "writeNotFunction") = some ("writeNotFunction", "!=", 1) := by decide
    have h2 : Misuse.arities.find? (fun a => Misuse.bytesEq (Bytes.ofString "not") a.1) = some ("not", true, 1) := by decide
    rw [h1, h2]; rfl
  · have h1 : Facts.writerArityGuard.find? (·.1 == "writeNowFunction") = some ("writeNowFunction", "!=", 0) := by decide
    have h2 : Misuse.arities.find? (fun a => Misuse.bytesEq (Bytes.ofString "now") a.1) = some ("now", true, 0) := by decide
    rw [h1, h2]; rfl
  · have h1 : Facts.writerArityGuard.find? (·.1 == "writeStrcatFunction") = some ("writeStrcatFunction", "==", 0) := by decide
    have h2 : Misuse.arities.find? (fun a => Misuse.bytesEq (Bytes.ofString "strcat") a.1) = some ("strcat", false, 1) := by decide
    rw [h1, h2]
    show (n == 0) = decide (n < 1)
    cases n <;> simp
  · have h1 : Facts.writerArityGuard.find? (·.1 == "writeToLowerFunction") = some ("writeToLowerFunction", "!=", 1) := by decide
    have h2 : Misuse.arities.find? (fun a => Misuse.bytesEq (Bytes.ofString "tolower") a.1) = some ("tolower", true, 1) := by decide
    rw [h1, h2]; rfl
  · have h1 : Facts.writerArityGuard.find? (·.1 == "writeToUpperFunction") = some ("writeToUpperFunction", "!=", 1) := by decide
    have h2 : Misuse.arities.find? (fun a => Misuse.bytesEq (Bytes.ofString "toupper") a.1) = some ("toupper", true, 1) := by decide
    rw [h1, h2]; rfl

/-- a name the compiler knows as a built-in comes from a row of the table -/
theorem knownFunction_some {name : Bytes} {writer : String} {np : Bool}
    (h : knownFunction name = some (writer, np)) :
    ∃ row ∈ Facts.knownFunctions, name = Bytes.ofString row.1 ∧ row.2.1 = writer := by
  unfold knownFunction at h
  rw [Option.map_eq_some_iff] at h
  obtain ⟨row, hfind, hrow⟩ := h
  refine ⟨row, List.mem_of_find?_eq_some hfind, ?_, ?_⟩
  · have := List.find?_some hfind
    exact (beq_iff_eq.1 this).symm
  · rw [hrow]

/-- every documented arity row is a row of the compiler's table -/
theorem arities_names : ∀ a ∈ Misuse.arities, ∃ row ∈ Facts.knownFunctions, row.1 = a.1 := by decide

/-- a name the compiler does not know as a built-in has no documented arity -/
theorem wrongArity_of_unknown {name : Bytes} (h : knownFunction name = none) (n : Nat) :
    Misuse.wrongArity name n = false := by
  unfold knownFunction at h
  rw [Option.map_eq_none_iff, List.find?_eq_none] at h
  have hnone : Misuse.arities.find? (fun a => Misuse.bytesEq name a.1) = none := by
    rw [List.find?_eq_none]
    intro a ha
    obtain ⟨row, hrow, hname⟩ := arities_names a ha
    have := h row hrow
    unfold Misuse.bytesEq
    rw [← hname, beq_comm_bytes]
    exact this
  unfold Misuse.wrongArity
  rw [hnone]

end Pql.Exact
