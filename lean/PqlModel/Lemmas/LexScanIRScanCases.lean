/-
The case bodies of `Scan`'s main switch as translated, each on the state after `start := s.pos;
c, ok := s.next()`: single-rune tokens, the sub-scanners, the two-rune operators, the default.
(The `/` case with the comment loop is in LexScanIRScanSlash.lean.)
-/
import PqlModel.Lemmas.LexScanIRScanEnv
namespace Pql.ScanIR
open Pql
open Pql.LexIR (IErr M BinOp goPanic stuck irOf)
set_option linter.unusedSimpArgs false
set_option linter.unusedVariables false

section
variable (env : Env) (fuel : Nat) (E : ScanEnv fuel env) (src : Bytes) (acc : List Token) (k : Nat) (bs : List (Nat × Bytes))
include E

/-- `tokens = append(tokens, Token{Kind: K, Span: newSpan(start, s.pos)})` -/
theorem case_sym (K : String) (kind : TokKind) (hK : TokKind.ofGoName K = some kind) (c : Nat) (ok : Bool) (p l : Nat) :
    execBlock env fuel [pushSym K] (inSt src acc k c ok (sp src p l bs)) =
      .ok (.next, inSt src (acc ++ [⟨kind, k, p, []⟩]) k c ok (sp src p l bs)) := by
  obtain ⟨fA, hA, sA0⟩ := E.cur.newSpan
  have sA : ∀ a b h, fA [.int a, .int b] h = .ok ([.span a b], h) := sA0
  have hP := E.append
  unfold HasPrim at hP
  unfold inSt
  ls_simp [hA, sA, hP, prims, hK, ofString_empty]

/-- `s.prev(); tokens = append(tokens, s.ident())` -/
theorem case_ident (c : UInt8) (rest : Bytes) (r : Nat) (hd : src.drop k = c :: rest) (hc : isIdentStart c = true)
    (hfuel : src.length < fuel) :
    ∃ l', execBlock env fuel (pushSub "scanner.ident") (inSt src acc k r true (sp src (k + 1) k bs)) =
      .ok (.next, inSt src (acc ++ stepToks k (.ofLexeme (scanIdent (c :: rest)))) k r true
        (sp src (k + (scanIdent (c :: rest)).width) l' bs)) := by
  obtain ⟨fP, hP, sP⟩ := E.cur.prev
  obtain ⟨fI, hI, sI⟩ := E.ident
  have hA := E.append
  unfold HasPrim at hA
  have hk : k ≤ src.length := Nat.le_of_lt (LexIR.lt_of_drop_cons hd)
  obtain ⟨l', e⟩ := sI (src.take k) (src.drop k) k bs c rest hd hc (by simp; omega)
  rw [hp_split src k 0 k bs hk, hp_split src k _ l' bs hk, take_len src k hk, hd] at e
  refine ⟨l', ?_⟩
  unfold inSt
  simp only [Nat.add_zero] at e
  ls_simp [hP, prevS sP, hI, e, hA, prims, tokAt, stepToks, Step.ofLexeme]

/-- `s.prev(); tokens = append(tokens, s.numberOrDot())` -/
theorem case_number (c : UInt8) (rest : Bytes) (r : Nat) (hd : src.drop k = c :: rest) :
    ∃ l', execBlock env fuel (pushSub "scanner.numberOrDot") (inSt src acc k r true (sp src (k + 1) k bs)) =
      .ok (.next, inSt src (acc ++ stepToks k (.ofLexeme (scanNumberOrDot (c :: rest)))) k r true
        (sp src (k + (scanNumberOrDot (c :: rest)).width) l' bs)) := by
  obtain ⟨fP, hP, sP⟩ := E.cur.prev
  have hN := E.number
  have hA := E.append
  unfold HasPrim at hA hN
  refine ⟨k, ?_⟩
  unfold inSt
  ls_simp [hP, prevS sP, hN, hA, prims, numberOrDotPrim, hd, stepToks, Step.ofLexeme]
  rfl

/-- `s.prev(); tokens = append(tokens, s.string())` -/
theorem case_string (c : UInt8) (rest : Bytes) (r : Nat) (hd : src.drop k = c :: rest) (hc : c = 34 ∨ c = 39)
    (hfuel : src.length < fuel) :
    ∃ l' bs', execBlock env fuel (pushSub "scanner.string") (inSt src acc k r true (sp src (k + 1) k bs)) =
      .ok (.next, inSt src (acc ++ stepToks k (.ofLexeme (scanString (c :: rest)))) k r true
        (sp src (k + (scanString (c :: rest)).width) l' bs')) := by
  obtain ⟨fP, hP, sP⟩ := E.cur.prev
  obtain ⟨fI, hI, sI⟩ := E.string
  have hA := E.append
  unfold HasPrim at hA
  have hk : k ≤ src.length := Nat.le_of_lt (LexIR.lt_of_drop_cons hd)
  obtain ⟨l', bs', e⟩ := sI (src.take k) (src.drop k) k bs c rest hd hc (by simp; omega)
  rw [hp_split src k 0 k bs hk, hp_split src k _ l' bs' hk, take_len src k hk, hd] at e
  refine ⟨l', bs', ?_⟩
  unfold inSt
  simp only [Nat.add_zero] at e
  ls_simp [hP, prevS sP, hI, e, hA, prims, tokAt, stepToks, Step.ofLexeme]

/-- `s.prev(); tokens = append(tokens, s.quotedIdent())` -/
theorem case_qident (rest : Bytes) (r : Nat) (hd : src.drop k = 96 :: rest) (hfuel : src.length < fuel) :
    ∃ l', execBlock env fuel (pushSub "scanner.quotedIdent") (inSt src acc k r true (sp src (k + 1) k bs)) =
      .ok (.next, inSt src (acc ++ stepToks k (.ofLexeme (scanQuotedIdent (96 :: rest)))) k r true
        (sp src (k + (scanQuotedIdent (96 :: rest)).width) l' bs)) := by
  obtain ⟨fP, hP, sP⟩ := E.cur.prev
  obtain ⟨fI, hI, sI⟩ := E.qident
  have hA := E.append
  unfold HasPrim at hA
  have hk : k ≤ src.length := Nat.le_of_lt (LexIR.lt_of_drop_cons hd)
  obtain ⟨l', e⟩ := sI (src.take k) (src.drop k) k bs rest hd (by simp; omega)
  rw [hp_split src k 0 k bs hk, hp_split src k _ l' bs hk, take_len src k hk, hd] at e
  refine ⟨l', ?_⟩
  unfold inSt
  simp only [Nat.add_zero] at e
  ls_simp [hP, prevS sP, hI, e, hA, prims, tokAt, stepToks, Step.ofLexeme]

/-- the default: an error token on the rune -/
theorem case_default (r w : Nat) (hw : k + w ≤ src.length) :
    execBlock env fuel scanDefault (inSt src acc k r true (sp src (k + w) k bs)) =
      .ok (.next, ⟨("span", .span k (k + w)) :: (inSt src (acc ++ [⟨.error, k, k + w, []⟩]) k r true (sp src (k + w) k bs)).vars,
        sp src (k + w) k bs⟩) := by
  obtain ⟨fA, hA, sA0⟩ := E.cur.newSpan
  obtain ⟨fE, hE, sE0⟩ := E.cur.errorToken
  obtain ⟨fS, hS, sS⟩ := E.cur.spanString
  have sA : ∀ a b h, fA [.int a, .int b] h = .ok ([.span a b], h) := sA0
  have sE : ∀ a b m extra h, fE (.span a b :: .str m :: extra) h = .ok ([.tok .error a b []], h) := sE0
  have hP := E.append
  unfold HasPrim at hP
  have hv := sS src k (k + w) (sp src (k + w) k bs) (by omega) hw
  unfold inSt scanDefault
  ls_simp [hA, sA, hE, sE, hS, hv, hP, prims]

end
end Pql.ScanIR
