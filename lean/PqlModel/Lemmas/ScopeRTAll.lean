/-
Scoped ParseRoundtrip (task R5), part 4: identifiers under a scope, and the structural induction
`goodS_all`.

`ScopeRT j scope env` is what the induction needs to know about the scope: the names bound in
`scope` are the names bound in `env`, and the chunks stored for a name are read by the SQL reader as
ONE ATOM whose tree is the translation of the value `env` holds for that name.
-/
import PqlModel.Lemmas.ScopeRTCalls
namespace Pql.RT
open Pql Sql CompileOracle

structure ScopeRT (j : Bool) (scope : Scope) (env : List (Bytes × Expr)) : Prop where
  bound : ∀ name sql, lookupScope scope name = some sql →
    ∃ n v, env.find? (·.1 == name) = some (n, v) ∧ ∀ want, tr j v = some want → AtomP (toksOf sql) want
  free : ∀ name, lookupScope scope name = none → env.find? (·.1 == name) = none

theorem scopeRT_nil (j : Bool) : ScopeRT j [] [] :=
  ⟨fun name sql h => by simp [lookupScope] at h, fun _ _ => rfl⟩

/-- an identifier that is not a bound name: written and translated as without any scope -/
theorem qident_unbound {ctx : Ctx} {env : List (Bytes × Expr)} (parts : List Ident)
    (h : ∀ p, parts = [p] → p.quoted = false → lookupScope ctx.scope p.name = none ∧ env.find? (·.1 == p.name) = none) :
    writeExpr ctx (.qident parts) = writeExpr ⟨ctx.src, [], ctx.mode⟩ (.qident parts) ∧
      substExpr env (.qident parts) = .qident parts := by
  match parts, h with
  | [], _ => exact ⟨by simp only [writeExpr], by simp only [substExpr]⟩
  | _ :: _ :: _, _ => exact ⟨by simp only [writeExpr], by simp only [substExpr]⟩
  | [p], h =>
    cases hq : p.quoted with
    | true => exact ⟨by simp only [writeExpr, hq]; rfl, by simp [substExpr, hq]⟩
    | false =>
      obtain ⟨h1, h2⟩ := h p rfl hq
      refine ⟨?_, by simp [substExpr, hq, h2]⟩
      have hnil : lookupScope ([] : Scope) p.name = none := rfl
      simp only [writeExpr, h1, hnil]

theorem goodS_qident {ctx : Ctx} {env : List (Bytes × Expr)} (parts : List Ident)
    (hS : ScopeRT (ctx.mode == .join) ctx.scope env) (hne : parts ≠ []) : GoodS ctx env (.qident parts) := by
  by_cases hb : ∃ p sql, parts = [p] ∧ p.quoted = false ∧ lookupScope ctx.scope p.name = some sql
  · obtain ⟨p, sql, rfl, hq, hl⟩ := hb
    obtain ⟨n, v, hf, hv⟩ := hS.bound _ _ hl
    apply GoodS.ofAtom
    intro cs want h1 h2
    simp only [writeExpr, hq, hl, Bool.not_false, if_true, Except.ok.injEq] at h1
    simp only [substExpr, hq, hf, Bool.false_eq_true, if_false, tr] at h2
    subst h1
    exact hv want h2
  · have hu : ∀ p, parts = [p] → p.quoted = false →
        lookupScope ctx.scope p.name = none ∧ env.find? (·.1 == p.name) = none := by
      intro p hp hq
      cases hl : lookupScope ctx.scope p.name with
      | some sql => exact absurd ⟨p, sql, hp, hq, hl⟩ hb
      | none => exact ⟨rfl, hS.free _ hl⟩
    obtain ⟨e1, e2⟩ := qident_unbound (ctx := ctx) (env := env) parts hu
    intro cs want h1 h2
    rw [e1] at h1
    rw [e2] at h2
    exact good_qident (ctx := ⟨ctx.src, [], ctx.mode⟩) parts rfl hne cs want h1 h2

/-! ### the structural induction -/

theorem mem_toList_cons' {e e' : Expr} {es : ExprList} (h : e' ∈ (ExprList.cons e es).toList) :
    e' = e ∨ e' ∈ es.toList := by
  simpa [ExprList.toList] using h

mutual
theorem goodS_all (ctx : Ctx) (env : List (Bytes × Expr)) (hS : ScopeRT (ctx.mode == .join) ctx.scope env)
    (hJ : JoinOK ctx env) : ∀ e : Expr, shapeOK e = true → e.lexOK = true → GoodS ctx env e
  | .nil, hs, _ => by simp [shapeOK] at hs
  | .qident parts, hs, _ => goodS_qident parts hS (by
      intro h; subst h; simp [shapeOK] at hs)
  | .lit sp k v, _, hl => goodS_lit sp k v hl
  | .unary a op x, hs, hl =>
    goodS_unary a op (goodS_all ctx env hS hJ x (by simpa [shapeOK] using hs)
      (by simp only [Expr.lexOK, Bool.and_eq_true] at hl; exact hl.2)) hl
  | .binary x a op y, hs, hl => by
    simp only [shapeOK, Expr.lexOK, Bool.and_eq_true] at hs hl
    exact goodS_binary a op (goodS_all ctx env hS hJ x hs.1 hl.1) (goodS_all ctx env hS hJ y hs.2 hl.2) hJ
  | .inE x a b vals c, hs, hl => by
    simp only [shapeOK, Expr.lexOK, Bool.and_eq_true, bne_iff_ne, ne_eq] at hs hl
    exact goodS_in a b c (goodS_all ctx env hS hJ x hs.1.1 hl.1) (goodS_list ctx env hS hJ vals hs.1.2 hl.2) hs.2
  | .paren a x b, hs, hl =>
    goodS_paren a b (goodS_all ctx env hS hJ x (by simpa [shapeOK] using hs) (by simpa [Expr.lexOK] using hl))
  | .call fn a args b, hs, hl => by
    simp only [shapeOK, Expr.lexOK, Bool.and_eq_true] at hs hl
    exact goodS_call fn a b (goodS_list ctx env hS hJ args hs.2 hl.2) hs.1
  | .index x a i b, hs, hl => by
    simp only [shapeOK, Expr.lexOK, Bool.and_eq_true] at hs hl
    exact goodS_index a b (goodS_all ctx env hS hJ x hs.1 hl.1) (goodS_all ctx env hS hJ i hs.2 hl.2)
theorem goodS_list (ctx : Ctx) (env : List (Bytes × Expr)) (hS : ScopeRT (ctx.mode == .join) ctx.scope env)
    (hJ : JoinOK ctx env) :
    ∀ es : ExprList, shapeOKList es = true → es.lexOK = true → ∀ e ∈ es.toList, GoodS ctx env e
  | .nil, _, _ => by intro e he; simp [ExprList.toList] at he
  | .cons e es, hs, hl => by
    simp only [shapeOKList, ExprList.lexOK, Bool.and_eq_true] at hs hl
    intro e' he'
    rcases mem_toList_cons' he' with h | h
    · rw [h]; exact goodS_all ctx env hS hJ e hs.1 hl.1
    · exact goodS_list ctx env hS hJ es hs.2 hl.2 e' h
end

end Pql.RT
