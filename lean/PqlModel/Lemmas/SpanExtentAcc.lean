/-
Decomposing `accounts` (the converse direction of `accounts_cons` / `accounts_append`):
from `accounts pos (us1 ++ us2) ts` a split `ts = ts1 ++ ts2`; from a leading token with claimed
positions, with `pos = true`, the token whose span it is.  A token that allows a comma before it
(`optComma`) takes the comma into its segment.
-/
import PqlModel.Lemmas.SpanExtentBasic
namespace Pql
open Grammar

theorem accounts_append_split {pos : Bool} : ∀ {us1 : List UTok} {us2 : List UTok} {ts : List Token},
    accounts pos (us1 ++ us2) ts = true →
    ∃ ts1 ts2, ts = ts1 ++ ts2 ∧ accounts pos us1 ts1 = true ∧ accounts pos us2 ts2 = true
  | [], us2, ts, h => ⟨[], ts, rfl, accounts_nil pos, by simpa using h⟩
  | u :: us, us2, [], h => by simp [accounts] at h
  | u :: us, us2, t :: ts, h => by
    rw [List.cons_append] at h
    unfold accounts at h
    split at h
    · rename_i hm
      obtain ⟨ts1, ts2, rfl, h1, h2⟩ := accounts_append_split h
      refine ⟨t :: ts1, ts2, rfl, ?_, h2⟩
      unfold accounts
      rw [if_pos hm]; exact h1
    · rename_i hm
      split at h
      · rename_i hc
        cases ts with
        | nil => simp at h
        | cons t2 ts2' =>
          simp only [Bool.and_eq_true] at h
          obtain ⟨ts1, ts2, rfl, h1, h2⟩ := accounts_append_split h.2
          refine ⟨t :: t2 :: ts1, ts2, rfl, ?_, h2⟩
          unfold accounts
          rw [if_neg hm, if_pos hc]
          simp only [Bool.and_eq_true]
          exact ⟨h.1, h1⟩
      · simp at h

/-- a leading token that does not allow a comma before it -/
theorem accounts_cons_inv_spanex {pos : Bool} {u : UTok} {us : List UTok} {ts : List Token} (ho : u.optComma = false)
    (h : accounts pos (u :: us) ts = true) :
    ∃ t ts', ts = t :: ts' ∧ (pos = true → posMatches u t = true) ∧ accounts pos us ts' = true := by
  cases ts with
  | nil => simp [accounts] at h
  | cons t ts =>
    unfold accounts at h
    split at h
    · rename_i hm
      refine ⟨t, ts, rfl, ?_, h⟩
      intro hp; subst hp
      have hm' : tokMatches u t = true ∧ posMatches u t = true := by simpa using hm
      exact hm'.2
    · simp [ho] at h

/-- a leading token that may allow a comma before it: `m` is empty or that comma -/
theorem accounts_cons_inv_opt_spanex {u : UTok} {us : List UTok} {ts : List Token}
    (h : accounts true (u :: us) ts = true) :
    ∃ m t ts', ts = m ++ t :: ts' ∧ posMatches u t = true ∧ accounts true us ts' = true := by
  cases ts with
  | nil => simp [accounts] at h
  | cons t ts =>
    unfold accounts at h
    split at h
    · rename_i hm
      have hm' : tokMatches u t = true ∧ posMatches u t = true := by simpa using hm
      exact ⟨[], t, ts, rfl, hm'.2, h⟩
    · split at h
      · cases ts with
        | nil => simp at h
        | cons t2 ts2 =>
          simp only [Bool.and_eq_true] at h
          exact ⟨[t], t2, ts2, rfl, by simpa using h.1.2, h.2⟩
      · simp at h

theorem accounts_ne_nil {pos : Bool} {us : List UTok} {ts : List Token} (hne : us ≠ [])
    (h : accounts pos us ts = true) : ts ≠ [] := by
  intro hn; subst hn
  cases us with
  | nil => exact hne rfl
  | cons u us => simp [accounts] at h

/-! ### claimed positions -/

theorem posMatches_start {u : UTok} {t : Token} {a : Int} (hu : u.start = some a)
    (h : posMatches u t = true) : a = t.start := by
  simp only [posMatches, hu, Bool.and_eq_true, beq_iff_eq] at h
  exact h.1

theorem posMatches_stop {u : UTok} {t : Token} {a : Int} (hu : u.stop = some a)
    (h : posMatches u t = true) : a = t.stop := by
  simp only [posMatches, hu, Bool.and_eq_true, beq_iff_eq] at h
  exact h.2

theorem posMatches_span {u : UTok} {t : Token} {sp : Span} (hs : u.start = some sp.start)
    (he : u.stop = some sp.stop) (h : posMatches u t = true) : sp = t.span := by
  have h1 := posMatches_start hs h
  have h2 := posMatches_stop he h
  cases sp
  simp only [Token.span, Span.mk.injEq]
  exact ⟨h1, h2⟩

/-- a leading token claiming the span `sp` (`sym`, `kwTok`, `identTok`, a literal) -/
theorem accounts_span_cons {u : UTok} {us : List UTok} {ts : List Token} (sp : Span)
    (hs : u.start = some sp.start) (he : u.stop = some sp.stop) (ho : u.optComma = false)
    (h : accounts true (u :: us) ts = true) :
    ∃ t ts', ts = t :: ts' ∧ sp = t.span ∧ accounts true us ts' = true := by
  obtain ⟨t, ts', rfl, hp, hr⟩ := accounts_cons_inv_spanex ho h
  exact ⟨t, ts', rfl, posMatches_span hs he (hp rfl), hr⟩

/-- … that may have a comma before it -/
theorem accounts_span_cons_opt {u : UTok} {us : List UTok} {ts : List Token} (sp : Span)
    (hs : u.start = some sp.start) (he : u.stop = some sp.stop)
    (h : accounts true (u :: us) ts = true) :
    ∃ m t ts', ts = m ++ t :: ts' ∧ sp = t.span ∧ accounts true us ts' = true := by
  obtain ⟨m, t, ts', rfl, hp, hr⟩ := accounts_cons_inv_opt_spanex h
  exact ⟨m, t, ts', rfl, posMatches_span hs he hp, hr⟩

/-- two leading tokens that share one span field (`sort by`, `nulls first`) -/
theorem accounts_span2_cons {u1 u2 : UTok} {us : List UTok} {ts : List Token} (sp : Span)
    (hs : u1.start = some sp.start) (he : u2.stop = some sp.stop) (ho1 : u1.optComma = false)
    (ho2 : u2.optComma = false) (h : accounts true (u1 :: u2 :: us) ts = true) :
    ∃ t1 t2 ts', ts = t1 :: t2 :: ts' ∧ sp = ext [t1, t2] ∧ accounts true us ts' = true := by
  obtain ⟨t1, ts1, rfl, hp1, hr1⟩ := accounts_cons_inv_spanex ho1 h
  obtain ⟨t2, ts2, rfl, hp2, hr2⟩ := accounts_cons_inv_spanex ho2 hr1
  refine ⟨t1, t2, ts2, rfl, ?_, hr2⟩
  have h1 := posMatches_start hs (hp1 rfl)
  have h2 := posMatches_stop he (hp2 rfl)
  cases sp
  simp only [ext_pair, Span.mk.injEq]
  exact ⟨h1, h2⟩

/-- a leading token without claimed positions (comma, dot) -/
theorem accounts_plain_cons {pos : Bool} {u : UTok} {us : List UTok} {ts : List Token} (ho : u.optComma = false)
    (h : accounts pos (u :: us) ts = true) : ∃ t ts', ts = t :: ts' ∧ accounts pos us ts' = true := by
  obtain ⟨t, ts', rfl, _, hr⟩ := accounts_cons_inv_spanex ho h
  exact ⟨t, ts', rfl, hr⟩

/-- a single token claiming the span `sp` -/
theorem accounts_span_single {u : UTok} {ts : List Token} (sp : Span)
    (hs : u.start = some sp.start) (he : u.stop = some sp.stop) (ho : u.optComma = false)
    (h : accounts true [u] ts = true) : ∃ t, ts = [t] ∧ sp = t.span := by
  obtain ⟨t, ts', rfl, hsp, hr⟩ := accounts_span_cons sp hs he ho h
  rw [accounts_nil_left hr]
  exact ⟨t, rfl, hsp⟩

end Pql
