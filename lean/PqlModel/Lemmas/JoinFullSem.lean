/-
C03 / C02, the general statement theorem, helper 5: the side conditions on a whole tabular
expression (`tabOpsOk`), the value the next link of a block reads (`cur`), and the two ways a
join-free operator changes the block: a new link (`push_sem`) or ORDER BY / LIMIT attached to the
last one (`attach_sem`).
-/
import PqlModel.Lemmas.JoinFullEval
import PqlModel.Lemmas.SplitABlock
namespace Pql.JoinFull
open Pql Sql CompileOracle Intended SplitQ SelSem C02

/-- the sort terms an operator attaches as ORDER BY -/
def sortTermsOf : Op → List SortTerm
  | .sort _ _ ts => ts
  | .top _ _ _ _ (some c) => [c]
  | _ => []

mutual
/-- the side conditions of the general theorem, on the whole tabular expression: every operator
    satisfies its aggregate side condition (`C02.opOk`, R3's), also in the right-hand pipelines of
    joins; a `sort` / `top` DIRECTLY after a join (it becomes the ORDER BY of the join's own SELECT)
    does not mention `$left.…` / `$right.…` -/
def tabOpsOk : Tabular → Bool
  | .nil => true
  | .mk _ ops => opsOkJ false ops
/-- `aj`: the previous operator was a join -/
def opsOkJ (aj : Bool) : OpList → Bool
  | .nil => true
  | .cons o rest => opOkJ aj o && opsOkJ (isJoin o) rest
def opOkJ (aj : Bool) : Op → Bool
  | .join _ _ _ _ _ _ right _ _ _ => tabOpsOk right
  | o => opOk o && (!aj || aliasFreeTerms (sortTermsOf o))
end

theorem opOkJ_of_not_join (aj : Bool) (o : Op) (h : isJoin o = false) :
    opOkJ aj o = (opOk o && (!aj || aliasFreeTerms (sortTermsOf o))) := by
  cases o <;> first | rfl | simp [isJoin] at h

theorem opOkJ_mono (o : Op) (h : opOkJ true o = true) (aj : Bool) : opOkJ aj o = true := by
  cases aj
  · cases o with
    | join => simpa [opOkJ] using h
    | _ =>
      simp only [opOkJ, Bool.and_eq_true] at h ⊢
      exact ⟨h.1, by simp⟩
  · exact h

/-- the last link is a join link that carries neither ORDER BY nor LIMIT yet -/
def openJoinL (N : List SubA) : Bool :=
  match N.getLast? with
  | some l => isJoinSrc l.source && l.sort.isNone && l.take.isNone
  | none => false

theorem openJoinL_snoc (N : List SubA) (a : SubA) :
    openJoinL (N ++ [a]) = (isJoinSrc a.source && a.sort.isNone && a.take.isNone) := by
  simp [openJoinL]

/-- the table the next link of the block `N` of the pipeline `source | …` reads, when the links `N`
    have been bound after the bindings `E` -/
def cur (src : Bytes) (db : DB) (E : List (Bytes × Table)) (source : Option Ident) (N : List SubA) : Table :=
  lookupTable db (evalLinks src db E N) (C05.prevNameA source N)

theorem prevNameA_snoc (source : Option Ident) (N : List SubA) (a : SubA) :
    C05.prevNameA source (N ++ [a]) = a.name := by
  simp [C05.prevNameA]

theorem prevNameA_nil (source : Option Ident) : C05.prevNameA source [] = identName source := rfl

theorem prevNameA_ne_nil (s1 s2 : Option Ident) (N : List SubA) (h : N ≠ []) :
    C05.prevNameA s1 N = C05.prevNameA s2 N := by
  rcases List.eq_nil_or_concat N with rfl | ⟨N0, l, rfl⟩
  · exact absurd rfl h
  · simp [C05.prevNameA]

theorem cur_nil (src : Bytes) (db : DB) (E : List (Bytes × Table)) (source : Option Ident) :
    cur src db E source [] = lookupTable db E (identName source) := rfl

/-- the names are pairwise distinct and none is bound in `E` already -/
def FreshNames (E : List (Bytes × Table)) (ns : List Bytes) : Prop :=
  ns.Nodup ∧ ∀ n ∈ ns, n ∉ E.map (·.1)

theorem FreshNames.prefix {E : List (Bytes × Table)} {ns extra : List Bytes} (h : FreshNames E (ns ++ extra)) :
    FreshNames E ns :=
  ⟨(List.nodup_append.mp h.1).1, fun n hn => h.2 n (List.mem_append_left _ hn)⟩

theorem FreshNames.suffix {E : List (Bytes × Table)} {ns extra : List Bytes} (h : FreshNames E (ns ++ extra)) :
    extra.Nodup ∧ ∀ n ∈ extra, n ∉ E.map (·.1) ++ ns := by
  refine ⟨(List.nodup_append.mp h.1).2.1, fun n hn hmem => ?_⟩
  rcases List.mem_append.mp hmem with hm | hm
  · exact h.2 n (List.mem_append_right _ hn) hm
  · exact (List.nodup_append.mp h.1).2.2 n hm n hn rfl

theorem FreshNames.init {E : List (Bytes × Table)} {N : List SubA} {a : SubA}
    (h : FreshNames E ((N ++ [a]).map (·.name))) : FreshNames E (N.map (·.name)) := by
  rw [List.map_append] at h; exact h.prefix

/-- the value of a block that ends with the link `a` is the value of `a` — if its name is fresh -/
theorem cur_snoc (src : Bytes) (db : DB) (E : List (Bytes × Table)) (source : Option Ident) (N : List SubA) (a : SubA)
    (hnd : FreshNames E ((N ++ [a]).map (·.name))) :
    cur src db E source (N ++ [a]) = linkVal src db (evalLinks src db E N) a := by
  unfold cur
  rw [prevNameA_snoc, evalLinks_snoc]
  apply JoinSem.lookupTable_snoc_self
  rw [evalLinks_names]
  rw [List.map_append] at hnd
  exact hnd.suffix.2 a.name (by simp)

/-- **a new link** reading what the block computed so far computes its clauses of that -/
theorem push_sem (src : Bytes) (db : DB) (E : List (Bytes × Table)) (source : Option Ident) (N : List SubA) (a : SubA)
    (ha : a.source = .table (C05.prevNameA source N))
    (hnd : FreshNames E ((N ++ [a]).map (·.name))) :
    cur src db E source (N ++ [a]) = subEvalA src db (cur src db E source N) a := by
  rw [cur_snoc src db E source N a hnd]
  simp only [linkVal, ha, srcVal, cur]

/-- **ORDER BY / LIMIT attached to the last link** apply to what the block computed so far -/
theorem attach_sem (src : Bytes) (db : DB) (E : List (Bytes × Table)) (source : Option Ident) (N0 : List SubA)
    (l l' : SubA) (extra : List Clause)
    (hname : l'.name = l.name) (hsrc : l'.source = l.source) (hcl : subClausesA l' = subClausesA l ++ extra)
    (hnd : FreshNames E ((N0 ++ [l]).map (·.name))) :
    cur src db E source (N0 ++ [l']) = extra.foldl (interpClause src db) (cur src db E source (N0 ++ [l])) := by
  have hnd' : FreshNames E ((N0 ++ [l']).map (·.name)) := by
    simpa only [List.map_append, List.map_cons, List.map_nil, hname] using hnd
  rw [cur_snoc src db E source N0 l hnd, cur_snoc src db E source N0 l' hnd']
  simp only [linkVal, subEvalA, hsrc, hcl, List.foldl_append]

theorem subEvalA_of_clauses (src : Bytes) (db : DB) (t : Table) (a : SubA) (o : Op) (hj : isJoin o = false)
    (h : subClausesA a = opClauses o) : subEvalA src db t a = Rel.interpOp src db t o := by
  rw [interpOp_eq_clauses src db t o hj, subEvalA, h]

end Pql.JoinFull
