/-
Programs with lets, part 7 (Lemmas/ParseStmtTop.lean under a let-built scope): the whole statement —
the chunks the compiler emits for a query `t` AFTER the statement loop has built the scope from the lets
are read by `parseStatement` as the intended statement of the RESOLVED query `substTabular env t`.
-/
import PqlModel.Lemmas.E2EFinalScopedSelect
import PqlModel.Lemmas.E2EFinalSplitSubst
import PqlModel.Props.C14Order
namespace Pql.E2EFinal
set_option linter.unusedSimpArgs false
set_option linter.unusedVariables false
open Pql Sql CompileOracle Intended Pql.RT Pql.C05 Pql.C06

/-- `C05.compileChunks_tabular` for the part of `compileChunks` after the statement loop -/
theorem finishChunks_tabular (src : Bytes) (scope : Scope) (t : Tabular) (cs : List Chunk)
    (hc : C14.finishChunks src scope (some t) = .ok cs) :
    ∃ ctes query body, splitQueries src scope [] t = .ok (ctes ++ [query]) ∧
      query.write ⟨src, scope, .default⟩ = .ok body ∧
      ((ctes = [] ∧ cs = body ++ [.txt ";"]) ∨
       (ctes ≠ [] ∧ ∃ c, writeCtes ⟨src, scope, .default⟩ ctes = .ok c ∧ cs = .txt "WITH " :: c ++ body ++ [.txt ";"])) := by
  simp only [C14.finishChunks] at hc
  simp only [bind, Except.bind] at hc
  cases hs : splitQueries src scope [] t with
  | error e => rw [hs] at hc; cases hc
  | ok subs =>
    rw [hs] at hc
    simp only at hc
    cases hrev : subs.reverse with
    | nil => rw [hrev] at hc; cases hc
    | cons query ctesRev =>
      rw [hrev] at hc
      simp only at hc
      have hsubs : subs = ctesRev.reverse ++ [query] := by
        have := congrArg List.reverse hrev
        simpa using this
      by_cases hE : ctesRev.reverse.isEmpty = true
      · simp only [hE, if_true, pure, Except.pure] at hc
        cases hb : query.write ⟨src, scope, .default⟩ with
        | error e => rw [hb] at hc; cases hc
        | ok body =>
          rw [hb] at hc
          simp only [Except.ok.injEq, List.nil_append] at hc
          exact ⟨ctesRev.reverse, query, body, by rw [hsubs], hb, Or.inl ⟨List.isEmpty_iff.1 hE, hc.symm⟩⟩
      · simp only [hE, Bool.false_eq_true, if_false, pure, Except.pure] at hc
        cases hw : writeCtes ⟨src, scope, .default⟩ ctesRev.reverse with
        | error e => rw [hw] at hc; cases hc
        | ok c =>
          rw [hw] at hc
          simp only at hc
          cases hb : query.write ⟨src, scope, .default⟩ with
          | error e => rw [hb] at hc; cases hc
          | ok body =>
            rw [hb] at hc
            simp only [Except.ok.injEq] at hc
            refine ⟨ctesRev.reverse, query, body, by rw [hsubs], hb, Or.inr ⟨?_, c, hw, hc.symm⟩⟩
            intro he
            rw [he] at hE
            exact hE rfl

/-- **the statement theorem under a let-built scope** -/
theorem statement_parse_s (src : Bytes) (scope : Scope) (env : List (Bytes × Expr))
    (hsc : ScopeLetsEnv src scope env) (hjs : envJoinSafe env = true)
    (t : Tabular) (hJ : TrueFree env ∨ ParsedOK.TabNE t = true) (hN : tabNamed t) (cs : List Chunk) (hok : tabularOK (substTabular env t) = true)
    (hc : C14.finishChunks src scope (some t) = .ok cs) :
    ∃ st want, parseStatement (toksOf cs) = some st ∧
      intended src [.tabular (substTabular env t)] = some want ∧ statementEq st want = true := by
  obtain ⟨ctes, query, body, hsplit, hbody, hcase⟩ := finishChunks_tabular src scope t cs hc
  obtain ⟨subsA, hA, hrel, _⟩ := splitQueries_refines src scope t [] [] .nil _ hsplit
  obtain ⟨hA', hNamed⟩ := splitA_subst t hJ hN [] subsA (by intro a ha; cases ha) hA
  simp only [List.map_nil] at hA'
  have hAll : AllOK (subsA.map (substSubA env)) :=
    splitA_ok _ hok [] _ (by intro a ha; cases ha) hA'
  obtain ⟨ctesA, qA, rfl, hrelC, hrelQ⟩ := listRel_snoc hrel
  have hqOK : subOK (substSubA env qA) = true := hAll _ (by simp)
  have hcOK : AllOK (ctesA.map (substSubA env)) := fun a ha => hAll a (by
    simp only [List.map_append, List.mem_append]; exact Or.inl ha)
  have hqN : optColsNamed qA.op := hNamed qA (by simp)
  have hcN : ∀ a ∈ ctesA, optColsNamed a.op := fun a ha => hNamed a (by simp [ha])
  obtain ⟨sel, wbody, hp, hw, hsr⟩ :=
    select_parse_s hsc hjs qA query body [S ";"] hrelQ hqN hqOK hbody ⟨[], Or.inr rfl⟩
  have hint : ∀ wants, (ctesA.map (substSubA env)).mapM (cteOf src) = some wants →
      intended src [.tabular (substTabular env t)] = some ⟨wants, wbody⟩ := by
    intro wants hwm
    simp only [intended, resolveLets, substTabular_nil, Option.bind_eq_bind, Option.bind_some, hA', List.map_append,
      List.map_cons, List.map_nil, stmtOf_snoc, hwm, hw]
    rfl
  obtain ⟨w, tl, hts, hup⟩ := pSelect_head hp
  rcases hcase with ⟨rfl, rfl⟩ | ⟨hne, c, hwc, rfl⟩
  · cases hrelC
    refine ⟨⟨[], sel⟩, ⟨[], wbody⟩, ?_, hint [] rfl, ?_⟩
    · have e : toksOf (body ++ [Chunk.txt ";"]) = toksOf body ++ [S ";"] := by simp
      rw [e]
      have hW : isWord (STok.word w) "WITH" = false := by simp [hup]
      unfold parseStatement
      rw [hts] at hp ⊢
      simp only [hW, Bool.false_eq_true, if_false, hp]
      simp
    · simp [statementEq, selectEq_of_rel hsr]
  · have hcomma : Ends (fun t => !isSym t ",") (toksOf body ++ [S ";"]) := by rw [hts]; rfl
    obtain ⟨parsed, wants, hpc, hwm, hrl⟩ := ctes_parse_s hsc hjs hrelC hcN hcOK hne c hwc (toksOf body ++ [S ";"]) hcomma
      ((toksOf c ++ (toksOf body ++ [S ";"])).length + 1) (by
        have := writeCtes_length _ ctes c hwc
        simp only [List.length_append]
        omega)
    refine ⟨⟨parsed, sel⟩, ⟨wants, wbody⟩, ?_, hint wants hwm, ?_⟩
    · have e : toksOf (Chunk.txt "WITH " :: c ++ body ++ [Chunk.txt ";"]) =
          RT.W "WITH" :: (toksOf c ++ (toksOf body ++ [S ";"])) := by simp
      rw [e]
      unfold parseStatement
      simp only [isWord_word, up_WITH, beq_self_eq_true, if_true, hpc, hp]
      simp
    · simp [statementEq, hrl.length_eq, ctes_all hrl, selectEq_of_rel hsr]

end Pql.E2EFinal
