/-
Layout independence of the parser (property C07, last sentence): definitions.

* `mapStmt f` (and `mapExpr`, `mapExprList`, `mapTabular`, `mapOp`, `mapOpList`, `mapSortTerm`,
  `mapColumn`, `mapRenderProp`, `mapIdent`) apply `f : Span → Span` to every `Span` field of a tree;
  `eraseSpansStmt` etc. are the instances `f = fun _ => Span.zero`.
* `sameTokens ts us`: same length, pairwise same `kind` and `value`.
* `np` ("no position") puts a token at position 0; `keepNull` keeps the "absent" span `Span.null`
  and sends every other span to `Span.zero`.  The core of the development
  (`LayoutExpr`/`LayoutOps`/`LayoutTop`) shows that every production of `Model/Parse.lean`
  run on `ts.map np` with `srcLen = 0` returns exactly the `keepNull`-image of what it returns on
  `ts` — an *equation*, from which the statement modulo `eraseSpans` follows by composing maps.

All definitions here are specification-level definitions of agent L7 (namespace `Pql.Layout`).
-/
import PqlModel.Model.Parse
namespace Pql.Layout
open Pql

/-! ### span maps over the whole AST -/

def mapIdent (f : Span → Span) (i : Ident) : Ident := { i with span := f i.span }

mutual
def mapExpr (f : Span → Span) : Expr → Expr
  | .nil => .nil
  | .qident parts => .qident (parts.map (mapIdent f))
  | .lit sp k v => .lit (f sp) k v
  | .unary os op x => .unary (f os) op (mapExpr f x)
  | .binary x os op y => .binary (mapExpr f x) (f os) op (mapExpr f y)
  | .inE x i lp vals rp => .inE (mapExpr f x) (f i) (f lp) (mapExprList f vals) (f rp)
  | .paren lp x rp => .paren (f lp) (mapExpr f x) (f rp)
  | .call fn lp args rp => .call (mapIdent f fn) (f lp) (mapExprList f args) (f rp)
  | .index x lb idx rb => .index (mapExpr f x) (f lb) (mapExpr f idx) (f rb)
def mapExprList (f : Span → Span) : ExprList → ExprList
  | .nil => .nil
  | .cons e es => .cons (mapExpr f e) (mapExprList f es)
end

def mapSortTerm (f : Span → Span) (t : SortTerm) : SortTerm :=
  ⟨mapExpr f t.x, t.asc, f t.ascDescSpan, t.nullsFirst, f t.nullsSpan⟩

def mapColumn (f : Span → Span) (c : Column) : Column :=
  ⟨c.name.map (mapIdent f), f c.assign, mapExpr f c.x⟩

def mapRenderProp (f : Span → Span) (p : RenderProp) : RenderProp :=
  ⟨p.name.map (mapIdent f), f p.assign, mapExpr f p.value⟩

mutual
def mapTabular (f : Span → Span) : Tabular → Tabular
  | .nil => .nil
  | .mk src ops => .mk (src.map (mapIdent f)) (mapOpList f ops)
def mapOp (f : Span → Span) : Op → Op
  | .count p k => .count (f p) (f k)
  | .where_ p k e => .where_ (f p) (f k) (mapExpr f e)
  | .sort p k ts => .sort (f p) (f k) (ts.map (mapSortTerm f))
  | .take p k n => .take (f p) (f k) (mapExpr f n)
  | .top p k n b c => .top (f p) (f k) (mapExpr f n) (f b) (c.map (mapSortTerm f))
  | .project p k cs => .project (f p) (f k) (cs.map (mapColumn f))
  | .extend p k cs => .extend (f p) (f k) (cs.map (mapColumn f))
  | .summarize p k cs b gs => .summarize (f p) (f k) (cs.map (mapColumn f)) (f b) (gs.map (mapColumn f))
  | .join p k kind ka fl lp right rp on conds =>
    .join (f p) (f k) (f kind) (f ka) (fl.map (mapIdent f)) (f lp) (mapTabular f right) (f rp) (f on)
      (mapExprList f conds)
  | .as_ p k n => .as_ (f p) (f k) (n.map (mapIdent f))
  | .render p k ch w lp props rp =>
    .render (f p) (f k) (ch.map (mapIdent f)) (f w) (f lp) (props.map (mapRenderProp f)) (f rp)
def mapOpList (f : Span → Span) : OpList → OpList
  | .nil => .nil
  | .cons o os => .cons (mapOp f o) (mapOpList f os)
end

def mapStmt (f : Span → Span) : Stmt → Stmt
  | .let_ kw name asg x => .let_ (f kw) (name.map (mapIdent f)) (f asg) (mapExpr f x)
  | .tabular t => .tabular (mapTabular f t)

def mapErr (f : Span → Span) (e : PErr) : PErr := { e with span := e.span.map f }
def mapErrs (f : Span → Span) (es : Errs) : Errs := es.map (mapErr f)

/-- forget every position -/
def toZero : Span → Span := fun _ => Span.zero

def eraseSpansIdent : Ident → Ident := mapIdent toZero
def eraseSpansExpr : Expr → Expr := mapExpr toZero
def eraseSpansExprList : ExprList → ExprList := mapExprList toZero
def eraseSpansSortTerm : SortTerm → SortTerm := mapSortTerm toZero
def eraseSpansColumn : Column → Column := mapColumn toZero
def eraseSpansRenderProp : RenderProp → RenderProp := mapRenderProp toZero
def eraseSpansTabular : Tabular → Tabular := mapTabular toZero
def eraseSpansOp : Op → Op := mapOp toZero
def eraseSpansOpList : OpList → OpList := mapOpList toZero
def eraseSpansStmt : Stmt → Stmt := mapStmt toZero
/-- errors with their positions forgotten: what remains is, per error, whether it has a position,
    the `notFound` flag and the `fuel` flag -/
def eraseSpansErrs : Errs → Errs := mapErrs toZero

/-! ### tokens without positions -/

/-- same length, pairwise same kind and value (positions free) -/
def sameTokens (ts us : List Token) : Prop :=
  ts.length = us.length ∧ ∀ i (h : i < ts.length) (h' : i < us.length),
    ts[i].kind = us[i].kind ∧ ts[i].value = us[i].value

/-- the token moved to position 0 -/
def np (t : Token) : Token := { t with start := 0, stop := 0 }

/-- keep the "absent" span, send every other span to `Span.zero` -/
def keepNull (s : Span) : Span := if s = Span.null then Span.null else Span.zero

/-- the context of an empty source: the EOF position is 0 -/
def c0 : PCtx := ⟨0⟩

theorem sameTokens_iff_map_np (ts us : List Token) : sameTokens ts us ↔ ts.map np = us.map np := by
  constructor
  · intro ⟨hl, h⟩
    apply List.ext_getElem
    · simpa using hl
    · intro i h1 h2
      simp only [List.length_map] at h1 h2
      have := h i h1 h2
      simp only [List.getElem_map, np]
      cases hx : ts[i]; cases hy : us[i]
      rw [hx, hy] at this
      simp_all
  · intro h
    have hl : ts.length = us.length := by simpa using congrArg List.length h
    refine ⟨hl, fun i h1 h2 => ?_⟩
    have : (ts.map np)[i]'(by simpa using h1) = (us.map np)[i]'(by simpa using h2) := by
      simp only [h]
    simp only [List.getElem_map, np] at this
    cases hx : ts[i]; cases hy : us[i]
    rw [hx, hy] at this
    simp_all

instance (ts us : List Token) : Decidable (sameTokens ts us) :=
  decidable_of_iff _ (sameTokens_iff_map_np ts us).symm

theorem sameTokens.refl (ts : List Token) : sameTokens ts ts := (sameTokens_iff_map_np _ _).2 rfl
theorem sameTokens.symm {ts us : List Token} (h : sameTokens ts us) : sameTokens us ts :=
  (sameTokens_iff_map_np _ _).2 ((sameTokens_iff_map_np _ _).1 h).symm
theorem sameTokens.trans {ts us vs : List Token} (h : sameTokens ts us) (h' : sameTokens us vs) :
    sameTokens ts vs :=
  (sameTokens_iff_map_np _ _).2 (((sameTokens_iff_map_np _ _).1 h).trans ((sameTokens_iff_map_np _ _).1 h'))

theorem sameTokens.append {a a' b b' : List Token} (h : sameTokens a a') (h' : sameTokens b b') :
    sameTokens (a ++ b) (a' ++ b') := by
  rw [sameTokens_iff_map_np] at *
  rw [List.map_append, List.map_append, h, h']

/-! ### composition of span maps -/

theorem mapIdent_comp (g f : Span → Span) (i : Ident) : mapIdent g (mapIdent f i) = mapIdent (g ∘ f) i := rfl

theorem map_mapIdent_comp (g f : Span → Span) (l : List Ident) :
    (l.map (mapIdent f)).map (mapIdent g) = l.map (mapIdent (g ∘ f)) := by
  rw [List.map_map]; rfl

theorem optMap_mapIdent_comp (g f : Span → Span) (o : Option Ident) :
    (o.map (mapIdent f)).map (mapIdent g) = o.map (mapIdent (g ∘ f)) := by
  cases o <;> rfl

mutual
theorem mapExpr_comp (g f : Span → Span) : (e : Expr) → mapExpr g (mapExpr f e) = mapExpr (g ∘ f) e
  | .nil => by simp only [mapExpr]
  | .qident parts => by simp only [mapExpr, map_mapIdent_comp]
  | .lit .. => by simp only [mapExpr, Function.comp]
  | .unary _ _ x => by simp only [mapExpr, Function.comp, mapExpr_comp g f x]
  | .binary x _ _ y => by simp only [mapExpr, Function.comp, mapExpr_comp g f x, mapExpr_comp g f y]
  | .inE x _ _ vals _ => by
    simp only [mapExpr, Function.comp, mapExpr_comp g f x, mapExprList_comp g f vals]
  | .paren _ x _ => by simp only [mapExpr, Function.comp, mapExpr_comp g f x]
  | .call fn _ args _ => by
    simp only [mapExpr, Function.comp, mapIdent_comp, mapExprList_comp g f args]
  | .index x _ idx _ => by
    simp only [mapExpr, Function.comp, mapExpr_comp g f x, mapExpr_comp g f idx]
theorem mapExprList_comp (g f : Span → Span) : (es : ExprList) →
    mapExprList g (mapExprList f es) = mapExprList (g ∘ f) es
  | .nil => by simp only [mapExprList]
  | .cons e es => by simp only [mapExprList, mapExpr_comp g f e, mapExprList_comp g f es]
end

theorem mapSortTerm_comp (g f : Span → Span) (t : SortTerm) :
    mapSortTerm g (mapSortTerm f t) = mapSortTerm (g ∘ f) t := by
  simp only [mapSortTerm, mapExpr_comp, Function.comp]

theorem mapColumn_comp (g f : Span → Span) (c : Column) :
    mapColumn g (mapColumn f c) = mapColumn (g ∘ f) c := by
  simp only [mapColumn, mapExpr_comp, optMap_mapIdent_comp, Function.comp]

theorem mapRenderProp_comp (g f : Span → Span) (c : RenderProp) :
    mapRenderProp g (mapRenderProp f c) = mapRenderProp (g ∘ f) c := by
  simp only [mapRenderProp, mapExpr_comp, optMap_mapIdent_comp, Function.comp]

theorem map_comp_of {α} (F : (Span → Span) → α → α) (h : ∀ g f x, F g (F f x) = F (g ∘ f) x)
    (g f : Span → Span) (l : List α) : (l.map (F f)).map (F g) = l.map (F (g ∘ f)) := by
  rw [List.map_map]
  exact List.map_congr_left fun x _ => h g f x

theorem optMap_comp_of {α} (F : (Span → Span) → α → α) (h : ∀ g f x, F g (F f x) = F (g ∘ f) x)
    (g f : Span → Span) (o : Option α) : (o.map (F f)).map (F g) = o.map (F (g ∘ f)) := by
  cases o with
  | none => rfl
  | some x => simp only [Option.map_some, h]

mutual
theorem mapTabular_comp (g f : Span → Span) : (t : Tabular) →
    mapTabular g (mapTabular f t) = mapTabular (g ∘ f) t
  | .nil => by simp only [mapTabular]
  | .mk src ops => by simp only [mapTabular, optMap_mapIdent_comp, mapOpList_comp g f ops]
theorem mapOp_comp (g f : Span → Span) : (o : Op) → mapOp g (mapOp f o) = mapOp (g ∘ f) o
  | .count .. => by simp only [mapOp, Function.comp]
  | .where_ .. => by simp only [mapOp, Function.comp, mapExpr_comp]
  | .sort .. => by simp only [mapOp, Function.comp, map_comp_of mapSortTerm mapSortTerm_comp]
  | .take .. => by simp only [mapOp, Function.comp, mapExpr_comp]
  | .top .. => by
    simp only [mapOp, Function.comp, mapExpr_comp, optMap_comp_of mapSortTerm mapSortTerm_comp]
  | .project .. => by simp only [mapOp, Function.comp, map_comp_of mapColumn mapColumn_comp]
  | .extend .. => by simp only [mapOp, Function.comp, map_comp_of mapColumn mapColumn_comp]
  | .summarize .. => by simp only [mapOp, Function.comp, map_comp_of mapColumn mapColumn_comp]
  | .join _ _ _ _ _ _ right _ _ _ => by
    simp only [mapOp, Function.comp, optMap_mapIdent_comp, mapExprList_comp, mapTabular_comp g f right]
  | .as_ .. => by simp only [mapOp, Function.comp, optMap_mapIdent_comp]
  | .render .. => by
    simp only [mapOp, Function.comp, optMap_mapIdent_comp, map_comp_of mapRenderProp mapRenderProp_comp]
theorem mapOpList_comp (g f : Span → Span) : (os : OpList) →
    mapOpList g (mapOpList f os) = mapOpList (g ∘ f) os
  | .nil => by simp only [mapOpList]
  | .cons o os => by simp only [mapOpList, mapOp_comp g f o, mapOpList_comp g f os]
end

theorem mapStmt_comp (g f : Span → Span) (s : Stmt) : mapStmt g (mapStmt f s) = mapStmt (g ∘ f) s := by
  cases s with
  | let_ => simp only [mapStmt, Function.comp, optMap_mapIdent_comp, mapExpr_comp]
  | tabular t => simp only [mapStmt, mapTabular_comp]

theorem mapErrs_comp (g f : Span → Span) (es : Errs) : mapErrs g (mapErrs f es) = mapErrs (g ∘ f) es := by
  simp only [mapErrs, List.map_map]
  apply List.map_congr_left
  intro e _
  simp only [Function.comp, mapErr, Option.map_map]

theorem toZero_comp (f : Span → Span) : toZero ∘ f = toZero := rfl

/-- forgetting positions after `keepNull` is forgetting positions -/
theorem eraseSpansStmt_keepNull (s : Stmt) : eraseSpansStmt (mapStmt keepNull s) = eraseSpansStmt s := by
  simp only [eraseSpansStmt, mapStmt_comp, toZero_comp]

theorem eraseSpansErrs_keepNull (es : Errs) : eraseSpansErrs (mapErrs keepNull es) = eraseSpansErrs es := by
  simp only [eraseSpansErrs, mapErrs_comp, toZero_comp]

end Pql.Layout
