/-
The loop of `(*scanner).string` as translated, and the whole function against the model's `scanString`.
-/
import PqlModel.Lemmas.LexScanIRStringBody
namespace Pql.ScanIR
open Pql
open Pql.LexIR (IErr M BinOp goPanic stuck irOf)
set_option linter.unusedSimpArgs false
set_option linter.unusedVariables false

theorem VB.write_acc (s : Bytes) (k w : Nat) (hk : 1 ≤ k) (vb : VB) :
    (vb.write ((s.drop k).take w)).acc s (k + w) = vb.acc s k ++ (s.drop k).take w := by
  cases vb with
  | none => exact (take_extend s k w hk).symm
  | some a acc => rfl

theorem VB.force_write_acc (s : Bytes) (k k' : Nat) (bs0 : List (Nat × Bytes)) (x : Bytes) (vb : VB) :
    ((vb.force s k bs0).write x).acc s k' = vb.acc s k ++ x := by
  cases vb <;> rfl

theorem ne_of_ge (b q : UInt8) (hq : q.toNat < 128) (hb : 128 ≤ b.toNat) : b ≠ q ∧ b ≠ 10 ∧ b ≠ 92 := by
  refine ⟨?_, ?_, ?_⟩ <;> (intro e; subst e; first | omega | (simp at hb))

/-- `s.string()` on a suffix that begins with a quote character -/
def SpecString (fuel : Nat) (f : Fn) : Prop := ∀ (pre s : Bytes) (l : Nat) (bs : List (Nat × Bytes)) (q : UInt8) (rest : Bytes),
  s = q :: rest → (q = 34 ∨ q = 39) → s.length < fuel →
  ∃ l' bs', f [.scanner] (hp pre s 0 l bs) = .ok ([tokAt pre.length (scanString s)], hp pre s (scanString s).width l' bs')

/-- **the loop of `string`** -/
theorem str_loop (env : Env) (fuel : Nat) (E : StrEnv env) (pre s : Bytes) (q : UInt8) (hq : q = 34 ∨ q = 39)
    (bs0 : List (Nat × Bytes)) :
    ∀ (n k l : Nat) (vb : VB), 1 ≤ k → k ≤ s.length → s.length - k < n →
      ∃ l' vb', foreverLoop (execBlock env fuel strLoopBody) n (sSt pre s q bs0 vb k l) =
        .ok (.ret [strTok pre k (vb.acc s k) (stringLoop q (s.drop k))],
          sSt pre s q bs0 vb' (k + (stringLoop q (s.drop k)).width) l') := by
  have hq128 : q.toNat < 128 := by rcases hq with rfl | rfl <;> decide
  have hq10 : q ≠ 10 := by rcases hq with rfl | rfl <;> decide
  have hq92 : q ≠ 92 := by rcases hq with rfl | rfl <;> decide
  intro n
  induction n with
  | zero => intro k l vb _ _ h; omega
  | succ n ih =>
    intro k l vb hk1 hk hn
    cases hd : s.drop k with
    | nil =>
      have hlen : s.length ≤ k := List.drop_eq_nil_iff.mp hd
      refine ⟨l, vb, ?_⟩
      simp only [foreverLoop, str_body_end env fuel E pre s q bs0 vb k l hlen, bind, Except.bind, pure, Except.pure,
        leave_sOut, stringLoop, strTok, QRes.width_bad, Nat.add_zero]
    | cons c rest =>
      have hlt := LexIR.lt_of_drop_cons hd
      have hr1 := LexIR.drop_succ_of_cons hd
      obtain ⟨r, w, hr, hwpos, hqr, _, _, hw, _⟩ := rune_facts c rest
      have hwle : k + w ≤ s.length := by
        have h1 := decodeRune_width_le (c :: rest); rw [hr] at h1
        have h2 := congrArg List.length hd
        simp at h1 h2; omega
      by_cases hcq : c = q
      · -- the closing quote
        subst hcq
        refine ⟨pre.length + k, vb, ?_⟩
        have hm : stringLoop c (c :: rest) = .closed [] 1 := by rw [str_cons]; simp
        simp only [foreverLoop, str_body_close env fuel E pre s c bs0 vb k l rest hk1 hd hq128, bind, Except.bind, pure,
          Except.pure, leave_sOut, hm, strTok, QRes.width_closed, List.append_nil]
      · have hrq : ¬ r = q.toNat := fun e => hcq ((rune_q c q rest hq128).mp (by rw [hr]; exact e))
        by_cases h10 : c = 10
        · -- end of line
          subst h10
          refine ⟨pre.length + k, vb, ?_⟩
          have hm : stringLoop q (10 :: rest) = .bad 0 := by rw [str_cons]; simp [hcq]
          simp only [foreverLoop, str_body_nl env fuel E pre s q bs0 vb k l rest hd hq10 hq128, bind, Except.bind, pure,
            Except.pure, leave_sOut, hm, strTok, QRes.width_bad, Nat.add_zero]
        · have hr10 : ¬ r = 10 := fun e => h10 ((hqr 10 (by omega)).mp e)
          by_cases h92 : c = 92
          · -- an escape
            subst h92
            cases rest with
            | nil =>
              refine ⟨pre.length + k, vb.force s k bs0, ?_⟩
              have hm : stringLoop q [92] = .bad 1 := by rw [str_cons]; simp [hcq]
              simp only [foreverLoop, str_body_esc_end env fuel E pre s q bs0 vb k l hk1 hd hq92, bind, Except.bind, pure,
                Except.pure, leave_sOut, hm, strTok, QRes.width_bad]
            | cons e rest' =>
              have hr2 := LexIR.drop_succ_of_cons hr1
              have hlt2 := LexIR.lt_of_drop_cons hr1
              obtain ⟨re, we, hre, hwepos, hqe, _, _, hwe, _⟩ := rune_facts e rest'
              by_cases he10 : e = 10
              · subst he10
                refine ⟨pre.length + (k + 1), vb.force s k bs0, ?_⟩
                have hm : stringLoop q (92 :: 10 :: rest') = .bad 1 := by rw [str_cons]; simp [hcq]
                simp only [foreverLoop, str_body_esc_nl env fuel E pre s q bs0 vb k l rest' hk1 hd hq92, bind, Except.bind,
                  pure, Except.pure, leave_sOut, hm, strTok, QRes.width_bad]
              · have hre10 : ¬ re = 10 := fun x => he10 ((hqe 10 (by omega)).mp x)
                by_cases hnt : e = 110 ∨ e = 116
                · -- \n, \t
                  obtain ⟨v, hv, hvv⟩ : ∃ v : Nat, ((e = 110 ∧ v = 10) ∨ (e = 116 ∧ v = 9)) ∧
                      (if e == 110 then (10 : UInt8) else if e == 116 then 9 else e) = UInt8.ofNat v := by
                    rcases hnt with rfl | rfl
                    · exact ⟨10, Or.inl ⟨rfl, rfl⟩, rfl⟩
                    · exact ⟨9, Or.inr ⟨rfl, rfl⟩, rfl⟩
                  obtain ⟨l', vb', e1⟩ := ih (k + 1 + 1) (pre.length + (k + 1))
                    ((vb.force s k bs0).write [UInt8.ofNat v]) (by omega) (by omega) (by omega)
                  rw [hr2] at e1
                  refine ⟨l', vb', ?_⟩
                  have hm : stringLoop q (92 :: e :: rest') = (stringLoop q rest').shift 2 (some (UInt8.ofNat v)) := by
                    rw [str_cons]; simp [hcq, he10, ← hvv]
                  simp only [foreverLoop, str_body_esc_rune env fuel E pre s q bs0 vb k l e v rest' hk1 hd hq92 hv, bind,
                    Except.bind, leave_sOut, e1, hm, strTok_shift2, VB.force_write_acc, QRes.width_shift]
                  have a1 : k + 1 + 1 = k + 2 := by omega
                  have a2 : k + 2 + (stringLoop q rest').width = k + ((stringLoop q rest').width + 2) := by omega
                  rw [a1, a2]
                · -- any other rune after the backslash
                  have hn110 : ¬ e = 110 := fun x => hnt (Or.inl x)
                  have hn116 : ¬ e = 116 := fun x => hnt (Or.inr x)
                  have hre110 : ¬ re = 110 := fun x => hn110 ((hqe 110 (by omega)).mp x)
                  have hre116 : ¬ re = 116 := fun x => hn116 ((hqe 116 (by omega)).mp x)
                  have hwele : we ≤ (e :: rest').length := by
                    have h1 := decodeRune_width_le (e :: rest'); rw [hre] at h1; exact h1
                  have hkwe : k + 1 + we ≤ s.length := by
                    have h2 := congrArg List.length hr1
                    simp at hwele h2; omega
                  obtain ⟨l', vb', e1⟩ := ih (k + 1 + we) (pre.length + (k + 1))
                    ((vb.force s k bs0).write ((s.drop (k + 1)).take we)) (by omega) hkwe (by omega)
                  refine ⟨l', vb', ?_⟩
                  -- the bytes of the rune: e, then continuation bytes
                  obtain ⟨j, hj⟩ : ∃ j, we = j + 1 := ⟨we - 1, by omega⟩
                  have htail := decodeRune_tail_ge e rest'
                  rw [hre] at htail
                  simp only [hj, Nat.add_one_sub_one] at htail
                  have hx : ∀ b ∈ rest'.take j, b ≠ q ∧ b ≠ 10 ∧ b ≠ 92 := fun b hb => ne_of_ge b q hq128 (htail b hb)
                  have hsplit : rest' = rest'.take j ++ rest'.drop j := (List.take_append_drop j _).symm
                  have hskip := stringLoop_skip q (rest'.take j) (rest'.drop j) hx
                  rw [← hsplit] at hskip
                  have hdd : rest'.drop j = s.drop (k + 1 + we) := by
                    rw [← hr2, List.drop_drop]; congr 1; omega
                  have hlenx : (rest'.take j).length = j := by
                    rw [List.length_take]; simp at hwele; omega
                  have hbytes : (s.drop (k + 1)).take we = e :: rest'.take j := by
                    rw [hr1, hj, List.take_succ_cons]
                  have hm : stringLoop q (92 :: e :: rest') = (shiftV (rest'.take j) (stringLoop q (s.drop (k + 1 + we)))).shift 2 (some e) := by
                    rw [str_cons]; simp [hcq, he10, hn110, hn116, hskip, hdd]
                  simp only [foreverLoop, str_body_esc_other env fuel E pre s q bs0 vb k l e rest' re we hk1 hd hq92 hre hre10 hre110
                    hre116 hkwe, bind, Except.bind, leave_sOut, hm, strTok_shift2, strTok_shiftV, VB.force_write_acc,
                    QRes.width_shift, width_shiftV, hlenx, hbytes]
                  rw [hbytes, VB.force_write_acc] at e1
                  have a1 : k + 2 + j = k + 1 + we := by omega
                  have a2 : k + 1 + we + (stringLoop q (s.drop (k + 1 + we))).width =
                      k + ((stringLoop q (s.drop (k + 1 + we))).width + j + 2) := by omega
                  have a3 : vb.acc s k ++ [e] ++ rest'.take j = vb.acc s k ++ e :: rest'.take j := by simp
                  rw [a1, e1, a2, a3]
          · -- any other rune: content
            have hr92 : ¬ r = 92 := fun e => h92 ((hqr 92 (by omega)).mp e)
            obtain ⟨l', vb', e1⟩ := ih (k + w) (pre.length + k) (vb.write ((s.drop k).take w)) (by omega) hwle (by omega)
            refine ⟨l', vb', ?_⟩
            have hbytes : ∀ b ∈ (c :: rest).take w, b ≠ q ∧ b ≠ 10 ∧ b ≠ 92 := by
              intro b hb
              have e1 := rune_bytes_ne c rest q hq128 hcq
              have e2 := rune_bytes_ne c rest 10 (by decide) h10
              have e3 := rune_bytes_ne c rest 92 (by decide) h92
              rw [hr] at e1 e2 e3
              exact ⟨e1 b hb, e2 b hb, e3 b hb⟩
            have hsplit : c :: rest = (c :: rest).take w ++ (c :: rest).drop w := (List.take_append_drop w _).symm
            have hskip := stringLoop_skip q ((c :: rest).take w) ((c :: rest).drop w) hbytes
            rw [← hsplit] at hskip
            have hdd : (c :: rest).drop w = s.drop (k + w) := by rw [← hd, List.drop_drop]
            have hlenx : ((c :: rest).take w).length = w := by
              rw [List.length_take]
              have h2 := congrArg List.length hd
              simp at h2 ⊢; omega
            rw [hdd] at hskip
            have hacc := VB.write_acc s k w hk1 vb
            rw [hd] at hacc
            simp only [foreverLoop, str_body_other env fuel E pre s q bs0 vb k l c rest r w hd hr hrq hr10 hr92 hwle, bind,
              Except.bind, leave_sOut, e1, hskip, strTok_shiftV, width_shiftV, hlenx]
            rw [hd] at e1 ⊢
            simp only [hacc]
            have a2 : k + w + (stringLoop q (s.drop (k + w))).width = k + ((stringLoop q (s.drop (k + w))).width + w) := by omega
            rw [a2]

/-- **`string` is the model's `scanString`** -/
theorem string_spec (env : Env) (fuel : Nat) (E : StrEnv env) : SpecString fuel (interpFn env fuel stringDecl) := by
  intro pre s l bs q rest hs hq hfuel
  obtain ⟨fN, hN, sN⟩ := E.cur.next
  have hq128 : q.toNat < 128 := by rcases hq with rfl | rfl <;> decide
  have hd : s.drop 0 = q :: rest := by simp [hs]
  have nx := next_cons' sN pre s 0 l bs q rest q.toNat 1 hd (Dispatch.decodeRune_ascii' q rest hq128)
  obtain ⟨l', vb', hl⟩ := str_loop env fuel E pre s q hq bs fuel (0 + 1) (pre.length + 0) .none (by omega)
    (by subst hs; simp) (by omega)
  have hdrop : s.drop (0 + 1) = rest := by subst hs; rfl
  rw [hdrop] at hl
  simp only [Nat.add_zero, Nat.zero_add, sSt, strSt, VB.val, VB.blds, VB.acc, Nat.sub_self, List.take_zero] at nx hl
  refine ⟨l', vb'.blds bs, ?_⟩
  have hres : [strTok pre 1 [] (stringLoop q rest)] = [tokAt pre.length (scanString s)] ∧
      1 + (stringLoop q rest).width = (scanString s).width := by
    subst hs
    simp only [scanString, strTok, tokAt]
    cases hm : stringLoop q rest with
    | closed v w => exact ⟨by simp; omega, by simp; omega⟩
    | bad w => exact ⟨by simp; omega, by simp; omega⟩
  rw [hres.1, hres.2] at hl
  have t34 : UInt8.toNat 34 = 34 := rfl
  have t39 : UInt8.toNat 39 = 39 := rfl
  unfold stringDecl
  rcases hq with rfl | rfl
  · simp only [t34] at nx hl
    ls_simp [hN, nx, hl]
    rfl
  · simp only [t39] at nx hl
    ls_simp [hN, nx, hl]
    rfl

end Pql.ScanIR
