/-
`ExprParseIR`, `split`: the unit interpreted on the abstract reading of a parser equals the model's `split`
(for every search kind other than an opening bracket, which is how the parser calls it).
-/
import PqlModel.Lemmas.ExprParseIRLeaves
namespace Pql.ExprParseIR
open Pql
set_option linter.unusedSimpArgs false
set_option maxRecDepth 8000

/-- `len(stack) > 0` -/
def splitInnerCond : E := .cmp "gt" (.len (.var "stack")) (.int 0)

/-- the body of the pop loop of `split` -/
def splitInner : List Stmt :=
  [.assign true [.var "k"] (.e (.index (.var "stack") (.sub (.len (.var "stack")) (.int 1)))),
   .assign false [.var "stack"] (.e (.slice (.var "stack") (.none) (.sub (.len (.var "stack")) (.int 1)))),
   .ite (.cmp "eq" (.var "k") (.field (.var "tok") "Kind")) [.brk ""] []]

/-- the body of the main loop of `split` -/
def splitBody : List Stmt :=
  [.assign true [.var "tok", .var "ok"] (.pcall "p" "next" []),
   .ite
     (.not (.var "ok"))
     [.ret [.new "parser" ["source", "tokens", "splitKind"] [.field (.var "p") "source", .slice (.field (.var "p") "tokens") (.var "start") (.none), .var "search"]]]
     [],
   .ite
     (.or (.cmp "eq" (.field (.var "tok") "Kind") (.kind "TokenLParen")) (.cmp "eq" (.field (.var "tok") "Kind") (.kind "TokenLBracket")))
     [.ite (.cmp "eq" (.var "search") (.field (.var "tok") "Kind")) [.do_ (.pcall "p" "prev" []), .brk "loop"] [],
      .ite
        (.cmp "eq" (.field (.var "tok") "Kind") (.kind "TokenLParen"))
        [.assign false [.var "stack"] (.e (.append (.var "stack") (.kind "TokenRParen")))]
        [.ite
           (.cmp "eq" (.field (.var "tok") "Kind") (.kind "TokenLBracket"))
           [.assign false [.var "stack"] (.e (.append (.var "stack") (.kind "TokenRBracket")))]
           [.panic]]]
     [.ite
        (.or (.cmp "eq" (.field (.var "tok") "Kind") (.kind "TokenRParen")) (.cmp "eq" (.field (.var "tok") "Kind") (.kind "TokenRBracket")))
        [.ite
           (.cmp "gt" (.len (.var "stack")) (.int 0))
           [.loop "" splitInnerCond splitInner]
           [.ite (.cmp "eq" (.var "search") (.field (.var "tok") "Kind")) [.do_ (.pcall "p" "prev" []), .brk "loop"] []]]
        [.ite
           (.cmp "eq" (.field (.var "tok") "Kind") (.var "search"))
           [.ite (.cmp "eq" (.len (.var "stack")) (.int 0)) [.do_ (.pcall "p" "prev" []), .brk "loop"] []]
           []]]]

/-- the `return` after the main loop -/
def splitRet : Stmt :=
  .ret [.new "parser" ["source", "tokens", "splitKind"] [.field (.var "p") "source", .slice (.field (.var "p") "tokens") (.var "start") (.field (.var "p") "pos"), .var "search"]]

theorem splitIR_loop :
    splitIR =
      [.decl "stack" "[]TokenKind", .assign true [.var "start"] (.e (.field (.var "p") "pos")),
       .loop "loop" (.bool true) splitBody, splitRet] := rfl

theorem splitBody_notLeaves : leaves splitBody = false := by rfl
theorem splitInnerCond_notTrue : isTrue splitInnerCond = false := by rfl

/-- the state of the main loop -/
def splitState (start : List Token) (ms : List TokKind) (p : PState) (k : TokKind) : State :=
  ⟨[("start", .pos start), ("stack", .kinds ms.reverse), ("p", .parser p), ("search", .kind k)]⟩

/-- the pop loop is `popTo` (the Go stack grows at the end, the model's at the head) -/
theorem splitInner_loop (c : ICtx) (t : Token) (start : List Token) (p : PState) (k : TokKind) :
    ∀ (ms : List TokKind) (B : Nat), ms.length < B →
      iter (loopStep c noCalls splitInnerCond splitInner) "" B
          ⟨("ok", .bool true) :: ("tok", .tok t) :: (splitState start ms p k).vars⟩ =
        .ok (.next ⟨("ok", .bool true) :: ("tok", .tok t) :: (splitState start (popTo t.kind ms) p k).vars⟩) := by
  intro ms
  induction ms with
  | nil =>
    intro B h
    obtain ⟨B, rfl⟩ : ∃ B', B = B' + 1 := ⟨B - 1, by omega⟩
    rw [iter]
    ir_simp [loopStep, splitInnerCond, splitState, popTo]
  | cons x xs ih =>
    intro B h
    obtain ⟨B, rfl⟩ : ∃ B', B = B' + 1 := ⟨B - 1, by omega⟩
    have hB : xs.length < B := by simp at h; omega
    rw [iter]
    have h1 : ¬ ((xs.length : Int) < 0) := by omega
    have h2 : ¬ ((xs.length : Int) + 1 < 0) := by omega
    have h3 : ¬ ((xs.length : Int) + 1 < (xs.length : Int)) := by omega
    have h4 : (xs.reverse ++ [x])[xs.length]? = some x := by simp
    have h5 : (xs.reverse ++ [x]).take xs.length = xs.reverse := by simp
    by_cases hx : x = t.kind
    · ir_simp [loopStep, splitInnerCond, splitInner, splitState, popTo, h1, h2, h3, h4, h5, hx]
    · have := ih B hB
      simp only [splitState] at this ⊢
      ir_simp [loopStep, splitInnerCond, splitInner, splitState, popTo, h1, h2, h3, h4, h5, hx]
      simpa [loopStep, splitInnerCond, splitInner] using this

/-- what follows the main loop: the final `return` -/
def afterLoop (c : ICtx) (b0 : Nat) : Flow → Out Flow := fun f =>
  match f with
  | .next st' => exec c noCalls splitRet b0 st'
  | f => .ok f

theorem splitInner_notLeaves : leaves splitInner = false := by rfl

set_option maxHeartbeats 1000000 in
/-- the main loop, the final `return` and the end of the function: the model's `splitAux`.
    `pre` is what the loop has consumed since `start`; the budget covers two units per token left and
    one per open bracket. -/
theorem splitLoop (c : ICtx) (k : TokKind) (sk : Option TokKind) (hs : k ≠ .lparen ∧ k ≠ .lbracket) (b0 : Nat) :
    ∀ (ts : List Token) (b : Nat) (ms : List TokKind) (pre : List Token) (bk : Option (List Token)),
      ms.length + 2 * ts.length + 2 ≤ b →
      (((iter (loopStep c noCalls (.bool true) splitBody) "loop" b
            (splitState (pre ++ ts) ms ⟨ts, bk, sk⟩ k)).bind (afterLoop c b0)).bind
          (finish "p" ["*parser"])).bind asPState =
        .ok ([.parser ⟨pre ++ (splitAux k ms ts).1, none, some k⟩], ⟨(splitAux k ms ts).2, none, sk⟩) := by
  obtain ⟨hs1, hs2⟩ := hs
  have hs1' : ¬ TokKind.lparen = k := fun h => hs1 h.symm
  have hs2' : ¬ TokKind.lbracket = k := fun h => hs2 h.symm
  intro ts
  induction ts with
  | nil =>
    intro b ms pre bk h
    obtain ⟨b, rfl⟩ : ∃ b', b = b' + 1 := ⟨b - 1, by omega⟩
    rw [iter]
    ir_simp [loopStep, splitBody, splitState, nextTokV, splitAux, afterLoop]
  | cons t ts ih =>
    intro b ms pre bk h
    obtain ⟨b, rfl⟩ : ∃ b', b = b' + 1 := ⟨b - 1, by omega⟩
    simp only [List.length_cons] at h
    rw [iter]
    have hpre : pre ++ t :: ts = (pre ++ [t]) ++ ts := by simp
    have hlen : (pre ++ t :: ts).length - (t :: ts).length = pre.length := by simp
    have hlen' : ¬ ((pre ++ t :: ts).length < (t :: ts).length) := by simp
    have htake : (pre ++ t :: ts).take pre.length = pre := by simp
    have hlen2 : ¬ (pre.length + (ts.length + 1) < ts.length + 1) := by omega
    have hsub : pre.length + (ts.length + 1) - (ts.length + 1) = pre.length := by omega
    by_cases h1 : t.kind = .lparen
    · -- `(`: push `)`
      have hk : ¬ k = t.kind := by rw [h1]; exact hs1
      have := ih b (.rparen :: ms) (pre ++ [t]) (some (t :: ts)) (by simp; omega)
      simp only [splitState, List.reverse_cons, ← hpre] at this
      ir_simp [loopStep, splitBody, splitState, nextTokV, splitAux, h1, hk, hs1, hs1']
      unfold splitBody at this
      simpa [List.append_assoc] using this
    · by_cases h2 : t.kind = .lbracket
      · have hk : ¬ k = t.kind := by rw [h2]; exact hs2
        have := ih b (.rbracket :: ms) (pre ++ [t]) (some (t :: ts)) (by simp; omega)
        simp only [splitState, List.reverse_cons, ← hpre] at this
        ir_simp [loopStep, splitBody, splitState, nextTokV, splitAux, h2, hk, hs2, hs2']
        unfold splitBody at this
        simpa [List.append_assoc] using this
      · -- the three remaining shapes share the continuation on an unchanged stack
        have hcont := ih b ms (pre ++ [t]) (some (t :: ts)) (by omega)
        simp only [splitState, ← hpre] at hcont
        unfold splitBody at hcont
        by_cases h3 : t.kind = .rparen ∨ t.kind = .rbracket
        · cases ms with
          | nil =>
            by_cases hk : k = t.kind
            · rcases h3 with h3 | h3 <;>
                ir_simp [loopStep, splitBody, splitState, nextTokV, splitAux, h3, hk, hk.symm, afterLoop, splitRet, hlen,
                  hlen', htake, hlen2, hsub]
            · have hk' : ¬ t.kind = k := fun h => hk h.symm
              rcases h3 with h3 | h3
              · have hk3 : ¬ k = .rparen := by rw [← h3]; exact hk
                ir_simp [loopStep, splitBody, splitState, nextTokV, splitAux, h3, hk, hk', hk3]
                simpa [List.append_assoc] using hcont
              · have hk3 : ¬ k = .rbracket := by rw [← h3]; exact hk
                ir_simp [loopStep, splitBody, splitState, nextTokV, splitAux, h3, hk, hk', hk3]
                simpa [List.append_assoc] using hcont
          | cons x xs =>
            have hin := splitInner_loop c t (pre ++ t :: ts) ⟨ts, some (t :: ts), sk⟩ k (x :: xs) b
              (by simp at h ⊢; omega)
            simp only [splitState, List.reverse_cons] at hin
            have hpos : (0 : Int) < (xs.length : Int) + 1 := by omega
            have hcont2 := ih b (popTo t.kind (x :: xs)) (pre ++ [t]) (some (t :: ts)) (by
              have : (popTo t.kind (x :: xs)).length ≤ (x :: xs).length := by
                generalize (x :: xs) = l
                induction l with
                | nil => simp [popTo]
                | cons y ys ihl => simp only [popTo]; split <;> simp <;> omega
              simp at h this ⊢; omega)
            simp only [splitState, ← hpre] at hcont2
            unfold splitBody at hcont2
            rcases h3 with h3 | h3
            · ir_simp [loopStep, splitBody, splitState, nextTokV, splitAux, h3, hpos, splitInnerCond_notTrue, hin]
              simpa [List.append_assoc, h3] using hcont2
            · ir_simp [loopStep, splitBody, splitState, nextTokV, splitAux, h3, hpos, splitInnerCond_notTrue, hin]
              simpa [List.append_assoc, h3] using hcont2
        · have h3a : ¬ t.kind = .rparen := fun h => h3 (Or.inl h)
          have h3b : ¬ t.kind = .rbracket := fun h => h3 (Or.inr h)
          by_cases hk : t.kind = k
          · subst hk
            cases ms with
            | nil =>
              ir_simp [loopStep, splitBody, splitState, nextTokV, splitAux, h1, h2, h3a, h3b, afterLoop, splitRet,
                hlen, hlen', htake, hlen2, hsub]
            | cons x xs =>
              have hne : ¬ ((xs.length : Int) + 1 = 0) := by omega
              ir_simp [loopStep, splitBody, splitState, nextTokV, splitAux, h1, h2, h3a, h3b, hne]
              simpa [List.append_assoc] using hcont
          · ir_simp [loopStep, splitBody, splitState, nextTokV, splitAux, h1, h2, h3a, h3b, hk]
            simpa [List.append_assoc] using hcont

/-- the main loop and the final `return` as a block -/
theorem split_tail_block (c : ICtx) (b : Nat) (st : State) :
    execBlock c noCalls [.loop "loop" (.bool true) splitBody, splitRet] b st =
      (iter (loopStep c noCalls (.bool true) splitBody) "loop" b st).bind (afterLoop c b) := by
  rw [execBlock_cons2, exec_loop]
  simp only [isTrue_true, splitBody_notLeaves, Bool.and_false, Bool.false_eq_true, if_false]
  congr 1
  funext f
  cases f <;> simp [afterLoop, execBlock_last]

attribute [local simp 2000] split_tail_block

/-- **`split`, translated.**  For every search kind other than an opening bracket: the sub-parser gets the
    model's bracket-balanced prefix (and remembers the search kind), the receiver keeps the rest. -/
theorem split_ir (c : ICtx) (p : PState) (k : TokKind) (hs : k ≠ .lparen ∧ k ≠ .lbracket) :
    runSplit c p k =
      .ok ([.parser ⟨(split k p.rest).1, none, some k⟩], { p with rest := (split k p.rest).2, back := none }) := by
  obtain ⟨ts, back, sk⟩ := p
  have hl := splitLoop c k sk hs (2 * ts.length + 2) ts (2 * ts.length + 2) [] [] none (by simp)
  simp only [splitState, List.nil_append, List.reverse_nil] at hl
  unfold runSplit
  ir_simp [splitIR_ir, splitIR_loop, params_split, results_split, split]
  exact hl

/-- the hypothesis is needed: asked to stop at `(`, the Go code stops at the first `(`, while the model's
    `split` (which the parser never asks that) opens a bracket group -/
theorem split_ir_needs_search (c : ICtx) :
    let lp : Token := ⟨.lparen, 0, 1, []⟩
    runSplit c ⟨[lp], none, none⟩ .lparen = .ok ([.parser ⟨[], none, some .lparen⟩], ⟨[lp], none, none⟩) ∧
    split .lparen [lp] = ([lp], []) := by
  refine ⟨?_, by decide⟩
  unfold runSplit
  ir_simp [splitIR_ir, splitIR_loop, params_split, results_split]
  rw [iter]
  ir_simp [afterLoop, splitRet, loopStep, splitBody, nextTokV]

end Pql.ExprParseIR
