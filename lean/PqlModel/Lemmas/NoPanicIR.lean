/-
Property C12, "the interpretation of the translated code never panics": the layers of `Compile`.

NEW SPEC-LEVEL DEFINITIONS
`SafeW r`, `SafeS r` : an outcome of the writer-layer / split-layer interpreters that is a normal return —
a value or a Go ERROR — i.e. neither a Go panic (`.error (.go .panic)`) nor `stuck` (`.error .stuck`).

`ExprIR.interpCompile` is the interpretation of the regenerated front part of `Compile` (unit
`Compile:pre`) followed by the regenerated statement assembly (unit `Compile` of `Facts.writeIR`).  Three
callees enter it as MODEL functions (`Sem` parameters): `parser.Parse` (`ExprIR.parseModel`),
`splitQueries` (`ExprIR.splitModel`) and, inside the assembly, `(*subquery).write`
(`WriteIR.modelSem.subWrite`) with its `writeExpression` (`WriteIR.modelSem.writeExpression`).  The
expression writers the front part calls (`writeExpressionTight` in let mode, and below it
`writeExpression`, `…MaybeParen`, `hasJoinTerms`, the `write*Function`s) ARE interpreted from their own
regenerated bodies.  For every model callee the theorems here give the separate statement about the
callee's own regenerated IR, on the trees of an error-free parse:

  `interpCompile_safe`      every map order, every options value, every source: `SafeW`
  `split_ir_safe`           `splitQueries` / `chainSubquery` IR on the parsed query: `SafeS`, and its result
                            read through the heap is what `splitModel` returns
  `write_ir_safe`           `(*subquery).write` IR on every subquery of the parsed query: `SafeW`, = model
  `assembly_ir_safe`        the assembly IR on those subqueries: `SafeW`, = model
  `join_condition_ir`       every join of the parsed program: `buildJoinCondition` IR returns the model's
                            condition, `writeExpression` IR in join mode on it = the `writeExpr` primitive of
                            the split interpreter
-/
import PqlModel.Lemmas.NoPanicCompile
import PqlModel.Lemmas.NoPanicWalk
import PqlModel.Props.C03JoinCondIR
namespace Pql.NoPanic
open Pql Pql.Exact
set_option linter.unusedSimpArgs false

/-! ### normal returns -/

/-- a normal return of the writer-layer interpreters (`WriteIR`, `ExprIR`): a value or a Go error -/
def SafeW {α : Type} (r : WriteIR.M α) : Prop := (∃ a, r = .ok a) ∨ r = .error (.go .err)

/-- a normal return of the `splitQueries` interpreter -/
def SafeS {α : Type} (r : SplitIR.IM α) : Prop := (∃ a, r = .ok a) ∨ r = .error (.go .err)

theorem SafeW.ne_panic {α : Type} {r : WriteIR.M α} (h : SafeW r) : r ≠ .error (.go .panic) := by
  rcases h with ⟨a, rfl⟩ | rfl <;> simp
theorem SafeW.ne_stuck {α : Type} {r : WriteIR.M α} (h : SafeW r) : r ≠ .error .stuck := by
  rcases h with ⟨a, rfl⟩ | rfl <;> simp
theorem SafeS.ne_panic {α : Type} {r : SplitIR.IM α} (h : SafeS r) : r ≠ .error (.go .panic) := by
  rcases h with ⟨a, rfl⟩ | rfl <;> simp
theorem SafeS.ne_stuck {α : Type} {r : SplitIR.IM α} (h : SafeS r) : r ≠ .error .stuck := by
  rcases h with ⟨a, rfl⟩ | rfl <;> simp

theorem safeW_iff {α : Type} (r : WriteIR.M α) : SafeW r ↔ r ≠ .error (.go .panic) ∧ r ≠ .error .stuck := by
  constructor
  · exact fun h => ⟨h.ne_panic, h.ne_stuck⟩
  · intro ⟨h1, h2⟩
    cases r with
    | ok a => exact .inl ⟨a, rfl⟩
    | error e =>
      cases e with
      | stuck => exact absurd rfl h2
      | go e => cases e with
        | err => exact .inr rfl
        | panic => exact absurd rfl h1

theorem SafeW.liftW {α : Type} {x : Except WErr α} (h : x ≠ .error .panic) : SafeW (WriteIR.liftW x) := by
  cases x with
  | ok a => exact .inl ⟨a, rfl⟩
  | error e => cases e with
    | err => exact .inr rfl
    | panic => exact absurd rfl h

theorem SafeS.liftW {α : Type} {x : Except WErr α} (h : x ≠ .error .panic) : SafeS (SplitIR.liftW x) := by
  cases x with
  | ok a => exact .inl ⟨a, rfl⟩
  | error e => cases e with
    | err => exact .inr rfl
    | panic => exact absurd rfl h

/-! ### `splitQueries` -/

/-- **`splitQueries` / `chainSubquery`, regenerated IR, on a parsed query.**  `hm`: `t` is a statement of
    a program parsed without error.  The interpretation on the empty heap (the call in `Compile`) returns
    normally — a heap and a slice, or a Go error — and, read through the final heap, is exactly what the
    model `splitQueries` (the `Sem` parameter `ExprIR.splitModel` of `interpCompile`) returns. -/
theorem split_ir_safe (src : Bytes) (stmts : List Stmt) (hp : parse src = (stmts, []))
    (t : Tabular) (hm : Stmt.tabular t ∈ stmts) (scope : List (Bytes × List Chunk)) :
    SafeS (SplitIR.interpSplit src scope #[] [] t) ∧
    (SplitIR.interpSplit src scope #[] [] t).map (fun r => SplitImp.abs r.1 r.2) =
      SplitIR.liftW (splitQueries src scope [] t) ∧
    ExprIR.splitModel src scope t = WriteIR.liftW (splitQueries src scope [] t) ∧
    splitQueries src scope [] t ≠ .error .panic := by
  obtain ⟨hw, hs, hsk, _⟩ := parsed_query src stmts hp t hm
  have hnp := (split_noPanic src scope t hw hs).1
  have href := SplitImp.C02_splitQueries_refines src scope t #[] [] rfl hsk
  refine ⟨?_, SplitIR.C02_split_ir_refines_model_top src scope t hsk, rfl, hnp⟩
  rw [SplitIR.C02_split_ir]
  refine SafeS.liftW ?_
  intro hI
  rw [hI] at href
  exact hnp href.symm

/-! ### `(*subquery).write` and the assembly -/

/-- **`(*subquery).write`, regenerated IR, on every subquery of a parsed program**: equal to the model
    function (which is the callee `interpAssembly` is given), and a normal return. -/
theorem write_ir_safe (src : Bytes) (stmts : List Stmt) (hp : parse src = (stmts, []))
    (scope0 scope : List (Bytes × List Chunk)) (t : Tabular)
    (hc : compileStmts src stmts scope0 none = .ok (scope, some t))
    (subs : List Subquery) (hsq : splitQueries src scope [] t = .ok subs) :
    ∀ sub ∈ subs,
      WriteIR.interpWrite WriteIR.modelSem ⟨src, scope, .default⟩ sub =
        WriteIR.liftW (sub.write ⟨src, scope, .default⟩) ∧
      SafeW (WriteIR.interpWrite WriteIR.modelSem ⟨src, scope, .default⟩ sub) := by
  intro sub hsub
  obtain ⟨hw, hs, _, _⟩ := parsed_query src stmts hp t (query_mem src stmts scope0 scope t hc)
  have hok := ((split_noPanic src scope t hw hs).2 subs hsq).1 sub hsub
  have he := WriteInv.C05_parsed_write_ir src stmts hp scope0 scope t hc subs hsq ⟨src, scope, .default⟩ sub hsub
  exact ⟨he, by rw [he]; exact SafeW.liftW (write_noPanic src scope sub hok)⟩

/-- **the statement assembly of `Compile`, regenerated IR, on the subqueries of a parsed program** -/
theorem assembly_ir_safe (src : Bytes) (stmts : List Stmt) (hp : parse src = (stmts, []))
    (scope0 scope : List (Bytes × List Chunk)) (t : Tabular)
    (hc : compileStmts src stmts scope0 none = .ok (scope, some t))
    (subs : List Subquery) (hsq : splitQueries src scope [] t = .ok subs) :
    WriteIR.interpAssembly WriteIR.modelSem src scope subs =
        WriteIR.liftW (WriteIR.assemble ⟨src, scope, .default⟩ subs) ∧
    SafeW (WriteIR.interpAssembly WriteIR.modelSem src scope subs) := by
  obtain ⟨hw, hs, _, _⟩ := parsed_query src stmts hp t (query_mem src stmts scope0 scope t hc)
  have he := WriteIR.C05_assembly_ir src scope subs
  exact ⟨he, by rw [he]; exact SafeW.liftW (assemble_noPanic src scope t hw hs subs hsq)⟩

/-! ### the join condition -/

/-- the conditions of a join operator anywhere in a parsed statement are `Good` -/
theorem parsed_join_conds_good (src : Bytes) (stmts : List Stmt) (hp : parse src = (stmts, []))
    (s : Stmt) (hs : s ∈ stmts) (p k kind ka : Span) (fl : Option Ident) (lp : Span) (right : Tabular)
    (rp on : Span) (conds : ExprList)
    (hj : Node.op (.join p k kind ka fl lp right rp on conds) ∈ allNodes (Node.ofStmt s)) : conds.Good := by
  have hc : Complete (Node.ofStmt s) := C11.C11_parsed_complete _ _ stmts hp s hs
  have hjn : NoPanic (Node.op (.join p k kind ka fl lp right rp on conds)) :=
    Glue.noPanic_allNodes hc.noPanic _ hj
  obtain ⟨kids, hkc, hkk⟩ := hjn.children
  simp only [Node.children, Option.some.injEq] at hkc
  subst hkc
  exact goodList_of_noPanic conds fun k hk => hkk k (List.mem_cons_of_mem _ hk)

/-- **the join case of `splitQueries` below the split interpreter.**  For every join operator anywhere in
    a parsed program and every scope: the regenerated `buildJoinCondition` (with
    `rewriteSimpleJoinCondition` interpreted) returns the model's condition, and the interpretation of
    `writeExpression` in join mode on it — `hasJoinTerms` and everything else interpreted — is the
    `writeExpr` the split interpreter uses as a primitive. -/
theorem join_condition_ir (src : Bytes) (stmts : List Stmt) (hp : parse src = (stmts, []))
    (s : Stmt) (hs : s ∈ stmts) (p k kind ka : Span) (fl : Option Ident) (lp : Span) (right : Tabular)
    (rp on : Span) (conds : ExprList)
    (hj : Node.op (.join p k kind ka fl lp right rp on conds) ∈ allNodes (Node.ofStmt s))
    (sc : List (Bytes × List Chunk)) :
    JoinCondIR.interpBuild conds = .ok (buildJoinCondition conds) ∧
    ExprIR.interpWriteExpression ⟨src, sc, .join⟩ (buildJoinCondition conds) =
      WriteIR.liftW (writeExpr ⟨src, sc, .join⟩ (buildJoinCondition conds)) :=
  ⟨JoinCondIR.C03_buildJoinCondition_ir conds,
   ExprIR.C01_writeExpression_ir _ _ fun _ =>
     good_buildJoinCondition conds (parsed_join_conds_good src stmts hp s hs p k kind ka fl lp right rp on conds hj)⟩

/-! ### `Compile`, front to back -/

/-- **`Compile` returns normally**: for every order `ord` in which Go may visit the parameter map (any
    function at all), every options value and every source, the interpretation of the regenerated
    `Compile` is a value or a Go error — never a Go panic, never stuck. -/
theorem interpCompile_safe (ord : List (Bytes × Bytes) → List (Bytes × Bytes))
    (opts : Option (List (Bytes × Bytes))) (src : Bytes) : SafeW (ExprIR.interpCompile ord opts src) := by
  unfold ExprIR.interpCompile
  cases hpe : (parse src).2.isEmpty with
  | false =>
    have hpre : ExprIR.interpCompilePre (ExprIR.theSem ord) opts src = .error (.go .err) := by
      rw [ExprIR.interpCompilePre_eq]
      xe_simp [ExprIR.compilePreIR, ExprIR.theSem, ExprIR.compileSem, ExprIR.parseModel, ExprIR.noSem, hpe]
    rw [hpre]
    exact .inr rfl
  | true =>
    have he : (parse src).2 = [] := List.isEmpty_iff.1 hpe
    have hp : parse src = ((parse src).1, []) := by rw [← he]
    rw [ExprIR.C06_compilePre_ir ord opts src (ExprIR.parsed_no_nil_tab src hpe)]
    simp only [hpe, if_true]
    have hst := stmts_noPanic src (parse src).1 hp (ExprIR.scope0 ord opts)
    cases hc : compileStmts src (parse src).1 (ExprIR.scope0 ord opts) none with
    | error e =>
      cases e with
      | err => exact .inr rfl
      | panic => exact absurd hc hst
    | ok sq =>
      obtain ⟨sc, q⟩ := sq
      cases q with
      | none => exact .inr rfl
      | some t =>
        have hm := query_mem src (parse src).1 (ExprIR.scope0 ord opts) sc t hc
        obtain ⟨hw, hs, _, _⟩ := parsed_query src (parse src).1 hp t hm
        have hsp := split_noPanic src sc t hw hs
        cases hsq : splitQueries src sc [] t with
        | error e =>
          cases e with
          | err =>
            simp only [hsq, WriteIR.liftW, Except.map, bind, Except.bind]
            exact .inr rfl
          | panic => exact absurd hsq hsp.1
        | ok subs =>
          have ha := assembly_ir_safe src (parse src).1 hp (ExprIR.scope0 ord opts) sc t hc subs hsq
          simp only [hsq, WriteIR.liftW, Except.map, bind, Except.bind]
          rcases ha.2 with ⟨cs, hcs⟩ | herr
          · rw [hcs]
            exact .inl ⟨_, rfl⟩
          · rw [herr]
            exact .inr rfl

end Pql.NoPanic
