/-
Placeholders, part 2: the expression level of the commutation, step `k → k + 1` for each of the seven
functions, and the invariant for all `k`.
-/
import PqlModel.Lemmas.E2EMoreInst
namespace Pql.E2EMore
set_option linter.unusedSimpArgs false
open Pql Sql

variable (ρ : Bytes → PVal)

theorem instS_simps :
    (∀ x, instS ρ (.not_ x) = .not_ (instS ρ x)) ∧ (∀ x, instS ρ (.neg x) = .neg (instS ρ x)) ∧
    (∀ x, instS ρ (.pos x) = .pos (instS ρ x)) ∧ (∀ x n, instS ρ (.isNull x n) = .isNull (instS ρ x) n) ∧
    (∀ x vs, instS ρ (.inList x vs) = .inList (instS ρ x) (instL ρ vs)) ∧
    (∀ op x y, instS ρ (.bin op x y) = .bin op (instS ρ x) (instS ρ y)) ∧
    (∀ x i, instS ρ (.index x i) = .index (instS ρ x) (instS ρ i)) := by
  refine ⟨?_, ?_, ?_, ?_, ?_, ?_, ?_⟩ <;> intros <;> simp only [instS]

theorem instTok_qid (n : Bytes) : instTok ρ (.qid n) = .qid n := rfl
theorem instTok_param (p : Bytes) : instTok ρ (.param p) = (ρ p).tok := rfl

theorem expr_c {k : Nat} (ih : CInv ρ k) (m : Nat) (ts : List STok) :
    pExprS (k + 1) m (ts.map (instTok ρ)) = (pExprS (k + 1) m ts).map (instR ρ) := by
  cases ts with
  | nil => simp [pExprS]
  | cons t rest =>
    simp only [List.map_cons, pExprS, isWord_inst]
    split
    · rw [ih.expr]
      cases pExprS k 3 rest with
      | none => rfl
      | some xr => simp only [Option.map_some, instR, ← ih.trail, instS]
    · rw [← List.map_cons, ih.unary]
      cases pUnaryS k (t :: rest) with
      | none => rfl
      | some xr => simp only [Option.map_some, instR, ← ih.trail]

theorem unary_c {k : Nat} (ih : CInv ρ k) (ts : List STok) :
    pUnaryS (k + 1) (ts.map (instTok ρ)) = (pUnaryS (k + 1) ts).map (instR ρ) := by
  cases ts with
  | nil => simp [pUnaryS]
  | cons t rest =>
    simp only [List.map_cons, pUnaryS, isSym_inst]
    split
    · rw [ih.unary]; cases pUnaryS k rest <;> simp [instR, instS]
    · split
      · rw [ih.unary]; cases pUnaryS k rest <;> simp [instR, instS]
      · rw [← List.map_cons, ih.atom]
        cases pAtomS k (t :: rest) with
        | none => rfl
        | some xr => simp only [Option.map_some, instR, ← ih.post]

theorem post_c {k : Nat} (ih : CInv ρ k) (x : SExpr) (ts : List STok) :
    pPostfixS (k + 1) (instS ρ x) (ts.map (instTok ρ)) = (pPostfixS (k + 1) x ts).map (instR ρ) := by
  cases ts with
  | nil => simp [pPostfixS]
  | cons t rest =>
    simp only [List.map_cons, pPostfixS, isSym_inst]
    split
    · rw [ih.expr]
      cases pExprS k 0 rest with
      | none => rfl
      | some ir =>
        obtain ⟨i, r⟩ := ir
        cases r with
        | nil => rfl
        | cons rb r2 =>
          simp only [Option.map_some, instR, List.map_cons, isSym_inst]
          split
          · rw [← ih.post]; simp only [instS]
          · rfl
    · simp [instR]

theorem col_c {k : Nat} (ih : CInv ρ k) (ps : List Bytes) (ts : List STok) :
    pColTail (k + 1) ps (ts.map (instTok ρ)) = (pColTail (k + 1) ps ts).map (instR ρ) := by
  rcases ts with _ | ⟨dot, _ | ⟨q, rest⟩⟩
  · simp [pColTail, instS]
  · simp [pColTail, instS]
  · cases q with
    | qid n =>
      simp only [List.map_cons, instTok_qid, pColTail, isSym_inst]
      split
      · rw [ih.col]
      · simp [instS, instTok_qid]
    | param p =>
      cases hρ : ρ p <;>
        simp [pColTail, instS, instTok_param, hρ, PVal.tok]
    | _ => simp [pColTail, instS, instTok]

theorem list_c {k : Nat} (ih : CInv ρ k) (ts : List STok) :
    pListS (k + 1) (ts.map (instTok ρ)) = (pListS (k + 1) ts).map (instRL ρ) := by
  simp only [pListS, ih.expr]
  cases pExprS k 0 ts with
  | none => rfl
  | some xr =>
    obtain ⟨x, r⟩ := xr
    cases r with
    | nil => simp [instR, instL]
    | cons cm r2 =>
      simp only [Option.map_some, instR, List.map_cons, isSym_inst]
      split
      · rw [ih.list]; cases pListS k r2 <;> simp [instRL, instL]
      · simp [instL]

theorem trail_c {k : Nat} (ih : CInv ρ k) (m : Nat) (x : SExpr) (ts : List STok) :
    pTrailS (k + 1) m (instS ρ x) (ts.map (instTok ρ)) = (pTrailS (k + 1) m x ts).map (instR ρ) := by
  cases ts with
  | nil => simp [pTrailS]
  | cons t rest =>
    simp only [List.map_cons, pTrailS, isWord_inst, infixPrec_inst]
    split
    · -- IS
      rcases rest with _ | ⟨t1, r1⟩
      · rfl
      · simp only [List.map_cons, isWord_inst]
        split
        · rw [← ih.trail]; simp only [instS]
        · split
          · rcases r1 with _ | ⟨t2, r2⟩
            · rfl
            · simp only [List.map_cons, isWord_inst]
              split
              · rw [← ih.trail]; simp only [instS]
              · rfl
          · rfl
    · split
      · -- IN
        rcases rest with _ | ⟨lp, r1⟩
        · rfl
        · simp only [List.map_cons, isSym_inst]
          split
          · rw [ih.list]
            cases pListS k r1 with
            | none => rfl
            | some vr =>
              obtain ⟨vs, r2⟩ := vr
              cases r2 with
              | nil => rfl
              | cons rp r3 =>
                simp only [Option.map_some, instRL, List.map_cons, isSym_inst]
                split
                · rw [← ih.trail]; simp only [instS]
                · rfl
          · rfl
      · cases infixPrec t with
        | none => simp [instR]
        | some op =>
          obtain ⟨op, p⟩ := op
          simp only
          split
          · simp [instR]
          · rw [ih.expr]
            cases pExprS k (p + 1) rest with
            | none => rfl
            | some yr => simp only [Option.map_some, instR, ← ih.trail, instS]

end Pql.E2EMore
