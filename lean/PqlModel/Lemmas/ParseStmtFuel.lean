/-
C05, syntactic half — a fuel bound for the reference SQL expression parser: whenever `pExprS`
returns at some fuel, it returns the same at every fuel `≥ 3 * (number of tokens) + 2`; in
particular at `fuelOf ts = 4 * ts.length + 16`, the fuel the statement parser `pSelect` uses.
Every successful call consumes at least one token (trail / postfix / column tail: at least none).
-/
import PqlModel.Lemmas.SqlRoundtripFuel
namespace Pql.C05
set_option linter.unusedSimpArgs false
set_option linter.unusedVariables false
open Pql Sql Pql.RT

/-- results at fuel `k`: the rest is shorter than the input, and the same result is returned at
    every fuel above a bound linear in the length of the input -/
structure Bnd (k : Nat) : Prop where
  exprL : ∀ m ts s r, pExprS k m ts = some (s, r) → r.length < ts.length
  expr : ∀ m ts s r, pExprS k m ts = some (s, r) → ∀ K, 3 * ts.length + 2 ≤ K → pExprS K m ts = some (s, r)
  trailL : ∀ m x ts s r, pTrailS k m x ts = some (s, r) → r.length ≤ ts.length
  trail : ∀ m x ts s r, pTrailS k m x ts = some (s, r) → ∀ K, 3 * ts.length + 1 ≤ K → pTrailS K m x ts = some (s, r)
  unaryL : ∀ ts s r, pUnaryS k ts = some (s, r) → r.length < ts.length
  unary : ∀ ts s r, pUnaryS k ts = some (s, r) → ∀ K, 3 * ts.length + 1 ≤ K → pUnaryS K ts = some (s, r)
  postL : ∀ x ts s r, pPostfixS k x ts = some (s, r) → r.length ≤ ts.length
  post : ∀ x ts s r, pPostfixS k x ts = some (s, r) → ∀ K, 3 * ts.length + 1 ≤ K → pPostfixS K x ts = some (s, r)
  atomL : ∀ ts s r, pAtomS k ts = some (s, r) → r.length < ts.length
  atom : ∀ ts s r, pAtomS k ts = some (s, r) → ∀ K, 3 * ts.length ≤ K → pAtomS K ts = some (s, r)
  colL : ∀ ps ts s r, pColTail k ps ts = some (s, r) → r.length ≤ ts.length
  col : ∀ ps ts s r, pColTail k ps ts = some (s, r) → ∀ K, 3 * ts.length + 1 ≤ K → pColTail K ps ts = some (s, r)
  listL : ∀ ts s r, pListS k ts = some (s, r) → r.length < ts.length
  list : ∀ ts s r, pListS k ts = some (s, r) → ∀ K, 3 * ts.length + 3 ≤ K → pListS K ts = some (s, r)

theorem Bnd.zero : Bnd 0 := by
  constructor <;> intros <;> simp_all [pExprS, pTrailS, pUnaryS, pPostfixS, pAtomS, pColTail, pListS]

open Lean Elab Tactic Meta in
/-- `lift_bnd ih`: for every hypothesis `pX k … = some (s, r)` add the two facts of `ih : Bnd k` -/
elab "lift_bnd " ih:ident : tactic => withMainContext do
  let ihE ← elabTerm ih none
  let table : List (Name × Name × Name) :=
    [(``pExprS, ``Bnd.exprL, ``Bnd.expr), (``pTrailS, ``Bnd.trailL, ``Bnd.trail),
     (``pUnaryS, ``Bnd.unaryL, ``Bnd.unary), (``pPostfixS, ``Bnd.postL, ``Bnd.post),
     (``pAtomS, ``Bnd.atomL, ``Bnd.atom), (``pColTail, ``Bnd.colL, ``Bnd.col), (``pListS, ``Bnd.listL, ``Bnd.list)]
  let lctx ← getLCtx
  let mut g ← getMainGoal
  for d in lctx do
    if d.isImplementationDetail then continue
    let ty ← instantiateMVars d.type
    let some (_, lhs, _) := ty.eq? | continue
    let some fn := lhs.getAppFn.constName? | continue
    let some (_, l1, l2) := table.find? (·.1 == fn) | continue
    for lemmaName in [l1, l2] do
      try
        let proj ← mkAppM lemmaName #[ihE]
        let pty ← inferType proj
        -- instantiate the arguments up to and including the hypothesis
        let nargs := (← forallTelescopeReducing pty fun xs _ => pure xs.size)
        let nargs := if lemmaName == l2 then nargs - 2 else nargs
        let (args, _, concl) ← forallMetaBoundedTelescope pty nargs
        let hArg := args.back!
        if ← isDefEq (← inferType hArg) ty then
          hArg.mvarId!.assign d.toExpr
          let pf ← instantiateMVars (mkAppN proj args)
          let cty ← instantiateMVars concl
          let g' ← g.assert `hlift cty pf
          let (_, g'') ← g'.intro1
          g := g''
      catch _ => pure ()
  replaceMainGoal [g]

/-- close a step goal: the length fact by arithmetic, the lifting by unfolding at fuel `K' + 1` -/
macro "bnd_close " fn:ident : tactic => `(tactic|
  (simp only [List.length_cons, List.length_nil] at *
   refine ⟨by omega, fun K hK => ?_⟩
   obtain ⟨K', rfl⟩ : ∃ K', K = K' + 1 := ⟨K - 1, by omega⟩
   simp (disch := omega) only [$fn:ident, *, if_true, if_false, reduceCtorEq, Option.map_some, Bool.and_false,
     Bool.and_true, Bool.false_eq_true, Bool.not_true, Bool.not_false]))

theorem expr_bstep {k : Nat} (ih : Bnd k) (m : Nat) (ts : List STok) (s : SExpr) (r : List STok)
    (h : pExprS (k + 1) m ts = some (s, r)) :
    r.length < ts.length ∧ ∀ K, 3 * ts.length + 2 ≤ K → pExprS K m ts = some (s, r) := by
  simp only [pExprS] at h
  repeat' split at h
  all_goals first
    | (cases h; done)
    | (lift_bnd ih; bnd_close pExprS; done)

theorem trail_bstep {k : Nat} (ih : Bnd k) (m : Nat) (x : SExpr) (ts : List STok) (s : SExpr) (r : List STok)
    (h : pTrailS (k + 1) m x ts = some (s, r)) :
    r.length ≤ ts.length ∧ ∀ K, 3 * ts.length + 1 ≤ K → pTrailS K m x ts = some (s, r) := by
  simp only [pTrailS] at h
  repeat' split at h
  all_goals first
    | (cases h; done)
    | (lift_bnd ih; bnd_close pTrailS; done)
    | (cases h; bnd_close pTrailS; done)

theorem unary_bstep {k : Nat} (ih : Bnd k) (ts : List STok) (s : SExpr) (r : List STok)
    (h : pUnaryS (k + 1) ts = some (s, r)) :
    r.length < ts.length ∧ ∀ K, 3 * ts.length + 1 ≤ K → pUnaryS K ts = some (s, r) := by
  simp only [pUnaryS] at h
  repeat' split at h
  all_goals first
    | (cases h; done)
    | (lift_bnd ih; bnd_close pUnaryS; done)
    | (simp only [Option.map_eq_some_iff] at h
       obtain ⟨⟨a, b⟩, ha, heq⟩ := h
       cases heq
       lift_bnd ih; bnd_close pUnaryS; done)

theorem post_bstep {k : Nat} (ih : Bnd k) (x : SExpr) (ts : List STok) (s : SExpr) (r : List STok)
    (h : pPostfixS (k + 1) x ts = some (s, r)) :
    r.length ≤ ts.length ∧ ∀ K, 3 * ts.length + 1 ≤ K → pPostfixS K x ts = some (s, r) := by
  simp only [pPostfixS] at h
  repeat' split at h
  all_goals first
    | (cases h; done)
    | (lift_bnd ih; bnd_close pPostfixS; done)
    | (cases h; bnd_close pPostfixS; done)

theorem col_bstep {k : Nat} (ih : Bnd k) (ps : List Bytes) (ts : List STok) (s : SExpr) (r : List STok)
    (h : pColTail (k + 1) ps ts = some (s, r)) :
    r.length ≤ ts.length ∧ ∀ K, 3 * ts.length + 1 ≤ K → pColTail K ps ts = some (s, r) := by
  simp only [pColTail] at h
  repeat' split at h
  · lift_bnd ih; bnd_close pColTail
  · cases h; bnd_close pColTail
  · cases h
    refine ⟨Nat.le_refl _, fun K hK => ?_⟩
    obtain ⟨K', rfl⟩ : ∃ K', K = K' + 1 := ⟨K - 1, by omega⟩
    simp only [pColTail]

theorem list_bstep {k : Nat} (ih : Bnd k) (ts : List STok) (s : SExprList) (r : List STok)
    (h : pListS (k + 1) ts = some (s, r)) :
    r.length < ts.length ∧ ∀ K, 3 * ts.length + 3 ≤ K → pListS K ts = some (s, r) := by
  simp only [pListS] at h
  repeat' split at h
  all_goals first
    | (cases h; done)
    | (cases h; lift_bnd ih; bnd_close pListS; done)
    | (simp only [Option.map_eq_some_iff] at h
       obtain ⟨⟨a, b⟩, ha, heq⟩ := h
       cases heq
       lift_bnd ih; bnd_close pListS; done)

theorem atom_bstep {k : Nat} (ih : Bnd k) (ts : List STok) (s : SExpr) (r : List STok)
    (h : pAtomS (k + 1) ts = some (s, r)) :
    r.length < ts.length ∧ ∀ K, 3 * ts.length ≤ K → pAtomS K ts = some (s, r) := by
  simp only [pAtomS] at h
  repeat' split_hyp
  all_goals try (first
    | contradiction
    | (cases h; done)
    | (lift_bnd ih; bnd_close pAtomS; done)
    | (cases h; lift_bnd ih; bnd_close pAtomS; done)
    | (cases h; injections; subst_vars; lift_bnd ih; bnd_close pAtomS; done)
    | (injections; done))
  cases h
  refine ⟨by simp, fun K hK => ?_⟩
  obtain ⟨K', rfl⟩ : ∃ K', K = K' + 1 := ⟨K - 1, by simp at hK; omega⟩
  rename_i hc
  simp only [Bool.not_false, Bool.and_true] at hc
  simp only [pAtomS, hc, Bool.not_false, Bool.and_true, if_true]

theorem Bnd.succ {k : Nat} (ih : Bnd k) : Bnd (k + 1) where
  exprL := fun m ts s r h => (expr_bstep ih m ts s r h).1
  expr := fun m ts s r h => (expr_bstep ih m ts s r h).2
  trailL := fun m x ts s r h => (trail_bstep ih m x ts s r h).1
  trail := fun m x ts s r h => (trail_bstep ih m x ts s r h).2
  unaryL := fun ts s r h => (unary_bstep ih ts s r h).1
  unary := fun ts s r h => (unary_bstep ih ts s r h).2
  postL := fun x ts s r h => (post_bstep ih x ts s r h).1
  post := fun x ts s r h => (post_bstep ih x ts s r h).2
  atomL := fun ts s r h => (atom_bstep ih ts s r h).1
  atom := fun ts s r h => (atom_bstep ih ts s r h).2
  colL := fun ps ts s r h => (col_bstep ih ps ts s r h).1
  col := fun ps ts s r h => (col_bstep ih ps ts s r h).2
  listL := fun ts s r h => (list_bstep ih ts s r h).1
  list := fun ts s r h => (list_bstep ih ts s r h).2

theorem bnd_all : ∀ k : Nat, Bnd k
  | 0 => Bnd.zero
  | k + 1 => (bnd_all k).succ

/-- **fuel bound**: a result of the expression parser at any fuel is its result at every fuel
    `≥ 3 * (number of tokens) + 2` -/
theorem pExprS_bound {k m : Nat} {ts : List STok} {s : SExpr} {r : List STok} (h : pExprS k m ts = some (s, r))
    {K : Nat} (hK : 3 * ts.length + 2 ≤ K) : pExprS K m ts = some (s, r) :=
  (bnd_all k).expr m ts s r h K hK

/-- a successful expression parse consumes at least one token -/
theorem pExprS_consumes {k m : Nat} {ts : List STok} {s : SExpr} {r : List STok} (h : pExprS k m ts = some (s, r)) :
    r.length < ts.length := (bnd_all k).exprL m ts s r h

/-- the fuel `pSelect` gives the expression parser always suffices -/
theorem pExprS_fuelOf {k m : Nat} {ts : List STok} {s : SExpr} {r : List STok} (h : pExprS k m ts = some (s, r)) :
    pExprS (fuelOf ts) m ts = some (s, r) := pExprS_bound h (by unfold fuelOf; omega)

end Pql.C05
