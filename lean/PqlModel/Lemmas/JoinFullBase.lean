/-
C03 / C02, the general statement theorem, helper 1: rectangular tables (`Rect`), engine facts
(`sortByKeys` keeps members and only looks at the keys of members), and `Rel.interpOp` /
`joinTables` preserve `Rect`.
-/
import PqlModel.Props.C03ChainTake
import PqlModel.Props.C02Statement
namespace Pql.JoinFull
open Pql Sql CompileOracle Intended SplitQ

/-- every row has one value per column -/
def Rect (t : Table) : Prop := ∀ r ∈ t.rows, r.length = t.cols.length

/-- every table of the database is rectangular -/
def RectDB (db : DB) : Prop := ∀ x ∈ db, Rect x.2

def RectCtes (E : List (Bytes × Table)) : Prop := ∀ x ∈ E, Rect x.2

instance (t : Table) : Decidable (Rect t) :=
  inferInstanceAs (Decidable (∀ r ∈ t.rows, r.length = t.cols.length))
instance (db : DB) : Decidable (RectDB db) := inferInstanceAs (Decidable (∀ x ∈ db, Rect x.2))

theorem Rect_empty : Rect ⟨[], []⟩ := by intro r hr; cases hr

theorem Rect_lookup (db : DB) (E : List (Bytes × Table)) (n : Bytes) (hdb : RectDB db) (hE : RectCtes E) :
    Rect (lookupTable db E n) := by
  unfold lookupTable
  split
  · rename_i t ht; exact hE t (List.mem_of_find?_eq_some ht)
  · split
    · rename_i t ht; exact hdb t (List.mem_of_find?_eq_some ht)
    · exact Rect_empty

theorem RectCtes_snoc {E : List (Bytes × Table)} (hE : RectCtes E) (n : Bytes) (t : Table) (ht : Rect t) :
    RectCtes (E ++ [(n, t)]) := by
  intro x hx
  rcases List.mem_append.mp hx with hx | hx
  · exact hE x hx
  · simp only [List.mem_singleton] at hx; subst hx; exact ht

/-! ### sortByKeys -/

theorem mem_go {α} (dirs : List (Bool × Bool)) (key : α → List Val) (x : α) :
    ∀ (acc : List α) (y : α), y ∈ sortByKeys.go dirs key x acc ↔ y = x ∨ y ∈ acc
  | [], y => by simp [sortByKeys.go]
  | z :: zs, y => by
    simp only [sortByKeys.go]
    split
    · simp
    · simp only [List.mem_cons, mem_go dirs key x zs y]
      constructor
      · rintro (h | h | h)
        · exact .inr (.inl h)
        · exact .inl h
        · exact .inr (.inr h)
      · rintro (h | h | h)
        · exact .inr (.inl h)
        · exact .inl h
        · exact .inr (.inr h)

theorem mem_sortFold {α} (dirs : List (Bool × Bool)) (key : α → List Val) :
    ∀ (xs acc : List α) (y : α),
      y ∈ xs.foldl (fun acc x => sortByKeys.go dirs key x acc) acc ↔ y ∈ acc ∨ y ∈ xs
  | [], acc, y => by simp
  | x :: xs, acc, y => by
    simp only [List.foldl_cons, mem_sortFold dirs key xs, mem_go, List.mem_cons]
    constructor
    · rintro ((h | h) | h)
      · exact .inr (.inl h)
      · exact .inl h
      · exact .inr (.inr h)
    · rintro (h | h | h)
      · exact .inl (.inr h)
      · exact .inl (.inl h)
      · exact .inr h

theorem mem_sortByKeys {α} (dirs : List (Bool × Bool)) (key : α → List Val) (xs : List α) (y : α) :
    y ∈ sortByKeys dirs key xs ↔ y ∈ xs := by
  unfold sortByKeys
  have := mem_sortFold dirs key xs [] y
  simpa using this

theorem go_congr {α} (dirs : List (Bool × Bool)) (k1 k2 : α → List Val) (x : α) (hx : k1 x = k2 x) :
    ∀ (acc : List α), (∀ y ∈ acc, k1 y = k2 y) → sortByKeys.go dirs k1 x acc = sortByKeys.go dirs k2 x acc
  | [], _ => by simp [sortByKeys.go]
  | z :: zs, h => by
    simp only [sortByKeys.go, hx, h z (List.mem_cons_self ..)]
    rw [go_congr dirs k1 k2 x hx zs (fun y hy => h y (List.mem_cons_of_mem _ hy))]

theorem sortFold_congr {α} (dirs : List (Bool × Bool)) (k1 k2 : α → List Val) :
    ∀ (xs acc : List α), (∀ y ∈ acc, k1 y = k2 y) → (∀ y ∈ xs, k1 y = k2 y) →
      xs.foldl (fun acc x => sortByKeys.go dirs k1 x acc) acc = xs.foldl (fun acc x => sortByKeys.go dirs k2 x acc) acc
  | [], acc, _, _ => rfl
  | x :: xs, acc, ha, hx => by
    simp only [List.foldl_cons]
    rw [go_congr dirs k1 k2 x (hx x (List.mem_cons_self ..)) acc ha]
    apply sortFold_congr dirs k1 k2 xs
    · intro y hy
      rcases (mem_go dirs k2 x acc y).mp hy with rfl | hy
      · exact hx _ (List.mem_cons_self ..)
      · exact ha y hy
    · exact fun y hy => hx y (List.mem_cons_of_mem _ hy)

/-- the stable sort only looks at the keys of the members -/
theorem sortByKeys_congr {α} (dirs : List (Bool × Bool)) (k1 k2 : α → List Val) (xs : List α)
    (h : ∀ y ∈ xs, k1 y = k2 y) : sortByKeys dirs k1 xs = sortByKeys dirs k2 xs := by
  unfold sortByKeys
  exact sortFold_congr dirs k1 k2 xs [] (by simp) h

/-! ### the operators keep tables rectangular -/

theorem Rect_sortTable (t : Table) (terms : List SortTerm) (h : Rect t) : Rect (Rel.sortTable t terms) := by
  intro r hr
  simp only [Rel.sortTable] at hr ⊢
  exact h r ((mem_sortByKeys _ _ _ _).mp hr)

theorem Rect_takeTable (t : Table) (n : Expr) (h : Rect t) : Rect (Rel.takeTable t n) := by
  unfold Rel.takeTable
  split
  · intro r hr; exact h r (List.mem_of_mem_take hr)
  · exact h

theorem Rect_interpOp (src : Bytes) (db : DB) (t : Table) (o : Op) (hj : isJoin o = false) (h : Rect t) :
    Rect (Rel.interpOp src db t o) := by
  cases o with
  | join => simp [isJoin] at hj
  | count p k => intro r hr; simp [Rel.interpOp] at hr ⊢; subst hr; rfl
  | where_ p k e =>
    intro r hr
    simp only [Rel.interpOp, List.mem_filter] at hr ⊢
    exact h r hr.1
  | sort p k ts => exact Rect_sortTable t ts h
  | take p k n => exact Rect_takeTable t n h
  | top p k n b col =>
    cases col with
    | none => exact h
    | some c => exact Rect_takeTable _ n (Rect_sortTable t [c] h)
  | project p k cols =>
    intro r hr
    simp only [Rel.interpOp, List.mem_map] at hr ⊢
    obtain ⟨r0, _, rfl⟩ := hr
    simp
  | extend p k cols =>
    intro r hr
    simp only [Rel.interpOp, List.mem_map] at hr ⊢
    obtain ⟨r0, hr0, rfl⟩ := hr
    simp [h r0 hr0]
  | summarize p k cols b keys =>
    intro r hr
    simp only [Rel.interpOp, List.mem_map] at hr ⊢
    obtain ⟨g, _, rfl⟩ := hr
    simp
  | as_ p k name => exact h
  | render p k chart w lp props rp =>
    intro r hr
    simp only [Rel.interpOp, List.mem_map] at hr ⊢
    obtain ⟨r0, hr0, rfl⟩ := hr
    simp [h r0 hr0]

theorem Rect_interpClause (src : Bytes) (db : DB) (t : Table) (c : Clause)
    (hj : ∀ o, c = .op o → isJoin o = false) (h : Rect t) : Rect (interpClause src db t c) := by
  cases c with
  | op o => exact Rect_interpOp src db t o (hj o rfl) h
  | sort ts => exact Rect_sortTable t ts h
  | take n => exact Rect_takeTable t n h

theorem Rect_joinTables (unique left : Bool) (lt rt : Table) (cond : Expr) (hl : Rect lt) (hr : Rect rt) :
    Rect (JoinSem.joinTables unique left lt rt cond) := by
  intro row hrow
  simp only [JoinSem.joinTables, List.mem_flatMap] at hrow ⊢
  obtain ⟨l, hlmem, hrow⟩ := hrow
  have hl' : l.length = lt.cols.length := by
    apply hl
    cases unique
    · simpa using hlmem
    · exact (JoinSem.distinctRows_spec lt.rows).2.1 l |>.mp (by simpa using hlmem)
  simp only [JoinSem.joinRow] at hrow
  split at hrow
  · simp only [List.mem_singleton] at hrow
    subst hrow
    simp [hl']
  · simp only [List.mem_filterMap] at hrow
    obtain ⟨r, hrmem, hsome⟩ := hrow
    split at hsome
    · simp only [Option.some.injEq] at hsome
      subst hsome
      simp [hl', hr r hrmem]
    · cases hsome

end Pql.JoinFull
