/-
The step boundary before a ';' does not depend on what follows the ';'.

Byte 59 (';') is no identifier-continuation byte, no digit, no hex digit, no '.', no exponent
byte, no UTF-8 continuation byte and never the second byte of a two-byte operator.  Hence a step
that starts before a ';' ends before it, unless it is a string literal, a back-quoted identifier
or a `//` comment; and those three stop at a definite byte: if they stop before the ';' for one
follower of the ';', they do so for every follower.
(Analogue of CliLemmasNewline / CliLemmasLast for the follower ';'.)
-/
import PqlModel.Lemmas.CliLemmasLast
namespace Pql.CliSem
open Pql

theorem isIdentCont_semi : isIdentCont 59 = false := by decide
theorem isDigit_semi : isDigit 59 = false := by decide
theorem isHexDigit_semi : isHexDigit 59 = false := by decide
theorem isCont_semi : isCont 59 = false := by decide

theorem identLoop_semi (x y : Bytes) : identLoop (x ++ 59 :: y) ≤ x.length := by
  induction x with
  | nil => simp [identLoop, isIdentCont_semi]
  | cons c x ih =>
    simp only [List.cons_append, identLoop, List.length_cons]
    split
    · omega
    · omega

theorem digitsLen_semi (x y : Bytes) : digitsLen (x ++ 59 :: y) ≤ x.length := by
  induction x with
  | nil => simp [digitsLen, isDigit_semi]
  | cons c x ih =>
    simp only [List.cons_append, digitsLen, List.length_cons]
    split
    · omega
    · omega

theorem hexDigitsLen_semi (x y : Bytes) : hexDigitsLen (x ++ 59 :: y) ≤ x.length := by
  induction x with
  | nil => simp [hexDigitsLen, isHexDigit_semi]
  | cons c x ih =>
    simp only [List.cons_append, hexDigitsLen, List.length_cons]
    split
    · omega
    · omega

theorem mantissaLoop_semi (b : Bool) (x y : Bytes) :
    mantissaLoop b (x ++ 59 :: y) ≤ x.length := by
  induction x generalizing b with
  | nil => simp [mantissaLoop, isDigit_semi]
  | cons c x ih =>
    simp only [List.cons_append, mantissaLoop, List.length_cons]
    split
    · have := ih true; omega
    · split
      · have := ih b; omega
      · omega

theorem exponentLen_semi (x y : Bytes) : exponentLen (x ++ 59 :: y) ≤ x.length := by
  match x with
  | [] =>
    cases y with
    | nil => simp [exponentLen]
    | cons c y => simp [exponentLen]
  | [e] =>
    simp only [List.cons_append, List.nil_append, exponentLen, List.length_cons, List.length_nil]
    have : isDigit 59 = false := isDigit_semi
    repeat' split
    all_goals simp_all
  | [e, c] =>
    simp only [List.cons_append, List.nil_append, exponentLen, List.length_cons, List.length_nil]
    have h0 := digitsLen_semi [] y
    have : isDigit 59 = false := isDigit_semi
    repeat' split
    all_goals simp_all
  | e :: c :: d :: x =>
    simp only [List.cons_append, exponentLen, List.length_cons]
    have h1 := digitsLen_semi x y
    have h2 := digitsLen_semi (d :: x) y
    simp only [List.cons_append, List.length_cons] at h2
    repeat' split
    all_goals simp_all
    all_goals omega

theorem finishNumber_semi (x y : Bytes) (k : Nat) (b : Bool) (hk : k ≤ x.length) :
    (finishNumber (x ++ 59 :: y) k b).width ≤ x.length := by
  simp only [finishNumber]
  rw [drop_append_cons_of_le x 59 y k hk]
  have hm := mantissaLoop_semi b (x.drop k) y
  simp only [List.length_drop] at hm
  rw [drop_append_cons_of_le x 59 y _ (by omega)]
  have he := exponentLen_semi (x.drop (k + mantissaLoop b (x.drop k ++ 59 :: y))) y
  simp only [List.length_drop] at he
  omega

/-- a number or dot never contains a ';' -/
theorem scanNumberOrDot_semi (c : UInt8) (x y : Bytes) :
    (scanNumberOrDot (c :: x ++ 59 :: y)).width ≤ x.length + 1 := by
  have hf : ∀ k b, k ≤ x.length + 1 →
      (finishNumber (c :: x ++ 59 :: y) k b).width ≤ x.length + 1 := by
    intro k b hk
    exact finishNumber_semi (c :: x) y k b (by simpa using hk)
  cases x with
  | nil =>
    have hf1 := hf 1 false (by simp)
    simp only [List.cons_append, List.nil_append, List.length_nil] at hf1 ⊢
    unfold scanNumberOrDot
    simp only
    have : isDigit 59 = false := isDigit_semi
    repeat' split
    all_goals simp_all
  | cons c2 x =>
    have hf1 := hf 1 false (by simp)
    have hf2 := hf 2 false (by simp)
    have hf2t := hf 2 true (by simp)
    have he := exponentLen_semi (c2 :: x) y
    have hx := hexDigitsLen_semi x y
    simp only [List.cons_append, List.length_cons] at hf1 hf2 hf2t he ⊢
    unfold scanNumberOrDot
    simp only
    repeat' split
    all_goals simp_all
    all_goals omega

theorem decodeMulti_semi (n0 : Nat) (x y : Bytes) (r w : Nat)
    (h : decodeMulti n0 (x ++ 59 :: y) = some (r, w)) : w ≤ x.length + 1 := by
  have hc : isCont 59 = false := isCont_semi
  have hlo := secondLo_ge n0
  have h59 : (59 : UInt8).toNat = 59 := rfl
  match x with
  | [] =>
    exfalso
    cases y with
    | nil => simp [decodeMulti] at h; repeat' split at h
             all_goals simp_all
    | cons b2 y =>
      cases y with
      | nil =>
        simp [decodeMulti] at h; repeat' split at h
        all_goals simp_all
        all_goals omega
      | cons b3 y =>
        simp [decodeMulti] at h; repeat' split at h
        all_goals simp_all
        all_goals omega
  | [b1] =>
    unfold decodeMulti at h
    simp only [List.cons_append, List.nil_append] at h
    repeat' split at h
    all_goals simp_all
    all_goals omega
  | [b1, b2] =>
    unfold decodeMulti at h
    simp only [List.cons_append, List.nil_append] at h
    repeat' split at h
    all_goals simp_all
    all_goals omega
  | b1 :: b2 :: b3 :: x =>
    unfold decodeMulti at h
    simp only [List.cons_append] at h
    repeat' split at h
    all_goals simp_all
    all_goals omega

theorem decodeRune_semi (c : UInt8) (x y : Bytes) :
    (decodeRune (c :: x ++ 59 :: y)).2 ≤ x.length + 1 := by
  simp only [List.cons_append, decodeRune_cons]
  split
  · simp
  · cases hm : decodeMulti c.toNat (x ++ 59 :: y) with
    | none => simp
    | some rw =>
      obtain ⟨r, w⟩ := rw
      exact decodeMulti_semi _ x y r w hm

theorem scanNonAscii_semi (c : UInt8) (x y : Bytes) :
    (scanNonAscii (c :: x ++ 59 :: y)).width ≤ x.length + 1 := by
  unfold scanNonAscii
  have := decodeRune_semi c x y
  simp only [Step.skip, Step.sym]
  split <;> simpa

theorem scanPunct_semi_head (c : UInt8) (z : Bytes) : (scanPunct c (59 :: z)).width = 1 := by
  unfold scanPunct
  simp only [Step.skip, Step.sym, List.head?_cons]
  repeat' split
  all_goals simp_all

/-- A step that starts before a ';' ends before it, unless it is a string literal, a back-quoted
    identifier or a `//` comment. -/
theorem scanOne_semi_strict (c : UInt8) (x y : Bytes) :
    (scanOne (c :: x ++ 59 :: y)).width ≤ x.length + 1 ∨ c = 34 ∨ c = 39 ∨ c = 96 ∨
      (c = 47 ∧ x.head? = some 47) := by
  simp only [List.cons_append]
  unfold scanOne
  simp only [Step.ofLexeme, Step.skip]
  split
  · left; have := scanNonAscii_semi c x y; simp only [List.cons_append] at this; omega
  · split
    · left; simp
    · split
      · left
        have := identLoop_semi x y
        simp only [scanIdent, List.tail_cons]
        split <;> simp <;> omega
      · split
        · left
          have := scanNumberOrDot_semi c x y; simp only [List.cons_append] at this
          simp only []; omega
        · split
          · rename_i _ _ _ hq
            right
            rcases (by simpa using hq : c = 34 ∨ c = 39) with h | h
            · exact Or.inl h
            · exact Or.inr (Or.inl h)
          · split
            · rename_i _ _ _ _ hq
              right; right; right; left
              simpa using hq
            · rcases scanPunct_width_cases c (x ++ 59 :: y) with h | ⟨h0, h1, _⟩
              · cases x with
                | nil =>
                  left
                  have := scanPunct_semi_head c y
                  simp only [List.nil_append, List.length_nil]
                  omega
                | cons d x => left; simp only [List.length_cons]; omega
              · right; right; right; right
                refine ⟨h0, ?_⟩
                cases x with
                | nil => simp at h1
                | cons d x => simpa using h1

/-! ### the three steps that can contain a ';' -/

/-- A string body that closes / breaks off before a ';' does so whatever follows the ';'. -/
theorem stringLoop_semi_indep (q : UInt8) (x y z : Bytes)
    (h : (stringLoop q (x ++ 59 :: y)).width ≤ x.length) :
    (stringLoop q (x ++ 59 :: z)).width ≤ x.length := by
  fun_induction stringLoop q x with
  | case1 =>
    exfalso
    simp only [List.nil_append, List.length_nil, stringLoop_cons] at h
    repeat' split at h
    all_goals simp_all [QRes.width_shift]
  | case2 c rest hc => simp [stringLoop_cons, hc]
  | case3 c rest hc hc' => simp [stringLoop_cons, hc, hc']
  | case4 c hc hc' hc'' =>
    exfalso
    simp only [List.cons_append, List.nil_append, List.length_cons, List.length_nil,
      stringLoop_cons, hc, hc', hc'', Bool.false_eq_true, ↓reduceIte] at h
    split at h <;> simp_all [QRes.width_shift]
  | case5 c hc hc' hc'' e rest' he => simp [stringLoop_cons, hc, hc', hc'', he]
  | case6 c hc hc' hc'' e rest' he v ih =>
    simp only [List.cons_append, List.length_cons, stringLoop_cons, hc, hc', hc'', he,
      Bool.false_eq_true, ↓reduceIte, QRes.width_shift] at h ⊢
    have := ih (by omega)
    omega
  | case7 c rest hc hc' hc'' ih =>
    simp only [List.cons_append, List.length_cons, stringLoop_cons, hc, hc', hc'',
      Bool.false_eq_true, ↓reduceIte, QRes.width_shift] at h ⊢
    have := ih (by omega)
    omega

/-- A back-quoted identifier body that closes / breaks off before a ';' does so whatever follows
    the ';'. -/
theorem qidentLoop_semi_indep (x y z : Bytes)
    (h : (qidentLoop (x ++ 59 :: y)).width ≤ x.length) :
    (qidentLoop (x ++ 59 :: z)).width ≤ x.length := by
  fun_induction qidentLoop x with
  | case1 =>
    exfalso
    simp only [List.nil_append, List.length_nil, qidentLoop_cons] at h
    repeat' split at h
    all_goals simp_all [QRes.width_shift]
  | case2 c hc =>
    simp [qidentLoop, hc]
  | case3 c hc d rest' hd ih =>
    simp only [List.cons_append, List.length_cons, qidentLoop, hc, hd, if_true,
      QRes.width_shift] at h ⊢
    have := ih (by omega)
    omega
  | case4 c hc d rest' hd =>
    simp [qidentLoop, hc, hd]
  | case5 c rest hc hc' =>
    simp [qidentLoop_cons, hc, hc']
  | case6 c rest hc hc' ih =>
    simp only [List.cons_append, List.length_cons, qidentLoop_cons, hc, hc', Bool.false_eq_true,
      ↓reduceIte, QRes.width_shift] at h ⊢
    have := ih (by omega)
    omega

/-- A comment body that ends before a ';' does so whatever follows the ';'. -/
theorem commentLen_semi_indep (x y z : Bytes) (h : commentLen (x ++ 59 :: y) ≤ x.length) :
    commentLen (x ++ 59 :: z) ≤ x.length := by
  have e1 := commentLen_indep x y (59 :: y) 59 h
  have e2 := commentLen_indep x y (59 :: z) 59 h
  rw [e2]
  rw [e1] at h
  exact h

theorem scanOne_string (q : UInt8) (hq : q = 34 ∨ q = 39) (r : Bytes) :
    (scanOne (q :: r)).width = (stringLoop q r).width + 1 := by
  rcases hq with h | h <;> subst h
  all_goals
    simp only [scanOne, isAsciiSpace, isIdentStart, isAlpha, isDigit, inRanges,
      Facts.isAlphaRanges, Facts.isDigitRanges, Step.ofLexeme, scanString]
    cases stringLoop _ r <;> simp [QRes.width]

theorem scanOne_qident (r : Bytes) :
    (scanOne (96 :: r)).width = (qidentLoop r).width + 1 := by
  simp only [scanOne, isAsciiSpace, isIdentStart, isAlpha, isDigit, inRanges,
    Facts.isAlphaRanges, Facts.isDigitRanges, Step.ofLexeme, scanQuotedIdent, List.tail_cons]
  cases qidentLoop r <;> simp [QRes.width]

/-- **A scanner step on `x ++ ';' :: y` that stays inside `x` stays inside `x` whatever follows
    the ';'.** -/
theorem scanOne_semi_indep (x y z : Bytes) (h : (scanOne (x ++ 59 :: y)).width ≤ x.length) :
    (scanOne (x ++ 59 :: z)).width ≤ x.length := by
  cases x with
  | nil =>
    have := scanOne_width_pos 59 y
    simp at h; omega
  | cons d x =>
    rcases scanOne_semi_strict d x z with h1 | h1 | h1 | h1 | ⟨h1, h2⟩
    · simpa using h1
    · subst h1
      simp only [List.cons_append, scanOne_string 34 (Or.inl rfl), List.length_cons] at h ⊢
      have := stringLoop_semi_indep 34 x y z (by omega)
      omega
    · subst h1
      simp only [List.cons_append, scanOne_string 39 (Or.inr rfl), List.length_cons] at h ⊢
      have := stringLoop_semi_indep 39 x y z (by omega)
      omega
    · subst h1
      simp only [List.cons_append, scanOne_qident, List.length_cons] at h ⊢
      have := qidentLoop_semi_indep x y z (by omega)
      omega
    · subst h1
      cases x with
      | nil => simp at h2
      | cons e x =>
        have he : e = 47 := by simpa using h2
        subst he
        simp only [List.cons_append, scanOne_comment, List.length_cons] at h ⊢
        have := commentLen_semi_indep x y z (by omega)
        omega

theorem reaches_semi_indep_aux {s : Bytes} {n : Nat} (h : Reaches s n) :
    ∀ (x y z : Bytes), s = x ++ 59 :: y → n = x.length →
      Reaches (x ++ 59 :: z) x.length := by
  induction h with
  | here s =>
    intro x y z _ hn
    rw [← hn]; exact Reaches.here _
  | step s m hne hr ih =>
    intro x y z hs hn
    subst hs
    have hpos := scanOne_width_pos' hne
    have hw : (scanOne (x ++ 59 :: y)).width ≤ x.length := by omega
    have hx := scanOne_append x (59 :: y) hw
    have hw2 := scanOne_semi_indep x y z hw
    have hx2 := scanOne_append x (59 :: z) hw2
    rw [hx] at hr hn hw
    rw [drop_append_of_le x (59 :: y) _ hw] at hr
    have h1 := ih (x.drop (scanOne x).width) y z
      (by rw [hx, drop_append_of_le x (59 :: y) _ hw])
      (by simp only [List.length_drop]; omega)
    have h2 := Reaches.step (x ++ 59 :: z) _ (by simp) (by
      rw [hx2, drop_append_of_le x (59 :: z) _ hw]; exact h1)
    rw [hx2] at h2
    simp only [List.length_drop] at h2
    have he : (scanOne x).width + (x.length - (scanOne x).width) = x.length := by omega
    rwa [he] at h2

/-- **The step boundary before a ';' does not depend on what follows the ';'.** -/
theorem reaches_semi_indep (x y z : Bytes) (h : Reaches (x ++ 59 :: y) x.length) :
    Reaches (x ++ 59 :: z) x.length :=
  reaches_semi_indep_aux h x y z rfl rfl

end Pql.CliSem
