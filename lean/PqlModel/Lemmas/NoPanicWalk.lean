/-
Property C12, "the interpretation of the translated code never panics": the `Walk` part.

* `walkLoopV_noPanic` / `walkV_noPanic`: the model's loop with a visitor that may look at the node
  (`AstIR.walkV`, the function `C11_walk_ir` ties the regenerated loop to) produces no `panic` event on a
  stack of `NoPanic` nodes, for EVERY visitor (Props/C11b.lean has this only for visitors that look at the
  number of the call, `walk decide`).
* `good_of_noPanic`: for expressions `NoPanic (.expr e)` is `e.Good` (the converse is
  `Expr.Good.complete`), so the sub-expressions the compiler hands to `hasJoinTerms` satisfy the side
  condition of `C01_hasJoinTerms_ir` / `C01_writeExpression_ir`.
* `good_buildJoinCondition`: the join condition built from `Good` conditions is `Good`.
-/
import PqlModel.Props.C11WalkIR
import PqlModel.Props.C11Compile
namespace Pql.NoPanic
open Pql Pql.AstIR

/-! ### every visitor -/

theorem walkLoopV_noPanic (v : Nat → Node → Bool) :
    ∀ (fuel i : Nat) (stack : List Node), (∀ n ∈ stack, NoPanic n) → totalSize stack < fuel →
      WalkEvent.panic ∉ walkLoopV v fuel i stack := by
  intro fuel
  induction fuel with
  | zero => intro i stack _ h; omega
  | succ fuel ih =>
    intro i stack hs hf
    cases stack with
    | nil => simp [walkLoopV]
    | cons n stack =>
      have hn : NoPanic n := hs n (by simp)
      have hst : ∀ m ∈ stack, NoPanic m := fun m hm => hs m (by simp [hm])
      obtain ⟨kids, hc, hk⟩ := hn.children
      have hsz := children_size n kids hc
      rw [walkLoopV_cons v fuel i n stack hn.ne_nil]
      simp only [totalSize_cons] at hf
      cases hd : v i n
      · simp only [Bool.false_eq_true, if_false, List.mem_cons, not_or]
        exact ⟨fun e => eventOf_ne_panic n e.symm, ih (i + 1) stack hst (by omega)⟩
      · simp only [if_true, hc, List.mem_cons, not_or]
        refine ⟨fun e => eventOf_ne_panic n e.symm, ih (i + 1) (kids ++ stack) ?_ (by simp only [totalSize_append]; omega)⟩
        intro m hm
        rcases List.mem_append.1 hm with h | h
        · exact hk m h
        · exact hst m h

/-- on a tree without nil in a required position the loop of `Walk` yields no `panic` event, whatever
    the visitor answers (its answer may depend on the node and on the number of the call) -/
theorem walkV_noPanic (v : Nat → Node → Bool) (n : Node) (h : NoPanic n) : WalkEvent.panic ∉ walkV v n :=
  walkLoopV_noPanic v (n.size + 1) 0 [n] (by simpa using h) (by simp)

/-! ### `NoPanic` on expressions is `Good` -/

mutual
theorem good_of_noPanic : (e : Expr) → NoPanic (.expr e) → e.Good
  | .nil, h => absurd rfl h.ne_nil
  | .qident _, _ => by simp [Expr.Good]
  | .lit .., _ => by simp [Expr.Good]
  | .unary _ _ x, h => by
    obtain ⟨kids, hc, hk⟩ := h.children
    simp only [Node.children, Option.some.injEq] at hc
    subst hc
    simpa [Expr.Good] using good_of_noPanic x (hk _ (by simp))
  | .binary x _ _ y, h => by
    obtain ⟨kids, hc, hk⟩ := h.children
    simp only [Node.children, Option.some.injEq] at hc
    subst hc
    simp only [Expr.Good]
    exact ⟨good_of_noPanic x (hk _ (by simp)), good_of_noPanic y (hk _ (by simp))⟩
  | .inE x _ _ vals _, h => by
    obtain ⟨kids, hc, hk⟩ := h.children
    simp only [Node.children, Option.some.injEq] at hc
    subst hc
    simp only [Expr.Good]
    exact ⟨good_of_noPanic x (hk _ (by simp)), goodList_of_noPanic vals fun k hk' => hk k (List.mem_cons_of_mem _ hk')⟩
  | .paren _ x _, h => by
    obtain ⟨kids, hc, hk⟩ := h.children
    simp only [Node.children, Option.some.injEq] at hc
    subst hc
    simpa [Expr.Good] using good_of_noPanic x (hk _ (by simp))
  | .call _ _ args _, h => by
    obtain ⟨kids, hc, hk⟩ := h.children
    simp only [Node.children, Option.some.injEq] at hc
    subst hc
    simp only [Expr.Good]
    exact goodList_of_noPanic args hk
  | .index x _ idx _, h => by
    obtain ⟨kids, hc, hk⟩ := h.children
    simp only [Node.children, Option.some.injEq] at hc
    subst hc
    simp only [Expr.Good]
    exact ⟨good_of_noPanic x (hk _ (by simp)), good_of_noPanic idx (hk _ (by simp))⟩
theorem goodList_of_noPanic : (es : ExprList) → (∀ k ∈ es.toList.map Node.expr, NoPanic k) → es.Good
  | .nil, _ => by simp [ExprList.Good]
  | .cons e es, h => by
    simp only [ExprList.Good]
    exact ⟨good_of_noPanic e (h _ (by simp [ExprList.toList])),
      goodList_of_noPanic es fun k hk => h k (by
        simp only [ExprList.toList, List.map_cons, List.mem_cons]; exact Or.inr hk)⟩
end

theorem noPanic_iff_good (e : Expr) : NoPanic (.expr e) ↔ e.Good :=
  ⟨good_of_noPanic e, fun h => (Expr.Good.complete e h).noPanic⟩

/-! ### the join condition -/

theorem good_rewriteSimple {c : Expr} (h : c.Good) : (rewriteSimpleJoinCondition c).Good :=
  good_of_noPanic _ (Glue.noPanic_rewriteSimple ((noPanic_iff_good c).2 h))

theorem noPanic_of_goodList : (conds : ExprList) → conds.Good → ∀ k ∈ conds.toList.map Node.expr, NoPanic k
  | .nil, _, k, hk => by simp [ExprList.toList] at hk
  | .cons c rest, h, k, hk => by
    simp only [ExprList.Good] at h
    simp only [ExprList.toList, List.map_cons, List.mem_cons] at hk
    rcases hk with rfl | hk
    · exact (noPanic_iff_good c).2 h.1
    · exact noPanic_of_goodList rest h.2 k hk

/-- the join condition the compiler builds from `Good` conditions is `Good` -/
theorem good_buildJoinCondition (conds : ExprList) (h : conds.Good) : (buildJoinCondition conds).Good :=
  good_of_noPanic _ (Glue.noPanic_buildJoinCondition conds (noPanic_of_goodList conds h))

end Pql.NoPanic
