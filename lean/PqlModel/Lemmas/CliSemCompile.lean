/-
Property C16, semantic half — the prelude text IS the scope.

`TermPiece`         : what every ';'-terminated piece of `SplitStatements` satisfies
                      (`termPiece_of_split`): the ';' behind it is a token whatever follows
                      (`SemiClosed`, from `reaches_semi_indep`), and it contains no ';' token;
`letKey`            : what the statement loop of `Compile` looks at in a `let` statement (the
                      name, the value without positions) — `compileStmts_letKey`;
`compileWithLets`   : NEW SPEC-LEVEL: the library's result for the text `s` compiled with the let
                      statements `lets` (trees) in scope, in that order;
`prelude_compile`   : `compile [] (preludeOf ls ++ s) = compileWithLets (letsOf ls) s`;
`probe_compile`     : the same for the probe `preludeOf ls ++ l ++ ";X"`.
-/
import PqlModel.Lemmas.CliSemParse
import PqlModel.Lemmas.CliSemShift
import PqlModel.Lemmas.CliSemSpans
import PqlModel.Lemmas.CliSemLex
import PqlModel.Props.C06Subst
namespace Pql.CliSem
open Pql Pql.Piecewise

/-! ### terminated pieces -/

theorem semiClosed_of_reaches {l v : Bytes} (h : Reaches (l ++ 59 :: v) l.length) : SemiClosed l :=
  fun z => reaches_semi_indep l v z h

theorem semiClosed_iff (l : Bytes) : SemiClosed l ↔ SemiEnds l :=
  ⟨fun h => h [], fun h => semiClosed_of_reaches h⟩

/-- a ';'-terminated piece: no ';' token inside, and the ';' behind it is a token -/
def TermPiece (l : Bytes) : Prop := SemiClosed l ∧ ∀ t ∈ scan l, t.kind ≠ .semi

/-- every piece of `SplitStatements` but the last is a `TermPiece` -/
theorem termPiece_of_split (text : Bytes) : ∀ p ∈ (splitStatements text).dropLast, TermPiece p := by
  induction hn : text.length using Nat.strongRecOn generalizing text with
  | _ n ih =>
    subst hn
    rcases splitStatements_cases text with ⟨_, h⟩ | ⟨u, v, h1, h2, h3, h4⟩
    · rw [h]; intro p hp; simp at hp
    · rw [h4, dropLast_cons_of_ne_nil' u (splitStatements_ne_nil v)]
      intro p hp
      rcases List.mem_cons.mp hp with rfl | hp
      · subst h1
        exact ⟨semiClosed_of_reaches h2, h3⟩
      · refine ih v.length ?_ v rfl p hp
        subst h1
        simp only [List.length_append, List.length_cons]
        omega

/-! ### what the statement loop sees of a `let` -/

def letKey : Stmt → Option (Option Bytes × Expr)
  | .let_ _ n _ x => some (n.map (·.name), eraseSp x)
  | .tabular _ => none

def AllLets (L : List Stmt) : Prop := ∀ st ∈ L, (letKey st).isSome = true

theorem isLets_of_allLets {L : List Stmt} (h : AllLets L) : IsLets L := by
  intro st hst
  have := h st hst
  cases st with
  | let_ kw n a x => exact ⟨kw, n, a, x, rfl⟩
  | tabular t => simp [letKey] at this

theorem colsGoodStmt_of_let {st : Stmt} (h : (letKey st).isSome = true) : colsGoodStmt st = true := by
  cases st with
  | let_ => rfl
  | tabular t => simp [letKey] at h

mutual
theorem eraseSp_shExpr (d : Nat) : (e : Expr) → eraseSp (shExpr d e) = eraseSp e
  | .nil => rfl
  | .qident parts => by
    simp only [eraseSp, shExpr, mapE, List.map_map]
    rfl
  | .lit sp k v => rfl
  | .unary os op x => by
    have := eraseSp_shExpr d x
    simp only [eraseSp] at this
    simp only [eraseSp, shExpr, mapE, this]
    rfl
  | .binary x os op y => by
    have h1 := eraseSp_shExpr d x
    have h2 := eraseSp_shExpr d y
    simp only [eraseSp] at h1 h2
    simp only [eraseSp, shExpr, mapE, h1, h2]
    rfl
  | .inE x i lp vals rp => by
    have h1 := eraseSp_shExpr d x
    have h2 := eraseSpL_shExpr d vals
    simp only [eraseSp] at h1
    simp only [eraseSp, shExpr, mapE, h1, h2]
    rfl
  | .paren lp x rp => by
    have h1 := eraseSp_shExpr d x
    simp only [eraseSp] at h1
    simp only [eraseSp, shExpr, mapE, h1]
    rfl
  | .call fn lp args rp => by
    have h2 := eraseSpL_shExpr d args
    simp only [eraseSp, shExpr, mapE, h2]
    rfl
  | .index x lb idx rb => by
    have h1 := eraseSp_shExpr d x
    have h2 := eraseSp_shExpr d idx
    simp only [eraseSp] at h1 h2
    simp only [eraseSp, shExpr, mapE, h1, h2]
    rfl
theorem eraseSpL_shExpr (d : Nat) : (es : ExprList) → mapL spErase (shExprList d es) = mapL spErase es
  | .nil => rfl
  | .cons e es => by
    have h1 := eraseSp_shExpr d e
    have h2 := eraseSpL_shExpr d es
    simp only [eraseSp] at h1
    simp only [shExprList, mapL, h1, h2]
end

theorem letKey_shStmt (d : Nat) (st : Stmt) : letKey (shStmt d st) = letKey st := by
  cases st with
  | tabular t => rfl
  | let_ kw n a x =>
    simp only [shStmt, letKey, eraseSp_shExpr]
    cases n <;> rfl

theorem wrapTight_of_eraseSp_eq {x x' : Expr} (h : eraseSp x = eraseSp x') : wrapTight x = wrapTight x' := by
  have h1 := wrapTight_mapE spErase x
  have h2 := wrapTight_mapE spErase x'
  unfold eraseSp at h
  rw [← h1, ← h2, h]

/-- **The statement loop sees of leading `let` statements only their keys.** -/
theorem compileStmts_letKey (src : Bytes) (tail : List Stmt) :
    ∀ (A B : List Stmt), A.map letKey = B.map letKey → AllLets A → ∀ scope,
      compileStmts src (A ++ tail) scope none = compileStmts src (B ++ tail) scope none := by
  intro A
  induction A with
  | nil =>
    intro B hB _ scope
    cases B with
    | nil => rfl
    | cons b B => simp at hB
  | cons a A ih =>
    intro B hB hA scope
    cases B with
    | nil => simp at hB
    | cons b B =>
      simp only [List.map_cons, List.cons.injEq] at hB
      have ha := hA a (by simp)
      have hA' : AllLets A := fun st hst => hA st (by simp [hst])
      cases a with
      | tabular t => simp [letKey] at ha
      | let_ kw n asg x =>
        cases b with
        | tabular t => simp [letKey] at hB
        | let_ kw' n' asg' x' =>
          simp only [letKey, Option.some.injEq, Prod.mk.injEq] at hB
          obtain ⟨⟨hn, hx⟩, hrest⟩ := hB
          simp only [List.cons_append, compileStmts]
          rw [writeExpr_of_eraseSp_eq _ hx, wrapTight_of_eraseSp_eq hx]
          cases (writeExpr ⟨src, scope, .let_⟩ x').map (wrapTight x') with
          | error e => rfl
          | ok sql =>
            cases n with
            | none =>
              cases n' with
              | none => rfl
              | some m' => simp at hn
            | some m =>
              cases n' with
              | none => simp at hn
              | some m' =>
                simp only [Option.map_some, Option.some.injEq] at hn
                simp only [hn]
                exact ih B hrest hA' _

theorem compileChunks_letKey (src : Bytes) (A B tail : List Stmt) (h : A.map letKey = B.map letKey)
    (hA : AllLets A) : compileChunks src [] (A ++ tail) = compileChunks src [] (B ++ tail) := by
  rw [C14.compileChunks_eq, C14.compileChunks_eq, compileStmts_letKey src tail A B h hA]

/-! ### the source text is irrelevant for `let` statements -/

theorem scopeRel_refl (d : Nat) (s : Scope) : ScopeRel (MapsTo (shMap d)) s s := by
  intro n
  cases lookupScope s n with
  | none => exact .none
  | some a => exact .some (by unfold MapsTo; rw [map_mapC_shMap])

theorem writeExpr_src_irrel (src src' : Bytes) (s : Scope) (m : Mode) (e : Expr) :
    writeExpr ⟨src, s, m⟩ e = writeExpr ⟨src', s, m⟩ e := by
  have h := mapE_rel (src := src) (src' := src') (m := m) (MapsTo.cong (shMap 0)) (scopeRel_refl 0 s) e
    (inertE_of_fn_id (φ := shMap 0) (fun _ => rfl) s m e)
  have e1 := h.mapsTo_eq
  rw [mapE_shMap, shExpr_zero] at e1
  rw [e1]
  cases writeExpr ⟨src, s, m⟩ e with
  | error _ => rfl
  | ok cs => simp only [Except.map, map_mapC_shMap]

theorem compileStmts_lets_src (src src' : Bytes) : ∀ (L : List Stmt), AllLets L → ∀ scope,
    compileStmts src L scope none = compileStmts src' L scope none := by
  intro L
  induction L with
  | nil => intro _ _; rfl
  | cons a L ih =>
    intro hL scope
    have ha := hL a (by simp)
    have hL' : AllLets L := fun st hst => hL st (by simp [hst])
    cases a with
    | tabular t => simp [letKey] at ha
    | let_ kw n asg x =>
      simp only [compileStmts]
      rw [writeExpr_src_irrel src src']
      cases (writeExpr ⟨src', scope, .let_⟩ x).map (wrapTight x) with
      | error e => rfl
      | ok sql =>
        cases n with
        | none => rfl
        | some m => exact ih hL' _

/-! ### the library's result with lets in scope -/

def renderResult : W → CompileResult
  | .ok cs => .ok (renderChunks cs)
  | .error .err => .error
  | .error .panic => .panic

theorem compile_eq (params : List (Bytes × Bytes)) (src : Bytes) :
    compile params src =
      if (parse src).2 = [] then renderResult (compileChunks src params (parse src).1) else .error := by
  unfold compile
  simp only []
  by_cases h : (parse src).2 = []
  · rw [if_pos h]
    simp only [h, List.isEmpty_nil, Bool.not_true, Bool.false_eq_true, if_false]
    cases compileChunks src params (parse src).1 with
    | ok cs => rfl
    | error e => cases e <;> rfl
  · rw [if_neg h]
    have : (parse src).2.isEmpty = false := by
      cases hp : (parse src).2 with
      | nil => exact absurd hp h
      | cons _ _ => rfl
    simp [this]

/-- **the library's result for the text `s` with the `let` statements `lets` in scope**: the
    statement list `lets ++ statements of s`, compiled as `Compile` compiles a parsed source
    (implicit column names sliced from `s`, in which the trees of `s` have their positions) -/
def compileWithLets (lets : List Stmt) (s : Bytes) : CompileResult :=
  if (parse s).2 = [] then renderResult (compileChunks s [] (lets ++ (parse s).1)) else .error

theorem compileWithLets_nil (s : Bytes) : compileWithLets [] s = compile [] s := by
  rw [compile_eq]; rfl

/-- an accepted let text: the ';' behind it is a token, it parses without error, into `let`
    statements only -/
def AcceptedLet (l : Bytes) : Prop := SemiClosed l ∧ (parse l).2 = [] ∧ AllLets (parse l).1

theorem letsAt_keys (off : Nat) (ls : List Bytes) : (letsAt off ls).map letKey = (letsOf ls).map letKey := by
  induction ls generalizing off with
  | nil => rfl
  | cons l ls ih =>
    simp only [letsAt, letsOf, List.flatMap_cons, List.map_append, List.map_map]
    have := ih (off + l.length + 2)
    simp only [letsOf] at this
    rw [this]
    congr 1
    apply List.map_congr_left
    intro st _
    exact letKey_shStmt off st

theorem allLets_letsOf {ls : List Bytes} (h : ∀ l ∈ ls, AllLets (parse l).1) : AllLets (letsOf ls) := by
  intro st hst
  simp only [letsOf, List.mem_flatMap] at hst
  obtain ⟨l, hl, hst⟩ := hst
  exact h l hl st hst

theorem allLets_of_keys {A B : List Stmt} (h : A.map letKey = B.map letKey) (hB : AllLets B) : AllLets A := by
  intro st hst
  have hm : letKey st ∈ B.map letKey := h ▸ List.mem_map_of_mem hst
  obtain ⟨b, hb, hk⟩ := List.mem_map.mp hm
  rw [← hk]; exact hB b hb

theorem map_shStmt_keys (d : Nat) (L : List Stmt) : (L.map (shStmt d)).map letKey = L.map letKey := by
  rw [List.map_map]
  apply List.map_congr_left
  intro st _
  exact letKey_shStmt d st

/-- the common core: statements `A` (keys of the lets `L`) followed by the statements of `s` moved
    behind a text `Q` -/
theorem compileChunks_behind (Q s : Bytes) (A L : List Stmt) (hk : A.map letKey = L.map letKey)
    (hL : AllLets L) (hs : (parse s).2 = []) :
    compileChunks (Q ++ s) [] (A ++ (parse s).1.map (shStmt Q.length)) =
      compileChunks s [] (L ++ (parse s).1) := by
  have hA : AllLets A := allLets_of_keys hk hL
  rw [compileChunks_letKey (Q ++ s) A (L.map (shStmt Q.length)) _ (by rw [map_shStmt_keys, hk]) hA,
    ← List.map_append]
  apply compileChunks_shift
  intro st hst
  rcases List.mem_append.mp hst with h | h
  · exact colsGoodStmt_of_let (hL st h)
  · exact colsGood_of_parse s (parse s).1 (Prod.ext rfl hs) st h

/-- **Deliverable 2 (the prelude is the scope).**  For accepted let texts `ls` and ANY text `s`:
    what `Compile` returns for `preludeOf ls ++ s` is the library's result for `s` with the let
    statements of `l1, …, lk` (each parsed on its own) in scope, in that order. -/
theorem prelude_compile (ls : List Bytes) (hls : ∀ l ∈ ls, AcceptedLet l) (s : Bytes) :
    compile [] (preludeOf ls ++ s) = compileWithLets (letsOf ls) s := by
  obtain ⟨h1, h2⟩ := prelude_parse ls (fun l hl => (hls l hl).1) s
  have hL : AllLets (letsOf ls) := allLets_letsOf (fun l hl => (hls l hl).2.2)
  rw [compile_eq, compileWithLets]
  by_cases hs : (parse s).2 = []
  · rw [if_pos (h2.mpr ⟨fun l hl => (hls l hl).2.1, hs⟩), if_pos hs, h1,
      compileChunks_behind _ s _ _ (letsAt_keys 0 ls) hL hs]
  · rw [if_neg (fun h => hs (h2.mp h).2), if_neg hs]

/-! ### the probe `prelude ++ l ++ ";X"` -/

/-- `X` -/
def probeX : Bytes := [88]

def xTab : Tabular := .mk (some ⟨[88], ⟨0, 1⟩, false⟩) .nil

set_option maxRecDepth 100000 in
theorem parse_probeX : parse probeX = ([.tabular xTab], []) := by
  rw [parse, scan_eq_scanFuel]; rfl

theorem probe_compile (ls : List Bytes) (hls : ∀ l ∈ ls, AcceptedLet l) (l : Bytes)
    (hl : SemiClosed l) (hlets : AllLets (parse l).1) :
    compile [] (preludeOf ls ++ l ++ 59 :: probeX) =
      if (parse l).2 = [] then compileWithLets (letsOf ls ++ (parse l).1) probeX else .error := by
  obtain ⟨h1, h2⟩ := probe_parse ls (fun l hl => (hls l hl).1) l hl probeX
  have hL : AllLets (letsOf ls ++ (parse l).1) := by
    intro st hst
    rcases List.mem_append.mp hst with h | h
    · exact allLets_letsOf (fun l hl => (hls l hl).2.2) st h
    · exact hlets st h
  have hx : (parse probeX).2 = [] := by rw [parse_probeX]
  have hQ : preludeOf ls ++ l ++ 59 :: probeX = (preludeOf ls ++ l ++ [59]) ++ probeX := by
    simp [List.append_assoc]
  have hlen : (preludeOf ls).length + l.length + 1 = (preludeOf ls ++ l ++ [59]).length := by
    simp [List.length_append]; omega
  rw [compile_eq]
  by_cases hs : (parse l).2 = []
  · rw [if_pos (h2.mpr ⟨fun l hl => (hls l hl).2.1, hs, hx⟩), if_pos hs, h1, hlen, hQ,
      compileWithLets, if_pos hx]
    congr 1
    apply compileChunks_behind _ probeX _ _ _ hL hx
    rw [List.map_append, List.map_append, letsAt_keys, map_shStmt_keys]
  · rw [if_neg (fun h => hs (h2.mp h).2.1), if_neg hs]

/-- after `let` statements that the statement loop accepts, the query `X` always compiles -/
theorem compileWithLets_probeX (L : List Stmt) (hL : AllLets L) :
    compileWithLets L probeX =
      match compileStmts [] L [] none with
      | .ok _ => .ok (renderChunks [.txt "SELECT * FROM ", .qid [88], .txt ";"])
      | .error .err => .error
      | .error .panic => .panic := by
  rw [compileWithLets, if_pos (by rw [parse_probeX]), parse_probeX, C14.compileChunks_eq]
  simp only []
  rw [C06.compileStmts_lets_then_query probeX xTab L (isLets_of_allLets hL),
    compileStmts_lets_src probeX [] L hL]
  show renderResult ((match compileStmts [] L [] none with
    | .ok (sc, _) => Except.ok (sc, some xTab)
    | .error e => .error e) >>= fun r => C14.finishChunks probeX r.1 r.2) = _
  cases compileStmts [] L [] none with
  | error e => cases e <;> rfl
  | ok r => rfl

end Pql.CliSem
