/-
Content maps on operators and pipelines, and parametricity of `(*subquery).write`.
-/
import PqlModel.Lemmas.ShapeExpr
namespace Pql

def mapSortTerm (φ : CMap) (t : SortTerm) : SortTerm :=
  { x := mapE φ t.x, asc := t.asc, ascDescSpan := φ.fsp t.ascDescSpan, nullsFirst := t.nullsFirst,
    nullsSpan := φ.fsp t.nullsSpan }

def mapColumn (φ : CMap) (c : Column) : Column :=
  { name := c.name.map φ.ident, assign := φ.fsp c.assign, x := mapE φ c.x }

def mapProp (φ : CMap) (p : RenderProp) : RenderProp :=
  { name := p.name.map φ.ident, assign := φ.fsp p.assign, value := mapE φ p.value }

mutual
def mapT (φ : CMap) : Tabular → Tabular
  | .nil => .nil
  | .mk source ops => .mk (source.map φ.ident) (mapOps φ ops)
/-- the join flavour (`kind=inner`) is a keyword, not a name: only its position changes -/
def mapOp (φ : CMap) : Op → Op
  | .count p k => .count (φ.fsp p) (φ.fsp k)
  | .where_ p k e => .where_ (φ.fsp p) (φ.fsp k) (mapE φ e)
  | .sort p k ts => .sort (φ.fsp p) (φ.fsp k) (ts.map (mapSortTerm φ))
  | .take p k n => .take (φ.fsp p) (φ.fsp k) (mapE φ n)
  | .top p k n b c => .top (φ.fsp p) (φ.fsp k) (mapE φ n) (φ.fsp b) (c.map (mapSortTerm φ))
  | .project p k cs => .project (φ.fsp p) (φ.fsp k) (cs.map (mapColumn φ))
  | .extend p k cs => .extend (φ.fsp p) (φ.fsp k) (cs.map (mapColumn φ))
  | .summarize p k cs b gs =>
    .summarize (φ.fsp p) (φ.fsp k) (cs.map (mapColumn φ)) (φ.fsp b) (gs.map (mapColumn φ))
  | .join p k kind ka fl lp right rp on conds =>
    .join (φ.fsp p) (φ.fsp k) (φ.fsp kind) (φ.fsp ka) (fl.map φ.fnIdent) (φ.fsp lp) (mapT φ right) (φ.fsp rp)
      (φ.fsp on) (mapL φ conds)
  | .as_ p k n => .as_ (φ.fsp p) (φ.fsp k) (n.map φ.ident)
  | .render p k ch w lp props rp =>
    .render (φ.fsp p) (φ.fsp k) (ch.map φ.ident) (φ.fsp w) (φ.fsp lp) (props.map (mapProp φ)) (φ.fsp rp)
def mapOps (φ : CMap) : OpList → OpList
  | .nil => .nil
  | .cons o os => .cons (mapOp φ o) (mapOps φ os)
end

theorem opTypeName_mapOp (φ : CMap) (o : Op) : opTypeName (mapOp φ o) = opTypeName o := by
  cases o <;> rfl

theorem canAttachSort_mapOp (φ : CMap) (o : Option Op) : canAttachSort (o.map (mapOp φ)) = canAttachSort o := by
  cases o with
  | none => rfl
  | some o => simp only [Option.map, canAttachSort, opTypeName_mapOp]

theorem projExpr_mapColumn (φ : CMap) (c : Column) : projExpr (mapColumn φ c) = mapE φ (projExpr c) := by
  obtain ⟨name, asg, x⟩ := c
  cases x <;> try (simp only [projExpr, mapColumn, mapE])
  cases name <;> simp only [Option.map, List.map_cons, List.map_nil]

/-! ### inertness of the expressions an operator writes (in the mode of `(*subquery).write`) -/

def inertTerms (s : Scope) (m : Mode) (φ : CMap) (ts : List SortTerm) : Bool := ts.all fun t => inertE s m φ t.x
def inertCols (s : Scope) (m : Mode) (φ : CMap) (cs : List Column) : Bool := cs.all fun c => inertE s m φ c.x

def inertOp (s : Scope) (m : Mode) (φ : CMap) : Op → Bool
  | .where_ _ _ e => inertE s m φ e
  | .project _ _ cs => cs.all fun c => inertE s m φ (projExpr c)
  | .extend _ _ cs => inertCols s m φ cs
  | .summarize _ _ cs _ gs => inertCols s m φ cs && inertCols s m φ gs
  | _ => true

def inertOpOpt (s : Scope) (m : Mode) (φ : CMap) : Option Op → Bool
  | some o => inertOp s m φ o
  | none => true
def inertSortOpt (s : Scope) (m : Mode) (φ : CMap) : Option (List SortTerm) → Bool
  | some ts => inertTerms s m φ ts
  | none => true
def inertTakeOpt (s : Scope) (m : Mode) (φ : CMap) : Option Expr → Bool
  | some n => inertE s m φ n
  | none => true

def inertSub (s : Scope) (m : Mode) (φ : CMap) (sub : Subquery) : Bool :=
  inertOpOpt s m φ sub.op && inertSortOpt s m φ sub.sort && inertTakeOpt s m φ sub.take

/-! ### the pieces of output that do not come through `writeExpr` -/

/-- the alias of an unnamed column is a slice of the source text: the two slices must be related -/
def AliasRel (φ : CMap) (R : List Chunk → List Chunk → Prop) (src src' : Bytes) (c : Column) : Prop :=
  c.name = none →
    ExRel (fun t t' => R [.qid t] [.qid t']) (sliceSource src c.x.spanOf) (sliceSource src' (mapE φ c.x).spanOf)

def renderPrefix : Bytes := Bytes.ofString "render_prop_"

def OpOK (φ : CMap) (R : List Chunk → List Chunk → Prop) (src src' : Bytes) : Op → Prop
  | .project _ _ cs => ∀ c ∈ cs, c.name = none → R [.qid []] [.qid []]
  | .extend _ _ cs => ∀ c ∈ cs, AliasRel φ R src src' c
  | .summarize _ _ cs _ gs => (∀ c ∈ cs, AliasRel φ R src src' c) ∧ (∀ c ∈ gs, AliasRel φ R src src' c)
  | .render _ _ chart _ _ props _ =>
    R [.qstr (identName chart)] [.qstr (identName (chart.map φ.ident))] ∧
    ∀ p ∈ props, R [.qstr (renderPropValue p.value)] [.qstr (renderPropValue (mapE φ p.value))] ∧
      R [.qid (renderPrefix ++ identName p.name)] [.qid (renderPrefix ++ identName (p.name.map φ.ident))]
  | _ => True

def OpOKOpt (φ : CMap) (R : List Chunk → List Chunk → Prop) (src src' : Bytes) : Option Op → Prop
  | some o => OpOK φ R src src' o
  | none => True

def SubOK (φ : CMap) (R : List Chunk → List Chunk → Prop) (src src' : Bytes) (sub : Subquery) : Prop :=
  OpOKOpt φ R src src' sub.op

/-- two subqueries: the second is the image of the first -/
structure MSubRel (φ : CMap) (R : List Chunk → List Chunk → Prop) (sub sub' : Subquery) : Prop where
  name : R [.qid sub.name] [.qid sub'.name]
  source : R sub.source sub'.source
  op : sub'.op = sub.op.map (mapOp φ)
  sort : sub'.sort = sub.sort.map (List.map (mapSortTerm φ))
  take : sub'.take = sub.take.map (mapE φ)

section
variable {φ : CMap} {R : List Chunk → List Chunk → Prop} {src src' : Bytes} {s s' : Scope} {m : Mode}

theorem ExRel.mapM {α α' β β' : Type} {S : β → β' → Prop} (h : α → α')
    (f : α → Except WErr β) (g : α' → Except WErr β') :
    (l : List α) → (∀ a ∈ l, ExRel S (f a) (g (h a))) → ExRel (ListRel S) (l.mapM f) ((l.map h).mapM g)
  | [], _ => by
    simp only [List.map_nil, List.mapM_nil]
    exact ListRel.nil
  | a :: l, hl => by
    simp only [List.map_cons, List.mapM_cons]
    refine ExRel.bind (hl a (List.mem_cons_self ..)) fun b b' hb => ?_
    refine ExRel.bind (ExRel.mapM h f g l fun x hx => hl x (List.mem_cons_of_mem _ hx)) fun bs bs' hbs => ?_
    exact ExRel.pure_pure (.cons hb hbs)

theorem columnAlias_rel (hR : MapCong φ R) (c : Column) (ha : AliasRel φ R src src' c) :
    ExRel R (columnAlias ⟨src, s, m⟩ c) (columnAlias ⟨src', s', m⟩ (mapColumn φ c)) := by
  obtain ⟨name, asg, x⟩ := c
  cases name with
  | some n =>
    simp only [columnAlias, mapColumn, Option.map]
    exact hR.cons_txt _ (hR.qid _)
  | none =>
    simp only [columnAlias, mapColumn, Option.map]
    refine ExRel.bind (ha rfl) fun t t' ht => ExRel.pure_pure ?_
    exact hR.cons_txt _ ht

theorem mwriteColumns_rel (hR : MapCong φ R) (hs : ScopeRel R s s') :
    (cs : List Column) → inertCols s m φ cs = true → (∀ c ∈ cs, AliasRel φ R src src' c) →
      ExRel (ListRel R) (writeColumns ⟨src, s, m⟩ cs) (writeColumns ⟨src', s', m⟩ (cs.map (mapColumn φ)))
  | [], _, _ => by
    simp only [List.map_nil, writeColumns]
    exact ListRel.nil
  | c :: cs, hi, ha => by
    simp only [inertCols, List.all_cons, Bool.and_eq_true] at hi
    simp only [List.map_cons, writeColumns]
    refine ExRel.bind (mapE_rel hR hs c.x hi.1) fun x x' hx => ?_
    refine ExRel.bind (columnAlias_rel hR c (ha c (List.mem_cons_self ..))) fun a a' haa => ?_
    refine ExRel.bind (mwriteColumns_rel hR hs cs hi.2 fun c hc => ha c (List.mem_cons_of_mem _ hc)) fun r r' hr => ?_
    exact ExRel.pure_pure (.cons (hR.append hx haa) hr)

theorem mwriteSortTerms_rel (hR : MapCong φ R) (hs : ScopeRel R s s') :
    (ts : List SortTerm) → inertTerms s m φ ts = true →
      ExRel (ListRel R) (writeSortTerms ⟨src, s, m⟩ ts) (writeSortTerms ⟨src', s', m⟩ (ts.map (mapSortTerm φ)))
  | [], _ => by
    simp only [List.map_nil, writeSortTerms]
    exact ListRel.nil
  | t :: ts, hi => by
    simp only [inertTerms, List.all_cons, Bool.and_eq_true] at hi
    simp only [List.map_cons, writeSortTerms]
    refine ExRel.bind (mapE_rel hR hs t.x hi.1) fun x x' hx => ?_
    refine ExRel.bind (mwriteSortTerms_rel hR hs ts hi.2) fun r r' hr => ?_
    refine ExRel.pure_pure (.cons ?_ hr)
    simp only [mapSortTerm]
    map_frame hR

theorem identName_rel (hR : MapCong φ R) (n : Option Ident) (h : n = none → R [.qid []] [.qid []]) :
    R [.qid (identName n)] [.qid (identName (n.map φ.ident))] := by
  cases n with
  | none => exact h rfl
  | some i => exact hR.qid _

end

end Pql
