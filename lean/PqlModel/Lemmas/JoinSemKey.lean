/-
C03 semantics, helper 5: `$left.k` / `$right.k` in the ON environment, and the bare key.
-/
import PqlModel.Lemmas.JoinSemKinds
import PqlModel.Props.C03
namespace Pql.JoinSem
open Pql Sql CompileOracle Intended

/-- the value of column `k` in a row (first column of that name) -/
def colVal (cols : List Bytes) (row : List Val) (k : Bytes) : Option Val :=
  ((cols.zip row).find? (·.1 == k)).map (·.2)

theorem find_envOfRow_same (a : Bytes) (cols : List Bytes) (row : List Val) (k : Bytes) :
    ((envOfRow a cols row).find? fun e => e.1 == a && e.2.1 == k).map (·.2.2) = colVal cols row k := by
  simp only [envOfRow, colVal]
  induction cols.zip row with
  | nil => rfl
  | cons x xs ih =>
    simp only [List.map_cons, List.find?_cons, beq_self_eq_true, Bool.true_and]
    cases h : x.1 == k
    · simpa using ih
    · simp

theorem find_envOfRow_other (a a' : Bytes) (h : (a == a') = false) (cols : List Bytes) (row : List Val) (k : Bytes) :
    ((envOfRow a cols row).find? fun e => e.1 == a' && e.2.1 == k) = none := by
  simp only [envOfRow]
  induction cols.zip row with
  | nil => rfl
  | cons x xs ih => simp only [List.map_cons, List.find?_cons, h, Bool.false_and]; exact ih

theorem leftA_ne_rightA : (leftA == rightA) = false := by decide
theorem rightA_ne_leftA : (rightA == leftA) = false := by decide

/-- `"$left".k` is the left row's column `k`, whatever the right table's columns are -/
theorem lookupCol_left (lcols : List Bytes) (l : List Val) (rcols : List Bytes) (r : List Val) (k : Bytes) :
    lookupCol (onEnv lcols l rcols r) [leftA, k] =
      (colVal lcols l k).getD (.term (Bytes.ofString "?col:" ++ leftA ++ [46] ++ k)) := by
  simp only [lookupCol, onEnv, List.find?_append]
  rw [← find_envOfRow_same leftA lcols l k, find_envOfRow_other rightA leftA rightA_ne_leftA]
  cases List.find? (fun e => e.1 == leftA && e.2.1 == k) (envOfRow leftA lcols l) <;> rfl

/-- `"$right".k` is the right row's column `k`, also when the left table has a column `k` too -/
theorem lookupCol_right (lcols : List Bytes) (l : List Val) (rcols : List Bytes) (r : List Val) (k : Bytes) :
    lookupCol (onEnv lcols l rcols r) [rightA, k] =
      (colVal rcols r k).getD (.term (Bytes.ofString "?col:" ++ rightA ++ [46] ++ k)) := by
  simp only [lookupCol, onEnv, List.find?_append]
  rw [← find_envOfRow_same rightA rcols r k, find_envOfRow_other leftA rightA leftA_ne_rightA]
  cases List.find? (fun e => e.1 == rightA && e.2.1 == k) (envOfRow rightA rcols r) <;> rfl

theorem leftAlias_eq : leftAlias = leftA := by decide
theorem rightAlias_eq : rightAlias = rightA := by decide

/-- the intended translation of the rewritten bare key is the plain comparison `"$left".k = "$right".k` -/
theorem tr_bare_key (name : Bytes) (sp : Span) (h : builtinIdent name = none) :
    tr true (rewriteSimpleJoinCondition (.qident [⟨name, sp, false⟩])) =
      some (.bin "=" (.col [leftA, name]) (.col [rightA, name])) := by
  rw [C03.C03_bare_key_rewrite name sp h]
  have h1 : (hasJoinTerms (.qident [⟨leftA, .zero, false⟩, ⟨name, sp, false⟩])).1 = true := by
    simp [hasJoinTerms, exprIdents, leftAlias_eq]
  have h2 : (hasJoinTerms (.qident [⟨rightA, .zero, false⟩, ⟨name, sp, false⟩])).2 = true := by
    simp [hasJoinTerms, exprIdents, rightAlias_eq]
  simp only [leftAlias_eq, rightAlias_eq]
  simp only [tr, bind, Option.bind, List.map_cons, List.map_nil, h1, h2, Bool.true_or, Bool.or_true, Bool.and_self,
    ↓reduceIte, pure]

/-- the bare key `k` compares the two sides' `k` columns with SQL `=` -/
theorem evalP_bare_key (name : Bytes) (sp : Span) (h : builtinIdent name = none) (env : Env) :
    Rel.evalP true [] env (rewriteSimpleJoinCondition (.qident [⟨name, sp, false⟩])) =
      binOp "=" (lookupCol env [leftA, name]) (lookupCol env [rightA, name]) := by
  rw [evalP_eq_evalS true _ _ (tr_bare_key name sp h)]
  simp only [evalS]

/-- a condition holds when it evaluates to TRUE -/
def holds (env : Env) (c : Expr) : Bool := Rel.evalP true [] env c == .bool true

theorem binOp_and_true (a b : Val) : (binOp "AND" a b == .bool true) = ((a == .bool true) && (b == .bool true)) := by
  have : ("AND" == "AND") = true := by decide
  unfold binOp
  simp only [this, ↓reduceIte]
  rw [Bool.eq_iff_iff]
  simp only [beq_iff_eq, Bool.and_eq_true]
  cases a with
  | bool x => cases x <;> cases b with
    | bool y => cases y <;> simp
    | _ => simp
  | _ => cases b with
    | bool y => cases y <;> simp
    | _ => simp

/-- `x and y` holds iff both hold (an untranslatable side never holds) -/
theorem holds_and (env : Env) (x y : Expr) (sp : Span) :
    holds env (.binary x sp .and_ y) = (holds env x && holds env y) := by
  simp only [holds, Rel.evalP, tr, bind, Option.bind]
  cases hx : tr true x with
  | none => simp
  | some a =>
    cases hy : tr true y with
    | none => simp
    | some b =>
      have hne : (TokKind.and_ = TokKind.eq) = False := by simp
      have hne2 : (TokKind.and_ = TokKind.ne) = False := by simp
      have hne3 : (TokKind.and_ = TokKind.cieq) = False := by simp
      have hne4 : (TokKind.and_ = TokKind.cine) = False := by simp
      simp only [hne, hne2, hne3, hne4, ↓reduceIte, plainOp, pure, normS]
      have : ("AND" == "!=") = false := by decide
      simp only [this, Bool.false_eq_true, ↓reduceIte, evalS]
      exact binOp_and_true _ _

theorem holds_go (env : Env) : ∀ (rest : ExprList) (x : Expr),
    holds env (buildJoinCondition.go x rest) =
      (holds env x && rest.toList.all fun c => holds env (rewriteSimpleJoinCondition c))
  | .nil, x => by simp [buildJoinCondition.go, ExprList.toList]
  | .cons y ys, x => by
    rw [buildJoinCondition.go, holds_go env ys, holds_and]
    simp [ExprList.toList, Bool.and_assoc]

/-- **several conditions are AND-ed**: the join condition holds iff every listed condition
    (bare keys rewritten) holds; no condition at all always holds -/
theorem holds_buildJoinCondition (env : Env) (conds : ExprList) :
    holds env (buildJoinCondition conds) = conds.toList.all fun c => holds env (rewriteSimpleJoinCondition c) := by
  cases conds with
  | nil =>
    simp only [buildJoinCondition, ExprList.toList, List.all_nil]
    have : tr true (Expr.qident [{ name := Bytes.ofString "true", span := Span.zero, quoted := false }]) = some (.const "TRUE") := by
      have : isName (Bytes.ofString "true") "true" = true := by decide
      simp [tr, this]
    simp [holds, Rel.evalP, this, normS, evalS]
  | cons c rest =>
    simp only [buildJoinCondition, holds_go, ExprList.toList, List.all_cons]

end Pql.JoinSem
