/-
The parser only builds `tidy` trees (PqlModel/Lemmas/SpanExtentOps.lean): a `render` operator
whose `With` span is not set has neither `Lparen` nor `Rparen` set — whatever errors it reports.
-/
import PqlModel.Lemmas.SpanExtentOps
import PqlModel.Lemmas.AccountedStmt
namespace Pql
open Grammar

theorem opList_tidy_snoc : ∀ (ops : OpList) (o : Op), (ops.snoc o).tidy = (ops.tidy && o.tidy)
  | .nil, o => by simp [OpList.snoc, OpList.tidy]
  | .cons a as, o => by
    simp only [OpList.snoc, OpList.tidy, opList_tidy_snoc as o, Bool.and_assoc]

theorem render_tidy_null (p k : Span) (ch : Option Ident) (w : Span) (props : List RenderProp) :
    (Op.render p k ch w .null props .null).tidy = true := by
  simp [Op.tidy]

theorem render_tidy_valid (p k : Span) (ch : Option Ident) {w : Span} (lp : Span) (props : List RenderProp)
    (rp : Span) (hw : w.isValid = true) : (Op.render p k ch w lp props rp).tidy = true := by
  simp [Op.tidy, hw]

theorem pRender_tidy (c : PCtx) (fuel : Nat) (pipe kw : Span) (ts : List Token) (hok : TokOK ts) :
    (pRender c fuel pipe kw ts).val.tidy = true := by
  unfold pRender
  dsimp only
  generalize hi : pIdent c ts = ri
  obtain ⟨iv, ie, irest⟩ := ri
  dsimp only
  rcases pIdent_cases hi with ⟨t0, rfl, hk0, rfl, rfl⟩ | ⟨rfl, hie, -, -⟩
  · dsimp only
    split
    · exact render_tidy_null _ _ _ _ _
    · rename_i t rest1
      have hw : t.span.isValid = true := span_isValid hok.tail.head_le
      split
      · exact render_tidy_null _ _ _ _ _
      · split
        · exact render_tidy_null _ _ _ _ _
        · split
          · exact render_tidy_null _ _ _ _ _
          · exact render_tidy_valid _ _ _ _ _ _ hw
  · exact render_tidy_null _ _ _ _ _

theorem pSummarize_tidy (c : PCtx) (fuel : Nat) (pipe kw : Span) (ts : List Token) :
    (pSummarize c fuel pipe kw ts).val.tidy = true := by
  unfold pSummarize
  dsimp only
  repeat' split
  all_goals simp [Op.tidy]

def TTab (c : PCtx) (f : Nat) : Prop := ∀ ts, TokOK ts → (pTabular c f ts).val.tidy = true
def TOps (c : PCtx) (f : Nat) : Prop :=
  ∀ ops acc ts, TokOK ts → ops.tidy = true → (pOps c f ops acc ts).val.tidy = true
def TOperator (c : PCtx) (f : Nat) : Prop :=
  ∀ pipe name ts r, TokOK ts → pOperator c f pipe name ts = some r → r.val.tidy = true
def TJoin (c : PCtx) (f : Nat) : Prop := ∀ pipe kw ts, TokOK ts → (pJoin c f pipe kw ts).val.tidy = true

theorem tidy_step_tab {c : PCtx} {f : Nat} (hO : TOps c f) : TTab c (f + 1) := by
  intro ts hok
  unfold pTabular
  dsimp only
  generalize hi : pIdent c ts = ri
  obtain ⟨iv, ie, irest⟩ := ri
  dsimp only
  rcases pIdent_cases hi with ⟨t0, rfl, hk0, rfl, rfl⟩ | ⟨rfl, hie, -, -⟩
  · dsimp only
    simp only [Tabular.tidy]
    exact hO _ _ _ hok.tail (by simp [OpList.tidy])
  · simp [Tabular.tidy]

theorem tidy_step_ops {c : PCtx} {f : Nat} (hO : TOps c f) (hOp : TOperator c f) : TOps c (f + 1) := by
  intro ops acc ts hok htidy
  unfold pOps
  split
  · exact htidy
  · rename_i pipeTok rest0
    dsimp only
    have hok2 : TokOK (split .pipe rest0).2 := hok.tail.split2
    have hok1 : TokOK (split .pipe rest0).1 := hok.tail.split1
    split
    · exact htidy
    · split
      · exact hO _ _ _ hok2 htidy
      · rename_i name opToks hsp1
        rw [hsp1] at hok1
        split
        · exact hO _ _ _ hok2 htidy
        · split
          · exact hO _ _ _ hok2 htidy
          · rename_i r hop
            refine hO _ _ _ hok2 ?_
            rw [opList_tidy_snoc, htidy, hOp _ _ _ _ hok1.tail hop]
            rfl

theorem tidy_step_join {c : PCtx} {f : Nat} (hT : TTab c f) : TJoin c (f + 1) := by
  intro pipe kw ts hok
  have hnil : ∀ (kind ka : Span) (fl : Option Ident) (lp rp on : Span) (cs : ExprList),
      (Op.join pipe kw kind ka fl lp .nil rp on cs).tidy = true := by
    intros; simp [Op.tidy, Tabular.tidy]
  unfold pJoin
  dsimp only
  split
  · exact hnil _ _ _ _ _ _ _
  · rename_i t0 rest0
    split
    · rename_i hdr r heq
      split at heq
      · split at heq
        · simp only [Sum.inr.injEq] at heq; subst heq; exact hnil _ _ _ _ _ _ _
        · split at heq
          · simp only [Sum.inr.injEq] at heq; subst heq; exact hnil _ _ _ _ _ _ _
          · split at heq
            · simp only [Sum.inr.injEq] at heq; subst heq; exact hnil _ _ _ _ _ _ _
            · split at heq
              · simp only [Sum.inr.injEq] at heq; subst heq; exact hnil _ _ _ _ _ _ _
              · simp at heq
      · simp at heq
    · exact hnil _ _ _ _ _ _ _
    · rename_i hdr kind ka fl e0 rest1 heq
      have hok1 : TokOK rest1 := by
        split at heq
        · split at heq
          · simp at heq
          · split at heq
            · simp at heq
            · split at heq
              · simp at heq
              · split at heq
                · simp at heq
                · simp only [Sum.inl.injEq, Option.some.injEq, Prod.mk.injEq] at heq
                  obtain ⟨-, -, -, -, rfl⟩ := heq
                  exact hok.tail.tail.tail
        · simp only [Sum.inl.injEq, Option.some.injEq, Prod.mk.injEq] at heq
          obtain ⟨-, -, -, -, rfl⟩ := heq
          exact hok
      clear heq
      split
      · exact hnil _ _ _ _ _ _ _
      · rename_i lp rest2
        split
        · exact hnil _ _ _ _ _ _ _
        · have hr : (pTabular c f (split .rparen rest2).1).val.tidy = true := hT _ hok1.tail.split1
          repeat' split
          all_goals simpa [Op.tidy] using hr

theorem tidy_step_operator {c : PCtx} {f : Nat} (hJ : TJoin c f) : TOperator c (f + 1) := by
  intro pipe name ts r hok h
  unfold pOperator at h
  dsimp only at h
  generalize Bytes.ofString "count" = s1 at h
  generalize Bytes.ofString "where" = s2 at h
  generalize Bytes.ofString "filter" = s3 at h
  generalize Bytes.ofString "sort" = s4 at h
  generalize Bytes.ofString "order" = s5 at h
  generalize Bytes.ofString "take" = s6 at h
  generalize Bytes.ofString "limit" = s7 at h
  generalize Bytes.ofString "top" = s8 at h
  generalize Bytes.ofString "project" = s9 at h
  generalize Bytes.ofString "extend" = s10 at h
  generalize Bytes.ofString "summarize" = s11 at h
  generalize Bytes.ofString "join" = s12 at h
  generalize Bytes.ofString "as" = s13 at h
  generalize Bytes.ofString "render" = s14 at h
  by_cases hv : (name.value == s1) = true
  · rw [if_pos hv] at h; cases h; simp [Op.tidy]
  rw [if_neg hv] at h; clear hv
  by_cases hv : (name.value == s2 || name.value == s3) = true
  · rw [if_pos hv] at h; cases h; simp [Op.tidy]
  rw [if_neg hv] at h; clear hv
  by_cases hv : (name.value == s4 || name.value == s5) = true
  · rw [if_pos hv] at h
    split at h
    · cases h; simp [Op.tidy]
    · split at h <;> (cases h; simp [Op.tidy])
  rw [if_neg hv] at h; clear hv
  by_cases hv : (name.value == s6 || name.value == s7) = true
  · rw [if_pos hv] at h; cases h; simp [Op.tidy]
  rw [if_neg hv] at h; clear hv
  by_cases hv : (name.value == s8) = true
  · rw [if_pos hv] at h
    split at h
    · cases h; simp [Op.tidy]
    · split at h
      · cases h; simp [Op.tidy]
      · split at h <;> (cases h; simp [Op.tidy])
  rw [if_neg hv] at h; clear hv
  by_cases hv : (name.value == s9) = true
  · rw [if_pos hv] at h; cases h; simp [Op.tidy]
  rw [if_neg hv] at h; clear hv
  by_cases hv : (name.value == s10) = true
  · rw [if_pos hv] at h; cases h; simp [Op.tidy]
  rw [if_neg hv] at h; clear hv
  by_cases hv : (name.value == s11) = true
  · rw [if_pos hv] at h; cases h; exact pSummarize_tidy _ _ _ _ _
  rw [if_neg hv] at h; clear hv
  by_cases hv : (name.value == s12) = true
  · rw [if_pos hv] at h; cases h; exact hJ _ _ _ hok
  rw [if_neg hv] at h; clear hv
  by_cases hv : (name.value == s13) = true
  · rw [if_pos hv] at h; cases h; simp [Op.tidy]
  rw [if_neg hv] at h; clear hv
  by_cases hv : (name.value == s14) = true
  · rw [if_pos hv] at h; cases h; exact pRender_tidy _ _ _ _ _ hok
  rw [if_neg hv] at h
  cases h

/-- the tabular productions only build tidy trees -/
theorem tidy_tab_all (c : PCtx) (fuel : Nat) : TTab c fuel ∧ TOps c fuel ∧ TOperator c fuel ∧ TJoin c fuel := by
  induction fuel with
  | zero =>
    refine ⟨?_, ?_, ?_, ?_⟩
    · intro ts _; simp [pTabular, Tabular.tidy]
    · intro ops acc ts _ h; simpa [pOps] using h
    · intro pipe name ts r _ h
      simp only [pOperator, Option.some.injEq] at h
      subst h; simp [Op.tidy]
    · intro pipe kw ts _; simp [pJoin, Op.tidy]
  | succ f ih =>
    obtain ⟨hT, hO, hOp, hJ⟩ := ih
    exact ⟨tidy_step_tab hO, tidy_step_ops hO hOp, tidy_step_operator hJ, tidy_step_join hT⟩

theorem pTabular_tidy (c : PCtx) (fuel : Nat) (ts : List Token) (hok : TokOK ts) :
    (pTabular c fuel ts).val.tidy = true := (tidy_tab_all c fuel).1 ts hok

/-! ### statements -/

theorem pLet_tidy (c : PCtx) (fuel : Nat) (ts : List Token) :
    ∀ s, (pLet c fuel ts).val = some s → s.tidy = true := by
  unfold pLet
  dsimp only
  repeat' split
  all_goals (intro s hs; cases hs <;> rfl)

theorem stmtFirst_tidy (c : PCtx) (ts : List Token) (hok : TokOK ts) (s : Stmt)
    (h : (stmtFirst c ts).val = some s) : s.tidy = true := by
  unfold stmtFirst at h
  dsimp only at h
  split at h
  · exact pLet_tidy _ _ _ _ h
  · have ht := pTabular_tidy c (fuelFor ts.length) ts hok
    split at h
    · simp at h
    · simp only [Option.some.injEq] at h
      subst h
      exact ht

theorem pStatement_tidy (c : PCtx) (ts : List Token) (hok : TokOK ts) (s : Stmt)
    (h : (pStatement c ts).1 = some s) : s.tidy = true := by
  rw [pStatement_eq] at h
  unfold stmtTail at h
  split at h
  · split at h <;> simp at h
  · exact stmtFirst_tidy c ts hok s h

theorem pStatements_tidy (c : PCtx) : ∀ (n : Nat) (acc : List Stmt) (errs : Errs) (ts : List Token),
    TokOK ts → (∀ s ∈ acc, s.tidy = true) → ∀ s ∈ (pStatements c n acc errs ts).1, s.tidy = true := by
  intro n
  induction n with
  | zero => intro acc errs ts _ hacc; simpa [pStatements] using hacc
  | succ n ih =>
    intro acc errs ts hok hacc
    unfold pStatements
    dsimp only
    have hst := pStatement_tidy c (splitSemi ts).1 hok.splitSemi1
    generalize pStatement c (splitSemi ts).1 = r at hst
    obtain ⟨o, es, b⟩ := r
    dsimp only at hst ⊢
    have hacc' : ∀ s ∈ (match o with | some s => acc ++ [s] | none => acc), s.tidy = true := by
      cases o with
      | none => exact hacc
      | some s0 =>
        intro s hs
        rcases List.mem_append.mp hs with hs | hs
        · exact hacc s hs
        · rw [List.mem_singleton.mp hs]; exact hst s0 rfl
    split
    · exact hacc'
    · rename_i semi rest hsp2
      have hokr : TokOK rest := by
        have := hok.splitSemi2; rw [hsp2] at this; exact this.tail
      exact ih _ _ _ hokr hacc'

/-- every statement `parseTokens` returns is tidy -/
theorem parseTokens_tidy (srcLen : Nat) (ts : List Token) (hok : TokOK ts) :
    ∀ s ∈ (parseTokens srcLen ts).1, s.tidy = true := by
  unfold parseTokens
  exact pStatements_tidy _ _ _ _ _ hok (by simp)

end Pql
