/-
ParseRoundtrip, stage (c): signs, binary operators, `in`, subscripts, identifiers — `Good` for a
node from `Good` for its children, following `writeExpr` and `tr` case by case.
-/
import PqlModel.Lemmas.SqlRoundtripGood
namespace Pql.RT
set_option linter.unusedSimpArgs false
open Pql Sql CompileOracle

theorem needsWrap_unary (a : Span) (op : TokKind) (x : Expr) : needsWrap (.unary a op x) = false := by
  simp [needsWrap, exprTypeName, Facts.maybeParenBare]

theorem needsWrap_binary (x y : Expr) (a : Span) (op : TokKind) : needsWrap (.binary x a op y) = true := by
  simp [needsWrap, exprTypeName, Facts.maybeParenBare]

theorem needsWrap_in (x : Expr) (a b c : Span) (vs : ExprList) : needsWrap (.inE x a b vs c) = true := by
  simp [needsWrap, exprTypeName, Facts.maybeParenBare]

theorem needsWrap_index (x i : Expr) (a b : Span) : needsWrap (.index x a i b) = true := by
  simp [needsWrap, exprTypeName, Facts.maybeParenBare]

/-- inversion of `do let xs ← (writeExpr ctx x).map f; …` -/
theorem map_ok {β : Type} {f : List Chunk → List Chunk} {r : Except WErr (List Chunk)}
    {k : List Chunk → Except WErr β} {cs : β}
    (h : (r.map f >>= k) = .ok cs) : ∃ xs, r = .ok xs ∧ k (f xs) = .ok cs := by
  cases r with
  | error e => cases h
  | ok xs => exact ⟨xs, rfl, h⟩

theorem bind_ok {α β : Type} {r : Except WErr α} {k : α → Except WErr β} {cs : β}
    (h : (r >>= k) = .ok cs) : ∃ xs, r = .ok xs ∧ k xs = .ok cs := by
  cases r with
  | error e => cases h
  | ok xs => exact ⟨xs, rfl, h⟩

theorem obind_some {α β : Type} {r : Option α} {k : α → Option β} {b : β}
    (h : (r >>= k) = some b) : ∃ a, r = some a ∧ k a = some b := by
  cases r with
  | none => cases h
  | some a => exact ⟨a, rfl, h⟩

theorem good_unary {ctx : Ctx} {x : Expr} (a : Span) (op : TokKind) (g : Good ctx x)
    (hok : (Expr.unary a op x).lexOK = true) : Good ctx (.unary a op x) := by
  apply Good.ofUnit (by simp [isSigned])
  intro cs want h1 h2
  simp only [writeExpr] at h1
  obtain ⟨xs, hx, h1⟩ := map_ok h1
  simp only [tr] at h2
  obtain ⟨wx, hwx, h2⟩ := obind_some h2
  have hu := (g.tight hx hwx).toUnit
  simp only [Expr.lexOK, Bool.and_eq_true, Bool.or_eq_true, decide_eq_true_eq] at hok
  rcases hok.1 with hp | hm
  · subst hp
    simp only [pure, Except.pure, if_true, Except.ok.injEq] at h1
    simp only [reduceCtorEq, if_false, if_true, pure, Option.some.injEq] at h2
    subst h1 h2
    simpa using hu.pos
  · subst hm
    simp only [pure, Except.pure, reduceCtorEq, if_false, if_true, Except.ok.injEq] at h1
    simp only [if_true, pure, Option.some.injEq] at h2
    subst h1 h2
    simpa using hu.neg

/-- both operands written by `writeExpressionMaybeParen` -/
theorem two_units {ctx : Ctx} {x y : Expr} (gx : Good ctx x) (gy : Good ctx y) {wx wy : SExpr}
    (hwx : tr (ctx.mode == .join) x = some wx) (hwy : tr (ctx.mode == .join) y = some wy)
    {k : List Chunk → List Chunk → Except WErr (List Chunk)} {cs : List Chunk}
    (h : (do let xs ← (writeExpr ctx x).map (wrapMaybe x); let ys ← (writeExpr ctx y).map (wrapMaybe y); k xs ys)
      = .ok cs) :
    ∃ xs ys, UnitP (toksOf xs) wx ∧ UnitP (toksOf ys) wy ∧ k xs ys = .ok cs := by
  obtain ⟨xs, hx, h⟩ := map_ok h
  obtain ⟨ys, hy, h⟩ := map_ok h
  exact ⟨_, _, gx.unit hx hwx, gy.unit hy hwy, h⟩

/-- the pass-through operators: the writer's table and the intended translation agree, and the
    operator text is one infix token of the SQL grammar -/
theorem plain_op {op : TokKind} {sym : String} (h : plainOp op = some sym) :
    binaryOpText op = some sym ∧ ∃ t p, txtToks sym = [t] ∧ InfixTok t sym p := by
  cases op <;> simp only [plainOp, reduceCtorEq, Option.some.injEq] at h <;> subst h <;>
    refine ⟨by decide, ?_⟩
  · exact ⟨_, _, tt_AND, infix_AND⟩
  · exact ⟨_, _, tt_OR, infix_OR⟩
  · exact ⟨_, _, tt_plus, infix_plus⟩
  · exact ⟨_, _, tt_minus, infix_minus⟩
  · exact ⟨_, _, tt_star, infix_star⟩
  · exact ⟨_, _, tt_slash, infix_slash⟩
  · exact ⟨_, _, tt_mod, infix_mod⟩
  · exact ⟨_, _, tt_lt, infix_lt⟩
  · exact ⟨_, _, tt_le, infix_le⟩
  · exact ⟨_, _, tt_gt, infix_gt⟩
  · exact ⟨_, _, tt_ge, infix_ge⟩

theorem good_binary {ctx : Ctx} {x y : Expr} (a : Span) (op : TokKind) (gx : Good ctx x) (gy : Good ctx y) :
    Good ctx (.binary x a op y) := by
  apply Good.ofExpr (needsWrap_binary ..)
  intro cs want h1 h2
  simp only [tr] at h2
  obtain ⟨wx, hwx, h2⟩ := obind_some h2
  obtain ⟨wy, hwy, h2⟩ := obind_some h2
  simp only [writeExpr] at h1
  by_cases heq : op = .eq
  · subst heq
    simp only [if_true] at h1 h2
    by_cases hj : ctx.mode = Mode.join ∧ ((hasJoinTerms x).fst || (hasJoinTerms y).fst) = true ∧
        ((hasJoinTerms x).snd || (hasJoinTerms y).snd) = true
    · rw [if_pos hj] at h1
      have hj' : (ctx.mode == Mode.join && ((hasJoinTerms x).fst || (hasJoinTerms y).fst) &&
          ((hasJoinTerms x).snd || (hasJoinTerms y).snd)) = true := by
        simp only [Bool.and_eq_true, beq_iff_eq]; exact ⟨⟨hj.1, hj.2.1⟩, hj.2.2⟩
      rw [if_pos hj'] at h2
      obtain ⟨xs, ys, ux, uy, h1⟩ := two_units gx gy hwx hwy h1
      simp only [pure, Except.pure, Except.ok.injEq, Option.some.injEq] at h1 h2
      subst h1 h2
      simpa using binP infix_eq ux uy
    · rw [if_neg hj] at h1
      have hj' : ¬ (ctx.mode == Mode.join && ((hasJoinTerms x).fst || (hasJoinTerms y).fst) &&
          ((hasJoinTerms x).snd || (hasJoinTerms y).snd)) = true := by
        simp only [Bool.and_eq_true, beq_iff_eq]; exact fun h => hj ⟨h.1.1, h.1.2, h.2⟩
      rw [if_neg hj'] at h2
      obtain ⟨xs, ys, ux, uy, h1⟩ := two_units gx gy hwx hwy h1
      simp only [pure, Except.pure, Except.ok.injEq, Option.some.injEq] at h1 h2
      subst h1 h2
      simpa using (coalesceP (binP infix_eq ux uy)).toExpr
  · rw [if_neg heq] at h1 h2
    by_cases hne : op = .ne
    · subst hne
      simp only [if_true] at h1 h2
      obtain ⟨xs, ys, ux, uy, h1⟩ := two_units gx gy hwx hwy h1
      simp only [pure, Except.pure, Except.ok.injEq, Option.some.injEq] at h1 h2
      subst h1 h2
      simpa using (coalesceP (binP infix_ne ux uy)).toExpr
    · rw [if_neg hne] at h1 h2
      by_cases hci : op = .cieq
      · subst hci
        simp only [if_true] at h1 h2
        obtain ⟨xs, hx, h1⟩ := bind_ok h1
        obtain ⟨ys, hy, h1⟩ := bind_ok h1
        simp only [pure, Except.pure, Except.ok.injEq, Option.some.injEq] at h1 h2
        subst h1 h2
        have := binP infix_eq (call1P ws_lower (gx.expr hx hwx)).toUnit (call1P ws_lower (gy.expr hy hwy)).toUnit
        simpa [fnCall] using this
      · rw [if_neg hci] at h1 h2
        by_cases hcn : op = .cine
        · subst hcn
          simp only [if_true] at h1 h2
          obtain ⟨xs, hx, h1⟩ := bind_ok h1
          obtain ⟨ys, hy, h1⟩ := bind_ok h1
          simp only [pure, Except.pure, Except.ok.injEq, Option.some.injEq] at h1 h2
          subst h1 h2
          have := binP infix_ne (call1P ws_lower (gx.expr hx hwx)).toUnit (call1P ws_lower (gy.expr hy hwy)).toUnit
          simpa [fnCall] using this
        · rw [if_neg hcn] at h1 h2
          cases hp : plainOp op with
          | none => rw [hp] at h2; cases h2
          | some sym =>
            obtain ⟨hb, t, p, htt, hinf⟩ := plain_op hp
            rw [hp] at h2
            rw [hb] at h1
            obtain ⟨xs, ys, ux, uy, h1⟩ := two_units gx gy hwx hwy h1
            simp only [pure, Except.pure, Except.ok.injEq, Option.some.injEq] at h1 h2
            subst h1 h2
            simpa [htt] using binP hinf ux uy

theorem good_index {ctx : Ctx} {x i : Expr} (a b : Span) (gx : Good ctx x) (gi : Good ctx i) :
    Good ctx (.index x a i b) := by
  apply Good.ofExpr (needsWrap_index ..)
  intro cs want h1 h2
  simp only [tr] at h2
  obtain ⟨wx, hwx, h2⟩ := obind_some h2
  obtain ⟨wi, hwi, h2⟩ := obind_some h2
  simp only [writeExpr] at h1
  obtain ⟨xs, hx, h1⟩ := map_ok h1
  obtain ⟨is, hi, h1⟩ := bind_ok h1
  simp only [pure, Except.pure, Except.ok.injEq, Option.some.injEq] at h1 h2
  subst h1 h2
  simpa using (indexP (gx.tight hx hwx) (gi.expr hi hwi)).toExpr

/-! ### lists -/

theorem toksOf_sepChunks (sep : String) (cs : List (List Chunk)) : ∀ (c : List Chunk),
    toksOf (sepChunks sep (c :: cs)) = toksOf c ++ cs.flatMap (fun d => txtToks sep ++ toksOf d) := by
  induction cs with
  | nil => intro c; simp [sepChunks]
  | cons d ds ih => intro c; simp [sepChunks, ih d]

/-- the arguments of a call / values of an `in`, paired with their chunks and translations -/
structure ArgRel (ctx : Ctx) (es : ExprList) (as : List (List Chunk)) (ws : SExprList)
    (ps : List (Expr × List Chunk × SExpr)) : Prop where
  exprs : es.toList = ps.map (·.1)
  chunks : as = ps.map (·.2.1)
  trs : ws = ofL (ps.map (·.2.2))
  good : ∀ p ∈ ps, ExprP (toksOf p.2.1) p.2.2 ∧ UnitP (toksOf (wrapMaybe p.1 p.2.1)) p.2.2

theorem writeList_rel {ctx : Ctx} : ∀ (es : ExprList) (as : List (List Chunk)) (ws : SExprList),
    writeList ctx es = .ok as → trList (ctx.mode == .join) es = some ws → (∀ e ∈ es.toList, Good ctx e) →
    ∃ ps, ArgRel ctx es as ws ps
  | .nil, as, ws, h1, h2, _ => by
    simp only [writeList, Except.ok.injEq] at h1
    simp only [trList, Option.some.injEq] at h2
    subst h1 h2
    exact ⟨[], rfl, rfl, rfl, by simp⟩
  | .cons e es, as, ws, h1, h2, hg => by
    simp only [writeList] at h1
    obtain ⟨c, hc, h1⟩ := bind_ok h1
    obtain ⟨cs, hcs, h1⟩ := bind_ok h1
    simp only [trList] at h2
    obtain ⟨w, hw, h2⟩ := obind_some h2
    obtain ⟨ws', hws, h2⟩ := obind_some h2
    simp only [pure, Except.pure, Except.ok.injEq, Option.some.injEq] at h1 h2
    subst h1 h2
    obtain ⟨ps, hps⟩ := writeList_rel es cs ws' hcs hws (fun e' he' => hg e' (by simp [ExprList.toList, he']))
    have ge : Good ctx e := hg e (by simp [ExprList.toList])
    refine ⟨(e, c, w) :: ps, ?_, ?_, ?_, ?_⟩
    · simp [ExprList.toList, hps.exprs]
    · simp [hps.chunks]
    · simp [ofL, hps.trs]
    · intro p hp
      rcases List.mem_cons.mp hp with rfl | hp
      · exact ⟨ge.expr hc hw, ge.unit hc hw⟩
      · exact hps.good p hp

theorem writeListMaybeParen_eq {ctx : Ctx} : ∀ (es : ExprList) (vs : List (List Chunk)),
    writeListMaybeParen' ctx es = .ok vs →
    ∃ as, writeList ctx es = .ok as ∧ vs = (es.toList.zip as).map (fun a => wrapMaybe a.1 a.2)
  | .nil, vs, h => by
    simp only [writeListMaybeParen', Except.ok.injEq] at h
    subst h
    exact ⟨[], by simp [writeList], by simp [ExprList.toList]⟩
  | .cons e es, vs, h => by
    simp only [writeListMaybeParen'] at h
    obtain ⟨c, hc, h⟩ := map_ok h
    obtain ⟨cs, hcs, h⟩ := bind_ok h
    obtain ⟨as, has, hvs⟩ := writeListMaybeParen_eq es cs hcs
    simp only [pure, Except.pure, Except.ok.injEq] at h
    subst h
    refine ⟨c :: as, ?_, ?_⟩
    · simp only [writeList, hc, has]; rfl
    · simp [ExprList.toList, hvs]

theorem zip_rel {ctx : Ctx} {es : ExprList} {as : List (List Chunk)} {ws : SExprList}
    {ps : List (Expr × List Chunk × SExpr)} (h : ArgRel ctx es as ws ps) :
    es.toList.zip as = ps.map (fun p => (p.1, p.2.1)) := by
  rw [h.exprs, h.chunks]
  clear h
  induction ps with
  | nil => rfl
  | cons p ps ih => simp [ih]

/-- token-level pairs of the plain arguments -/
def plainPairs (ps : List (Expr × List Chunk × SExpr)) : List (List STok × SExpr) :=
  ps.map fun p => (toksOf p.2.1, p.2.2)
/-- token-level pairs of the arguments written with `writeExpressionMaybeParen` -/
def wrapPairs (ps : List (Expr × List Chunk × SExpr)) : List (List STok × SExpr) :=
  ps.map fun p => (toksOf (wrapMaybe p.1 p.2.1), p.2.2)

theorem sepTail_plain (sep : String) (t : STok) (hs : txtToks sep = [t]) (ps : List (Expr × List Chunk × SExpr)) :
    (ps.map (·.2.1)).flatMap (fun d => txtToks sep ++ toksOf d) = sepTail t (plainPairs ps) := by
  induction ps with
  | nil => rfl
  | cons p ps ih => simp [sepTail, plainPairs, hs] at ih ⊢; exact ih

theorem sepTail_wrap (sep : String) (t : STok) (hs : txtToks sep = [t]) (ps : List (Expr × List Chunk × SExpr)) :
    (ps.map (fun p => wrapMaybe p.1 p.2.1)).flatMap (fun d => txtToks sep ++ toksOf d) = sepTail t (wrapPairs ps) := by
  induction ps with
  | nil => rfl
  | cons p ps ih => simp [sepTail, wrapPairs, hs] at ih ⊢; exact ih

theorem good_in {ctx : Ctx} {x : Expr} {vals : ExprList} (a b c : Span) (gx : Good ctx x)
    (gv : ∀ e ∈ vals.toList, Good ctx e) (hne : vals.length ≠ 0) : Good ctx (.inE x a b vals c) := by
  apply Good.ofExpr (needsWrap_in ..)
  intro cs want h1 h2
  simp only [tr] at h2
  obtain ⟨wx, hwx, h2⟩ := obind_some h2
  obtain ⟨ws, hws, h2⟩ := obind_some h2
  simp only [writeExpr] at h1
  obtain ⟨xs, hx, h1⟩ := map_ok h1
  obtain ⟨vs, hvs, h1⟩ := bind_ok h1
  obtain ⟨as, has, hvs'⟩ := writeListMaybeParen_eq vals vs hvs
  obtain ⟨ps, hps⟩ := writeList_rel vals as ws has hws gv
  simp only [pure, Except.pure, Except.ok.injEq, Option.some.injEq] at h1 h2
  subst h1 h2
  rw [zip_rel hps] at hvs'
  match ps, hps with
  | [], hps =>
    have := hps.exprs
    cases vals with
    | nil => exact absurd rfl hne
    | cons _ _ => simp [ExprList.toList] at this
  | p :: ps, hps =>
    have hu := gx.unit hx hwx
    have key := inP hu (toksOf (wrapMaybe p.1 p.2.1), p.2.2) (wrapPairs ps) (hps.good p (by simp)).2.toExpr
      (by
        intro q hq
        simp only [wrapPairs, List.mem_map] at hq
        obtain ⟨r, hr, rfl⟩ := hq
        exact (hps.good r (by simp [hr])).2.toExpr)
    rw [hps.trs]
    have hvs'' : vs = (p :: ps).map (fun p => wrapMaybe p.1 p.2.1) := by
      rw [hvs']; simp [List.map_map, Function.comp_def]
    subst hvs''
    simp only [List.map_cons, toksOf_append, toksOf_cons, chunkToks_txt, tt_in, tt_rparen, toksOf_nil,
      toksOf_sepChunks, List.append_nil]
    rw [sepTail_wrap ", " (S ",") tt_comma ps]
    simpa [wrapPairs, Function.comp_def] using key

/-! ### identifiers -/

theorem toksOf_qident (p : Ident) (ps : List Ident) :
    toksOf (sepChunks "." ((p :: ps).map fun q => [Chunk.qid q.name])) = .qid p.name :: colTailToks (ps.map (·.name)) := by
  rw [List.map_cons, toksOf_sepChunks]
  simp only [toksOf_cons, chunkToks_qid, toksOf_nil, List.append_nil, List.singleton_append, List.cons.injEq, true_and]
  induction ps with
  | nil => rfl
  | cons q qs ih => simp [colTailToks] at ih ⊢; exact ih

theorem qident_cols {ctx : Ctx} (p : Ident) (ps : List Ident) {cs : List Chunk}
    (h : (if ((p :: ps).any fun q => !q.quoted && (q.name == leftAlias || q.name == rightAlias) && ctx.mode ≠ .join) = true
        then (Except.error WErr.err : Except WErr (List Chunk))
        else .ok (sepChunks "." ((p :: ps).map fun q => [Chunk.qid q.name]))) = .ok cs) :
    AtomP (toksOf cs) (.col ((p :: ps).map (·.name))) := by
  split at h
  · cases h
  · simp only [Except.ok.injEq] at h
    subst h
    rw [toksOf_qident]
    exact colP p.name (ps.map (·.name))

theorem builtinIdent_cases (name : Bytes) :
    (name = Bytes.ofString "false" ∧ builtinIdent name = some "FALSE") ∨
    (name = Bytes.ofString "null" ∧ builtinIdent name = some "NULL") ∨
    (name = Bytes.ofString "true" ∧ builtinIdent name = some "TRUE") ∨
    (name ≠ Bytes.ofString "false" ∧ name ≠ Bytes.ofString "null" ∧ name ≠ Bytes.ofString "true" ∧
      builtinIdent name = none) := by
  by_cases h1 : name = Bytes.ofString "false"
  · subst h1; exact .inl ⟨rfl, by decide⟩
  · by_cases h2 : name = Bytes.ofString "null"
    · subst h2; exact .inr (.inl ⟨rfl, by decide⟩)
    · by_cases h3 : name = Bytes.ofString "true"
      · subst h3; exact .inr (.inr (.inl ⟨rfl, by decide⟩))
      · refine .inr (.inr (.inr ⟨h1, h2, h3, ?_⟩))
        have e1 : (Bytes.ofString "false" == name) = false := by simpa using fun h => h1 h.symm
        have e2 : (Bytes.ofString "null" == name) = false := by simpa using fun h => h2 h.symm
        have e3 : (Bytes.ofString "true" == name) = false := by simpa using fun h => h3 h.symm
        simp [builtinIdent, Facts.builtinIdentifiers, List.find?, e1, e2, e3]

theorem good_qident {ctx : Ctx} (parts : List Ident) (hscope : ctx.scope = []) (hne : parts ≠ []) :
    Good ctx (.qident parts) := by
  apply Good.ofAtom
  intro cs want h1 h2
  match parts, hne with
  | [p], _ =>
    simp only [writeExpr, hscope, lookupScope, List.find?, Option.map_none] at h1
    simp only [tr] at h2
    cases hq : p.quoted with
    | true =>
      simp only [hq, Bool.not_true, Bool.false_eq_true, if_false, Bool.false_and, Option.some.injEq] at h1 h2
      subst h2
      split at h1
      · rename_i heq; split at heq <;> cases heq; cases h1
      · exact qident_cols p [] h1
    | false =>
      simp only [hq, Bool.not_false, if_true, Bool.true_and] at h1 h2
      rcases builtinIdent_cases p.name with ⟨hn, hb⟩ | ⟨hn, hb⟩ | ⟨hn, hb⟩ | ⟨n1, n2, n3, hb⟩
      · have : isName p.name "true" = false := by rw [hn]; decide
        have : isName p.name "false" = true := by rw [hn]; decide
        simp_all only [Except.ok.injEq, Option.some.injEq, if_true, if_false, Bool.false_eq_true]
        subst h1 h2
        simpa using (constP (w := Bytes.ofString "FALSE") (by simp) (by simp))
      · have : isName p.name "true" = false := by rw [hn]; decide
        have : isName p.name "false" = false := by rw [hn]; decide
        have : isName p.name "null" = true := by rw [hn]; decide
        simp_all only [Except.ok.injEq, Option.some.injEq, if_true, if_false, Bool.false_eq_true]
        subst h1 h2
        simpa using (constP (w := Bytes.ofString "NULL") (by simp) (by simp))
      · have : isName p.name "true" = true := by rw [hn]; decide
        simp_all only [Except.ok.injEq, Option.some.injEq, if_true, if_false, Bool.false_eq_true]
        subst h1 h2
        simpa using (constP (w := Bytes.ofString "TRUE") (by simp) (by simp))
      · have : isName p.name "true" = false := by simpa [isName] using n3
        have : isName p.name "false" = false := by simpa [isName] using n1
        have : isName p.name "null" = false := by simpa [isName] using n2
        simp_all only [Except.ok.injEq, Option.some.injEq, if_true, if_false, Bool.false_eq_true]
        subst h2
        split at h1
        · rename_i heq; split at heq <;> cases heq; cases h1
        · exact qident_cols p [] h1
  | p :: q :: ps, _ =>
    simp only [writeExpr] at h1
    simp only [tr, Option.some.injEq] at h2
    subst h2
    split at h1
    · rename_i heq; split at heq <;> cases heq; cases h1
    · exact qident_cols p (q :: ps) h1

end Pql.RT
