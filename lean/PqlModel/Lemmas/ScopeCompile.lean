/-
Everything downstream of the statement loop respects scope equivalence, and the statement
loop itself preserves it.
-/
import PqlModel.Lemmas.ScopeEq
namespace Pql

/-- the writer as a function of the expression does not distinguish equivalent scopes -/
theorem writeExpr_scopeEq_fun {src : Bytes} {m : Mode} {s s' : Scope} (h : ScopeEq s s') :
    writeExpr ⟨src, s, m⟩ = writeExpr ⟨src, s', m⟩ :=
  funext (writeExpr_scopeEq h)

mutual
theorem splitQueries_scopeEq {src : Bytes} {s s' : Scope} (h : ScopeEq s s') :
    (t : Tabular) → (dst : List Subquery) → splitQueries src s dst t = splitQueries src s' dst t
  | .nil, dst => by simp only [splitQueries]
  | .mk source ops, dst => by
    simp only [splitQueries, splitOps_scopeEq h ops]

theorem splitOps_scopeEq {src : Bytes} {s s' : Scope} (h : ScopeEq s s') :
    (ops : OpList) → (source : Option Ident) → (dstStart : Nat) → (dst : List Subquery) →
      splitOps src s source dstStart dst ops = splitOps src s' source dstStart dst ops
  | .nil, source, dstStart, dst => by simp only [splitOps]
  | .cons (.as_ _ _ name) rest, source, dstStart, dst => by
    simp only [splitOps, splitOps_scopeEq h rest]
  | .cons (.sort _ _ terms) rest, source, dstStart, dst => by
    simp only [splitOps, splitOps_scopeEq h rest]
  | .cons (.take _ _ n) rest, source, dstStart, dst => by
    simp only [splitOps, splitOps_scopeEq h rest]
  | .cons (.top _ _ n _ col) rest, source, dstStart, dst => by
    simp only [splitOps, splitOps_scopeEq h rest]
  | .cons (.join _ _ _ _ flavor _ right _ _ conds) rest, source, dstStart, dst => by
    simp only [splitOps, splitOps_scopeEq h rest, splitQueries_scopeEq h right, writeExpr_scopeEq h]
  | .cons (.count ..) rest, source, dstStart, dst => by
    simp only [splitOps, splitOps_scopeEq h rest]
  | .cons (.where_ ..) rest, source, dstStart, dst => by
    simp only [splitOps, splitOps_scopeEq h rest]
  | .cons (.project ..) rest, source, dstStart, dst => by
    simp only [splitOps, splitOps_scopeEq h rest]
  | .cons (.extend ..) rest, source, dstStart, dst => by
    simp only [splitOps, splitOps_scopeEq h rest]
  | .cons (.summarize ..) rest, source, dstStart, dst => by
    simp only [splitOps, splitOps_scopeEq h rest]
  | .cons (.render ..) rest, source, dstStart, dst => by
    simp only [splitOps, splitOps_scopeEq h rest]
end

theorem columnAlias_scopeEq {src : Bytes} {m : Mode} (s s' : Scope) :
    columnAlias ⟨src, s, m⟩ = columnAlias ⟨src, s', m⟩ := by
  funext c
  simp only [columnAlias]

theorem writeColumns_scopeEq {src : Bytes} {m : Mode} {s s' : Scope} (h : ScopeEq s s') (cs : List Column) :
    writeColumns ⟨src, s, m⟩ cs = writeColumns ⟨src, s', m⟩ cs := by
  induction cs with
  | nil => simp only [writeColumns]
  | cons c cs ih => simp only [writeColumns, ih, writeExpr_scopeEq h, columnAlias_scopeEq s s']

theorem writeSortTerms_scopeEq {src : Bytes} {m : Mode} {s s' : Scope} (h : ScopeEq s s') (ts : List SortTerm) :
    writeSortTerms ⟨src, s, m⟩ ts = writeSortTerms ⟨src, s', m⟩ ts := by
  induction ts with
  | nil => simp only [writeSortTerms]
  | cons t ts ih => simp only [writeSortTerms, ih, writeExpr_scopeEq h]

theorem Subquery_write_scopeEq {src : Bytes} {m : Mode} {s s' : Scope} (h : ScopeEq s s') (sub : Subquery) :
    sub.write ⟨src, s, m⟩ = sub.write ⟨src, s', m⟩ := by
  simp only [Subquery.write, writeExpr_scopeEq_fun h, writeColumns_scopeEq h, writeSortTerms_scopeEq h]

theorem writeCtes_scopeEq {src : Bytes} {m : Mode} {s s' : Scope} (h : ScopeEq s s') :
    (subs : List Subquery) → writeCtes ⟨src, s, m⟩ subs = writeCtes ⟨src, s', m⟩ subs
  | [] => by simp only [writeCtes]
  | [a] => by simp only [writeCtes, Subquery_write_scopeEq h]
  | a :: b :: rest => by
    simp only [writeCtes, Subquery_write_scopeEq h, writeCtes_scopeEq h (b :: rest)]

/-- results of the statement loop, equal up to equivalence of the returned scopes -/
def StmtsResEq : Except WErr (Scope × Option Tabular) → Except WErr (Scope × Option Tabular) → Prop
  | .ok (sc, q), .ok (sc', q') => ScopeEq sc sc' ∧ q = q'
  | .error e, .error e' => e = e'
  | _, _ => False

/-- the statement loop preserves scope equivalence: a `let` writes the same value on both
    sides and conses the same pair -/
theorem compileStmts_scopeEq (src : Bytes) :
    (stmts : List Stmt) → (s s' : Scope) → (q : Option Tabular) → ScopeEq s s' →
      StmtsResEq (compileStmts src stmts s q) (compileStmts src stmts s' q)
  | [], s, s', q, h => by
    simp only [compileStmts, StmtsResEq]
    exact ⟨h, trivial⟩
  | .tabular t :: rest, s, s', q, h => by
    cases q with
    | some _ => simp only [compileStmts, StmtsResEq]
    | none =>
      simp only [compileStmts]
      exact compileStmts_scopeEq src rest s s' _ h
  | .let_ _ name _ x :: rest, s, s', q, h => by
    cases q with
    | some _ =>
      simp only [compileStmts]
      exact compileStmts_scopeEq src rest s s' _ h
    | none =>
      simp only [compileStmts, writeExpr_scopeEq h x]
      cases (writeExpr ⟨src, s', .let_⟩ x) with
      | error e => simp only [Except.map, StmtsResEq]
      | ok sql =>
        simp only [Except.map]
        cases name with
        | none => simp only [StmtsResEq]
        | some n => exact compileStmts_scopeEq src rest _ _ _ (h.cons _)

/-- `find?` by key does not depend on the order of a list with distinct keys -/
theorem find?_key_perm {α β : Type} [BEq α] [LawfulBEq α] {l l' : List (α × β)} (hp : l.Perm l')
    (hn : (l.map (·.1)).Nodup) (n : α) : l.find? (·.1 == n) = l'.find? (·.1 == n) := by
  induction hp with
  | nil => rfl
  | cons x _ ih =>
    simp only [List.map_cons, List.nodup_cons] at hn
    simp only [List.find?_cons, ih hn.2]
  | swap x y l =>
    simp only [List.map_cons, List.nodup_cons, List.mem_cons, not_or] at hn
    simp only [List.find?_cons]
    cases hx : x.1 == n <;> cases hy : y.1 == n <;> try rfl
    exact absurd ((eq_of_beq hy).trans (eq_of_beq hx).symm) hn.1.1
  | trans hp₁ _ ih₁ ih₂ =>
    exact (ih₁ hn).trans (ih₂ ((hp₁.map _).nodup_iff.1 hn))

/-- the initial scope built from the parameters -/
def paramScope (params : List (Bytes × Bytes)) : Scope := params.map fun kv => (kv.1, [Chunk.raw kv.2])

theorem lookupScope_paramScope (params : List (Bytes × Bytes)) (n : Bytes) :
    lookupScope (paramScope params) n = (params.find? (·.1 == n)).map fun kv => [Chunk.raw kv.2] := by
  induction params with
  | nil => rfl
  | cons kv rest ih =>
    unfold paramScope at ih ⊢
    rw [List.map_cons, lookupScope_cons, List.find?_cons, ih]
    cases kv.1 == n <;> rfl

theorem paramScope_perm {params params' : List (Bytes × Bytes)} (hp : params.Perm params')
    (hn : (params.map (·.1)).Nodup) : ScopeEq (paramScope params) (paramScope params') := by
  intro n
  rw [lookupScope_paramScope, lookupScope_paramScope, find?_key_perm hp hn n]

end Pql
