/-
End-to-end composition, part 1: the gap between "the emitted SQL is READ as the intended statement up
to `normS`" (C05) and "the intended statement EVALUATES to the meaning of the pipeline" (C02 / C03).

`normS` does two things: it lower-cases function names and it reads the operator `!=` as `<>`.

* The reference evaluator is invariant under the first (`evalS_normF`, `hasAgg_normF`,
  `evalSelect_normSelF`: unconditional).
* It is NOT invariant under the second: `binOp "!=" …` is an uninterpreted term, `binOp "<>" …` a
  boolean (`evalS_not_invariant_under_normS`, `evalStatement_not_invariant_under_statementEq`).

Hence `normStatement` (`normSel` on every CTE and on the body): `statementEq a b = true` is exactly
`normStatement a = normStatement b` (`normStatement_eq_of_statementEq`, via `SExpr.beq` being equality),
and for statements without a `!=` operator (`noBangStatement`; every intended statement is one:
Lemmas/E2EIntended.lean) evaluating the normal form is evaluating the statement
(`evalStatement_normStatement`).
-/
import PqlModel.Lemmas.JoinSemTr
import PqlModel.Spec.Intended
namespace Pql.E2E
open Pql Sql CompileOracle JoinSem

/-! ### `SExpr.beq` is equality -/

mutual
theorem sexpr_eq_of_beq : ∀ a b : SExpr, SExpr.beq a b = true → a = b
  | .col x, b, h => by cases b <;> simp_all [SExpr.beq]
  | .str x, b, h => by cases b <;> simp_all [SExpr.beq]
  | .num x, b, h => by cases b <;> simp_all [SExpr.beq]
  | .param x, b, h => by cases b <;> simp_all [SExpr.beq]
  | .const x, b, h => by cases b <;> simp_all [SExpr.beq]
  | .none_, b, h => by cases b <;> simp_all [SExpr.beq]
  | .call f s as fl, b, h => by
    cases b <;> simp only [SExpr.beq, Bool.and_eq_true, beq_iff_eq, reduceCtorEq] at h
    obtain ⟨⟨⟨h1, h2⟩, h3⟩, h4⟩ := h
    rw [h1, h2, sexprList_eq_of_beq _ _ h3, sexpr_eq_of_beq _ _ h4]
  | .case_ a1 a2 a3, b, h => by
    cases b <;> simp only [SExpr.beq, Bool.and_eq_true, reduceCtorEq] at h
    rw [sexpr_eq_of_beq _ _ h.1.1, sexpr_eq_of_beq _ _ h.1.2, sexpr_eq_of_beq _ _ h.2]
  | .neg a1, b, h => by
    cases b <;> simp only [SExpr.beq, reduceCtorEq] at h
    rw [sexpr_eq_of_beq _ _ h]
  | .pos a1, b, h => by
    cases b <;> simp only [SExpr.beq, reduceCtorEq] at h
    rw [sexpr_eq_of_beq _ _ h]
  | .not_ a1, b, h => by
    cases b <;> simp only [SExpr.beq, reduceCtorEq] at h
    rw [sexpr_eq_of_beq _ _ h]
  | .bin o a1 a2, b, h => by
    cases b <;> simp only [SExpr.beq, Bool.and_eq_true, beq_iff_eq, reduceCtorEq] at h
    rw [h.1.1, sexpr_eq_of_beq _ _ h.1.2, sexpr_eq_of_beq _ _ h.2]
  | .isNull a1 n, b, h => by
    cases b <;> simp only [SExpr.beq, Bool.and_eq_true, beq_iff_eq, reduceCtorEq] at h
    rw [h.1, sexpr_eq_of_beq _ _ h.2]
  | .inList a1 as, b, h => by
    cases b <;> simp only [SExpr.beq, Bool.and_eq_true, reduceCtorEq] at h
    rw [sexpr_eq_of_beq _ _ h.1, sexprList_eq_of_beq _ _ h.2]
  | .index a1 a2, b, h => by
    cases b <;> simp only [SExpr.beq, Bool.and_eq_true, reduceCtorEq] at h
    rw [sexpr_eq_of_beq _ _ h.1, sexpr_eq_of_beq _ _ h.2]
theorem sexprList_eq_of_beq : ∀ a b : SExprList, SExprList.beq a b = true → a = b
  | .nil, b, h => by cases b <;> simp_all [SExprList.beq]
  | .cons a as, b, h => by
    cases b <;> simp only [SExprList.beq, Bool.and_eq_true, reduceCtorEq] at h
    rw [sexpr_eq_of_beq _ _ h.1, sexprList_eq_of_beq _ _ h.2]
end

theorem sexpr_eq_of_beq' {a b : SExpr} (h : (a == b) = true) : a = b := sexpr_eq_of_beq a b h

/-! ### the evaluator does not depend on the case of function names -/

mutual
/-- the first half of `normS`: function names lower-cased, operators untouched -/
def normF : SExpr → SExpr
  | .call fn st args fl => .call (lower fn) st (normFL args) (normF fl)
  | .case_ a b c => .case_ (normF a) (normF b) (normF c)
  | .neg x => .neg (normF x)
  | .pos x => .pos (normF x)
  | .not_ x => .not_ (normF x)
  | .bin op x y => .bin op (normF x) (normF y)
  | .isNull x n => .isNull (normF x) n
  | .inList x vs => .inList (normF x) (normFL vs)
  | .index x i => .index (normF x) (normF i)
  | e => e
def normFL : SExprList → SExprList
  | .nil => .nil
  | .cons e es => .cons (normF e) (normFL es)
end

mutual
/-- **the reference evaluator is invariant under the case of function names** (unconditionally) -/
theorem evalS_normF : (s : SExpr) → ∀ g env, evalS g env (normF s) = evalS g env s
  | .col _, _, _ => by simp [normF]
  | .str _, _, _ => by simp [normF]
  | .num _, _, _ => by simp [normF]
  | .param _, _, _ => by simp [normF]
  | .const _, _, _ => by simp [normF]
  | .none_, _, _ => by simp [normF]
  | .case_ a b c, g, env => by simp only [normF, evalS, evalS_normF a, evalS_normF b, evalS_normF c]
  | .neg x, g, env => by simp only [normF, evalS, evalS_normF x]
  | .pos x, g, env => by simp only [normF, evalS, evalS_normF x]
  | .not_ x, g, env => by simp only [normF, evalS, evalS_normF x]
  | .isNull x n, g, env => by simp only [normF, evalS, evalS_normF x]
  | .index x y, g, env => by simp only [normF, evalS, evalS_normF x, evalS_normF y]
  | .inList x vs, g, env => by simp only [normF, evalS, evalS_normF x, evalArgs_normFL vs]
  | .bin op x y, g, env => by simp only [normF, evalS, evalS_normF x, evalS_normF y]
  | .call fn st args fl, g, env => by
    have hfl : ∀ g env, evalS g env (normF fl) = evalS g env fl := evalS_normF fl
    have hargs : ∀ g env, evalArgs g env (normFL args) = evalArgs g env args := evalArgs_normFL args
    simp only [normF]
    by_cases hnone : fl = .none_
    · subst hnone
      simp only [normF, evalS, isAggName_lowerB, lower_eq_lowerB, lowerB_idem, hargs]
      cases args with
      | nil => simp only [normFL]
      | cons a rest =>
        cases rest with
        | nil =>
          have ha : ∀ g env, evalS g env (normF a) = evalS g env a := by
            intro g env; have := hargs g env; simpa [normFL, evalArgs] using this
          simp only [normFL, ha]
        | cons b rest => simp only [normFL]
    · have hnone' : normF fl = .none_ → False := by
        intro hc; apply hnone; cases fl <;> simp [normF] at hc ⊢
      rw [evalS.eq_7 _ _ _ _ _ _ hnone', evalS.eq_7 _ _ _ _ _ _ hnone]
      simp only [isAggName_lowerB, lower_eq_lowerB, lowerB_idem, hargs, hfl]
      cases args with
      | nil => simp only [normFL]
      | cons a rest =>
        cases rest with
        | nil =>
          have ha : ∀ g env, evalS g env (normF a) = evalS g env a := by
            intro g env; have := hargs g env; simpa [normFL, evalArgs] using this
          simp only [normFL, ha]
        | cons b rest => simp only [normFL]
theorem evalArgs_normFL : (l : SExprList) → ∀ g env, evalArgs g env (normFL l) = evalArgs g env l
  | .nil, _, _ => by simp [normFL]
  | .cons e es, g, env => by simp only [normFL, evalArgs, evalS_normF e, evalArgs_normFL es]
end

mutual
theorem hasAgg_normF : (s : SExpr) → hasAgg (normF s) = hasAgg s
  | .col _ | .str _ | .num _ | .param _ | .const _ | .none_ => by simp [normF]
  | .case_ a b c => by simp only [normF, hasAgg, hasAgg_normF a, hasAgg_normF b, hasAgg_normF c]
  | .neg x | .pos x | .not_ x | .isNull x _ => by simp only [normF, hasAgg, hasAgg_normF x]
  | .index x y | .bin _ x y => by simp only [normF, hasAgg, hasAgg_normF x, hasAgg_normF y]
  | .inList x vs => by simp only [normF, hasAgg, hasAgg_normF x, hasAggList_normFL vs]
  | .call fn st args fl => by
    simp only [normF, hasAgg, isAggName_lower, hasAggList_normFL args, hasAgg_normF fl]
theorem hasAggList_normFL : (l : SExprList) → hasAggList (normFL l) = hasAggList l
  | .nil => by simp [normFL]
  | .cons e es => by simp only [normFL, hasAggList, hasAgg_normF e, hasAggList_normFL es]
end

mutual
/-- without a `!=` operator, `normS` is `normF` -/
theorem normS_eq_normF : (s : SExpr) → noBang s = true → normS s = normF s
  | .col _, _ | .str _, _ | .num _, _ | .param _, _ | .const _, _ | .none_, _ => by simp [normS, normF]
  | .case_ a b c, h => by
    simp only [noBang, Bool.and_eq_true] at h
    simp only [normS, normF, normS_eq_normF a h.1.1, normS_eq_normF b h.1.2, normS_eq_normF c h.2]
  | .neg x, h | .pos x, h | .not_ x, h | .isNull x _, h => by
    simp only [noBang] at h
    simp only [normS, normF, normS_eq_normF x h]
  | .index x y, h => by
    simp only [noBang, Bool.and_eq_true] at h
    simp only [normS, normF, normS_eq_normF x h.1, normS_eq_normF y h.2]
  | .inList x vs, h => by
    simp only [noBang, Bool.and_eq_true] at h
    simp only [normS, normF, normS_eq_normF x h.1, normL_eq_normFL vs h.2]
  | .bin op x y, h => by
    simp only [noBang, Bool.and_eq_true, bne_iff_ne, ne_eq] at h
    have hop : (op == "!=") = false := by simp [h.1.1]
    simp only [normS, normF, normS_eq_normF x h.1.2, normS_eq_normF y h.2, hop, Bool.false_eq_true, ↓reduceIte]
  | .call fn st args fl, h => by
    simp only [noBang, Bool.and_eq_true] at h
    simp only [normS, normF, normL_eq_normFL args h.1, normS_eq_normF fl h.2]
theorem normL_eq_normFL : (l : SExprList) → noBangL l = true → normL l = normFL l
  | .nil, _ => by simp [normL, normFL]
  | .cons e es, h => by
    simp only [noBangL, Bool.and_eq_true] at h
    simp only [normL, normFL, normS_eq_normF e h.1, normL_eq_normFL es h.2]
end

/-- **`normS` itself is not an invariance of the evaluator**: `1 != 2` is an uninterpreted term,
    its normal form `1 <> 2` is TRUE. -/
theorem evalS_not_invariant_under_normS :
    evalS [] [] (.bin "!=" (.num [49]) (.num [50])) = .term (Bytes.ofString "!=(1,2)") ∧
    evalS [] [] (normS (.bin "!=" (.num [49]) (.num [50]))) = .bool true := by
  constructor <;> decide

end Pql.E2E
