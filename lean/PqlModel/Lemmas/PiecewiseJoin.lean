/-
Property C15, parse half — the statement loop on `X ++ ';' :: Y`: run it on `X`, then continue
on `Y` (fuel independence, accumulator factoring, commutation with moving the tokens).
-/
import PqlModel.Lemmas.PiecewiseStmts
import PqlModel.Lemmas.ParseFuelBasic
namespace Pql.Piecewise
open Pql

/-- the number of iterations does not matter once it exceeds the number of tokens -/
theorem pStatements_fuel (c : PCtx) : ∀ (k k' : Nat) (acc : List Stmt) (errs : Errs) (ts : List Token),
    ts.length < k → ts.length < k' → pStatements c k acc errs ts = pStatements c k' acc errs ts := by
  intro k
  induction k with
  | zero => intro k' acc errs ts h; omega
  | succ k ih =>
    intro k' acc errs ts h h'
    cases k' with
    | zero => omega
    | succ k' =>
      have hl := splitSemi_length ts
      simp only [pStatements]
      rcases hsp : (splitSemi ts).2 with _ | ⟨s, rest⟩
      · rfl
      · rw [hsp] at hl
        simp only [List.length_cons] at hl
        exact ih _ _ _ _ (by omega) (by omega)

/-- the statement loop on `X ++ ';' :: Y` -/
theorem pStatements_append (c : PCtx) : ∀ (k : Nat) (acc : List Stmt) (errs : Errs)
    (X : List Token) (s : Token) (Y : List Token), s.kind = .semi → (X ++ s :: Y).length < k →
    pStatements c k acc errs (X ++ s :: Y) =
      pStatements c (Y.length + 1) (pStatements c (X.length + 1) acc errs X).1
        (pStatements c (X.length + 1) acc errs X).2 Y := by
  intro k
  induction k with
  | zero => intro acc errs X s Y _ h; omega
  | succ k ih =>
    intro acc errs X s Y hs hk
    have hns := splitSemi_no_semi X
    have hap := splitSemi_append X
    rcases splitSemi_rest X with h2 | ⟨s', X', h2, hs'⟩
    · -- no semicolon token in `X`
      rw [h2, List.append_nil] at hap
      rw [hap] at hns
      rw [pStatements_step c k acc errs X s Y hns hs, pStatements_last c _ acc errs X hns]
      simp only [List.length_append, List.length_cons] at hk
      exact pStatements_fuel c _ _ _ _ _ (by omega) (by omega)
    · -- `X = g ++ ';' :: X'`
      rw [h2] at hap
      generalize (splitSemi X).1 = g at hap hns
      subst hap
      rw [List.append_assoc, List.cons_append, pStatements_step c k acc errs g s' _ hns hs']
      simp only [List.length_append, List.length_cons] at hk
      rw [ih _ _ X' s Y hs (by simp only [List.length_append, List.length_cons]; omega)]
      rw [pStatements_step c _ acc errs g s' X' hns hs']
      rw [pStatements_fuel c (g ++ s' :: X').length (X'.length + 1) _ _ X'
        (by simp only [List.length_append, List.length_cons]; omega) (by omega)]

theorem pStatements_succ_nil (c : PCtx) (k : Nat) (acc : List Stmt) (errs : Errs) (ts : List Token)
    (h : (splitSemi ts).2 = []) :
    pStatements c (k + 1) acc errs ts = stepAcc (acc, errs) (pStatement c (splitSemi ts).1) := by
  simp only [pStatements, h, stepAcc]
  cases (pStatement c (splitSemi ts).1).1 <;> simp

theorem pStatements_succ_cons (c : PCtx) (k : Nat) (acc : List Stmt) (errs : Errs) (ts : List Token)
    (s : Token) (rest : List Token) (h : (splitSemi ts).2 = s :: rest) :
    pStatements c (k + 1) acc errs ts =
      pStatements c k (stepAcc (acc, errs) (pStatement c (splitSemi ts).1)).1
        (stepAcc (acc, errs) (pStatement c (splitSemi ts).1)).2 rest := by
  simp only [pStatements, h, stepAcc]
  cases (pStatement c (splitSemi ts).1).1 <;> simp

theorem stepAcc_fst (acc : List Stmt) (errs : Errs) (r : Option Stmt × Errs × Bool) :
    (stepAcc (acc, errs) r).1 = acc ++ (stepAcc ([], []) r).1 := by
  simp [stepAcc]

theorem stepAcc_snd_nil (c : PCtx) (acc : List Stmt) (errs : Errs) (g : List Token) :
    (stepAcc (acc, errs) (pStatement c g)).2 = [] ↔
      errs = [] ∧ (stepAcc ([], []) (pStatement c g)).2 = [] := by
  have hrepl := pStatement_repl c g
  simp only [stepAcc]
  split
  · rename_i hf; simp [hrepl hf]
  · simp

/-- the accumulated statements are only ever appended to -/
theorem pStatements_acc_fst (c : PCtx) : ∀ (k : Nat) (acc : List Stmt) (errs : Errs) (ts : List Token),
    (pStatements c k acc errs ts).1 = acc ++ (pStatements c k [] [] ts).1 := by
  intro k
  induction k with
  | zero => intro acc errs ts; simp [pStatements]
  | succ k ih =>
    intro acc errs ts
    rcases hsp : (splitSemi ts).2 with _ | ⟨s, rest⟩
    · rw [pStatements_succ_nil c k _ _ ts hsp, pStatements_succ_nil c k _ _ ts hsp]
      exact stepAcc_fst _ _ _
    · rw [pStatements_succ_cons c k _ _ ts s rest hsp, pStatements_succ_cons c k _ _ ts s rest hsp]
      rw [ih, ih (stepAcc ([], []) _).1, stepAcc_fst, List.append_assoc]

/-- the loop ends without error iff it started without error and adds none -/
theorem pStatements_errs_nil (c : PCtx) : ∀ (k : Nat) (acc : List Stmt) (errs : Errs) (ts : List Token),
    (pStatements c k acc errs ts).2 = [] ↔ errs = [] ∧ (pStatements c k [] [] ts).2 = [] := by
  intro k
  induction k with
  | zero => intro acc errs ts; simp [pStatements]
  | succ k ih =>
    intro acc errs ts
    rcases hsp : (splitSemi ts).2 with _ | ⟨s, rest⟩
    · rw [pStatements_succ_nil c k _ _ ts hsp, pStatements_succ_nil c k _ _ ts hsp]
      exact stepAcc_snd_nil c _ _ _
    · rw [pStatements_succ_cons c k _ _ ts s rest hsp, pStatements_succ_cons c k _ _ ts s rest hsp]
      rw [ih, ih (stepAcc ([], []) _).1 (stepAcc ([], []) _).2, stepAcc_snd_nil, and_assoc]

theorem TokP.splitSemi1 {ts : List Token} (h : TokP ts) : TokP (splitSemi ts).1 := by
  rw [← splitSemi_append ts, TokP_append] at h; exact h.1
theorem TokP.splitSemi2 {ts : List Token} (h : TokP ts) : TokP (splitSemi ts).2 := by
  rw [← splitSemi_append ts, TokP_append] at h; exact h.2

theorem stepAcc_sh (n m d : Nat) (acc : List Stmt) (errs : Errs) (r : Option Stmt × Errs × Bool) :
    stepAcc (acc.map (shStmt d), mapE n m d errs) (r.1.map (shStmt d), mapE n m d r.2.1, r.2.2) =
      ((stepAcc (acc, errs) r).1.map (shStmt d), mapE n m d (stepAcc (acc, errs) r).2) := by
  simp only [stepAcc]
  congr 1
  · cases r.1 <;> simp
  · split <;> simp

/-- **The statement loop commutes with moving the tokens** (source length `n`, tokens `ts`, against
    source length `m`, tokens moved by `d`). -/
theorem pStatements_sh {n m d : Nat} : ∀ (k : Nat) (acc : List Stmt) (errs : Errs) (ts : List Token),
    TokP ts →
    pStatements ⟨m⟩ k (acc.map (shStmt d)) (mapE n m d errs) (ts.map (Token.shift d)) =
      ((pStatements ⟨n⟩ k acc errs ts).1.map (shStmt d), mapE n m d (pStatements ⟨n⟩ k acc errs ts).2) := by
  intro k
  induction k with
  | zero => intro acc errs ts _; simp [pStatements]
  | succ k ih =>
    intro acc errs ts h
    have h2 := h.splitSemi2
    have hsh := splitSemi_shift d ts
    have hst := pStatement_sh (n := n) (m := m) (d := d) _ h.splitSemi1
    rcases hsp : (splitSemi ts).2 with _ | ⟨s, rest⟩
    · rw [pStatements_succ_nil ⟨n⟩ k _ _ ts hsp,
        pStatements_succ_nil ⟨m⟩ k _ _ _ (by rw [hsh, hsp]; rfl), hsh, hst]
      exact stepAcc_sh n m d _ _ _
    · rw [hsp] at h2
      rw [pStatements_succ_cons ⟨n⟩ k _ _ ts s rest hsp,
        pStatements_succ_cons ⟨m⟩ k _ _ _ (s.shift d) (rest.map (Token.shift d))
          (by rw [hsh, hsp]; rfl), hsh, hst, stepAcc_sh]
      exact ih _ _ rest ((TokP_cons _ _).mp h2).2

end Pql.Piecewise
