/-
NEW MODEL DEFINITIONS (to be moved to Model/ later) for the input plumbing of cmd/pql:
`makeInput` and `multiReadCloser.Read` (cmd/pql/main.go lines 128-199).

A Go `io.Reader` is modelled by the script of results its successive `Read` calls return:
a chunk of bytes (`n` = its length) together with a status
  `ok`  = `err == nil`      (the chunk may be empty: Go allows `0, nil`),
  `eof` = `err == io.EOF`   (the chunk may be non-empty: Go allows `n > 0, io.EOF`),
  `err` = any other error   (the chunk may be non-empty).
A script that is used up answers `0, io.EOF` from then on (ASSUMPTION A1: every reader ends;
a Go reader that never returns `io.EOF` or an error — e.g. an endless pipe — makes `run` block
for ever and is outside this model).  The results do not depend on `len(p)` (ASSUMPTION A2:
the chunking is arbitrary but fixed in advance; `bufio.Scanner` never passes an empty `p`).
`Close` is not modelled beyond "the reader is dropped from the list" (closing has no effect
on the bytes delivered).
-/
import PqlModel.Model.Cli
namespace Pql.CliIO
open Pql

inductive Status where
  | ok | eof | err
  deriving DecidableEq, Repr

/-- result of one `Read` call: the bytes put into `p[:n]` and the error value -/
abbrev ReadResult := Bytes × Status

/-- a reader = the results of its successive `Read` calls; used up = `0, io.EOF` for ever -/
abbrev Reader := List ReadResult

/-- one `Read` on an underlying reader -/
def Reader.read : Reader → ReadResult × Reader
  | [] => (([], .eof), [])
  | r :: rs => (r, rs)

/-- `multiReadCloser.Read`, the Go loop line by line.  State = `mrc.readers`.
```
for len(mrc.readers) > 0 {
    n, err = mrc.readers[0].Read(p)
    if err == io.EOF { close; mrc.readers = mrc.readers[1:] }
    if n > 0 || err != io.EOF {
        if err == io.EOF && len(mrc.readers) > 0 { err = nil }
        return
    }
}
return 0, io.EOF
``` -/
def multiRead : List Reader → ReadResult × List Reader
  | [] => (([], .eof), [])
  | r :: rest =>
    match r.read with
    | ((chunk, .eof), _) =>
      -- the reader is closed and dropped
      if chunk ≠ [] then ((chunk, if rest ≠ [] then .ok else .eof), rest)
      else multiRead rest
    | ((chunk, .ok), r') => ((chunk, .ok), r' :: rest)
    | ((chunk, .err), r') => ((chunk, .err), r' :: rest)

/-- How a drain ended: the stream reported `io.EOF`, reported another error, or the caller's
    patience (fuel) ran out. -/
inductive Ending where
  | eof | err | outOfFuel
  deriving DecidableEq, Repr

/-- Read a stream until it reports `io.EOF` or an error (what `bufio.Scanner` does with its
    input; bytes delivered together with the final status are kept, as `Scanner` does). -/
def drain {σ : Type} (read : σ → ReadResult × σ) : Nat → σ → Bytes × Ending
  | 0, _ => ([], .outOfFuel)
  | fuel + 1, s =>
    match read s with
    | ((chunk, .ok), s') => let (b, e) := drain read fuel s'; (chunk ++ b, e)
    | ((chunk, .eof), _) => (chunk, .eof)
    | ((chunk, .err), _) => (chunk, .err)

/-- SPECIFICATION: the content of one reader read alone to its end (bytes, failed?) -/
def Reader.content : Reader → Bytes × Bool
  | [] => ([], false)
  | (c, .ok) :: rs => let (b, f) := Reader.content rs; (c ++ b, f)
  | (c, .eof) :: _ => (c, false)
  | (c, .err) :: _ => (c, true)

/-- SPECIFICATION: the logical concatenation: contents in order, up to and including the first
    reader that fails -/
def concatContents : List Reader → Bytes × Bool
  | [] => ([], false)
  | r :: rs =>
    let (b, f) := r.content
    if f then (b, true) else let (b', f') := concatContents rs; (b ++ b', f')

/-- number of `Read` results still scripted -/
def totalResults (rs : List Reader) : Nat := (rs.map List.length).sum

/-- `makeInput`: no argument or the single argument "-" = standard input; one path = that file
    (no `multiReadCloser`); several = a `multiReadCloser` over them in order.  `open` = `os.Open`
    (`none` = error: `makeInput` fails and nothing is compiled).  The result is the reader list;
    a single plain reader `r` is represented by `[r]` (`multi_single`: same bytes).
    ASSUMPTION A3: among several arguments "-" occurs at most once (all occurrences share the one
    `os.Stdin`; what a second drain of standard input yields is up to the OS) — here a second
    "-" is a used-up reader. -/
def makeInput (args : List String) (stdin : Reader) (openFile : String → Option Reader) :
    Option (List Reader) :=
  if args.isEmpty ∨ args = ["-"] then some [stdin]
  else
    let rec go : List String → Bool → Option (List Reader)
      | [], _ => some []
      | p :: ps, usedStdin =>
        if p = "-" then (go ps true).map ((if usedStdin then [] else stdin) :: ·)
        else match openFile p with
          | none => none
          | some f => (go ps usedStdin).map (f :: ·)
    go args false

/-- the byte stream `run` reads, and whether reading ended with a (non-EOF) error -/
def inputStream (readers : List Reader) : Bytes × Ending :=
  drain multiRead (totalResults readers + 1) readers

/-- `run` on a stream: `bufio.Scanner` tokenises what it got (after a read error the data read
    so far are still cut into lines, the last one as if at end of input), and `scanner.Err()`
    is non-nil for an over-long line as well as for a (non-EOF) read error. -/
def cliStream (compile : Bytes → Option Bytes) (s : Bytes × Ending) : CliResult :=
  let r := bufioLines s.1
  cliRun compile r.1 (r.2 || s.2 != .eof)

/-- `RunE` after a successful `makeInput`: `run` on the multi-reader -/
def cliFiles (compile : Bytes → Option Bytes) (readers : List Reader) : CliResult :=
  cliStream compile (inputStream readers)

end Pql.CliIO
