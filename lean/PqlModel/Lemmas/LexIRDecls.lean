/-
The expected statement trees of the functions `harness/extract_lexir.go` translates, and the
theorems `…_ir : decodeFn (irOf <regenerated table> key) = some <expected tree> := by rfl`.
An edit of the Go code changes the regenerated table and one of these stops building; the semantic
lemmas (LexIRCore, LexIRNumber…, Props/C09NumberIR, C15SplitIR, C10LinecolIR) are about the expected
trees.  The environments in which the functions are interpreted are defined at the end.
-/
import PqlModel.Model.LexIR
namespace Pql.LexIR
open Pql

/-! ### abbreviations -/

def eS : Expr := .var "s"
def ePos : Expr := .fld eS "pos"
def eSrc : Expr := .fld eS "s"
def eNext : Expr := .call "scanner.next" [eS]
def sPrev : Stmt := .do_ (.call "scanner.prev" [eS])
def cIs (n : Nat) : Expr := .bin .eq (.var "c") (.int n)
def cIsNot (n : Nat) : Expr := .bin .ne (.var "c") (.int n)
def notOk : Expr := .not (.var "ok")
def notDigit : Expr := .not (.call "isDigit" [.var "c"])
def notHex : Expr := .not (.call "isHexDigit" [.var "c"])
def spanHere : Expr := .call "newSpan" [.var "start", ePos]
def tokHere (k v : String) : Expr := .mkToken (.kind k) spanHere (.str v)
/-- `span := newSpan(start, s.pos); return Token{TokenNumber, span, normalizeNumberValue(spanString(s.s, span))}` -/
def retNormalized : List Stmt :=
  [.def_ "span" spanHere,
   .ret [.mkToken (.kind "TokenNumber") (.var "span")
     (.call "normalizeNumberValue" [.call "spanString" [eSrc, .var "span"]])]]

/-! ### parser/span.go -/

def newSpanDecl : FnDecl :=
  ⟨("", ""), [("start", "int"), ("end", "int")], [("", "Span")],
   [.ret [.mkSpan (.var "start") (.var "end")]]⟩

def indexSpanDecl : FnDecl :=
  ⟨("", ""), [("i", "int")], [("", "Span")], [.ret [.mkSpan (.var "i") (.var "i")]]⟩

def spanIsValidDecl : FnDecl :=
  ⟨("span", "Span"), [], [("", "bool")],
   [.ret [.bin .and
     (.bin .and (.bin .ge (.fld (.var "span") "Start") (.int 0)) (.bin .ge (.fld (.var "span") "End") (.int 0)))
     (.bin .le (.fld (.var "span") "Start") (.fld (.var "span") "End"))]]⟩

def spanStringDecl : FnDecl :=
  ⟨("", ""), [("s", "string"), ("span", "Span")], [("", "string")],
   [.ite (.not (.call "Span.IsValid" [.var "span"])) [.ret [.str ""]] [],
    .ret [.slice (.var "s") (.fld (.var "span") "Start") (.fld (.var "span") "End")]]⟩

/-! ### the cursor -/

def nextDecl : FnDecl :=
  ⟨("s", "*scanner"), [], [("", "rune"), ("", "bool")],
   [.ite (.bin .ge ePos (.len eSrc)) [.ret [.int 0, .ff]] [],
    .def2 "c" "n" (.call "utf8.DecodeRuneInString" [.slice eSrc ePos .none]),
    .setFld "s" "last" ePos,
    .setFld "s" "pos" (.bin .add ePos (.var "n")),
    .ret [.var "c", .tt]]⟩

def prevDecl : FnDecl := ⟨("s", "*scanner"), [], [], [.setFld "s" "pos" (.fld eS "last")]⟩

def setPosDecl : FnDecl :=
  ⟨("s", "*scanner"), [("pos", "int")], [], [.setFld "s" "pos" (.var "pos"), .setFld "s" "last" (.var "pos")]⟩

/-! ### numbers -/

def s0Is (n : Nat) : Expr := .bin .eq (.index (.var "s") (.int 0)) (.int n)

def normalizeDecl : FnDecl :=
  ⟨("", ""), [("s", "string")], [("", "string")],
   [.set "s" (.call "strings.TrimLeft" [.var "s", .str "0"]),
    .ite (.bin .eq (.var "s") (.str "")) [.ret [.str "0"]]
      [.ite (.bin .or (.bin .or (s0Is 46) (s0Is 101)) (s0Is 69))
        [.ret [.bin .add (.str "0") (.var "s")]]
        [.ret [.var "s"]]]]⟩

def setNext : Stmt := .set2 "c" "ok" eNext
def defNext : Stmt := .def2 "c" "ok" eNext
def retFalseIfNotOk : Stmt := .ite notOk [.ret [.ff]] []

/-- the deferred closure of `numberExponent` -/
def expDefer : List Stmt := [.ite (.not (.var "found")) [.do_ (.call "scanner.setPos" [eS, .var "start"])] []]

/-- the digit loop of `numberExponent` -/
def expLoopBody : List Stmt :=
  [setNext, .ite notOk [.ret [.tt]] [], .ite notDigit [sPrev, .ret [.tt]] []]

/-- `numberExponent` after `start := s.pos` and the `defer` -/
def expRest : List Stmt :=
  [defNext,
   retFalseIfNotOk,
   .ite (.bin .and (cIsNot 101) (cIsNot 69)) [.ret [.ff]] [],
   setNext,
   retFalseIfNotOk,
   .ite (.bin .or (cIs 43) (cIs 45)) [setNext, retFalseIfNotOk] [],
   .ite notDigit [.ret [.ff]] [],
   .forever expLoopBody]

def numberExponentDecl : FnDecl :=
  ⟨("s", "*scanner"), [], [("found", "bool")], .def_ "start" ePos :: .defer_ expDefer :: expRest⟩

/-- the hexadecimal-digit loop of `numberOrDot` -/
def hexLoopBody : List Stmt := [defNext, .ite notOk [.break_] [], .ite notHex [sPrev, .break_] []]

/-- the hexadecimal branch after the `0x` -/
def hexBranch : List Stmt :=
  [.def_ "hexDigitStart" ePos,
   defNext,
   .ite (.bin .or notOk notHex)
     [.do_ (.call "scanner.setPos" [eS, .bin .add (.var "start") (.int 2)]),
      .ret [tokHere "TokenError" "invalid hex literal"]] [],
   .forever hexLoopBody,
   .def_ "span" spanHere,
   .def2 "n" "err" (.call "strconv.ParseUint" [.slice eSrc (.var "hexDigitStart") ePos, .int 16, .int 64]),
   .ite (.bin .ne (.var "err") .nil)
     [.ret [.call "errorToken" [.var "span", .str "parse hex literal: %v", .var "err"]]] [],
   .ret [.mkToken (.kind "TokenNumber") (.var "span") (.call "strconv.FormatUint" [.var "n", .int 10])]]

/-- the case `c == '0'` of the first switch -/
def zeroCase : List Stmt :=
  [defNext,
   .ite notOk [.ret [tokHere "TokenNumber" "0"]] [],
   .ite (cIs 46) [.set "hasDecimalPoint" .tt]
     [.ite (.bin .or (cIs 101) (cIs 69))
       (sPrev :: .do_ (.call "scanner.numberExponent" [eS]) :: retNormalized)
       [.ite (.bin .or (cIs 120) (cIs 88)) hexBranch
         [.ite notDigit [sPrev] []]]]]

/-- the case `c == '.'` of the first switch -/
def dotCase : List Stmt :=
  [.set "hasDecimalPoint" .tt,
   defNext,
   .ite notOk [.ret [tokHere "TokenDot" ""]] [],
   .ite notDigit [sPrev, .ret [tokHere "TokenDot" ""]] []]

/-- the case `!isDigit(c)` of the first switch -/
def otherCase : List Stmt :=
  [.ite notDigit
    [.def_ "end" ePos,
     sPrev,
     .ret [.call "errorToken" [.call "newSpan" [.var "start", .var "end"],
       .str "parse numeric literal: unexpected character %q", .var "c"]]] []]

/-- the body of the loop over the subsequent decimal digits -/
def mantLoopBody : List Stmt :=
  [defNext,
   .ite notOk retNormalized
     [.ite (.bin .and (cIs 46) (.not (.var "hasDecimalPoint"))) [.set "hasDecimalPoint" .tt]
       [.ite notDigit (sPrev :: .do_ (.call "scanner.numberExponent" [eS]) :: retNormalized) []]]]

def firstSwitch : Stmt := .ite (cIs 48) zeroCase [.ite (cIs 46) dotCase otherCase]

def numberOrDotDecl : FnDecl :=
  ⟨("s", "*scanner"), [], [("", "Token")],
   [.def_ "start" ePos,
    defNext,
    .ite notOk [.ret [.call "errorToken" [.call "indexSpan" [.var "start"], .str "parse numeric literal: unexpected EOF"]]] [],
    .def_ "hasDecimalPoint" .ff,
    firstSwitch,
    .forever mantLoopBody]⟩

/-! ### SplitStatements -/

def splitLoopBody : List Stmt :=
  [.ite (.bin .eq (.fld (.var "tok") "Kind") (.kind "TokenSemi"))
    [.set "parts" (.call "append" [.var "parts",
       .slice (.var "source") (.var "start") (.fld (.fld (.var "tok") "Span") "Start")]),
     .set "start" (.fld (.fld (.var "tok") "Span") "End")] []]

def splitStatementsDecl : FnDecl :=
  ⟨("", ""), [("source", "string")], [("", "[]string")],
   [.def_ "tokens" (.call "Scan" [.var "source"]),
    .var_ "parts" "[]string",
    .def_ "start" (.int 0),
    .range "tok" (.var "tokens") splitLoopBody,
    .set "parts" (.call "append" [.var "parts", .slice (.var "source") (.var "start") .none]),
    .ret [.var "parts"]]⟩

/-! ### linecol -/

def linecolLoopBody : List Stmt :=
  [.ite (.bin .eq (.var "c") (.int 10))
    [.set "line" (.bin .add (.var "line") (.int 1)), .set "col" (.int 1)]
    [.ite (.bin .eq (.var "c") (.int 9))
      [.def_ "tabWidth" (.int 8),
       .def_ "tabLoc" (.bin .mod (.bin .sub (.var "col") (.int 1)) (.var "tabWidth")),
       .set "col" (.bin .add (.var "col") (.bin .sub (.var "tabWidth") (.var "tabLoc")))]
      [.set "col" (.bin .add (.var "col") (.int 1))]]]

def linecolDecl : FnDecl :=
  ⟨("", ""), [("source", "string"), ("pos", "int")], [("line", "int"), ("col", "int")],
   [.set "line" (.int 1),
    .set "col" (.int 1),
    .range "c" (.slice (.var "source") .none (.var "pos")) linecolLoopBody,
    .ret []]⟩

/-! ### the accessors of `BasicLit` -/

def litKindIs (op : BinOp) : Expr := .bin op (.fld (.var "lit") "Kind") (.kind "TokenNumber")

def isFloatDecl : FnDecl :=
  ⟨("lit", "*BasicLit"), [], [("", "bool")],
   [.ret [.bin .and (litKindIs .eq) (.call "strings.ContainsAny" [.fld (.var "lit") "Value", .str ".eE"])]]⟩

def isIntegerDecl : FnDecl :=
  ⟨("lit", "*BasicLit"), [], [("", "bool")],
   [.ret [.bin .and (litKindIs .eq) (.not (.call "BasicLit.IsFloat" [.var "lit"]))]]⟩

def uint64Decl : FnDecl :=
  ⟨("lit", "*BasicLit"), [], [("", "uint64")],
   [.ite (litKindIs .ne) [.ret [.int 0]] [],
    .ite (.call "BasicLit.IsFloat" [.var "lit"])
      [.ret [.call "uint64" [.call "BasicLit.Float64" [.var "lit"]]]] [],
    .def2 "x" "err" (.call "strconv.ParseUint" [.fld (.var "lit") "Value", .int 10, .int 64]),
    .ite (.bin .ne (.var "err") .nil) [.ret [.int 0]] [],
    .ret [.var "x"]]⟩

/-! ### what the translator regenerates decodes to the expected trees -/

theorem newSpan_ir : decodeFn (irOf Facts.lexNumberIR "newSpan") = some newSpanDecl := by rfl
theorem indexSpan_ir : decodeFn (irOf Facts.lexNumberIR "indexSpan") = some indexSpanDecl := by rfl
theorem spanIsValid_ir : decodeFn (irOf Facts.lexNumberIR "Span.IsValid") = some spanIsValidDecl := by rfl
theorem spanString_ir : decodeFn (irOf Facts.lexNumberIR "spanString") = some spanStringDecl := by rfl
theorem next_ir : decodeFn (irOf Facts.lexNumberIR "scanner.next") = some nextDecl := by rfl
theorem prev_ir : decodeFn (irOf Facts.lexNumberIR "scanner.prev") = some prevDecl := by rfl
theorem setPos_ir : decodeFn (irOf Facts.lexNumberIR "scanner.setPos") = some setPosDecl := by rfl
theorem normalize_ir : decodeFn (irOf Facts.lexNumberIR "normalizeNumberValue") = some normalizeDecl := by rfl
theorem numberExponent_ir :
    decodeFn (irOf Facts.lexNumberIR "scanner.numberExponent") = some numberExponentDecl := by rfl
theorem numberOrDot_ir :
    decodeFn (irOf Facts.lexNumberIR "scanner.numberOrDot") = some numberOrDotDecl := by rfl
theorem splitStatements_ir :
    decodeFn (irOf Facts.lexSplitIR "SplitStatements") = some splitStatementsDecl := by rfl
theorem linecol_parser_ir : decodeFn (irOf Facts.linecolIR "parser.linecol") = some linecolDecl := by rfl
theorem linecol_pql_ir : decodeFn (irOf Facts.linecolIR "pql.linecol") = some linecolDecl := by rfl
theorem isFloat_ir : decodeFn (irOf Facts.litAccessIR "BasicLit.IsFloat") = some isFloatDecl := by rfl
theorem isInteger_ir : decodeFn (irOf Facts.litAccessIR "BasicLit.IsInteger") = some isIntegerDecl := by rfl
theorem uint64_ir : decodeFn (irOf Facts.litAccessIR "BasicLit.Uint64") = some uint64Decl := by rfl

/-- the function `key` of a table is the interpretation of its expected tree -/
theorem fnOf_eq {tbl : List (String × List (List String))} {key : String} {d : FnDecl}
    (h : decodeFn (irOf tbl key) = some d) (env : Env) (fuel : Nat) :
    fnOf tbl env fuel key = interpFn env fuel d := by
  simp only [fnOf, h]

/-! ### environments -/

/-- primitives + parser/span.go -/
def envSpan (lib : Lib) (fuel : Nat) : Env :=
  layer Facts.lexNumberIR fuel ["newSpan", "indexSpan", "Span.IsValid", "spanString"] (prims lib)

/-- … + the cursor and `normalizeNumberValue` -/
def envCursor (lib : Lib) (fuel : Nat) : Env :=
  layer Facts.lexNumberIR fuel ["scanner.next", "scanner.prev", "scanner.setPos", "normalizeNumberValue"]
    (envSpan lib fuel)

/-- … + `numberExponent` -/
def envExp (lib : Lib) (fuel : Nat) : Env :=
  layer Facts.lexNumberIR fuel ["scanner.numberExponent"] (envCursor lib fuel)

/-- everything `Facts.lexNumberIR` has, in the order of the table: each function sees the primitives
    and the functions before it -/
def envNumber (lib : Lib) (fuel : Nat) : Env :=
  layer Facts.lexNumberIR fuel ["scanner.numberOrDot"] (envExp lib fuel)

theorem envNumber_eq (lib : Lib) (fuel : Nat) :
    envNumber lib fuel = layer Facts.lexNumberIR fuel (Facts.lexNumberIR.map (·.1)) (prims lib) := by rfl

/-- `(*scanner).numberOrDot` as regenerated -/
def interpNumberOrDot (lib : Lib) (fuel : Nat) : Fn :=
  fnOf Facts.lexNumberIR (envExp lib fuel) fuel "scanner.numberOrDot"

/-- the accessors: primitives, then IsFloat, IsInteger, Uint64 -/
def envLit (lib : Lib) : Env :=
  layer Facts.litAccessIR 0 ["BasicLit.IsFloat", "BasicLit.IsInteger", "BasicLit.Uint64"] (prims lib)

end Pql.LexIR
