/-
Layout independence: `pSummarize`, `pRenderProp(s)`, `pRender` and the mutual tabular block
`pTabular` / `pOps` / `pOperator` / `pJoin`.
-/
import PqlModel.Lemmas.LayoutOps
set_option linter.unusedSimpArgs false
set_option linter.unusedVariables false
namespace Pql.Layout
open Pql

section
variable (c : PCtx) (fuel : Nat)

theorem pSummarize_np (pipe kw : Span) (ts : List Token) :
    pSummarize c0 fuel (keepNull pipe) (keepNull kw) (ts.map np) =
      mp (mapOp keepNull) (pSummarize c fuel pipe kw ts) := by
  have h1 := pSummarizeCols_np c fuel (ts.length + 1) [] none ts
  simp only [List.map_nil, Option.map_none] at h1
  simp only [pSummarize, List.length_map, h1, mp_errs, mp_val, mp_rest]
  generalize pSummarizeCols c fuel (ts.length + 1) [] none ts = r
  obtain ⟨⟨cols, done, cm⟩, e, rr⟩ := r
  simp only [mapSumCols]
  csplit
  · simp [mp_mk, mapOp]
  · rcases rr with _ | ⟨sep, rest⟩
    · simp only [List.map_nil, List.isEmpty_map]
      csplit
      · simp [mp_mk, mapOp]
      · cases cm <;> simp [mp_mk, mapOp]
    · simp only [List.map_cons, np_kind, List.isEmpty_map]
      csplit
      · csplit
        · simp [mp_mk, mapOp]
        · cases cm <;> simp [mp_mk, mapOp]
      · have h2 := pGroupByCols_np c fuel (rest.length + 1) [] rest
        simp only [List.map_nil] at h2
        simp [h2, mp_mk, mapOp]

theorem pRenderProp_np (ts : List Token) :
    pRenderProp c0 fuel (ts.map np) = mp (Option.map (mapRenderProp keepNull)) (pRenderProp c fuel ts) := by
  simp only [pRenderProp, pIdent_np c, mp_errs, mp_val, mp_rest]
  generalize pIdent c ts = r
  obtain ⟨v, e, rr⟩ := r
  rcases v with _ | name
  · simp [mp_mk]
  · rcases rr with _ | ⟨t, rest⟩
    · simp [mp_mk]
    · simp only [Option.map_some, List.map_cons, np_kind]
      csplit
      · simp [mp_mk]
      · simp only [pExpr_np c, mp_errs, mp_val, mp_rest, ne_eq, mapErrs_eq_nil]
        csplit
        · simp [mp_mk]
        · simp [mp_mk, mapRenderProp]

def mapProps (p : List RenderProp × Span) : List RenderProp × Span :=
  (p.1.map (mapRenderProp keepNull), keepNull p.2)

theorem pRenderProps_np (n : Nat) : ∀ (acc : List RenderProp) (ts : List Token),
    pRenderProps c0 fuel n (acc.map (mapRenderProp keepNull)) (ts.map np) =
      mp mapProps (pRenderProps c fuel n acc ts) := by
  induction n with
  | zero => intro acc ts; simp [pRenderProps, mp_mk, mapProps]
  | succ n ih =>
    intro acc ts
    simp only [pRenderProps, pRenderProp_np c, mp_errs, mp_val, mp_rest, ne_eq, mapErrs_eq_nil,
      mkOpaque_mapErrs]
    generalize pRenderProp c fuel ts = r
    obtain ⟨v, e, rr⟩ := r
    simp only []
    csplit
    · simp [mp_mk, mapProps]
    · rcases rr with _ | ⟨t, rest⟩
      · cases v <;> simp [mp_mk, mapProps]
      · simp only [List.map_cons, np_kind]
        csplit
        · cases v <;> simp [mp_mk, mapProps]
        · csplit
          · cases v <;> simp [mp_mk, mapProps]
          · cases v <;> simp only [Option.map_some, Option.map_none] <;> rw [← ih] <;> simp

theorem pRender_np (pipe kw : Span) (ts : List Token) :
    pRender c0 fuel (keepNull pipe) (keepNull kw) (ts.map np) =
      mp (mapOp keepNull) (pRender c fuel pipe kw ts) := by
  simp only [pRender, pIdent_np c, mp_errs, mp_val, mp_rest]
  generalize pIdent c ts = r
  obtain ⟨v, e, rr⟩ := r
  rcases v with _ | chart
  · simp [mp_mk, mapOp]
  · rcases rr with _ | ⟨t, rest⟩
    · simp [mp_mk, mapOp]
    · simp only [Option.map_some, List.map_cons, isIdentNamed_np]
      csplit
      · simp [mp_mk, mapOp]
      · rcases rest with _ | ⟨lp, rest2⟩
        · simp [mp_mk, mapOp]
        · simp only [List.map_cons, np_kind]
          csplit
          · simp [mp_mk, mapOp]
          · have h2 := pRenderProps_np c fuel (rest2.length + 1) [] rest2
            simp only [List.map_nil] at h2
            simp [h2, mp_mk, mapOp, mapProps]

end

/-! ### the mutual block -/

theorem mapOpList_snoc (f : Span → Span) (x : Op) : (acc : OpList) →
    mapOpList f (acc.snoc x) = (mapOpList f acc).snoc (mapOp f x)
  | .nil => by simp only [OpList.snoc, mapOpList]
  | .cons e es => by simp only [OpList.snoc, mapOpList, mapOpList_snoc f x es]

structure TabLay (c : PCtx) (fuel : Nat) : Prop where
  tabular : ∀ ts, pTabular c0 fuel (ts.map np) = mp (mapTabular keepNull) (pTabular c fuel ts)
  ops : ∀ ops acc ts, pOps c0 fuel (mapOpList keepNull ops) (mapErrs keepNull acc) (ts.map np) =
    mp (mapOpList keepNull) (pOps c fuel ops acc ts)
  operator : ∀ pipe name ts, pOperator c0 fuel (keepNull pipe) (np name) (ts.map np) =
    (pOperator c fuel pipe name ts).map (mp (mapOp keepNull))
  join : ∀ pipe kw ts, pJoin c0 fuel (keepNull pipe) (keepNull kw) (ts.map np) =
    mp (mapOp keepNull) (pJoin c fuel pipe kw ts)

theorem TabLay.zero (c : PCtx) : TabLay c 0 := by
  constructor <;> intros <;> simp [pTabular, pOps, pOperator, pJoin, mp_mk, mapTabular, mapOp]

variable {c : PCtx} {fuel : Nat}

theorem pTabular_step (ih : TabLay c fuel) (ts : List Token) :
    pTabular c0 (fuel + 1) (ts.map np) = mp (mapTabular keepNull) (pTabular c (fuel + 1) ts) := by
  simp only [pTabular, pIdent_np c, mp_errs, mp_val, mp_rest]
  generalize pIdent c ts = r
  obtain ⟨v, e, rr⟩ := r
  rcases v with _ | name
  · simp [mp_mk, mapTabular]
  · have := ih.ops .nil [] rr
    simp only [mapOpList, mapErrs_nil] at this
    simp [this, mp_mk, mapTabular]

theorem pOps_step (ih : TabLay c fuel) (ops : OpList) (acc : Errs) (ts : List Token) :
    pOps c0 (fuel + 1) (mapOpList keepNull ops) (mapErrs keepNull acc) (ts.map np) =
      mp (mapOpList keepNull) (pOps c (fuel + 1) ops acc ts) := by
  rcases ts with _ | ⟨pipeTok, rest⟩
  · simp [pOps, mp_mk]
  · simp only [List.map_cons, pOps, np_kind, split_np_fst, split_np_snd]
    csplit
    · simp [mp_mk]
    · rcases h : (split .pipe rest).1 with _ | ⟨name, opToks⟩
      · simp only [List.map_nil]
        rw [← ih.ops]; simp
      · simp only [List.map_cons, np_kind]
        csplit
        · rw [← ih.ops]; simp
        · have hop := ih.operator pipeTok.span name opToks
          simp only [keepNull_span] at hop
          simp only [np_span, hop]
          rcases pOperator c fuel pipeTok.span name opToks with _ | r
          · simp only [Option.map_none]
            rw [← ih.ops]; simp
          · simp only [Option.map_some, mp_val, mp_errs, mp_rest, endSplit_np]
            rw [← ih.ops]; simp [mapOpList_snoc]

end Pql.Layout
