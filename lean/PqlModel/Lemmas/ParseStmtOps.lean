/-
C05, syntactic half, stage 2 (f): the operator part of one SELECT — the select items and the
WHERE / GROUP BY clauses `bodyOf` writes for each operator are read back as `bodyA` prescribes.
-/
import PqlModel.Lemmas.ParseStmtParts
namespace Pql.C05
set_option linter.unusedSimpArgs false
set_option linter.unusedVariables false
open Pql Sql CompileOracle Intended Pql.RT

/-! ### list plumbing -/

theorem mapM_spec {α β γ : Type} {f : α → Except WErr β} {g : α → Option γ} {R : β → γ → Prop} {P : α → Bool}
    (h1 : ∀ a b, P a = true → f a = .ok b → ∃ c, g a = some c ∧ R b c) :
    ∀ (as : List α) (bs : List β), as.all P = true → as.mapM f = .ok bs →
      ∃ cs, as.mapM g = some cs ∧ ListRel R bs cs
  | [], bs, _, h => by
    simp only [List.mapM_nil, pure, Except.pure, Except.ok.injEq] at h
    subst h
    exact ⟨[], rfl, .nil⟩
  | a :: as, bs, hP, h => by
    simp only [List.all_cons, Bool.and_eq_true] at hP
    simp only [List.mapM_cons, bind, Except.bind, pure, Except.pure] at h
    cases ha : f a with
    | error e => rw [ha] at h; cases h
    | ok b =>
      rw [ha] at h
      cases hs : as.mapM f with
      | error e => rw [hs] at h; cases h
      | ok bs' =>
        rw [hs] at h
        simp only [Except.ok.injEq] at h
        subst h
        obtain ⟨c, hc, hr⟩ := h1 a b hP.1 ha
        obtain ⟨cs, hcs, hrel⟩ := mapM_spec h1 as bs' hP.2 hs
        exact ⟨c :: cs, by simp [List.mapM_cons, hc, hcs], .cons hr hrel⟩

theorem ListRel.map_left {α β γ : Type} {R : β → γ → Prop} {f : α → β} {as : List α} {cs : List γ}
    (h : ListRel (fun a c => R (f a) c) as cs) : ListRel R (as.map f) cs := by
  induction h with
  | nil => exact .nil
  | cons hab _ ih => exact .cons hab ih

theorem writeColumns_eq_mapM (ctx : Ctx) : ∀ cols : List Column,
    writeColumns ctx cols = cols.mapM fun c => do
      let x ← writeExpr ctx c.x
      let a ← columnAlias ctx c
      pure (x ++ a)
  | [] => rfl
  | c :: cs => by
    simp only [writeColumns, List.mapM_cons, writeColumns_eq_mapM ctx cs, bind_assoc, pure_bind]

/-! ### WHERE / GROUP BY -/

/-- the tokens between the source and ORDER BY stand for the intended WHERE / GROUP BY -/
def MidP (mid : List STok) (wwh : Option SExpr) (wgb : List SExpr) : Prop :=
  (∀ r, Ends (endTok K5) r → Ends (endTok K3) (mid ++ r)) ∧
  ∀ r, Ends (endTok K5) r → ∃ wh gb r5, wherePart (mid ++ r) = some (wh, r5) ∧ groupPart r5 = some (gb, r) ∧
    OptRel NormEq wh wwh ∧ ListRel NormEq gb wgb

theorem midP_nil : MidP [] none [] :=
  ⟨fun r hr => endTok_mono (by simp [K3, K5]) hr, fun r hr =>
    ⟨none, [], r, wherePart_none (endTok_mono (by simp [K5]) hr), groupPart_none (endTok_mono (by simp [K5]) hr),
      .none, .nil⟩⟩

theorem midP_where {ts : List STok} {w : SExpr} (h : ExprP ts w) : MidP (RT.W "WHERE" :: ts) (some w) [] := by
  refine ⟨fun r hr => endTok_sub end_WHERE (by simp [K3]), fun r hr => ?_⟩
  obtain ⟨s, hs, hp⟩ := wherePart_some h (endTok_stop hr) (r := r)
  exact ⟨some s, [], r, by simpa using hp, groupPart_none (endTok_mono (by simp [K5]) hr), .some hs, .nil⟩

theorem midP_group {tss : List (List STok)} {wants : List SExpr} (h : ListRel ExprP tss wants) (hne : tss ≠ []) :
    MidP (RT.W "GROUP" :: RT.W "BY" :: sepToks tss) none wants := by
  refine ⟨fun r hr => endTok_sub end_GROUP (by simp [K3]), fun r hr => ?_⟩
  obtain ⟨es, hes, hrel⟩ := groupPart_some h hne (r := r) (endTok_mono (by simp) hr)
  refine ⟨none, es, _, wherePart_none ?_, by simpa using hes, .none, hrel⟩
  exact endTok_sub end_GROUP (by simp)

/-! ### columns -/

theorem tr_single (n : Ident) : ∃ want, tr false (.qident [n]) = some want := by
  simp only [tr]
  repeat' split
  all_goals exact ⟨_, rfl⟩

theorem projCol_spec (src : Bytes) (c : Column) (x : List Chunk) (hok : projColOK c = true)
    (h : projCol ⟨src, [], .default⟩ c = .ok x) : ∃ w, projectItem c = some w ∧ ItemP (toksOf x) w := by
  obtain ⟨name, assign, e⟩ := c
  have key : ∀ e : Expr, exprOK e = true → ∀ y, writeExpr ⟨src, [], .default⟩ e = .ok y →
      ∃ want, tr false e = some want ∧ ItemP (toksOf (y ++ [.txt " AS ", .qid (identName name)])) ⟨false, want, some (identName name)⟩ := by
    intro e he y hy
    obtain ⟨want, ht, hP⟩ := exprP_default he hy
    exact ⟨want, ht, by simpa using itemP_alias hP up_AS (identName name)⟩
  have other : e ≠ .nil → exprOK e = true →
      (do let x ← writeExpr ⟨src, [], .default⟩ e
          pure (x ++ [Chunk.txt " AS ", .qid (identName name)]) : Pql.W) = .ok x →
      ∃ w, (do let e' ← tr false e
               pure (⟨false, e', some (identName name)⟩ : SelectItem)) = some w ∧ ItemP (toksOf x) w := by
    intro _ hok h
    cases hy : writeExpr ⟨src, [], .default⟩ e with
    | error e => rw [hy] at h; cases h
    | ok y =>
      rw [hy] at h
      simp only [bind, Except.bind, pure, Except.pure, Except.ok.injEq] at h
      subst h
      obtain ⟨want, ht, hI⟩ := key e hok y hy
      exact ⟨_, by simp only [ht, Option.bind_eq_bind, Option.bind_some, Option.pure_def], hI⟩
  cases e with
  | nil =>
    simp only [projColOK] at hok
    obtain ⟨n, rfl⟩ := Option.isSome_iff_exists.1 hok
    simp only [projCol] at h
    cases hy : writeExpr ⟨src, [], .default⟩ (.qident [n]) with
    | error e => rw [hy] at h; cases h
    | ok y =>
      rw [hy] at h
      simp only [bind, Except.bind, pure, Except.pure, Except.ok.injEq] at h
      subst h
      obtain ⟨want, ht⟩ := tr_single n
      have hP : ExprP (toksOf y) want :=
        (good_qident (ctx := ⟨src, [], .default⟩) [n] rfl (by simp)).expr hy ht
      refine ⟨⟨false, want, some (identName (some n))⟩, ?_, by simpa using itemP_alias hP up_AS (identName (some n))⟩
      simp only [projectItem, ht, Option.bind_eq_bind, Option.bind_some, Option.pure_def]
  | qident ps => exact other (by simp) hok h
  | lit a b c => exact other (by simp) hok h
  | unary a b c => exact other (by simp) hok h
  | binary a b c d => exact other (by simp) hok h
  | inE a b c d e => exact other (by simp) hok h
  | paren a b c => exact other (by simp) hok h
  | call a b c d => exact other (by simp) hok h
  | index a b c d => exact other (by simp) hok h

theorem columnAlias_spec (src : Bytes) (c : Column) (a : List Chunk)
    (h : columnAlias ⟨src, [], .default⟩ c = .ok a) : a = [.txt " AS ", .qid (aliasOf src c)] := by
  unfold columnAlias at h
  unfold aliasOf
  cases hn : c.name with
  | some n =>
    rw [hn] at h
    simp only [Except.ok.injEq] at h
    exact h.symm
  | none =>
    rw [hn] at h
    simp only [sliceSource] at h
    split at h
    · next hc =>
      simp only [bind, Except.bind, pure, Except.pure, Except.ok.injEq] at h
      simp only [hc.1, hc.2.1, and_self, if_true]
      exact h.symm
    · simp only [bind, Except.bind] at h
      cases h

theorem column_spec (src : Bytes) (c : Column) (x : List Chunk) (hok : colOK c = true)
    (h : (do let x ← writeExpr ⟨src, [], .default⟩ c.x
             let a ← columnAlias ⟨src, [], .default⟩ c
             pure (x ++ a) : Pql.W) = .ok x) : ∃ w, itemOf src c = some w ∧ ItemP (toksOf x) w := by
  cases hy : writeExpr ⟨src, [], .default⟩ c.x with
  | error e => rw [hy] at h; cases h
  | ok y =>
    rw [hy] at h
    cases ha : columnAlias ⟨src, [], .default⟩ c with
    | error e => rw [ha] at h; cases h
    | ok a =>
      rw [ha] at h
      simp only [bind, Except.bind, pure, Except.pure, Except.ok.injEq] at h
      subst h
      rw [columnAlias_spec src c a ha]
      obtain ⟨want, ht, hP⟩ := exprP_default hok hy
      refine ⟨⟨false, want, some (aliasOf src c)⟩, ?_, by simpa using itemP_alias hP up_AS (aliasOf src c)⟩
      simp only [itemOf, ht, Option.bind_eq_bind, Option.bind_some, Option.pure_def]

theorem writeColumns_spec (src : Bytes) (cols : List Column) (cs : List (List Chunk)) (hok : cols.all colOK = true)
    (h : writeColumns ⟨src, [], .default⟩ cols = .ok cs) :
    ∃ witems, cols.mapM (itemOf src) = some witems ∧ ListRel ItemP (cs.map toksOf) witems := by
  rw [writeColumns_eq_mapM] at h
  obtain ⟨w, hw, hrel⟩ := mapM_spec (R := fun b c => ItemP (toksOf b) c) (column_spec src) cols cs hok h
  exact ⟨w, hw, ListRel.map_left hrel⟩

theorem groupExprs_spec (src : Bytes) (cols : List Column) (cs : List (List Chunk)) (hok : cols.all colOK = true)
    (h : cols.mapM (fun c : Column => writeExpr ⟨src, [], .default⟩ c.x) = .ok cs) :
    ∃ w, cols.mapM (fun c => tr false c.x) = some w ∧ ListRel ExprP (cs.map toksOf) w := by
  obtain ⟨w, hw, hrel⟩ := mapM_spec (R := fun b c => ExprP (toksOf b) c)
    (fun c b hc hb => exprP_default hc hb) cols cs hok h
  exact ⟨w, hw, ListRel.map_left hrel⟩

theorem projCols_spec (src : Bytes) (cols : List Column) (cs : List (List Chunk)) (hok : cols.all projColOK = true)
    (h : cols.mapM (projCol ⟨src, [], .default⟩) = .ok cs) :
    ∃ witems, cols.mapM projectItem = some witems ∧ ListRel ItemP (cs.map toksOf) witems := by
  obtain ⟨w, hw, hrel⟩ := mapM_spec (R := fun b c => ItemP (toksOf b) c) (projCol_spec src) cols cs hok h
  exact ⟨w, hw, ListRel.map_left hrel⟩

/-- `COUNT(*)` -/
theorem countStarP : AtomP [RT.W "COUNT", S "(", S "*", S ")"] (.call (Bytes.ofString "COUNT") true .nil .none_) := by
  intro rest hr
  refine ⟨_, rfl, 1, fun n hn => ?_⟩
  obtain ⟨k, rfl, _⟩ := succ_of_le hn
  match rest, hr with
  | [], _ => simp [pAtomS, operatorWords]
  | [a], hr => simp [pAtomS, operatorWords]
  | [a, b], hr => simp [pAtomS, operatorWords]
  | a :: b :: c :: r', hr =>
    have := atomEnd_filter hr
    simp [pAtomS, operatorWords, this]

end Pql.C05
