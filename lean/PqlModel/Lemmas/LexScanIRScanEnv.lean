/-
`Scan` as translated: the store of `Scan` (`sp`: the whole source, cursor `k`), what the loop calls
(`ScanEnv`), the state around the main switch, the conditions of the switch (`condsVal`, `sw_pick`).
-/
import PqlModel.Lemmas.LexScanIRSwitch
import PqlModel.Lemmas.LexScanIRIdent
import PqlModel.Lemmas.LexScanIRStringLoop
namespace Pql.ScanIR
open Pql
open Pql.LexIR (IErr M BinOp goPanic stuck irOf)
set_option linter.unusedSimpArgs false
set_option linter.unusedVariables false

/-! ### the store of `Scan` -/

/-- the scanner on the whole source `src`, cursor at `k` -/
def sp (src : Bytes) (k l : Nat) (bs : List (Nat × Bytes)) : Store := ⟨src, k, l, bs⟩

@[simp] theorem sp_pos (src : Bytes) (k l : Nat) (bs : List (Nat × Bytes)) : (sp src k l bs).pos = k := rfl
@[simp] theorem sp_last (src : Bytes) (k l : Nat) (bs : List (Nat × Bytes)) : (sp src k l bs).last = l := rfl
@[simp] theorem sp_src (src : Bytes) (k l : Nat) (bs : List (Nat × Bytes)) : (sp src k l bs).src = src := rfl
@[simp] theorem sp_blds (src : Bytes) (k l : Nat) (bs : List (Nat × Bytes)) : (sp src k l bs).blds = bs := rfl

theorem hp_nil (src : Bytes) (k l : Nat) (bs : List (Nat × Bytes)) : hp [] src k l bs = sp src k l bs := by
  simp [hp, sp]

/-- the suffix at `k` seen as `pre ++ s` -/
theorem hp_split (src : Bytes) (k j l : Nat) (bs : List (Nat × Bytes)) (hk : k ≤ src.length) :
    hp (src.take k) (src.drop k) j l bs = sp src (k + j) l bs := by
  simp [hp, sp, List.length_take, Nat.min_eq_left hk]

theorem take_len (src : Bytes) (k : Nat) (hk : k ≤ src.length) : (src.take k).length = k := by
  simp [List.length_take, Nat.min_eq_left hk]

theorem nextS_end {f : Fn} (sf : SpecNext f) (src : Bytes) (k l : Nat) (bs : List (Nat × Bytes)) (hk : src.length ≤ k) :
    f [.scanner] (sp src k l bs) = .ok ([.int 0, .bool false], sp src k l bs) := by
  have := next_end sf [] src k l bs hk
  rwa [hp_nil] at this

theorem nextS_cons {f : Fn} (sf : SpecNext f) (src : Bytes) (k l : Nat) (bs : List (Nat × Bytes)) (c : UInt8) (rest : Bytes)
    (r w : Nat) (hd : src.drop k = c :: rest) (hr : decodeRune (c :: rest) = (r, w)) :
    f [.scanner] (sp src k l bs) = .ok ([.int r, .bool true], sp src (k + w) k bs) := by
  have := next_cons' sf [] src k l bs c rest r w hd hr
  simpa [hp_nil] using this

theorem prevS {f : Fn} (sf : SpecPrev f) (src : Bytes) (k l : Nat) (bs : List (Nat × Bytes)) :
    f [.scanner] (sp src k l bs) = .ok ([], sp src l l bs) := by
  rw [sf]; rfl

/-! ### what `Scan` calls -/

structure ScanEnv (fuel : Nat) (env : Env) : Prop where
  cur : CursorEnv env
  isSpace : HasPrim env "unicode.IsSpace"
  append : HasPrim env "append"
  number : HasPrim env "scanner.numberOrDot"
  ident : ∃ f, env "scanner.ident" = some f ∧ SpecIdent fuel f
  qident : ∃ f, env "scanner.quotedIdent" = some f ∧ SpecQuotedIdent fuel f
  string : ∃ f, env "scanner.string" = some f ∧ SpecString fuel f

/-! ### the states -/

/-- the state of `Scan` around its loop -/
def scanSt (src : Bytes) (acc : List Token) (h : Store) : State :=
  ⟨[("tokens", .toks acc), ("s", .scanner), ("query", .str src)], h⟩

/-- … inside the loop body after `start := s.pos; c, ok := s.next()` -/
def inSt (src : Bytes) (acc : List Token) (k c : Nat) (ok : Bool) (h : Store) : State :=
  ⟨[("ok", .bool ok), ("c", .int c), ("start", .int k), ("tokens", .toks acc), ("s", .scanner), ("query", .str src)], h⟩

theorem leave_inSt (src : Bytes) (acc acc' : List Token) (k c c' : Nat) (ok ok' : Bool) (h h' : Store) :
    (inSt src acc' k c' ok' h').leave (inSt src acc k c ok h) = inSt src acc' k c' ok' h' := by
  simp [State.leave, inSt]

theorem leave_scanSt (src : Bytes) (acc acc' : List Token) (k c : Nat) (ok : Bool) (h h' : Store) :
    (inSt src acc' k c ok h').leave (scanSt src acc h) = scanSt src acc' h' := by
  simp [State.leave, inSt, scanSt]

/-- the tokens one step of the model contributes at offset `off` -/
def stepToks (off : Nat) (st : Step) : List Token :=
  match st.tok with
  | some (kd, v) => [⟨kd, off, off + st.width, v⟩]
  | none => []

/-! ### the conditions of the switch -/

def condsVal (r : Nat) : List Bool :=
  [isSpaceRune r, alphaR r || decide (r = 95) || decide (r = 36), digitR r || decide (r = 46), decide (r = 44),
   decide (r = 34) || decide (r = 39), decide (r = 96), decide (r = 124), decide (r = 40), decide (r = 41),
   decide (r = 91), decide (r = 93), decide (r = 61), decide (r = 33), decide (r = 43), decide (r = 45),
   decide (r = 42), decide (r = 47), decide (r = 37), decide (r = 60), decide (r = 62), decide (r = 59)]

theorem conds_eval (env : Env) (fuel : Nat) (E : ScanEnv fuel env) (src : Bytes) (acc : List Token) (k r : Nat) (ok : Bool)
    (h : Store) : AllEv env (inSt src acc k r ok h).vars h scanCases (condsVal r) := by
  obtain ⟨fA, hA, sA0⟩ := E.cur.isAlpha
  obtain ⟨fD, hD, sD0⟩ := E.cur.isDigit
  have hS := E.isSpace
  unfold HasPrim at hS
  have hc : getVar (inSt src acc k r ok h).vars "c" = .ok (.int r) := by simp [getVar, inSt]
  have eA : EvB env (inSt src acc k r ok h).vars h (.call "isAlpha" [eC]) (alphaR r) := evb_call "isAlpha" fA alphaR hA sA0 hc
  have eD : EvB env (inSt src acc k r ok h).vars h (.call "isDigit" [eC]) (digitR r) := evb_call "isDigit" fD digitR hD sD0 hc
  have eS : EvB env (inSt src acc k r ok h).vars h (.call "unicode.IsSpace" [eC]) (isSpaceRune r) := by
    unfold EvB eC
    simp [eval, evalArgs, hc, hS, prims, single, bind, Except.bind, pure, Except.pure, Except.map]
  simp only [AllEv, scanCases, condsVal]
  refine ⟨eS, evb_or (evb_or eA (evb_cIs 95 hc)) (evb_cIs 36 hc), evb_or eD (evb_cIs 46 hc), evb_cIs 44 hc,
    evb_or (evb_cIs 34 hc) (evb_cIs 39 hc), evb_cIs 96 hc, evb_cIs 124 hc, evb_cIs 40 hc, evb_cIs 41 hc, evb_cIs 91 hc,
    evb_cIs 93 hc, evb_cIs 61 hc, evb_cIs 33 hc, evb_cIs 43 hc, evb_cIs 45 hc, evb_cIs 42 hc, evb_cIs 47 hc, evb_cIs 37 hc,
    evb_cIs 60 hc, evb_cIs 62 hc, evb_cIs 59 hc, trivial⟩

/-- **the main switch runs the body `pick` selects for the rune** -/
theorem sw_pick (env : Env) (fuel : Nat) (E : ScanEnv fuel env) (src : Bytes) (acc : List Token) (k r : Nat) (ok : Bool)
    (h : Store) :
    execBlock env fuel (mkSwitch scanCases scanDefault) (inSt src acc k r ok h) =
      inScope (inSt src acc k r ok h) (execBlock env fuel (pick scanCases (condsVal r) scanDefault) (inSt src acc k r ok h)) :=
  execBlock_mkSwitch env fuel (inSt src acc k r ok h) scanDefault scanCases (condsVal r) (by simp [scanCases])
    (conds_eval env fuel E src acc k r ok h)

theorem inScope_ok (s : State) (f : Flow) (s1 : State) : inScope s (.ok (f, s1)) = .ok (f, s1.leave s) := rfl

end Pql.ScanIR
