/-
C03 semantics, helper 11: a `take` directly after the join is attached to the join's own SELECT as
LIMIT; the join link then evaluates to `Rel.takeTable` of the join.
-/
import PqlModel.Lemmas.JoinSemBlock
namespace Pql.JoinSem
open Pql Sql CompileOracle Intended

/-- adding a LIMIT to a non-DISTINCT SELECT without LIMIT takes a prefix of its rows -/
theorem evalSelect_limit (db : DB) (ctes : List (Bytes × Table)) (s : Select) (ln : Sql.SExpr)
    (hl : s.limit = none) (hd : s.distinct = false) :
    evalSelect db ctes { s with limit := some ln } =
      match limitOf (evalS [] [] ln) with
      | some k => ⟨(evalSelect db ctes s).cols, (evalSelect db ctes s).rows.take k⟩
      | none => evalSelect db ctes s := by
  cases hk : limitOf (evalS [] [] ln) with
  | none => simp only [evalSelect, hl, hd, hk]
  | some k => simp only [evalSelect, hl, hd, hk, Bool.false_eq_true, ↓reduceIte, List.map_take]

def joinSelect (unique left : Bool) (l r : Bytes) (c : Sql.SExpr) : Select :=
  { items := [starItem],
    source := (if unique then TableRef.distinctOf l (some leftA) else TableRef.named l (some leftA)),
    join := some ⟨left, .named r (some rightA), c⟩,
    where_ := none, groupBy := [], orderBy := [], limit := none }

theorem selOf_join_take (src : Bytes) (a : SubA) (unique left : Bool) (l r : Bytes) (cond n : Expr) (sel : Select)
    (hsrc : a.source = .join unique left l r cond) (hop : a.op = none) (hsort : a.sort = none)
    (htake : a.take = some n) (hsel : selOf src a = some sel) :
    ∃ c ln, tr true cond = some c ∧ tr false n = some ln ∧
      sel = { joinSelect unique left l r c with limit := some ln } := by
  simp only [selOf, hsrc, hop, hsort, htake, bind, Option.bind, pure] at hsel
  cases hc : tr true cond with
  | none => simp [hc] at hsel
  | some c =>
    cases hn : tr false n with
    | none => simp [hc, hn] at hsel
    | some ln =>
      simp only [hc, hn, Option.map, Option.some.injEq] at hsel
      exact ⟨c, ln, rfl, rfl, hsel.symm⟩

/-- **C03 (join link with LIMIT).** A join link carrying a `take n` evaluates to the first rows
    of the documented join, `Rel.takeTable`. -/
theorem evalSelect_join_take (src : Bytes) (db : DB) (ctes : List (Bytes × Table)) (a : SubA)
    (unique left : Bool) (l r : Bytes) (cond n : Expr) (sel : Select)
    (hsrc : a.source = .join unique left l r cond) (hop : a.op = none) (hsort : a.sort = none)
    (htake : a.take = some n) (hsel : selOf src a = some sel) :
    evalSelect db ctes sel =
      Rel.takeTable (joinTables unique left (lookupTable db ctes l) (lookupTable db ctes r) cond) n := by
  obtain ⟨c, ln, hc, hn, rfl⟩ := selOf_join_take src a unique left l r cond n sel hsrc hop hsort htake hsel
  rw [evalSelect_limit db ctes _ ln rfl rfl]
  have hj : evalSelect db ctes (joinSelect unique left l r c) =
      joinTables unique left (lookupTable db ctes l) (lookupTable db ctes r) cond :=
    evalSelect_join db ctes unique left l r cond c hc
  rw [hj]
  simp only [Rel.takeTable, evalP_eq_evalS false n ln hn]
  cases limitOf (evalS [] [] ln) <;> rfl

/-- behind a link that already carries a LIMIT every operator starts a link of its own -/
theorem stepA_first_after_take (T J : Option Ident) {dst : List SubA} {l : SubA} (o : Op)
    (ht : l.take.isSome = true) (hl : dst.getLast? = some l) (hJ : identName J = l.name) :
    stepA T 0 dst o = stepA J dst.length dst o := by
  have hpos : 0 < dst.length := by
    cases dst with
    | nil => simp at hl
    | cons => simp
  have c1 : chainA dst 0 T = { name := subqueryName dst.length, source := .table l.name } := by
    rw [chainA_of_lt T hpos, hl]
  have c2 : chainA dst dst.length J = { name := subqueryName dst.length, source := .table l.name } := by
    simp [chainA, hJ]
  have l1 : lastOfA dst 0 = some l := by rw [lastOfA_of_lt hpos, hl]
  have l2 : lastOfA dst dst.length = none := by simp [lastOfA]
  have hn : l.take.isNone = false := by
    cases h : l.take with
    | none => simp [h] at ht
    | some _ => rfl
  cases o <;> simp only [stepA, c1, c2, l1, l2, hn, Bool.and_false, Bool.false_eq_true, ↓reduceIte]

/-- the first half of `chain_shape`, without assumptions on how `after` starts -/
theorem chain_shape0 (T U : Ident) (before after rops : OpList) (p k a b : Span) (flavor : Option Ident)
    (d e f : Span) (conds : ExprList) (subs : List SubA)
    (hjb : SplitQ.joinFree before = true) (hja : SplitQ.joinFree after = true)
    (hs : splitA [] (.mk (some T) (appendOps before
      (.cons (.join p k a b flavor d (.mk (some U) rops) e f conds) after))) = some subs) :
    ∃ (B BR : List SubA) (left : Bool),
      splitOpsA (some T) 0 [] before = some B ∧
      splitA B (.mk (some U) rops) = some BR ∧
      leftOf (kindOf flavor) = some left ∧
      splitOpsA (some T) 0 (BR ++ [joinLink (some T) 0 B BR flavor left conds]) after = some subs := by
  simp only [splitA, List.length_nil, bind, Option.bind] at hs
  cases hd : splitOpsA (some T) 0 [] (appendOps before
      (.cons (.join p k a b flavor d (.mk (some U) rops) e f conds) after)) with
  | none => simp [hd] at hs
  | some out =>
    rw [hd] at hs
    simp only [] at hs
    rw [run_append _ _ _ _ _ hjb] at hd
    cases hB : splitOpsA (some T) 0 [] before with
    | none => simp [hB] at hd
    | some B =>
      simp only [hB, Option.bind] at hd
      rw [splitOpsA_join] at hd
      cases hBR : splitA B (.mk (some U) rops) with
      | none => simp [hBR] at hd
      | some BR =>
        simp only [hBR, Option.bind] at hd
        cases hl : leftOf (kindOf flavor) with
        | none => simp [hl] at hd
        | some left =>
          simp only [hl] at hd
          refine ⟨B, BR, left, rfl, hBR, rfl, ?_⟩
          have hout : BR.length + 1 ≤ out.length := by
            have := (run_frame (some T) 0 after _ out hja hd (Nat.zero_le _)).2.1
            simpa using this
          simp only [show ¬ (out.length = 0) by omega, ↓reduceIte, pure, Option.some.injEq] at hs
          subst hs
          exact hd

/-- the chain behind the join when `after` starts with `take n`: the LIMIT goes onto the join link -/
theorem after_shape_take (T : Ident) (BR : List SubA) (J : SubA) (hJop : J.op = none) (hJtake : J.take = none)
    (pp kk : Span) (n : Expr) (rest : OpList) (subs : List SubA) (hjr : SplitQ.joinFree rest = true)
    (hd : splitOpsA (some T) 0 (BR ++ [J]) (.cons (.take pp kk n) rest) = some subs) :
    let J' : SubA := { J with take := some n }
    (rest = .nil ∧ subs = BR ++ [J']) ∨
    (rest ≠ .nil ∧ splitA (BR ++ [J']) (.mk (some ⟨J'.name, .zero, false⟩) rest) = some subs) := by
  intro J'
  have hstep : stepA (some T) 0 (BR ++ [J]) (.take pp kk n) = some (BR ++ [J']) := by
    have l1 : lastOfA (BR ++ [J]) 0 = some J := by rw [lastOfA_of_lt (by simp)]; simp
    have hc : canAttachSort J.op = true := by rw [hJop]; rfl
    have hn : J.take.isNone = true := by rw [hJtake]; rfl
    simp only [stepA, l1, hc, hn, Bool.and_self, ↓reduceIte, setLastA_append_singleton]
    rfl
  rw [splitOpsA_cons _ _ _ _ _ rfl, hstep] at hd
  simp only [Option.bind] at hd
  cases rest with
  | nil =>
    simp only [splitOpsA, Option.some.injEq] at hd
    exact .inl ⟨rfl, hd.symm⟩
  | cons o r =>
    right
    refine ⟨by simp, ?_⟩
    rw [SplitQ.joinFree_cons, Bool.and_eq_true] at hjr
    have hnj : SplitQ.isJoin o = false := by simpa using hjr.1
    have hfp := stepA_first_after_take (some T) (some ⟨J'.name, .zero, false⟩) o
      (dst := BR ++ [J']) (l := J') rfl (by simp) rfl
    rw [splitOpsA_cons _ _ _ _ _ hnj] at hd
    cases hst : stepA (some T) 0 (BR ++ [J']) o with
    | none => simp [hst] at hd
    | some d1 =>
      simp only [hst, Option.bind] at hd
      have hfr := stepA_frame (hfp ▸ hst) (Nat.le_refl _)
      have hmono := (run_frame (some T) 0 r d1 subs hjr.2 hd (Nat.zero_le _)).2.1
      apply splitA_of_run_nonempty
      · rw [← hd, splitOpsA_cons _ _ _ _ _ hnj, ← hfp, hst]
        simp only [Option.bind]
        exact run_indep _ _ _ _ r d1 hjr.2 (by omega) (by omega)
      · omega

end Pql.JoinSem
