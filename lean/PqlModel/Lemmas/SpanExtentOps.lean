/-
Property C10 for operators, tabular expressions and statements.

`unparseOp` of a `render` without `with (…)` does not mention the `Lparen` / `Rparen` fields, so
the statement needs the (parser-guaranteed, see SpanExtentTidy.lean) hypothesis that those fields
are not set in that case: `Op.tidy`.
-/
import PqlModel.Lemmas.SpanExtentItems
import PqlModel.Lemmas.AccountedTab
namespace Pql
open Grammar

/-! ### `tidy`: a `render` operator without `with` has no parentheses -/

mutual
def Tabular.tidy : Tabular → Bool
  | .nil => true
  | .mk _ ops => ops.tidy
def Op.tidy : Op → Bool
  | .count _ _ => true
  | .where_ _ _ _ => true
  | .sort _ _ _ => true
  | .take _ _ _ => true
  | .top _ _ _ _ _ => true
  | .project _ _ _ => true
  | .extend _ _ _ => true
  | .summarize _ _ _ _ _ => true
  | .join _ _ _ _ _ _ right _ _ _ => right.tidy
  | .as_ _ _ _ => true
  | .render _ _ _ w lp _ rp => w.isValid || (!lp.isValid && !rp.isValid)
def OpList.tidy : OpList → Bool
  | .nil => true
  | .cons o os => o.tidy && os.tidy
end

def Stmt.tidy : Stmt → Bool
  | .let_ _ _ _ _ => true
  | .tabular t => t.tidy

/-! ### the operators without a nested tabular expression -/

theorem count_ext {p k : Span} {us : List UTok} {ts : List Token} (h : unparseOp (.count p k) = some us)
    (hok : TokOK ts) (ha : accounts true us ts = true) : (Op.count p k).spanOf = ext ts := by
  rw [unparse_count, Option.some.injEq] at h
  subst h
  obtain ⟨tp, r1, rfl, hp, h1⟩ := accounts_span_cons (u := sym .pipe p) p rfl rfl rfl ha
  obtain ⟨tk, rfl, hk⟩ := accounts_span_single (u := kwTok ["count"] k) k rfl rfl rfl h1
  have := unions_ext [[tp], [tk]] (by simpa using hok)
  simp only [Op.spanOf, hp, hk]
  simpa using this

theorem where_ext {p k : Span} {e : Expr} {us : List UTok} {ts : List Token}
    (h : unparseOp (.where_ p k e) = some us)
    (hok : TokOK ts) (ha : accounts true us ts = true) : (Op.where_ p k e).spanOf = ext ts := by
  cases hx : unparseExpr e with
  | none => simp [unparseOp, hx] at h
  | some xs =>
    rw [unparse_where p k hx, Option.some.injEq] at h
    subst h
    obtain ⟨tp, r1, rfl, hp, h1⟩ := accounts_span_cons (u := sym .pipe p) p rfl rfl rfl ha
    obtain ⟨tk, tx, rfl, hk, h2⟩ := accounts_span_cons (u := kwTok ["where", "filter"] k) k rfl rfl rfl h1
    have ihx := expr_ext e xs tx hx hok.tail.tail h2
    have := unions_ext [[tp], [tk], tx] (by simpa using hok)
    simp only [Op.spanOf, hp, hk, ihx]
    simpa using this

theorem take_ext {p k : Span} {e : Expr} {us : List UTok} {ts : List Token}
    (h : unparseOp (.take p k e) = some us)
    (hok : TokOK ts) (ha : accounts true us ts = true) : (Op.take p k e).spanOf = ext ts := by
  cases hx : unparseExpr e with
  | none => simp [unparseOp, hx] at h
  | some xs =>
    rw [unparse_take p k hx, Option.some.injEq] at h
    subst h
    obtain ⟨tp, r1, rfl, hp, h1⟩ := accounts_span_cons (u := sym .pipe p) p rfl rfl rfl ha
    obtain ⟨tk, tx, rfl, hk, h2⟩ := accounts_span_cons (u := kwTok ["take", "limit"] k) k rfl rfl rfl h1
    have ihx := expr_ext e xs tx hx hok.tail.tail h2
    have := unions_ext [[tp], [tk], tx] (by simpa using hok)
    simp only [Op.spanOf, hp, hk, ihx]
    simpa using this

theorem sort_ext {p k : Span} {terms : List SortTerm} {us : List UTok} {ts : List Token}
    (h : unparseOp (.sort p k terms) = some us)
    (hok : TokOK ts) (ha : accounts true us ts = true) : (Op.sort p k terms).spanOf = ext ts := by
  cases terms with
  | nil => simp [unparseOp] at h
  | cons t0 terms' =>
    cases hl : listM unparseSortTerm (t0 :: terms') with
    | none => simp [unparseOp, hl] at h
    | some tss =>
      rw [unparse_sort p k (by simp) hl, Option.some.injEq] at h
      subst h
      obtain ⟨tp, r1, rfl, hp, h1⟩ := accounts_span_cons (u := sym .pipe p) p rfl rfl rfl ha
      obtain ⟨t1, t2, tl, rfl, hk, h2⟩ := accounts_span2_cons k rfl rfl rfl rfl h1
      have ihl := sepBy_ext sortTerm_extSpec _ _ tl hl hok.tail.tail.tail h2
      have := unions_ext [[tp], [t1, t2], tl] (by simpa using hok)
      simp only [Op.spanOf, hp, hk, ihl]
      simpa using this

theorem top_ext {p k b : Span} {n : Expr} {c : Option SortTerm} {us : List UTok} {ts : List Token}
    (h : unparseOp (.top p k n b c) = some us)
    (hok : TokOK ts) (ha : accounts true us ts = true) : (Op.top p k n b c).spanOf = ext ts := by
  cases hx : unparseExpr n with
  | none => simp [unparseOp, hx] at h
  | some xs =>
    cases c with
    | none => simp [unparseOp, hx] at h
    | some col =>
      cases hc : unparseSortTerm col with
      | none => simp [unparseOp, hx, hc] at h
      | some cs =>
        rw [unparse_top p k b hx hc, Option.some.injEq] at h
        subst h
        simp only [List.cons_append] at ha
        obtain ⟨tp, r1, rfl, hp, h1⟩ := accounts_span_cons (u := sym .pipe p) p rfl rfl rfl ha
        obtain ⟨tk, r2, rfl, hk, h2⟩ := accounts_span_cons (u := kwTok ["top"] k) k rfl rfl rfl h1
        obtain ⟨tx, r3, rfl, hax, h3⟩ := accounts_append_split h2
        obtain ⟨tb, tc, rfl, hb, h4⟩ := accounts_span_cons (u := sym .by_ b) b rfl rfl rfl h3
        have ihx := expr_ext n xs tx hx hok.tail.tail.left hax
        have ihc := (sortTerm_extSpec col cs hc).2 tc hok.tail.tail.right.tail h4
        have := unions_ext [[tp], [tk], tx, [tb], tc] (by simpa using hok)
        simp only [Op.spanOf, hp, hk, hb, ihx, ihc]
        simpa using this

theorem project_ext {p k : Span} {cols : List Column} {us : List UTok} {ts : List Token}
    (h : unparseOp (.project p k cols) = some us)
    (hok : TokOK ts) (ha : accounts true us ts = true) : (Op.project p k cols).spanOf = ext ts := by
  cases cols with
  | nil => simp [unparseOp] at h
  | cons c0 cols' =>
    cases hl : listM (unparseColumn true) (c0 :: cols') with
    | none => simp [unparseOp, hl] at h
    | some css =>
      rw [unparse_project p k (by simp) hl, Option.some.injEq] at h
      subst h
      obtain ⟨tp, r1, rfl, hp, h1⟩ := accounts_span_cons (u := sym .pipe p) p rfl rfl rfl ha
      obtain ⟨tk, tl, rfl, hk, h2⟩ := accounts_span_cons (u := kwTok ["project"] k) k rfl rfl rfl h1
      have ihl := sepBy_ext (column_extSpec true) _ _ tl hl hok.tail.tail h2
      have := unions_ext [[tp], [tk], tl] (by simpa using hok)
      simp only [Op.spanOf, hp, hk, ihl]
      simpa using this

theorem extend_ext {p k : Span} {cols : List Column} {us : List UTok} {ts : List Token}
    (h : unparseOp (.extend p k cols) = some us)
    (hok : TokOK ts) (ha : accounts true us ts = true) : (Op.extend p k cols).spanOf = ext ts := by
  cases cols with
  | nil => simp [unparseOp] at h
  | cons c0 cols' =>
    cases hl : listM (unparseColumn false) (c0 :: cols') with
    | none => simp [unparseOp, hl] at h
    | some css =>
      rw [unparse_extend p k (by simp) hl, Option.some.injEq] at h
      subst h
      obtain ⟨tp, r1, rfl, hp, h1⟩ := accounts_span_cons (u := sym .pipe p) p rfl rfl rfl ha
      obtain ⟨tk, tl, rfl, hk, h2⟩ := accounts_span_cons (u := kwTok ["extend"] k) k rfl rfl rfl h1
      have ihl := sepBy_ext (column_extSpec false) _ _ tl hl hok.tail.tail h2
      have := unions_ext [[tp], [tk], tl] (by simpa using hok)
      simp only [Op.spanOf, hp, hk, ihl]
      simpa using this

theorem summarize_ext {p k b : Span} {cs gs : List Column} {us : List UTok} {ts : List Token}
    (h : unparseOp (.summarize p k cs b gs) = some us)
    (hok : TokOK ts) (ha : accounts true us ts = true) : (Op.summarize p k cs b gs).spanOf = ext ts := by
  cases hl : listM (unparseColumn false) cs with
  | none => simp [unparseOp, hl] at h
  | some css =>
    cases hg : listM (unparseColumn false) gs with
    | none => simp [unparseOp, hl, hg] at h
    | some gss =>
      cases hb : b.isValid
      · -- no `by` clause
        cases gs with
        | cons g0 gs' => simp [unparseOp, hl, hg, hb] at h
        | nil =>
          cases cs with
          | nil => simp [unparseOp, hl, hb] at h
          | cons c0 cs' =>
            simp only [unparseOp, hl, hg, hb, Option.bind_eq_bind, Option.pure_def, Option.bind_some,
              Bool.false_eq_true, if_false, List.isEmpty_cons, List.isEmpty_nil, Bool.not_true, Bool.or_self,
              Option.some.injEq] at h
            subst h
            obtain ⟨tp, r1, rfl, hp, h1⟩ := accounts_span_cons (u := sym .pipe p) p rfl rfl rfl ha
            obtain ⟨tk, tl, rfl, hk, h2⟩ := accounts_span_cons (u := kwTok ["summarize"] k) k rfl rfl rfl h1
            have ihl := sepBy_ext (column_extSpec false) _ _ tl hl hok.tail.tail h2
            have := unions_ext [[tp], [tk], tl] (by simpa using hok)
            have hnil : sliceSpan (([] : List Column).map Column.spanOf) = Span.null := rfl
            simp only [Op.spanOf, Span.unions, List.foldl_cons, List.foldl_nil, hp, hk, ihl, hnil,
              union_invalid_right hb, union_null_right]
            simpa [Span.unions] using this
      · cases gs with
        | nil => simp [unparseOp, hl, hg, hb] at h
        | cons g0 gs' =>
          rw [unparse_summarize_by p k b hb (by simp) hl hg, Option.some.injEq] at h
          subst h
          simp only [List.cons_append] at ha
          obtain ⟨tp, r1, rfl, hp, h1⟩ := accounts_span_cons (u := sym .pipe p) p rfl rfl rfl ha
          obtain ⟨tk, r2, rfl, hk, h2⟩ := accounts_span_cons (u := kwTok ["summarize"] k) k rfl rfl rfl h1
          obtain ⟨tcs, r3, rfl, hac, h3⟩ := accounts_append_split h2
          obtain ⟨m, tb, tgs, rfl, hbs, h4⟩ :=
            accounts_span_cons_opt (u := { sym .by_ b with optComma := !cs.isEmpty }) b rfl rfl h3
          have ihc := sepBy_ext (column_extSpec false) _ _ tcs hl hok.tail.tail.left hac
          have hok4 : TokOK (tb :: tgs) := hok.tail.tail.right.right
          have ihg := sepBy_ext (column_extSpec false) _ _ tgs hg hok4.tail h4
          have := unions_ext_gap [[tp], [tk], tcs] m [tb] [tgs] (by simpa using hok) (by simp) (by simp)
          simp only [Op.spanOf, hp, hk, hbs, ihc, ihg]
          simpa using this

theorem as_ext {p k : Span} {n : Option Ident} {us : List UTok} {ts : List Token}
    (h : unparseOp (.as_ p k n) = some us)
    (hok : TokOK ts) (ha : accounts true us ts = true) : (Op.as_ p k n).spanOf = ext ts := by
  cases n with
  | none => simp [unparseOp] at h
  | some nm =>
    rw [unparse_as, Option.some.injEq] at h
    subst h
    obtain ⟨tp, r1, rfl, hp, h1⟩ := accounts_span_cons (u := sym .pipe p) p rfl rfl rfl ha
    obtain ⟨tk, r2, rfl, hk, h2⟩ := accounts_span_cons (u := kwTok ["as"] k) k rfl rfl rfl h1
    obtain ⟨tn, rfl, hn⟩ := accounts_span_single (u := identTok nm) nm.span rfl rfl rfl h2
    have := unions_ext [[tp], [tk], [tn]] (by simpa using hok)
    simp only [Op.spanOf, Ident.spanOf, hp, hk, hn]
    simpa using this

theorem render_ext {p k w lp rp : Span} {ch : Option Ident} {props : List RenderProp} {us : List UTok}
    {ts : List Token} (htidy : (Op.render p k ch w lp props rp).tidy = true)
    (h : unparseOp (.render p k ch w lp props rp) = some us)
    (hok : TokOK ts) (ha : accounts true us ts = true) : (Op.render p k ch w lp props rp).spanOf = ext ts := by
  cases ch with
  | none => simp [unparseOp] at h
  | some c =>
    cases hl : listM unparseProp props with
    | none => simp [unparseOp, hl] at h
    | some pss =>
      cases hw : w.isValid
      · cases props with
        | cons p0 props' => simp [unparseOp, hl, hw] at h
        | nil =>
          simp only [unparseOp, hl, hw, Option.bind_eq_bind, Option.pure_def, Option.bind_some,
            Bool.false_eq_true, if_false, List.isEmpty_nil, Bool.not_true, Option.some.injEq] at h
          subst h
          simp only [Op.tidy, hw, Bool.false_or, Bool.and_eq_true, Bool.not_eq_true'] at htidy
          obtain ⟨tp, r1, rfl, hp, h1⟩ := accounts_span_cons (u := sym .pipe p) p rfl rfl rfl ha
          obtain ⟨tk, r2, rfl, hk, h2⟩ := accounts_span_cons (u := kwTok ["render"] k) k rfl rfl rfl h1
          obtain ⟨tn, rfl, hn⟩ := accounts_span_single (u := identTok c) c.span rfl rfl rfl h2
          have := unions_ext [[tp], [tk], [tn]] (by simpa using hok)
          have hnil : sliceSpan (([] : List RenderProp).map RenderProp.spanOf) = Span.null := rfl
          simp only [Op.spanOf, Ident.spanOf, Span.unions, List.foldl_cons, List.foldl_nil, hp, hk, hn, hnil,
            union_invalid_right hw, union_invalid_right htidy.1, union_invalid_right htidy.2,
            union_null_right]
          simpa [Span.unions] using this
      · cases props with
        | nil => simp [unparseOp, hl, hw] at h
        | cons p0 props' =>
          rw [unparse_render_with p k w lp rp c hw (by simp) hl, Option.some.injEq] at h
          subst h
          simp only [List.cons_append] at ha
          obtain ⟨tp, r1, rfl, hp, h1⟩ := accounts_span_cons (u := sym .pipe p) p rfl rfl rfl ha
          obtain ⟨tk, r2, rfl, hk, h2⟩ := accounts_span_cons (u := kwTok ["render"] k) k rfl rfl rfl h1
          obtain ⟨tn, r3, rfl, hn, h3⟩ := accounts_span_cons (u := identTok c) c.span rfl rfl rfl h2
          obtain ⟨tw, r4, rfl, hww, h4⟩ := accounts_span_cons (u := kwTok ["with"] w) w rfl rfl rfl h3
          obtain ⟨tl, r5, rfl, hlp, h5⟩ := accounts_span_cons (u := sym .lparen lp) lp rfl rfl rfl h4
          obtain ⟨tps, r6, rfl, hap, h6⟩ := accounts_append_split h5
          obtain ⟨tr, rfl, hrp⟩ := accounts_span_single (u := sym .rparen rp) rp rfl rfl rfl h6
          have ihp := sepBy_ext prop_extSpec _ _ tps hl hok.tail.tail.tail.tail.tail.left hap
          have := unions_ext [[tp], [tk], [tn], [tw], [tl], tps, [tr]] (by simpa using hok)
          simp only [Op.spanOf, Ident.spanOf, hp, hk, hn, hww, hlp, hrp, ihp]
          simpa using this

/-! ### the mutually recursive part: tabular expressions, operator lists, `join` -/

theorem unparseOps_cons_inv {o : Op} {os : OpList} {us : List UTok} (h : unparseOps (.cons o os) = some us) :
    ∃ a b, unparseOp o = some a ∧ unparseOps os = some b ∧ us = a ++ b := by
  simp only [unparseOps, Option.bind_eq_bind, Option.pure_def, Option.bind_eq_some_iff, Option.some.injEq] at h
  obtain ⟨a, ha, b, hb, rfl⟩ := h
  exact ⟨a, b, ha, hb, rfl⟩

mutual

/-- **C10 for tabular expressions.** -/
theorem tabular_ext : ∀ (t : Tabular) (us : List UTok) (ts : List Token), t.tidy = true →
    unparseTabular t = some us → TokOK ts → accounts true us ts = true → t.spanOf = ext ts
  | .nil, _, _, _, h, _, _ => by simp [unparseTabular] at h
  | .mk src ops, us, ts, htidy, h, hok, ha => by
    cases src with
    | none => simp [unparseTabular] at h
    | some s =>
      cases ho : unparseOps ops with
      | none => simp [unparseTabular, ho] at h
      | some os =>
        rw [unparseTabular_mk ho, Option.some.injEq] at h
        subst h
        obtain ⟨tn, tos, rfl, hn, h1⟩ := accounts_span_cons (u := identTok s) s.span rfl rfl rfl ha
        have iho := ops_ext ops os tos (by simpa [Tabular.tidy] using htidy) ho hok.tail h1
        have := unions_ext [[tn], tos] (by simpa using hok)
        simp only [Tabular.spanOf, Ident.spanOf, hn, iho]
        simpa using this

/-- operator lists: the union of the operators' spans is the extent of the list's tokens -/
theorem ops_ext : ∀ (l : OpList) (us : List UTok) (ts : List Token), l.tidy = true →
    unparseOps l = some us → TokOK ts → accounts true us ts = true → sliceSpan l.spansOf = ext ts
  | .nil, us, ts, _, h, _, ha => by
    simp only [unparseOps, Option.some.injEq] at h
    subst h
    rw [accounts_nil_left ha]
    rfl
  | .cons o os, us, ts, htidy, h, hok, ha => by
    obtain ⟨a, b, hoa, hob, rfl⟩ := unparseOps_cons_inv h
    obtain ⟨ta, tb, rfl, haa, hab⟩ := accounts_append_split ha
    simp only [OpList.tidy, Bool.and_eq_true] at htidy
    have ih1 := op_ext o a ta htidy.1 hoa hok.left haa
    have ih2 := ops_ext os b tb htidy.2 hob hok.right hab
    rw [sliceSpan_eq_unions] at ih2 ⊢
    rw [OpList.spansOf, ih1, unions_cons_ext hok.left, ih2]
    exact ext_union hok

/-- **C10 for operators.** The span of an operator is the extent of its tokens, from the pipe. -/
theorem op_ext : ∀ (o : Op) (us : List UTok) (ts : List Token), o.tidy = true →
    unparseOp o = some us → TokOK ts → accounts true us ts = true → o.spanOf = ext ts
  | .count p k, _, _, _, h, hok, ha => count_ext h hok ha
  | .where_ p k e, _, _, _, h, hok, ha => where_ext h hok ha
  | .sort p k terms, _, _, _, h, hok, ha => sort_ext h hok ha
  | .take p k n, _, _, _, h, hok, ha => take_ext h hok ha
  | .top p k n b c, _, _, _, h, hok, ha => top_ext h hok ha
  | .project p k cs, _, _, _, h, hok, ha => project_ext h hok ha
  | .extend p k cs, _, _, _, h, hok, ha => extend_ext h hok ha
  | .summarize p k cs b gs, _, _, _, h, hok, ha => summarize_ext h hok ha
  | .as_ p k n, _, _, _, h, hok, ha => as_ext h hok ha
  | .render p k ch w lp props rp, _, _, htidy, h, hok, ha => render_ext htidy h hok ha
  | .join p k kind ka fl lp right rp on conds, us, ts, htidy, h, hok, ha => by
    cases hr : unparseTabular right with
    | none => simp [unparseOp, hr] at h
    | some r =>
      cases hc : unparseExprList conds with
      | none => simp [unparseOp, hr, hc] at h
      | some cs =>
        cases conds with
        | nil => simp [unparseOp, hr, hc, ExprList.length] at h
        | cons c0 conds' =>
          have htr : right.tidy = true := by simpa [Op.tidy] using htidy
          cases fl with
          | some f =>
            rw [unparse_join_kind p k kind ka lp rp on f hr hc (by simp), Option.some.injEq] at h
            subst h
            simp only [List.cons_append] at ha
            obtain ⟨tp, r1, rfl, hp, h1⟩ := accounts_span_cons (u := sym .pipe p) p rfl rfl rfl ha
            obtain ⟨tk, r2, rfl, hk, h2⟩ := accounts_span_cons (u := kwTok ["join"] k) k rfl rfl rfl h1
            obtain ⟨tki, r3, rfl, hki, h3⟩ := accounts_span_cons (u := kwTok ["kind"] kind) kind rfl rfl rfl h2
            obtain ⟨tka, r4, rfl, hka, h4⟩ := accounts_span_cons (u := sym .assign ka) ka rfl rfl rfl h3
            obtain ⟨tf, r5, rfl, hf, h5⟩ := accounts_span_cons (u := identTok f) f.span rfl rfl rfl h4
            obtain ⟨tl, r6, rfl, hlp, h6⟩ := accounts_span_cons (u := sym .lparen lp) lp rfl rfl rfl h5
            obtain ⟨tr, r7, rfl, har, h7⟩ := accounts_append_split h6
            obtain ⟨trp, r8, rfl, hrp, h8⟩ := accounts_span_cons (u := sym .rparen rp) rp rfl rfl rfl h7
            obtain ⟨ton, tcs, rfl, hon, h9⟩ := accounts_span_cons (u := kwTok ["on"] on) on rfl rfl rfl h8
            have hokr := hok.tail.tail.tail.tail.tail.tail
            have ihr := tabular_ext right r tr htr hr hokr.left har
            have ihc := exprList_ext (.cons c0 conds') cs tcs hc hokr.right.tail.tail h9
            have := unions_ext [[tp], [tk], [tki], [tka], [tf], [tl], tr, [trp], [ton], tcs] (by simpa using hok)
            simp only [Op.spanOf, Ident.spanOf, hp, hk, hki, hka, hf, hlp, hrp, hon, ihr, ihc]
            simpa using this
          | none =>
            cases hkv : kind.isValid
            · cases hkav : ka.isValid
              · have hu : unparseOp (.join p k kind ka none lp right rp on (.cons c0 conds')) =
                    some (sym .pipe p :: kwTok ["join"] k :: sym .lparen lp :: r ++
                      sym .rparen rp :: kwTok ["on"] on :: cs) := by
                  simp [unparseOp, hr, hc, hkv, hkav, ExprList.length]
                rw [hu, Option.some.injEq] at h
                subst h
                simp only [List.cons_append] at ha
                obtain ⟨tp, r1, rfl, hp, h1⟩ := accounts_span_cons (u := sym .pipe p) p rfl rfl rfl ha
                obtain ⟨tk, r2, rfl, hk, h2⟩ := accounts_span_cons (u := kwTok ["join"] k) k rfl rfl rfl h1
                obtain ⟨tl, r6, rfl, hlp, h6⟩ := accounts_span_cons (u := sym .lparen lp) lp rfl rfl rfl h2
                obtain ⟨tr, r7, rfl, har, h7⟩ := accounts_append_split h6
                obtain ⟨trp, r8, rfl, hrp, h8⟩ := accounts_span_cons (u := sym .rparen rp) rp rfl rfl rfl h7
                obtain ⟨ton, tcs, rfl, hon, h9⟩ := accounts_span_cons (u := kwTok ["on"] on) on rfl rfl rfl h8
                have hokr := hok.tail.tail.tail
                have ihr := tabular_ext right r tr htr hr hokr.left har
                have ihc := exprList_ext (.cons c0 conds') cs tcs hc hokr.right.tail.tail h9
                have := unions_ext [[tp], [tk], [tl], tr, [trp], [ton], tcs] (by simpa using hok)
                simp only [Op.spanOf, Ident.spanOf, Span.unions, List.foldl_cons, List.foldl_nil,
                  hp, hk, hlp, hrp, hon, ihr, ihc, union_invalid_right hkv, union_invalid_right hkav,
                  union_null_right]
                simpa [Span.unions] using this
              · simp [unparseOp, hr, hc, hkv, hkav, ExprList.length] at h
            · simp [unparseOp, hr, hc, hkv, ExprList.length] at h

end

/-! ### statements -/

/-- **C10 for statements.** -/
theorem stmt_ext (s : Stmt) (us : List UTok) (ts : List Token) (htidy : s.tidy = true)
    (h : unparseStmt s = some us) (hok : TokOK ts) (ha : accounts true us ts = true) : s.spanOf = ext ts := by
  cases s with
  | tabular t => exact tabular_ext t us ts htidy h hok ha
  | let_ kw name asg x =>
    cases name with
    | none => simp [unparseStmt] at h
    | some n =>
      cases hx : unparseExpr x with
      | none => simp [unparseStmt, hx] at h
      | some xs =>
        simp only [unparseStmt, hx, Option.bind_eq_bind, Option.pure_def, Option.bind_some,
          Option.some.injEq] at h
        subst h
        obtain ⟨tk, r1, rfl, hk, h1⟩ := accounts_span_cons (u := kwTok ["let"] kw) kw rfl rfl rfl ha
        obtain ⟨tn, r2, rfl, hn, h2⟩ := accounts_span_cons (u := identTok n) n.span rfl rfl rfl h1
        obtain ⟨ta, tx, rfl, hasg, h3⟩ := accounts_span_cons (u := sym .assign asg) asg rfl rfl rfl h2
        have ihx := expr_ext x xs tx hx hok.tail.tail.tail h3
        have := unions_ext [[tk], [tn], [ta], tx] (by simpa using hok)
        simp only [Stmt.spanOf, Ident.spanOf, hk, hn, hasg, ihx]
        simpa using this

end Pql
