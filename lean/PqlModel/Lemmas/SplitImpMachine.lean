/-
`SplitImp.Machine`: an IMPERATIVE model of the Go function `splitQueries` (pql.go, lines 131–268)
with `chainSubquery` (270–287), written statement group by statement group.

What the Go code manipulates, and how it is modelled
----------------------------------------------------
* `type subquery struct{ name, sourceSQL; op; sort; take }`; objects are created by
  `&subquery{…}` only (one site in `chainSubquery`, one in the join case).  They live on the Go
  heap: `Heap := Array Subquery`, an address is an index into it, `alloc` pushes.  Go never frees
  or moves an object that is still referenced, so an address stays valid for ever.
* `dst []*subquery` is a slice of POINTERS (pql.go:131 `dst []*subquery`, 120 `type subquery
  struct`), not of structs.  Hence `append(dst, p)` copies at most the pointer words when the
  backing array is re-allocated; the objects do not move, and the pointer `lastSubquery` is NOT
  invalidated by `append`.  `dst : List Addr`.  The slice header is used linearly (every
  `append`/recursive result is assigned back to the one variable `dst` of the activation, the
  callee works on its own copy of the header and on error the caller returns immediately), so
  sharing of backing arrays between slice headers cannot be observed and `append` is `++ [p]`.
* `lastSubquery *subquery` is a Go pointer: `last : Option Addr`, `none` = `nil`.  All writes
  `lastSubquery.f = v` are heap updates AT THAT ADDRESS (`store`): if the address occurred twice
  in `dst`, or somewhere else than at the end, the machine — like Go, unlike the functional
  model's `setLast` — would change those entries.
* `dstStart`, `expr.Source`, `source`, `scope` are never assigned after initialisation.
* Go run-time panics are explicit: dereferencing `nil` (`deref`), indexing a slice out of range
  (`index`, with Go's signed `int` index: `len(dst)-1` may be `-1`), `expr.Operators` on a nil
  `expr`, `op.Name.Name` on a nil `Name`, `src.Table.Name` on a nil `Table`.  A dangling address
  cannot exist in Go; `load`/`store` report it as a panic so that nothing is silently defaulted.

Two representation limits inherited from the frozen AST / `Subquery` types (both unreachable from
parser output, `Tabular.Good`):
* `top` with `Col == nil`: Go stores `Terms: []*SortTerm{nil}` and panics only later, in
  `(*subquery).write` (`term.X`).  `Subquery.sort : Option (List SortTerm)` cannot hold a nil
  term; the machine panics at this point, like the functional model.
* `dst` cannot hold a nil pointer; every `append(dst, lastSubquery)` in the source directly
  follows `lastSubquery = &subquery{…}` (possibly through `chainSubquery`), so the appended
  pointer is never nil; the machine's `stAppend` flags the impossible case as a panic.
-/
import PqlModel.Model.Compile
namespace Pql.SplitImp
open Pql

/-! ### heap, pointers, slices -/

abbrev Addr := Nat
/-- the `subquery` objects of the Go heap, by address -/
abbrev Heap := Array Subquery
abbrev M := Except WErr

/-- `&subquery{…}`: a new object at a fresh address -/
def alloc (h : Heap) (s : Subquery) : Heap × Addr := (h.push s, h.size)

/-- `*p` (reading a field of `p`) -/
def load (h : Heap) (a : Addr) : M Subquery :=
  match h[a]? with
  | some s => .ok s
  | none => .error .panic

/-- `p.f = v`: update the object at address `a` in place -/
def store (h : Heap) (a : Addr) (f : Subquery → Subquery) : M Heap :=
  match h[a]? with
  | some s => .ok (h.setIfInBounds a (f s))
  | none => .error .panic

/-- using a pointer: `nil` dereference panics -/
def deref : Option Addr → M Addr
  | some a => .ok a
  | none => .error .panic

/-- `dst[i]` with a Go `int` index: out of range panics -/
def index (dst : List Addr) (i : Int) : M Addr :=
  if 0 ≤ i then
    match dst[i.toNat]? with
    | some a => .ok a
    | none => .error .panic
  else .error .panic

/-- the mutable variables of one activation of `splitQueries`, and the heap -/
structure St where
  heap : Heap
  /-- `dst []*subquery` -/
  dst : List Addr
  /-- `lastSubquery *subquery` -/
  last : Option Addr

/-! ### `dataSourceSQL`, `chainSubquery` -/

/-- `dataSourceSQL(sb, src)` for `src = &TableRef{Table}`: `quoteIdentifier(sb, src.Table.Name)`;
    `Table == nil` (the AST's `source = none`) is a nil dereference -/
def dataSourceSQLI : Option Ident → M (List Chunk)
  | some i => .ok [.qid i.name]
  | none => .error .panic

/-- `func chainSubquery(dst []*subquery, dstStart int, src parser.TabularDataSource) (*subquery, error)` -/
def chainSubqueryI (h : Heap) (dst : List Addr) (dstStart : Nat) (src : Option Ident) :
    M (Heap × Addr) := do
  -- sub := &subquery{ name: subqueryName(len(dst)) }
  let (h, sub) := alloc h { name := subqueryName dst.length, source := [] }
  -- sb := new(strings.Builder)
  -- if len(dst) > dstStart { quoteIdentifier(sb, dst[len(dst)-1].name) }
  -- else { if err := dataSourceSQL(sb, src); err != nil { return nil, err } }
  let sb ←
    if dst.length > dstStart then do
      let p ← index dst ((dst.length : Int) - 1)
      let l ← load h p
      pure [Chunk.qid l.name]
    else dataSourceSQLI src
  -- sub.sourceSQL = sb.String()
  let h ← store h sub fun s => { s with source := sb }
  -- return sub, nil
  pure (h, sub)

/-! ### the statement groups of the loop body -/

/-- `lastSubquery, err = chainSubquery(dst, dstStart, expr.Source); if err != nil { return nil, err }` -/
def stChain (source : Option Ident) (dstStart : Nat) (st : St) : M St := do
  let (h, p) ← chainSubqueryI st.heap st.dst dstStart source
  pure { st with heap := h, last := some p }

/-- `lastSubquery.f = v` -/
def stAssign (f : Subquery → Subquery) (st : St) : M St := do
  let p ← deref st.last
  let h ← store st.heap p f
  pure { st with heap := h }

/-- `dst = append(dst, lastSubquery)` -/
def stAppend (st : St) : M St := do
  let p ← deref st.last
  pure { st with dst := st.dst ++ [p] }

/-- `lastSubquery == nil || g(*lastSubquery)`, evaluated left to right with short circuit -/
def stGuard (g : Subquery → Bool) (st : St) : M Bool :=
  match st.last with
  | none => .ok true                       -- lastSubquery == nil
  | some p => do
    let l ← load st.heap p
    pure (g l)

/-- `if <guard> { lastSubquery, err = chainSubquery(dst, dstStart, expr.Source);
      if err != nil { return nil, err }; dst = append(dst, lastSubquery) }` -/
def stChainIf (g : Subquery → Bool) (source : Option Ident) (dstStart : Nat) (st : St) : M St := do
  if (← stGuard g st) then
    let st ← stChain source dstStart st
    stAppend st
  else pure st

/-- `op.Name.Name` -/
def nameOf : Option Ident → M Bytes
  | some i => .ok i.name
  | none => .error .panic

/-- one iteration of `for i := 0; i < len(expr.Operators); i++ { switch op := expr.Operators[i].(type) {…} }`
    for every case but `*parser.JoinOperator` (which recurses, see `loopI`) -/
def stepI (source : Option Ident) (dstStart : Nat) (o : Op) (st : St) : M St :=
  match o with
  | .as_ _ _ name => do
    -- case *parser.AsOperator:
    --   lastSubquery, err = chainSubquery(dst, dstStart, expr.Source); if err != nil { return nil, err }
    let st ← stChain source dstStart st
    --   lastSubquery.name = op.Name.Name
    let n ← nameOf name
    let st ← stAssign (fun s => { s with name := n }) st
    --   lastSubquery.op = op
    let st ← stAssign (fun s => { s with op := some o }) st
    --   dst = append(dst, lastSubquery)
    stAppend st
  | .sort _ _ terms => do
    -- case *parser.SortOperator:
    --   if lastSubquery == nil || !canAttachSort(lastSubquery.op) || lastSubquery.sort != nil || lastSubquery.take != nil {
    --     lastSubquery, err = chainSubquery(…); if err != nil { return nil, err }; dst = append(dst, lastSubquery) }
    let st ← stChainIf (fun l => !canAttachSort l.op || l.sort.isSome || l.take.isSome) source dstStart st
    --   lastSubquery.sort = op
    stAssign (fun s => { s with sort := some terms }) st
  | .take _ _ n => do
    -- case *parser.TakeOperator:
    --   if lastSubquery == nil || !canAttachSort(lastSubquery.op) || lastSubquery.take != nil { … same block … }
    let st ← stChainIf (fun l => !canAttachSort l.op || l.take.isSome) source dstStart st
    --   lastSubquery.take = op
    stAssign (fun s => { s with take := some n }) st
  | .top _ _ n _ col => do
    -- case *parser.TopOperator:
    --   if lastSubquery == nil || !canAttachSort(lastSubquery.op) || lastSubquery.sort != nil || lastSubquery.take != nil { … same block … }
    let st ← stChainIf (fun l => !canAttachSort l.op || l.sort.isSome || l.take.isSome) source dstStart st
    match col with
    | none => .error .panic      -- `Terms: []*SortTerm{nil}` is not representable, see the header
    | some c => do
      --   lastSubquery.sort = &parser.SortOperator{Pipe: op.Pipe, Keyword: op.Keyword, Terms: []*parser.SortTerm{op.Col}}
      let st ← stAssign (fun s => { s with sort := some [c] }) st
      --   lastSubquery.take = &parser.TakeOperator{Pipe: op.Pipe, Keyword: op.Keyword, RowCount: op.RowCount}
      stAssign (fun s => { s with take := some n }) st
  | .join .. => .error .panic    -- not used: `loopI` handles the join case itself
  | _ => do
    -- default:
    --   lastSubquery, err = chainSubquery(dst, dstStart, expr.Source); if err != nil { return nil, err }
    let st ← stChain source dstStart st
    --   lastSubquery.op = op
    let st ← stAssign (fun s => { s with op := some o }) st
    --   dst = append(dst, lastSubquery)
    stAppend st

/-- `flavorName := "innerunique"; if op.Flavor != nil { flavorName = op.Flavor.Name }` -/
def flavorNameI : Option Ident → Bytes
  | some f => f.name
  | none => Bytes.ofString "innerunique"

/-- `if leftSubquery >= dstStart { quoteIdentifier(joinSource, dst[leftSubquery].name) }
    else { if err := dataSourceSQL(joinSource, expr.Source); err != nil { return nil, err } }`:
    what gets written to `joinSource` -/
def joinLeftI (source : Option Ident) (dstStart : Nat) (leftSubquery : Int) (st : St) : M (List Chunk) :=
  if leftSubquery ≥ (dstStart : Int) then do
    let q ← index st.dst leftSubquery
    let l ← load st.heap q
    pure [Chunk.qid l.name]
  else dataSourceSQLI source

/-- `switch flavorName { case "inner", "innerunique": joinSource.WriteString(" JOIN ")
      case "leftouter": joinSource.WriteString(" LEFT JOIN ")
      default: return nil, &compileError{…} }` -/
def joinKwI (flavorName : Bytes) : M (List Chunk) :=
  if flavorName == Bytes.ofString "inner" || flavorName == Bytes.ofString "innerunique" then
    .ok [Chunk.txt " JOIN "]
  else if flavorName == Bytes.ofString "leftouter" then .ok [Chunk.txt " LEFT JOIN "]
  else .error .err

/-- the join case after the recursive call returned without error (pql.go:194–245);
    `leftSubquery` was computed BEFORE the call (`leftSubquery := len(dst) - 1`) -/
def joinTailI (src : Bytes) (scope : List (Bytes × List Chunk)) (source : Option Ident) (dstStart : Nat)
    (leftSubquery : Int) (flavor : Option Ident) (conds : ExprList) (st : St) : M St := do
  -- lastSubquery = dst[len(dst)-1]
  let p ← index st.dst ((st.dst.length : Int) - 1)
  let st : St := { st with last := some p }
  -- flavorName := "innerunique"; if op.Flavor != nil { flavorName = op.Flavor.Name }
  let flavorName := flavorNameI flavor
  -- joinSource := new(strings.Builder)
  let js : List Chunk := []
  -- if flavorName == "innerunique" { joinSource.WriteString("(SELECT DISTINCT * FROM ") }
  let js := if flavorName == Bytes.ofString "innerunique" then js ++ [.txt "(SELECT DISTINCT * FROM "] else js
  -- if leftSubquery >= dstStart { … dst[leftSubquery].name … } else { … dataSourceSQL … }
  let left ← joinLeftI source dstStart leftSubquery st
  let js := js ++ left
  -- if flavorName == "innerunique" { joinSource.WriteString(")") }
  let js := if flavorName == Bytes.ofString "innerunique" then js ++ [.txt ")"] else js
  -- joinSource.WriteString(` AS "` + leftJoinTableAlias + `"`)
  let js := js ++ [.txt (" AS \"" ++ Facts.leftJoinTableAlias ++ "\"")]
  -- switch flavorName { … }
  let kw ← joinKwI flavorName
  let js := js ++ kw
  -- quoteIdentifier(joinSource, lastSubquery.name)
  let pl ← deref st.last
  let r ← load st.heap pl
  let js := js ++ [.qid r.name]
  -- joinSource.WriteString(` AS "` + rightJoinTableAlias + `" ON `)
  let js := js ++ [.txt (" AS \"" ++ Facts.rightJoinTableAlias ++ "\" ON ")]
  -- joinCtx := &exprContext{source: source, scope: scope, mode: joinExprMode}
  -- if err := writeExpression(joinCtx, joinSource, buildJoinCondition(op.Conditions)); err != nil { return nil, err }
  let c ← writeExpr ⟨src, scope, .join⟩ (buildJoinCondition conds)
  let js := js ++ c
  -- lastSubquery = &subquery{ name: subqueryName(len(dst)), sourceSQL: joinSource.String() }
  let (h, p) := alloc st.heap { name := subqueryName st.dst.length, source := js }
  let st : St := { st with heap := h, last := some p }
  -- dst = append(dst, lastSubquery)
  stAppend st

/-- the end of `splitQueries`:
    `if len(dst) == dstStart { lastSubquery, err = chainSubquery(…); if err != nil { return nil, err };
       dst = append(dst, lastSubquery) }; return dst, nil` -/
def finishI (source : Option Ident) (dstStart : Nat) (st : St) : M (Heap × List Addr) := do
  let st ←
    if st.dst.length = dstStart then do
      let st ← stChain source dstStart st
      stAppend st
    else pure st
  pure (st.heap, st.dst)

mutual
/-- `func splitQueries(dst []*subquery, source string, scope map[string]string, expr *parser.TabularExpr) ([]*subquery, error)`:
    the heap is threaded through, the result is the final heap and the returned slice -/
def splitQueriesI (src : Bytes) (scope : List (Bytes × List Chunk)) (h : Heap) (dst : List Addr) :
    Tabular → M (Heap × List Addr)
  | .nil => .error .panic        -- `expr.Operators` with `expr == nil`
  | .mk source ops => do
    -- dstStart := len(dst); var lastSubquery *subquery
    let dstStart := dst.length
    -- for i := 0; i < len(expr.Operators); i++ { … }
    let st ← loopI src scope source dstStart { heap := h, dst := dst, last := none } ops
    finishI source dstStart st

/-- the loop over `expr.Operators` -/
def loopI (src : Bytes) (scope : List (Bytes × List Chunk)) (source : Option Ident) (dstStart : Nat)
    (st : St) : OpList → M St
  | .nil => .ok st
  | .cons o rest =>
    match o with
    | .join _ _ _ _ flavor _ right _ _ conds => do
      -- case *parser.JoinOperator:
      --   leftSubquery := len(dst) - 1
      let leftSubquery : Int := (st.dst.length : Int) - 1
      --   dst, err = splitQueries(dst, source, scope, op.Right); if err != nil { return nil, err }
      let (h, dst) ← splitQueriesI src scope st.heap st.dst right
      let st : St := { st with heap := h, dst := dst }
      let st ← joinTailI src scope source dstStart leftSubquery flavor conds st
      loopI src scope source dstStart st rest
    | o => do
      let st ← stepI source dstStart o st
      loopI src scope source dstStart st rest
end

/-! ### reading the result -/

/-- the object at an address (a dangling address reads as the default object) -/
def cell (h : Heap) (a : Addr) : Subquery := h[a]?.getD default

/-- the list of subqueries a slice of pointers denotes -/
def abs (h : Heap) (dst : List Addr) : List Subquery := dst.map (cell h)

/-- all pointers of the slice point to allocated objects (what Go's type system guarantees) -/
def validDst (h : Heap) (dst : List Addr) : Bool := dst.all (· < h.size)

/-- `splitQueries(nil, source, scope, expr)` as `Compile` calls it, read back as a list -/
def runI (src : Bytes) (scope : List (Bytes × List Chunk)) (t : Tabular) : Except WErr (List Subquery) :=
  (splitQueriesI src scope #[] [] t).map fun r => abs r.1 r.2

mutual
/-- no nil in a position `splitQueries` dereferences: every pipeline (right-hand sides of joins
    included) has a source table, every `as` has a name -/
def skeletonOk : Tabular → Bool
  | .nil => true
  | .mk source ops => source.isSome && opsOk ops
def opsOk : OpList → Bool
  | .nil => true
  | .cons (.as_ _ _ name) os => name.isSome && opsOk os
  | .cons (.join _ _ _ _ _ _ right _ _ _) os => skeletonOk right && opsOk os
  | .cons _ os => opsOk os
end

end Pql.SplitImp
