/-
End to end on source bytes, part 1: `C02_end_to_end_source` (Props/C02EndToEnd.lean) composed with
`parsed_tabularOK` (Props/C05Parsed.lean): the tree side condition `C05.tabularOK` is discharged
for every tree an error-free `parse` returns.
-/
import PqlModel.Props.C02EndToEnd
import PqlModel.Props.C05Parsed
import PqlModel.Lemmas.E2EFinalBangStmt
import PqlModel.Lemmas.E2EFinalNoBangStmt
namespace Pql.E2EFinal
open Pql Sql CompileOracle Intended JoinFull Pql.ParsedOK Pql.E2E

/-- the chunk list behind a successful `compile` of a source that parses to one query -/
theorem chunks_of_compile (src sql : Bytes) (stmts : List Stmt) (hp : parse src = (stmts, []))
    (hc : compile [] src = .ok sql) : ∃ cs, compileChunks src [] stmts = .ok cs ∧ sql = renderChunks cs :=
  compile_ok_chunks src sql stmts hp hc

/-- **C02 (end to end, source bytes), with the intermediate objects.** -/
theorem end_to_end_bytes_detail (src sql : Bytes) (t : Tabular)
    (hp : parse src = ([.tabular t], [])) (hc : compile [] src = .ok sql)
    (hk : k4Free [.tabular t] = true) (hnames : namesOk t = true) (hops : tabOpsOk t = true) :
    ∃ cs st want, compileChunks src [] [.tabular t] = .ok cs ∧ sql = renderChunks cs ∧
      C05.tabularOK t = true ∧
      readSql sql = some st ∧ intended src [.tabular t] = some want ∧ statementEq st want = true ∧
      ∀ db, RectDB db →
        evalStatement db (normStatement st) = Rel.interp src db t ∧
        evalStatement db want = Rel.interp src db t := by
  obtain ⟨cs, hcs, rfl⟩ := compile_ok_chunks src sql _ hp hc
  have hok := parsed_tabularOK src _ _ hp hc hk t (by simp)
  obtain ⟨st, want, h1, h2, h3, h4⟩ := E2E.C02_end_to_end_tree_detail src t cs hcs hok hnames hops
  exact ⟨cs, st, want, hcs, rfl, hok, h1, h2, h3, h4⟩

/-! ### without `normStatement` -/

/-- what is read back from the text of a compiled program has no `!=` operator: (T) + (P) -/
theorem readSql_noBang (src : Bytes) (stmts : List Stmt) (cs : List Chunk) (st : Statement)
    (hok : stmtsLexOK stmts = true) (hc : compileChunks src [] stmts = .ok cs)
    (hr : readSql (renderChunks cs) = some st) : noBangStatement st = true := by
  rw [readSql_of_lex (C05.C05_lexRender_program src stmts cs hok hc)] at hr
  exact parseStatement_noBang hr (program_toks_no_bang src stmts cs hok hc)

/-- **C02 (end to end, tree level), without normalisation**: `C02_end_to_end_tree_raw` with its
    condition `noBangStatement st` proved -/
theorem end_to_end_tree_raw (src : Bytes) (t : Tabular) (cs : List Chunk)
    (hc : compileChunks src [] [.tabular t] = .ok cs)
    (hok : C05.tabularOK t = true) (hnames : namesOk t = true) (hops : tabOpsOk t = true) :
    ∃ st, readSql (renderChunks cs) = some st ∧ noBangStatement st = true ∧
      ∀ db, RectDB db → evalStatement db st = Rel.interp src db t := by
  obtain ⟨st, h1, h2⟩ := E2E.C02_end_to_end_tree_raw src t cs hc hok hnames hops
  have hlex : stmtsLexOK [.tabular t] = true := by
    simp only [stmtsLexOK]; exact tabularOK_lexOK t hok
  have hnb := readSql_noBang src _ cs st hlex hc h1
  exact ⟨st, h1, hnb, h2 hnb⟩

end Pql.E2EFinal
