/-
Property C15, parse half — the tabular block (`tabularExpr`, the operator loop, the operator
dispatch, `join`), `let` statements and one iteration of `Parse`'s loop commute with moving the
tokens.
-/
import PqlModel.Lemmas.PiecewiseOps
namespace Pql.Piecewise
open Pql

variable {n m d : Nat}

/-- the commutation statement for the operator dispatch (`none` = unknown operator name) -/
def ShO (n m d : Nat) (r : Option (PRes Op)) (r' : Option (PRes Op)) : Prop :=
  r' = r.map (fun r => ⟨shOp d r.val, mapE n m d r.errs, r.rest.map (Token.shift d)⟩) ∧
    ∀ x, r = some x → TokP x.rest

theorem ShO.of_sh {r r' : PRes Op} (h : Sh n m d (shOp d) r r') : ShO n m d (some r) (some r') := by
  obtain ⟨e, p⟩ := h
  exact ⟨by rw [e]; rfl, fun x hx => by cases hx; exact p⟩

structure TabSh (n m d fuel : Nat) : Prop where
  tabular : ∀ ts, TokP ts →
    Sh n m d (shTabular d) (pTabular ⟨n⟩ fuel ts) (pTabular ⟨m⟩ fuel (ts.map (Token.shift d)))
  ops : ∀ ops acc ts, TokP ts →
    Sh n m d (shOpList d) (pOps ⟨n⟩ fuel ops acc ts)
      (pOps ⟨m⟩ fuel (shOpList d ops) (mapE n m d acc) (ts.map (Token.shift d)))
  operator : ∀ pipe name ts, name.start < name.stop → TokP ts →
    ShO n m d (pOperator ⟨n⟩ fuel pipe name ts)
      (pOperator ⟨m⟩ fuel (shSpan d pipe) (name.shift d) (ts.map (Token.shift d)))
  join : ∀ pipe kw ts, TokP ts →
    Sh n m d (shOp d) (pJoin ⟨n⟩ fuel pipe kw ts)
      (pJoin ⟨m⟩ fuel (shSpan d pipe) (shSpan d kw) (ts.map (Token.shift d)))

theorem TabSh.zero : TabSh n m d 0 := by
  constructor
  · intro ts h; exact ⟨by simp [pTabular, shTabular], h⟩
  · intro ops acc ts h; exact ⟨by simp [pOps], h⟩
  · intro pipe name ts hn h
    exact ⟨by simp [pOperator, shOp, span_shift d name hn], fun x hx => by
      simp only [pOperator, Option.some.injEq] at hx; subst hx; exact h⟩
  · intro pipe kw ts h; exact ⟨by simp [pJoin, shOp], h⟩

theorem pTabular_sh_step (fuel : Nat) (ih : TabSh n m d fuel) (ts : List Token) (h : TokP ts) :
    Sh n m d (shTabular d) (pTabular ⟨n⟩ (fuel + 1) ts)
      (pTabular ⟨m⟩ (fuel + 1) (ts.map (Token.shift d))) := by
  obtain ⟨ei, pi_⟩ := pIdent_sh (n := n) (m := m) (d := d) ts h
  simp only [pTabular]
  rw [ei]
  rcases hv : (pIdent ⟨n⟩ ts).val with _ | name
  · exact ⟨by sh_eq2, pi_⟩
  · obtain ⟨e1, p1⟩ := ih.ops .nil [] _ pi_
    simp only [shOpList, mapE_nil] at e1
    simp only [Option.map_some]
    rw [e1]
    exact ⟨by sh_eq2, p1⟩

theorem pOps_sh_step (fuel : Nat) (ih : TabSh n m d fuel) (ops : OpList) (acc : Errs)
    (ts : List Token) (h : TokP ts) :
    Sh n m d (shOpList d) (pOps ⟨n⟩ (fuel + 1) ops acc ts)
      (pOps ⟨m⟩ (fuel + 1) (shOpList d ops) (mapE n m d acc) (ts.map (Token.shift d))) := by
  rcases ts with _ | ⟨pipeTok, rest⟩
  · exact ⟨by simp [pOps], TokP_nil⟩
  · obtain ⟨h1, h2⟩ := (TokP_cons _ _).mp h
    simp only [pOps, List.map_cons, shift_kind_eq, split_shift]
    split
    · exact ⟨by sh_eq2, h⟩
    · have hs1 := h2.split1 (k := .pipe)
      have hs2 := h2.split2 (k := .pipe)
      rcases hsp : (split .pipe rest).1 with _ | ⟨name, opToks⟩
      · have := ih.ops ops (acc ++ errAt pipeTok.span) _ hs2
        simp only [mapE_append, mapE_errAt_tok n m d pipeTok h1] at this
        exact this
      · rw [hsp] at hs1
        obtain ⟨h3, h4⟩ := (TokP_cons _ _).mp hs1
        simp only [List.map_cons, shift_kind_eq]
        split
        · have := ih.ops ops (acc ++ errAt name.span) _ hs2
          simp only [mapE_append, mapE_errAt_tok n m d name h3] at this
          exact this
        · obtain ⟨eo, po⟩ := ih.operator pipeTok.span name opToks h3 h4
          rw [← span_shift d pipeTok h1] at eo
          rw [eo]
          rcases ho : pOperator ⟨n⟩ fuel pipeTok.span name opToks with _ | r
          · have := ih.ops ops (acc ++ errAt name.span) _ hs2
            simp only [mapE_append, mapE_errAt_tok n m d name h3] at this
            exact this
          · have hr := po r ho
            have := ih.ops (ops.snoc r.val) (acc ++ r.errs ++ endSplit r.rest) _ hs2
            simp only [mapE_append, mapE_endSplit n m d _ hr, shOpList_snoc] at this
            exact this


theorem pOperator_sh_step (fuel : Nat) (ih : TabSh n m d fuel) (pipe : Span) (name : Token)
    (ts : List Token) (hn : name.start < name.stop) (h : TokP ts) :
    ShO n m d (pOperator ⟨n⟩ (fuel + 1) pipe name ts)
      (pOperator ⟨m⟩ (fuel + 1) (shSpan d pipe) (name.shift d) (ts.map (Token.shift d))) := by
  have hsp := span_shift d name hn
  generalize ho : pOperator ⟨n⟩ (fuel + 1) pipe name ts = o
  generalize ho' : pOperator ⟨m⟩ (fuel + 1) (shSpan d pipe) (name.shift d) (ts.map (Token.shift d)) = o'
  rw [pOperator.eq_def] at ho ho'
  dsimp only at ho
  dsimp only at ho'
  subst ho ho'
  rw [show (name.shift d).value = name.value from rfl]
  by_cases hc0 : (name.value == Bytes.ofString "count") = true
  · rw [if_pos hc0, if_pos hc0]
    exact ShO.of_sh ⟨by sh_eq2, h⟩
  rw [if_neg hc0, if_neg hc0]
  by_cases hc1 : (name.value == Bytes.ofString "where" || name.value == Bytes.ofString "filter") = true
  · rw [if_pos hc1, if_pos hc1]
    obtain ⟨e1, p1⟩ := pExpr_sh (n := n) (m := m) (d := d) fuel ts h
    rw [e1]
    exact ShO.of_sh ⟨by sh_eq2, p1⟩
  rw [if_neg hc1, if_neg hc1]
  by_cases hc2 : (name.value == Bytes.ofString "sort" || name.value == Bytes.ofString "order") = true
  · rw [if_pos hc2, if_pos hc2]
    rcases ts with _ | ⟨by_, rest⟩
    · exact ShO.of_sh ⟨by sh_eq2, TokP_nil⟩
    · obtain ⟨h1, h2⟩ := (TokP_cons _ _).mp h
      simp only [List.map_cons, shift_kind_eq]
      split
      · exact ShO.of_sh ⟨by sh_eq2, h2⟩
      · obtain ⟨e1, p1⟩ := pSortTerms_sh (n := n) (m := m) (d := d) fuel (rest.length + 1) [] rest h2
        simp only [List.map_nil] at e1
        simp only [List.length_map]
        rw [e1]
        have hkw : (⟨(name.shift d).span.start, ((by_.shift d).stop : Nat)⟩ : Span) =
            shSpan d ⟨name.span.start, (by_.stop : Nat)⟩ := span2_shift d name by_ h1
        rw [hkw]
        exact ShO.of_sh ⟨by sh_eq2, p1⟩
  rw [if_neg hc2, if_neg hc2]
  by_cases hc3 : (name.value == Bytes.ofString "take" || name.value == Bytes.ofString "limit") = true
  · rw [if_pos hc3, if_pos hc3]
    obtain ⟨e1, p1⟩ := pRowCount_sh (n := n) (m := m) (d := d) fuel ts h
    rw [e1]
    exact ShO.of_sh ⟨by sh_eq2, p1⟩
  rw [if_neg hc3, if_neg hc3]
  by_cases hc4 : (name.value == Bytes.ofString "top") = true
  · rw [if_pos hc4, if_pos hc4]
    obtain ⟨e1, p1⟩ := pRowCount_sh (n := n) (m := m) (d := d) fuel ts h
    rw [e1]
    simp only [ne_eq, mapE_eq_nil]
    split
    · exact ShO.of_sh ⟨by sh_eq2, p1⟩
    · rcases hr : (pRowCount ⟨n⟩ fuel ts).rest with _ | ⟨by_, rest⟩
      · exact ShO.of_sh ⟨by sh_eq2, TokP_nil⟩
      · rw [hr] at p1
        obtain ⟨h1, h2⟩ := (TokP_cons _ _).mp p1
        simp only [List.map_cons, shift_kind_eq]
        split
        · exact ShO.of_sh ⟨by sh_eq2, p1⟩
        · obtain ⟨e2, p2⟩ := pSortTerm_sh (n := n) (m := m) (d := d) fuel rest h2
          rw [e2]
          exact ShO.of_sh ⟨by sh_eq2, p2⟩
  rw [if_neg hc4, if_neg hc4]
  by_cases hc5 : (name.value == Bytes.ofString "project") = true
  · rw [if_pos hc5, if_pos hc5]
    obtain ⟨e1, p1⟩ := pProjectCols_sh (n := n) (m := m) (d := d) fuel (ts.length + 1) [] ts h
    simp only [List.map_nil] at e1
    simp only [List.length_map]
    rw [e1]
    exact ShO.of_sh ⟨by sh_eq2, p1⟩
  rw [if_neg hc5, if_neg hc5]
  by_cases hc6 : (name.value == Bytes.ofString "extend") = true
  · rw [if_pos hc6, if_pos hc6]
    obtain ⟨e1, p1⟩ := pExtendCols_sh (n := n) (m := m) (d := d) fuel (ts.length + 1) [] ts h
    simp only [List.map_nil] at e1
    simp only [List.length_map]
    rw [e1]
    exact ShO.of_sh ⟨by sh_eq2, p1⟩
  rw [if_neg hc6, if_neg hc6]
  by_cases hc7 : (name.value == Bytes.ofString "summarize") = true
  · rw [if_pos hc7, if_pos hc7]
    rw [hsp]
    exact ShO.of_sh (pSummarize_sh fuel pipe name.span ts h)
  rw [if_neg hc7, if_neg hc7]
  by_cases hc8 : (name.value == Bytes.ofString "join") = true
  · rw [if_pos hc8, if_pos hc8]
    rw [hsp]
    exact ShO.of_sh (ih.join pipe name.span ts h)
  rw [if_neg hc8, if_neg hc8]
  by_cases hc9 : (name.value == Bytes.ofString "as") = true
  · rw [if_pos hc9, if_pos hc9]
    obtain ⟨e1, p1⟩ := pIdent_sh (n := n) (m := m) (d := d) ts h
    rw [e1]
    exact ShO.of_sh ⟨by sh_eq2, p1⟩
  rw [if_neg hc9, if_neg hc9]
  by_cases hc10 : (name.value == Bytes.ofString "render") = true
  · rw [if_pos hc10, if_pos hc10]
    rw [hsp]
    exact ShO.of_sh (pRender_sh fuel pipe name.span (SpanP_tok name hn) ts h)
  rw [if_neg hc10, if_neg hc10]
  exact ⟨rfl, fun x hx => by cases hx⟩

/-- the part of `joinOperator` after the optional `kind = flavor` (same text as in `pJoin`) -/
def joinTail (c : PCtx) (fuel : Nat) (pipe kw kind ka : Span) (fl : Option Ident) (e0 : Errs)
    (rest : List Token) : PRes Op :=
  match rest with
  | [] => ⟨.join pipe kw kind ka fl .null .nil .null .null .nil, e0 ++ errAt c.eof, []⟩
  | lp :: rest1 =>
    if lp.kind ≠ .lparen then
      ⟨.join pipe kw kind ka fl .null .nil .null .null .nil, e0 ++ errAt lp.span, rest1⟩
    else
      let sp := split .rparen rest1
      let rr := pTabular c fuel sp.1
      let e1 := e0 ++ mkOpaque rr.errs ++ endSplit rr.rest
      match sp.2 with
      | [] => ⟨.join pipe kw kind ka fl lp.span rr.val .null .null .nil, e1 ++ errAt c.eof, []⟩
      | rp :: rest2 =>
        if rp.kind ≠ .rparen then
          ⟨.join pipe kw kind ka fl lp.span rr.val .null .null .nil, e1 ++ errAt rp.span, rest2⟩
        else
          match rest2 with
          | [] => ⟨.join pipe kw kind ka fl lp.span rr.val rp.span .null .nil, e1 ++ errAt c.eof, []⟩
          | on :: rest3 =>
            if !isIdentNamed on "on" then
              ⟨.join pipe kw kind ka fl lp.span rr.val rp.span .null .nil, e1 ++ errAt on.span, rest3⟩
            else
              let rc := pExprList c fuel rest3
              ⟨.join pipe kw kind ka fl lp.span rr.val rp.span on.span rc.val,
                e1 ++ mkOpaque rc.errs, rc.rest⟩

theorem joinTail_sh (fuel : Nat) (ih : TabSh n m d fuel) (pipe kw kind ka : Span) (fl : Option Ident)
    (e0 : Errs) (rest : List Token) (h : TokP rest) :
    Sh n m d (shOp d) (joinTail ⟨n⟩ fuel pipe kw kind ka fl e0 rest)
      (joinTail ⟨m⟩ fuel (shSpan d pipe) (shSpan d kw) (shSpan d kind) (shSpan d ka)
        (fl.map (shIdent d)) (mapE n m d e0) (rest.map (Token.shift d))) := by
  rcases rest with _ | ⟨lp, rest1⟩
  · exact ⟨by simp [joinTail, shOp, shTabular, shExprList], TokP_nil⟩
  · obtain ⟨h1, h2⟩ := (TokP_cons _ _).mp h
    simp only [joinTail, List.map_cons, shift_kind_eq, split_shift]
    split
    · exact ⟨by sh_eq2, h2⟩
    · obtain ⟨e1, p1⟩ := ih.tabular _ (h2.split1 (k := .rparen))
      rw [e1]
      have hs2 := h2.split2 (k := .rparen)
      rcases hsp : (split .rparen rest1).2 with _ | ⟨rp, rest2⟩
      · exact ⟨by sh_eq2, TokP_nil⟩
      · rw [hsp] at hs2
        obtain ⟨h3, h4⟩ := (TokP_cons _ _).mp hs2
        simp only [List.map_cons, shift_kind_eq]
        split
        · exact ⟨by sh_eq2, h4⟩
        · rcases rest2 with _ | ⟨on, rest3⟩
          · exact ⟨by sh_eq2, TokP_nil⟩
          · obtain ⟨h5, h6⟩ := (TokP_cons _ _).mp h4
            simp only [List.map_cons, isIdentNamed_shift]
            split
            · exact ⟨by sh_eq2, h6⟩
            · obtain ⟨e2, p2⟩ := pExprList_sh (n := n) (m := m) (d := d) fuel rest3 h6
              rw [e2]
              exact ⟨by sh_eq2, p2⟩


theorem pJoin_sh_step (fuel : Nat) (ih : TabSh n m d fuel) (pipe kw : Span) (ts : List Token)
    (h : TokP ts) :
    Sh n m d (shOp d) (pJoin ⟨n⟩ (fuel + 1) pipe kw ts)
      (pJoin ⟨m⟩ (fuel + 1) (shSpan d pipe) (shSpan d kw) (ts.map (Token.shift d))) := by
  rcases ts with _ | ⟨t0, rest0⟩
  · exact ⟨by simp [pJoin, shOp, shTabular, shExprList], TokP_nil⟩
  · obtain ⟨h1, h2⟩ := (TokP_cons _ _).mp h
    simp only [pJoin, List.map_cons, isIdentNamed_shift]
    by_cases hk : isIdentNamed t0 "kind" = true
    · simp only [hk, ↓reduceIte]
      rcases rest0 with _ | ⟨asg, rest1⟩
      · exact ⟨by sh_eq2, TokP_nil⟩
      · obtain ⟨h3, h4⟩ := (TokP_cons _ _).mp h2
        simp only [List.map_cons, shift_kind_eq]
        by_cases ha : asg.kind ≠ TokKind.assign
        · simp only [if_pos ha]
          exact ⟨by sh_eq2, h4⟩
        · simp only [if_neg ha]
          rcases rest1 with _ | ⟨fl, rest2⟩
          · exact ⟨by sh_eq2, TokP_nil⟩
          · obtain ⟨h5, h6⟩ := (TokP_cons _ _).mp h4
            simp only [List.map_cons, shift_kind_eq, shift_value]
            by_cases hf : fl.kind ≠ TokKind.ident
            · simp only [if_pos hf]
              exact ⟨by sh_eq2, h6⟩
            · simp only [if_neg hf]
              have := joinTail_sh fuel ih pipe kw t0.span asg.span (some ⟨fl.value, fl.span, false⟩)
                (if isJoinType fl.value = true then [] else errAt fl.span) rest2 h6
              have he : mapE n m d (if isJoinType fl.value = true then [] else errAt fl.span) =
                  (if isJoinType fl.value = true then [] else errAt (fl.shift d).span) := by
                split
                · rfl
                · exact mapE_errAt_tok n m d fl h5
              simp only [he, Option.map_some, shIdent, ← span_shift d t0 h1, ← span_shift d asg h3,
                ← span_shift d fl h5] at this
              exact this
    · simp only [hk]
      have := joinTail_sh fuel ih pipe kw .null .null none [] (t0 :: rest0) h
      simp only [shSpan_null, mapE_nil, Option.map_none, List.map_cons] at this
      exact this

theorem tabSh : ∀ fuel, TabSh n m d fuel := by
  intro fuel
  induction fuel with
  | zero => exact TabSh.zero
  | succ fuel ih =>
    exact ⟨pTabular_sh_step fuel ih, pOps_sh_step fuel ih, pOperator_sh_step fuel ih,
      pJoin_sh_step fuel ih⟩

theorem pTabular_sh (fuel : Nat) (ts : List Token) (h : TokP ts) :
    Sh n m d (shTabular d) (pTabular ⟨n⟩ fuel ts) (pTabular ⟨m⟩ fuel (ts.map (Token.shift d))) :=
  (tabSh fuel).tabular ts h

/-! ### statements -/

theorem pLet_sh (fuel : Nat) (ts : List Token) (h : TokP ts) :
    Sh n m d (Option.map (shStmt d)) (pLet ⟨n⟩ fuel ts) (pLet ⟨m⟩ fuel (ts.map (Token.shift d))) := by
  rcases ts with _ | ⟨kwd, rest⟩
  · exact ⟨by simp [pLet], TokP_nil⟩
  · obtain ⟨h1, h2⟩ := (TokP_cons _ _).mp h
    simp only [pLet, List.map_cons, isIdentNamed_shift]
    split
    · exact ⟨by sh_eq2, h⟩
    · obtain ⟨ei, pi_⟩ := pIdent_sh (n := n) (m := m) (d := d) rest h2
      rw [ei]
      rcases hv : (pIdent ⟨n⟩ rest).val with _ | name
      · exact ⟨by sh_eq2, pi_⟩
      · rcases hr : (pIdent ⟨n⟩ rest).rest with _ | ⟨asg, rest2⟩
        · exact ⟨by sh_eq2, TokP_nil⟩
        · rw [hr] at pi_
          obtain ⟨h3, h4⟩ := (TokP_cons _ _).mp pi_
          simp only [Option.map_some, List.map_cons, shift_kind_eq]
          split
          · exact ⟨by sh_eq2, h4⟩
          · obtain ⟨e1, p1⟩ := pExpr_sh (n := n) (m := m) (d := d) fuel rest2 h4
            rw [e1]
            exact ⟨by sh_eq2, p1⟩

/-- **One iteration of `Parse`'s loop commutes with moving the statement's tokens.**  The tokens
    `ts` of a statement (all non-empty), parsed in a source of length `n`, against the same tokens
    moved `d` bytes to the right, parsed in a source of length `m`: the statement is the same with
    every span moved by `d`; the error leaves are the same with positions moved by `d`, except that
    the end-of-input position `n:n` becomes `m:m`; the "replaces the accumulated error" flag is
    the same. -/
theorem pStatement_sh (ts : List Token) (h : TokP ts) :
    pStatement ⟨m⟩ (ts.map (Token.shift d)) =
      ((pStatement ⟨n⟩ ts).1.map (shStmt d), mapE n m d (pStatement ⟨n⟩ ts).2.1,
        (pStatement ⟨n⟩ ts).2.2) := by
  obtain ⟨el, pl⟩ := pLet_sh (n := n) (m := m) (d := d) (fuelFor ts.length) ts h
  obtain ⟨et, pt⟩ := pTabular_sh (n := n) (m := m) (d := d) (fuelFor ts.length) ts h
  simp only [pStatement, List.length_map]
  rw [el, et]
  simp only [isNF_mapE]
  by_cases hnf : isNF (pLet ⟨n⟩ (fuelFor ts.length) ts).errs = true
  · simp only [hnf, Bool.not_true, Bool.false_eq_true, ↓reduceIte]
    cases hv : (pTabular ⟨n⟩ (fuelFor ts.length) ts).val with
    | nil =>
      simp only [shTabular, isNF_mapE]
      split
      · rcases hr : (pTabular ⟨n⟩ (fuelFor ts.length) ts).rest with _ | ⟨t, rest⟩
        · simp
        · rw [hr] at pt
          simp [mapE_errAt_tok n m d t ((TokP_cons _ _).mp pt).1]
      · simp [mapE_endSplit n m d _ pt]
    | mk src ops =>
      simp only [shTabular, isNF_mapE]
      split
      · rcases hr : (pTabular ⟨n⟩ (fuelFor ts.length) ts).rest with _ | ⟨t, rest⟩
        · simp
        · rw [hr] at pt
          simp [mapE_errAt_tok n m d t ((TokP_cons _ _).mp pt).1]
      · simp [mapE_endSplit n m d _ pt, shStmt, shTabular]
  · simp only [hnf, Bool.not_false, ↓reduceIte, isNF_mapE]
    simp [mapE_endSplit n m d _ pl]

end Pql.Piecewise
