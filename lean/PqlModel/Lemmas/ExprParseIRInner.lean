/-
`ExprParseIR`, `innerPrimaryExpr`: literals, (qualified) identifiers, calls with their argument sub-parser
and the optional trailing comma, parenthesised expressions, the not-found leaf.
-/
import PqlModel.Lemmas.ExprParseIRProd
namespace Pql.ExprParseIR
open Pql
set_option linter.unusedSimpArgs false
set_option maxRecDepth 8000

/-- the call `f(…)` after the opening parenthesis: the argument sub-parser, the trailing comma, the
    closing parenthesis -/
theorem inner_call (c : ICtx) (F : Nat) (ih : Level c F) (sk : Option TokKind) (t lp : Token)
    (rest rest2 : List Token) (parts : List Ident) (ht : t.kind = .ident) (hlp : lp.kind = .lparen)
    (hlen : ¬ parts.length > 1)
    (hq : runQualifiedIdent c ⟨t :: rest, none, sk⟩ = .ok ([.qid (some parts), .err []], ⟨lp :: rest2, none, sk⟩))
    (hpq : pQualifiedIdent c.pctx (t :: rest) = ⟨some parts, [], lp :: rest2⟩) :
    AgreeE (4 * (t :: rest).length + 1 ≤ F + 1) (runUnit c (F + 1) "innerPrimaryExpr" [] ⟨t :: rest, none, sk⟩)
      (pInner c.pctx (F + 1) (t :: rest)) sk := by
  rw [runUnit]
  simp only [runBody, innerIR_ir, params_inner, results_inner, loopFn_inner, Bool.false_eq_true, if_false]
  rw [pInner]
  have hsp := split_ir c ⟨rest2, none, sk⟩ .rparen ⟨by decide, by decide⟩
  simp only [] at hsp
  have hlen' : ¬ ((1 : Int) < (parts.length : Int)) := by omega
  have hqr := pQualifiedIdent_some_rest c.pctx (t :: rest) parts (by rw [hpq])
  rw [hpq] at hqr
  have hs := split_fst_le .rparen rest2
  prod_simp [innerIR, ht, hq, hpq, hlp, hlen, hlen']
  generalize split .rparen rest2 = sp at hsp hs ⊢
  obtain ⟨s1, s2⟩ := sp
  rcases ih.exprList s1 (some .rparen) with ⟨hbl, hl⟩ | hl
  · prod_simp [hsp, hl]
    bound_omega
  · generalize pExprList c.pctx F s1 = ra at hl ⊢
    obtain ⟨av, ae, ar⟩ := ra
    -- the end of the function, for any error list and argument rest computed so far
    by_cases hnf : isNF ae = true
    · have hne : ¬ ae = [] := by intro h; subst h; simp [isNF] at hnf
      cases s2 with
      | nil => prod_simp [hsp, hl, hnf, endSplitP, hne]
      | cons rp rest3 =>
        by_cases hrp : rp.kind = .rparen <;> prod_simp [hsp, hl, hnf, endSplitP, hrp, hne]
    · by_cases he : ae = []
      · subst he
        cases ar with
        | nil =>
          cases s2 with
          | nil => prod_simp [hsp, hl, hnf, endSplitP, endSplit]
          | cons rp rest3 =>
            by_cases hrp : rp.kind = .rparen <;> prod_simp [hsp, hl, hnf, endSplitP, hrp, endSplit]
        | cons cm more =>
          by_cases hcm : cm.kind = .comma
          · cases s2 with
            | nil => prod_simp [hsp, hl, hnf, endSplitP, hcm]
            | cons rp rest3 =>
              by_cases hrp : rp.kind = .rparen <;> prod_simp [hsp, hl, hnf, endSplitP, hrp, hcm]
          · cases s2 with
            | nil => prod_simp [hsp, hl, hnf, endSplitP, hcm]
            | cons rp rest3 =>
              by_cases hrp : rp.kind = .rparen <;> prod_simp [hsp, hl, hnf, endSplitP, hrp, hcm]
      · cases s2 with
        | nil => prod_simp [hsp, hl, hnf, he, endSplitP]
        | cons rp rest3 =>
          by_cases hrp : rp.kind = .rparen <;> prod_simp [hsp, hl, hnf, he, endSplitP, hrp]

/-- `( … )` -/
theorem inner_paren (c : ICtx) (F : Nat) (ih : Level c F) (sk : Option TokKind) (t : Token) (rest : List Token)
    (ht : t.kind = .lparen) :
    AgreeE (4 * (t :: rest).length + 1 ≤ F + 1) (runUnit c (F + 1) "innerPrimaryExpr" [] ⟨t :: rest, none, sk⟩)
      (pInner c.pctx (F + 1) (t :: rest)) sk := by
  rw [runUnit]
  simp only [runBody, innerIR_ir, params_inner, results_inner, loopFn_inner, Bool.false_eq_true, if_false]
  rw [pInner]
  have hsp := split_ir c ⟨rest, none, sk⟩ .rparen ⟨by decide, by decide⟩
  simp only [] at hsp
  have hs := split_fst_le .rparen rest
  prod_simp [innerIR, ht]
  generalize split .rparen rest = sp at hsp hs ⊢
  obtain ⟨s1, s2⟩ := sp
  rcases ih.expr s1 (some .rparen) with ⟨hbx, hx⟩ | hx
  · prod_simp [hsp, hx]
    bound_omega
  · generalize pExpr c.pctx F s1 = rx at hx ⊢
    cases s2 with
    | nil => prod_simp [hsp, hx, endSplitP]
    | cons rp rest2 =>
      by_cases hrp : rp.kind = .rparen <;> prod_simp [hsp, hx, endSplitP, hrp]

/-- an identifier first: a qualified name, or a call -/
theorem inner_ident (c : ICtx) (F : Nat) (ih : Level c F) (sk : Option TokKind) (t : Token) (rest : List Token)
    (hn1 : ¬ t.kind = .number) (hn2 : ¬ t.kind = .string) (hid : t.kind = .ident) :
    AgreeE (4 * (t :: rest).length + 1 ≤ F + 1) (runUnit c (F + 1) "innerPrimaryExpr" [] ⟨t :: rest, none, sk⟩)
      (pInner c.pctx (F + 1) (t :: rest)) sk := by
  have hq := qualifiedIdent_ir c ⟨t :: rest, none, sk⟩
  have hpq : pQualifiedIdent c.pctx (t :: rest) =
      ⟨some (pQualTail c.pctx (rest.length + 1) [⟨t.value, t.span, false⟩] rest).val,
       (pQualTail c.pctx (rest.length + 1) [⟨t.value, t.span, false⟩] rest).errs,
       (pQualTail c.pctx (rest.length + 1) [⟨t.value, t.span, false⟩] rest).rest⟩ := by
    simp [pQualifiedIdent, pIdent, hid]
  rw [hpq] at hq
  generalize pQualTail c.pctx (rest.length + 1) [⟨t.value, t.span, false⟩] rest = q at hq hpq
  obtain ⟨parts, qe, qr⟩ := q
  simp only [] at hq hpq
  by_cases hqe : qe = []
  · subst hqe
    by_cases hlen : parts.length > 1
    · have hlen' : (1 : Int) < (parts.length : Int) := by omega
      rw [runUnit]
      simp only [runBody, innerIR_ir, params_inner, results_inner, loopFn_inner, Bool.false_eq_true, if_false]
      prod_simp [innerIR, pInner, hn1, hn2, hid, hq, hpq, hlen, hlen']
    · have hlen' : ¬ ((1 : Int) < (parts.length : Int)) := by omega
      cases qr with
      | nil =>
        rw [runUnit]
        simp only [runBody, innerIR_ir, params_inner, results_inner, loopFn_inner, Bool.false_eq_true, if_false]
        prod_simp [innerIR, pInner, hn1, hn2, hid, hq, hpq, hlen, hlen']
      | cons lp rest2 =>
        by_cases hlp : lp.kind = .lparen
        · exact inner_call c F ih sk t lp rest rest2 parts hid hlp hlen hq hpq
        · rw [runUnit]
          simp only [runBody, innerIR_ir, params_inner, results_inner, loopFn_inner, Bool.false_eq_true,
            if_false]
          prod_simp [innerIR, pInner, hn1, hn2, hid, hq, hpq, hlen, hlen', hlp]
  · rw [runUnit]
    simp only [runBody, innerIR_ir, params_inner, results_inner, loopFn_inner, Bool.false_eq_true, if_false]
    prod_simp [innerIR, pInner, hn1, hn2, hid, hq, hpq, hqe]


/-- **`innerPrimaryExpr`**, one level up -/
theorem inner_step (c : ICtx) (F : Nat) (ih : Level c F) (ts : List Token) (sk : Option TokKind) :
    AgreeE (4 * ts.length + 1 ≤ F + 1) (runUnit c (F + 1) "innerPrimaryExpr" [] ⟨ts, none, sk⟩) (pInner c.pctx (F + 1) ts) sk := by
  cases ts with
  | nil =>
    rw [runUnit]
    simp only [runBody, innerIR_ir, params_inner, results_inner, loopFn_inner, Bool.false_eq_true, if_false]
    prod_simp [innerIR, pInner]
  | cons t rest =>
    by_cases hn : t.kind = .number ∨ t.kind = .string
    · rw [runUnit]
      simp only [runBody, innerIR_ir, params_inner, results_inner, loopFn_inner, Bool.false_eq_true, if_false]
      rcases hn with hn | hn <;> prod_simp [innerIR, pInner, hn]
    · have hn1 : ¬ t.kind = .number := fun h => hn (Or.inl h)
      have hn2 : ¬ t.kind = .string := fun h => hn (Or.inr h)
      by_cases hid : t.kind = .ident
      · exact inner_ident c F ih sk t rest hn1 hn2 hid
      · by_cases hqi : t.kind = .qident
        · have hq := qualifiedIdent_ir c ⟨t :: rest, none, sk⟩
          have hpq : pQualifiedIdent c.pctx (t :: rest) =
              ⟨some (pQualTail c.pctx (rest.length + 1) [⟨t.value, t.span, true⟩] rest).val,
               (pQualTail c.pctx (rest.length + 1) [⟨t.value, t.span, true⟩] rest).errs,
               (pQualTail c.pctx (rest.length + 1) [⟨t.value, t.span, true⟩] rest).rest⟩ := by
            simp [pQualifiedIdent, pIdent, hqi]
          rw [hpq] at hq
          generalize pQualTail c.pctx (rest.length + 1) [⟨t.value, t.span, true⟩] rest = q at hq hpq
          rw [runUnit]
          simp only [runBody, innerIR_ir, params_inner, results_inner, loopFn_inner, Bool.false_eq_true, if_false]
          prod_simp [innerIR, pInner, hn1, hn2, hid, hqi, hq, hpq]
        · by_cases hlp : t.kind = .lparen
          · exact inner_paren c F ih sk t rest hlp
          · rw [runUnit]
            simp only [runBody, innerIR_ir, params_inner, results_inner, loopFn_inner, Bool.false_eq_true, if_false]
            prod_simp [innerIR, pInner, hn1, hn2, hid, hqi, hlp]

end Pql.ExprParseIR
