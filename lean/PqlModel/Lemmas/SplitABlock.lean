/-
Who reads whom, exactly, in the intended structured splitting `splitA`: the block structure
(the counterpart of `SplitQ.Block` / `C05_block_structure` for `splitA`, proved directly by
mutual structural induction over `Tabular` / `OpList`; no writability side condition).
-/
import PqlModel.Lemmas.SplitAReads
namespace Pql.C05
open Pql SplitQ Intended

/-- the name the next link of a block reads: the last link of the block so far, or the base
    table of the pipeline when the block is still empty -/
def prevNameA (source : Option Ident) (blk : List SubA) : Bytes :=
  match blk.getLast? with
  | some s => s.name
  | none => identName source

/-- The block of links one pipeline (`source | ops`) contributes.
    * `chain`: a link reading the previous link of the same block (the base table for the first);
    * `join`: the complete block `rblk` of the right-hand pipeline (with its own base table
      `rsource`), followed by the join link, whose left side is what a chained link would have
      read (the link in front of the right-hand block, or the base table) and whose right side
      is the last link of the right-hand block. -/
inductive BlockA : Option Ident → List SubA → Prop
  | nil {source} : BlockA source []
  | chain {source blk} (s : SubA) :
      BlockA source blk → s.source = .table (prevNameA source blk) → BlockA source (blk ++ [s])
  | join {source blk} (rsource : Option Ident) (rblk : List SubA) (r s : SubA)
      (unique left : Bool) (cond : Expr) :
      BlockA source blk → BlockA rsource rblk → rblk.getLast? = some r →
      s.source = .join unique left (prevNameA source blk) r.name cond →
      BlockA source (blk ++ rblk ++ [s])

/-- attaching ORDER BY / LIMIT to the last link does not change who reads whom -/
theorem BlockA.congr_last {source : Option Ident} {blk : List SubA} {s s' : SubA}
    (h : BlockA source (blk ++ [s])) (hsrc : s'.source = s.source) : BlockA source (blk ++ [s']) := by
  generalize hL : blk ++ [s] = L at h
  cases h with
  | nil => simp at hL
  | chain s0 hb hs0 =>
    obtain ⟨rfl, rfl⟩ := snoc_inj hL
    exact BlockA.chain s' hb (hsrc.trans hs0)
  | join rsource rblk r s0 unique left cond hb hr hlast hs0 =>
    obtain ⟨rfl, rfl⟩ := snoc_inj hL
    exact BlockA.join rsource rblk r s' unique left cond hb hr hlast (hsrc.trans hs0)

theorem chainA_source (pre blk : List SubA) (source : Option Ident) :
    (chainA (pre ++ blk) pre.length source).source = .table (prevNameA source blk) := by
  unfold chainA prevNameA
  cases hb : blk.getLast? with
  | none =>
    have : blk = [] := by simpa using hb
    subst this; simp
  | some l =>
    obtain ⟨b0, rfl⟩ := List.getLast?_eq_some_iff.mp hb
    simp [← List.append_assoc]
    intro h; omega

theorem joinLeftA_eq (pre blk rblk : List SubA) (source : Option Ident) :
    joinLeftA source pre.length (pre ++ blk).length (pre ++ blk ++ rblk) = prevNameA source blk := by
  unfold joinLeftA prevNameA
  cases hb : blk.getLast? with
  | none =>
    have : blk = [] := by simpa using hb
    subst this
    have : ¬ ((((pre ++ []).length : Nat) : Int) - 1 ≥ (pre.length : Int)) := by simp; omega
    simp only [this, ↓reduceIte]
  | some l =>
    obtain ⟨b0, rfl⟩ := List.getLast?_eq_some_iff.mp hb
    have h1 : ((((pre ++ (b0 ++ [l])).length : Nat) : Int) - 1 ≥ (pre.length : Int)) := by
      simp; omega
    have h2 : ((((pre ++ (b0 ++ [l])).length : Nat) : Int) - 1).toNat = (pre ++ b0).length := by
      simp; omega
    simp only [h1, ↓reduceIte, h2]
    have : pre ++ (b0 ++ [l]) ++ rblk = (pre ++ b0) ++ l :: rblk := by simp
    rw [this, List.getElem?_append_right (Nat.le_refl _)]
    simp

theorem joinRightA_eq (pre rblk : List SubA) (r : SubA) (h : rblk.getLast? = some r) :
    joinRightA (pre ++ rblk) = r.name := by
  obtain ⟨b0, rfl⟩ := List.getLast?_eq_some_iff.mp h
  unfold joinRightA
  simp [← List.append_assoc]

theorem lastOfA_cases (dst : List SubA) (k : Nat) :
    (∃ init l, lastOfA dst k = some l ∧ dst = init ++ [l] ∧ k ≤ init.length) ∨ lastOfA dst k = none := by
  unfold lastOfA
  split
  · rename_i hlen
    rcases List.eq_nil_or_concat dst with rfl | ⟨init, l, rfl⟩
    · simp at hlen
    · left; refine ⟨init, l, by simp, by simp, ?_⟩
      simp at hlen; omega
  · right; rfl

/-- a list that ends with `l` at or after the end of `pre` ends with `l` inside the block -/
theorem split_lastA {pre blk init : List SubA} {l : SubA} (h : init ++ [l] = pre ++ blk)
    (hk : pre.length ≤ init.length) : ∃ b0, blk = b0 ++ [l] ∧ init = pre ++ b0 := by
  rcases List.eq_nil_or_concat blk with rfl | ⟨b0, x, rfl⟩
  · have := congrArg List.length h
    simp at this; omega
  · rw [List.concat_eq_append, ← List.append_assoc] at h
    obtain ⟨h1, rfl⟩ := snoc_inj h
    exact ⟨b0, by simp, h1⟩

/-- the step of sort / take / top: attach to the last link of the block, or chain a new one -/
theorem attach_block (pre blk : List SubA) (source : Option Ident) (hb : BlockA source blk)
    (f : SubA → SubA) (hf : ∀ s, (f s).source = s.source) (g : SubA → Bool) :
    ∃ blk',
      setLastA
        (if (match lastOfA (pre ++ blk) pre.length with | some l => g l | none => false) = true
          then pre ++ blk else pre ++ blk ++ [chainA (pre ++ blk) pre.length source]) f = pre ++ blk' ∧
      BlockA source blk' := by
  have hchain : setLastA (pre ++ blk ++ [chainA (pre ++ blk) pre.length source]) f =
      pre ++ (blk ++ [f (chainA (pre ++ blk) pre.length source)]) := by
    rw [setLastA_snoc]; simp
  have hbc : BlockA source (blk ++ [f (chainA (pre ++ blk) pre.length source)]) :=
    BlockA.chain _ hb (by rw [hf, chainA_source])
  rcases lastOfA_cases (pre ++ blk) pre.length with ⟨init, l, hl, hd, hk⟩ | hl
  · rw [hl]
    by_cases hg : g l = true
    · simp only [hg, ↓reduceIte]
      obtain ⟨b0, rfl, rfl⟩ := split_lastA hd.symm hk
      refine ⟨b0 ++ [f l], ?_, hb.congr_last (hf l)⟩
      rw [← List.append_assoc, setLastA_snoc]; simp
    · simp only [hg, Bool.false_eq_true, ↓reduceIte]
      exact ⟨_, hchain, hbc⟩
  · rw [hl]
    simp only [Bool.false_eq_true, ↓reduceIte]
    exact ⟨_, hchain, hbc⟩

mutual
theorem blk_tab : ∀ (t : Tabular) (dstA out : List SubA), splitA dstA t = some out →
    ∃ source ops rblk r, t = .mk source ops ∧ out = dstA ++ rblk ∧ BlockA source rblk ∧
      rblk.getLast? = some r
  | .nil, dstA, out, h => by unfold splitA at h; cases h
  | .mk source ops, dstA, out, h => by
    unfold splitA at h
    simp only at h
    cases hq : splitOpsA source dstA.length dstA ops with
    | none => rw [hq] at h; cases h
    | some mid =>
      rw [hq] at h
      obtain ⟨blk', hmid, hb⟩ := blk_ops ops source dstA [] mid (by simpa using hq) BlockA.nil
      subst hmid
      simp only [bind, Option.bind] at h
      by_cases hlen : (dstA ++ blk').length = dstA.length
      · simp only [hlen, ↓reduceIte, pure] at h
        cases h
        have hnil : blk' = [] := by simpa using hlen
        subst hnil
        refine ⟨source, ops, [chainA (dstA ++ []) dstA.length source], _, rfl, by simp, ?_, rfl⟩
        have := BlockA.chain _ hb (chainA_source dstA [] source)
        simpa using this
      · simp only [hlen, ↓reduceIte, pure] at h
        cases h
        rcases List.eq_nil_or_concat blk' with rfl | ⟨b0, x, rfl⟩
        · simp at hlen
        · exact ⟨source, ops, _, x, rfl, rfl, hb, by simp⟩
theorem blk_ops : ∀ (ops : OpList) (source : Option Ident) (pre blk out : List SubA),
    splitOpsA source pre.length (pre ++ blk) ops = some out → BlockA source blk →
    ∃ blk', out = pre ++ blk' ∧ BlockA source blk'
  | .nil, source, pre, blk, out, h, hb => by
    unfold splitOpsA at h; cases h; exact ⟨blk, rfl, hb⟩
  | .cons o rest, source, pre, blk, out, h, hb => by
    have hplain : ∀ (s : SubA),
        splitOpsA source pre.length (pre ++ blk ++ [s]) rest = some out →
        s.source = (chainA (pre ++ blk) pre.length source).source →
        ∃ blk', out = pre ++ blk' ∧ BlockA source blk' := by
      intro s h hs
      rw [List.append_assoc] at h
      exact blk_ops rest source pre (blk ++ [s]) out h (BlockA.chain s hb (hs.trans (chainA_source _ _ _)))
    have hattach : ∀ (f : SubA → SubA) (g : SubA → Bool),
        splitOpsA source pre.length
          (setLastA
            (if (match lastOfA (pre ++ blk) pre.length with | some l => g l | none => false) = true
              then pre ++ blk else pre ++ blk ++ [chainA (pre ++ blk) pre.length source]) f) rest = some out →
        (∀ s, (f s).source = s.source) →
        ∃ blk', out = pre ++ blk' ∧ BlockA source blk' := by
      intro f g h hf
      obtain ⟨blk1, he, hb1⟩ := attach_block pre blk source hb f hf g
      rw [he] at h
      exact blk_ops rest source pre blk1 out h hb1
    cases o with
    | count p kw => unfold splitOpsA at h; simp only at h; exact hplain _ h rfl
    | where_ p kw e => unfold splitOpsA at h; simp only at h; exact hplain _ h rfl
    | project p kw cs => unfold splitOpsA at h; simp only at h; exact hplain _ h rfl
    | extend p kw cs => unfold splitOpsA at h; simp only at h; exact hplain _ h rfl
    | summarize p kw cs b gs => unfold splitOpsA at h; simp only at h; exact hplain _ h rfl
    | render p kw ch w lp props rp => unfold splitOpsA at h; simp only at h; exact hplain _ h rfl
    | as_ p kw name => unfold splitOpsA at h; simp only at h; exact hplain _ h rfl
    | sort p kw terms =>
      unfold splitOpsA at h
      simp only at h
      exact hattach _ (fun l => canAttachSort l.op && l.sort.isNone && l.take.isNone) h (fun _ => rfl)
    | take p kw n =>
      unfold splitOpsA at h
      simp only at h
      exact hattach _ (fun l => canAttachSort l.op && l.take.isNone) h (fun _ => rfl)
    | top p kw n b col =>
      unfold splitOpsA at h
      simp only at h
      cases col with
      | none => cases h
      | some c =>
        exact hattach _ (fun l => canAttachSort l.op && l.sort.isNone && l.take.isNone) h (fun _ => rfl)
    | join p kw kind ka flavor lp right rp on conds =>
      rw [splitOpsA_join] at h
      cases hq : splitA (pre ++ blk) right with
      | none => rw [hq] at h; cases h
      | some d =>
        rw [hq] at h
        simp only at h
        obtain ⟨rsource, rops, rblk, r, _, hd, hrb, hlast⟩ := blk_tab right (pre ++ blk) d hq
        subst hd
        cases hl : leftOf flavor with
        | none => rw [hl] at h; cases h
        | some left =>
          rw [hl] at h
          simp only at h
          rw [joinLeftA_eq, joinRightA_eq (pre ++ blk) rblk r hlast, List.append_assoc pre blk rblk,
            List.append_assoc pre] at h
          refine blk_ops rest source pre _ out h ?_
          exact BlockA.join rsource rblk r _ _ _ _ hb hrb hlast rfl
end

end Pql.C05
