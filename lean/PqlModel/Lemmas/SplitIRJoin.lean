/-
`SplitIR.Join`: the join case of the type switch in the loop of `splitQueries`.  The regenerated unit
is cut into the part up to the recursive call (`joinHeadIR`) and the part after it (`joinTailIR`,
itself cut after the computation of `flavorName`); executing them on the frame of an activation is
`leftSubquery := len(dst) - 1`, the recursive call, and the machine's `SplitImp.joinTailI`.
-/
import PqlModel.Lemmas.SplitIRSteps
namespace Pql.SplitIR
open Pql
set_option linter.unusedSimpArgs false

theorem execBlock_append (sem : Sem) (a b : List Stmt) (st : State) :
    execBlock sem (a ++ b) st = execBlock sem a st >>= execBlock sem b := by
  induction a generalizing st with
  | nil => rfl
  | cons s r ih =>
    simp only [List.cons_append, execBlock]
    cases exec sem s st with
    | error e => rfl
    | ok st1 => simp only [bind_ok, ih]

/-- `lastSubquery = dst[len(dst)-1]; flavorName := "innerunique"; if op.Flavor != nil { flavorName = op.Flavor.Name }` -/
def joinT1 : List Stmt :=
  [.setIdx "lastSubquery" "dst" (.lenm1 "dst"),
   .declStr "flavorName" "innerunique",
   .ite (.notNil ⟨"op", "Flavor"⟩) [.setStr "flavorName" ⟨"op", "Flavor.Name"⟩] []]

def joinT2 : List Stmt := joinTailIR.drop 3

theorem joinTail_split : joinTailIR = joinT1 ++ joinT2 := rfl

variable (self : SplitImp.Heap → List Val → IM (SplitImp.Heap × Val)) (src : Bytes)
  (scope : List (Bytes × List Chunk)) (source : Option Ident) (ops : OpList) (k : Nat)

/-- the state inside the join case after `leftSubquery := len(dst) - 1` -/
def joinState (o : Op) (left : Int) (st : SplitImp.St) : State :=
  ⟨st.heap, ("leftSubquery", .int left) :: ("op", .op o) :: frameVars src scope source ops k st⟩

/-- … and after `flavorName` has its final value -/
def joinState2 (o : Op) (left : Int) (fn : Bytes) (st : SplitImp.St) : State :=
  ⟨st.heap, ("flavorName", .str fn) :: ("leftSubquery", .int left) :: ("op", .op o) :: frameVars src scope source ops k st⟩

theorem exec_joinT1 (p kw kind ka : Span) (flavor : Option Ident) (lp : Span) (right : Tabular) (rp on : Span)
    (conds : ExprList) (left : Int) (st : SplitImp.St) :
    execBlock (callWith self) joinT1 (joinState src scope source ops k (.join p kw kind ka flavor lp right rp on conds) left st) =
      liftW (SplitImp.index st.dst ((st.dst.length : Int) - 1)) >>= fun a =>
        .ok (joinState2 src scope source ops k (.join p kw kind ka flavor lp right rp on conds) left
          (SplitImp.flavorNameI flavor) { st with last := some a }) := by
  cases flavor <;> ir_simp [joinT1, joinState, joinState2, frameVars, SplitImp.flavorNameI]

/-- `SplitImp.joinTailI` after its first two statement groups (`lastSubquery = dst[len(dst)-1]`,
    `flavorName := …`), as a function of the flavor name: the text of the machine, unchanged -/
def joinRestI (src : Bytes) (scope : List (Bytes × List Chunk)) (source : Option Ident) (dstStart : Nat)
    (leftSubquery : Int) (flavorName : Bytes) (conds : ExprList) (st : SplitImp.St) : SplitImp.M SplitImp.St := do
  let js : List Chunk := []
  let js := if flavorName == Bytes.ofString "innerunique" then js ++ [.txt "(SELECT DISTINCT * FROM "] else js
  let left ← SplitImp.joinLeftI source dstStart leftSubquery st
  let js := js ++ left
  let js := if flavorName == Bytes.ofString "innerunique" then js ++ [.txt ")"] else js
  let js := js ++ [.txt (" AS \"" ++ Facts.leftJoinTableAlias ++ "\"")]
  let kw ← SplitImp.joinKwI flavorName
  let js := js ++ kw
  let pl ← SplitImp.deref st.last
  let r ← SplitImp.load st.heap pl
  let js := js ++ [.qid r.name]
  let js := js ++ [.txt (" AS \"" ++ Facts.rightJoinTableAlias ++ "\" ON ")]
  let c ← writeExpr ⟨src, scope, .join⟩ (buildJoinCondition conds)
  let js := js ++ c
  let (h, p) := SplitImp.alloc st.heap { name := subqueryName st.dst.length, source := js }
  let st : SplitImp.St := { st with heap := h, last := some p }
  SplitImp.stAppend st

theorem joinTailI_eq (leftSubquery : Int) (flavor : Option Ident) (conds : ExprList) (st : SplitImp.St) :
    SplitImp.joinTailI src scope source k leftSubquery flavor conds st =
      SplitImp.index st.dst ((st.dst.length : Int) - 1) >>= fun a =>
        joinRestI src scope source k leftSubquery (SplitImp.flavorNameI flavor) conds { st with last := some a } := by
  rfl

/-- "executing `joinT2` from the state with flavor name `fn` and leaving the case is the rest of the
    machine's join tail" -/
def T2Ok (o : Op) (conds : ExprList) (fn : Bytes) : Prop :=
  ∀ (left : Int) (st st0 : SplitImp.St),
    (execBlock (callWith self) joinT2 (joinState2 src scope source ops k o left fn st)
        >>= fun s => .ok (s.leave (frameState src scope source ops k st0))) =
      liftW (joinRestI src scope source k left fn conds st) >>= fun st' => .ok (frameState src scope source ops k st')

syntax "join_simp" (" [" Lean.Parser.Tactic.simpLemma,* "]")? : tactic
macro_rules
  | `(tactic| join_simp [$ls,*]) =>
    `(tactic| ir_simp [joinT2, joinTailIR, joinState2, frameState, frameVars, joinRestI, SplitImp.joinLeftI, SplitImp.joinKwI,
        SplitImp.stAppend, $ls,*])

theorem exec_joinT2_iu (p kw kind ka : Span) (flavor : Option Ident) (lp : Span) (right : Tabular) (rp on : Span)
    (conds : ExprList) (fn : Bytes) (e1 : (fn == Bytes.ofString "innerunique") = true) :
    T2Ok self src scope source ops k (.join p kw kind ka flavor lp right rp on conds) conds fn := by
  intro left st st0
  by_cases hge : (k : Int) ≤ left <;> join_simp [e1, hge]

theorem exec_joinT2_inner (p kw kind ka : Span) (flavor : Option Ident) (lp : Span) (right : Tabular) (rp on : Span)
    (conds : ExprList) (fn : Bytes) (e1 : (fn == Bytes.ofString "innerunique") = false)
    (e2 : (fn == Bytes.ofString "inner") = true) :
    T2Ok self src scope source ops k (.join p kw kind ka flavor lp right rp on conds) conds fn := by
  intro left st st0
  by_cases hge : (k : Int) ≤ left <;> join_simp [e1, e2, hge]

theorem exec_joinT2_lo (p kw kind ka : Span) (flavor : Option Ident) (lp : Span) (right : Tabular) (rp on : Span)
    (conds : ExprList) (fn : Bytes) (e1 : (fn == Bytes.ofString "innerunique") = false)
    (e2 : (fn == Bytes.ofString "inner") = false) (e3 : (fn == Bytes.ofString "leftouter") = true) :
    T2Ok self src scope source ops k (.join p kw kind ka flavor lp right rp on conds) conds fn := by
  intro left st st0
  by_cases hge : (k : Int) ≤ left <;> join_simp [e1, e2, e3, hge]

theorem exec_joinT2_other (p kw kind ka : Span) (flavor : Option Ident) (lp : Span) (right : Tabular) (rp on : Span)
    (conds : ExprList) (fn : Bytes) (e1 : (fn == Bytes.ofString "innerunique") = false)
    (e2 : (fn == Bytes.ofString "inner") = false) (e3 : (fn == Bytes.ofString "leftouter") = false) :
    T2Ok self src scope source ops k (.join p kw kind ka flavor lp right rp on conds) conds fn := by
  intro left st st0
  by_cases hge : (k : Int) ≤ left <;> join_simp [e1, e2, e3, hge]

theorem exec_joinT2 (p kw kind ka : Span) (flavor : Option Ident) (lp : Span) (right : Tabular) (rp on : Span)
    (conds : ExprList) (fn : Bytes) :
    T2Ok self src scope source ops k (.join p kw kind ka flavor lp right rp on conds) conds fn := by
  cases e1 : (fn == Bytes.ofString "innerunique") with
  | true => exact exec_joinT2_iu self src scope source ops k p kw kind ka flavor lp right rp on conds fn e1
  | false =>
    cases e2 : (fn == Bytes.ofString "inner") with
    | true => exact exec_joinT2_inner self src scope source ops k p kw kind ka flavor lp right rp on conds fn e1 e2
    | false =>
      cases e3 : (fn == Bytes.ofString "leftouter") with
      | true => exact exec_joinT2_lo self src scope source ops k p kw kind ka flavor lp right rp on conds fn e1 e2 e3
      | false => exact exec_joinT2_other self src scope source ops k p kw kind ka flavor lp right rp on conds fn e1 e2 e3

/-- **the join case after the recursive call** is the machine's `joinTailI` -/
theorem exec_joinTail (p kw kind ka : Span) (flavor : Option Ident) (lp : Span) (right : Tabular) (rp on : Span)
    (conds : ExprList) (left : Int) (st st0 : SplitImp.St) :
    (execBlock (callWith self) joinTailIR
        (joinState src scope source ops k (.join p kw kind ka flavor lp right rp on conds) left st)
        >>= fun s => .ok (s.leave (frameState src scope source ops k st0))) =
      liftW (SplitImp.joinTailI src scope source k left flavor conds st) >>= fun st' =>
        .ok (frameState src scope source ops k st') := by
  rw [joinTail_split, execBlock_append, exec_joinT1, joinTailI_eq, liftW_bind]
  cases SplitImp.index st.dst ((st.dst.length : Int) - 1) with
  | error e => rfl
  | ok a =>
    simp only [liftW_ok, bind_ok]
    exact exec_joinT2 self src scope source ops k p kw kind ka flavor lp right rp on conds _ left _ st0

/-- **the join case up to the recursive call**, given that the callee `self` behaves like the
    machine on the right-hand side -/
theorem exec_joinHead (p kw kind ka : Span) (flavor : Option Ident) (lp : Span) (right : Tabular) (rp on : Span)
    (conds : ExprList)
    (hself : ∀ h d, self h [.slice d, .str src, .scope scope, .tab right] =
      liftW (SplitImp.splitQueriesI src scope h d right) >>= fun r => .ok (r.1, Val.slice r.2))
    (st : SplitImp.St) :
    execBlock (callWith self) joinHeadIR
        (caseState src scope source ops k (.join p kw kind ka flavor lp right rp on conds) st) =
      liftW (SplitImp.splitQueriesI src scope st.heap st.dst right) >>= fun r =>
        .ok (joinState src scope source ops k (.join p kw kind ka flavor lp right rp on conds)
          ((st.dst.length : Int) - 1) { st with heap := r.1, dst := r.2 }) := by
  ir_simp [joinHeadIR, caseState, joinState, frameVars, callWith_split, hself]

end Pql.SplitIR
