/-
Property C10 for expressions: the `Span()` of an expression whose `unparse` accounts (with
positions) for a token list is the extent of that token list.  Induction over the tree, following
`unparseExpr` and `Expr.spanOf` in parallel.
-/
import PqlModel.Lemmas.SpanExtentAcc
namespace Pql
open Grammar

/-! ### inverting `unparse` -/

theorem unparse_unary_inv {x : Expr} {os : Span} {op : TokKind} {us : List UTok}
    (h : unparseExpr (.unary os op x) = some us) :
    ∃ xs, unparseExpr x = some xs ∧ us = sym op os :: xs := by
  simp only [unparseExpr, Option.bind_eq_bind, Option.pure_def, Option.bind_eq_some_iff, Option.some.injEq] at h
  obtain ⟨xs, hx, rfl⟩ := h
  exact ⟨xs, hx, rfl⟩

theorem unparse_binary_inv {x y : Expr} {os : Span} {op : TokKind} {us : List UTok}
    (h : unparseExpr (.binary x os op y) = some us) :
    ∃ xs ys, unparseExpr x = some xs ∧ unparseExpr y = some ys ∧ us = xs ++ sym op os :: ys := by
  simp only [unparseExpr, Option.bind_eq_bind, Option.pure_def, Option.bind_eq_some_iff, Option.some.injEq] at h
  obtain ⟨xs, hx, ys, hy, rfl⟩ := h
  exact ⟨xs, ys, hx, hy, rfl⟩

theorem unparse_inE_inv {x : Expr} {i lp rp : Span} {vals : ExprList} {us : List UTok}
    (h : unparseExpr (.inE x i lp vals rp) = some us) :
    ∃ xs vs, unparseExpr x = some xs ∧ unparseExprList vals = some vs ∧
      us = xs ++ sym .in_ i :: sym .lparen lp :: vs ++ [sym .rparen rp] := by
  simp only [unparseExpr, Option.bind_eq_bind, Option.pure_def, Option.bind_eq_some_iff, Option.some.injEq] at h
  obtain ⟨xs, hx, ys, hy, rfl⟩ := h
  exact ⟨xs, ys, hx, hy, rfl⟩

theorem unparse_paren_inv {x : Expr} {lp rp : Span} {us : List UTok}
    (h : unparseExpr (.paren lp x rp) = some us) :
    ∃ xs, unparseExpr x = some xs ∧ us = sym .lparen lp :: xs ++ [sym .rparen rp] := by
  simp only [unparseExpr, Option.bind_eq_bind, Option.pure_def, Option.bind_eq_some_iff, Option.some.injEq] at h
  obtain ⟨xs, hx, rfl⟩ := h
  exact ⟨xs, hx, rfl⟩

theorem unparse_call_inv {fn : Ident} {lp rp : Span} {args : ExprList} {us : List UTok}
    (h : unparseExpr (.call fn lp args rp) = some us) :
    ∃ as, unparseExprList args = some as ∧
      us = identTok fn :: sym .lparen lp :: as ++ [{ sym .rparen rp with optComma := true }] := by
  simp only [unparseExpr, Option.bind_eq_bind, Option.pure_def, Option.bind_eq_some_iff, Option.some.injEq] at h
  obtain ⟨xs, hx, rfl⟩ := h
  exact ⟨xs, hx, rfl⟩

theorem unparse_index_inv {x idx : Expr} {lb rb : Span} {us : List UTok}
    (h : unparseExpr (.index x lb idx rb) = some us) :
    ∃ xs is, unparseExpr x = some xs ∧ unparseExpr idx = some is ∧
      us = xs ++ sym .lbracket lb :: is ++ [sym .rbracket rb] := by
  simp only [unparseExpr, Option.bind_eq_bind, Option.pure_def, Option.bind_eq_some_iff, Option.some.injEq] at h
  obtain ⟨xs, hx, ys, hy, rfl⟩ := h
  exact ⟨xs, ys, hx, hy, rfl⟩

theorem unparseList_cons2_inv {e e' : Expr} {es : ExprList} {us : List UTok}
    (h : unparseExprList (.cons e (.cons e' es)) = some us) :
    ∃ a b, unparseExpr e = some a ∧ unparseExprList (.cons e' es) = some b ∧ us = a ++ commaTok :: b := by
  simp only [unparseExprList, Option.bind_eq_bind, Option.pure_def, Option.bind_eq_some_iff, Option.some.injEq] at h
  obtain ⟨xs, hx, ys, hy, rfl⟩ := h
  exact ⟨xs, ys, hx, hy, rfl⟩

theorem unparseList_one (e : Expr) : unparseExprList (.cons e .nil) = unparseExpr e := by
  simp [unparseExprList]

theorem identsDotted_ne_nil {parts : List Ident} (h : parts ≠ []) : identsDotted parts ≠ [] := by
  match parts, h with
  | [i], _ => simp [identsDotted]
  | i :: j :: is, _ => simp [identsDotted]

/-- an expression stands for at least one token -/
theorem unparseExpr_ne_nil {e : Expr} {us : List UTok} (h : unparseExpr e = some us) : us ≠ [] := by
  cases e with
  | nil => simp [unparseExpr] at h
  | qident parts =>
    cases parts with
    | nil => simp [unparseExpr] at h
    | cons a as =>
      simp only [unparseExpr, List.isEmpty_cons, Bool.false_eq_true, if_false, Option.some.injEq] at h
      subst h; exact identsDotted_ne_nil (by simp)
  | lit sp k v => simp only [unparseExpr, Option.some.injEq] at h; subst h; simp
  | unary os op x => obtain ⟨xs, _, rfl⟩ := unparse_unary_inv h; simp
  | binary x os op y => obtain ⟨xs, ys, _, _, rfl⟩ := unparse_binary_inv h; simp
  | inE x i lp vals rp => obtain ⟨xs, vs, _, _, rfl⟩ := unparse_inE_inv h; simp
  | paren lp x rp => obtain ⟨xs, _, rfl⟩ := unparse_paren_inv h; simp
  | call fn lp args rp => obtain ⟨as, _, rfl⟩ := unparse_call_inv h; simp
  | index x lb idx rb => obtain ⟨xs, is, _, _, rfl⟩ := unparse_index_inv h; simp

theorem unparseExprList_ne_nil {e : Expr} {es : ExprList} {us : List UTok}
    (h : unparseExprList (.cons e es) = some us) : us ≠ [] := by
  cases es with
  | nil => rw [unparseList_one] at h; exact unparseExpr_ne_nil h
  | cons e' es => obtain ⟨a, b, _, _, rfl⟩ := unparseList_cons2_inv h; simp

/-! ### qualified identifiers -/

theorem identsDotted_ext : ∀ (parts : List Ident) (ts : List Token), parts ≠ [] → TokOK ts →
    accounts true (identsDotted parts) ts = true → sliceSpan (parts.map fun i => i.span) = ext ts
  | [], _, h, _, _ => absurd rfl h
  | [i], ts, _, hok, h => by
    obtain ⟨t, rfl, hsp⟩ := accounts_span_single (u := identTok i) i.span rfl rfl rfl h
    rw [sliceSpan_eq_unions]
    have := unions_ext [[t]] (by simpa using hok)
    simpa [hsp] using this
  | i :: j :: is, ts, _, hok, h => by
    obtain ⟨t, ts1, rfl, hsp, h1⟩ := accounts_span_cons (u := identTok i) i.span rfl rfl rfl h
    obtain ⟨td, ts2, rfl, h2⟩ := accounts_plain_cons rfl h1
    have ih := identsDotted_ext (j :: is) ts2 (by simp) hok.tail.tail h2
    have hne : ts2 ≠ [] := accounts_ne_nil (identsDotted_ne_nil (by simp)) h2
    rw [sliceSpan_eq_unions] at ih ⊢
    rw [List.map_cons, hsp, ← ext_single]
    exact unions_cons_gap (ta := [t]) hok (by simp) hne ih

/-! ### the induction -/

mutual

/-- **C10 for expressions.** The span of an expression is the extent of the tokens it stands for. -/
theorem expr_ext : ∀ (e : Expr) (us : List UTok) (ts : List Token), unparseExpr e = some us → TokOK ts →
    accounts true us ts = true → e.spanOf = ext ts
  | .nil, _, _, h, _, _ => by simp [unparseExpr] at h
  | .qident parts, us, ts, h, hok, ha => by
    cases parts with
    | nil => simp [unparseExpr] at h
    | cons a as =>
      simp only [unparseExpr, List.isEmpty_cons, Bool.false_eq_true, if_false, Option.some.injEq] at h
      subst h
      exact identsDotted_ext (a :: as) ts (by simp) hok ha
  | .lit sp k v, us, ts, h, hok, ha => by
    simp only [unparseExpr, Option.some.injEq] at h
    subst h
    obtain ⟨t, rfl, hsp⟩ := accounts_span_single sp rfl rfl rfl ha
    simpa [Expr.spanOf] using hsp
  | .unary os op x, us, ts, h, hok, ha => by
    obtain ⟨xs, hx, rfl⟩ := unparse_unary_inv h
    obtain ⟨t, tx, rfl, hsp, hax⟩ := accounts_span_cons (u := sym op os) os rfl rfl rfl ha
    have ihx := expr_ext x xs tx hx hok.tail hax
    have := unions_ext [[t], tx] (by simpa using hok)
    simp only [Expr.spanOf, ihx, hsp]
    simpa using this
  | .binary x os op y, us, ts, h, hok, ha => by
    obtain ⟨xs, ys, hx, hy, rfl⟩ := unparse_binary_inv h
    obtain ⟨tx, r, rfl, hax, har⟩ := accounts_append_split ha
    obtain ⟨t, ty, rfl, hsp, hay⟩ := accounts_span_cons (u := sym op os) os rfl rfl rfl har
    have ihx := expr_ext x xs tx hx hok.left hax
    have ihy := expr_ext y ys ty hy hok.right.tail hay
    have := unions_ext [tx, [t], ty] (by simpa using hok)
    simp only [Expr.spanOf, ihx, ihy, hsp]
    simpa using this
  | .inE x i lp vals rp, us, ts, h, hok, ha => by
    obtain ⟨xs, vs, hx, hv, rfl⟩ := unparse_inE_inv h
    simp only [List.append_assoc, List.cons_append] at ha
    obtain ⟨tx, r, rfl, hax, har⟩ := accounts_append_split ha
    obtain ⟨ti, r1, rfl, hspi, har1⟩ := accounts_span_cons (u := sym .in_ i) i rfl rfl rfl har
    obtain ⟨tl, r2, rfl, hspl, har2⟩ := accounts_span_cons (u := sym .lparen lp) lp rfl rfl rfl har1
    obtain ⟨tv, r3, rfl, hav, har3⟩ := accounts_append_split har2
    obtain ⟨tr, rfl, hspr⟩ := accounts_span_single (u := sym .rparen rp) rp rfl rfl rfl har3
    have ihx := expr_ext x xs tx hx hok.left hax
    have ihv := exprList_ext vals vs tv hv hok.right.tail.tail.left hav
    have := unions_ext [tx, [ti], [tl], tv, [tr]] (by simpa using hok)
    simp only [Expr.spanOf, ihx, ihv, hspi, hspl, hspr]
    simpa using this
  | .paren lp x rp, us, ts, h, hok, ha => by
    obtain ⟨xs, hx, rfl⟩ := unparse_paren_inv h
    rw [List.cons_append] at ha
    obtain ⟨tl, r1, rfl, hspl, har1⟩ := accounts_span_cons (u := sym .lparen lp) lp rfl rfl rfl ha
    obtain ⟨tx, r2, rfl, hax, har2⟩ := accounts_append_split har1
    obtain ⟨tr, rfl, hspr⟩ := accounts_span_single (u := sym .rparen rp) rp rfl rfl rfl har2
    have ihx := expr_ext x xs tx hx hok.tail.left hax
    have := unions_ext [[tl], tx, [tr]] (by simpa using hok)
    simp only [Expr.spanOf, ihx, hspl, hspr]
    simpa using this
  | .call fn lp args rp, us, ts, h, hok, ha => by
    obtain ⟨as, hargs, rfl⟩ := unparse_call_inv h
    rw [List.cons_append, List.cons_append] at ha
    obtain ⟨tf, r1, rfl, hspf, har1⟩ := accounts_span_cons (u := identTok fn) fn.span rfl rfl rfl ha
    obtain ⟨tl, r2, rfl, hspl, har2⟩ := accounts_span_cons (u := sym .lparen lp) lp rfl rfl rfl har1
    obtain ⟨ta, r3, rfl, haa, har3⟩ := accounts_append_split har2
    obtain ⟨m, tr, r4, rfl, hspr, har4⟩ :=
      accounts_span_cons_opt (u := { sym .rparen rp with optComma := true }) rp rfl rfl har3
    have := accounts_nil_left har4
    subst this
    have iha := exprList_ext args as ta hargs hok.tail.tail.left haa
    have := unions_ext_gap [[tf], [tl], ta] m [tr] [] (by simpa using hok) (by simp) (by simp)
    simp only [Expr.spanOf, iha, hspf, hspl, hspr]
    simpa using this
  | .index x lb idx rb, us, ts, h, hok, ha => by
    obtain ⟨xs, is, hx, hi, rfl⟩ := unparse_index_inv h
    simp only [List.append_assoc, List.cons_append] at ha
    obtain ⟨tx, r, rfl, hax, har⟩ := accounts_append_split ha
    obtain ⟨tl, r1, rfl, hspl, har1⟩ := accounts_span_cons (u := sym .lbracket lb) lb rfl rfl rfl har
    obtain ⟨ti, r2, rfl, hai, har2⟩ := accounts_append_split har1
    obtain ⟨tr, rfl, hspr⟩ := accounts_span_single (u := sym .rbracket rb) rb rfl rfl rfl har2
    have ihx := expr_ext x xs tx hx hok.left hax
    have ihi := expr_ext idx is ti hi hok.right.tail.left hai
    have := unions_ext [tx, [tl], ti, [tr]] (by simpa using hok)
    simp only [Expr.spanOf, ihx, ihi, hspl, hspr]
    simpa using this

/-- expression lists (`in (…)` values, call arguments, join conditions): the union of the
    elements' spans is the extent of the list's tokens (the commas lie inside) -/
theorem exprList_ext : ∀ (l : ExprList) (us : List UTok) (ts : List Token), unparseExprList l = some us →
    TokOK ts → accounts true us ts = true → sliceSpan l.spansOf = ext ts
  | .nil, us, ts, h, _, ha => by
    simp only [unparseExprList, Option.some.injEq] at h
    subst h
    rw [accounts_nil_left ha]
    rfl
  | .cons e .nil, us, ts, h, hok, ha => by
    rw [unparseList_one] at h
    have ih := expr_ext e us ts h hok ha
    rw [sliceSpan_eq_unions]
    have := unions_ext [ts] (by simpa using hok)
    simp only [ExprList.spansOf, ih]
    simpa using this
  | .cons e (.cons e' es), us, ts, h, hok, ha => by
    obtain ⟨a, b, he, hes, rfl⟩ := unparseList_cons2_inv h
    obtain ⟨ta, r, rfl, haa, har⟩ := accounts_append_split ha
    obtain ⟨tc, tb, rfl, hab⟩ := accounts_plain_cons (u := commaTok) rfl har
    have ihe := expr_ext e a ta he hok.left haa
    have ihs := exprList_ext (.cons e' es) b tb hes hok.right.tail hab
    have hne1 : ta ≠ [] := accounts_ne_nil (unparseExpr_ne_nil he) haa
    have hne2 : tb ≠ [] := accounts_ne_nil (unparseExprList_ne_nil hes) hab
    rw [sliceSpan_eq_unions] at ihs ⊢
    rw [ExprList.spansOf, ihe]
    exact unions_cons_gap hok hne1 hne2 ihs

end

end Pql
