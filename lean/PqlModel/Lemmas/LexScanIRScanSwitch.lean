/-
`Scan`'s main switch as translated against the model's `scanOne`: for every rune at the cursor the case
body that runs leaves the tokens and the cursor as one step of the model prescribes.
-/
import PqlModel.Lemmas.LexScanIRScanSlash
namespace Pql.ScanIR
open Pql
open Pql.LexIR (IErr M BinOp goPanic stuck irOf)
set_option linter.unusedSimpArgs false
set_option linter.unusedVariables false

set_option maxRecDepth 100000 in
theorem space_ascii : ∀ n, n < 128 → isSpaceRune n = isAsciiSpace (UInt8.ofNat n) := by decide

theorem space_byte (c : UInt8) (h : c.toNat < 128) : isSpaceRune c.toNat = isAsciiSpace c := by
  have := space_ascii c.toNat h
  rwa [UInt8.ofNat_toNat] at this

theorem dec_byte (c : UInt8) (n : Nat) (hn : n < 256) : decide (c.toNat = n) = (c == UInt8.ofNat n) := by
  by_cases h : c = UInt8.ofNat n
  · subst h; simp; omega
  · have : ¬ c.toNat = n := fun e => h ((LexIR.toNat_eq_iff c n hn).mp e)
    simp [h, this]

section
variable (env : Env) (fuel : Nat) (E : ScanEnv fuel env) (src : Bytes) (acc : List Token) (k : Nat) (bs : List (Nat × Bytes))
include E

/-- from the selected body and what it does to what the switch does -/
theorem sw_finish (r : Nat) (h h' h0 : Store) (body : List Stmt) (f : Flow) (extra : List (String × Val)) (acc' : List Token)
    (c' : Nat) (ok' : Bool)
    (hp : pick scanCases (condsVal r) scanDefault = body)
    (hb : execBlock env fuel body (inSt src acc k r true h) = .ok (f, ⟨extra ++ (inSt src acc' k c' ok' h0).vars, h'⟩)) :
    execBlock env fuel (mkSwitch scanCases scanDefault) (inSt src acc k r true h) = .ok (f, inSt src acc' k c' ok' h') := by
  rw [sw_pick env fuel E, hp, hb, inScope_ok, leave_extra]

/-- a single-rune token -/
theorem sw_single (n : Nat) (K : String) (kind : TokKind) (hK : TokKind.ofGoName K = some kind)
    (hp : pick scanCases (condsVal n) scanDefault = [pushSym K]) (l : Nat) :
    execBlock env fuel (mkSwitch scanCases scanDefault) (inSt src acc k n true (sp src (k + 1) l bs)) =
      .ok (.next, inSt src (acc ++ [⟨kind, k, k + 1, []⟩]) k n true (sp src (k + 1) l bs)) :=
  sw_finish env fuel E src acc k n _ _ (sp src (k + 1) l bs) _ .next [] _ n true hp
    (case_sym env fuel E src acc k bs K kind hK n true (k + 1) l)

/-- **the main switch = one step of the model** -/
theorem scan_switch (c : UInt8) (rest : Bytes) (r w : Nat) (hd : src.drop k = c :: rest)
    (hr : decodeRune (c :: rest) = (r, w)) (hfuel : src.length < fuel) :
    ∃ f c' ok' l' bs', (f = .next ∨ f = .cont) ∧
      execBlock env fuel (mkSwitch scanCases scanDefault) (inSt src acc k r true (sp src (k + w) k bs)) =
        .ok (f, inSt src (acc ++ stepToks k (scanOne (c :: rest))) k c' ok'
          (sp src (k + (scanOne (c :: rest)).width) l' bs')) := by
  have hwle : k + w ≤ src.length := by
    have h1 := decodeRune_width_le (c :: rest); rw [hr] at h1
    have h2 := congrArg List.length hd
    simp at h1 h2; omega
  have hr1 := LexIR.drop_succ_of_cons hd
  by_cases h128 : 128 ≤ c.toNat
  · -- a rune ≥ 0x80: white space or one error token
    have hge : 128 ≤ r := by have := Dispatch.decodeRune_rune_ge c rest h128; rw [hr] at this; exact this
    have hm : scanOne (c :: rest) = if isSpaceRune r then .skip w else .sym .error w := by
      simp [scanOne, h128, scanNonAscii, hr]
    have hne : ∀ n, n < 128 → decide (r = n) = false := fun n hn => by simp; omega
    have ha : alphaR r = false := by simp [alphaR]; omega
    have hdg : digitR r = false := by simp [digitR]; omega
    cases hs : isSpaceRune r with
    | true =>
      refine ⟨.next, r, true, k, bs, Or.inl rfl, ?_⟩
      rw [hm, hs]
      simp only [if_true, stepToks, Step.skip, List.append_nil]
      exact sw_finish env fuel E src acc k r _ _ (sp src (k + w) k bs) [] .next [] _ r true
        (by simp [pick, condsVal, scanCases, hs]) rfl
    | false =>
      refine ⟨.next, r, true, k, bs, Or.inl rfl, ?_⟩
      rw [hm, hs]
      simp only [Bool.false_eq_true, if_false, stepToks, Step.sym]
      exact sw_finish env fuel E src acc k r _ _ (sp src (k + w) k bs) scanDefault .next [("span", .span k (k + w))] _ r true
        (by simp [pick, condsVal, scanCases, hs, ha, hdg, hne]) (case_default env fuel E src acc k bs r w hwle)
  · -- an ASCII byte
    have hlt : c.toNat < 128 := by omega
    have hrw := Dispatch.decodeRune_ascii' c rest hlt
    rw [hrw] at hr
    obtain ⟨rfl, rfl⟩ : c.toNat = r ∧ 1 = w := by simpa using hr
    by_cases hsp : isAsciiSpace c = true
    · have hs : isSpaceRune c.toNat = true := by rw [space_byte c hlt]; exact hsp
      have hm : scanOne (c :: rest) = .skip 1 := by simp [scanOne, h128, hsp]
      refine ⟨.next, c.toNat, true, k, bs, Or.inl rfl, ?_⟩
      rw [hm]
      simp only [stepToks, Step.skip, List.append_nil]
      exact sw_finish env fuel E src acc k c.toNat _ _ (sp src (k + 1) k bs) [] .next [] _ c.toNat true
        (by simp [pick, condsVal, scanCases, hs]) rfl
    have hs : isSpaceRune c.toNat = false := by rw [space_byte c hlt]; simpa using hsp
    have hsp' : isAsciiSpace c = false := by simpa using hsp
    by_cases hid : isIdentStart c = true
    · have hcond : (alphaR c.toNat || decide (c.toNat = 95) || decide (c.toNat = 36)) = true := by
        rw [alphaR_byte c hlt, dec_byte c 95 (by omega), dec_byte c 36 (by omega)]; exact hid
      have hm : scanOne (c :: rest) = .ofLexeme (scanIdent (c :: rest)) := by simp [scanOne, h128, hsp', hid]
      obtain ⟨l', e⟩ := case_ident env fuel E src acc k bs c rest c.toNat hd hid hfuel
      refine ⟨.next, c.toNat, true, l', bs, Or.inl rfl, ?_⟩
      rw [hm]
      exact sw_finish env fuel E src acc k c.toNat _ _ (sp src 0 0 bs) _ .next [] _ c.toNat true
        (by simp [pick, condsVal, scanCases, hs, hcond]) e
    have hid' : isIdentStart c = false := by simpa using hid
    have hcond1 : (alphaR c.toNat || decide (c.toNat = 95) || decide (c.toNat = 36)) = false := by
      rw [alphaR_byte c hlt, dec_byte c 95 (by omega), dec_byte c 36 (by omega)]; exact hid'
    by_cases hnum : (isDigit c || c == 46) = true
    · have hcond : (digitR c.toNat || decide (c.toNat = 46)) = true := by
        rw [digitR_byte c hlt, dec_byte c 46 (by omega)]; exact hnum
      have hm : scanOne (c :: rest) = .ofLexeme (scanNumberOrDot (c :: rest)) := by
        simp only [scanOne]; simp [h128, hsp', hid', hnum]
      obtain ⟨l', e⟩ := case_number env fuel E src acc k bs c rest c.toNat hd
      refine ⟨.next, c.toNat, true, l', bs, Or.inl rfl, ?_⟩
      rw [hm]
      exact sw_finish env fuel E src acc k c.toNat _ _ (sp src 0 0 bs) _ .next [] _ c.toNat true
        (by simp [pick, condsVal, scanCases, hs, hcond1, hcond]) e
    have hnum' : (isDigit c || c == 46) = false := by simpa using hnum
    have hcond2 : (digitR c.toNat || decide (c.toNat = 46)) = false := by
      rw [digitR_byte c hlt, dec_byte c 46 (by omega)]; exact hnum'
    by_cases hq : c = 34 ∨ c = 39
    · have hm : scanOne (c :: rest) = .ofLexeme (scanString (c :: rest)) := by
        rcases hq with rfl | rfl <;> simp [scanOne, isAsciiSpace, isIdentStart, isAlpha, isDigit, inRanges, Facts.isAlphaRanges, Facts.isDigitRanges]
      obtain ⟨l', bs', e⟩ := case_string env fuel E src acc k bs c rest c.toNat hd hq hfuel
      refine ⟨.next, c.toNat, true, l', bs', Or.inl rfl, ?_⟩
      rw [hm]
      refine sw_finish env fuel E src acc k c.toNat _ _ (sp src 0 0 bs') _ .next [] _ c.toNat true ?_ e
      rcases hq with rfl | rfl <;> rfl
    have h34 : ¬ c = 34 := fun e => hq (Or.inl e)
    have h39 : ¬ c = 39 := fun e => hq (Or.inr e)
    by_cases h96 : c = 96
    · subst h96
      have hm : scanOne (96 :: rest) = .ofLexeme (scanQuotedIdent (96 :: rest)) := by
        simp [scanOne, isAsciiSpace, isIdentStart, isAlpha, isDigit, inRanges, Facts.isAlphaRanges, Facts.isDigitRanges]
      obtain ⟨l', e⟩ := case_qident env fuel E src acc k bs rest (UInt8.toNat 96) hd hfuel
      refine ⟨.next, UInt8.toNat 96, true, l', bs, Or.inl rfl, ?_⟩
      rw [hm]
      exact sw_finish env fuel E src acc k (UInt8.toNat 96) _ _ (sp src 0 0 bs) _ .next [] _ (UInt8.toNat 96) true rfl e
    by_cases h44 : c = 44
    · subst h44
      have hm : scanOne (44 :: rest) = .sym .comma 1 := by
        simp [scanOne, isAsciiSpace, isIdentStart, isAlpha, isDigit, inRanges, Facts.isAlphaRanges, Facts.isDigitRanges, scanPunct, singleKind]
      refine ⟨.next, UInt8.toNat 44, true, k, bs, Or.inl rfl, ?_⟩
      rw [hm]
      exact sw_single env fuel E src acc k bs (UInt8.toNat 44) "TokenComma" .comma (by decide) rfl k
    by_cases h124 : c = 124
    · subst h124
      have hm : scanOne (124 :: rest) = .sym .pipe 1 := by
        simp [scanOne, isAsciiSpace, isIdentStart, isAlpha, isDigit, inRanges, Facts.isAlphaRanges, Facts.isDigitRanges, scanPunct, singleKind]
      refine ⟨.next, UInt8.toNat 124, true, k, bs, Or.inl rfl, ?_⟩
      rw [hm]
      exact sw_single env fuel E src acc k bs (UInt8.toNat 124) "TokenPipe" .pipe (by decide) rfl k
    by_cases h40 : c = 40
    · subst h40
      have hm : scanOne (40 :: rest) = .sym .lparen 1 := by
        simp [scanOne, isAsciiSpace, isIdentStart, isAlpha, isDigit, inRanges, Facts.isAlphaRanges, Facts.isDigitRanges, scanPunct, singleKind]
      refine ⟨.next, UInt8.toNat 40, true, k, bs, Or.inl rfl, ?_⟩
      rw [hm]
      exact sw_single env fuel E src acc k bs (UInt8.toNat 40) "TokenLParen" .lparen (by decide) rfl k
    by_cases h41 : c = 41
    · subst h41
      have hm : scanOne (41 :: rest) = .sym .rparen 1 := by
        simp [scanOne, isAsciiSpace, isIdentStart, isAlpha, isDigit, inRanges, Facts.isAlphaRanges, Facts.isDigitRanges, scanPunct, singleKind]
      refine ⟨.next, UInt8.toNat 41, true, k, bs, Or.inl rfl, ?_⟩
      rw [hm]
      exact sw_single env fuel E src acc k bs (UInt8.toNat 41) "TokenRParen" .rparen (by decide) rfl k
    by_cases h91 : c = 91
    · subst h91
      have hm : scanOne (91 :: rest) = .sym .lbracket 1 := by
        simp [scanOne, isAsciiSpace, isIdentStart, isAlpha, isDigit, inRanges, Facts.isAlphaRanges, Facts.isDigitRanges, scanPunct, singleKind]
      refine ⟨.next, UInt8.toNat 91, true, k, bs, Or.inl rfl, ?_⟩
      rw [hm]
      exact sw_single env fuel E src acc k bs (UInt8.toNat 91) "TokenLBracket" .lbracket (by decide) rfl k
    by_cases h93 : c = 93
    · subst h93
      have hm : scanOne (93 :: rest) = .sym .rbracket 1 := by
        simp [scanOne, isAsciiSpace, isIdentStart, isAlpha, isDigit, inRanges, Facts.isAlphaRanges, Facts.isDigitRanges, scanPunct, singleKind]
      refine ⟨.next, UInt8.toNat 93, true, k, bs, Or.inl rfl, ?_⟩
      rw [hm]
      exact sw_single env fuel E src acc k bs (UInt8.toNat 93) "TokenRBracket" .rbracket (by decide) rfl k
    by_cases h43 : c = 43
    · subst h43
      have hm : scanOne (43 :: rest) = .sym .plus 1 := by
        simp [scanOne, isAsciiSpace, isIdentStart, isAlpha, isDigit, inRanges, Facts.isAlphaRanges, Facts.isDigitRanges, scanPunct, singleKind]
      refine ⟨.next, UInt8.toNat 43, true, k, bs, Or.inl rfl, ?_⟩
      rw [hm]
      exact sw_single env fuel E src acc k bs (UInt8.toNat 43) "TokenPlus" .plus (by decide) rfl k
    by_cases h45 : c = 45
    · subst h45
      have hm : scanOne (45 :: rest) = .sym .minus 1 := by
        simp [scanOne, isAsciiSpace, isIdentStart, isAlpha, isDigit, inRanges, Facts.isAlphaRanges, Facts.isDigitRanges, scanPunct, singleKind]
      refine ⟨.next, UInt8.toNat 45, true, k, bs, Or.inl rfl, ?_⟩
      rw [hm]
      exact sw_single env fuel E src acc k bs (UInt8.toNat 45) "TokenMinus" .minus (by decide) rfl k
    by_cases h42 : c = 42
    · subst h42
      have hm : scanOne (42 :: rest) = .sym .star 1 := by
        simp [scanOne, isAsciiSpace, isIdentStart, isAlpha, isDigit, inRanges, Facts.isAlphaRanges, Facts.isDigitRanges, scanPunct, singleKind]
      refine ⟨.next, UInt8.toNat 42, true, k, bs, Or.inl rfl, ?_⟩
      rw [hm]
      exact sw_single env fuel E src acc k bs (UInt8.toNat 42) "TokenStar" .star (by decide) rfl k
    by_cases h37 : c = 37
    · subst h37
      have hm : scanOne (37 :: rest) = .sym .mod 1 := by
        simp [scanOne, isAsciiSpace, isIdentStart, isAlpha, isDigit, inRanges, Facts.isAlphaRanges, Facts.isDigitRanges, scanPunct, singleKind]
      refine ⟨.next, UInt8.toNat 37, true, k, bs, Or.inl rfl, ?_⟩
      rw [hm]
      exact sw_single env fuel E src acc k bs (UInt8.toNat 37) "TokenMod" .mod (by decide) rfl k
    by_cases h59 : c = 59
    · subst h59
      have hm : scanOne (59 :: rest) = .sym .semi 1 := by
        simp [scanOne, isAsciiSpace, isIdentStart, isAlpha, isDigit, inRanges, Facts.isAlphaRanges, Facts.isDigitRanges, scanPunct, singleKind]
      refine ⟨.next, UInt8.toNat 59, true, k, bs, Or.inl rfl, ?_⟩
      rw [hm]
      exact sw_single env fuel E src acc k bs (UInt8.toNat 59) "TokenSemi" .semi (by decide) rfl k
    by_cases h61 : c = 61
    · subst h61
      obtain ⟨fA, hA, sA0⟩ := E.cur.newSpan
      obtain ⟨fE, hE, sE0⟩ := E.cur.errorToken
      have sA : ∀ a b h, fA [.int a, .int b] h = .ok ([.span a b], h) := sA0
      have sE : ∀ a b m extra h, fE (.span a b :: .str m :: extra) h = .ok ([.tok .error a b []], h) := sE0
      have hoth : ∀ (c1 : Nat) (b1 : Bool) (p l : Nat),
          eval env [("ok", .bool b1), ("c", .int c1), ("ok", .bool true), ("c", .int (UInt8.toNat 61)), ("start", .int k),
            ("tokens", .toks acc), ("s", .scanner), ("query", .str src)] (symTok "TokenAssign") (sp src p l bs) =
            .ok (.tok .assign k p [], sp src p l bs) := by
        intro c1 b1 p l
        ls_simp [hA, sA, show TokKind.ofGoName "TokenAssign" = some TokKind.assign from by decide, ofString_empty]
      obtain ⟨l', extra, e⟩ := case_two env fuel E src acc k bs "TokenEq" "TokenCaseInsensitiveEq" .eq .cieq .assign (by decide) (by decide)
        (symTok "TokenAssign") (UInt8.toNat 61) hoth rest hr1
      have hm : stepToks k (scanOne (61 :: rest)) =
          [⟨(if rest.head? = some 61 then .eq else if rest.head? = some 126 then .cieq else .assign), k,
            k + (if rest.head? = some 61 ∨ rest.head? = some 126 then 2 else 1), []⟩] ∧
          (scanOne (61 :: rest)).width = (if rest.head? = some 61 ∨ rest.head? = some 126 then 2 else 1) := by
        have h0 : scanOne (61 :: rest) = scanPunct 61 rest := by
          simp [scanOne, isAsciiSpace, isIdentStart, isAlpha, isDigit, inRanges, Facts.isAlphaRanges, Facts.isDigitRanges]
        rw [h0]
        by_cases h1 : rest.head? = some 61 <;> by_cases h2 : rest.head? = some 126 <;>
          simp [scanPunct, singleKind, stepToks, Step.sym, h1, h2]
      refine ⟨.next, UInt8.toNat 61, true, l', bs, Or.inl rfl, ?_⟩
      rw [hm.1, hm.2]
      exact sw_finish env fuel E src acc k (UInt8.toNat 61) _ _ (sp src 0 0 bs) _ .next extra _ (UInt8.toNat 61) true rfl e
    by_cases h33 : c = 33
    · subst h33
      obtain ⟨fA, hA, sA0⟩ := E.cur.newSpan
      obtain ⟨fE, hE, sE0⟩ := E.cur.errorToken
      have sA : ∀ a b h, fA [.int a, .int b] h = .ok ([.span a b], h) := sA0
      have sE : ∀ a b m extra h, fE (.span a b :: .str m :: extra) h = .ok ([.tok .error a b []], h) := sE0
      have hoth : ∀ (c1 : Nat) (b1 : Bool) (p l : Nat),
          eval env [("ok", .bool b1), ("c", .int c1), ("ok", .bool true), ("c", .int (UInt8.toNat 33)), ("start", .int k),
            ("tokens", .toks acc), ("s", .scanner), ("query", .str src)] (errHere "unrecognized token '!'") (sp src p l bs) =
            .ok (.tok .error k p [], sp src p l bs) := by
        intro c1 b1 p l
        ls_simp [hA, sA, hE, sE]
      obtain ⟨l', extra, e⟩ := case_two env fuel E src acc k bs "TokenNE" "TokenCaseInsensitiveNE" .ne .cine .error (by decide) (by decide)
        (errHere "unrecognized token '!'") (UInt8.toNat 33) hoth rest hr1
      have hm : stepToks k (scanOne (33 :: rest)) =
          [⟨(if rest.head? = some 61 then .ne else if rest.head? = some 126 then .cine else .error), k,
            k + (if rest.head? = some 61 ∨ rest.head? = some 126 then 2 else 1), []⟩] ∧
          (scanOne (33 :: rest)).width = (if rest.head? = some 61 ∨ rest.head? = some 126 then 2 else 1) := by
        have h0 : scanOne (33 :: rest) = scanPunct 33 rest := by
          simp [scanOne, isAsciiSpace, isIdentStart, isAlpha, isDigit, inRanges, Facts.isAlphaRanges, Facts.isDigitRanges]
        rw [h0]
        by_cases h1 : rest.head? = some 61 <;> by_cases h2 : rest.head? = some 126 <;>
          simp [scanPunct, singleKind, stepToks, Step.sym, h1, h2]
      refine ⟨.next, UInt8.toNat 33, true, l', bs, Or.inl rfl, ?_⟩
      rw [hm.1, hm.2]
      exact sw_finish env fuel E src acc k (UInt8.toNat 33) _ _ (sp src 0 0 bs) _ .next extra _ (UInt8.toNat 33) true rfl e
    by_cases h60 : c = 60
    · subst h60
      obtain ⟨l', e⟩ := case_ifEq env fuel E src acc k bs "TokenLE" "TokenLT" .le .lt (by decide) (by decide) (UInt8.toNat 60) rest hr1
      have hm : stepToks k (scanOne (60 :: rest)) =
          [⟨(if rest.head? = some 61 then .le else .lt), k, k + (if rest.head? = some 61 then 2 else 1), []⟩] ∧
          (scanOne (60 :: rest)).width = (if rest.head? = some 61 then 2 else 1) := by
        have h0 : scanOne (60 :: rest) = scanPunct 60 rest := by
          simp [scanOne, isAsciiSpace, isIdentStart, isAlpha, isDigit, inRanges, Facts.isAlphaRanges, Facts.isDigitRanges]
        rw [h0]
        by_cases h1 : rest.head? = some 61 <;> simp [scanPunct, singleKind, stepToks, Step.sym, h1]
      refine ⟨.next, UInt8.toNat 60, true, l', bs, Or.inl rfl, ?_⟩
      rw [hm.1, hm.2]
      exact sw_finish env fuel E src acc k (UInt8.toNat 60) _ _ (sp src 0 0 bs) _ .next [] _ (UInt8.toNat 60) true rfl e
    by_cases h62 : c = 62
    · subst h62
      obtain ⟨l', e⟩ := case_ifEq env fuel E src acc k bs "TokenGE" "TokenGT" .ge .gt (by decide) (by decide) (UInt8.toNat 62) rest hr1
      have hm : stepToks k (scanOne (62 :: rest)) =
          [⟨(if rest.head? = some 61 then .ge else .gt), k, k + (if rest.head? = some 61 then 2 else 1), []⟩] ∧
          (scanOne (62 :: rest)).width = (if rest.head? = some 61 then 2 else 1) := by
        have h0 : scanOne (62 :: rest) = scanPunct 62 rest := by
          simp [scanOne, isAsciiSpace, isIdentStart, isAlpha, isDigit, inRanges, Facts.isAlphaRanges, Facts.isDigitRanges]
        rw [h0]
        by_cases h1 : rest.head? = some 61 <;> simp [scanPunct, singleKind, stepToks, Step.sym, h1]
      refine ⟨.next, UInt8.toNat 62, true, l', bs, Or.inl rfl, ?_⟩
      rw [hm.1, hm.2]
      exact sw_finish env fuel E src acc k (UInt8.toNat 62) _ _ (sp src 0 0 bs) _ .next [] _ (UInt8.toNat 62) true rfl e
    by_cases h47 : c = 47
    · subst h47
      obtain ⟨f, c', ok', l', hf, e⟩ := case_slash env fuel E src acc k bs rest hr1 hfuel
      have h0 : scanOne (47 :: rest) = scanPunct 47 rest := by
        simp [scanOne, isAsciiSpace, isIdentStart, isAlpha, isDigit, inRanges, Facts.isAlphaRanges, Facts.isDigitRanges]
      refine ⟨f, c', ok', l', bs, hf, ?_⟩
      rw [h0]
      exact sw_finish env fuel E src acc k (UInt8.toNat 47) _ _ (sp src 0 0 bs) _ f [] _ c' ok' rfl e
    -- no case: an error token on the byte
    have hm : scanOne (c :: rest) = .sym .error 1 := by
      have hstr : (c == 34 || c == 39) = false := by simp [h34, h39]
      have h96' : (c == 96) = false := by simp [h96]
      simp only [scanOne]
      simp [h128, hsp', hid', hnum', hstr, h96', scanPunct, singleKind, h44, h124, h40, h41, h91, h93, h43, h45, h42, h37, h59,
        h61, h33, h60, h62, h47]
    refine ⟨.next, c.toNat, true, k, bs, Or.inl rfl, ?_⟩
    rw [hm]
    simp only [stepToks, Step.sym]
    have dn : ∀ n, n < 256 → ¬ c = UInt8.ofNat n → decide (c.toNat = n) = false := fun n hn h => by
      rw [dec_byte c n hn]; simpa using h
    exact sw_finish env fuel E src acc k c.toNat _ _ (sp src (k + 1) k bs) scanDefault .next [("span", .span k (k + 1))] _ c.toNat true
      (by simp [pick, condsVal, scanCases, hs, hcond1, hcond2, dn 44 (by omega) h44, dn 34 (by omega) h34, dn 39 (by omega) h39,
        dn 96 (by omega) h96, dn 124 (by omega) h124, dn 40 (by omega) h40, dn 41 (by omega) h41, dn 91 (by omega) h91,
        dn 93 (by omega) h93, dn 61 (by omega) h61, dn 33 (by omega) h33, dn 43 (by omega) h43, dn 45 (by omega) h45,
        dn 42 (by omega) h42, dn 47 (by omega) h47, dn 37 (by omega) h37, dn 60 (by omega) h60, dn 62 (by omega) h62,
        dn 59 (by omega) h59])
      (case_default env fuel E src acc k bs c.toNat 1 hwle)

end
end Pql.ScanIR
