/-
The refinement proof: `SplitImp.splitQueriesI` / `loopI` (imperative: heap, slice of pointers,
`lastSubquery` pointer) against the functional model's `splitQueries` / `splitOps`, by one mutual
structural induction over `Tabular` / `OpList` (so for every length and every nesting of joins).
-/
import PqlModel.Lemmas.SplitImpOps
namespace Pql.SplitImp
open Pql SplitQ

/-! ### one unfolding of the machine's loop -/

def isJoin : Op → Bool
  | .join .. => true
  | _ => false

theorem loopI_cons (src : Bytes) (scope : List (Bytes × List Chunk)) (source : Option Ident) (k : Nat)
    (st : St) (o : Op) (rest : OpList) (hj : isJoin o = false) :
    loopI src scope source k st (.cons o rest) =
      match stepI source k o st with
      | .error e => .error e
      | .ok st1 => loopI src scope source k st1 rest := by
  cases o <;> first
    | (simp [isJoin] at hj; done)
    | (rw [loopI] <;> first
        | (generalize stepI source k _ st = x; cases x <;> rfl)
        | (intros; simp_all; done))

theorem loopI_join (src : Bytes) (scope : List (Bytes × List Chunk)) (source : Option Ident) (k : Nat)
    (st : St) (p kw kind ka : Span) (flavor : Option Ident) (lp : Span) (right : Tabular) (rp on : Span)
    (conds : ExprList) (rest : OpList) :
    loopI src scope source k st (.cons (.join p kw kind ka flavor lp right rp on conds) rest) =
      match splitQueriesI src scope st.heap st.dst right with
      | .error e => .error e
      | .ok r =>
        match joinTailI src scope source k ((st.dst.length : Int) - 1) flavor conds ⟨r.1, r.2, st.last⟩ with
        | .error e => .error e
        | .ok st2 => loopI src scope source k st2 rest := by
  rw [loopI]
  simp only [bind, Except.bind]
  cases splitQueriesI src scope st.heap st.dst right with
  | error e => rfl
  | ok r =>
    obtain ⟨h, d⟩ := r
    simp only
    generalize joinTailI src scope source k _ flavor conds _ = x
    cases x <;> rfl

/-! ### the simulation statements -/

/-- the loop, started in `st`: same error, or success with a state denoting the model's list -/
def SimL (n0 k : Nat) (st : St) (r : M St) (m : Except WErr (List Subquery)) : Prop :=
  match r, m with
  | .ok st', .ok out => Post n0 k st st' out
  | .error e, .error e' => e = e'
  | _, _ => False

/-- what a successful call `splitQueries(dst, …)` on heap `h` returns -/
structure PostQ (h : Heap) (dst : List Addr) (h' : Heap) (dst' : List Addr) (out : List Subquery) : Prop where
  /-- the returned slice denotes the model's list -/
  abs_eq : abs h' dst' = out
  valid : ∀ a ∈ dst', a < h'.size
  grows : dst.length < dst'.length
  /-- the objects that existed at the call are not written -/
  frame : Frame h.size h h'
  /-- the returned slice is the argument slice followed by pointers to new objects -/
  ext : ∃ new, dst' = dst ++ new ∧ ∀ a ∈ new, h.size ≤ a

def SimQ (h : Heap) (dst : List Addr) (r : M (Heap × List Addr)) (m : Except WErr (List Subquery)) : Prop :=
  match r, m with
  | .ok r', .ok out => PostQ h dst r'.1 r'.2 out
  | .error e, .error e' => e = e'
  | _, _ => False

theorem SimL.weaken {n0 k : Nat} {st st1 : St} {d1 : List Subquery} {r : M St}
    {m : Except WErr (List Subquery)} (post : Post n0 k st st1 d1) (ih : SimL n0 k st1 r m) :
    SimL n0 k st r m := by
  unfold SimL at ih ⊢
  cases r with
  | error e => cases m with
    | error e' => exact ih
    | ok out => exact ih
  | ok st' => cases m with
    | error e' => exact ih
    | ok out => exact post.trans ih

/-- the end of `splitQueries` -/
theorem finishI_ok {n0 k : Nat} {st : St} (inv : Inv n0 k st) (source : Option Ident)
    (hs : source.isSome = true) :
    ∃ st', finishI source k st = .ok (st'.heap, st'.dst) ∧ k < st'.dst.length ∧
      Post n0 k st st' (closeBlock (abs st.heap st.dst) k source) := by
  unfold finishI closeBlock
  rw [abs_length]
  by_cases hlen : st.dst.length = k
  · simp only [if_pos hlen, bind, Except.bind, stChain_ok source k st inv.valid (fun _ => hs),
      stAppend_some, pure, Except.pure]
    refine ⟨_, rfl, ?_, post_fresh inv _⟩
    simp only [List.length_append, List.length_singleton]; omega
  · simp only [if_neg hlen, bind, Except.bind, pure, Except.pure]
    refine ⟨st, rfl, ?_, rfl, inv, Frame.refl _ _, [], by simp, by simp⟩
    have := inv.start_le; omega

theorem closeBlock_eq (src : Bytes) (scope : List (Bytes × List Chunk)) (source : Option Ident)
    (ops : OpList) (dst : List Subquery) :
    splitQueries src scope dst (.mk source ops) =
      match splitOps src scope source dst.length dst ops with
      | .error e => .error e
      | .ok mid => .ok (closeBlock mid dst.length source) := by
  unfold splitQueries closeBlock
  simp only [bind, Except.bind]
  cases splitOps src scope source dst.length dst ops with
  | error e => rfl
  | ok mid =>
    simp only [pure, Except.pure]
    split <;> rfl

/-! ### the refinement -/

mutual
theorem refines_tab (src : Bytes) (scope : List (Bytes × List Chunk)) :
    ∀ (t : Tabular) (h : Heap) (dst : List Addr), (∀ a ∈ dst, a < h.size) → skeletonOk t = true →
      SimQ h dst (splitQueriesI src scope h dst t) (splitQueries src scope (abs h dst) t)
  | .nil, h, dst, _, _ => by
    unfold splitQueriesI splitQueries SimQ
    rfl
  | .mk source ops, h, dst, hv, hg => by
    simp only [skeletonOk, Bool.and_eq_true] at hg
    have inv0 : Inv h.size dst.length ⟨h, dst, none⟩ := ⟨hv, Nat.le_refl _, Nat.le_refl _, rfl⟩
    have ih := refines_ops src scope ops source dst.length ⟨h, dst, none⟩ h.size inv0 hg.1 hg.2
    rw [closeBlock_eq, abs_length]
    unfold splitQueriesI
    simp only [bind, Except.bind]
    unfold SimL at ih
    unfold SimQ
    cases hr : loopI src scope source dst.length ⟨h, dst, none⟩ ops with
    | error e =>
      rw [hr] at ih
      cases hm : splitOps src scope source dst.length (abs h dst) ops with
      | error e' => rw [hm] at ih; exact ih
      | ok mid => rw [hm] at ih; exact ih.elim
    | ok st1 =>
      rw [hr] at ih
      cases hm : splitOps src scope source dst.length (abs h dst) ops with
      | error e' => rw [hm] at ih; exact ih.elim
      | ok mid =>
        rw [hm] at ih
        simp only at ih ⊢
        obtain ⟨st2, hf, hlt, post2⟩ := finishI_ok ih.inv source hg.1
        rw [hf]
        simp only
        have post := ih.trans post2
        rw [ih.abs_eq] at post
        exact ⟨post.abs_eq, post.inv.valid, hlt, post.frame, post.ext⟩
theorem refines_ops (src : Bytes) (scope : List (Bytes × List Chunk)) :
    ∀ (ops : OpList) (source : Option Ident) (k : Nat) (st : St) (n0 : Nat), Inv n0 k st →
      source.isSome = true → opsOk ops = true →
      SimL n0 k st (loopI src scope source k st ops)
        (splitOps src scope source k (abs st.heap st.dst) ops)
  | .nil, source, k, st, n0, inv, _, _ => by
    unfold loopI splitOps SimL
    exact ⟨rfl, inv, Frame.refl _ _, [], by simp, by simp⟩
  | .cons o rest, source, k, st, n0, inv, hs, hg => by
    cases o with
    | count p kw =>
      simp only [opsOk] at hg
      obtain ⟨st1, h1, post⟩ := stepI_plain inv source hs (.count p kw) rfl
      have ih := refines_ops src scope rest source k st1 n0 post.inv hs hg
      rw [post.abs_eq] at ih
      rw [loopI_cons _ _ _ _ _ _ _ rfl, h1]
      unfold splitOps
      exact ih.weaken post
    | where_ p kw e =>
      simp only [opsOk] at hg
      obtain ⟨st1, h1, post⟩ := stepI_plain inv source hs (.where_ p kw e) rfl
      have ih := refines_ops src scope rest source k st1 n0 post.inv hs hg
      rw [post.abs_eq] at ih
      rw [loopI_cons _ _ _ _ _ _ _ rfl, h1]
      unfold splitOps
      exact ih.weaken post
    | project p kw cs =>
      simp only [opsOk] at hg
      obtain ⟨st1, h1, post⟩ := stepI_plain inv source hs (.project p kw cs) rfl
      have ih := refines_ops src scope rest source k st1 n0 post.inv hs hg
      rw [post.abs_eq] at ih
      rw [loopI_cons _ _ _ _ _ _ _ rfl, h1]
      unfold splitOps
      exact ih.weaken post
    | extend p kw cs =>
      simp only [opsOk] at hg
      obtain ⟨st1, h1, post⟩ := stepI_plain inv source hs (.extend p kw cs) rfl
      have ih := refines_ops src scope rest source k st1 n0 post.inv hs hg
      rw [post.abs_eq] at ih
      rw [loopI_cons _ _ _ _ _ _ _ rfl, h1]
      unfold splitOps
      exact ih.weaken post
    | summarize p kw cs b gs =>
      simp only [opsOk] at hg
      obtain ⟨st1, h1, post⟩ := stepI_plain inv source hs (.summarize p kw cs b gs) rfl
      have ih := refines_ops src scope rest source k st1 n0 post.inv hs hg
      rw [post.abs_eq] at ih
      rw [loopI_cons _ _ _ _ _ _ _ rfl, h1]
      unfold splitOps
      exact ih.weaken post
    | render p kw ch w lp props rp =>
      simp only [opsOk] at hg
      obtain ⟨st1, h1, post⟩ := stepI_plain inv source hs (.render p kw ch w lp props rp) rfl
      have ih := refines_ops src scope rest source k st1 n0 post.inv hs hg
      rw [post.abs_eq] at ih
      rw [loopI_cons _ _ _ _ _ _ _ rfl, h1]
      unfold splitOps
      exact ih.weaken post
    | as_ p kw name =>
      simp only [opsOk, Bool.and_eq_true] at hg
      obtain ⟨st1, h1, post⟩ := stepI_as inv source hs p kw name hg.1
      have ih := refines_ops src scope rest source k st1 n0 post.inv hs hg.2
      rw [post.abs_eq] at ih
      rw [loopI_cons _ _ _ _ _ _ _ rfl, h1]
      unfold splitOps
      exact ih.weaken post
    | sort p kw terms =>
      simp only [opsOk] at hg
      obtain ⟨st1, h1, post⟩ := stepI_sort inv source hs p kw terms
      have ih := refines_ops src scope rest source k st1 n0 post.inv hs hg
      rw [post.abs_eq] at ih
      rw [loopI_cons _ _ _ _ _ _ _ rfl, h1]
      unfold splitOps
      exact ih.weaken post
    | take p kw n =>
      simp only [opsOk] at hg
      obtain ⟨st1, h1, post⟩ := stepI_take inv source hs p kw n
      have ih := refines_ops src scope rest source k st1 n0 post.inv hs hg
      rw [post.abs_eq] at ih
      rw [loopI_cons _ _ _ _ _ _ _ rfl, h1]
      unfold splitOps
      exact ih.weaken post
    | top p kw n b col =>
      simp only [opsOk] at hg
      cases col with
      | none =>
        rw [loopI_cons _ _ _ _ _ _ _ rfl, stepI_top_none inv source hs]
        unfold splitOps SimL
        rfl
      | some c =>
        obtain ⟨st1, h1, post⟩ := stepI_top inv source hs p kw n b c
        have ih := refines_ops src scope rest source k st1 n0 post.inv hs hg
        rw [post.abs_eq] at ih
        rw [loopI_cons _ _ _ _ _ _ _ rfl, h1]
        unfold splitOps
        exact ih.weaken post
    | join p kw kind ka flavor lp right rp on conds =>
      simp only [opsOk, Bool.and_eq_true] at hg
      have ihq := refines_tab src scope right st.heap st.dst inv.valid hg.1
      rw [loopI_join, C05.splitOps_join]
      unfold SimQ at ihq
      cases hr : splitQueriesI src scope st.heap st.dst right with
      | error e =>
        rw [hr] at ihq
        cases hm : splitQueries src scope (abs st.heap st.dst) right with
        | error e' => rw [hm] at ihq; exact ihq
        | ok out => rw [hm] at ihq; exact ihq.elim
      | ok r =>
        rw [hr] at ihq
        cases hm : splitQueries src scope (abs st.heap st.dst) right with
        | error e' => rw [hm] at ihq; exact ihq.elim
        | ok out =>
          rw [hm] at ihq
          simp only at ihq ⊢
          rw [joinTailI_ok src scope source hs k st.dst.length flavor conds r.1 r.2 st.last
            ihq.valid ihq.grows]
          rw [← ihq.abs_eq, abs_length, abs_length]
          cases C05.leftOf flavor with
          | none => exact rfl
          | some left =>
            simp only
            cases writeExpr ⟨src, scope, .join⟩ (buildJoinCondition conds) with
            | error e => exact rfl
            | ok c =>
              simp only
              have hb : n0 ≤ r.1.size := Nat.le_trans inv.base ihq.frame.1
              have hk : k ≤ r.2.length := Nat.le_trans inv.start_le (Nat.le_of_lt ihq.grows)
              have key : ∀ J : Subquery,
                  SimL n0 k st
                    (loopI src scope source k ⟨r.1.push J, r.2 ++ [r.1.size], some r.1.size⟩ rest)
                    (splitOps src scope source k (abs r.1 r.2 ++ [J]) rest) := by
                intro J
                have post : Post n0 k st ⟨r.1.push J, r.2 ++ [r.1.size], some r.1.size⟩
                    (abs r.1 r.2 ++ [J]) := by
                  refine ⟨abs_push_snoc _ _ ihq.valid, inv_fresh _ ihq.valid hb hk,
                    (Frame.mono inv.base ihq.frame).trans (Frame.push _ _ _ hb), ?_⟩
                  obtain ⟨new, hnew, hge⟩ := ihq.ext
                  refine ⟨new ++ [r.1.size], by rw [hnew, List.append_assoc], fun x hx => ?_⟩
                  rcases List.mem_append.mp hx with hx | hx
                  · exact hge x hx
                  · simp only [List.mem_singleton] at hx
                    rw [hx]; exact ihq.frame.1
                have ih := refines_ops src scope rest source k _ n0 post.inv hs hg.2
                rw [post.abs_eq] at ih
                exact ih.weaken post
              exact key _
end

end Pql.SplitImp
