/-
Placeholders, part 1: instantiating placeholder tokens / placeholder leaves with values, and the
expression level of "the reference SQL reader commutes with the instantiation": for all seven
mutually recursive functions of Spec/Sql/Parse.lean, by induction on the fuel,

    pX k … (ts.map (instTok ρ)) = (pX k … ts).map (inst ρ on the result, map (instTok ρ) on the rest)

(an EQUATION: the instantiated token list is read iff the token list with placeholders is).  The reader
looks at a `.param` / `.str` / `.num` token at one place only — the first three cases of `pAtomS`.

NEW specification-level definitions: `PVal` (a value for a placeholder: a string or a number spelling),
`instTok`, `instS` / `instL` (SExpr), and in part 2 `instSel`, `instStatement`.
-/
import PqlModel.Spec.Sql.Parse
namespace Pql.E2EMore
open Pql Sql

/-- the value given to a placeholder: a string, or a number (its spelling) -/
inductive PVal
  | str (v : Bytes)
  | num (v : Bytes)
  deriving DecidableEq, Repr, Inhabited

def PVal.tok : PVal → STok
  | .str v => .str v
  | .num v => .num v

def PVal.sexpr : PVal → SExpr
  | .str v => .str v
  | .num v => .num v

/-- a `.param p` token becomes the token of the value `ρ p` -/
def instTok (ρ : Bytes → PVal) : STok → STok
  | .param p => (ρ p).tok
  | t => t

mutual
/-- a `.param p` leaf becomes the value `ρ p` -/
def instS (ρ : Bytes → PVal) : SExpr → SExpr
  | .param p => (ρ p).sexpr
  | .col ps => .col ps
  | .str v => .str v
  | .num v => .num v
  | .const w => .const w
  | .call fn star args filter => .call fn star (instL ρ args) (instS ρ filter)
  | .case_ c t e => .case_ (instS ρ c) (instS ρ t) (instS ρ e)
  | .neg x => .neg (instS ρ x)
  | .pos x => .pos (instS ρ x)
  | .not_ x => .not_ (instS ρ x)
  | .bin op x y => .bin op (instS ρ x) (instS ρ y)
  | .isNull x n => .isNull (instS ρ x) n
  | .inList x vs => .inList (instS ρ x) (instL ρ vs)
  | .index x i => .index (instS ρ x) (instS ρ i)
  | .none_ => .none_
def instL (ρ : Bytes → PVal) : SExprList → SExprList
  | .nil => .nil
  | .cons e es => .cons (instS ρ e) (instL ρ es)
end

section
variable (ρ : Bytes → PVal)

theorem PVal.tok_isWord (v : PVal) (kw : String) : isWord v.tok kw = false := by cases v <;> rfl
theorem PVal.tok_isSym (v : PVal) (s : String) : isSym v.tok s = false := by cases v <;> rfl
theorem PVal.tok_infix (v : PVal) : infixPrec v.tok = none := by cases v <;> rfl

@[simp] theorem isWord_inst (t : STok) (kw : String) : isWord (instTok ρ t) kw = isWord t kw := by
  cases t <;> first | rfl | exact PVal.tok_isWord _ _
@[simp] theorem isSym_inst (t : STok) (s : String) : isSym (instTok ρ t) s = isSym t s := by
  cases t <;> first | rfl | exact PVal.tok_isSym _ _
@[simp] theorem infixPrec_inst (t : STok) : infixPrec (instTok ρ t) = infixPrec t := by
  cases t <;> first | rfl | exact PVal.tok_infix _

/-- the result of an expression-level reader, instantiated -/
def instR (r : SExpr × List STok) : SExpr × List STok := (instS ρ r.1, r.2.map (instTok ρ))
def instRL (r : SExprList × List STok) : SExprList × List STok := (instL ρ r.1, r.2.map (instTok ρ))

@[simp] theorem instR_mk (x : SExpr) (r : List STok) : instR ρ (x, r) = (instS ρ x, r.map (instTok ρ)) := rfl
@[simp] theorem instRL_mk (x : SExprList) (r : List STok) : instRL ρ (x, r) = (instL ρ x, r.map (instTok ρ)) := rfl

/-- the invariant at fuel `k`: every function commutes with the instantiation -/
structure CInv (k : Nat) : Prop where
  expr : ∀ m ts, pExprS k m (ts.map (instTok ρ)) = (pExprS k m ts).map (instR ρ)
  trail : ∀ m x ts, pTrailS k m (instS ρ x) (ts.map (instTok ρ)) = (pTrailS k m x ts).map (instR ρ)
  unary : ∀ ts, pUnaryS k (ts.map (instTok ρ)) = (pUnaryS k ts).map (instR ρ)
  post : ∀ x ts, pPostfixS k (instS ρ x) (ts.map (instTok ρ)) = (pPostfixS k x ts).map (instR ρ)
  atom : ∀ ts, pAtomS k (ts.map (instTok ρ)) = (pAtomS k ts).map (instR ρ)
  col : ∀ ps ts, pColTail k ps (ts.map (instTok ρ)) = (pColTail k ps ts).map (instR ρ)
  list : ∀ ts, pListS k (ts.map (instTok ρ)) = (pListS k ts).map (instRL ρ)

theorem CInv.zero : CInv ρ 0 := by
  constructor <;> intros <;> simp [pExprS, pTrailS, pUnaryS, pPostfixS, pAtomS, pColTail, pListS]

end

end Pql.E2EMore
