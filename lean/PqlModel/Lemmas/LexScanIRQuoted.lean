/-
`(*scanner).quotedIdent` as translated against the model's `scanQuotedIdent`: the loop by runes against
the model's loop by bytes, and `strings.ReplaceAll(content, "``", "`")` against the value the model
builds on the way.
-/
import PqlModel.Lemmas.LexScanIRCore
namespace Pql.ScanIR
open Pql
open Pql.LexIR (IErr M BinOp goPanic stuck irOf)
set_option linter.unusedSimpArgs false
set_option linter.unusedVariables false

/-! ### the model's loop: closedness, width, value -/

def qClosed : QRes → Bool
  | .closed _ _ => true
  | .bad _ => false

@[simp] theorem qClosed_shift (k : Nat) (c : Option UInt8) (r : QRes) : qClosed (r.shift k c) = qClosed r := by
  cases r <;> rfl

theorem qid_cons (c : UInt8) (r : Bytes) : qidentLoop (c :: r) =
    if c == 96 then (match r with | [] => QRes.closed [] 1 | d :: rest' => if d == 96 then (qidentLoop rest').shift 2 (some 96) else .closed [] 1)
    else if c == 10 then .bad 0 else (qidentLoop r).shift 1 (some c) := by
  cases r <;> rfl
theorem qid_one : qidentLoop [96] = .closed [] 1 := rfl
theorem qid_dbl (r : Bytes) : qidentLoop (96 :: 96 :: r) = (qidentLoop r).shift 2 (some 96) := rfl
theorem qid_close (d : UInt8) (r : Bytes) (h : d ≠ 96) : qidentLoop (96 :: d :: r) = .closed [] 1 := by
  rw [qid_cons]; simp [h]
theorem qid_nl (r : Bytes) : qidentLoop (10 :: r) = .bad 0 := by rw [qid_cons]; simp
theorem qid_other (c : UInt8) (r : Bytes) (h1 : c ≠ 96) (h2 : c ≠ 10) :
    qidentLoop (c :: r) = (qidentLoop r).shift 1 (some c) := by
  rw [qid_cons]; simp [h1, h2]

/-- the bytes of one rune (none of them '`' or '\n') are passed over -/
theorem qidentLoop_skip (x y : Bytes) (hx : ∀ b ∈ x, b ≠ 96 ∧ b ≠ 10) :
    qClosed (qidentLoop (x ++ y)) = qClosed (qidentLoop y) ∧
    (qidentLoop (x ++ y)).width = (qidentLoop y).width + x.length := by
  induction x with
  | nil => simp
  | cons c x ih =>
    have hc := hx c List.mem_cons_self
    have := ih fun b hb => hx b (List.mem_cons_of_mem _ hb)
    rw [List.cons_append, qid_other c _ hc.1 hc.2]
    simp only [qClosed_shift, QRes.width_shift, this, List.length_cons]
    exact ⟨trivial, by omega⟩

/-- the bytes of the rune at the head: if the first is not the ASCII byte `n`, none is -/
theorem rune_bytes_ne (c : UInt8) (rest : Bytes) (n : UInt8) (hn : n.toNat < 128) (hc : c ≠ n) :
    ∀ b ∈ (c :: rest).take (decodeRune (c :: rest)).2, b ≠ n := by
  have hpos := decodeRune_width_pos c rest
  have ht := decodeRune_tail_ge c rest
  obtain ⟨w, hw⟩ : ∃ w, (decodeRune (c :: rest)).2 = w + 1 := ⟨(decodeRune (c :: rest)).2 - 1, by omega⟩
  rw [hw] at ht ⊢
  intro b hb
  simp only [List.take_succ_cons, List.mem_cons, Nat.add_one_sub_one] at hb ht
  rcases hb with rfl | hb
  · exact hc
  · have := ht b hb
    intro e; subst e; omega

theorem shift_closed {q : QRes} {k : Nat} {c : UInt8} {v : Bytes} {w : Nat} (h : q.shift k (some c) = .closed v w) :
    ∃ v' w', q = .closed v' w' ∧ v = c :: v' ∧ w = w' + k := by
  cases q with
  | closed v' w' => simp only [QRes.shift, QRes.closed.injEq] at h; exact ⟨v', w', rfl, h.1.symm, h.2.symm⟩
  | bad w' => simp [QRes.shift] at h

def bq2 : Bytes := [96, 96]
def bq1 : Bytes := [96]

theorem ra_nil : replaceAll bq2 bq1 [] = [] := by simp [replaceAll]

theorem ra_pair (x : Bytes) : replaceAll bq2 bq1 (96 :: 96 :: x) = 96 :: replaceAll bq2 bq1 x := by
  rw [replaceAll.eq_2]
  simp [bq2, bq1, List.isPrefixOf]

theorem ra_other (c : UInt8) (x : Bytes) (hc : c ≠ 96) : replaceAll bq2 bq1 (c :: x) = c :: replaceAll bq2 bq1 x := by
  rw [replaceAll.eq_2]
  have : ¬ (96 : UInt8) = c := fun e => hc e.symm
  simp [bq2, List.isPrefixOf, this]

/-- a closed quoted identifier has a closing back-quote (width ≥ 1), and **its value is `ReplaceAll` of its
    content**: the bytes before the closing back-quote -/
theorem qident_value : ∀ (n : Nat) (t v : Bytes) (w : Nat), t.length ≤ n → qidentLoop t = .closed v w →
    1 ≤ w ∧ replaceAll bq2 bq1 (t.take (w - 1)) = v := by
  intro n
  induction n with
  | zero =>
    intro t v w hl h
    have : t = [] := List.length_eq_zero_iff.mp (by omega)
    subst this; cases h
  | succ n ih =>
    intro t v w hl h
    cases t with
    | nil => cases h
    | cons c rest =>
      by_cases h96 : c = 96
      · subst h96
        cases rest with
        | nil => rw [qid_one] at h; cases h; simp [ra_nil]
        | cons d rest' =>
          by_cases hd : d = 96
          · subst hd
            rw [qid_dbl] at h
            obtain ⟨v', w', hq, rfl, rfl⟩ := shift_closed h
            obtain ⟨hpos, hv⟩ := ih rest' v' w' (by simp at hl; omega) hq
            refine ⟨by omega, ?_⟩
            have e : w' + 2 - 1 = (w' - 1) + 1 + 1 := by omega
            rw [e, List.take_succ_cons, List.take_succ_cons, ra_pair, hv]
          · rw [qid_close d rest' hd] at h; cases h; simp [ra_nil]
      · by_cases h10 : c = 10
        · subst h10; rw [qid_nl] at h; cases h
        · rw [qid_other c rest h96 h10] at h
          obtain ⟨v', w', hq, rfl, rfl⟩ := shift_closed h
          obtain ⟨hpos, hv⟩ := ih rest v' w' (by simp at hl; omega) hq
          refine ⟨by omega, ?_⟩
          have e : w' + 1 - 1 = (w' - 1) + 1 := by omega
          rw [e, List.take_succ_cons, ra_other c _ h96, hv]

/-! ### the translated loop -/

/-- `s.quotedIdent()` on a suffix that begins with a back-quote -/
def SpecQuotedIdent (fuel : Nat) (f : Fn) : Prop := ∀ (pre s : Bytes) (l : Nat) (bs : List (Nat × Bytes)) (rest : Bytes),
  s = 96 :: rest → s.length < fuel →
  ∃ l', f [.scanner] (hp pre s 0 l bs) =
    .ok ([tokAt pre.length (scanQuotedIdent s)], hp pre s (scanQuotedIdent s).width l' bs)

def qidSt (p0 : Nat) (h : Store) : State := ⟨[("start", .int p0), ("s", .scanner)], h⟩

theorem leave_qidSt (p0 : Nat) (h h' : Store) (x y : String × Val) :
    (State.leave ⟨x :: y :: (qidSt p0 h).vars, h⟩ (qidSt p0 h')) = qidSt p0 h := by
  simp [State.leave, qidSt]

/-- the token the loop returns when the model's loop, started `k` bytes into `s`, ends as `q` -/
def qidTok (pre s : Bytes) (k : Nat) (q : QRes) : Val :=
  if qClosed q then
    .tok .qident pre.length (pre.length + (k + q.width)) (replaceAll bq2 bq1 ((s.drop 1).take (k + q.width - 2)))
  else .tok .error pre.length (pre.length + (k + q.width)) []

theorem slice_content (pre s : Bytes) (n : Nat) :
    List.take (pre.length + n - 1 - (pre.length + 1)) (List.drop (pre.length + 1) (pre ++ s)) = (s.drop 1).take (n - 2) := by
  have h1 : List.drop (pre.length + 1) (pre ++ s) = s.drop 1 := LexIR.drop_hp pre s 1
  rw [h1]
  congr 1
  omega

/-- **the loop of `quotedIdent`** -/
theorem qident_loop (env : Env) (fuel : Nat) (E : CursorEnv env) (hR : HasPrim env "strings.ReplaceAll")
    (pre s : Bytes) (bs : List (Nat × Bytes)) :
    ∀ (n k l : Nat), 1 ≤ k → k ≤ s.length → s.length - k < n →
      ∃ l', foreverLoop (execBlock env fuel qidentLoopBody) n (qidSt pre.length (hp pre s k l bs)) =
        .ok (.ret [qidTok pre s k (qidentLoop (s.drop k))],
          qidSt pre.length (hp pre s (k + (qidentLoop (s.drop k)).width) l' bs)) := by
  obtain ⟨fN, hN, sN⟩ := E.next
  obtain ⟨fP, hP, sP⟩ := E.prev
  obtain ⟨fA, hA, sA0⟩ := E.newSpan
  obtain ⟨fE, hE, sE0⟩ := E.errorToken
  have sA : ∀ a b h, fA [.int a, .int b] h = .ok ([.span a b], h) := sA0
  have sE : ∀ a b m extra h, fE (.span a b :: .str m :: extra) h = .ok ([.tok .error a b []], h) := sE0
  unfold HasPrim at hR
  intro n
  induction n with
  | zero => intro k l _ _ h; omega
  | succ n ih =>
    intro k l hk1 hk hn
    cases hd : s.drop k with
    | nil =>
      have hlen : s.length ≤ k := List.drop_eq_nil_iff.mp hd
      refine ⟨l, ?_⟩
      have hb : execBlock env fuel qidentLoopBody (qidSt pre.length (hp pre s k l bs)) =
          .ok (.ret [.tok .error pre.length (pre.length + k) []],
            ⟨("ok", .bool false) :: ("c", .int 0) :: (qidSt pre.length (hp pre s k l bs)).vars, hp pre s k l bs⟩) := by
        unfold qidentLoopBody qidSt
        ls_simp [hN, next_end sN pre s k l bs hlen, hA, sA, hE, sE]
      simp only [foreverLoop, hb, bind, Except.bind, pure, Except.pure, leave_qidSt, qidentLoop, qidTok, qClosed,
        QRes.width_bad, Nat.add_zero]
      rfl
    | cons c rest =>
      have hlt := LexIR.lt_of_drop_cons hd
      have hr1 := LexIR.drop_succ_of_cons hd
      obtain ⟨r, w, hr, hwpos, hq, _, _, hw, _⟩ := rune_facts c rest
      have nx := next_cons' sN pre s k l bs c rest r w hd hr
      by_cases h96 : c = 96
      · -- a back-quote: look at the next rune
        have hw1 : w = 1 := hw (by subst h96; decide)
        subst hw1
        have hr96 : r = 96 := (hq 96 (by omega)).mpr h96
        subst hr96
        cases hrest : rest with
        | nil =>
          rw [hrest] at hr1
          have hlen : s.length ≤ k + 1 := List.drop_eq_nil_iff.mp hr1
          have hq1 : qidentLoop (c :: []) = .closed [] 1 := by subst h96; rfl
          refine ⟨pre.length + k, ?_⟩
          have hsl := slice_content pre s (k + 1)
          have hb : execBlock env fuel qidentLoopBody (qidSt pre.length (hp pre s k l bs)) =
              .ok (.ret [.tok .qident pre.length (pre.length + (k + 1)) (replaceAll bq2 bq1 ((s.drop 1).take (k + 1 - 2)))],
                ⟨("ok", .bool false) :: ("c", .int 0) :: (qidSt pre.length (hp pre s (k + 1) (pre.length + k) bs)).vars,
                  hp pre s (k + 1) (pre.length + k) bs⟩) := by
            unfold qidentLoopBody qidSt notOkOrNot96 qidentValue
            have g1 : 1 ≤ pre.length + (k + 1) := by omega
            have g2 : k ≤ s.length := by omega
            have g3 : pre.length + k - (pre.length + 1) = k - 1 := by omega
            ls_simp [hk1, g3, hN, nx, next_end sN pre s (k + 1) (pre.length + k) bs hlen, hA, sA, hR, prims, kind_qident,
              ofString_bq, ofString_bq2, g1, g2, hsl, bq2, bq1]
          simp only [foreverLoop, hb, bind, Except.bind, pure, Except.pure, leave_qidSt, hq1, qidTok, qClosed,
            QRes.width_closed, if_true]
        | cons d rest' =>
          rw [hrest] at hr1
          have hr2 := LexIR.drop_succ_of_cons hr1
          have hlt2 := LexIR.lt_of_drop_cons hr1
          obtain ⟨rd, wd, hrd, hwdpos, hqd, _, _, hwd, _⟩ := rune_facts d rest'
          have nx2 := next_cons' sN pre s (k + 1) (pre.length + k) bs d rest' rd wd hr1 hrd
          by_cases hd96 : d = 96
          · -- doubled back-quote: go on after it
            have hw1 : wd = 1 := hwd (by subst hd96; decide)
            subst hw1
            have hr96 : rd = 96 := (hqd 96 (by omega)).mpr hd96
            subst hr96
            obtain ⟨l', e⟩ := ih (k + 1 + 1) (pre.length + (k + 1)) (by omega) (by omega) (by omega)
            rw [hr2] at e
            refine ⟨l', ?_⟩
            have hq2 : qidentLoop (c :: d :: rest') = (qidentLoop rest').shift 2 (some 96) := by
              subst h96 hd96; rfl
            have hb : execBlock env fuel qidentLoopBody (qidSt pre.length (hp pre s k l bs)) =
                .ok (.next, ⟨("ok", .bool true) :: ("c", .int 96) ::
                  (qidSt pre.length (hp pre s (k + 1 + 1) (pre.length + (k + 1)) bs)).vars,
                  hp pre s (k + 1 + 1) (pre.length + (k + 1)) bs⟩) := by
              unfold qidentLoopBody qidSt notOkOrNot96 qidentValue
              ls_simp [hN, nx, nx2]
            simp only [foreverLoop, hb, bind, Except.bind, leave_qidSt, e, hq2, qidTok, qClosed_shift,
              QRes.width_shift]
            have e1 : k + 1 + 1 + (qidentLoop rest').width = k + ((qidentLoop rest').width + 2) := by omega
            rw [e1]
          · -- a single back-quote closes; the rune after it is given back
            have hrd96 : ¬ rd = 96 := fun e => hd96 ((hqd 96 (by omega)).mp e)
            have hq2 : qidentLoop (c :: d :: rest') = .closed [] 1 := by
              subst h96; exact qid_close d rest' hd96
            refine ⟨pre.length + (k + 1), ?_⟩
            have hsl := slice_content pre s (k + 1)
            have hb : execBlock env fuel qidentLoopBody (qidSt pre.length (hp pre s k l bs)) =
                .ok (.ret [.tok .qident pre.length (pre.length + (k + 1)) (replaceAll bq2 bq1 ((s.drop 1).take (k + 1 - 2)))],
                  ⟨("ok", .bool true) :: ("c", .int rd) ::
                    (qidSt pre.length (hp pre s (k + 1) (pre.length + (k + 1)) bs)).vars,
                    hp pre s (k + 1) (pre.length + (k + 1)) bs⟩) := by
              unfold qidentLoopBody qidSt notOkOrNot96 qidentValue
              have g1 : 1 ≤ pre.length + (k + 1) := by omega
              have g2 : k ≤ s.length := by omega
              have g3 : pre.length + k - (pre.length + 1) = k - 1 := by omega
              ls_simp [hk1, g3, hN, hP, nx, nx2, hrd96, prev_hp sP pre s (k + 1), hA, sA, hR, prims, kind_qident,
                ofString_bq, ofString_bq2, g1, g2, hsl, bq2, bq1]
            simp only [foreverLoop, hb, bind, Except.bind, pure, Except.pure, leave_qidSt, hq2, qidTok, qClosed,
              QRes.width_closed, if_true]
      · have hr96 : ¬ r = 96 := fun e => h96 ((hq 96 (by omega)).mp e)
        by_cases h10 : c = 10
        · -- end of line: error, the newline is given back
          have hw1 : w = 1 := hw (by subst h10; decide)
          subst hw1
          have hr10 : r = 10 := (hq 10 (by omega)).mpr h10
          subst hr10
          have hq1 : qidentLoop (c :: rest) = .bad 0 := by subst h10; exact qid_nl rest
          refine ⟨pre.length + k, ?_⟩
          have hb : execBlock env fuel qidentLoopBody (qidSt pre.length (hp pre s k l bs)) =
              .ok (.ret [.tok .error pre.length (pre.length + k) []],
                ⟨("ok", .bool true) :: ("c", .int 10) :: (qidSt pre.length (hp pre s k (pre.length + k) bs)).vars,
                  hp pre s k (pre.length + k) bs⟩) := by
            unfold qidentLoopBody qidSt
            ls_simp [hN, hP, nx, prev_hp sP pre s k, hA, sA, hE, sE]
          simp only [foreverLoop, hb, bind, Except.bind, pure, Except.pure, leave_qidSt, hq1, qidTok, qClosed,
            QRes.width_bad, Nat.add_zero]
          rfl
        · -- any other rune: its bytes are content
          have hr10 : ¬ r = 10 := fun e => h10 ((hq 10 (by omega)).mp e)
          have hwle : w ≤ (c :: rest).length := by
            have := decodeRune_width_le (c :: rest); rw [hr] at this; exact this
          have hklen : k + w ≤ s.length := by
            have := congrArg List.length hd
            simp at this hwle; omega
          obtain ⟨l', e⟩ := ih (k + w) (pre.length + k) (by omega) hklen (by omega)
          refine ⟨l', ?_⟩
          have hsplit : c :: rest = (c :: rest).take w ++ (c :: rest).drop w := (List.take_append_drop w _).symm
          have hbytes : ∀ b ∈ (c :: rest).take w, b ≠ 96 ∧ b ≠ 10 := by
            intro b hb
            have e1 := rune_bytes_ne c rest 96 (by decide) h96
            have e2 := rune_bytes_ne c rest 10 (by decide) h10
            rw [hr] at e1 e2
            exact ⟨e1 b hb, e2 b hb⟩
          have hskip := qidentLoop_skip ((c :: rest).take w) ((c :: rest).drop w) hbytes
          rw [← hsplit] at hskip
          have hdd : (c :: rest).drop w = s.drop (k + w) := by rw [← hd, List.drop_drop]
          rw [hdd] at hskip
          have hlenw : ((c :: rest).take w).length = w := by
            rw [List.length_take]; omega
          rw [hlenw] at hskip
          have hb : execBlock env fuel qidentLoopBody (qidSt pre.length (hp pre s k l bs)) =
              .ok (.next, ⟨("ok", .bool true) :: ("c", .int r) :: (qidSt pre.length (hp pre s (k + w) (pre.length + k) bs)).vars,
                hp pre s (k + w) (pre.length + k) bs⟩) := by
            unfold qidentLoopBody qidSt
            ls_simp [hN, nx, hr96, hr10]
          simp only [foreverLoop, hb, bind, Except.bind, leave_qidSt, e, qidTok, hskip.1, hskip.2]
          have e1 : k + w + (qidentLoop (s.drop (k + w))).width = k + ((qidentLoop (s.drop (k + w))).width + w) := by omega
          rw [e1]

/-- **`quotedIdent` is the model's `scanQuotedIdent`** -/
theorem quotedIdent_spec (env : Env) (fuel : Nat) (E : CursorEnv env) (hR : HasPrim env "strings.ReplaceAll") :
    SpecQuotedIdent fuel (interpFn env fuel quotedIdentDecl) := by
  intro pre s l bs rest hs hfuel
  obtain ⟨fN, hN, sN⟩ := E.next
  have hd : s.drop 0 = 96 :: rest := by simp [hs]
  have nx := next_cons' sN pre s 0 l bs 96 rest 96 1 hd (Dispatch.decodeRune_ascii' 96 rest (by decide))
  obtain ⟨l', hl⟩ := qident_loop env fuel E hR pre s bs fuel (0 + 1) (pre.length + 0) (by omega)
    (by subst hs; simp) (by omega)
  have hdrop : s.drop (0 + 1) = s.tail := by subst hs; rfl
  rw [hdrop] at hl
  simp only [Nat.add_zero, Nat.zero_add, qidSt] at nx hl
  refine ⟨l', ?_⟩
  have hres : [qidTok pre s 1 (qidentLoop s.tail)] = [tokAt pre.length (scanQuotedIdent s)] ∧
      1 + (qidentLoop s.tail).width = (scanQuotedIdent s).width := by
    unfold scanQuotedIdent qidTok tokAt
    cases hq : qidentLoop s.tail with
    | closed v w =>
      have hv := (qident_value s.tail.length s.tail v w (Nat.le_refl _) hq).2
      have e : (s.drop 1).take (1 + w - 2) = s.tail.take (w - 1) := by
        subst hs; simp only [List.drop_succ_cons, List.drop_zero, List.tail_cons]; congr 1; omega
      simp only [qClosed, QRes.width_closed, if_true, e, hv]
      constructor
      · congr 2; omega
      · omega
    | bad w =>
      simp only [qClosed, QRes.width_bad]
      constructor
      · simp; omega
      · omega
  rw [hres.1, hres.2] at hl
  unfold quotedIdentDecl notOkOrNot96
  ls_simp [hN, nx, hl]

end Pql.ScanIR
