/-
C08, second sentence — part 2: token classes, bracket balance, adjacency.

Specification-level definitions introduced here (all on token *kinds* and keyword spellings only):

* `Cl`       — the class of a grammar token (`UTok`): a name, a literal, one of the keywords
               `count`, `asc`/`desc`, `first`/`last`, any other keyword, or a symbol of a given kind;
* `run`/`balanced` — bracket balance of a token list: `(`…`)` and `[`…`]` properly nested;
* `okPair`   — which classes may stand next to each other (a list of *forbidden* neighbours);
* `Lin F L l` — `l` is non-empty, starts with a class of `F`, ends with a class of `L`, and all
               neighbours are allowed;
* `Acc`      — the relation `Grammar.accounts` decides (slightly weakened: several optional commas),
               as an inductive predicate, with the transfer lemmas to source tokens.
-/
import PqlModel.Lemmas.AccountedStmt
namespace Pql.Reject
open Pql Pql.Grammar

/-! ### classes -/

inductive Cl
  | nm | lit | kCount | kDir | kNF | kw | bad
  | s (k : TokKind)
  deriving DecidableEq, Repr

def b (x : String) : Bytes := Bytes.ofString x

/-- the spellings of every keyword other than `count`, `asc`, `desc`, `first`, `last` -/
def otherAlts : List (List Bytes) :=
  [[b "where", b "filter"], [b "sort", b "order"], [b "take", b "limit"], [b "top"], [b "project"],
   [b "extend"], [b "summarize"], [b "join"], [b "kind"], [b "on"], [b "as"], [b "render"],
   [b "with"], [b "nulls"], [b "let"]]

def otherSpellings : List Bytes := otherAlts.flatten

def plainCl : TokKind → Cl
  | .ident | .qident => .nm
  | .number | .string => .lit
  | k => .s k

def kwCl (alts : List Bytes) : Cl :=
  if alts == [b "count"] then .kCount
  else if alts == [b "asc"] || alts == [b "desc"] then .kDir
  else if alts == [b "first"] || alts == [b "last"] then .kNF
  else if otherAlts.contains alts then .kw
  else .bad

def cl (u : UTok) : Cl :=
  if u.alts.isEmpty || u.kind != .ident then plainCl u.kind else kwCl u.alts

/-- what a source token matched by a grammar token of class `c` looks like -/
def compat : Cl → Token → Bool
  | .nm, t => t.kind == .ident || t.kind == .qident
  | .lit, t => t.kind == .number || t.kind == .string
  | .kCount, t => t.kind == .ident && t.value == b "count"
  | .kDir, t => t.kind == .ident && (t.value == b "asc" || t.value == b "desc")
  | .kNF, t => t.kind == .ident && (t.value == b "first" || t.value == b "last")
  | .kw, t => t.kind == .ident && otherSpellings.contains t.value
  | .bad, t => t.kind == .ident
  | .s k, t => t.kind == k

theorem compat_plain (k : TokKind) (t : Token) (h : t.kind = k) : compat (plainCl k) t = true := by
  subst h; cases hk : t.kind <;> simp [plainCl, compat, hk]

theorem tokMatches_compat {u : UTok} {t : Token} (h : tokMatches u t = true) : compat (cl u) t = true := by
  simp only [tokMatches, Bool.and_eq_true, beq_iff_eq] at h
  obtain ⟨hk, hv⟩ := h
  unfold cl
  split
  · exact compat_plain _ _ hk.symm
  · next hc =>
    simp only [Bool.or_eq_true, bne_iff_ne, ne_eq, not_or, Bool.not_eq_true, Decidable.not_not] at hc
    obtain ⟨hne, hki⟩ := hc
    have hti : t.kind = .ident := by rw [← hk, hki]
    simp only [hne, Bool.false_eq_true, if_false] at hv
    have hmem : t.value ∈ u.alts := List.contains_iff_mem.mp hv
    unfold kwCl
    split
    · next h1 =>
      have : u.alts = [b "count"] := by simpa using h1
      rw [this] at hmem
      simp only [compat, hti, beq_self_eq_true, Bool.true_and, beq_iff_eq]
      simpa using hmem
    · split
      · next h2 =>
        simp only [Bool.or_eq_true, beq_iff_eq] at h2
        simp only [compat, hti, beq_self_eq_true, Bool.true_and, Bool.or_eq_true, beq_iff_eq]
        rcases h2 with h2 | h2 <;> (rw [h2] at hmem; simp at hmem; simp [hmem])
      · split
        · next h3 =>
          simp only [Bool.or_eq_true, beq_iff_eq] at h3
          simp only [compat, hti, beq_self_eq_true, Bool.true_and, Bool.or_eq_true, beq_iff_eq]
          rcases h3 with h3 | h3 <;> (rw [h3] at hmem; simp at hmem; simp [hmem])
        · split
          · next h4 =>
            simp only [compat, hti, beq_self_eq_true, Bool.true_and]
            apply List.contains_iff_mem.mpr
            exact List.mem_flatten.mpr ⟨u.alts, List.contains_iff_mem.mp h4, hmem⟩
          · simp [compat, hti]

/-! ### brackets -/

inductive Br
  | o (closer : TokKind) | c (k : TokKind) | n
  deriving DecidableEq, Repr

def brK : TokKind → Br
  | .lparen => .o .rparen
  | .lbracket => .o .rbracket
  | .rparen => .c .rparen
  | .rbracket => .c .rbracket
  | _ => .n

def Cl.br : Cl → Br
  | .s k => brK k
  | _ => .n

/-- read a token list with a stack of expected closers -/
def run : List TokKind → List Br → Option (List TokKind)
  | stk, [] => some stk
  | stk, .n :: l => run stk l
  | stk, .o k :: l => run (k :: stk) l
  | [], .c _ :: _ => none
  | k' :: stk, .c k :: l => if k = k' then run stk l else none

/-- **bracket balance of a token list** (token kinds only): every `(` is closed by a `)`, every `[`
    by a `]`, properly nested, nothing left open, no surplus closer -/
def balanced (ts : List Token) : Bool := run [] (ts.map fun t => brK t.kind) == some []

def Bal (l : List Br) : Prop := ∀ stk, run stk l = some stk

theorem run_append : ∀ (a b : List Br) (stk : List TokKind),
    run stk (a ++ b) = (run stk a).bind fun s => run s b
  | [], b, stk => by simp [run]
  | .n :: a, b, stk => by simp [run, run_append a b]
  | .o k :: a, b, stk => by simp [run, run_append a b]
  | .c k :: a, b, [] => by simp [run]
  | .c k :: a, b, k' :: stk => by
    simp only [List.cons_append, run]
    split
    · exact run_append a b stk
    · simp

theorem Bal.nil : Bal [] := fun _ => rfl

theorem Bal.app {a b : List Br} (ha : Bal a) (hb : Bal b) : Bal (a ++ b) := by
  intro stk; rw [run_append, ha stk]; exact hb stk

theorem Bal.consN {a : List Br} (ha : Bal a) : Bal (.n :: a) := fun stk => ha stk

theorem Bal.wrap {a rest : List Br} (k : TokKind) (ha : Bal a) (hr : Bal rest) :
    Bal (.o k :: (a ++ .c k :: rest)) := by
  intro stk
  simp only [run]
  rw [run_append, ha (k :: stk)]
  simp only [Option.bind_some, run, if_true]
  exact hr stk

def BalC (cs : List Cl) : Prop := Bal (cs.map Cl.br)

theorem BalC.nil : BalC [] := Bal.nil

theorem BalC.app {a c : List Cl} (ha : BalC a) (hc : BalC c) : BalC (a ++ c) := by
  unfold BalC; rw [List.map_append]; exact Bal.app ha hc

theorem BalC.cons {a : List Cl} (c : Cl) (h : c.br = .n) (ha : BalC a) : BalC (c :: a) := by
  unfold BalC; rw [List.map_cons, h]; exact Bal.consN ha

theorem BalC.one (c : Cl) (h : c.br = .n) : BalC [c] := BalC.cons c h BalC.nil

theorem BalC.paren {a rest : List Cl} (ha : BalC a) (hr : BalC rest) :
    BalC (.s .lparen :: (a ++ .s .rparen :: rest)) := by
  unfold BalC; simp only [List.map_cons, List.map_append]; exact Bal.wrap .rparen ha hr

theorem BalC.brack {a rest : List Cl} (ha : BalC a) (hr : BalC rest) :
    BalC (.s .lbracket :: (a ++ .s .rbracket :: rest)) := by
  unfold BalC; simp only [List.map_cons, List.map_append]; exact Bal.wrap .rbracket ha hr

theorem kwCl_br (a : List Bytes) : (kwCl a).br = .n := by
  unfold kwCl; repeat' split
  all_goals rfl

theorem plainCl_br (k : TokKind) : (plainCl k).br = brK k := by cases k <;> rfl

theorem cl_br (u : UTok) : (cl u).br = brK u.kind := by
  unfold cl
  split
  · exact plainCl_br _
  · next hc =>
    simp only [Bool.or_eq_true, bne_iff_ne, ne_eq, not_or, Bool.not_eq_true, Decidable.not_not] at hc
    rw [kwCl_br, hc.2]; rfl

/-! ### neighbours -/

def endsOperand : Cl → Bool
  | .nm | .lit | .s .rparen | .s .rbracket => true
  | _ => false

def startsOperand : Cl → Bool
  | .nm | .lit => true
  | _ => false

def isKw : Cl → Bool
  | .kCount | .kDir | .kNF | .kw => true
  | _ => false

/-- what may follow a token that needs something after it -/
def isStart : Cl → Bool
  | .nm | .lit | .kCount | .kDir | .kNF | .kw | .s .lparen | .s .plus | .s .minus => true
  | _ => false

/-- tokens that need something after them: binary operators, signs, `,` `=` `by` `in` `.` `(` `[` `|` -/
def opLike : Cl → Bool
  | .s .and_ | .s .or_ | .s .plus | .s .minus | .s .star | .s .slash | .s .mod
  | .s .eq | .s .ne | .s .lt | .s .le | .s .gt | .s .ge | .s .cieq | .s .cine
  | .s .comma | .s .assign | .s .by_ | .s .in_ | .s .dot | .s .lparen | .s .lbracket | .s .pipe => true
  | _ => false

/-- classes that never occur in a statement -/
def never : Cl → Bool
  | .bad | .s .error | .s .semi | .s .ident | .s .qident | .s .number | .s .string => true
  | _ => false

/-- **allowed neighbours.**  Forbidden are:
    1. an operand end (name, literal, `)`, `]`) directly followed by a name or literal;
    2. a `|` followed by anything but a keyword (other than `asc desc first last`);
    3. `asc`/`desc` (as keyword) followed by `asc`/`desc`, a name or a literal;
    4. `count` (as operator keyword) followed by anything but `|` or `)`;
    5. an operator-like token followed by something that cannot start an operand
       (exception: `(` `)` — a call without arguments);
    6. any other keyword followed by something that cannot start an operand and is not `by` or `=`;
    7. an unknown keyword, an error token, a semicolon. -/
def okPair (a c : Cl) : Bool :=
  !(endsOperand a && startsOperand c) &&
  !(a == .s .pipe && !(c == .kw || c == .kCount)) &&
  !(a == .kDir && (c == .kDir || startsOperand c)) &&
  !(a == .kCount && !(c == .s .pipe || c == .s .rparen)) &&
  !(opLike a && !isStart c && !(a == .s .lparen && c == .s .rparen)) &&
  !(a == .kw && !(isStart c || c == .s .by_ || c == .s .assign)) &&
  !(never a || never c)

def adjOK : List Cl → Bool
  | a :: c :: l => okPair a c && adjOK (c :: l)
  | _ => true

theorem adjOK_append : ∀ (a c : List Cl),
    adjOK (a ++ c) = (adjOK a && adjOK c &&
      (match a.getLast?, c.head? with | some x, some y => okPair x y | _, _ => true))
  | [], c => by cases c <;> simp [adjOK]
  | [x], [] => by simp [adjOK]
  | [x], y :: c => by simp [adjOK, Bool.and_comm]
  | x :: y :: a, c => by
    have ih := adjOK_append (y :: a) c
    simp only [List.cons_append] at ih
    simp only [List.cons_append, adjOK, ih, List.getLast?_cons_cons, Bool.and_assoc]

theorem okPair_never_left {a c : Cl} (h : never a = true) : okPair a c = false := by
  simp [okPair, h]
theorem okPair_never_right {a c : Cl} (h : never c = true) : okPair a c = false := by
  simp [okPair, h]

/-- a class that never occurs can only be the sole element of a list with allowed neighbours -/
theorem adjOK_never : ∀ (l : List Cl), adjOK l = true → ∀ x ∈ l, never x = true → l = [x]
  | [], _, _, hx, _ => by cases hx
  | [a], _, x, hx, _ => by rw [List.mem_singleton.1 hx]
  | a :: c :: l, h, x, hx, hn => by
    simp only [adjOK, Bool.and_eq_true] at h
    rcases List.mem_cons.1 hx with rfl | hx
    · rw [okPair_never_left hn] at h; exact absurd h.1 (by decide)
    · have := adjOK_never (c :: l) h.2 x hx hn
      simp only [List.cons.injEq] at this
      rw [this.1, okPair_never_right hn] at h; exact absurd h.1 (by decide)

/-- `l` is non-empty, begins with a class of `F`, ends with a class of `L`, neighbours allowed -/
structure Lin (F L : List Cl) (l : List Cl) : Prop where
  first : ∃ a, l.head? = some a ∧ a ∈ F
  last : ∃ a, l.getLast? = some a ∧ a ∈ L
  adj : adjOK l = true

theorem Lin.one (c : Cl) : Lin [c] [c] [c] := ⟨⟨c, rfl, by simp⟩, ⟨c, rfl, by simp⟩, rfl⟩

theorem Lin.ne {F L l} (h : Lin F L l) : l ≠ [] := by
  obtain ⟨a, ha, _⟩ := h.first
  intro hl; rw [hl] at ha; cases ha

theorem Lin.app {F L F' L' : List Cl} {a c : List Cl} (ha : Lin F L a) (hc : Lin F' L' c)
    (h : ∀ x ∈ L, ∀ y ∈ F', okPair x y = true) : Lin F L' (a ++ c) := by
  obtain ⟨x, hx, hxF⟩ := ha.first
  obtain ⟨y, hy, hyL⟩ := ha.last
  obtain ⟨x', hx', hxF'⟩ := hc.first
  obtain ⟨y', hy', hyL'⟩ := hc.last
  refine ⟨⟨x, ?_, hxF⟩, ⟨y', ?_, hyL'⟩, ?_⟩
  · cases a with
    | nil => cases hx
    | cons a0 a' => simpa using hx
  · rw [List.getLast?_append, hy']; rfl
  · rw [adjOK_append, ha.adj, hc.adj, hy, hx']
    simp only [Bool.and_self, Bool.true_and]
    exact h y hyL x' hxF'

theorem Lin.cons {F L : List Cl} {l : List Cl} (c : Cl) (hl : Lin F L l)
    (h : ∀ y ∈ F, okPair c y = true) : Lin [c] L (c :: l) := by
  have := (Lin.one c).app hl (by intro x hx y hy; rw [List.mem_singleton.1 hx]; exact h y hy)
  simpa using this

theorem Lin.snoc {F L : List Cl} {l : List Cl} (c : Cl) (hl : Lin F L l)
    (h : ∀ x ∈ L, okPair x c = true) : Lin F [c] (l ++ [c]) :=
  hl.app (Lin.one c) (by intro x hx y hy; rw [List.mem_singleton.1 hy]; exact h x hx)

theorem Lin.mono {F L F' L' : List Cl} {l : List Cl} (hl : Lin F L l)
    (hF : ∀ a ∈ F, a ∈ F') (hL : ∀ a ∈ L, a ∈ L') : Lin F' L' l := by
  obtain ⟨x, hx, hxF⟩ := hl.first
  obtain ⟨y, hy, hyL⟩ := hl.last
  exact ⟨⟨x, hx, hF x hxF⟩, ⟨y, hy, hL y hyL⟩, hl.adj⟩

theorem adjOK_infix (a v c : List Cl) (h : adjOK (a ++ v ++ c) = true) : adjOK v = true := by
  rw [adjOK_append, adjOK_append] at h
  simp only [Bool.and_eq_true] at h
  exact h.1.1.1.2

/-! ### `accounts` as a relation, and what it transfers to the source tokens -/

inductive Acc : List UTok → List Token → Prop
  | nil : Acc [] []
  | tok {u t us ts} : tokMatches u t = true → Acc us ts → Acc (u :: us) (t :: ts)
  | comma {u c us ts} : u.optComma = true → c.kind = .comma → Acc (u :: us) ts → Acc (u :: us) (c :: ts)

theorem acc_of_accounts (pos : Bool) : ∀ (us : List UTok) (ts : List Token),
    accounts pos us ts = true → Acc us ts
  | [], [], _ => .nil
  | [], _ :: _, h => by simp [accounts] at h
  | _ :: _, [], h => by simp [accounts] at h
  | u :: us, t :: ts, h => by
    simp only [accounts] at h
    split at h
    · next hm =>
      simp only [Bool.and_eq_true] at hm
      exact .tok hm.1 (acc_of_accounts pos us ts h)
    · split at h
      · next hc =>
        simp only [Bool.and_eq_true, beq_iff_eq] at hc
        cases ts with
        | nil => simp at h
        | cons t2 ts2 =>
          simp only [Bool.and_eq_true] at h
          exact .comma hc.1 hc.2 (.tok h.1.1 (acc_of_accounts pos us ts2 h.2))
      · cases h

theorem Acc.nil_right {us : List UTok} (h : Acc us []) : us = [] := by cases h; rfl
theorem Acc.nil_left {ts : List Token} (h : Acc [] ts) : ts = [] := by cases h; rfl

theorem tokMatches_kind {u : UTok} {t : Token} (h : tokMatches u t = true) : u.kind = t.kind := by
  simp only [tokMatches, Bool.and_eq_true, beq_iff_eq] at h; exact h.1

/-- the bracket reading of the source tokens is that of the grammar tokens -/
theorem Acc.run_eq {us : List UTok} {ts : List Token} (h : Acc us ts) : ∀ stk,
    run stk (ts.map fun t => brK t.kind) = run stk ((us.map cl).map Cl.br) := by
  induction h with
  | nil => intro stk; rfl
  | @tok u t us ts hm _ ih =>
    intro stk
    have hb : brK t.kind = (cl u).br := by rw [cl_br, tokMatches_kind hm]
    simp only [List.map_cons, hb]
    cases hbr : (cl u).br with
    | n => simp only [run]; exact ih stk
    | o k => simp only [run]; exact ih _
    | c k =>
      cases stk with
      | nil => simp only [run]
      | cons k' stk => simp only [run]; split; exact ih _; rfl
  | @comma u c us ts _ hc _ ih =>
    intro stk
    simp only [List.map_cons, hc, brK, run]
    exact ih stk

/-- the last source token is matched by the last grammar token -/
theorem Acc.last {us : List UTok} {ts : List Token} (h : Acc us ts) :
    ∀ t, ts.getLast? = some t → ∃ u, us.getLast? = some u ∧ tokMatches u t = true := by
  induction h with
  | nil => intro t ht; cases ht
  | @tok u t us ts hm hacc ih =>
    intro t' ht'
    cases ts with
    | nil =>
      have := hacc.nil_right; subst this
      simp only [List.getLast?_singleton, Option.some.injEq] at ht'
      subst ht'
      exact ⟨u, rfl, hm⟩
    | cons t2 ts2 =>
      rw [List.getLast?_cons_cons] at ht'
      obtain ⟨u', hu', hm'⟩ := ih t' ht'
      cases us with
      | nil => cases hu'
      | cons u2 us2 => exact ⟨u', by rw [List.getLast?_cons_cons]; exact hu', hm'⟩
  | @comma u c us ts _ _ hacc ih =>
    intro t' ht'
    cases ts with
    | nil => cases hacc
    | cons t2 ts2 =>
      rw [List.getLast?_cons_cons] at ht'
      exact ih t' ht'

/-- a run of source tokens without commas at the start is matched by a run of grammar tokens -/
theorem Acc.prefix {us : List UTok} {ts : List Token} (h : Acc us ts) :
    ∀ w post, ts = w ++ post → (∀ t ∈ w, t.kind ≠ .comma) →
      ∃ v post', us = v ++ post' ∧ Forall₂ (fun u t => tokMatches u t = true) v w ∧ Acc post' post := by
  induction h with
  | nil =>
    intro w post hw _
    have hw' := List.append_eq_nil_iff.1 hw.symm
    obtain ⟨rfl, rfl⟩ := hw'
    exact ⟨[], [], rfl, .nil, .nil⟩
  | @tok u t us ts hm hacc ih =>
    intro w post hw hnc
    cases w with
    | nil =>
      simp only [List.nil_append] at hw
      subst hw
      exact ⟨[], u :: us, rfl, .nil, .tok hm hacc⟩
    | cons t1 w2 =>
      simp only [List.cons_append, List.cons.injEq] at hw
      obtain ⟨rfl, hts⟩ := hw
      obtain ⟨v, post', hv, hf, hp⟩ := ih w2 post hts (fun t ht => hnc t (List.mem_cons_of_mem _ ht))
      exact ⟨u :: v, post', by rw [hv]; rfl, .cons hm hf, hp⟩
  | @comma u c us ts ho hc hacc _ =>
    intro w post hw hnc
    cases w with
    | nil =>
      simp only [List.nil_append] at hw
      subst hw
      exact ⟨[], u :: us, rfl, .nil, .comma ho hc hacc⟩
    | cons t1 w2 =>
      simp only [List.cons_append, List.cons.injEq] at hw
      obtain ⟨rfl, _⟩ := hw
      exact absurd hc (hnc _ (by simp))

/-- a run of source tokens without commas anywhere is matched by a run of grammar tokens -/
theorem Acc.window {us : List UTok} {ts : List Token} (h : Acc us ts) :
    ∀ pre w post, ts = pre ++ w ++ post → (∀ t ∈ w, t.kind ≠ .comma) →
      ∃ pre' v post', us = pre' ++ v ++ post' ∧ Forall₂ (fun u t => tokMatches u t = true) v w ∧
        Acc post' post := by
  induction h with
  | nil =>
    intro pre w post hw hnc
    obtain ⟨v, post', hv, hf, hp⟩ := Acc.nil.prefix w post (by
      cases pre with
      | nil => simpa using hw
      | cons _ _ => cases hw) hnc
    exact ⟨[], v, post', by simpa using hv, hf, hp⟩
  | @tok u t us ts hm hacc ih =>
    intro pre w post hw hnc
    cases pre with
    | nil =>
      obtain ⟨v, post', hv, hf, hp⟩ := (Acc.tok hm hacc).prefix w post (by simpa using hw) hnc
      exact ⟨[], v, post', by simpa using hv, hf, hp⟩
    | cons p pre2 =>
      simp only [List.cons_append, List.cons.injEq] at hw
      obtain ⟨rfl, hts⟩ := hw
      obtain ⟨pre', v, post', hv, hf, hp⟩ := ih pre2 w post hts hnc
      exact ⟨u :: pre', v, post', by rw [hv]; rfl, hf, hp⟩
  | @comma u c us ts ho hc hacc ih =>
    intro pre w post hw hnc
    cases pre with
    | nil =>
      obtain ⟨v, post', hv, hf, hp⟩ := (Acc.comma ho hc hacc).prefix w post (by simpa using hw) hnc
      exact ⟨[], v, post', by simpa using hv, hf, hp⟩
    | cons p pre2 =>
      simp only [List.cons_append, List.cons.injEq] at hw
      obtain ⟨rfl, hts⟩ := hw
      exact ih pre2 w post hts hnc

end Pql.Reject
