/-
C03 semantics, helper 8: evaluating a chain of links as common table expressions.
-/
import PqlModel.Lemmas.JoinSemShape
namespace Pql.JoinSem
open Pql Sql CompileOracle Intended

/-- the `name AS (select)` of one link -/
def linkSel (src : Bytes) (s : SubA) : Option (Bytes × Select) := do pure (s.name, ← selOf src s)

/-- evaluate CTEs in order, each seeing the earlier ones (the loop of `evalStatement`) -/
def runCtes (db : DB) (ctes0 : List (Bytes × Table)) (sels : List (Bytes × Select)) : List (Bytes × Table) :=
  sels.foldl (fun acc (n, sel) => acc ++ [(n, evalSelect db acc sel)]) ctes0

theorem evalStatement_eq (db : DB) (sels : List (Bytes × Select)) (body : Select) :
    evalStatement db ⟨sels, body⟩ = evalSelect db (runCtes db [] sels) body := rfl

theorem runCtes_append (db : DB) (c : List (Bytes × Table)) (a b : List (Bytes × Select)) :
    runCtes db c (a ++ b) = runCtes db (runCtes db c a) b := by
  simp [runCtes, List.foldl_append]

theorem runCtes_snoc (db : DB) (c : List (Bytes × Table)) (a : List (Bytes × Select)) (n : Bytes) (sel : Select) :
    runCtes db c (a ++ [(n, sel)]) = runCtes db c a ++ [(n, evalSelect db (runCtes db c a) sel)] := by
  rw [runCtes_append]; rfl

theorem runCtes_names (db : DB) : ∀ (sels : List (Bytes × Select)) (c : List (Bytes × Table)),
    (runCtes db c sels).map (·.1) = c.map (·.1) ++ sels.map (·.1)
  | [], c => by simp [runCtes]
  | (n, sel) :: rest, c => by
    have := runCtes_names db rest (c ++ [(n, evalSelect db c sel)])
    simp only [runCtes, List.foldl_cons] at this ⊢
    rw [this]; simp

theorem runCtes_prefix (db : DB) : ∀ (sels : List (Bytes × Select)) (c : List (Bytes × Table)),
    ∃ more, runCtes db c sels = c ++ more
  | [], c => ⟨[], by simp [runCtes]⟩
  | (n, sel) :: rest, c => by
    obtain ⟨more, h⟩ := runCtes_prefix db rest (c ++ [(n, evalSelect db c sel)])
    refine ⟨(n, evalSelect db c sel) :: more, ?_⟩
    simp only [runCtes, List.foldl_cons] at h ⊢
    rw [h]; simp

theorem lookupTable_append_of_mem (db : DB) (c more : List (Bytes × Table)) (n : Bytes)
    (h : n ∈ c.map (·.1)) : lookupTable db (c ++ more) n = lookupTable db c n := by
  simp only [lookupTable, List.find?_append]
  cases hf : c.find? (·.1 == n) with
  | some t => rfl
  | none =>
    exfalso
    rw [List.find?_eq_none] at hf
    simp only [List.mem_map] at h
    obtain ⟨x, hx, rfl⟩ := h
    exact hf x hx (by simp)

theorem lookupTable_of_not_mem (db : DB) (c : List (Bytes × Table)) (n : Bytes)
    (h : n ∉ c.map (·.1)) : lookupTable db c n = lookupTable db [] n := by
  have : c.find? (·.1 == n) = none := by
    rw [List.find?_eq_none]
    intro x hx hxn
    apply h
    simp only [List.mem_map]
    exact ⟨x, hx, by simpa using hxn⟩
  simp only [lookupTable, this, List.find?_nil]

theorem lookupTable_snoc_self (db : DB) (c : List (Bytes × Table)) (n : Bytes) (t : Table)
    (h : n ∉ c.map (·.1)) : lookupTable db (c ++ [(n, t)]) n = t := by
  have : c.find? (·.1 == n) = none := by
    rw [List.find?_eq_none]
    intro x hx hxn
    apply h
    simp only [List.mem_map]
    exact ⟨x, hx, by simpa using hxn⟩
  simp [lookupTable, List.find?_append, this]

/-- `Rel.interp`'s lookup of the source table is `lookupTable` without CTEs -/
theorem interp_mk (src : Bytes) (db : DB) (T : Ident) (ops : OpList) :
    Rel.interp src db (.mk (some T) ops) = Rel.interpOps src db (lookupTable db [] T.name) ops := by
  simp only [Rel.interp, lookupTable, List.find?_nil]
  rfl

theorem mapM_linkSel_names (src : Bytes) : ∀ (subs : List SubA) (sels : List (Bytes × Select)),
    subs.mapM (linkSel src) = some sels → sels.map (·.1) = subs.map (·.name)
  | [], sels, h => by simp at h; subst h; rfl
  | s :: rest, sels, h => by
    simp only [List.mapM_cons, bind, Option.bind] at h
    cases h1 : linkSel src s with
    | none => simp [h1] at h
    | some x =>
      cases h2 : rest.mapM (linkSel src) with
      | none => simp [h1, h2] at h
      | some xs =>
        simp only [h1, h2, pure, Option.some.injEq] at h
        subst h
        have hx : x.1 = s.name := by
          simp only [linkSel, bind, Option.bind, pure] at h1
          cases hs : selOf src s with
          | none => simp [hs] at h1
          | some sel => simp only [hs, Option.some.injEq] at h1; rw [← h1]
        simp [hx, mapM_linkSel_names src rest xs h2]

theorem mapM_append_some {α β} (f : α → Option β) (xs ys : List α) (r : List β)
    (h : (xs ++ ys).mapM f = some r) :
    ∃ a b, xs.mapM f = some a ∧ ys.mapM f = some b ∧ r = a ++ b := by
  rw [List.mapM_append] at h
  simp only [bind, Option.bind] at h
  cases h1 : xs.mapM f with
  | none => simp [h1] at h
  | some a =>
    cases h2 : ys.mapM f with
    | none => simp [h1, h2] at h
    | some b =>
      simp only [h1, h2, pure, Option.some.injEq] at h
      exact ⟨a, b, rfl, rfl, h.symm⟩

theorem mapM_append_of_some {α β} (f : α → Option β) (xs ys : List α) (a b : List β)
    (h1 : xs.mapM f = some a) (h2 : ys.mapM f = some b) : (xs ++ ys).mapM f = some (a ++ b) := by
  rw [List.mapM_append]
  simp [h1, h2, bind, Option.bind]

theorem lastName_snoc (init : List SubA) (q : SubA) : lastName (init ++ [q]) = q.name := by
  simp [lastName]

/-- the statement of a chain evaluates to the table its last link is bound to when all links
    (the body too) are evaluated as CTEs — provided the last name is not also an earlier name -/
theorem evalStatement_chain (src : Bytes) (db : DB) (subs : List SubA) (st : Statement)
    (hst : stmtOf src subs = some st) (hnd : (subs.map (·.name)).Nodup) :
    ∃ all, subs.mapM (linkSel src) = some all ∧
      evalStatement db st = lookupTable db (runCtes db [] all) (lastName subs) := by
  simp only [stmtOf] at hst
  cases hrev : subs.reverse with
  | nil => simp [hrev] at hst
  | cons q ctesRev =>
    have hsubs : subs = ctesRev.reverse ++ [q] := by
      have := congrArg List.reverse hrev
      simpa using this
    simp only [hrev] at hst
    change ((ctesRev.reverse.mapM (linkSel src)).bind fun ctes =>
      (selOf src q).bind fun body => some (Statement.mk ctes body)) = some st at hst
    cases h1' : ctesRev.reverse.mapM (linkSel src) with
    | none => simp [h1'] at hst
    | some sels =>
      cases h2 : selOf src q with
      | none => simp [h1', h2] at hst
      | some body =>
        simp only [h1', h2, Option.bind, Option.some.injEq] at hst
        subst hst
        have hq : [q].mapM (linkSel src) = some [(q.name, body)] := by
          simp [linkSel, h2, bind, Option.bind]
        refine ⟨sels ++ [(q.name, body)], ?_, ?_⟩
        · rw [hsubs]; exact mapM_append_of_some _ _ _ _ _ h1' hq
        · rw [evalStatement_eq, runCtes_snoc, hsubs, lastName_snoc]
          rw [lookupTable_snoc_self]
          rw [runCtes_names, mapM_linkSel_names src _ _ h1']
          rw [hsubs] at hnd
          simp only [List.map_append, List.map_cons, List.map_nil] at hnd
          rw [List.nodup_append] at hnd
          simp only [List.map_nil, List.nil_append]
          intro hmem
          exact hnd.2.2 _ hmem _ (by simp) rfl

/-- **the expected result of task R3 for one join-free block**, placed behind the links `dst` whose
    evaluation is `ctes0`: binding the links of the block in order as CTEs, the block's last name is
    bound to the pipeline's meaning on the table the block reads. -/
def BlockSem (src : Bytes) (db : DB) (ctes0 : List (Bytes × Table)) (dst : List SubA) (T : Ident)
    (ops : OpList) : Prop :=
  ∀ (R : List SubA) (sels : List (Bytes × Select)),
    splitA dst (.mk (some T) ops) = some (dst ++ R) →
    R.mapM (linkSel src) = some sels →
    (R.map (·.name)).Nodup →
    (∀ n ∈ R.map (·.name), n ∉ ctes0.map (·.1)) →
    lookupTable db (runCtes db ctes0 sels) (lastName R) =
      Rel.interpOps src db (lookupTable db ctes0 T.name) ops

end Pql.JoinSem
