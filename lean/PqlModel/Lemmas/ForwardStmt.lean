/-
Stage 3 of property C07 (forward direction): `let` statements, one statement, and the statement
loop of `Parse` against `Grammar.splitStatementsToks`.
-/
import PqlModel.Lemmas.ForwardTab2
import PqlModel.Lemmas.ParseFuelBasic
namespace Pql
open Grammar

/-! ### `let` -/

theorem pLet_fwd (c : PCtx) (fuel : Nat) (kw : Span) (name : Option Ident) (asg : Span) (x : Expr)
    (ts : List Token) (hwf : wfStmt (.let_ kw name asg x) = true)
    (hr : RealBy unparseStmt (.let_ kw name asg x) ts) (hf : 4 * ts.length + 4 ≤ fuel) :
    pLet c fuel ts = ⟨some (.let_ kw name asg x), [], []⟩ := by
  obtain ⟨us, hu, ha, hn⟩ := hr
  simp only [unparseStmt, Option.bind_eq_bind, Option.pure_def, Option.bind_eq_some_iff,
    Option.some.injEq] at hu
  obtain ⟨n, rfl, xs, hx, rfl⟩ := hu
  obtain ⟨tkw, t2, rfl, htkw, h2⟩ := accounts_cons_inv rfl ha
  obtain ⟨tn, t3, rfl, htn, h3⟩ := accounts_cons_inv (by simp [identTok]) h2
  obtain ⟨ta, tx, rfl, hta, h4⟩ := accounts_cons_inv rfl h3
  obtain ⟨hkn, hks⟩ := tokOk_kwTok1_inv htkw
  have hid := tokOk_identTok_inv htn
  obtain ⟨hak, has⟩ := tokOk_sym_inv hta
  subst hks has
  simp only [wfStmt] at hwf
  simp only [List.length_cons] at hf
  have hrx : Real x tx := ⟨xs, hx, h4, nlc_tail (nlc_tail (nlc_tail hn))⟩
  have hE := pExpr_real c fuel [] hwf hrx rfl (by simp only [List.append_nil]; omega)
  simp only [List.append_nil] at hE
  simp [pLet, hkn, pIdent_real hid, hak, hE, mkOpaque]

/-! ### one statement -/

/-- the source table of a tabular statement is not the unquoted identifier `let`: the parser tries
    `let` statements first and does not backtrack once it has seen the keyword -/
def notLetSource : Stmt → Bool
  | .tabular (.mk (some s) _) => s.quoted || s.name != Bytes.ofString "let"
  | _ => true

/-- what the forward theorem assumes about a statement and its tokens -/
def StmtOK (st : Stmt) (g : List Token) : Prop :=
  wfStmt st = true ∧ canonStmt st = true ∧ notLetSource st = true ∧ RealBy unparseStmt st g

theorem fuelFor_ge' (n : Nat) : 4 * n + 4 ≤ fuelFor n := by
  unfold fuelFor; omega

theorem pStatement_fwd (c : PCtx) (st : Stmt) (g : List Token) (h : StmtOK st g) :
    pStatement c g = (some st, [], false) := by
  obtain ⟨hwf, hcan, hnl, hr⟩ := h
  cases st with
  | let_ kw name asg x =>
    have hL := pLet_fwd c (fuelFor g.length) kw name asg x g hwf hr (fuelFor_ge' _)
    simp [pStatement, hL, mkOpaque, endSplit]
  | tabular t =>
    simp only [wfStmt] at hwf
    simp only [canonStmt] at hcan
    have hrt : RealBy unparseTabular t g := hr
    obtain ⟨hT, -⟩ := (tabFwd_all c (fuelFor g.length)).tab t g hwf hcan hrt
      (by have := fuelFor_ge' g.length; omega)
    -- `pLet` reports "not found": the first token is not the keyword `let`
    obtain ⟨us, hu, ha, hn⟩ := hr
    cases t with
    | nil => simp [wfTabular] at hwf
    | mk src ops =>
      simp only [unparseStmt, unparseTabular, Option.bind_eq_bind, Option.pure_def, Option.bind_eq_some_iff,
        Option.some.injEq] at hu
      obtain ⟨s, rfl, os, hos, rfl⟩ := hu
      obtain ⟨tsrc, tos, rfl, hsrc, h2⟩ := accounts_cons_inv (by simp [identTok]) ha
      have hid := tokOk_identTok_inv hsrc
      have hnot : isIdentNamed tsrc "let" = false := by
        simp only [notLetSource, Bool.or_eq_true, bne_iff_ne, ne_eq] at hnl
        have h2 := hid.2
        subst h2
        simp only [decide_eq_true_eq] at hnl
        rcases hnl with hq | hne
        · simp [isIdentNamed, hq]
        · simp [isIdentNamed, hne]
      simp only [List.length_cons] at hT
      simp [pStatement, pLet, hnot, hT, mkOpaque, endSplit]

/-! ### the statement loop -/

theorem pStatements_fwd (c : PCtx) : ∀ (n : Nat) (acc : List Stmt) (ts : List Token) (stmts : List Stmt),
    Forall₂ StmtOK stmts (splitStatementsToks ts) → ts.length + 1 ≤ n →
    pStatements c n acc [] ts = (acc ++ stmts, []) := by
  intro n
  induction n with
  | zero => intro acc ts stmts _ hn; omega
  | succ n ih =>
    intro acc ts stmts h hn
    rw [splitStatementsToks_eq] at h
    have hlen := splitSemi_length ts
    unfold pStatements
    dsimp only
    by_cases h1 : (splitSemi ts).1 = []
    · -- empty statement
      rw [if_pos h1] at h
      rw [h1, pStatement_nil]
      simp only [List.nil_append] at h
      dsimp only
      cases h2 : (splitSemi ts).2 with
      | nil =>
        rw [h2] at h
        simp only [if_true] at h
        cases h
        simp
      | cons semi rest =>
        rw [h2] at h
        simp only [reduceCtorEq, if_false, List.tail_cons] at h
        rw [h2] at hlen
        simp only [List.length_cons] at hlen
        have := ih acc rest stmts h (by omega)
        simpa using this
    · rw [if_neg h1] at h
      cases h with
      | cons hs hrest =>
        rename_i st stmts'
        rw [pStatement_fwd c st _ hs]
        dsimp only
        cases h2 : (splitSemi ts).2 with
        | nil =>
          rw [h2] at hrest
          simp only [if_true] at hrest
          cases hrest
          simp
        | cons semi rest =>
          rw [h2] at hrest
          simp only [reduceCtorEq, if_false, List.tail_cons] at hrest
          rw [h2] at hlen
          simp only [List.length_cons] at hlen
          have := ih (acc ++ [st]) rest stmts' hrest (by omega)
          simpa using this

theorem parseTokens_fwd (srcLen : Nat) (ts : List Token) (stmts : List Stmt)
    (h : Forall₂ StmtOK stmts (splitStatementsToks ts)) : parseTokens srcLen ts = (stmts, []) := by
  unfold parseTokens
  have := pStatements_fwd ⟨srcLen⟩ (ts.length + 1) [] ts stmts h (Nat.le_refl _)
  simpa using this

end Pql
