/-
LexRender, part 7: combinators for building adjacency proofs of writer outputs.

`Good cs`: the chunk list is adjacent before every text that starts like a separator (white
space, `)`, `]`, `[`, `,`, `;`) or is empty — the invariant of every expression the writer emits.
Fixed texts are classified by decidable checks (`txtInert`: ends in an atom nothing can change;
`txtSepOK`: may be followed by a separator; `sepTxt`: starts like a separator).
-/
import PqlModel.Lemmas.LexRenderChunks
namespace Pql.LexRender
open Pql Sql

def sepBytes : List UInt8 := [32, 10, 41, 93, 91, 44, 59]

def sepHead : Option UInt8 → Bool
  | none => true
  | some d => sepBytes.contains d

def Good (cs : List Chunk) : Prop := ∀ rest : Bytes, sepHead rest.head? = true → AdjC rest cs = true

def txtAtoms (s : String) : List Atom := atomize (Bytes.ofString s)

def txtOK (s : String) : Bool := chunkOK (.txt s) && AdjBefore [] (txtAtoms s)

/-- no following byte changes the reading of the atom -/
def Atom.inert : Atom → Bool
  | .sp _ => true
  | .sym2 _ _ => true
  | .cmt _ => true
  | .sym1 c => !(c == 45) && !(c == 47) && !(twoCharSyms.any (fun o => o.1 == c))
  | _ => false

def lastInert (as : List Atom) : Bool :=
  match as.getLast? with
  | some a => a.inert
  | none => true

def txtInert (s : String) : Bool := txtOK s && lastInert (txtAtoms s)

def txtSepOK (s : String) : Bool :=
  txtOK s && sepBytes.all (fun d => lastFollows (txtAtoms s) (some d))

def sepTxt (s : String) : Bool :=
  match (Bytes.ofString s).head? with
  | some d => sepBytes.contains d
  | none => false

theorem inert_bad {a : Atom} (h : a.inert = true) (d : UInt8) : a.bad d = false := by
  cases a with
  | sym1 c =>
    simp only [Atom.inert, Bool.and_eq_true, Bool.not_eq_true'] at h
    obtain ⟨⟨h1, h2⟩, h3⟩ := h
    have h4 : twoCharSyms.find? (fun o => o.1 == c && o.2.1 == d) = none := by
      rw [List.find?_eq_none]
      intro o ho hc
      simp only [Bool.and_eq_true] at hc
      have : twoCharSyms.any (fun o => o.1 == c) = true := List.any_eq_true.mpr ⟨o, ho, hc.1⟩
      rw [h3] at this; cases this
    simp [Atom.bad, sym1Bad, h1, h2, h4]
  | sp c => rfl
  | sym2 c d => rfl
  | cmt b => rfl
  | _ => simp [Atom.inert] at h

theorem lastInert_follows {as : List Atom} (h : lastInert as = true) (o : Option UInt8) :
    lastFollows as o = true := by
  unfold lastInert at h
  unfold lastFollows
  cases hl : as.getLast? with
  | none => rfl
  | some a =>
    rw [hl] at h
    cases o with
    | none => rfl
    | some d => simp [follows, inert_bad h d]

theorem sep_lastFollows {as : List Atom} {o : Option UInt8}
    (h : sepBytes.all (fun d => lastFollows as (some d)) = true) (ho : sepHead o = true) :
    lastFollows as o = true := by
  cases o with
  | none => unfold lastFollows; cases as.getLast? <;> rfl
  | some d =>
    have hd : d ∈ sepBytes := by simpa [sepHead] using ho
    exact List.all_eq_true.mp h d hd

theorem AdjC_single_txt {s : String} {rest : Bytes} (hok : txtOK s = true)
    (hl : lastFollows (txtAtoms s) rest.head? = true) : AdjC rest [.txt s] = true := by
  simp only [txtOK, Bool.and_eq_true] at hok
  have := AdjBefore_of_nil hok.2 hl
  simp only [AdjC, List.all_cons, List.all_nil, hok.1, Bool.and_true, Bool.true_and, atomsOf,
    List.flatMap_cons, List.flatMap_nil, List.append_nil, chunkAtoms]
  exact this

/-- a text ending in an inert atom may be followed by anything adjacent -/
theorem adj_txt_inert {s : String} {rest : Bytes} {cs : List Chunk} (hs : txtInert s = true)
    (h : AdjC rest cs = true) : AdjC rest (.txt s :: cs) = true := by
  simp only [txtInert, Bool.and_eq_true] at hs
  exact AdjC_cons (AdjC_single_txt hs.1 (lastInert_follows hs.2 _)) h

/-- a text that tolerates separators, before a separator -/
theorem adj_txt_sep {s : String} {rest : Bytes} (hs : txtSepOK s = true) (hr : sepHead rest.head? = true) :
    AdjC rest [.txt s] = true := by
  simp only [txtSepOK, Bool.and_eq_true] at hs
  exact AdjC_single_txt hs.1 (sep_lastFollows hs.2 hr)

theorem good_txt_sep {s : String} (hs : txtSepOK s = true) : Good [.txt s] :=
  fun _ hr => adj_txt_sep hs hr

theorem head_txt_cons {s : String} (cs : List Chunk) (rest : Bytes) (hs : sepTxt s = true) :
    sepHead (renderChunks (.txt s :: cs) ++ rest).head? = true := by
  unfold sepTxt at hs
  rw [renderChunks_cons, Chunk.bytes]
  cases hb : Bytes.ofString s with
  | nil => rw [hb] at hs; simp at hs
  | cons d r => rw [hb] at hs; simpa [sepHead] using hs

/-- a good list, then a text that starts like a separator -/
theorem good_app_txt {xs : List Chunk} {s : String} {tail : List Chunk} {rest : Bytes}
    (hx : Good xs) (hs : sepTxt s = true) (h : AdjC rest (.txt s :: tail) = true) :
    AdjC rest (xs ++ .txt s :: tail) = true :=
  AdjC_append (hx _ (head_txt_cons tail rest hs)) h

/-- a good list at the end -/
theorem good_app_end {xs : List Chunk} {rest : Bytes} (hx : Good xs) (hr : sepHead rest.head? = true) :
    AdjC rest xs = true := hx rest hr

/-! ### single data chunks -/

theorem sepHead_elim {o : Option UInt8} (h : sepHead o = true) :
    ∀ d, o = some d → d ∈ sepBytes := by
  intro d hd; subst hd; simpa [sepHead] using h

theorem AdjC_single_atom {rest : Bytes} {c : Chunk} {a : Atom} (hc : chunkAtoms c = [a]) (hok : chunkOK c = true)
    (hwf : a.wf = true) (hf : follows a rest.head? = true) : AdjC rest [c] = true := by
  simp [AdjC, hok, atomsOf, hc, AdjBefore, hwf, hf, renderAtoms]

theorem sep_not_bad {o : Option UInt8} {a : Atom} (ho : sepHead o = true)
    (h : sepBytes.all (fun d => !a.bad d) = true) : follows a o = true := by
  cases o with
  | none => rfl
  | some d =>
    have := List.all_eq_true.mp h d (sepHead_elim ho d rfl)
    simpa [follows] using this

theorem good_num {v : Bytes} (hv : numOK v = true) : Good [.num v] := fun rest hr =>
  AdjC_single_atom (a := .num v) rfl rfl hv (sep_not_bad hr (by simp only [Atom.bad]; decide))

theorem good_qstr (v : Bytes) : Good [.qstr v] := fun rest hr =>
  AdjC_single_atom (a := .str v) rfl rfl rfl (sep_not_bad hr (by simp only [Atom.bad]; decide))

theorem adj_qid (n : Bytes) {rest : Bytes} (hr : rest.head? ≠ some 34) : AdjC rest [.qid n] = true := by
  refine AdjC_single_atom (a := .qid n) rfl rfl rfl ?_
  cases h : rest.head? with
  | none => rfl
  | some d =>
    have : d ≠ 34 := by intro e; apply hr; rw [h, e]
    simp [follows, Atom.bad, this]

theorem good_qid (n : Bytes) : Good [.qid n] := fun rest hr =>
  AdjC_single_atom (a := .qid n) rfl rfl rfl (sep_not_bad hr (by simp only [Atom.bad]; decide))

theorem adj_fname {v : Bytes} {rest : Bytes} (hv : nameOK v = true)
    (hr : ∀ d, rest.head? = some d → isWordCont d = false) : AdjC rest [.fname v] = true := by
  refine AdjC_single_atom (a := .word v) rfl rfl (nameOK_wordOK hv) ?_
  cases h : rest.head? with
  | none => rfl
  | some d => simp [follows, Atom.bad, hr d h]

end Pql.LexRender
