/-
ParseRoundtrip, stage (d): calls — the built-in rewrites (`not`, `isnull`, `isnotnull`, `iff`/`iif`,
`strcat`, `tolower`, `toupper`, `now`, `count`, `countif`) and pass-through calls.
-/
import PqlModel.Lemmas.SqlRoundtripCases
namespace Pql.RT
open Pql Sql CompileOracle

/-! ### the writer's table and dispatch, evaluated -/

theorem kf_count : knownFunction (Bytes.ofString "count") = some ("writeCountFunction", false) := by decide
theorem kf_countif : knownFunction (Bytes.ofString "countif") = some ("writeCountIfFunction", false) := by decide
theorem kf_iff : knownFunction (Bytes.ofString "iff") = some ("writeIfFunction", true) := by decide
theorem kf_iif : knownFunction (Bytes.ofString "iif") = some ("writeIfFunction", true) := by decide
theorem kf_isnotnull : knownFunction (Bytes.ofString "isnotnull") = some ("writeIsNotNullFunction", true) := by decide
theorem kf_isnull : knownFunction (Bytes.ofString "isnull") = some ("writeIsNullFunction", true) := by decide
theorem kf_not : knownFunction (Bytes.ofString "not") = some ("writeNotFunction", true) := by decide
theorem kf_now : knownFunction (Bytes.ofString "now") = some ("writeNowFunction", false) := by decide
theorem kf_strcat : knownFunction (Bytes.ofString "strcat") = some ("writeStrcatFunction", true) := by decide
theorem kf_tolower : knownFunction (Bytes.ofString "tolower") = some ("writeToLowerFunction", true) := by decide
theorem kf_toupper : knownFunction (Bytes.ofString "toupper") = some ("writeToUpperFunction", true) := by decide

abbrev Arg := Expr × List Chunk

theorem ak_not (a : Arg) (l : List Arg) :
    assembleKnown "writeNotFunction" (a :: l) = .ok (.txt "NOT " :: wrapMaybe a.1 a.2) := rfl
theorem ak_not_nil : assembleKnown "writeNotFunction" [] = .error .panic := rfl
theorem ak_now (l : List Arg) : assembleKnown "writeNowFunction" l = .ok [.txt "CURRENT_TIMESTAMP"] := rfl
theorem ak_isnull (a : Arg) (l : List Arg) :
    assembleKnown "writeIsNullFunction" (a :: l) = .ok (wrapMaybe a.1 a.2 ++ [.txt " IS NULL"]) := rfl
theorem ak_isnull_nil : assembleKnown "writeIsNullFunction" [] = .error .panic := rfl
theorem ak_isnotnull (a : Arg) (l : List Arg) :
    assembleKnown "writeIsNotNullFunction" (a :: l) = .ok (wrapMaybe a.1 a.2 ++ [.txt " IS NOT NULL"]) := rfl
theorem ak_isnotnull_nil : assembleKnown "writeIsNotNullFunction" [] = .error .panic := rfl
theorem ak_strcat (a : Arg) (l : List Arg) :
    assembleKnown "writeStrcatFunction" (a :: l) =
      .ok (sepChunks " || " ((a :: l).map fun a => wrapMaybe a.1 a.2)) := rfl
theorem ak_strcat_nil : assembleKnown "writeStrcatFunction" [] = .error .panic := rfl
theorem ak_count (l : List Arg) : assembleKnown "writeCountFunction" l = .ok [.txt "count()"] := rfl
theorem ak_countif (a : Arg) (l : List Arg) :
    assembleKnown "writeCountIfFunction" (a :: l) = .ok (.txt "count() FILTER (WHERE " :: a.2 ++ [.txt ")"]) := rfl
theorem ak_countif_nil : assembleKnown "writeCountIfFunction" [] = .error .panic := rfl
theorem ak_if (a b c : Arg) (l : List Arg) :
    assembleKnown "writeIfFunction" (a :: b :: c :: l) =
      .ok (.txt "CASE WHEN coalesce(" :: a.2 ++ .txt ", FALSE) THEN " :: b.2 ++ .txt " ELSE " :: c.2 ++ [.txt " END"]) :=
  rfl
theorem ak_tolower (a : Arg) (l : List Arg) :
    assembleKnown "writeToLowerFunction" (a :: l) = .ok (.txt "LOWER(" :: a.2 ++ [.txt ")"]) := rfl
theorem ak_tolower_nil : assembleKnown "writeToLowerFunction" [] = .error .panic := rfl
theorem ak_toupper (a : Arg) (l : List Arg) :
    assembleKnown "writeToUpperFunction" (a :: l) = .ok (.txt "UPPER(" :: a.2 ++ [.txt ")"]) := rfl
theorem ak_toupper_nil : assembleKnown "writeToUpperFunction" [] = .error .panic := rfl

/-! ### the intended translation's dispatch, evaluated -/

section
variable (j : Bool) (fn : Ident) (a b : Span) (args : ExprList)

theorem tr_not (hn : fn.name = Bytes.ofString "not") : tr j (.call fn a args b) =
    (trList j args).bind fun as => match as.toList with | [x] => some (.not_ x) | _ => none := by
  simp only [tr]; rw [hn]; rfl
theorem tr_isnull (hn : fn.name = Bytes.ofString "isnull") : tr j (.call fn a args b) =
    (trList j args).bind fun as => match as.toList with | [x] => some (.isNull x false) | _ => none := by
  simp only [tr]; rw [hn]; rfl
theorem tr_isnotnull (hn : fn.name = Bytes.ofString "isnotnull") : tr j (.call fn a args b) =
    (trList j args).bind fun as => match as.toList with | [x] => some (.isNull x true) | _ => none := by
  simp only [tr]; rw [hn]; rfl
theorem tr_iff (hn : fn.name = Bytes.ofString "iff") : tr j (.call fn a args b) =
    (trList j args).bind fun as =>
      match as.toList with | [c, t, e] => some (.case_ (coalesceFalse c) t e) | _ => none := by
  simp only [tr]; rw [hn]; rfl
theorem tr_iif (hn : fn.name = Bytes.ofString "iif") : tr j (.call fn a args b) =
    (trList j args).bind fun as =>
      match as.toList with | [c, t, e] => some (.case_ (coalesceFalse c) t e) | _ => none := by
  simp only [tr]; rw [hn]; rfl
theorem tr_strcat (hn : fn.name = Bytes.ofString "strcat") : tr j (.call fn a args b) =
    (trList j args).bind fun as =>
      match as.toList with
      | x :: rest => some (rest.foldl (fun acc y => .bin "||" acc y) x)
      | [] => none := by
  simp only [tr]; rw [hn]; rfl
theorem tr_tolower (hn : fn.name = Bytes.ofString "tolower") : tr j (.call fn a args b) =
    (trList j args).bind fun as => match as.toList with | [x] => some (fnCall "lower" [x]) | _ => none := by
  simp only [tr]; rw [hn]; rfl
theorem tr_toupper (hn : fn.name = Bytes.ofString "toupper") : tr j (.call fn a args b) =
    (trList j args).bind fun as => match as.toList with | [x] => some (fnCall "upper" [x]) | _ => none := by
  simp only [tr]; rw [hn]; rfl
theorem tr_now (hn : fn.name = Bytes.ofString "now") : tr j (.call fn a args b) =
    (trList j args).bind fun as =>
      match as.toList with | [] => some (.const "CURRENT_TIMESTAMP") | _ => none := by
  simp only [tr]; rw [hn]; rfl
theorem tr_count (hn : fn.name = Bytes.ofString "count") : tr j (.call fn a args b) =
    (trList j args).bind fun as => match as.toList with | [] => some (fnCall "count" []) | _ => none := by
  simp only [tr]; rw [hn]; rfl
theorem tr_countif (hn : fn.name = Bytes.ofString "countif") : tr j (.call fn a args b) =
    (trList j args).bind fun as =>
      match as.toList with | [x] => some (.call (Bytes.ofString "count") false .nil x) | _ => none := by
  simp only [tr]; rw [hn]; rfl

end

/-! ### common prelude of the built-ins -/

@[simp] theorem toList_ofL (l : List SExpr) : (ofL l).toList = l := by
  induction l with
  | nil => rfl
  | cons x xs ih => simp [ofL, SExprList.toList] at ih ⊢; exact ih

theorem needsWrap_call {fn : Ident} {a b : Span} {args : ExprList} {writer : String} {np : Bool}
    (hk : knownFunction fn.name = some (writer, np)) : needsWrap (.call fn a args b) = np := by
  simp only [needsWrap, hk]
  cases np <;> rfl

theorem isSigned_call (fn : Ident) (a b : Span) (args : ExprList) : isSigned (.call fn a args b) = false := rfl

theorem known_prelude {ctx : Ctx} {fn : Ident} {a b : Span} {args : ExprList} {writer : String} {np : Bool}
    {cs : List Chunk} {want : SExpr} {F : SExprList → Option SExpr}
    (hk : knownFunction fn.name = some (writer, np)) (gargs : ∀ e ∈ args.toList, Good ctx e)
    (h1 : writeExpr ctx (.call fn a args b) = .ok cs)
    (h2 : (trList (ctx.mode == .join) args).bind F = some want) :
    ∃ ps as ws, ArgRel ctx args as ws ps ∧ assembleKnown writer (ps.map fun p => (p.1, p.2.1)) = .ok cs ∧
      F (ofL (ps.map (·.2.2))) = some want := by
  simp only [writeExpr, hk] at h1
  split at h1
  · cases h1
  · obtain ⟨as, has, h1⟩ := bind_ok h1
    cases hws : trList (ctx.mode == .join) args with
    | none => rw [hws] at h2; cases h2
    | some ws =>
      rw [hws] at h2
      obtain ⟨ps, hps⟩ := writeList_rel args as ws has hws gargs
      refine ⟨ps, as, ws, hps, ?_, ?_⟩
      · rw [← zip_rel hps]; exact h1
      · rw [← hps.trs]; exact h2

/-! ### the built-ins -/

section
variable {ctx : Ctx} {fn : Ident} (a b : Span) {args : ExprList} (gargs : ∀ e ∈ args.toList, Good ctx e)
include gargs

theorem good_not (hn : fn.name = Bytes.ofString "not") : Good ctx (.call fn a args b) := by
  have hk := hn ▸ kf_not
  apply Good.ofExpr (needsWrap_call hk)
  intro cs want h1 h2
  rw [tr_not _ _ _ _ _ hn] at h2
  obtain ⟨ps, as, ws, hrel, hak, htr⟩ := known_prelude hk gargs h1 h2
  match ps, hrel, hak, htr with
  | [], _, hak, _ => cases hak
  | [p], hrel, hak, htr =>
    simp only [List.map_cons, List.map_nil, ak_not, Except.ok.injEq, toList_ofL, Option.some.injEq] at hak htr
    subst hak htr
    simpa using notP (hrel.good p (by simp)).2
  | p :: q :: r, _, _, htr => simp at htr

theorem good_isnull (hn : fn.name = Bytes.ofString "isnull") : Good ctx (.call fn a args b) := by
  have hk := hn ▸ kf_isnull
  apply Good.ofExpr (needsWrap_call hk)
  intro cs want h1 h2
  rw [tr_isnull _ _ _ _ _ hn] at h2
  obtain ⟨ps, as, ws, hrel, hak, htr⟩ := known_prelude hk gargs h1 h2
  match ps, hrel, hak, htr with
  | [], _, hak, _ => cases hak
  | [p], hrel, hak, htr =>
    simp only [List.map_cons, List.map_nil, ak_isnull, Except.ok.injEq, toList_ofL, Option.some.injEq] at hak htr
    subst hak htr
    simpa using isnullP (hrel.good p (by simp)).2
  | p :: q :: r, _, _, htr => simp at htr

theorem good_isnotnull (hn : fn.name = Bytes.ofString "isnotnull") : Good ctx (.call fn a args b) := by
  have hk := hn ▸ kf_isnotnull
  apply Good.ofExpr (needsWrap_call hk)
  intro cs want h1 h2
  rw [tr_isnotnull _ _ _ _ _ hn] at h2
  obtain ⟨ps, as, ws, hrel, hak, htr⟩ := known_prelude hk gargs h1 h2
  match ps, hrel, hak, htr with
  | [], _, hak, _ => cases hak
  | [p], hrel, hak, htr =>
    simp only [List.map_cons, List.map_nil, ak_isnotnull, Except.ok.injEq, toList_ofL, Option.some.injEq] at hak htr
    subst hak htr
    simpa using isnotnullP (hrel.good p (by simp)).2
  | p :: q :: r, _, _, htr => simp at htr

theorem good_tolower (hn : fn.name = Bytes.ofString "tolower") : Good ctx (.call fn a args b) := by
  have hk := hn ▸ kf_tolower
  apply Good.ofExpr (needsWrap_call hk)
  intro cs want h1 h2
  rw [tr_tolower _ _ _ _ _ hn] at h2
  obtain ⟨ps, as, ws, hrel, hak, htr⟩ := known_prelude hk gargs h1 h2
  match ps, hrel, hak, htr with
  | [], _, hak, _ => cases hak
  | [p], hrel, hak, htr =>
    simp only [List.map_cons, List.map_nil, ak_tolower, Except.ok.injEq, toList_ofL, Option.some.injEq] at hak htr
    subst hak htr
    have key := (call1P ws_LOWER (hrel.good p (by simp)).1).toExpr
    -- `LOWER` and `lower` are the same function name up to `normS`
    intro rest hr
    obtain ⟨s, hs, hp⟩ := key rest hr
    refine ⟨s, ?_, by simpa using hp⟩
    rw [hs]; simp only [normS, fnCall, List.foldr]; congr 1
  | p :: q :: r, _, _, htr => simp at htr

theorem good_toupper (hn : fn.name = Bytes.ofString "toupper") : Good ctx (.call fn a args b) := by
  have hk := hn ▸ kf_toupper
  apply Good.ofExpr (needsWrap_call hk)
  intro cs want h1 h2
  rw [tr_toupper _ _ _ _ _ hn] at h2
  obtain ⟨ps, as, ws, hrel, hak, htr⟩ := known_prelude hk gargs h1 h2
  match ps, hrel, hak, htr with
  | [], _, hak, _ => cases hak
  | [p], hrel, hak, htr =>
    simp only [List.map_cons, List.map_nil, ak_toupper, Except.ok.injEq, toList_ofL, Option.some.injEq] at hak htr
    subst hak htr
    have key := (call1P ws_UPPER (hrel.good p (by simp)).1).toExpr
    intro rest hr
    obtain ⟨s, hs, hp⟩ := key rest hr
    refine ⟨s, ?_, by simpa using hp⟩
    rw [hs]; simp only [normS, fnCall, List.foldr]; congr 1
  | p :: q :: r, _, _, htr => simp at htr

theorem good_now (hn : fn.name = Bytes.ofString "now") : Good ctx (.call fn a args b) := by
  have hk := hn ▸ kf_now
  apply Good.ofAtom
  intro cs want h1 h2
  rw [tr_now _ _ _ _ _ hn] at h2
  obtain ⟨ps, as, ws, hrel, hak, htr⟩ := known_prelude hk gargs h1 h2
  match ps, hrel, hak, htr with
  | [], hrel, hak, htr =>
    simp only [List.map_nil, ak_now, Except.ok.injEq, toList_ofL, Option.some.injEq] at hak htr
    subst hak htr
    simpa using nowP
  | p :: r, _, _, htr => simp at htr

theorem good_count (hn : fn.name = Bytes.ofString "count") : Good ctx (.call fn a args b) := by
  have hk := hn ▸ kf_count
  apply Good.ofAtom
  intro cs want h1 h2
  rw [tr_count _ _ _ _ _ hn] at h2
  obtain ⟨ps, as, ws, hrel, hak, htr⟩ := known_prelude hk gargs h1 h2
  match ps, hrel, hak, htr with
  | [], hrel, hak, htr =>
    simp only [List.map_nil, ak_count, Except.ok.injEq, toList_ofL, Option.some.injEq] at hak htr
    subst hak htr
    simpa [fnCall] using call0P ws_count
  | p :: r, _, _, htr => simp at htr

theorem good_countif (hn : fn.name = Bytes.ofString "countif") : Good ctx (.call fn a args b) := by
  have hk := hn ▸ kf_countif
  apply Good.ofAtom
  intro cs want h1 h2
  rw [tr_countif _ _ _ _ _ hn] at h2
  obtain ⟨ps, as, ws, hrel, hak, htr⟩ := known_prelude hk gargs h1 h2
  match ps, hrel, hak, htr with
  | [], _, hak, _ => cases hak
  | [p], hrel, hak, htr =>
    simp only [List.map_cons, List.map_nil, ak_countif, Except.ok.injEq, toList_ofL, Option.some.injEq] at hak htr
    subst hak htr
    simpa using countifP (hrel.good p (by simp)).1
  | p :: q :: r, _, _, htr => simp at htr

theorem good_if {writerName : String} (hn : fn.name = Bytes.ofString writerName)
    (hk : knownFunction (Bytes.ofString writerName) = some ("writeIfFunction", true))
    (htr : ∀ j, tr j (.call fn a args b) = (trList j args).bind fun as =>
      match as.toList with | [c, t, e] => some (.case_ (coalesceFalse c) t e) | _ => none) :
    Good ctx (.call fn a args b) := by
  have hk := hn ▸ hk
  apply Good.ofExpr (needsWrap_call hk)
  intro cs want h1 h2
  rw [htr] at h2
  obtain ⟨ps, as, ws, hrel, hak, htr⟩ := known_prelude hk gargs h1 h2
  match ps, hrel, hak, htr with
  | [], _, hak, _ => cases hak
  | [p], _, hak, _ => cases hak
  | [p, q], _, hak, _ => cases hak
  | [p, q, r], hrel, hak, htr =>
    simp only [List.map_cons, List.map_nil, ak_if, Except.ok.injEq, toList_ofL, Option.some.injEq] at hak htr
    subst hak htr
    have := (caseP (hrel.good p (by simp)).1 (hrel.good q (by simp)).1 (hrel.good r (by simp)).1).toExpr
    simpa using this
  | p :: q :: r :: s :: t, _, _, htr => simp at htr

theorem good_iff (hn : fn.name = Bytes.ofString "iff") : Good ctx (.call fn a args b) :=
  good_if a b gargs hn kf_iff (fun j => tr_iff j fn a b args hn)

theorem good_iif (hn : fn.name = Bytes.ofString "iif") : Good ctx (.call fn a args b) :=
  good_if a b gargs hn kf_iif (fun j => tr_iif j fn a b args hn)

theorem good_strcat (hn : fn.name = Bytes.ofString "strcat") : Good ctx (.call fn a args b) := by
  have hk := hn ▸ kf_strcat
  apply Good.ofExpr (needsWrap_call hk)
  intro cs want h1 h2
  rw [tr_strcat _ _ _ _ _ hn] at h2
  obtain ⟨ps, as, ws, hrel, hak, htr⟩ := known_prelude hk gargs h1 h2
  match ps, hrel, hak, htr with
  | [], _, hak, _ => cases hak
  | p :: r, hrel, hak, htr =>
    simp only [List.map_cons, ak_strcat, Except.ok.injEq, toList_ofL, Option.some.injEq] at hak htr
    subst hak htr
    have key := strcatP (toksOf (wrapMaybe p.1 p.2.1), p.2.2) (wrapPairs r) (hrel.good p (by simp)).2
      (by
        intro q hq
        simp only [wrapPairs, List.mem_map] at hq
        obtain ⟨q', hq', rfl⟩ := hq
        exact (hrel.good q' (by simp [hq'])).2)
    rw [toksOf_sepChunks]
    have e1 := sepTail_wrap " || " (S "||") tt_concat r
    simp only [List.map_map, Function.comp_def] at e1 ⊢
    rw [e1]
    have e2 : (wrapPairs r).foldl (fun acc b => SExpr.bin "||" acc b.2) p.2.2 =
        (r.map (·.2.2)).foldl (fun acc y => SExpr.bin "||" acc y) p.2.2 := by
      simp [wrapPairs, List.foldl_map]
    rw [← e2]
    exact key

end

/-! ### pass-through calls -/

def lowerByte (c : UInt8) : UInt8 := if 65 ≤ c.toNat && c.toNat ≤ 90 then c + 32 else c

theorem lowerByte_idem (c : UInt8) : lowerByte (lowerByte c) = lowerByte c := by
  unfold lowerByte
  by_cases h : 65 ≤ c.toNat ∧ c.toNat ≤ 90
  · have hc : (decide (65 ≤ c.toNat) && decide (c.toNat ≤ 90)) = true := by simp [h]
    rw [if_pos hc]
    have h2 : (c + 32).toNat = c.toNat + 32 := by
      rw [UInt8.toNat_add]; simp; omega
    have h3 : ¬ (decide (65 ≤ (c + 32).toNat) && decide ((c + 32).toNat ≤ 90)) = true := by
      simp only [Bool.and_eq_true, decide_eq_true_eq, h2]; omega
    rw [if_neg h3]
  · have hc : ¬ (decide (65 ≤ c.toNat) && decide (c.toNat ≤ 90)) = true := by
      simpa only [Bool.and_eq_true, decide_eq_true_eq] using h
    rw [if_neg hc, if_neg hc]

theorem lower_idem (v : Bytes) : lower (lower v) = lower v := by
  show (v.map lowerByte).map lowerByte = v.map lowerByte
  rw [List.map_map]
  apply List.map_congr_left
  intro c _
  exact lowerByte_idem c

theorem AtomP.congr {ts : List STok} {w w' : SExpr} (h : AtomP ts w) (he : normS w = normS w') : AtomP ts w' :=
  fun rest hr => by
    obtain ⟨s, hs, hp⟩ := h rest hr
    exact ⟨s, hs.trans he, hp⟩

theorem good_passthrough {ctx : Ctx} {fn : Ident} (a b : Span) {args : ExprList}
    (gargs : ∀ e ∈ args.toList, Good ctx e) (hnone : knownFunction fn.name = none)
    (hsafe : wordSafe fn.name = true)
    (htr : ∀ j, tr j (.call fn a args b) =
      (trList j args).bind fun as => some (.call (lower fn.name) false as .none_)) :
    Good ctx (.call fn a args b) := by
  apply Good.ofAtom
  intro cs want h1 h2
  rw [htr] at h2
  simp only [writeExpr, hnone] at h1
  obtain ⟨as, has, h1⟩ := bind_ok h1
  cases hws : trList (ctx.mode == .join) args with
  | none => rw [hws] at h2; cases h2
  | some ws =>
    rw [hws] at h2
    obtain ⟨ps, hps⟩ := writeList_rel args as ws has hws gargs
    simp only [pure, Except.pure, Except.ok.injEq, Option.bind_some, Option.some.injEq] at h1 h2
    subst h1 h2
    rw [hps.chunks, hps.trs]
    match ps, hps with
    | [], _ =>
      have := call0P hsafe
      refine AtomP.congr (by simpa [sepChunks] using this) ?_
      simp [normS, normL, ofL, lower_idem]
    | p :: r, hps =>
      have key := callNP hsafe (toksOf p.2.1, p.2.2) (plainPairs r) (hps.good p (by simp)).1
        (by
          intro q hq
          simp only [plainPairs, List.mem_map] at hq
          obtain ⟨q', hq', rfl⟩ := hq
          exact (hps.good q' (by simp [hq'])).1)
      have e1 := sepTail_plain ", " (S ",") tt_comma r
      refine AtomP.congr (w := .call fn.name false (ofL (p.2.2 :: (plainPairs r).map (·.2))) .none_) ?_ ?_
      · simp only [List.map_cons, toksOf_cons, chunkToks_fname, chunkToks_txt, tt_lparen, toksOf_append,
          toksOf_sepChunks, e1, tt_rparen, toksOf_nil, List.append_nil]
        simpa using key
      · simp [normS, lower_idem, plainPairs, Function.comp_def]

/-! ### all calls -/

theorem isName_false {n : Bytes} {s : String} (h : n ≠ Bytes.ofString s) : isName n s = false := by
  simpa [isName] using h

theorem beq_false' {n : Bytes} {s : String} (h : n ≠ Bytes.ofString s) : (Bytes.ofString s == n) = false := by
  simpa using fun e => h e.symm

theorem good_call {ctx : Ctx} (fn : Ident) (a b : Span) {args : ExprList}
    (gargs : ∀ e ∈ args.toList, Good ctx e)
    (hsafe : ((knownFunction fn.name).isSome || wordSafe fn.name) = true) : Good ctx (.call fn a args b) := by
  by_cases h1 : fn.name = Bytes.ofString "count"; · exact good_count a b gargs h1
  by_cases h2 : fn.name = Bytes.ofString "countif"; · exact good_countif a b gargs h2
  by_cases h3 : fn.name = Bytes.ofString "iff"; · exact good_iff a b gargs h3
  by_cases h4 : fn.name = Bytes.ofString "iif"; · exact good_iif a b gargs h4
  by_cases h5 : fn.name = Bytes.ofString "isnotnull"; · exact good_isnotnull a b gargs h5
  by_cases h6 : fn.name = Bytes.ofString "isnull"; · exact good_isnull a b gargs h6
  by_cases h7 : fn.name = Bytes.ofString "not"; · exact good_not a b gargs h7
  by_cases h8 : fn.name = Bytes.ofString "now"; · exact good_now a b gargs h8
  by_cases h9 : fn.name = Bytes.ofString "strcat"; · exact good_strcat a b gargs h9
  by_cases h10 : fn.name = Bytes.ofString "tolower"; · exact good_tolower a b gargs h10
  by_cases h11 : fn.name = Bytes.ofString "toupper"; · exact good_toupper a b gargs h11
  have hnone : knownFunction fn.name = none := by
    simp [knownFunction, Facts.knownFunctions, List.find?, beq_false' h1, beq_false' h2, beq_false' h3,
      beq_false' h4, beq_false' h5, beq_false' h6, beq_false' h7, beq_false' h8, beq_false' h9, beq_false' h10,
      beq_false' h11]
  refine good_passthrough a b gargs hnone (by simpa [hnone] using hsafe) ?_
  intro j
  simp only [tr, isName_false h1, isName_false h2, isName_false h3, isName_false h4, isName_false h5,
    isName_false h6, isName_false h7, isName_false h8, isName_false h9, isName_false h10, isName_false h11,
    Bool.false_eq_true, if_false, Bool.or_self]
  rfl

end Pql.RT
