import PqlModel.Spec.Rel
namespace Pql.JoinSem
open Pql Sql CompileOracle

def lowerByte (c : UInt8) : UInt8 := if 65 ≤ c.toNat && c.toNat ≤ 90 then c + 32 else c

theorem lowerByte_idem (c : UInt8) : lowerByte (lowerByte c) = lowerByte c := by
  unfold lowerByte
  by_cases h : (65 ≤ c.toNat && c.toNat ≤ 90) = true
  · simp only [h, ↓reduceIte]
    have h' : 65 ≤ c.toNat ∧ c.toNat ≤ 90 := by simpa using h
    have : (c + 32).toNat = c.toNat + 32 := by
      rw [UInt8.toNat_add]; simp; omega
    rw [this]
    have : ¬ ((65 ≤ c.toNat + 32 && c.toNat + 32 ≤ 90) = true) := by simp; omega
    rw [if_neg this]
  · simp only [h, Bool.false_eq_true, ↓reduceIte]

theorem lower_eq_lowerB (b : Bytes) : CompileOracle.lower b = lowerB b := rfl

theorem lowerB_idem (b : Bytes) : lowerB (lowerB b) = lowerB b := by
  show List.map lowerByte (List.map lowerByte b) = List.map lowerByte b
  rw [List.map_map]
  apply List.map_congr_left
  intro c _
  exact lowerByte_idem c

theorem isAggName_lower (fn : Bytes) : isAggName (CompileOracle.lower fn) = isAggName fn := by
  simp only [isAggName, lower_eq_lowerB, lowerB_idem]

theorem isAggName_lowerB (fn : Bytes) : isAggName (lowerB fn) = isAggName fn := by
  simp only [isAggName, lowerB_idem]

mutual
/-- no `!=` operator (the only operator `normS` rewrites) -/
def noBang : SExpr → Bool
  | .call _ _ args fl => noBangL args && noBang fl
  | .case_ a b c => noBang a && noBang b && noBang c
  | .neg x | .pos x | .not_ x | .isNull x _ => noBang x
  | .bin op x y => op != "!=" && noBang x && noBang y
  | .index x y => noBang x && noBang y
  | .inList x vs => noBang x && noBangL vs
  | _ => true
def noBangL : SExprList → Bool
  | .nil => true
  | .cons e es => noBang e && noBangL es
end

theorem normS_eq_none (s : SExpr) : (match normS s with | .none_ => true | _ => false) = (match s with | .none_ => true | _ => false) := by
  cases s <;> simp [normS]

mutual
theorem evalS_normS : (s : SExpr) → noBang s = true → ∀ g env, evalS g env (normS s) = evalS g env s
  | .col _, _, _, _ => by simp [normS]
  | .str _, _, _, _ => by simp [normS]
  | .num _, _, _, _ => by simp [normS]
  | .param _, _, _, _ => by simp [normS]
  | .const _, _, _, _ => by simp [normS]
  | .none_, _, _, _ => by simp [normS]
  | .case_ a b c, h, g, env => by
    simp only [noBang, Bool.and_eq_true] at h
    simp only [normS, evalS, evalS_normS a h.1.1, evalS_normS b h.1.2, evalS_normS c h.2]
  | .neg x, h, g, env => by
    simp only [noBang] at h
    simp only [normS, evalS, evalS_normS x h]
  | .pos x, h, g, env => by
    simp only [noBang] at h
    simp only [normS, evalS, evalS_normS x h]
  | .not_ x, h, g, env => by
    simp only [noBang] at h
    simp only [normS, evalS, evalS_normS x h]
  | .isNull x n, h, g, env => by
    simp only [noBang] at h
    simp only [normS, evalS, evalS_normS x h]
  | .index x y, h, g, env => by
    simp only [noBang, Bool.and_eq_true] at h
    simp only [normS, evalS, evalS_normS x h.1, evalS_normS y h.2]
  | .inList x vs, h, g, env => by
    simp only [noBang, Bool.and_eq_true] at h
    simp only [normS, evalS, evalS_normS x h.1, evalArgs_normL vs h.2]
  | .bin op x y, h, g, env => by
    simp only [noBang, Bool.and_eq_true, bne_iff_ne, ne_eq] at h
    have hop : (op == "!=") = false := by simp [h.1.1]
    simp only [normS, evalS, evalS_normS x h.1.2, evalS_normS y h.2, hop, Bool.false_eq_true, ↓reduceIte]
  | .call fn st args fl, h, g, env => by
    simp only [noBang, Bool.and_eq_true] at h
    have hfl : ∀ g env, evalS g env (normS fl) = evalS g env fl := evalS_normS fl h.2
    have hargs : ∀ g env, evalArgs g env (normL args) = evalArgs g env args := evalArgs_normL args h.1
    simp only [normS]
    by_cases hnone : fl = .none_
    · subst hnone
      simp only [normS, evalS, isAggName_lowerB, lower_eq_lowerB, lowerB_idem, hargs]
      cases args with
      | nil => simp only [normL]
      | cons a rest =>
        cases rest with
        | nil =>
          have ha : ∀ g env, evalS g env (normS a) = evalS g env a := by
            intro g env; have := hargs g env; simpa [normL, evalArgs] using this
          simp only [normL, ha]
        | cons b rest => simp only [normL]
    · have hnone' : normS fl = .none_ → False := by
        intro hc; apply hnone; cases fl <;> simp [normS] at hc ⊢
      rw [evalS.eq_7 _ _ _ _ _ _ hnone', evalS.eq_7 _ _ _ _ _ _ hnone]
      simp only [isAggName_lowerB, lower_eq_lowerB, lowerB_idem, hargs, hfl]
      cases args with
      | nil => simp only [normL]
      | cons a rest =>
        cases rest with
        | nil =>
          have ha : ∀ g env, evalS g env (normS a) = evalS g env a := by
            intro g env; have := hargs g env; simpa [normL, evalArgs] using this
          simp only [normL, ha]
        | cons b rest => simp only [normL]
theorem evalArgs_normL : (l : SExprList) → noBangL l = true → ∀ g env, evalArgs g env (normL l) = evalArgs g env l
  | .nil, _, _, _ => by simp [normL]
  | .cons e es, h, g, env => by
    simp only [noBangL, Bool.and_eq_true] at h
    simp only [normL, evalArgs, evalS_normS e h.1, evalArgs_normL es h.2]
end

end Pql.JoinSem
