/-
`scan` produces well-formed token lists (`TokOK`): non-empty tokens in source order, and only
identifiers, quoted identifiers, numbers and strings carry a value.
-/
import PqlModel.Lemmas.AccountedBasic
import PqlModel.Lemmas.LexSplit
namespace Pql

/-- the token of a scan step has a value only if its kind carries text -/
def Step.ValOK (st : Step) : Prop :=
  ∀ k v, st.tok = some (k, v) → k = .ident ∨ k = .qident ∨ k = .number ∨ k = .string ∨ v = []

def Lexeme.ValOK (l : Lexeme) : Prop :=
  l.kind = .ident ∨ l.kind = .qident ∨ l.kind = .number ∨ l.kind = .string ∨ l.value = []

theorem Step.valOK_ofLexeme {l : Lexeme} (h : l.ValOK) : (Step.ofLexeme l).ValOK := by
  intro k v hk
  simp only [Step.ofLexeme, Option.some.injEq, Prod.mk.injEq] at hk
  obtain ⟨rfl, rfl⟩ := hk
  exact h

theorem Step.valOK_sym (k : TokKind) (w : Nat) : (Step.sym k w).ValOK := by
  intro k' v hk
  simp only [Step.sym, Option.some.injEq, Prod.mk.injEq] at hk
  exact Or.inr (Or.inr (Or.inr (Or.inr hk.2.symm)))

theorem Step.valOK_skip (w : Nat) : (Step.skip w).ValOK := by
  intro k v hk; simp [Step.skip] at hk

theorem scanIdent_valOK (s : Bytes) : (scanIdent s).ValOK := by
  unfold scanIdent Lexeme.ValOK
  dsimp only
  split
  · simp
  · simp

theorem scanQuotedIdent_valOK (s : Bytes) : (scanQuotedIdent s).ValOK := by
  unfold scanQuotedIdent Lexeme.ValOK
  split <;> simp

theorem scanString_valOK (s : Bytes) : (scanString s).ValOK := by
  unfold scanString Lexeme.ValOK
  split
  · simp
  · split <;> simp

theorem scanNumberOrDot_valOK (s : Bytes) : (scanNumberOrDot s).ValOK := by
  unfold scanNumberOrDot Lexeme.ValOK
  simp only [finishNumber]
  repeat' split
  all_goals simp

theorem scanPunct_valOK (c : UInt8) (rest : Bytes) : (scanPunct c rest).ValOK := by
  unfold scanPunct
  dsimp only
  repeat' split
  all_goals first | exact Step.valOK_sym _ _ | exact Step.valOK_skip _

theorem scanNonAscii_valOK (s : Bytes) : (scanNonAscii s).ValOK := by
  unfold scanNonAscii
  dsimp only
  split
  · exact Step.valOK_skip _
  · exact Step.valOK_sym _ _

theorem scanOne_valOK (s : Bytes) : (scanOne s).ValOK := by
  unfold scanOne
  split
  · exact Step.valOK_skip _
  · repeat' split
    · exact scanNonAscii_valOK _
    · exact Step.valOK_skip _
    · exact Step.valOK_ofLexeme (scanIdent_valOK _)
    · exact Step.valOK_ofLexeme (scanNumberOrDot_valOK _)
    · exact Step.valOK_ofLexeme (scanString_valOK _)
    · exact Step.valOK_ofLexeme (scanQuotedIdent_valOK _)
    · exact scanPunct_valOK _ _

theorem semiInv_pairwise (src : Bytes) : ∀ (ts : List Token) (lo : Nat), SemiInv src lo ts →
    (∀ t ∈ ts, lo ≤ t.start) ∧ ts.Pairwise (fun a b => a.stop ≤ b.start)
  | [], _, _ => ⟨by simp, List.Pairwise.nil⟩
  | t :: ts, lo, h => by
    obtain ⟨h1, h2, -, h4⟩ := h
    obtain ⟨ih1, ih2⟩ := semiInv_pairwise src ts t.stop h4
    refine ⟨?_, List.Pairwise.cons ih1 ih2⟩
    intro x hx
    rcases List.mem_cons.mp hx with rfl | hx
    · exact h1
    · have := ih1 x hx; omega

/-- **the scanner's tokens are well-formed** -/
theorem scan_tokOK (src : Bytes) : TokOK (scan src) := by
  refine ⟨?_, (semiInv_pairwise src _ 0 (scan_semiInv src)).2⟩
  intro t ht
  refine ⟨by have := mem_scan_bounds src t ht; omega, ?_⟩
  intro h1 h2 h3 h4
  obtain ⟨n, -, -, -, htok, -⟩ := reaches_of_mem src 0 t ht
  rcases scanOne_valOK _ _ _ htok with h | h | h | h | h
  · exact absurd h h1
  · exact absurd h h2
  · exact absurd h h3
  · exact absurd h h4
  · exact h

end Pql
