/-
LexRender, part 2: byte-class facts and the behaviour of one lexer step (`lexStep`) on each
kind of token, with an abstract following text.
-/
import PqlModel.Lemmas.LexRenderStep
import PqlModel.Props.C04
namespace Pql.LexRender
open Pql Sql

/-- a Boolean property of bytes checked on all 256 values -/
theorem forall_uint8 (P : UInt8 → Bool)
    (h : (List.range 256).all (fun n => P (UInt8.ofNat n)) = true) (c : UInt8) : P c = true := by
  have := List.all_eq_true.mp h c.toNat (by simp [List.mem_range]; exact c.toNat_lt)
  simpa using this

/-- the byte starts none of the branches of `lexStep` before the word branch -/
def preWord (c : UInt8) : Bool :=
  !isSpaceB c && !(c == 45) && !(c == 47) && !(c == 39) && !(c == 34)

/-- the byte reaches the symbol branch of `lexStep` unless it opens a comment -/
def symByte (c : UInt8) : Bool :=
  !isSpaceB c && !(c == 39) && !(c == 34) && !isWordStart c && !isDigitB c && !(c == 36) &&
    !(c == 63) && !(c == 123)

set_option maxRecDepth 8000 in
theorem wordStart_pre (c : UInt8) : (!isWordStart c || preWord c) = true :=
  forall_uint8 (fun c => !isWordStart c || preWord c) (by decide) c

set_option maxRecDepth 8000 in
theorem digit_pre (c : UInt8) : (!isDigitB c || (preWord c && !isWordStart c)) = true :=
  forall_uint8 (fun c => !isDigitB c || (preWord c && !isWordStart c)) (by decide) c

set_option maxRecDepth 8000 in
theorem sym1_pre (c : UInt8) : (!(oneCharSyms.find? (fun o => o.1 == c)).isSome || symByte c) = true :=
  forall_uint8 (fun c => !(oneCharSyms.find? (fun o => o.1 == c)).isSome || symByte c) (by decide) c

set_option maxRecDepth 8000 in
theorem sym2_pre (c : UInt8) :
    (!(twoCharSyms.any (fun o => o.1 == c)) || (symByte c && !(c == 45) && !(c == 47))) = true :=
  forall_uint8 (fun c => !(twoCharSyms.any (fun o => o.1 == c)) || (symByte c && !(c == 45) && !(c == 47)))
    (by decide) c

theorem preWord_elim {c : UInt8} (h : preWord c = true) :
    isSpaceB c = false ∧ (c == 45) = false ∧ (c == 47) = false ∧ (c == 39) = false ∧ (c == 34) = false := by
  simp only [preWord, Bool.and_eq_true, Bool.not_eq_true'] at h
  exact ⟨h.1.1.1.1, h.1.1.1.2, h.1.1.2, h.1.2, h.2⟩

theorem symByte_elim {c : UInt8} (h : symByte c = true) :
    isSpaceB c = false ∧ (c == 39) = false ∧ (c == 34) = false ∧ isWordStart c = false ∧
      isDigitB c = false ∧ (c == 36) = false ∧ (c == 63) = false ∧ (c == 123) = false := by
  simp only [symByte, Bool.and_eq_true, Bool.not_eq_true'] at h
  exact ⟨h.1.1.1.1.1.1.1, h.1.1.1.1.1.1.2, h.1.1.1.1.1.2, h.1.1.1.1.2, h.1.1.1.2, h.1.1.2, h.1.2, h.2⟩

/-! ### scanning helpers with an abstract following text -/

theorem spanWhile_append_stop (p : UInt8 → Bool) (w rest : Bytes) (hw : ∀ b ∈ w, p b = true)
    (hr : ∀ c, rest.head? = some c → p c = false) : spanWhile p (w ++ rest) = (w, rest) := by
  induction w with
  | nil =>
    cases rest with
    | nil => rfl
    | cons c r => simp [spanWhile, hr c rfl]
  | cons b w ih =>
    have hb := hw b (by simp)
    have := ih (fun x hx => hw x (by simp [hx]))
    simp [spanWhile, hb, this]

theorem skipBlock_append (a rest : Bytes) (h : skipBlockComment a = some []) :
    skipBlockComment (a ++ rest) = some rest := by
  induction a using skipBlockComment.induct with
  | case1 => simp [skipBlockComment] at h
  | case2 x => simp [skipBlockComment] at h
  | case3 a b r hc =>
    rw [skipBlockComment, if_pos hc] at h
    simp only [Option.some.injEq] at h
    subst h
    simp [skipBlockComment, hc]
  | case4 a b r hc ih =>
    rw [skipBlockComment, if_neg hc] at h
    have := ih h
    simp only [List.cons_append] at this ⊢
    rw [skipBlockComment, if_neg hc]; exact this

/-! ### one lexer step per kind of token -/

theorem lexStep_space (mode : QuoteMode) (c : UInt8) (rest : Bytes) (h : isSpaceB c = true) :
    lexStep mode c rest = some ([], rest) := by
  rw [lexStep, if_pos h]

theorem lexStep_word (mode : QuoteMode) (c : UInt8) (w rest : Bytes) (hc : isWordStart c = true)
    (hw : ∀ b ∈ w, isWordCont b = true) (hr : ∀ d, rest.head? = some d → isWordCont d = false) :
    lexStep mode c (w ++ rest) = some ([STok.word (c :: w)], rest) := by
  have hp := wordStart_pre c
  simp only [hc, Bool.not_true, Bool.false_or] at hp
  obtain ⟨h1, h2, h3, h4, h5⟩ := preWord_elim hp
  rw [lexStep]
  simp only [h1, h2, h3, h4, h5, hc, Bool.false_and, Bool.false_eq_true, if_false, if_true,
    spanWhile_append_stop isWordCont w rest hw hr]

theorem lexStep_qid (n rest : Bytes) (hr : rest.head? ≠ some 34) :
    lexStep .standard 34 (C04.dbl 34 n ++ 34 :: rest) = some ([STok.qid n], rest) := by
  have hq := C04.lexQuoted_dbl .standard 34 n rest hr (by intro h; cases h)
  have h1 : isSpaceB 34 = false := by decide
  have h2 : ((34 : UInt8) == 45) = false := by decide
  have h3 : ((34 : UInt8) == 47) = false := by decide
  have h4 : ((34 : UInt8) == 39) = false := by decide
  rw [lexStep]
  simp only [h1, h2, h3, h4, hq, Bool.false_and, Bool.false_eq_true, if_false, if_true, beq_self_eq_true]

theorem lexStep_str (v rest : Bytes) (hr : rest.head? ≠ some 39) :
    lexStep .standard 39 (C04.dbl 39 v ++ 39 :: rest) = some ([STok.str v], rest) := by
  have hq := C04.lexQuoted_dbl .standard 39 v rest hr (by intro h; cases h)
  have h1 : isSpaceB 39 = false := by decide
  have h2 : ((39 : UInt8) == 45) = false := by decide
  have h3 : ((39 : UInt8) == 47) = false := by decide
  rw [lexStep]
  simp only [h1, h2, h3, hq, Bool.false_and, Bool.false_eq_true, if_false, if_true, beq_self_eq_true]

theorem lexStep_cmt (mode : QuoteMode) (body rest : Bytes)
    (hb : skipBlockComment (body ++ [42, 47]) = some []) :
    lexStep mode 47 (42 :: (body ++ [42, 47]) ++ rest) = some ([STok.comment], rest) := by
  have h1 : isSpaceB 47 = false := by decide
  have h2 : ((47 : UInt8) == 45) = false := by decide
  have hs := skipBlock_append _ rest hb
  rw [lexStep]
  simp only [h1, h2, Bool.false_and, Bool.false_eq_true, if_false, List.cons_append, List.head?_cons,
    beq_self_eq_true, Bool.and_self, if_true, List.tail_cons, hs]

/-- what must not follow a one-character symbol: the second half of a comment opener or of a
    two-character symbol -/
def sym1Bad (c d : UInt8) : Bool :=
  (c == 45 && d == 45) || (c == 47 && d == 42) ||
    (twoCharSyms.find? (fun o => o.1 == c && o.2.1 == d)).isSome

theorem lexStep_sym1 (mode : QuoteMode) (c : UInt8) (o : UInt8 × String) (rest : Bytes)
    (hk : oneCharSyms.find? (fun o => o.1 == c) = some o)
    (hbad : ∀ d, rest.head? = some d → sym1Bad c d = false) :
    lexStep mode c rest = some ([STok.sym o.2], rest) := by
  have hp := sym1_pre c
  simp only [hk, Option.isSome_some, Bool.not_true, Bool.false_or] at hp
  obtain ⟨h1, h2, h3, h4, h5, h6, h7, h8⟩ := symByte_elim hp
  rw [lexStep]
  cases rest with
  | nil =>
    simp only [h1, h2, h3, h4, h5, h6, h7, h8, List.head?_nil, Bool.false_eq_true, if_false,
      Option.bind_none, hk]
    simp
  | cons d r =>
    have hb := hbad d rfl
    simp only [sym1Bad, Bool.or_eq_false_iff] at hb
    obtain ⟨⟨hb1, hb2⟩, hb3⟩ := hb
    have hb3' : twoCharSyms.find? (fun o => o.1 == c && o.2.1 == d) = none := by
      cases hf : twoCharSyms.find? (fun o => o.1 == c && o.2.1 == d) with
      | none => rfl
      | some x => rw [hf] at hb3; simp at hb3
    have e1 : (c == 45 && some d == some 45) = false := by
      rw [← hb1]; simp
    have e2 : (c == 47 && some d == some 42) = false := by
      rw [← hb2]; simp
    simp only [h1, h2, h3, h4, h5, h6, h7, h8, e1, e2, Bool.false_eq_true, if_false,
      List.head?_cons, Option.bind_some, hb3', hk]

/-- the first byte of a two-character symbol -/
theorem lexStep_sym2 (mode : QuoteMode) (c d : UInt8) (o : UInt8 × UInt8 × String) (rest : Bytes)
    (hk : twoCharSyms.find? (fun o => o.1 == c && o.2.1 == d) = some o) :
    lexStep mode c (d :: rest) = some ([STok.sym o.2.2], rest) := by
  have hany : twoCharSyms.any (fun o => o.1 == c) = true := by
    have hm := List.mem_of_find?_eq_some hk
    have hp := List.find?_some hk
    simp only [Bool.and_eq_true] at hp
    exact List.any_eq_true.mpr ⟨o, hm, hp.1⟩
  have hp := sym2_pre c
  simp only [hany, Bool.not_true, Bool.false_or, Bool.and_eq_true, Bool.not_eq_true'] at hp
  obtain ⟨⟨hs, h45⟩, h47⟩ := hp
  obtain ⟨h1, h2, h3, h4, h5, h6, h7, h8⟩ := symByte_elim hs
  rw [lexStep]
  simp only [h1, h2, h3, h4, h5, h6, h7, h8, h45, h47, Bool.false_and, Bool.false_eq_true, if_false,
    List.head?_cons, Option.bind_some, hk, List.tail_cons]

end Pql.LexRender
