#!/usr/bin/env python3
"""tools/integrate.py <agent-id> <prop[,prop…]> <PropsModule> <namespace> <thm,thm,…>
Copies the agent's NEW Lemmas/Props files into /verif/lean, adds the theorems to Audit/<prop>.lean,
the module to checkconf.py lean_targets of each prop, and regenerates PqlModel.lean."""
import sys, os, shutil, re, filecmp
agent, props, module, ns, thms = sys.argv[1:6]
props = props.split(','); thms = [t for t in thms.split(',') if t]
src = f'/tmp/agents/{agent}/lean/PqlModel'; dst = '/verif/lean/PqlModel'
for sub in ('Lemmas', 'Props'):
    for f in sorted(os.listdir(f'{src}/{sub}')):
        a, b = f'{src}/{sub}/{f}', f'{dst}/{sub}/{f}'
        if not os.path.exists(b):
            shutil.copy(a, b); print('new', sub, f)
        elif not filecmp.cmp(a, b, shallow=False):
            print('DIFFERS (not copied):', sub, f)
for p in props:
    au = f'{dst}/Audit/{p}.lean'
    s = open(au).read()
    imp = f'import PqlModel.Props.{module}\n'
    if imp not in s:
        lines = s.split('\n'); i = max(k for k, l in enumerate(lines) if l.startswith('import '))
        lines.insert(i + 1, imp.strip()); s = '\n'.join(lines)
    if p == props[0]:
        for t in thms:
            line = f'#print axioms {ns}.{t}'
            if line not in s: s = s.rstrip('\n') + '\n' + line + '\n'
    open(au, 'w').write(s)
    cc = open('/verif/checkconf.py').read()
    m = re.search(r'("%s": \{.*?"lean_targets": \[)([^\]]*)\]' % p, cc, re.S)
    tgt = f'"PqlModel.Props.{module}"'
    if tgt not in m.group(2):
        cc = cc[:m.end(2)] + ', ' + tgt + cc[m.end(2):]
        open('/verif/checkconf.py', 'w').write(cc)
mods = []
for r, d, f in os.walk(dst):
    for x in f:
        if x.endswith('.lean') and '/Audit' not in r:
            mods.append((r + '/' + x)[len('/verif/lean/'):-5].replace('/', '.'))
open('/verif/lean/PqlModel.lean', 'w').write(''.join(f'import {m}\n' for m in sorted(mods)))
print('ok')
