#!/bin/bash
# usage: tools/take_mutant.sh <ID> <prop> [<other prop> …]
# For a seeded change delivered by a sub-agent in /tmp/wt/<ID> (+ /tmp/wt/<ID>.diff, /tmp/wt/<ID>.md): confirm it in its
# scratch worktree (suite green with the change; demo fails with it and passes without it), store it under seeded/<ID>/
# (patch.diff, mutdemo/, meta.json skeleton) and run the quick checks of the named properties against a scratch tree.
set -u
id="$1"; shift
cd /verif
conf=$(tools/confirm_mutant.sh "$id" /tmp/wt/"$id" /tmp/wt/"$id".diff 2>&1)
echo "$conf"
mkdir -p seeded/"$id"/mutdemo
cp /tmp/wt/"$id".diff seeded/"$id"/patch.diff
cp /tmp/wt/"$id"/mutdemo/*.go seeded/"$id"/mutdemo/ 2>/dev/null
[ -f seeded/"$id"/meta.json ] || python3 - "$id" "$1" <<'PY'
import json,sys
id,prop=sys.argv[1:3]
json.dump({"breaks_property":prop,
 "origin":"independent sub-agent (ninth round: given only the property text, the list of mechanisms already collected, a suggested hunting ground, and a scratch worktree)",
 "needs_to_manifest":open(f"/tmp/wt/{id}.md").read(),
 "confirmed_by_me":"tools/confirm_mutant.sh in the scratch worktree: existing suite passes with the change; go test ./mutdemo/ FAILS with the change and passes without it",
 "checks_that_catch_it":[], "caught_when":"", "how_it_is_noticed":"",
 "run":f"tools/try_mutant.sh seeded/{id}/patch.diff {prop}"}, open(f"/verif/seeded/{id}/meta.json","w"), indent=1)
PY
MUT_REPO=${MUT_REPO:-/tmp/dbg/repo} tools/try_mutant.sh seeded/"$id"/patch.diff "$@"
