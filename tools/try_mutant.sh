#!/bin/bash
# usage: tools/try_mutant.sh <patch.diff> <prop> [<prop> …]
# applies the patch to /repo, runs the quick checks, and always restores /repo afterwards
set -u
patch="$1"; shift
cd /verif
export VERIF_EVIDENCE_DIR=/verif/build/evidence-mutant   # never overwrite the committed evidence with a mutant run
if ! git -C /repo diff --quiet; then echo "/repo is dirty, refusing"; exit 2; fi
trap 'git -C /repo checkout -- . ; git -C /verif checkout -- lean/PqlModel/Generated/Facts.lean ; git -C /repo clean -fdq -- mutdemo 2>/dev/null' EXIT
git -C /repo apply "$(realpath "$patch")" || { echo "patch does not apply"; exit 2; }
for p in "$@"; do
  out=$(./check "$p" 2>&1)
  echo "$out" | grep -E "^VIOLATION|^KNOWN-FINDING|: (ok|FAIL) in" | sed "s/^/[$p] /" | cut -c1-300
done
