#!/bin/bash
# usage: tools/try_mutant.sh <patch.diff> <prop> [<prop> …]
# applies the patch to /repo (or to the scratch worktree named by MUT_REPO, which the checks then build from via
# VERIF_REPO - used while sub-agents are reading /repo), runs the quick checks, and always restores the tree afterwards
set -u
R="${MUT_REPO:-/repo}"
[ "$R" != /repo ] && export VERIF_REPO="$R"
patch="$1"; shift
cd /verif
export VERIF_EVIDENCE_DIR=/verif/build/evidence-mutant   # never overwrite the committed evidence with a mutant run
if ! git -C "$R" diff --quiet; then echo "$R is dirty, refusing"; exit 2; fi
trap 'git -C "$R" checkout -- . ; git -C /verif checkout -- lean/PqlModel/Generated/Facts.lean ; git -C "$R" clean -fdq -- mutdemo 2>/dev/null' EXIT
git -C "$R" apply "$(realpath "$patch")" || { echo "patch does not apply"; exit 2; }
for p in "$@"; do
  out=$(./check "$p" 2>&1)
  echo "$out" | grep -E "^VIOLATION|^KNOWN-FINDING|: (ok|FAIL) in" | sed "s/^/[$p] /" | cut -c1-300
done
