#!/bin/bash
# usage: tools/try_harmless.sh <patch.diff> <prop> [<prop> …]
# For a change that is believed to PRESERVE every property: apply it to the scratch tree MUT_REPO (default
# /tmp/dbg/repo), run the quick checks with the committed facts kept (VERIF_KEEP_FACTS=1: no Lean rebuild, only the
# correspondence and the oracles react) and report.  Acceptable outcomes: ok, or VIOLATION … no-failing-input-found
# (the model no longer matches).  A VIOLATION with a concrete replay would be a false alarm of an oracle - or the
# change is not harmless after all: look at the replay.
set -u
patch="$1"; shift
R="${MUT_REPO:-/tmp/dbg/repo}"
cd /verif
export VERIF_REPO="$R" VERIF_KEEP_FACTS=1 VERIF_EVIDENCE_DIR=/verif/build/evidence-mutant
if ! git -C "$R" diff --quiet; then echo "$R is dirty, refusing"; exit 2; fi
trap 'git -C "$R" checkout -- .' EXIT
git -C "$R" apply "$(realpath "$patch")" || { echo "patch does not apply"; exit 2; }
for p in "$@"; do
  out=$(./check "$p" 2>&1)
  line=$(echo "$out" | grep -E "^VIOLATION|: (ok|FAIL) in" | tr '\n' ' ' | cut -c1-260)
  case "$line" in
    *VIOLATION*no-failing-input-found*) echo "[$p] model-differs-only :: $line" ;;
    *VIOLATION*) echo "[$p] CONCRETE-REPLAY :: $line" ;;
    *) echo "[$p] quiet :: $line" ;;
  esac
done
