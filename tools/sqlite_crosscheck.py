#!/usr/bin/env python3
"""
Cross-validation of the reference SQL evaluator (lean/PqlModel/Spec/Sql/{Lex,Parse,Eval}.lean)
against an independent engine: SQLite (Python's built-in sqlite3 module; needs SQLite >= 3.30
for NULLS FIRST/LAST and FILTER).

  tools/sqlite_crosscheck.py --tier quick|thorough [--seed N] [--dbs K] [--typed N] [--jobs J]
                             [--strict] [--cases FILE] [--sql 'SELECT ...' --db-seed N] [-v]

Statements compared (all SQL text is what the REAL compiler printed, except the third set):
  1. the harness's `eval` case set (`build/harness cases eval <tier>` prints
     `EVAL srchex seed | OK sqlhex`);
  2. N well-typed PQL programs from the generator in this file (PqlGen), compiled by the real
     compiler through `build/harness replay` (4 000 quick / 40 000 thorough);
  3. EXTRA_SQL: 40 hand-written statements inside the reference reader's grammar, for evaluator
     rules the compiler's output never reaches (CASE on UNKNOWN, aggregates in ORDER BY, ...).
Each statement runs on K databases (`Rel.mkDB (seed + 1000*i)`, i < K — the ones the C02/C03
oracle uses; K = 4 quick, 8 thorough).  The Lean driver's `SQLDUMP` op prints the database, the
statement as the reference reader parsed it, every SELECT's table and the table
`Sql.evalStatement` returns.  This script loads the same database into an in-memory SQLite
(columns a b c k INTEGER, s TEXT; rows inserted in list order), runs the compiler's SQL text
there UNCHANGED, and compares.

Compared: column names in order (two SQLite renamings of derived-table columns undone: `x:1`
for a duplicate `x`, `columnN` for a column named true/false); rows as ordered lists when the
outermost SELECT has an ORDER BY whose keys order the rows totally (decided by the driver with
the reference's own key evaluation), as multisets otherwise; booleans as 0/1 on both sides.

  determinate      standard SQL fixes the result (as a multiset, or as a list under a total
                   outer ORDER BY).  Disagreement => exit 1.
  order-dependent  some LIMIT cuts rows whose order no total ORDER BY of the same SELECT fixes
                   (unordered input / ties at the cut / order inherited from a derived table):
                   standard SQL allows several results.  Compared and reported (how often
                   SQLite's choice equals the reference's input-order convention, DESIGN §5),
                   never a failure.
  known deviation  a disagreement that disappears when SQLite is given the reference's reading of
                   one construct (X1-DIV: `/` `%` as Int.ediv / Int.emod; X1-COUNT: count(x)
                   counting all rows).  Printed as KNOWN-FINDING; fails only with --strict.
  excluded         the statement leaves the fragment on which both engines implement standard
                   SQL (EXCLUSIONS below: skipped, counted by reason).

Exit status 0 iff no determinate statement disagrees (beyond the known deviations).  Writes
build/sqlite_crosscheck.json.  Python standard library only; needs the built driver and harness.
"""
import argparse
import collections
import concurrent.futures
import json
import os
import re
import sqlite3
import subprocess
import sys
import time

ROOT = os.path.dirname(os.path.dirname(os.path.abspath(__file__)))
DRIVER = os.environ.get("SQLITE_CROSSCHECK_DRIVER") or os.path.join(ROOT, "lean", ".lake", "build", "bin", "driver")
HARNESS = os.path.join(ROOT, "build", "harness")
OUT = os.path.join(ROOT, "build", "sqlite_crosscheck.json")

EXCLUSIONS = {
    "unreadable": "the reference reader (Sql.lex .standard / parseStatement) does not read the text",
    "not-utf8": "SQL text is not UTF-8 (Python's sqlite3 takes str)",
    "uninterpreted-function": "a function other than count/sum/min/max/coalesce/lower/upper: the reference "
                              "evaluates it to a symbolic term, SQLite does not have it",
    "uninterpreted-aggregate-shape": "sum/min/max with other than one argument: a term in the reference; "
                                     "min/max with 2+ arguments are SQLite's scalar functions",
    "uninterpreted-numeral": "a numeral that is not a decimal integer (float, hex, exponent): a term in the reference",
    "uninterpreted-subscript": "x[i]: a term in the reference, no such syntax in SQLite",
    "uninterpreted-constant": "CURRENT_TIMESTAMP or a parameter placeholder: a term in the reference",
    "integer-beyond-64-bits": "an integer literal >= 2^63: unbounded Int in the reference, REAL in SQLite",
    "unresolved-column": "a column the reference cannot resolve (a term `?col:x` there); SQLite would read the "
                         "double-quoted name as a string literal or fail",
    "unknown-table": "FROM names neither a CTE defined earlier nor T/U/V (empty table without columns in the "
                     "reference, an error in SQLite)",
    "cross-type": "operands of different types (int/str/bool) in a comparison, IN, coalesce or CASE: a type error "
                  "in standard SQL; the reference yields a term, SQLite orders storage classes and applies affinity",
    "non-boolean-condition": "WHERE / ON / FILTER / CASE WHEN / AND / OR / NOT operand that is not boolean: a type "
                             "error in standard SQL; the reference drops the row (not TRUE), SQLite tests non-zero",
    "non-integer-arithmetic": "+ - * / % or unary minus on a non-integer, sum of non-integers: term in the reference, "
                              "numeric coercion in SQLite",
    "non-string-operand": "|| / lower / upper on a non-string: term in the reference, cast to text in SQLite",
    "bare-column-in-aggregate-query": "an aggregate query selects/sorts by a column that is not a GROUP BY "
                                      "expression (or `*`): an error in standard SQL; the reference takes the "
                                      "group's first row, SQLite an arbitrary one (or the min/max row)",
    "aggregate-outside-select-list": "aggregate only in ORDER BY of a non-aggregate SELECT",
    "positional-order-or-group-key": "ORDER BY / GROUP BY <integer literal, possibly under unary + or ->: an output-column position in SQLite "
                                     "(and SQL-92, ClickHouse's default); a constant key in the reference (DESIGN §6 C02 P)",
    "order-by-alias-shadows-source-column": "a name inside an ORDER BY *expression* that is both an output alias and "
                                            "a different source column: SQLite (and PostgreSQL) take the source "
                                            "column, the reference (and ClickHouse) the alias",
    "non-integer-limit": "LIMIT that is not an integer expression without columns",
    "sqlite-error": "SQLite rejects the statement (message class recorded)",
    "term-in-reference-result": "the static filter passed but the reference's result holds a symbolic term",
}

INT, STR, BOOL, NUL = "int", "str", "bool", "null"
AGGS = ("count", "sum", "min", "max")


class Excl(Exception):
    def __init__(self, reason, detail=""):
        super().__init__(reason)
        self.reason = reason
        self.detail = detail


def unhex(h):
    return bytes.fromhex(h).decode("utf-8", "replace")


def unify(ts, what):
    t = NUL
    for x in ts:
        if x == NUL:
            continue
        if t == NUL:
            t = x
        elif t != x:
            raise Excl("cross-type", what)
    return t


def is_agg_name(fnhex):
    return bytes.fromhex(fnhex).decode("latin1").lower() in AGGS


def has_agg(e):
    if e is None:
        return False
    k = e["k"]
    if k == "call":
        return is_agg_name(e["fn"]) or any(has_agg(a) for a in e["args"]) or has_agg(e["filter"])
    return any(has_agg(c) for c in children(e))


def children(e):
    k = e["k"]
    if k == "call":
        return list(e["args"]) + ([e["filter"]] if e["filter"] is not None else [])
    if k == "case":
        return [e["c"], e["t"], e["e"]]
    if k in ("neg", "pos", "not", "isnull"):
        return [e["x"]]
    if k == "bin":
        return [e["x"], e["y"]]
    if k == "in":
        return [e["x"]] + list(e["vals"])
    if k == "index":
        return [e["x"], e["i"]]
    return []


def is_int_const(e):
    """what SQLite's sqlite3ExprIsInteger accepts: an integer literal under unary + / -"""
    while e["k"] in ("neg", "pos"):
        e = e["x"]
    return e["k"] == "num"


def lookup(scope, parts):
    """the reference's lookupCol: first entry by name, or by alias and name"""
    if len(parts) == 1:
        for a, c, t in scope:
            if c == parts[0]:
                return t
    elif len(parts) == 2:
        for a, c, t in scope:
            if a == parts[0] and c == parts[1]:
                return t
    raise Excl("unresolved-column", ".".join(unhex(p) for p in parts))


class Typer:
    """static types of the statement over the schema of Rel.mkDB; raises Excl outside the
    fragment on which the reference evaluator and SQLite both implement standard SQL"""

    def __init__(self):
        self.features = set()

    def cond(self, e, scope, what):
        t = self.ty(e, scope)
        if t not in (BOOL, NUL):
            raise Excl("non-boolean-condition", what)

    def ty(self, e, scope):
        k = e["k"]
        if k == "col":
            if any(p.startswith("24") for p in e["parts"]):   # "$left" / "$right"
                self.features.add('quoted identifier "$left"/"$right"')
            return lookup(scope, e["parts"])
        if k == "str":
            return STR
        if k == "num":
            txt = bytes.fromhex(e["v"])
            if txt.isdigit() and txt.isascii():
                if int(txt) >= 2 ** 63:
                    raise Excl("integer-beyond-64-bits")
                return INT
            raise Excl("uninterpreted-numeral", txt.decode("latin1"))
        if k == "param":
            raise Excl("uninterpreted-constant", "parameter")
        if k == "const":
            if e["v"] in ("TRUE", "FALSE"):
                self.features.add("TRUE/FALSE literal")
                return BOOL
            if e["v"] == "NULL":
                return NUL
            raise Excl("uninterpreted-constant", e["v"])
        if k == "call":
            fn = bytes.fromhex(e["fn"]).decode("latin1").lower()
            args = e["args"]
            if fn in AGGS:
                if e["filter"] is not None:
                    self.features.add("aggregate FILTER (WHERE ...)")
                    self.cond(e["filter"], scope, "FILTER")
                ts = [self.ty(a, scope) for a in args]
                if fn == "count":
                    if e["star"]:
                        self.features.add("COUNT(*)")
                    elif not args:
                        self.features.add("count() without argument")
                    else:
                        self.features.add("count(x) with argument")
                    return INT
                if len(args) != 1 or e["star"]:
                    raise Excl("uninterpreted-aggregate-shape", fn)
                self.features.add(fn + "(x)")
                if fn == "sum":
                    if ts[0] not in (INT, NUL):
                        raise Excl("non-integer-arithmetic", "sum")
                    return INT if ts[0] == INT else NUL
                return ts[0]
            if e["filter"] is not None or e["star"]:
                raise Excl("uninterpreted-function", fn)
            ts = [self.ty(a, scope) for a in args]
            if fn == "coalesce":
                self.features.add("coalesce")
                return unify(ts, "coalesce")
            if fn in ("lower", "upper"):
                if len(args) != 1:
                    raise Excl("uninterpreted-function", fn + "/" + str(len(args)))
                if ts[0] not in (STR, NUL):
                    raise Excl("non-string-operand", fn)
                self.features.add(fn + "()")
                return STR if ts[0] == STR else NUL
            raise Excl("uninterpreted-function", fn)
        if k == "case":
            self.features.add("CASE WHEN")
            self.cond(e["c"], scope, "CASE WHEN")
            return unify([self.ty(e["t"], scope), self.ty(e["e"], scope)], "CASE branches")
        if k in ("neg", "pos"):
            t = self.ty(e["x"], scope)
            if k == "neg":
                if t not in (INT, NUL):
                    raise Excl("non-integer-arithmetic", "unary minus")
                self.features.add("unary minus")
            return t
        if k == "not":
            self.cond(e["x"], scope, "NOT")
            self.features.add("NOT")
            return BOOL
        if k == "bin":
            op = e["op"]
            tx, ty_ = self.ty(e["x"], scope), self.ty(e["y"], scope)
            if op in ("AND", "OR"):
                for t in (tx, ty_):
                    if t not in (BOOL, NUL):
                        raise Excl("non-boolean-condition", op)
                self.features.add(op)
                return BOOL
            if op in ("=", "<>", "!=", "<", "<=", ">", ">="):
                t = unify([tx, ty_], "comparison " + op)
                self.features.add("comparison on " + t)
                return BOOL
            if op == "||":
                for t in (tx, ty_):
                    if t not in (STR, NUL):
                        raise Excl("non-string-operand", "||")
                self.features.add("||")
                return NUL if NUL in (tx, ty_) else STR
            for t in (tx, ty_):
                if t not in (INT, NUL):
                    raise Excl("non-integer-arithmetic", op)
            self.features.add("arithmetic " + op)
            return NUL if NUL in (tx, ty_) else INT
        if k == "isnull":
            self.ty(e["x"], scope)
            self.features.add("IS [NOT] NULL")
            return BOOL
        if k == "in":
            unify([self.ty(e["x"], scope)] + [self.ty(v, scope) for v in e["vals"]], "IN")
            self.features.add("IN (...)")
            return BOOL
        if k == "index":
            raise Excl("uninterpreted-subscript")
        raise Excl("uninterpreted-function", "?" + k)

    # -- aggregate queries: only GROUP BY expressions, constants and aggregates --
    def grouped_ok(self, e, keys, out_aliases):
        if e is None or any(e == g for g in keys):
            return True
        k = e["k"]
        if k in ("str", "num", "const", "param"):
            return True
        if k == "col":
            return out_aliases is not None and len(e["parts"]) == 1 and e["parts"][0] in out_aliases
        if k == "call" and is_agg_name(e["fn"]):
            return True
        return all(self.grouped_ok(c, keys, out_aliases) for c in children(e))

    def provider(self, items, src_names, n):
        """the item an unqualified name n in ORDER BY stands for in the reference (None: source)"""
        for it in items:
            if it["star"]:
                if n in src_names:
                    return None
            elif it["alias"] == n:
                return it
        return None

    def cols_in(self, e):
        if e is None:
            return
        if e["k"] == "col":
            yield e["parts"]
        for c in children(e):
            yield from self.cols_in(c)

    def ref_cols(self, ref, tables):
        if ref["name"] not in tables:
            raise Excl("unknown-table", unhex(ref["name"]))
        if ref["k"] == "distinct":
            self.features.add("(SELECT DISTINCT * FROM x) AS alias")
        alias = ref["alias"] or ""
        return [(alias, c, t) for c, t in tables[ref["name"]]]

    def select(self, sel, tables):
        scope = self.ref_cols(sel["source"], tables)
        if sel["join"] is not None:
            j = sel["join"]
            self.features.add("LEFT JOIN" if j["left"] else "JOIN")
            scope = scope + self.ref_cols(j["table"], tables)
            self.cond(j["on"], scope, "ON")
        if sel["where"] is not None:
            self.features.add("WHERE")
            self.cond(sel["where"], scope, "WHERE")
        is_agg = bool(sel["groupBy"]) or any((not it["star"]) and has_agg(it["expr"]) for it in sel["items"])
        for g in sel["groupBy"]:
            self.features.add("GROUP BY")
            if is_int_const(g):
                raise Excl("positional-order-or-group-key", "GROUP BY")
            self.ty(g, scope)
        out = []
        for it in sel["items"]:
            if it["star"]:
                if is_agg:
                    raise Excl("bare-column-in-aggregate-query", "*")
                out += [(c, t) for _, c, t in scope]
            else:
                t = self.ty(it["expr"], scope)
                if is_agg and not self.grouped_ok(it["expr"], sel["groupBy"], None):
                    raise Excl("bare-column-in-aggregate-query", "select item")
                out.append((it["alias"] if it["alias"] is not None else "3f", t))
        if sel["orderBy"]:
            self.features.add("ORDER BY ... NULLS FIRST/LAST")
            src_names = {c for _, c, _ in scope}
            scope2 = [("", c, t) for c, t in out] + scope
            for o in sel["orderBy"]:
                e = o["expr"]
                if is_int_const(e):
                    raise Excl("positional-order-or-group-key", "ORDER BY")
                self.ty(e, scope2)
                if not is_agg and has_agg(e):
                    raise Excl("aggregate-outside-select-list")
                if is_agg and not self.grouped_ok(e, sel["groupBy"], {c for c, _ in out}):
                    raise Excl("bare-column-in-aggregate-query", "ORDER BY")
                if e["k"] != "col":
                    for parts in self.cols_in(e):
                        if len(parts) == 1 and parts[0] in src_names:
                            it = self.provider(sel["items"], src_names, parts[0])
                            if it is not None and it["expr"] != {"k": "col", "parts": parts}:
                                raise Excl("order-by-alias-shadows-source-column", unhex(parts[0]))
        if sel["limit"] is not None:
            self.features.add("LIMIT" if sel["limit"]["k"] == "num" else "LIMIT (expression)")
            try:
                t = self.ty(sel["limit"], [])
            except Excl as x:
                raise Excl("non-integer-limit", x.reason)
            if t != INT:
                raise Excl("non-integer-limit", t)
        return out

    def statement(self, st):
        base = [(c.encode().hex(), INT) for c in "abck"] + [("73", STR)]
        tables = {n.encode().hex(): base for n in "TUV"}
        for c in st["ctes"]:
            cols = self.select(c["select"], tables)
            tables = dict(tables)
            tables[c["name"]] = cols
        if st["ctes"]:
            self.features.add("WITH ... AS (CTE chain)")
        return self.select(st["body"], tables)


# ---------------------------------------------------------------------------------------------
# A generator of WELL-TYPED PQL programs over T U V (a b c k : int, s : string).  The harness's own
# `eval` generator is deliberately untyped (two thirds of its statements leave the fragment
# both engines define); these programs are compiled by the real compiler through
# `harness replay`, so the SQL that is compared is still the compiler's.
# ---------------------------------------------------------------------------------------------
import random

IDENT = re.compile(r"^[A-Za-z_][A-Za-z_0-9]*$")


class PqlGen:
    def __init__(self, rnd):
        self.r = rnd
        self.fresh = 0

    def name(self):
        self.fresh += 1
        return "n%d" % self.fresh

    def cols(self, schema, t=None):
        names = [n for n, _ in schema]
        return [n for n, ty in schema if (t is None or ty == t) and names.count(n) == 1 and IDENT.match(n)]

    def paren(self, x):
        return "(" + x + ")" if self.r.random() < 0.7 else x

    def expr(self, t, schema, d, pre=""):
        r = self.r
        cs = self.cols(schema, t)
        if d <= 0 or r.random() < 0.3:
            if cs and r.random() < 0.7:
                return pre + r.choice(cs)
            if r.random() < 0.06:
                return "null"
            if t == INT:
                return r.choice(["0", "1", "2", "3", "1", "2"])
            if t == STR:
                return r.choice(["'a'", "'A'", "'b'", "'ab'", "''", "'B'"])
            return r.choice(["true", "false"])
        e = lambda ty: self.expr(ty, schema, d - 1, pre)
        if t == INT:
            k = r.randrange(10)
            if k < 6:
                op = r.choice(["+", "-", "*", "/", "%", "-", "/", "%"])
                return "(%s %s %s)" % (e(INT), op, e(INT))
            if k < 8:
                return "(-%s)" % self.paren(e(INT))
            return "iff(%s, %s, %s)" % (e(BOOL), e(INT), e(INT))
        if t == STR:
            k = r.randrange(6)
            if k < 2:
                return "strcat(%s)" % ", ".join(e(STR) for _ in range(r.choice([2, 2, 3])))
            if k < 4:
                return "%s(%s)" % (r.choice(["tolower", "toupper"]), e(STR))
            return "iff(%s, %s, %s)" % (e(BOOL), e(STR), e(STR))
        k = r.randrange(14)
        if k < 4:
            return "(%s %s %s)" % (e(INT), r.choice(["==", "!=", "<", "<=", ">", ">="]), e(INT))
        if k < 6:
            return "(%s %s %s)" % (e(STR), r.choice(["==", "!=", "=~", "!~", "<", ">=", "=~"]), e(STR))
        if k < 8:
            return "(%s %s %s)" % (e(BOOL), r.choice(["and", "or"]), e(BOOL))
        if k < 9:
            return "not(%s)" % e(BOOL)
        if k < 11:
            return "%s(%s)" % (r.choice(["isnull", "isnotnull"]), e(r.choice([INT, STR, BOOL])))
        if k < 13:
            ty = r.choice([INT, INT, STR])
            return "(%s in (%s))" % (e(ty), ", ".join(e(ty) for _ in range(r.randrange(1, 4))))
        return "(%s %s %s)" % (e(BOOL), r.choice(["==", "!="]), e(BOOL))

    def agg(self, schema):
        r = self.r
        k = r.randrange(6)
        if k == 0:
            return "count()", INT
        if k == 1:
            return "countif(%s)" % self.expr(BOOL, schema, 2), INT
        if k == 2:
            if r.random() < 0.15:
                # not a PQL builtin (those are case-sensitive): passed through by name, and SQL's count(x)
                return "%s(%s)" % (r.choice(["Count", "COUNT"]), self.expr(r.choice([INT, STR]), schema, 1)), INT
            return "sum(%s)" % self.expr(INT, schema, 1), INT
        t = r.choice([INT, INT, STR])
        return "%s(%s)" % (r.choice(["min", "max"]), self.expr(t, schema, 1)), t

    def sort_terms(self, schema, maxn):
        r = self.r
        terms = []
        for _ in range(r.randrange(1, maxn + 1)):
            t = r.choice([INT, INT, STR, BOOL])
            x = self.expr(t, schema, r.choice([0, 0, 0, 1, 2]))
            if x.isdigit() or x in ("null", "true", "false") or x.startswith("'"):
                cs = self.cols(schema)
                if not cs:
                    continue
                x = r.choice(cs)
            terms.append(x + r.choice(["", "", " asc", " desc"]) + r.choice(["", "", " nulls first", " nulls last"]))
        return terms

    def pipeline(self, table, nops, joins):
        r = self.r
        schema = [(c, INT) for c in "abck"] + [("s", STR)]
        out = [table]
        for _ in range(nops):
            k = r.randrange(20)
            cs = self.cols(schema)
            if k < 4:
                w = self.expr(BOOL, schema, r.choice([1, 2, 3]))
                if w in ("true", "false", "null"):
                    w = self.expr(BOOL, schema, 2)
                out.append("where " + w)
            elif k < 6:
                new = []
                for _ in range(r.randrange(1, 3)):
                    t = r.choice([INT, INT, STR, BOOL])
                    new.append((self.name(), t))
                out.append("extend " + ", ".join("%s = %s" % (n, self.expr(t, schema, r.choice([1, 2, 3]))) for n, t in new))
                schema = schema + new
            elif k < 8 and cs:
                items, ns = [], []
                for c in r.sample(cs, r.randrange(1, min(3, len(cs)) + 1)):
                    items.append(c)
                    ns.append((c, dict(schema)[c]))
                for _ in range(r.randrange(0, 3)):
                    t = r.choice([INT, STR, BOOL])
                    n = self.name()
                    items.append("%s = %s" % (n, self.expr(t, schema, r.choice([0, 1, 2]))))
                    ns.append((n, t))
                out.append("project " + ", ".join(items))
                schema = ns
            elif k < 11:
                keys, ks = [], []
                for _ in range(r.randrange(0, 3)):
                    if cs and r.random() < 0.7:
                        c = r.choice(cs)
                        if c not in [x for x, _ in ks]:
                            keys.append(c)
                            ks.append((c, dict(schema)[c]))
                    else:
                        t = r.choice([INT, STR, BOOL])
                        n = self.name()
                        keys.append("%s = %s" % (n, self.expr(t, schema, r.choice([1, 2]))))
                        ks.append((n, t))
                aggs, as_ = [], []
                for _ in range(r.randrange(0 if keys else 1, 3)):
                    a, t = self.agg(schema)
                    n = self.name()
                    aggs.append("%s = %s" % (n, a))
                    as_.append((n, t))
                out.append("summarize " + ", ".join(aggs) + (" by " + ", ".join(keys) if keys else ""))
                schema = ks + as_
            elif k < 14 and cs:
                out.append("sort by " + ", ".join(self.sort_terms(schema, 3) or [r.choice(cs)]))
            elif k < 16:
                out.append("take " + r.choice(["0", "1", "2", "3", "5", "(1 + 1)"]))
            elif k < 17 and cs:
                t = self.sort_terms(schema, 1) or [r.choice(cs)]
                out.append("top %d by %s" % (r.randrange(1, 4), t[0]))
            elif k < 18:
                out.append("count")
                schema = [("count()", INT)]
            elif k < 19 and joins > 0:
                joins -= 1
                rt = r.choice(["U", "V", "T"])
                rp, rschema = self.pipeline(rt, r.randrange(0, 3), 0)
                rcols = self.cols(rschema)
                lcols = self.cols(schema)
                conds = []
                if "k" in lcols and "k" in rcols and dict(schema)["k"] == dict(rschema)["k"] and r.random() < 0.5:
                    conds.append("k")
                for _ in range(r.randrange(0 if conds else 1, 3)):
                    t = r.choice([INT, INT, STR])
                    if r.random() < 0.7 and self.cols(schema, t) and self.cols(rschema, t):
                        conds.append("$left.%s == $right.%s" % (r.choice(self.cols(schema, t)), r.choice(self.cols(rschema, t))))
                if not conds:
                    continue
                kind = r.choice(["", "kind=inner ", "kind=innerunique ", "kind=leftouter ", "kind=inner ", "kind=leftouter "])
                out.append("join %s(%s) on %s" % (kind, rp, ", ".join(conds)))
                schema = schema + rschema
            else:
                out.append("as x%d" % r.randrange(1, 9))
        return " | ".join(out), schema

    def program(self):
        return self.pipeline(self.r.choice(["T", "T", "U", "V"]), self.r.randrange(1, 6), 2)[0]


def typed_cases(n, seed):
    rnd = random.Random(seed)
    lines = []
    for i in range(n):
        g = PqlGen(rnd)
        lines.append("EVAL %s %d" % (g.program().encode().hex(), 700001 + 7 * i))
    p = subprocess.run([HARNESS, "replay"], input="\n".join(lines).encode() + b"\n", stdout=subprocess.PIPE, check=True)
    return p.stdout.decode().splitlines()


# ---------------------------------------------------------------------------------------------
# Attribution of a disagreement to the known deviation X1-DIV (integer `/` and `%` of the
# reference are Lean's Int.ediv / Int.emod: floor-like, remainder >= 0; SQL engines truncate
# toward zero and give the remainder the dividend's sign).  The parsed statement is rendered back
# to SQL with `/` and `%` replaced by user functions computing the reference's operators; when
# SQLite then returns the reference's table, the disagreement is exactly that deviation.
# ---------------------------------------------------------------------------------------------
def qid(h):
    return '"' + unhex(h).replace('"', '""') + '"'


def render_expr(e):
    k = e["k"]
    if k == "col":
        return ".".join(qid(p) for p in e["parts"])
    if k == "str":
        return "'" + unhex(e["v"]).replace("'", "''") + "'"
    if k == "num":
        return unhex(e["v"])
    if k == "const":
        return e["v"]
    if k == "call":
        inner = "*" if e["star"] else ", ".join(render_expr(a) for a in e["args"])
        if unhex(e["fn"]).lower() == "count":
            inner = "*"
        flt = "" if e["filter"] is None else " FILTER (WHERE %s)" % render_expr(e["filter"])
        return "%s(%s)%s" % (unhex(e["fn"]), inner, flt)
    if k == "case":
        return "CASE WHEN %s THEN %s ELSE %s END" % (render_expr(e["c"]), render_expr(e["t"]), render_expr(e["e"]))
    if k == "neg":
        return "(-%s)" % render_expr(e["x"])
    if k == "pos":
        return "(+%s)" % render_expr(e["x"])
    if k == "not":
        return "(NOT %s)" % render_expr(e["x"])
    if k == "bin":
        x, y = render_expr(e["x"]), render_expr(e["y"])
        if e["op"] == "/":
            return "ref_ediv(%s, %s)" % (x, y)
        if e["op"] == "%":
            return "ref_emod(%s, %s)" % (x, y)
        return "(%s %s %s)" % (x, e["op"], y)
    if k == "isnull":
        return "(%s IS %sNULL)" % (render_expr(e["x"]), "NOT " if e["neg"] else "")
    if k == "in":
        return "(%s IN (%s))" % (render_expr(e["x"]), ", ".join(render_expr(v) for v in e["vals"]))
    raise Excl("uninterpreted-subscript")


def render_ref(r):
    t = qid(r["name"]) if r["k"] == "named" else "(SELECT DISTINCT * FROM %s)" % qid(r["name"])
    return t + ("" if r["alias"] is None else " AS " + qid(r["alias"]))


def render_select(s):
    items = ", ".join("*" if it["star"] else render_expr(it["expr"]) + ("" if it["alias"] is None else " AS " + qid(it["alias"]))
                      for it in s["items"])
    out = "SELECT %s FROM %s" % (items, render_ref(s["source"]))
    if s["join"] is not None:
        j = s["join"]
        out += " %sJOIN %s ON %s" % ("LEFT " if j["left"] else "", render_ref(j["table"]), render_expr(j["on"]))
    if s["where"] is not None:
        out += " WHERE " + render_expr(s["where"])
    if s["groupBy"]:
        out += " GROUP BY " + ", ".join(render_expr(g) for g in s["groupBy"])
    if s["orderBy"]:
        out += " ORDER BY " + ", ".join("%s %s NULLS %s" % (render_expr(o["expr"]), "ASC" if o["asc"] else "DESC",
                                                            "FIRST" if o["nullsFirst"] else "LAST") for o in s["orderBy"])
    if s["limit"] is not None:
        out += " LIMIT " + render_expr(s["limit"])
    return out


def render_statement(st):
    w = ", ".join("%s AS (%s)" % (qid(c["name"]), render_select(c["select"])) for c in st["ctes"])
    return ("WITH " + w + " " if w else "") + render_select(st["body"]) + ";"


def ref_emod(x, y):
    if x is None or y is None or y == 0:
        return None
    return x % abs(y)


def ref_ediv(x, y):
    if x is None or y is None or y == 0:
        return None
    return (x - x % abs(y)) // y


def known_deviations(e, acc=None):
    """which constructs with a known deviation of the reference the statement uses"""
    acc = set() if acc is None else acc
    if isinstance(e, dict):
        if e.get("k") == "bin" and e.get("op") in ("/", "%"):
            acc.add("X1-DIV")
        if e.get("k") == "call" and unhex(e["fn"]).lower() == "count" and e["args"]:
            acc.add("X1-COUNT")
        for v in e.values():
            known_deviations(v, acc)
    elif isinstance(e, list):
        for v in e:
            known_deviations(v, acc)
    return acc


# Hand-written statements inside the reference reader's grammar for rules of the evaluator that
# the compiler's output never exercises (it wraps every iff / == / != condition in
# coalesce(..., FALSE), always aliases, never sorts by an aggregate, ...).  Run on 40 databases each.
EXTRA_SQL = [
    # CASE with an UNKNOWN condition takes ELSE
    """SELECT *, CASE WHEN "a" > 1 THEN 'x' ELSE 'y' END AS "n" FROM "T";""",
    """SELECT CASE WHEN "a" = "b" THEN "a" ELSE "c" END AS "n", CASE WHEN NULL THEN 1 ELSE 2 END AS "m" FROM "U";""",
    # three-valued logic without coalesce
    """SELECT "a" = "b" AS "e", "a" <> "b" AS "n", NOT ("a" = "b") AS "x", ("a" = 1) AND ("b" = 1) AS "c", ("a" = 1) OR ("b" = 1) AS "d" FROM "T";""",
    """SELECT * FROM "T" WHERE NOT ("a" > "b");""",
    """SELECT * FROM "T" WHERE ("a" > 0) OR NULL;""",
    """SELECT ("a" IN (1, NULL)) AS "i", (NOT ("a" IN (1, "b"))) AS "j", ("s" IN ('a', 'b')) AS "k", NULL IN (1) AS "l" FROM "T";""",
    """SELECT "a" IS NULL AS "x", "a" IS NOT NULL AS "y", ("a" = "b") IS NULL AS "z", NOT "a" IS NULL AS "w" FROM "V";""",
    # operators and precedence as the reference reader sees them
    """SELECT 1 + 2 * 3 AS "p", (1 + 2) * 3 AS "q", 7 - 2 - 1 AS "r", 8 / 2 * 2 AS "t", 2 * 7 % 4 AS "u", - 2 + 3 AS "v", - - 2 AS "w", + 2 AS "x", 2 - -1 AS "y" FROM "T";""",
    """SELECT -"a" + "b" AS "x", -"a" * "b" AS "y", - ("a" + "b") AS "z", "a" - - "b" AS "w" FROM "T";""",
    """SELECT "a" + 1 > "b" * 2 AS "x", NOT "a" = 1 AS "y", "a" = 1 OR "b" = 1 AND "c" = 1 AS "z", NOT "a" = 1 AND "b" = 1 AS "w", 'a' || 'b' = 'ab' AS "v", 1 + 1 IN (2) AS "u" FROM "T";""",
    """SELECT "a" / "b" AS "d", "a" % "b" AS "m", "a" / 0 AS "z", "a" % 0 AS "y", 7 / 2 AS "h", 7 % 2 AS "i" FROM "T";""",
    """SELECT "s" || 'x' AS "a", 'x' || "s" || "s" AS "b", NULL || "s" AS "c", lower("s") AS "l", upper("s") AS "u", LOWER('AbC') AS "m", lower(NULL) AS "n" FROM "T";""",
    """SELECT "s" < 'a' AS "a", "s" <= 'A' AS "b", "s" > 'B' AS "c", 'a' < 'ab' AS "d", '' < 'a' AS "e", 'B' < 'a' AS "f", "s" = 'a' AS "g" FROM "U";""",
    """SELECT TRUE < FALSE AS "a", ("a" > 0) = ("b" > 0) AS "b", ("a" > 0) < ("b" > 0) AS "c", TRUE = TRUE AS "d" FROM "T";""",
    """SELECT coalesce("a", "b", "c") AS "x", coalesce(NULL, "s") AS "y", coalesce("a" = "b", "b" = "c") AS "z", coalesce(NULL, NULL) AS "w" FROM "T";""",
    # aggregates: empty input, NULLs, FILTER, strings, booleans
    """SELECT count() AS "n", COUNT(*) AS "m", sum("a") AS "s", min("a") AS "lo", max("a") AS "hi", min("s") AS "ls", max("s") AS "hs" FROM "T";""",
    """SELECT count() FILTER (WHERE "a" > 0) AS "n", sum("a") FILTER (WHERE "b" IS NULL) AS "s", min("s") FILTER (WHERE "a" = "b") AS "m", max("a") FILTER (WHERE FALSE) AS "x" FROM "U";""",
    """SELECT "k" AS "k", count() AS "n", sum("a" + "b") AS "s", max("a" > 0) AS "anypos", min("a" IS NULL) AS "nonull" FROM "T" GROUP BY "k";""",
    """SELECT "k" AS "k", "s" AS "s", count() AS "n" FROM "U" GROUP BY "k", "s";""",
    """SELECT "a" + "b" AS "x", count() AS "n" FROM "T" GROUP BY "a" + "b";""",
    """SELECT "a" IS NULL AS "x", lower("s") AS "l", max("b") AS "m" FROM "V" GROUP BY "a" IS NULL, lower("s");""",
    """SELECT sum("a") + count() AS "x", max("a") - min("a") AS "spread", coalesce(sum("a"), 0) AS "z" FROM "T" WHERE "a" > 5;""",
    """SELECT "k" AS "k", count() AS "n" FROM "T" GROUP BY "k" ORDER BY count() DESC NULLS LAST, "k" ASC NULLS FIRST;""",
    """SELECT "k" AS "k", sum("a") AS "t" FROM "T" GROUP BY "k" ORDER BY "t" ASC NULLS LAST, "k" DESC NULLS FIRST LIMIT 2;""",
    # ORDER BY: every direction and NULL placement, strings, booleans, expressions, aliases
    """SELECT * FROM "T" ORDER BY "a" ASC NULLS FIRST, "b" ASC NULLS LAST, "c" DESC NULLS FIRST, "k" DESC NULLS LAST, "s" ASC NULLS LAST;""",
    """SELECT * FROM "U" ORDER BY "s" DESC NULLS FIRST, "a" + "b" ASC NULLS LAST, "a" > 0 DESC NULLS LAST, "a" ASC NULLS FIRST, "b" ASC NULLS FIRST, "c" ASC NULLS FIRST, "k" ASC NULLS FIRST;""",
    """SELECT "a" AS "x", "b" AS "y" FROM "T" ORDER BY "y" DESC NULLS LAST, "x" ASC NULLS FIRST;""",
    """SELECT "a" + 1 AS "x", "s" AS "s" FROM "T" ORDER BY - "x" ASC NULLS FIRST, "s" ASC NULLS FIRST LIMIT 3;""",
    """SELECT * FROM "T" ORDER BY "a" ASC NULLS FIRST, "b" ASC NULLS FIRST, "c" ASC NULLS FIRST, "k" ASC NULLS FIRST, "s" ASC NULLS FIRST LIMIT 1 + 1;""",
    """SELECT * FROM "T" LIMIT 0;""",
    """SELECT * FROM "T" LIMIT 7;""",
    # joins
    """SELECT * FROM "T" AS "$left" JOIN "U" AS "$right" ON ("$left"."k" = "$right"."k") AND ("$left"."a" < "$right"."a");""",
    """SELECT * FROM "T" AS "$left" LEFT JOIN "U" AS "$right" ON ("$left"."k" = "$right"."k") OR ("$left"."s" = "$right"."s");""",
    """SELECT * FROM "T" AS "$left" LEFT JOIN "U" AS "$right" ON FALSE;""",
    """SELECT * FROM "T" AS "$left" JOIN "U" AS "$right" ON TRUE WHERE "$left"."a" = "$right"."b";""",
    """SELECT * FROM (SELECT DISTINCT * FROM "T") AS "$left" LEFT JOIN (SELECT DISTINCT * FROM "U") AS "$right" ON "$left"."a" = "$right"."a";""",
    """SELECT "$left"."a" AS "x", "$right"."s" AS "y", "$left"."a" + "$right"."a" AS "z" FROM "T" AS "$left" JOIN "T" AS "$right" ON "$left"."a" = "$right"."b" ORDER BY "x" ASC NULLS FIRST, "y" ASC NULLS FIRST, "z" ASC NULLS FIRST;""",
    """SELECT "$left"."k" AS "k", count() AS "n", sum("$right"."a") AS "s" FROM "T" AS "$left" LEFT JOIN "U" AS "$right" ON "$left"."k" = "$right"."k" GROUP BY "$left"."k";""",
    # CTE chains: shadowing a base table, DISTINCT of a CTE
    """WITH "T" AS (SELECT "a" AS "a", "s" AS "s" FROM "U" WHERE "a" > 0), "q" AS (SELECT * FROM (SELECT DISTINCT * FROM "T") AS "d") SELECT * FROM "q" AS "$left" JOIN "T" AS "$right" ON "$left"."a" = "$right"."a";""",
    """WITH "q" AS (SELECT "k" AS "k", count() AS "n" FROM "T" GROUP BY "k"), "r" AS (SELECT *, "n" * 2 AS "m" FROM "q" WHERE "n" > 1) SELECT max("m") AS "x", count() AS "c" FROM "r";""",
]


def pyval(v):
    """reference value -> the Python value sqlite3 would return (booleans as 0/1)"""
    if v is None:
        return None
    if v is True:
        return 1
    if v is False:
        return 0
    if isinstance(v, int):
        return v
    if isinstance(v, str) and v.startswith("s:"):
        return bytes.fromhex(v[2:])
    raise Excl("term-in-reference-result", str(v))


def load_db(db):
    con = sqlite3.connect(":memory:")
    con.text_factory = bytes
    for t in db:
        cols = [unhex(c) for c in t["cols"]]
        decl = ", ".join('"%s" %s' % (c, "TEXT" if c == "s" else "INTEGER") for c in cols)
        con.execute('CREATE TABLE "%s" (%s)' % (unhex(t["name"]), decl))
        rows = [tuple(None if v is None else (v if isinstance(v, int) else bytes.fromhex(v[2:]).decode("utf-8"))
                      for v in r) for r in t["rows"]]
        con.executemany('INSERT INTO "%s" VALUES (%s)' % (unhex(t["name"]), ",".join("?" * len(cols))), rows)
    return con


def error_class(msg):
    msg = re.sub(r'"[^"]*"|\'[^\']*\'', "_", msg)
    msg = re.sub(r"\b\d+(st|nd|rd|th)\b", "Nth", msg)
    msg = re.sub(r":\s.*$", "", msg)
    return re.sub(r"\d+", "N", msg)[:70]


def show_db(db):
    return {unhex(t["name"]): [[("'" + bytes.fromhex(v[2:]).decode() + "'") if isinstance(v, str) else v for v in r]
                                for r in t["rows"]] for t in db}


def show_rows(rows):
    return [[(v.decode("utf-8", "replace") if isinstance(v, bytes) else v) for v in r] for r in rows]


def compare_one(sql_bytes, dump):
    """returns (status, info): status in agree-list / agree-multiset / skip / disagree"""
    if not dump.get("readable"):
        return "skip", {"reason": "unreadable"}
    typer = Typer()
    try:
        typer.statement(dump["stmt"])
    except Excl as x:
        return "skip", {"reason": x.reason, "detail": x.detail}
    try:
        sql = sql_bytes.decode("utf-8")
    except UnicodeDecodeError:
        return "skip", {"reason": "not-utf8"}
    try:
        ref_cols = [unhex(c) for c in dump["result"]["cols"]]
        ref_rows = [tuple(pyval(v) for v in r) for r in dump["result"]["rows"]]
    except Excl as x:
        return "skip", {"reason": x.reason, "detail": x.detail}
    con = load_db(dump["db"])
    alt_rows, devs = None, set()
    try:
        cur = con.execute(sql)
        lite_cols = [d[0] for d in cur.description]
        lite_rows = [tuple(r) for r in cur.fetchall()]
        devs = known_deviations(dump["stmt"])
        if devs:
            con.create_function("ref_ediv", 2, ref_ediv, deterministic=True)
            con.create_function("ref_emod", 2, ref_emod, deterministic=True)
            alt_rows = [tuple(r) for r in con.execute(render_statement(dump["stmt"])).fetchall()]
    except sqlite3.Error as x:
        return "skip", {"reason": "sqlite-error", "detail": error_class(str(x))}
    finally:
        con.close()
    # SQLite makes the column names of a derived table unique by appending ":N"
    # ... and replaces a derived table's column named true / false by "column<position>"
    norm_cols, renamed, truefalse = [], 0, 0
    for i, c in enumerate(lite_cols):
        m = re.match(r"^(.*):(\d+)$", c)
        if m and i < len(ref_cols) and ref_cols[i] == m.group(1) and ref_cols[i] != c:
            norm_cols.append(m.group(1))
            renamed += 1
        elif i < len(ref_cols) and ref_cols[i].lower() in ("true", "false") and re.match(r"^column\d+$", c):
            norm_cols.append(ref_cols[i])
            truefalse += 1
        else:
            norm_cols.append(c)
    sels = dump["selects"]
    body = sels[-1]
    # a LIMIT that cuts rows whose order is not fixed by a total ORDER BY of the same SELECT
    asts = [c["select"] for c in dump["stmt"]["ctes"]] + [dump["stmt"]["body"]]
    by_name = {}
    for ast, si in zip(asts[:-1], sels[:-1]):
        by_name.setdefault(si["name"], (ast, si))
    kinds = set()
    for ast, si in zip(asts, sels):
        lim = si["limit"]
        if lim is None or lim["n"] is None or not (0 < lim["n"] < lim["rowsBefore"]):
            continue
        if si["order"] is not None:
            if si["order"]["total"] is not True:
                kinds.add("ties-at-the-cut")          # own ORDER BY, but tied rows around the cut
            continue
        # no ORDER BY of its own: does the input order come from a total ORDER BY upstream,
        # through SELECTs that keep their input order (no join, grouping or DISTINCT)?
        cur, kind = ast, "unordered-input"
        while True:
            if cur["join"] is not None or cur["groupBy"] or cur["source"]["k"] != "named" or \
                    any((not it["star"]) and has_agg(it["expr"]) for it in cur["items"]):
                break
            up = by_name.get(cur["source"]["name"])
            if up is None:
                break
            if up[1]["order"] is not None:
                if up[1]["order"]["total"] is True:
                    kind = "derived-table-order"      # DESIGN §5: derived tables keep their order
                break
            cur = up[0]
        kinds.add(kind)
    open_limit = bool(kinds)
    order_kind = ("unordered-input" if "unordered-input" in kinds else
                  "ties-at-the-cut" if "ties-at-the-cut" in kinds else
                  "derived-table-order" if kinds else None)
    outer_total = body["order"] is not None and body["order"]["total"] is True
    info = {"determinate": not open_limit, "orderKind": order_kind,
            "outerOrderBy": body["order"] is not None, "outerTotal": outer_total,
            "features": sorted(typer.features), "renamed": renamed, "truefalse": truefalse, "rows": len(ref_rows)}
    same_cols = norm_cols == ref_cols
    same_list = ref_rows == lite_rows
    same_multi = same_list or collections.Counter(ref_rows) == collections.Counter(lite_rows)
    ok = same_cols and (same_list if outer_total else same_multi)
    if ok:
        return ("agree-list" if same_list else "agree-multiset"), info
    if same_cols and alt_rows is not None and alt_rows != lite_rows and (
            ref_rows == alt_rows if outer_total else collections.Counter(ref_rows) == collections.Counter(alt_rows)):
        info["known"] = "+".join(sorted(devs))
    info.update({
        "what": ("columns" if not same_cols else ("rows" if not same_multi else "order")),
        "sql": sql, "dbseed": dump["seed"], "db": show_db(dump["db"]),
        "reference": {"cols": ref_cols, "rows": show_rows(ref_rows)},
        "sqlite": {"cols": lite_cols, "rows": show_rows(lite_rows)},
        "ctes": [{"name": unhex(s["name"]), "cols": [unhex(c) for c in s["cols"]], "rows": s["rows"]} for s in sels[:-1]],
    })
    return "disagree", info


def run_shard(cases):
    """cases: list of (sqlhex, dbseed).  Runs the driver on them and compares each."""
    inp = "".join("SQLDUMP %s %d | -\n" % (h, s) for h, s in cases)
    p = subprocess.run([DRIVER], input=inp.encode(), stdout=subprocess.PIPE, check=True)
    lines = p.stdout.decode().splitlines()
    if len(lines) != len(cases):
        raise RuntimeError("driver answered %d lines for %d cases" % (len(lines), len(cases)))
    res = []
    for (h, s), line in zip(cases, lines):
        if not line.startswith("DUMP "):
            res.append(("skip", {"reason": "unreadable", "detail": line[:40]}))
            continue
        res.append(compare_one(bytes.fromhex(h), json.loads(line[5:])))
    return res


def harness_cases(tier, seed):
    env = dict(os.environ, VERIF_SEED=str(seed))
    p = subprocess.run([HARNESS, "cases", "eval", tier], stdout=subprocess.PIPE, check=True, env=env)
    return p.stdout.decode().splitlines()


def main():
    ap = argparse.ArgumentParser(description=__doc__, formatter_class=argparse.RawDescriptionHelpFormatter)
    ap.add_argument("--tier", choices=["quick", "thorough"], default="quick")
    ap.add_argument("--seed", type=int, default=int(os.environ.get("VERIF_SEED", "1")), help="VERIF_SEED of the generator")
    ap.add_argument("--dbs", type=int, default=None, help="databases per case (default 4 quick, 8 thorough)")
    ap.add_argument("--jobs", type=int, default=os.cpu_count() or 4)
    ap.add_argument("--typed", type=int, default=None,
                    help="additionally N well-typed PQL programs compiled by the real compiler (default 4000 quick, 40000 thorough)")
    ap.add_argument("--strict", action="store_true", help="known deviations (X1-DIV, X1-COUNT) fail the run too")
    ap.add_argument("--no-harness-set", action="store_true", help="only the typed programs")
    ap.add_argument("--cases", help="read `EVAL src seed | OK sqlhex` lines from this file instead of running the harness")
    ap.add_argument("--sql", help="one SQL text (with --db-seed) instead of the case set; prints both results")
    ap.add_argument("--db-seed", type=int, default=7)
    ap.add_argument("--out", default=OUT)
    ap.add_argument("-v", "--verbose", action="store_true")
    a = ap.parse_args()
    for f in (DRIVER,) + (() if (a.sql or a.cases) else (HARNESS,)):
        if not os.path.exists(f):
            sys.exit("missing %s (run ./check --setup; cd lean && lake build driver)" % f)
    t0 = time.time()
    if a.sql:
        cases = [(a.sql.encode().hex(), a.db_seed + 1000 * i) for i in range(a.dbs or 1)]
        for (h, s), (st, info) in zip(cases, run_shard(cases)):
            print(s, st, json.dumps(info, indent=1))
        return 0
    dbs = a.dbs or (4 if a.tier == "quick" else 8)
    if a.cases:
        lines = open(a.cases).read().splitlines()
    else:
        lines = [] if a.no_harness_set else harness_cases(a.tier, a.seed)
        ntyped = a.typed if a.typed is not None else (4000 if a.tier == "quick" else 40000)
        lines += typed_cases(ntyped, a.seed)
    cases, seen, not_ok = [], set(), 0
    for l in lines:
        f = l.split()
        if len(f) != 6 or f[0] != "EVAL" or f[4] != "OK":
            not_ok += 1
            continue
        for i in range(dbs):
            key = (f[5], int(f[2]) + 1000 * i)
            if key not in seen:
                seen.add(key)
                cases.append(key)
    extra = set()
    if not a.cases:
        for q in EXTRA_SQL:
            for sd in range(1, 41):
                key = (q.encode().hex(), 900000 + sd)
                extra.add(key)
                if key not in seen:
                    seen.add(key)
                    cases.append(key)
    nshards = max(1, min(len(cases) // 200 + 1, a.jobs * 8))
    shards = [cases[i::nshards] for i in range(nshards)]
    with concurrent.futures.ProcessPoolExecutor(max_workers=a.jobs) as ex:
        results = list(ex.map(run_shard, shards))
    flat = []
    for sh, rs in zip(shards, results):
        flat += list(zip(sh, rs))
    # -- tally --
    tally = collections.Counter()
    skips = collections.Counter()
    skip_detail = collections.defaultdict(collections.Counter)
    features = collections.Counter()
    disagreements = []
    stmts_compared, stmts_all = set(), set()
    for (h, s), (st, info) in flat:
        stmts_all.add(h)
        if st == "skip" and (h, s) in extra:
            tally["hand-written statements (EXTRA_SQL): pairs skipped (" + info["reason"] + ")"] += 1
        if st == "skip":
            skips[info["reason"]] += 1
            if info.get("detail"):
                skip_detail[info["reason"]][info["detail"]] += 1
            continue
        stmts_compared.add(h)
        if (h, s) in extra:
            tally["hand-written statements (EXTRA_SQL): pairs compared"] += 1
        cls = "determinate" if info["determinate"] else "order-dependent"
        tally["compared"] += 1
        tally["compared/" + cls] += 1
        tally[st] += 1
        tally[st + "/" + cls] += 1
        if info["orderKind"]:
            tally["order-dependent (" + info["orderKind"] + "): " + ("agree" if st != "disagree" else "disagree")] += 1
        if info["outerTotal"]:
            tally["outer ORDER BY total: list comparison required"] += 1
        elif st != "disagree":
            key = "outer ORDER BY with ties" if info["outerOrderBy"] else "no outer ORDER BY"
            tally[key + ": " + ("order coincides" if st == "agree-list" else "order differs, multisets equal")] += 1
            if info["rows"] >= 2:
                tally[key + ", >=2 rows: " + ("order coincides" if st == "agree-list" else "order differs")] += 1
        if info["renamed"]:
            tally["column-name ':N' suffix normalised"] += 1
        if info["truefalse"]:
            tally["column named true/false renamed by SQLite, normalised"] += 1
        for f in info["features"]:
            features[f] += 1
        if st == "disagree":
            disagreements.append(info)
    disagreements.sort(key=lambda d: (not d["determinate"], len(d["sql"]), d["sql"], d["dbseed"]))
    # gate: statements whose result standard SQL determines.  A LIMIT that cuts rows whose order no
    # total ORDER BY of the same SELECT fixes may return any of several tables; there the
    # reference's input-order convention is compared with SQLite's behaviour and only reported.
    known = [d for d in disagreements if d["determinate"] and d.get("known")]
    gating = [d for d in disagreements if d["determinate"] and (a.strict or not d.get("known"))]
    report = {
        "tier": a.tier, "generatorSeed": a.seed, "databasesPerCase": dbs, "sqlite": sqlite3.sqlite_version,
        "caseLines": len(lines), "caseLinesNotOK": not_ok,
        "pairs": len(cases), "distinctStatements": len(stmts_all), "distinctStatementsCompared": len(stmts_compared),
        "tally": dict(sorted(tally.items())), "skipped": dict(skips.most_common()),
        "skippedDetail": {k: dict(v.most_common(12)) for k, v in skip_detail.items()},
        "featuresInComparedStatements": dict(features.most_common()),
        "exclusions": EXCLUSIONS,
        "disagreements": len(gating), "disagreementsOrderDependentNotGating": len([d for d in disagreements if not d["determinate"]]),
        "knownDeviations": dict(collections.Counter(d["known"] for d in known)), "knownDeviationSamples": known[:10],
        "disagreementSamples": gating[:40], "orderDependentSamples": [d for k in ("derived-table-order", "ties-at-the-cut", "unordered-input")
                                  for d in [x for x in disagreements if x["orderKind"] == k][:8]],
        "seconds": round(time.time() - t0, 1),
    }
    os.makedirs(os.path.dirname(a.out), exist_ok=True)
    with open(a.out, "w") as f:
        json.dump(report, f, indent=1)
    nskip = sum(skips.values())
    print("sqlite-crosscheck tier=%s seed=%d: %d (statement,database) pairs, %d distinct statements; compared %d "
          "(%d distinct statements): agreed as ordered lists %d, as multisets only %d, DISAGREED %d (known deviations X1-DIV / X1-COUNT: %d) "
          "(+ %d of %d order-dependent ones, not gating; determinate %d); skipped %d [%s]; %.1fs; %s"
          % (a.tier, a.seed, len(cases), len(stmts_all), tally["compared"], len(stmts_compared), tally["agree-list"],
             tally["agree-multiset"], len(gating), len(known) if not a.strict else 0,
             len([d for d in disagreements if not d["determinate"]]), tally["compared/order-dependent"],
             tally["compared/determinate"],
             nskip, ", ".join("%s %d" % kv for kv in skips.most_common()), time.time() - t0, os.path.relpath(a.out, ROOT)))
    KNOWN_TEXT = {
        "X1-DIV": "integer / and % with a negative operand: the reference computes Int.ediv / Int.emod (remainder >= 0), "
                  "SQL engines truncate toward zero",
        "X1-COUNT": "count(x): the reference ignores the argument and counts rows, SQL counts the rows where x IS NOT NULL "
                    "(reached by the pass-through spellings Count(x) / COUNT(x))",
    }
    by_known = collections.defaultdict(list)
    for d in known:
        by_known[d["known"]].append(d)
    for k, ds in sorted(by_known.items()):
        print("KNOWN-FINDING: %s explains %d disagreeing pairs exactly (SQLite returns the reference's table once the "
              "construct is replaced by the reference's reading of it): %s; e.g. db-seed %d: %s"
              % (k, len(ds), "; ".join(KNOWN_TEXT.get(x, x) for x in k.split("+")), ds[0]["dbseed"], ds[0]["sql"].replace("\n", " ")))
    if a.verbose or gating:
        for k, v in sorted(tally.items()):
            print("  %-70s %d" % (k, v))
    for d in (disagreements[:10] if a.verbose else gating[:10]):
        print("DISAGREEMENT (%s) db-seed %d%s\n  %s\n  db        %s\n  reference %s %s\n  sqlite    %s %s" % (
            d["what"], d["dbseed"], "" if d["determinate"] else " [order-dependent]", d["sql"].replace("\n", "\n  "),
            d["db"], d["reference"]["cols"], d["reference"]["rows"], d["sqlite"]["cols"], d["sqlite"]["rows"]))
    return 1 if gating else 0


if __name__ == "__main__":
    sys.exit(main())
