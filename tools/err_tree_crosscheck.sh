#!/bin/sh
# tools/err_tree_crosscheck.sh [n] — evidence for the hand-written parts of Model/ErrIR.lean (`leaves`, mirroring the
# harness hook parser.VerifErrors, and the stated meaning of errors.As / errors.Join): a scratch copy of /repo gets a
# generator (tools/err_treegen.go.txt) that builds n random error trees — also ones no production builds: bare
# notFoundError, joins in joins, parseError in parseError — and prints, as Lean `#guard` lines, what the REAL Go
# functions (VerifErrors, isNotFound, makeErrorOpaque, joinErrors) return; Lean then checks `leaves`, `errorsAsI`,
# `goOpaque`, `goJoin` against them.  Not part of ./check (it needs a writable copy of the package).
set -e
N=${1:-300}
HERE=$(cd "$(dirname "$0")/.." && pwd)
W=$(mktemp -d)
cp -r /repo "$W/repo" && rm -rf "$W/repo/.git"
cp "$HERE/tools/err_treegen.go.txt" "$W/repo/parser/verif_treegen.go"
mkdir "$W/gen" && cd "$W/gen"
cat > go.mod <<EOM
module gen

go 1.21.6

require github.com/runreveal/pql v0.0.0

replace github.com/runreveal/pql => $W/repo
EOM
cp /repo/go.sum .
cat > main.go <<'EOM'
package main

import (
	"fmt"

	"github.com/runreveal/pql/parser"
)

func main() { fmt.Print(parser.VerifTreeCrosscheck(7, NNN)) }
EOM
sed -i "s/NNN/$N/" main.go
GOFLAGS=-mod=mod GOPROXY=off GOSUMDB=off GOTOOLCHAIN=local go run -tags verif . > "$W/cross.lean"
cd "$HERE/lean" && lake env lean "$W/cross.lean" && echo "err_tree_crosscheck: $(grep -c '^#guard' "$W/cross.lean") guards hold"
rm -rf "$W"
