#!/usr/bin/env python3
"""tools/merge_translator.py <agent-id>
Brings the work of a translator sub-agent (a full copy of /verif under /tmp/agents/<id>/verif) into /verif:
new harness/*.go and lean files are copied; steps of extractFacts missing here are appended to the step list;
lean_targets / facts of checkconf.py and the #print axioms / import lines of Audit/*.lean are united;
lean/PqlModel.lean is regenerated.  Existing files that differ are reported, never overwritten."""
import sys, os, re, shutil, filecmp, ast
A = f'/tmp/agents/{sys.argv[1]}/verif'
V = '/verif'

# 1. new files
for sub in ('harness', 'lean/PqlModel/Model', 'lean/PqlModel/Lemmas', 'lean/PqlModel/Props', 'lean/PqlModel/Spec'):
    for f in sorted(os.listdir(f'{A}/{sub}')):
        a, b = f'{A}/{sub}/{f}', f'{V}/{sub}/{f}'
        if not os.path.isfile(a) or f == 'go.sum':
            continue
        if not os.path.exists(b):
            shutil.copy(a, b); print('new', sub, f)
        elif not filecmp.cmp(a, b, shallow=False) and f not in ('extract.go',):
            print('DIFFERS (not copied):', sub, f)

# 2. extractor steps
mine = open(f'{V}/harness/extract.go').read()
theirs = open(f'{A}/harness/extract.go').read()
steps_m = re.findall(r'\{"(\w+)", ex\.(\w+)\}', mine)
steps_t = re.findall(r'\{"(\w+)", ex\.(\w+)\}', theirs)
new = [s for s in steps_t if s not in steps_m]
if new:
    last = '{"%s", ex.%s}' % steps_m[-1]
    add = ''.join(', {"%s", ex.%s}' % s for s in new)
    # insert before the last step (pkgVars) to keep it last
    mine = mine.replace(last, add.lstrip(', ') + ', ' + last, 1)
    open(f'{V}/harness/extract.go', 'w').write(mine)
    print('steps added:', [s[0] for s in new])

# 3. checkconf
def props_of(path):
    src = open(path).read()
    ns = {}
    exec(compile(src, path, 'exec'), ns)
    return ns['PROPS']
pm, pt = props_of(f'{V}/checkconf.py'), props_of(f'{A}/checkconf.py')
s = open(f'{V}/checkconf.py').read()
for prop in pt:
    for key in ('lean_targets', 'facts'):
        have = pm[prop].get(key, []); want = pt[prop].get(key, [])
        extra = [x for x in want if x not in have]
        if not extra:
            continue
        m = re.search(r'("%s": \{.*?"%s": \[)([^\]]*)\]' % (prop, key), s, re.S)
        cur = m.group(2)
        for x in extra:
            cur += (', ' if cur.strip() else '') + '"%s"' % x
        s = s[:m.start(2)] + cur + s[m.end(2):]
        print(prop, key, '+', extra)
open(f'{V}/checkconf.py', 'w').write(s)

# 4. audits
for f in sorted(os.listdir(f'{A}/lean/PqlModel/Audit')):
    a, b = f'{A}/lean/PqlModel/Audit/{f}', f'{V}/lean/PqlModel/Audit/{f}'
    if not os.path.exists(b):
        shutil.copy(a, b); print('new audit', f); continue
    ta, tb = open(a).read(), open(b).read()
    lines = tb.split('\n')
    i = max(k for k, l in enumerate(lines) if l.startswith('import '))
    n = 0
    for l in ta.split('\n'):
        if l.startswith('import ') and l not in tb:
            lines.insert(i + 1, l); i += 1; n += 1
    tb = '\n'.join(lines).rstrip('\n') + '\n'
    for l in ta.split('\n'):
        if l.startswith('#print axioms') and l not in tb:
            tb += l + '\n'; n += 1
    if n:
        open(b, 'w').write(tb); print('audit', f, '+', n)

# 5. root imports
mods = []
for r, d, fs in os.walk(f'{V}/lean/PqlModel'):
    for x in fs:
        if x.endswith('.lean') and '/Audit' not in r:
            mods.append((r + '/' + x)[len(f'{V}/lean/'):-5].replace('/', '.'))
open(f'{V}/lean/PqlModel.lean', 'w').write(''.join(f'import {m}\n' for m in sorted(mods)))
print('ok')
