#!/bin/bash
# usage: tools/confirm_mutant.sh <id> <worktree> <patch>
# Confirms in the scratch worktree: suite passes with the change, demo fails with it and passes without it.
set -u
id="$1"; wt="$2"; patch="$3"
export GOFLAGS=-mod=mod GOPROXY=off GOSUMDB=off GOTOOLCHAIN=local
cd "$wt" || exit 2
git checkout -q -- . 2>/dev/null
git apply "$patch" || { echo "$id: patch does not apply"; exit 1; }
suite=$(go test -vet=off -count=1 . ./cmd/... ./parser/... 2>&1 | tail -4 | tr '\n' ' ')
demo_with=$(go test -vet=off -count=1 ./mutdemo/ 2>&1 | tail -1)
git checkout -q -- .
demo_without=$(go test -vet=off -count=1 ./mutdemo/ 2>&1 | tail -1)
echo "$id suite-with-change: $suite"
echo "$id demo-with-change: $demo_with"
echo "$id demo-without-change: $demo_without"
