#!/bin/bash
# runs every harmless/*.diff against the checks of the properties its area touches; prints one line per (patch, property)
cd /verif
props_for() { case "$1" in
  H01*) echo "C09 C15 C12 C04";; H02*) echo "C07 C08 C10 C12";; H03*) echo "C07 C08 C10 C12 C01";;
  H04*) echo "C01 C05 C13 C02";; H05*) echo "C02 C03 C05 C13 C01";; H06*) echo "C11 C10 C12 C03";;
  H07*) echo "C16 C15";; H08*) echo "C06 C13 C14 C05 C03";;
  H11*) echo "C03 C02 C05 C04";; H12*) echo "C01 C05 C04 C06";; H13*) echo "C05 C02 C03 C04";; H14*) echo "C16";;
  H15*) echo "C10 C08 C13 C14 C16 C07";; H16*) echo "C02 C05 C01 C04";; H17*) echo "C09 C15 C11 C07 C10 C12";; H18*) echo "C14 C06 C07 C09";; esac; }
for f in harmless/*.diff; do
  id=$(basename $f .diff)
  tools/try_harmless.sh $f $(props_for $id) 2>&1 | sed "s/^/$id /" | cut -c1-160
done
