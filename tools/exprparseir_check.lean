/-
Driver-level comparison of the interpretation of the regenerated expression-parser IR (`runUnit`,
Model/ExprParseIR.lean) with the model's productions, including the places where either runs out of fuel:
for every source of the list and every fuel of the list, `expr` and `exprList` must give the same value,
errors and rest, or the interpreter must report `Out.fuel` exactly when the model's result carries its
fuel leaf.  Run:  cd lean && lake env lean ../tools/exprparseir_check.lean   (prints `[]` when all agree)
-/
import PqlModel.Model.ExprParseIR
open Pql Pql.ExprParseIR

def showOut (o : Out (List Val × PState)) : String :=
  match o with
  | .ok ([.expr e, .err es], p) => "ok " ++ e.dump ++ " | " ++ reprStr es ++ " | " ++ toString p.rest.length
  | .ok ([.exprs l, .err es], p) => "ok [" ++ l.dump ++ "] | " ++ reprStr es ++ " | " ++ toString p.rest.length
  | .ok _ => "ok ???"
  | .panic => "panic" | .stuck => "stuck" | .fuel => "fuel"
def showRes (r : PRes Expr) : String := "ok " ++ r.val.dump ++ " | " ++ reprStr r.errs ++ " | " ++ toString r.rest.length
def showResL (r : PRes ExprList) : String := "ok [" ++ r.val.dump ++ "] | " ++ reprStr r.errs ++ " | " ++ toString r.rest.length
def hasFuel (es : Errs) : Bool := es.any (·.fuel)

def srcs : List String := ["a", "1+2*3", "a.b.c", "f(1, 2,)", "f()", "(1", "a[1][2]", "a in (1,2) and b", "a in", "a in 1", "-x + +y", "a +", "", ")", "f(1 2)", "a[", "a[1", "x == 1 or y != 2 and z", "1 + (2 * (3 - 4))", "a.", "f(,)", "a in (1,", "a in ()", "1,2,3", "1,,2", "1, )", "`q`.x(1)", "a b", "f(a[1)]", "((1)", "a in (1 2) + 3"]

def check (s : String) (F : Nat) : String :=
  let bs := Bytes.ofString s
  let ts := scan bs
  let c : ICtx := ⟨bs.length, [1,2,3]⟩
  let o := runUnit c F "expr" [] ⟨ts, none, none⟩
  let m := pExpr c.pctx F ts
  let ol := runUnit c F "exprList" [] ⟨ts, none, none⟩
  let ml := pExprList c.pctx F ts
  let a := showOut o; let b := showRes m
  let al := showOut ol; let bl := showResL ml
  let r1 := if a == b then "same" else if a == "fuel" && hasFuel m.errs then "fuel-both" else "DIFF expr: " ++ a ++ " /// " ++ b
  let r2 := if al == bl then "same" else if al == "fuel" && hasFuel ml.errs then "fuel-both" else "DIFF list: " ++ al ++ " /// " ++ bl
  s!"{s} F={F}: {r1}; {r2}"

#eval (srcs.flatMap fun s => [0,1,2,3,4,5,6,7,8,10,12,15,20,40,100].map (check s)).filter (fun r => (r.splitOn "DIFF").length > 1)
