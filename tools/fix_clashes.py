#!/usr/bin/env python3
"""Make every module importable together: while `lake build PqlModel` reports
"import X failed, environment already contains 'N' from Y", rename N's last component in X and in
all modules that transitively import X (they cannot also import Y, or they would not build)."""
import re, subprocess, os, sys
LEAN = '/verif/lean'
def modfile(m): return f"{LEAN}/{m.replace('.', '/')}.lean"
def imports():
    g = {}
    for r, d, fs in os.walk(f'{LEAN}/PqlModel'):
        for f in fs:
            if f.endswith('.lean'):
                p = os.path.join(r, f); m = p[len(LEAN)+1:-5].replace('/', '.')
                g[m] = re.findall(r'^import (PqlModel\.\S+)', open(p).read(), re.M)
    return g
def dependents(g, x):
    out = {x}; changed = True
    while changed:
        changed = False
        for m, im in g.items():
            if m not in out and any(i in out for i in im): out.add(m); changed = True
    return out
for it in range(200):
    r = subprocess.run(['lake', 'build', 'PqlModel'], cwd=LEAN, capture_output=True, text=True)
    out = r.stdout + r.stderr
    m = re.search(r"import (\S+) failed, environment already contains '([^']+)' from (\S+)", out)
    if not m:
        print('done' if 'Build completed' in out else out[-2000:]); break
    x, name, y = m.groups(); short = name.split('.')[-1]
    suffix = '_' + x.split('.')[-1][:6].lower()
    new = short + suffix
    g = imports()
    deps = dependents(g, x) - {'PqlModel'}
    pat = re.compile(r"(?<![A-Za-z0-9_'!?])" + re.escape(short) + r"(?![A-Za-z0-9_'!?])")
    n = 0
    for d in deps:
        p = modfile(d)
        if d == 'PqlModel' or not os.path.exists(p): continue
        s = open(p).read(); s2 = pat.sub(new, s)
        if s2 != s: open(p, 'w').write(s2); n += 1
    print(f'{name}: {x} vs {y}: renamed to {new} in {n} files')
