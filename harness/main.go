// Command harness is the Go side of the verification machinery for runreveal/pql.
//
//	harness extract              print Generated/Facts.lean for /repo's working tree
//	harness cases <set> <tier>   generate cases for a case set, run the real code on each,
//	                             print one line per case:  OP field… | result…
//	harness replay               read "OP field…" lines on stdin, print them with results
//
// Everything random derives from VERIF_SEED through one PRNG stream.
package main

import (
	"bufio"
	"fmt"
	"math/rand"
	"os"
	"strconv"
	"strings"
	"sync"
	"time"
)

var rng *rand.Rand
var seed int64

func main() {
	if len(os.Args) < 2 {
		fmt.Fprintln(os.Stderr, "usage: harness extract|cases|replay …")
		os.Exit(2)
	}
	seed = 1
	if s := os.Getenv("VERIF_SEED"); s != "" {
		if v, err := strconv.ParseInt(s, 10, 64); err == nil {
			seed = v
		}
	}
	rng = rand.New(rand.NewSource(seed))
	switch os.Args[1] {
	case "extract":
		if err := extractFacts(os.Stdout); err != nil {
			fmt.Fprintln(os.Stderr, "extract:", err)
			os.Exit(1)
		}
	case "cases":
		if len(os.Args) < 4 {
			fmt.Fprintln(os.Stderr, "usage: harness cases <set> <tier>")
			os.Exit(2)
		}
		gen, ok := caseSets[os.Args[2]]
		if !ok {
			fmt.Fprintln(os.Stderr, "unknown case set", os.Args[2])
			os.Exit(2)
		}
		var cases []Case
		gen(os.Args[3], func(op string, fields ...string) {
			cases = append(cases, Case{op, fields})
		})
		runAll(cases)
	case "consts":
		constsMain(os.Args[2:])
	case "firstuse":
		firstUseMain(os.Args[2:])
	case "replay":
		var cases []Case
		sc := bufio.NewScanner(os.Stdin)
		sc.Buffer(make([]byte, 1<<20), 1<<28)
		for sc.Scan() {
			line := sc.Text()
			if i := strings.Index(line, " | "); i >= 0 {
				line = line[:i]
			}
			f := strings.Fields(line)
			if len(f) == 0 {
				continue
			}
			cases = append(cases, Case{f[0], f[1:]})
		}
		runAll(cases)
	default:
		fmt.Fprintln(os.Stderr, "unknown subcommand", os.Args[1])
		os.Exit(2)
	}
}

// Case is one line of the protocol before the implementation's answer is appended.
type Case struct {
	Op     string
	Fields []string
}

var caseSets = map[string]func(tier string, emit func(op string, fields ...string)){}

// first pass (16 workers in parallel): a case that does not return within caseTimeout is set aside and
// run again on its own with retryTimeout; only then is it reported as "HANG"
const caseTimeout = 5 * time.Second
const retryTimeout = 10 * time.Second
const maxHangs = 32

// runAll runs the implementation on every case (in parallel, output in order).
// A panic is reported as "PANIC", a case that does not return within caseTimeout
// as "HANG"; after maxHangs hangs the remaining cases are reported as "SKIPPED"
// (a hung goroutine cannot be killed and keeps a core busy).
func runAll(cases []Case) {
	results := make([]string, len(cases))
	var hangs int
	var mu sync.Mutex
	workers := 16
	var wg sync.WaitGroup
	next := 0
	for w := 0; w < workers; w++ {
		wg.Add(1)
		go func() {
			defer wg.Done()
			for {
				mu.Lock()
				i := next
				next++
				h := hangs
				mu.Unlock()
				if i >= len(cases) {
					return
				}
				if h >= maxHangs {
					results[i] = "SKIPPED"
					continue
				}
				done := make(chan string, 1)
				go func(c Case) {
					defer func() {
						if r := recover(); r != nil {
							done <- "PANIC " + hexs(fmt.Sprint(r))
						}
					}()
					done <- runCase(c)
				}(cases[i])
				select {
				case r := <-done:
					results[i] = r
				case <-time.After(caseTimeout):
					// not a verdict yet: the machine may just be busy; the case is run again on
					// its own, with nothing else running, after the pool has finished
					results[i] = "HANG?"
					mu.Lock()
					hangs++
					mu.Unlock()
				}
			}
		}()
	}
	wg.Wait()
	for i := range cases {
		if results[i] != "HANG?" {
			continue
		}
		done := make(chan string, 1)
		go func(c Case) {
			defer func() {
				if r := recover(); r != nil {
					done <- "PANIC " + hexs(fmt.Sprint(r))
				}
			}()
			done <- runCase(c)
		}(cases[i])
		select {
		case r := <-done:
			results[i] = r
			hangs--
		case <-time.After(retryTimeout):
			results[i] = "HANG"
		}
	}
	out := bufio.NewWriterSize(os.Stdout, 1<<20)
	for i, c := range cases {
		out.WriteString(c.Op)
		for _, f := range c.Fields {
			out.WriteByte(' ')
			out.WriteString(f)
		}
		out.WriteString(" | ")
		out.WriteString(results[i])
		out.WriteByte('\n')
	}
	out.Flush()
	if hangs > 0 {
		// Leaked goroutines may still be spinning: leave at once.
		os.Exit(0)
	}
}

const hexdigits = "0123456789abcdef"

// hexs encodes a byte string for the line protocol ("-" is the empty string).
func hexs(s string) string {
	if s == "" {
		return "-"
	}
	b := make([]byte, 0, 2*len(s))
	for i := 0; i < len(s); i++ {
		b = append(b, hexdigits[s[i]>>4], hexdigits[s[i]&15])
	}
	return string(b)
}

func unhex(h string) string {
	if h == "-" {
		return ""
	}
	b := make([]byte, 0, len(h)/2)
	for i := 0; i+1 < len(h); i += 2 {
		v, _ := strconv.ParseUint(h[i:i+2], 16, 8)
		b = append(b, byte(v))
	}
	return string(b)
}
