package main

import (
	"fmt"
	"io"
)

func extractFacts(w io.Writer) error {
	fmt.Fprintln(w, "-- TODO")
	return nil
}
