package main

import (
	"fmt"
	"reflect"
	"strings"

	"github.com/runreveal/pql/parser"
)

// WALK src mask | per statement:  n (Type:start:end | NIL | PANIC)*  joined by " ;; "
// The visitor answers mask[i mod len] == '1' at its i-th call (empty mask: always true).
func init() {
	moreOps["WALK"] = func(c Case) string {
		src := unhex(c.Fields[0])
		mask := ""
		if len(c.Fields) > 1 && c.Fields[1] != "-" {
			mask = c.Fields[1]
		}
		stmts, err := parser.Parse(src)
		if err != nil {
			return "NOPARSE"
		}
		var parts []string
		for _, st := range stmts {
			t := walkTrace(st, mask)
			// history: a walk that its visitor aborts (panic, recovered by the caller) must not
			// influence a later walk; if it does, the later trace is what is reported
			for _, k := range []int{1, 2, 5} {
				abortedWalk(st, k)
				if t2 := walkTrace(st, mask); t2 != t {
					t = t2
					break
				}
			}
			parts = append(parts, t)
		}
		return fmt.Sprintf("%d", len(stmts)) + func() string {
			if len(parts) == 0 {
				return ""
			}
			return " ;; " + strings.Join(parts, " ;; ")
		}()
	}
}

func walkTrace(root parser.Node, mask string) (res string) {
	var evs []string
	defer func() {
		if r := recover(); r != nil {
			evs = append(evs, "PANIC")
		}
		res = strings.Join(evs, " ")
	}()
	i := 0
	parser.Walk(root, func(n parser.Node) bool {
		ans := true
		if mask != "" {
			ans = mask[i%len(mask)] == '1'
		}
		i++
		v := reflect.ValueOf(n)
		if n == nil || (v.Kind() == reflect.Pointer && v.IsNil()) {
			evs = append(evs, "NIL")
			return ans
		}
		sp := n.Span()
		evs = append(evs, fmt.Sprintf("%s:%d:%d", v.Elem().Type().Name(), sp.Start, sp.End))
		return ans
	})
	return
}

type walkAbort struct{}

// abortedWalk walks root and panics out of the visitor at its k-th call
func abortedWalk(root parser.Node, k int) {
	defer func() { recover() }()
	i := 0
	parser.Walk(root, func(n parser.Node) bool {
		i++
		if i >= k {
			panic(walkAbort{})
		}
		return true
	})
}
