package main

// Translator for the input/output plumbing of the command-line tool (cmd/pql/main.go):
// `(*multiReadCloser).Read`, `(*multiReadCloser).Close`, `makeInput`, `makeOutput`, `isTerminal`.
// Every function body becomes one flat, prefix-coded list of items (an item is a list of strings);
// blocks are closed by ["end"], an `if` may have an ["else"] part.  Expressions and conditions are
// prefix-coded inside an item, after the item's fixed arguments.
//
// The operating system is NOT translated: `os.Open`, `os.Create`, `os.Stdin`, `os.Stdout`, the `Read` and
// `Close` of an underlying reader, `term.IsTerminal` are primitives whose meaning Model/CliIOIR.lean takes
// from a world of reader objects (a reader is the script of the results of its `Read` calls).  The two
// wrapper types are checked here: `nopReadCloser` / `nopWriteCloser` must be structs with the single
// embedded field `io.Reader` / `io.Writer` and a `Close` whose body is `return nil`; `multiReadCloser`
// must be a struct with the single field `readers []io.ReadCloser`.
//
// statements
//
//	["while", C…] … ["end"]              for C { … }
//	["forever"] … ["end"]                for { … }
//	["range", v, E…] … ["end"]           for _, v := range E { … }
//	["if", C…] … [["else"] …] ["end"]
//	["scope"] … ["end"]                  { … }; `if init; C {A}` is ["scope"], init, ["if", C…] A ["end"], ["end"]
//	["read", L, L, b, E…]                L, L = E.Read(b)                 (E an io.ReadCloser, b the []byte parameter)
//	["close", L, E…]                     L = E.Close()                    (L = blank: the call is a statement)
//	["open", L, L, E…]                   L, L := os.Open(E)
//	["assign", L, E…]                    L = E  /  L := E
//	["setelem", v, f, i, E…]             v.f[i] = E
//	["vardecl", v, T]                    var v T
//	["continue"]
//	["return", n, E1…En]                 return E1, …, En                 (n = 0: the named results)
//	["returncall", f, E…]                return os.Open(E) / return os.Create(E)     (f = open | create)
//	["typeswitch", v, r] (["case", T] …)* [["default"] …] ["end"]        switch v := r.(type) { case T: … default: … }
//	["returnisterm", v]                  return term.IsTerminal(int(v.Fd()))
//
// targets L:  blank | def v | set v | fset v f (v.f = …)
//
// expressions E
//
//	var v | nil | int n | str "s" | bool b | eof (io.EOF) | fld f E (E.f) | idx i E (E[i]) | from i E (E[i:]) |
//	len E | append E E | emptyslice T (make([]T, 0, len(w))) | nopr (nopReadCloser{os.Stdin}) |
//	nopw (nopWriteCloser{os.Stdout}) | newmulti E (&multiReadCloser{E})
//
// conditions C
//
//	eq E E | ne E E | gt E E | and C C | or C C
//
// Any other statement, expression or condition shape is an error (the step fails, nothing is skipped).
// Model/CliIOIR.lean decodes and interprets the items; Props/C16IOIR*.lean prove the hand-written model
// (`CliIO.multiRead`, `CliIO.makeInput`) equal to the interpretation of what is regenerated here.

import (
	"fmt"
	"go/ast"
	"go/token"
	"strconv"
	"strings"
)

type iotrans struct {
	ex      *extractor
	unit    string
	scopes  []map[string]string // variable → static type
	results [][2]string         // (name or "", type)
}

func (t *iotrans) errf(n ast.Node, format string, args ...interface{}) error {
	first := strings.SplitN(t.ex.src(n), "\n", 2)[0]
	return fmt.Errorf("cliIOIR %s: %s: %s", t.unit, fmt.Sprintf(format, args...), first)
}

func (t *iotrans) push() { t.scopes = append(t.scopes, map[string]string{}) }
func (t *iotrans) pop()  { t.scopes = t.scopes[:len(t.scopes)-1] }
func (t *iotrans) declare(v, ty string) {
	if v != "_" {
		t.scopes[len(t.scopes)-1][v] = ty
	}
}
func (t *iotrans) lookup(v string) (string, bool) {
	for i := len(t.scopes) - 1; i >= 0; i-- {
		if ty, ok := t.scopes[i][v]; ok {
			return ty, true
		}
	}
	return "", false
}
func (t *iotrans) inCurrent(v string) bool {
	_, ok := t.scopes[len(t.scopes)-1][v]
	return ok
}

var ioReserved = map[string]bool{"os": true, "io": true, "term": true, "fmt": true, "len": true, "append": true, "make": true,
	"nil": true, "true": true, "false": true, "int": true, "new": true, "panic": true, "nopReadCloser": true,
	"nopWriteCloser": true, "multiReadCloser": true}

func (t *iotrans) varName(e ast.Expr) (string, string, bool) {
	id, ok := e.(*ast.Ident)
	if !ok || id.Name == "_" || ioReserved[id.Name] {
		return "", "", false
	}
	ty, ok := t.lookup(id.Name)
	return id.Name, ty, ok
}

// a package name or a type name of cmd/pql used as such: it must not be shadowed by a variable
func (t *iotrans) free(name string) bool {
	_, shadow := t.lookup(name)
	return !shadow
}

func (t *iotrans) isPkg(e ast.Expr, pkg, name string) bool {
	return isPkgSel(e, pkg, name) && t.free(pkg)
}

// the struct type `name` of cmd/pql: its fields as (name, type); an embedded field is named after its type
func (t *iotrans) structFields(name string) ([][2]string, bool) {
	for _, f := range t.ex.pkgs["cmd"] {
		for _, d := range f.Decls {
			gd, ok := d.(*ast.GenDecl)
			if !ok || gd.Tok != token.TYPE {
				continue
			}
			for _, s := range gd.Specs {
				ts := s.(*ast.TypeSpec)
				st, ok := ts.Type.(*ast.StructType)
				if ts.Name.Name != name || !ok {
					continue
				}
				var out [][2]string
				for _, fl := range st.Fields.List {
					ty := typeString(fl.Type)
					if len(fl.Names) == 0 {
						out = append(out, [2]string{ty[strings.LastIndex(ty, ".")+1:], ty})
					}
					for _, n := range fl.Names {
						out = append(out, [2]string{n.Name, ty})
					}
				}
				return out, true
			}
		}
	}
	return nil, false
}

func (t *iotrans) fieldType(structName, field string) (string, bool) {
	fs, ok := t.structFields(strings.TrimPrefix(structName, "*"))
	if !ok {
		return "", false
	}
	for _, f := range fs {
		if f[0] == field {
			return f[1], true
		}
	}
	return "", false
}

func smallInt(e ast.Expr) (string, bool) {
	l, ok := e.(*ast.BasicLit)
	if !ok || l.Kind != token.INT {
		return "", false
	}
	if _, err := strconv.ParseUint(l.Value, 10, 31); err != nil {
		return "", false
	}
	return l.Value, true
}

// can a value of static type `from` be stored where `to` is expected (as far as the translated code needs it)
func ioAssignable(from, to string) bool {
	if from == to {
		return true
	}
	switch to {
	case "io.ReadCloser":
		return from == "nil" || from == "nopReadCloser" || from == "*os.File" || from == "*multiReadCloser"
	case "io.WriteCloser":
		return from == "nil" || from == "nopWriteCloser" || from == "*os.File"
	case "io.Reader":
		return from == "nil" || from == "io.ReadCloser" || from == "*os.File"
	case "error":
		return from == "nil"
	case "[]io.ReadCloser", "[]string":
		return from == "nil"
	}
	return false
}

func (t *iotrans) expr(e ast.Expr) ([]string, string, error) {
	switch x := e.(type) {
	case *ast.ParenExpr:
		return t.expr(x.X)
	case *ast.Ident:
		switch x.Name {
		case "nil":
			if t.free("nil") {
				return []string{"nil"}, "nil", nil
			}
		case "true", "false":
			if t.free(x.Name) {
				return []string{"bool", x.Name}, "bool", nil
			}
		}
		if v, ty, ok := t.varName(e); ok {
			return []string{"var", v}, ty, nil
		}
	case *ast.BasicLit:
		if s, ok := strLit(x); ok {
			return []string{"str", s}, "string", nil
		}
		if n, ok := smallInt(x); ok {
			return []string{"int", n}, "int", nil
		}
	case *ast.SelectorExpr:
		if t.isPkg(e, "io", "EOF") {
			return []string{"eof"}, "error", nil
		}
		if _, _, ok := t.varName(x.X); ok {
			inner, ity, err := t.expr(x.X)
			if err != nil {
				return nil, "", err
			}
			fty, ok := t.fieldType(ity, x.Sel.Name)
			if !ok {
				return nil, "", t.errf(e, "field %s of a value of type %s", x.Sel.Name, ity)
			}
			return append([]string{"fld", x.Sel.Name}, inner...), fty, nil
		}
	case *ast.IndexExpr:
		if i, ok := smallInt(x.Index); ok {
			inner, ity, err := t.expr(x.X)
			if err != nil {
				return nil, "", err
			}
			if !strings.HasPrefix(ity, "[]") {
				return nil, "", t.errf(e, "index into a value of type %s", ity)
			}
			return append([]string{"idx", i}, inner...), ity[2:], nil
		}
	case *ast.SliceExpr:
		if x.High == nil && x.Low != nil && !x.Slice3 {
			if i, ok := smallInt(x.Low); ok {
				inner, ity, err := t.expr(x.X)
				if err != nil {
					return nil, "", err
				}
				if !strings.HasPrefix(ity, "[]") {
					return nil, "", t.errf(e, "slice of a value of type %s", ity)
				}
				return append([]string{"from", i}, inner...), ity, nil
			}
		}
	case *ast.UnaryExpr:
		// &multiReadCloser{E}
		if x.Op == token.AND {
			if cl, ok := x.X.(*ast.CompositeLit); ok && isIdent(cl.Type, "multiReadCloser") && t.free("multiReadCloser") && len(cl.Elts) == 1 {
				fs, ok := t.structFields("multiReadCloser")
				if !ok || len(fs) != 1 || fs[0] != [2]string{"readers", "[]io.ReadCloser"} {
					return nil, "", t.errf(e, "multiReadCloser is not struct{ readers []io.ReadCloser }")
				}
				val := cl.Elts[0]
				if kv, ok := val.(*ast.KeyValueExpr); ok {
					if !isIdent(kv.Key, "readers") {
						return nil, "", t.errf(e, "multiReadCloser literal key")
					}
					val = kv.Value
				}
				inner, ity, err := t.expr(val)
				if err != nil {
					return nil, "", err
				}
				if !ioAssignable(ity, "[]io.ReadCloser") {
					return nil, "", t.errf(e, "multiReadCloser literal over a value of type %s", ity)
				}
				return append([]string{"newmulti"}, inner...), "*multiReadCloser", nil
			}
		}
	case *ast.CompositeLit:
		// nopReadCloser{os.Stdin}, nopWriteCloser{os.Stdout}
		for _, w := range [][4]string{{"nopReadCloser", "Stdin", "io.Reader", "nopr"}, {"nopWriteCloser", "Stdout", "io.Writer", "nopw"}} {
			if isIdent(x.Type, w[0]) && t.free(w[0]) && len(x.Elts) == 1 && t.isPkg(x.Elts[0], "os", w[1]) {
				fs, ok := t.structFields(w[0])
				if !ok || len(fs) != 1 || fs[0][1] != w[2] {
					return nil, "", t.errf(e, "%s is not struct{ %s }", w[0], w[2])
				}
				if err := t.nopClose(w[0]); err != nil {
					return nil, "", err
				}
				return []string{w[3]}, w[0], nil
			}
		}
	case *ast.CallExpr:
		if x.Ellipsis != token.NoPos {
			break
		}
		if c, ok := isCall(e, "len", 1); ok && t.free("len") {
			inner, ity, err := t.expr(c.Args[0])
			if err != nil {
				return nil, "", err
			}
			if !strings.HasPrefix(ity, "[]") {
				return nil, "", t.errf(e, "len of a value of type %s", ity)
			}
			return append([]string{"len"}, inner...), "int", nil
		}
		if c, ok := isCall(e, "append", 2); ok && t.free("append") {
			a, aty, err := t.expr(c.Args[0])
			if err != nil {
				return nil, "", err
			}
			b, bty, err := t.expr(c.Args[1])
			if err != nil {
				return nil, "", err
			}
			if !strings.HasPrefix(aty, "[]") || !ioAssignable(bty, aty[2:]) {
				return nil, "", t.errf(e, "append of a %s to a %s", bty, aty)
			}
			return append(append([]string{"append"}, a...), b...), aty, nil
		}
		// make([]T, 0, len(w)): an empty slice (the capacity is not observable)
		if c, ok := isCall(e, "make", 3); ok && t.free("make") {
			ty := typeString(c.Args[0])
			if l, ok := isCall(c.Args[2], "len", 1); ok && isIntLit(c.Args[1], "0") && strings.HasPrefix(ty, "[]") {
				if _, wty, ok := t.varName(l.Args[0]); ok && strings.HasPrefix(wty, "[]") {
					return []string{"emptyslice", ty[2:]}, ty, nil
				}
			}
		}
	}
	return nil, "", t.errf(e, "expression not of a known shape")
}

// func (T) Close() error { return nil }
func (t *iotrans) nopClose(ty string) error {
	fd := t.ex.funcDecl("cmd", ty, "Close")
	if fd == nil || fd.Type.Params.NumFields() != 0 || fd.Type.Results == nil || len(fd.Type.Results.List) != 1 ||
		typeString(fd.Type.Results.List[0].Type) != "error" || len(fd.Body.List) != 1 {
		return fmt.Errorf("cliIOIR %s: %s.Close is not `func (%s) Close() error { return nil }`", t.unit, ty, ty)
	}
	r, ok := fd.Body.List[0].(*ast.ReturnStmt)
	if !ok || len(r.Results) != 1 || !isIdent(r.Results[0], "nil") {
		return fmt.Errorf("cliIOIR %s: %s.Close does not just return nil", t.unit, ty)
	}
	return nil
}

func (t *iotrans) cond(e ast.Expr) ([]string, error) {
	switch x := e.(type) {
	case *ast.ParenExpr:
		return t.cond(x.X)
	case *ast.BinaryExpr:
		switch x.Op {
		case token.LAND, token.LOR:
			a, err := t.cond(x.X)
			if err != nil {
				return nil, err
			}
			b, err := t.cond(x.Y)
			if err != nil {
				return nil, err
			}
			k := "and"
			if x.Op == token.LOR {
				k = "or"
			}
			return append(append([]string{k}, a...), b...), nil
		case token.EQL, token.NEQ, token.GTR:
			a, aty, err := t.expr(x.X)
			if err != nil {
				return nil, err
			}
			b, bty, err := t.expr(x.Y)
			if err != nil {
				return nil, err
			}
			if !ioAssignable(bty, aty) && !ioAssignable(aty, bty) {
				return nil, t.errf(e, "comparison of a %s with a %s", aty, bty)
			}
			if x.Op == token.GTR && aty != "int" {
				return nil, t.errf(e, "> on a %s", aty)
			}
			if aty != "int" && aty != "string" && aty != "error" {
				return nil, t.errf(e, "comparison of values of type %s", aty)
			}
			k := map[token.Token]string{token.EQL: "eq", token.NEQ: "ne", token.GTR: "gt"}[x.Op]
			return append(append([]string{k}, a...), b...), nil
		}
	}
	return nil, t.errf(e, "condition not of a known shape")
}

// an assignment target; ty = static type of the value
func (t *iotrans) target(e ast.Expr, define bool, ty string) ([]string, error) {
	if isIdent(e, "_") {
		return []string{"blank"}, nil
	}
	if id, ok := e.(*ast.Ident); ok {
		if ioReserved[id.Name] {
			return nil, t.errf(e, "assignment target shadows a name the translation relies on")
		}
		if define && !t.inCurrent(id.Name) {
			return []string{"def", id.Name}, nil
		}
		if _, vty, ok := t.varName(e); ok {
			if !ioAssignable(ty, vty) {
				return nil, t.errf(e, "a %s assigned to a variable of type %s", ty, vty)
			}
			return []string{"set", id.Name}, nil
		}
		return nil, t.errf(e, "assignment to an unknown variable")
	}
	if sel, ok := e.(*ast.SelectorExpr); ok && !define {
		if v, vty, ok := t.varName(sel.X); ok {
			fty, ok := t.fieldType(vty, sel.Sel.Name)
			if !ok || !strings.HasPrefix(vty, "*") || !ioAssignable(ty, fty) {
				return nil, t.errf(e, "assignment to the field %s of a %s", sel.Sel.Name, vty)
			}
			return []string{"fset", v, sel.Sel.Name}, nil
		}
	}
	return nil, t.errf(e, "assignment target not of a known shape")
}

func (t *iotrans) targets(lhs []ast.Expr, define bool, types []string) ([]string, error) {
	var out []string
	var defs [][2]string
	for i, l := range lhs {
		tg, err := t.target(l, define, types[i])
		if err != nil {
			return nil, err
		}
		if tg[0] == "def" {
			defs = append(defs, [2]string{tg[1], types[i]})
		}
		out = append(out, tg...)
	}
	if define && len(defs) == 0 {
		return nil, t.errf(lhs[0], ":= that declares nothing")
	}
	for _, d := range defs {
		t.declare(d[0], d[1])
	}
	return out, nil
}

// E.Read(b) / E.Close() with E an io.ReadCloser
func (t *iotrans) readerCall(call *ast.CallExpr) (string, []string, string, bool, error) {
	sel, ok := call.Fun.(*ast.SelectorExpr)
	if !ok || call.Ellipsis != token.NoPos || (sel.Sel.Name != "Read" && sel.Sel.Name != "Close") {
		return "", nil, "", false, nil
	}
	if id, ok := sel.X.(*ast.Ident); ok && ioReserved[id.Name] {
		return "", nil, "", false, nil
	}
	recv, rty, err := t.expr(sel.X)
	if err != nil {
		return "", nil, "", true, err
	}
	if rty != "io.ReadCloser" {
		return "", nil, "", true, t.errf(call, "%s on a value of type %s", sel.Sel.Name, rty)
	}
	if sel.Sel.Name == "Close" {
		if len(call.Args) != 0 {
			return "", nil, "", true, t.errf(call, "Close with arguments")
		}
		return "close", recv, "", true, nil
	}
	if len(call.Args) != 1 {
		return "", nil, "", true, t.errf(call, "Read without exactly one argument")
	}
	b, bty, ok := t.varName(call.Args[0])
	if !ok || bty != "[]byte" {
		return "", nil, "", true, t.errf(call, "Read into something that is not a []byte variable")
	}
	return "read", recv, b, true, nil
}

func (t *iotrans) assign(as *ast.AssignStmt) ([]wItem, error) {
	define := as.Tok == token.DEFINE
	if as.Tok != token.DEFINE && as.Tok != token.ASSIGN {
		return nil, t.errf(as, "assignment operator")
	}
	if len(as.Rhs) != 1 {
		return nil, t.errf(as, "assignment with several right-hand sides")
	}
	rhs := as.Rhs[0]
	if call, ok := rhs.(*ast.CallExpr); ok {
		kind, recv, b, is, err := t.readerCall(call)
		if err != nil {
			return nil, err
		}
		if is && kind == "read" {
			if len(as.Lhs) != 2 {
				return nil, t.errf(as, "Read without two targets")
			}
			tg, err := t.targets(as.Lhs, define, []string{"int", "error"})
			if err != nil {
				return nil, err
			}
			return []wItem{append(append(append(wItem{"read"}, tg...), b), recv...)}, nil
		}
		if is && kind == "close" {
			if len(as.Lhs) != 1 {
				return nil, t.errf(as, "Close without one target")
			}
			tg, err := t.targets(as.Lhs, define, []string{"error"})
			if err != nil {
				return nil, err
			}
			return []wItem{append(append(wItem{"close"}, tg...), recv...)}, nil
		}
		if t.isPkg(call.Fun, "os", "Open") && len(call.Args) == 1 && call.Ellipsis == token.NoPos {
			a, aty, err := t.expr(call.Args[0])
			if err != nil {
				return nil, err
			}
			if aty != "string" || len(as.Lhs) != 2 || !define {
				return nil, t.errf(as, "os.Open not of the shape `f, err := os.Open(path)`")
			}
			tg, err := t.targets(as.Lhs, define, []string{"*os.File", "error"})
			if err != nil {
				return nil, err
			}
			return []wItem{append(append(wItem{"open"}, tg...), a...)}, nil
		}
	}
	if len(as.Lhs) != 1 {
		return nil, t.errf(as, "assignment not of a known shape")
	}
	// v.f[i] = E
	if ix, ok := as.Lhs[0].(*ast.IndexExpr); ok && !define {
		sel, ok := ix.X.(*ast.SelectorExpr)
		i, ok2 := smallInt(ix.Index)
		if ok && ok2 {
			if v, vty, ok := t.varName(sel.X); ok && strings.HasPrefix(vty, "*") {
				fty, ok := t.fieldType(vty, sel.Sel.Name)
				e, ety, err := t.expr(rhs)
				if err != nil {
					return nil, err
				}
				if !ok || !strings.HasPrefix(fty, "[]") || !ioAssignable(ety, fty[2:]) {
					return nil, t.errf(as, "element assignment of a %s into %s", ety, fty)
				}
				return []wItem{append(wItem{"setelem", v, sel.Sel.Name, i}, e...)}, nil
			}
		}
		return nil, t.errf(as, "element assignment not of the shape v.f[i] = E")
	}
	e, ety, err := t.expr(rhs)
	if err != nil {
		return nil, err
	}
	if define && ety == "nil" {
		return nil, t.errf(as, "variable defined as nil")
	}
	tg, err := t.targets(as.Lhs, define, []string{ety})
	if err != nil {
		return nil, err
	}
	return []wItem{append(append(wItem{"assign"}, tg...), e...)}, nil
}

func (t *iotrans) block(list []ast.Stmt) ([]wItem, error) {
	t.push()
	defer t.pop()
	return t.stmts(list)
}

func (t *iotrans) stmts(list []ast.Stmt) ([]wItem, error) {
	var out []wItem
	for _, st := range list {
		its, err := t.stmt(st)
		if err != nil {
			return nil, err
		}
		out = append(out, its...)
	}
	return out, nil
}

func (t *iotrans) stmt(st ast.Stmt) ([]wItem, error) {
	switch s := st.(type) {
	case *ast.ExprStmt:
		call, ok := s.X.(*ast.CallExpr)
		if !ok {
			return nil, t.errf(st, "expression statement is not a call")
		}
		kind, recv, _, is, err := t.readerCall(call)
		if err != nil {
			return nil, err
		}
		if is && kind == "close" {
			return []wItem{append(wItem{"close", "blank"}, recv...)}, nil
		}
		return nil, t.errf(st, "call statement not of a known shape")
	case *ast.AssignStmt:
		return t.assign(s)
	case *ast.DeclStmt:
		gd, ok := s.Decl.(*ast.GenDecl)
		if !ok || gd.Tok != token.VAR || len(gd.Specs) != 1 {
			return nil, t.errf(st, "declaration is not a single variable")
		}
		vs := gd.Specs[0].(*ast.ValueSpec)
		if len(vs.Names) != 1 || len(vs.Values) != 0 || vs.Type == nil || vs.Names[0].Name == "_" || ioReserved[vs.Names[0].Name] {
			return nil, t.errf(st, "declaration is not `var v T`")
		}
		ty := typeString(vs.Type)
		if ty != "error" {
			return nil, t.errf(st, "variable of a type without a known zero value")
		}
		t.declare(vs.Names[0].Name, ty)
		return []wItem{{"vardecl", vs.Names[0].Name, ty}}, nil
	case *ast.IfStmt:
		return t.ifStmt(s)
	case *ast.BlockStmt:
		body, err := t.block(s.List)
		if err != nil {
			return nil, err
		}
		out := []wItem{{"scope"}}
		out = append(out, body...)
		return append(out, wItem{"end"}), nil
	case *ast.ForStmt:
		if s.Init != nil || s.Post != nil {
			return nil, t.errf(st, "for loop with an initialiser or a post statement")
		}
		head := wItem{"forever"}
		if s.Cond != nil {
			c, err := t.cond(s.Cond)
			if err != nil {
				return nil, err
			}
			head = append(wItem{"while"}, c...)
		}
		body, err := t.block(s.Body.List)
		if err != nil {
			return nil, err
		}
		out := []wItem{head}
		out = append(out, body...)
		return append(out, wItem{"end"}), nil
	case *ast.RangeStmt:
		if s.Tok != token.DEFINE || s.Key == nil || s.Value == nil || !isIdent(s.Key, "_") {
			return nil, t.errf(st, "range loop not of the shape `for _, v := range E`")
		}
		v, ok := s.Value.(*ast.Ident)
		if !ok || v.Name == "_" || ioReserved[v.Name] {
			return nil, t.errf(st, "range loop without an element variable")
		}
		e, ety, err := t.expr(s.X)
		if err != nil {
			return nil, err
		}
		if !strings.HasPrefix(ety, "[]") {
			return nil, t.errf(st, "range over a value of type %s", ety)
		}
		t.push()
		t.declare(v.Name, ety[2:])
		body, err := t.stmts(s.Body.List)
		t.pop()
		if err != nil {
			return nil, err
		}
		out := []wItem{append(wItem{"range", v.Name}, e...)}
		out = append(out, body...)
		return append(out, wItem{"end"}), nil
	case *ast.TypeSwitchStmt:
		return t.typeSwitch(s)
	case *ast.BranchStmt:
		if s.Label == nil && s.Tok == token.CONTINUE {
			return []wItem{{"continue"}}, nil
		}
		return nil, t.errf(st, "branch statement other than a plain continue")
	case *ast.ReturnStmt:
		return t.returnStmt(s)
	}
	return nil, t.errf(st, "statement not of a known shape (%T)", st)
}

func (t *iotrans) returnStmt(s *ast.ReturnStmt) ([]wItem, error) {
	if len(s.Results) == 0 {
		for _, r := range t.results {
			if r[0] == "" {
				return nil, t.errf(s, "bare return in a function without named results")
			}
			// the named result must not be shadowed at this point
			if ty, _ := t.lookup(r[0]); ty != r[1] || t.shadowed(r[0]) {
				return nil, t.errf(s, "bare return while the result %s is shadowed", r[0])
			}
		}
		return []wItem{{"return", "0"}}, nil
	}
	if len(s.Results) == 1 && len(t.results) == 2 {
		if call, ok := s.Results[0].(*ast.CallExpr); ok && len(call.Args) == 1 && call.Ellipsis == token.NoPos {
			for _, w := range [][3]string{{"Open", "open", "io.ReadCloser"}, {"Create", "create", "io.WriteCloser"}} {
				if t.isPkg(call.Fun, "os", w[0]) {
					a, aty, err := t.expr(call.Args[0])
					if err != nil {
						return nil, err
					}
					if aty != "string" || t.results[0][1] != w[2] || t.results[1][1] != "error" {
						return nil, t.errf(s, "os.%s returned from a function whose results are not (%s, error)", w[0], w[2])
					}
					return []wItem{append(wItem{"returncall", w[1]}, a...)}, nil
				}
			}
		}
	}
	// return term.IsTerminal(int(v.Fd()))
	if len(s.Results) == 1 && len(t.results) == 1 && t.results[0][1] == "bool" {
		if call, ok := s.Results[0].(*ast.CallExpr); ok && t.isPkg(call.Fun, "term", "IsTerminal") && len(call.Args) == 1 {
			if conv, ok := isCall(call.Args[0], "int", 1); ok && t.free("int") {
				if fd, ok := conv.Args[0].(*ast.CallExpr); ok && len(fd.Args) == 0 {
					if sel, ok := fd.Fun.(*ast.SelectorExpr); ok && sel.Sel.Name == "Fd" {
						if v, vty, ok := t.varName(sel.X); ok && vty == "*os.File" {
							return []wItem{{"returnisterm", v}}, nil
						}
					}
				}
			}
			return nil, t.errf(s, "IsTerminal not of the shape term.IsTerminal(int(v.Fd()))")
		}
	}
	if len(s.Results) != len(t.results) {
		return nil, t.errf(s, "return with %d values in a function with %d results", len(s.Results), len(t.results))
	}
	out := wItem{"return", strconv.Itoa(len(s.Results))}
	for i, r := range s.Results {
		e, ety, err := t.expr(r)
		if err != nil {
			return nil, err
		}
		if !ioAssignable(ety, t.results[i][1]) {
			return nil, t.errf(s, "a %s returned as %s", ety, t.results[i][1])
		}
		out = append(out, e...)
	}
	return []wItem{out}, nil
}

// is the function-level variable `v` hidden by an inner declaration?
func (t *iotrans) shadowed(v string) bool {
	for i := len(t.scopes) - 1; i >= 1; i-- {
		if _, ok := t.scopes[i][v]; ok {
			return true
		}
	}
	return false
}

func (t *iotrans) typeSwitch(s *ast.TypeSwitchStmt) ([]wItem, error) {
	if s.Init != nil {
		return nil, t.errf(s, "type switch with an initialiser")
	}
	as, ok := s.Assign.(*ast.AssignStmt)
	if !ok || as.Tok != token.DEFINE || len(as.Lhs) != 1 || len(as.Rhs) != 1 {
		return nil, t.errf(s, "type switch not of the shape `switch v := r.(type)`")
	}
	v, ok := as.Lhs[0].(*ast.Ident)
	ta, ok2 := as.Rhs[0].(*ast.TypeAssertExpr)
	if !ok || !ok2 || ta.Type != nil || v.Name == "_" || ioReserved[v.Name] {
		return nil, t.errf(s, "type switch not of the shape `switch v := r.(type)`")
	}
	r, rty, ok := t.varName(ta.X)
	if !ok || rty != "io.Reader" {
		return nil, t.errf(s, "type switch on something that is not an io.Reader variable")
	}
	out := []wItem{{"typeswitch", v.Name, r}}
	for i, c := range s.Body.List {
		cc := c.(*ast.CaseClause)
		if breaksSwitch(cc.Body) {
			return nil, t.errf(cc, "case body with a break of the switch, a fallthrough or a label")
		}
		ty := rty
		if cc.List == nil {
			if i != len(s.Body.List)-1 {
				return nil, t.errf(cc, "default is not the last case")
			}
			out = append(out, wItem{"default"})
		} else {
			if len(cc.List) != 1 {
				return nil, t.errf(cc, "case with several types")
			}
			ty = typeString(cc.List[0])
			if ty != "*os.File" && ty != "nopReadCloser" {
				return nil, t.errf(cc, "case type other than *os.File / nopReadCloser")
			}
			if !t.free(strings.TrimPrefix(strings.SplitN(ty, ".", 2)[0], "*")) {
				return nil, t.errf(cc, "case type is shadowed")
			}
			out = append(out, wItem{"case", ty})
		}
		t.push()
		t.declare(v.Name, ty)
		body, err := t.stmts(cc.Body)
		t.pop()
		if err != nil {
			return nil, err
		}
		out = append(out, body...)
	}
	return append(out, wItem{"end"}), nil
}

func (t *iotrans) ifStmt(s *ast.IfStmt) ([]wItem, error) {
	var out []wItem
	if s.Init != nil {
		as, ok := s.Init.(*ast.AssignStmt)
		if !ok {
			return nil, t.errf(s, "if with an initialiser that is not an assignment")
		}
		t.push()
		defer t.pop()
		its, err := t.assign(as)
		if err != nil {
			return nil, err
		}
		out = append(out, wItem{"scope"})
		out = append(out, its...)
	}
	c, err := t.cond(s.Cond)
	if err != nil {
		return nil, err
	}
	out = append(out, append(wItem{"if"}, c...))
	body, err := t.block(s.Body.List)
	if err != nil {
		return nil, err
	}
	out = append(out, body...)
	switch e := s.Else.(type) {
	case nil:
	case *ast.BlockStmt:
		eb, err := t.block(e.List)
		if err != nil {
			return nil, err
		}
		out = append(out, wItem{"else"})
		out = append(out, eb...)
	case *ast.IfStmt:
		eb, err := t.ifStmt(e)
		if err != nil {
			return nil, err
		}
		out = append(out, wItem{"else"})
		out = append(out, eb...)
	default:
		return nil, t.errf(s, "else part")
	}
	out = append(out, wItem{"end"})
	if s.Init != nil {
		out = append(out, wItem{"end"})
	}
	return out, nil
}

// the translated units: (receiver type, function)
var ioUnits = [][2]string{{"*multiReadCloser", "Read"}, {"*multiReadCloser", "Close"}, {"", "makeInput"}, {"", "makeOutput"}, {"", "isTerminal"}}

func (ex *extractor) cliIOIR(sb *strings.Builder) error {
	type unit struct {
		name   string
		params [][2]string
		res    [][2]string
		items  []wItem
	}
	var units []unit
	var file *ast.File
	for _, w := range ioUnits {
		name := w[1]
		if w[0] != "" {
			name = strings.TrimPrefix(w[0], "*") + "." + w[1]
		}
		fd := ex.funcDecl("cmd", w[0], w[1])
		if fd == nil {
			return fmt.Errorf("cliIOIR: %s not found in cmd/pql", name)
		}
		for _, f := range ex.pkgs["cmd"] {
			if f.Pos() <= fd.Pos() && fd.End() <= f.End() {
				file = f
			}
		}
		t := &iotrans{ex: ex, unit: name}
		t.push()
		u := unit{name: name}
		bind := func(n, ty string) error {
			if ioReserved[n] {
				return fmt.Errorf("cliIOIR %s: %s shadows a name the translation relies on", name, n)
			}
			t.declare(n, ty)
			return nil
		}
		if fd.Recv != nil {
			if len(fd.Recv.List[0].Names) != 1 {
				return fmt.Errorf("cliIOIR %s: unnamed receiver", name)
			}
			r := fd.Recv.List[0].Names[0].Name
			if err := bind(r, w[0]); err != nil {
				return err
			}
			u.params = append(u.params, [2]string{r, w[0]})
		}
		for _, f := range fd.Type.Params.List {
			if len(f.Names) == 0 {
				return fmt.Errorf("cliIOIR %s: unnamed parameter", name)
			}
			for _, n := range f.Names {
				ty := typeString(f.Type)
				if err := bind(n.Name, ty); err != nil {
					return err
				}
				u.params = append(u.params, [2]string{n.Name, ty})
			}
		}
		if fd.Type.Results != nil {
			for _, f := range fd.Type.Results.List {
				ty := typeString(f.Type)
				if len(f.Names) == 0 {
					u.res = append(u.res, [2]string{"", ty})
				}
				for _, n := range f.Names {
					if ty != "int" && ty != "error" {
						return fmt.Errorf("cliIOIR %s: named result of a type without a known zero value", name)
					}
					if err := bind(n.Name, ty); err != nil {
						return err
					}
					u.res = append(u.res, [2]string{n.Name, ty})
				}
			}
		}
		t.results = u.res
		its, err := t.stmts(fd.Body.List)
		if err != nil {
			return err
		}
		if len(its) == 0 {
			return fmt.Errorf("cliIOIR %s: empty body", name)
		}
		u.items = its
		units = append(units, u)
	}
	// the imports the primitives refer to must be the real packages
	want := map[string]string{"io": "io", "os": "os", "term": "golang.org/x/term"}
	seen := map[string]bool{}
	for _, im := range file.Imports {
		p, _ := strconv.Unquote(im.Path.Value)
		name := p[strings.LastIndex(p, "/")+1:]
		if im.Name != nil {
			name = im.Name.Name
		}
		if w, ok := want[name]; ok {
			if w != p {
				return fmt.Errorf("cliIOIR: package name %s is bound to %s", name, p)
			}
			seen[name] = true
		} else if w2, ok := reverseLookup(want, p); ok {
			return fmt.Errorf("cliIOIR: package %s imported under the name %s instead of %s", p, name, w2)
		}
	}
	for name := range want {
		if !seen[name] {
			return fmt.Errorf("cliIOIR: package %s is not imported", name)
		}
	}
	sb.WriteString("/-- cmd/pql/main.go: the input/output plumbing as a flat prefix-coded IR (see harness/extract_cliio.go):\n")
	sb.WriteString("    (function, parameters with their types (the receiver first), results (name or \"\", type), body) -/\n")
	sb.WriteString("def cliIOIR : List (String × List (String × String) × List (String × String) × List (List String)) :=\n  [")
	pairs := func(ps [][2]string) string {
		var q []string
		for _, p := range ps {
			q = append(q, fmt.Sprintf("(%s, %s)", leanStr(p[0]), leanStr(p[1])))
		}
		return "[" + strings.Join(q, ", ") + "]"
	}
	for i, u := range units {
		if i > 0 {
			sb.WriteString(",\n   ")
		}
		fmt.Fprintf(sb, "(%s, %s, %s,\n    [", leanStr(u.name), pairs(u.params), pairs(u.res))
		for j, it := range u.items {
			if j > 0 {
				sb.WriteString(",\n     ")
			}
			sb.WriteString(leanStrList(it))
		}
		sb.WriteString("])")
	}
	sb.WriteString("]\n\n")
	return nil
}
