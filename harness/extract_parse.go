package main

// Translator for the STATEMENT and OPERATOR level of parser/parser.go: `Parse`, `firstParse`,
// `letStatement`, `tabularExpr`, the operator methods (`countOperator` … `renderOperator`) and their
// column helpers (`extendColumn`, `summarizeColumn`, `renderProperty`).  Every function body becomes
// one flat, prefix-coded list of items (an item is a list of strings); blocks are closed by ["end"],
// an `if` may have an ["else"] part.  Expressions and conditions are prefix-coded inside an item.
//
// The expression productions (`expr`, `exprList`, `ident`) and the cursor primitives (`next`, `prev`,
// `split`, `splitSemi`, `endSplit`) are NOT translated here: a call of one of them is an item
// ["call", recv, method, …] whose meaning Model/ParseIR.lean takes from the model.  `sortTerm` and
// `rowCount` are translated (units of their own, Props/C07OperatorIRTerm.lean); where an operator method
// calls them the call is an item like any other.
//
// statements
//
//	["call", recv, method, n, L1…Ln, A…]   L… := recv.method(A…)     (also `=`; see targets)
//	["prev", recv]                         recv.prev()
//	["assign", L, E…]                      L = E  /  L := E
//	["vardecl", v, T]                      var v T
//	["newparser", v, q]                    v := &parser{source: q, tokens: Scan(q)}
//	["mapok", v, M, E…]                    _, v := M[E]                 (M a package-level set)
//	["astype", T, n, L1…Ln, E…]            L1, L2 := E.(*T)             (comma-ok type assertion; T = BasicLit)
//	["msgonly", what, v]                   a statement whose only effect is on the variable v, and v is
//	                                       used in message arguments only ("def": v := maps.Keys(M); "sort": slices.Sort(v))
//	["if", C…] … [["else"] …] ["end"]
//	["scope"] … ["end"]                    { … };  `if init; C {A} else {B}` is ["scope"], init, ["if", C…] … ["end"], ["end"]
//	["for"] … ["end"]                      for { … }   (also `for i := 0; ; i++ { … }` with i not used in the body)
//	["break"]  ["continue"]
//	["return", E1…, E2…]                   return E1, E2
//	["firstparse", n, L1…Ln] (["closure"] … ["end"])* ["end"]
//	                                       L… := firstParse(func() (T, error) {…}, …)
//	["rangeinit", v, w] … ["end"]          for _, v := range w[:len(w)-1] { … }         (firstParse)
//	["callfn", f, n, L1…Ln]                L… := f()                                    (firstParse)
//	["returnlast", w]                      return w[len(w)-1]()                         (firstParse)
//
// targets L:  blank | def v | set v | fset v f (v.f = …) | setpos P (P.pos = …)
// A `switch tag { case a, b: A; default: D }` whose tag is a field of a variable and whose bodies contain
// neither `fallthrough` nor a `break` of the switch is emitted as the equivalent if-else chain
// (["if", "or", "eq", tag, a, "eq", tag, b] A ["else"] D ["end"]).  A switch without a tag
// (`switch { case C1, C2: A; default: D }`) is the same chain over the case conditions, and a switch with an
// initialiser (`switch init; tag {…}`) is ["scope"], init, the chain, ["end"].
//
// expressions E
//
//	var v | nil | bool b | int n | str "s" | kind K | fld f E (E.f) | nullspan | newspan E E |
//	eofspan P (indexSpan(len(P.source))) | new T n (f E)* (&T{f: E, …}) |
//	perr P k E (&parseError{source: P.source, span: E, err: X}; k = "nf" if X is notFoundError{…}, else "plain") |
//	errnopos (fmt.Errorf / errors.New without %w) | wrapw E (fmt.Errorf("…%w", E)) | join n E… (joinErrors) |
//	opaque E (makeErrorOpaque) | append E E | len E | addr v (&v) | asqual E (E.AsQualified()) | pos P (P.pos) |
//	tokat P (P.tokens[P.pos]) | endsplit P (P.endSplit()) | toiface E (pointer stored in an interface)
//
// conditions C
//
//	eq E E | ne E E | not C | and C C | or C C | isnf E (isNotFound(E)) | truth E | more P (P.pos < len(P.tokens)) |
//	isinteger E (E.IsInteger(), E a *BasicLit)
//
// Message texts and the arguments of message formats are not part of the IR (they must be free of side
// effects: variables, fields, formatToken, strings.Join, a Token literal).  Any other statement, expression
// or condition shape is an error (the step fails, nothing is skipped).  Model/ParseIR.lean decodes and
// interprets the items; Props/C07OperatorIR*.lean prove the model's productions equal to the interpretation.

import (
	"fmt"
	"go/ast"
	"go/token"
	"strconv"
	"strings"
)

type ptrans struct {
	ex      *extractor
	unit    string
	scopes  []map[string]string // variable → static type ("" = not tracked)
	results []string            // result types of the function (or closure) being translated
	msgVars map[string]bool
	consts  map[string]bool // TokenKind constants
}

func (t *ptrans) errf(n ast.Node, format string, args ...interface{}) error {
	first := strings.SplitN(t.ex.src(n), "\n", 2)[0]
	return fmt.Errorf("parseIR %s: %s: %s", t.unit, fmt.Sprintf(format, args...), first)
}

func (t *ptrans) push()  { t.scopes = append(t.scopes, map[string]string{}) }
func (t *ptrans) pop()   { t.scopes = t.scopes[:len(t.scopes)-1] }
func (t *ptrans) declare(v, ty string) {
	if v != "_" {
		t.scopes[len(t.scopes)-1][v] = ty
	}
}
func (t *ptrans) lookup(v string) (string, bool) {
	for i := len(t.scopes) - 1; i >= 0; i-- {
		if ty, ok := t.scopes[i][v]; ok {
			return ty, true
		}
	}
	return "", false
}
func (t *ptrans) inCurrent(v string) bool {
	_, ok := t.scopes[len(t.scopes)-1][v]
	return ok
}

var ptReserved = map[string]bool{"fmt": true, "errors": true, "slices": true, "strings": true, "maps": true,
	"len": true, "append": true, "nil": true, "true": true, "false": true, "new": true, "panic": true}

// a plain variable in scope
func (t *ptrans) varName(e ast.Expr) (string, string, bool) {
	id, ok := e.(*ast.Ident)
	if !ok || id.Name == "_" || ptReserved[id.Name] {
		return "", "", false
	}
	ty, ok := t.lookup(id.Name)
	return id.Name, ty, ok
}

// a variable of type *parser
func (t *ptrans) parserVar(e ast.Expr) (string, bool) {
	v, ty, ok := t.varName(e)
	return v, ok && ty == "*parser"
}

// P.source
func (t *ptrans) sourceOf(e ast.Expr) (string, bool) {
	sel, ok := e.(*ast.SelectorExpr)
	if !ok || sel.Sel.Name != "source" {
		return "", false
	}
	return t.parserVar(sel.X)
}

func isCall(e ast.Expr, fn string, nargs int) (*ast.CallExpr, bool) {
	c, ok := e.(*ast.CallExpr)
	if !ok || c.Ellipsis != token.NoPos || !isIdent(c.Fun, fn) || (nargs >= 0 && len(c.Args) != nargs) {
		return nil, false
	}
	return c, true
}

// an argument of a message format: no side effects, nothing but reads
func (t *ptrans) msgPure(e ast.Expr) bool {
	switch x := e.(type) {
	case *ast.Ident:
		if t.msgVars[x.Name] || x.Name == "nil" {
			return true
		}
		_, _, ok := t.varName(e)
		return ok || t.consts[x.Name] || x.Name == "joinTypes"
	case *ast.BasicLit:
		return true
	case *ast.SelectorExpr:
		return t.msgPure(x.X)
	case *ast.CompositeLit:
		if !isIdent(x.Type, "Token") {
			return false
		}
		for _, el := range x.Elts {
			kv, ok := el.(*ast.KeyValueExpr)
			if !ok || !t.msgPure(kv.Value) {
				return false
			}
		}
		return true
	case *ast.CallExpr:
		if x.Ellipsis != token.NoPos {
			return false
		}
		if !(isIdent(x.Fun, "formatToken") || isPkgSel(x.Fun, "strings", "Join")) {
			return false
		}
		for _, a := range x.Args {
			if !t.msgPure(a) {
				return false
			}
		}
		return true
	}
	return false
}

// fmt.Errorf("…", pure…) / errors.New(pure) without %w
func (t *ptrans) plainError(e ast.Expr) bool {
	c, ok := e.(*ast.CallExpr)
	if !ok || c.Ellipsis != token.NoPos {
		return false
	}
	if isPkgSel(c.Fun, "errors", "New") && len(c.Args) == 1 {
		return t.msgPure(c.Args[0])
	}
	if isPkgSel(c.Fun, "fmt", "Errorf") && len(c.Args) >= 1 {
		f, ok := strLit(c.Args[0])
		if !ok || strings.Contains(f, "%w") {
			return false
		}
		for _, a := range c.Args[1:] {
			if !t.msgPure(a) {
				return false
			}
		}
		return true
	}
	return false
}

// &parseError{source: P.source, span: E, err: X}
func (t *ptrans) parseErrorLit(e ast.Expr) ([]string, bool, error) {
	u, ok := e.(*ast.UnaryExpr)
	if !ok || u.Op != token.AND {
		return nil, false, nil
	}
	cl, ok := u.X.(*ast.CompositeLit)
	if !ok || !isIdent(cl.Type, "parseError") {
		return nil, false, nil
	}
	if len(cl.Elts) != 3 {
		return nil, true, t.errf(e, "parseError literal without exactly source, span, err")
	}
	var src string
	var span []string
	kind := ""
	for i, want := range []string{"source", "span", "err"} {
		kv, ok := cl.Elts[i].(*ast.KeyValueExpr)
		if !ok || !isIdent(kv.Key, want) {
			return nil, true, t.errf(e, "parseError literal: field %d is not %s", i, want)
		}
		switch want {
		case "source":
			p, ok := t.sourceOf(kv.Value)
			if !ok {
				return nil, true, t.errf(e, "parseError source is not P.source")
			}
			src = p
		case "span":
			s, err := t.expr(kv.Value)
			if err != nil {
				return nil, true, err
			}
			span = s
		case "err":
			if t.plainError(kv.Value) {
				kind = "plain"
			} else if nf, ok := kv.Value.(*ast.CompositeLit); ok && isIdent(nf.Type, "notFoundError") && len(nf.Elts) == 1 && t.plainError(nf.Elts[0]) {
				kind = "nf"
			} else {
				return nil, true, t.errf(e, "parseError err is neither a plain message nor notFoundError{message}")
			}
		}
	}
	return append([]string{"perr", src, kind}, span...), true, nil
}

func (t *ptrans) exprs(es []ast.Expr) ([]string, error) {
	var out []string
	for _, e := range es {
		x, err := t.expr(e)
		if err != nil {
			return nil, err
		}
		out = append(out, x...)
	}
	return out, nil
}

func (t *ptrans) expr(e ast.Expr) ([]string, error) {
	switch x := e.(type) {
	case *ast.ParenExpr:
		return t.expr(x.X)
	case *ast.Ident:
		switch x.Name {
		case "nil":
			return []string{"nil"}, nil
		case "true", "false":
			return []string{"bool", x.Name}, nil
		}
		if _, _, ok := t.varName(e); ok {
			return []string{"var", x.Name}, nil
		}
		if t.consts[x.Name] {
			return []string{"kind", x.Name}, nil
		}
	case *ast.BasicLit:
		if s, ok := strLit(x); ok {
			return []string{"str", s}, nil
		}
		if x.Kind == token.INT {
			if _, err := strconv.ParseUint(x.Value, 10, 31); err == nil {
				return []string{"int", x.Value}, nil
			}
		}
	case *ast.SelectorExpr:
		if p, ok := t.parserVar(x.X); ok {
			if x.Sel.Name == "pos" {
				return []string{"pos", p}, nil
			}
			return nil, t.errf(e, "field of a parser other than pos")
		}
		inner, err := t.expr(x.X)
		if err != nil {
			return nil, err
		}
		return append([]string{"fld", x.Sel.Name}, inner...), nil
	case *ast.IndexExpr:
		// P.tokens[P.pos]
		if sel, ok := x.X.(*ast.SelectorExpr); ok && sel.Sel.Name == "tokens" {
			if p, ok := t.parserVar(sel.X); ok {
				if ix, ok := x.Index.(*ast.SelectorExpr); ok && ix.Sel.Name == "pos" && isIdent(ix.X, p) {
					return []string{"tokat", p}, nil
				}
			}
		}
	case *ast.UnaryExpr:
		if x.Op != token.AND {
			break
		}
		if pe, is, err := t.parseErrorLit(e); is {
			return pe, err
		}
		if cl, ok := x.X.(*ast.CompositeLit); ok {
			ty, ok := cl.Type.(*ast.Ident)
			if !ok || ty.Name == "parser" {
				break
			}
			out := []string{"new", ty.Name, strconv.Itoa(len(cl.Elts))}
			for _, el := range cl.Elts {
				kv, ok := el.(*ast.KeyValueExpr)
				if !ok {
					return nil, t.errf(e, "composite literal with a positional element")
				}
				k, ok := kv.Key.(*ast.Ident)
				if !ok {
					return nil, t.errf(e, "composite literal key")
				}
				v, err := t.expr(kv.Value)
				if err != nil {
					return nil, err
				}
				out = append(append(out, k.Name), v...)
			}
			return out, nil
		}
		if v, ty, ok := t.varName(x.X); ok && ty == "Token" {
			return []string{"addr", v}, nil
		}
	case *ast.BinaryExpr:
		// a comparison whose value is stored: Quoted: tok.Kind == TokenQuotedIdentifier  (not in the translated units)
	case *ast.CallExpr:
		if x.Ellipsis != token.NoPos {
			break
		}
		if _, ok := isCall(e, "nullSpan", 0); ok {
			return []string{"nullspan"}, nil
		}
		if c, ok := isCall(e, "newSpan", 2); ok {
			a, err := t.exprs(c.Args)
			if err != nil {
				return nil, err
			}
			return append([]string{"newspan"}, a...), nil
		}
		if c, ok := isCall(e, "indexSpan", 1); ok {
			if l, ok := isCall(c.Args[0], "len", 1); ok {
				if p, ok := t.sourceOf(l.Args[0]); ok {
					return []string{"eofspan", p}, nil
				}
			}
			break
		}
		if c, ok := isCall(e, "joinErrors", -1); ok {
			a, err := t.exprs(c.Args)
			if err != nil {
				return nil, err
			}
			return append([]string{"join", strconv.Itoa(len(c.Args))}, a...), nil
		}
		if c, ok := isCall(e, "makeErrorOpaque", 1); ok {
			a, err := t.expr(c.Args[0])
			if err != nil {
				return nil, err
			}
			return append([]string{"opaque"}, a...), nil
		}
		if c, ok := isCall(e, "append", 2); ok {
			a, err := t.exprs(c.Args)
			if err != nil {
				return nil, err
			}
			return append([]string{"append"}, a...), nil
		}
		if c, ok := isCall(e, "len", 1); ok {
			a, err := t.expr(c.Args[0])
			if err != nil {
				return nil, err
			}
			return append([]string{"len"}, a...), nil
		}
		if t.plainError(e) {
			return []string{"errnopos"}, nil
		}
		if isPkgSel(x.Fun, "fmt", "Errorf") && len(x.Args) == 2 {
			if f, ok := strLit(x.Args[0]); ok && strings.Count(f, "%") == 1 && strings.Count(f, "%w") == 1 {
				a, err := t.expr(x.Args[1])
				if err != nil {
					return nil, err
				}
				return append([]string{"wrapw"}, a...), nil
			}
		}
		if sel, ok := x.Fun.(*ast.SelectorExpr); ok && len(x.Args) == 0 {
			if p, ok := t.parserVar(sel.X); ok && sel.Sel.Name == "endSplit" {
				return []string{"endsplit", p}, nil
			}
			if sel.Sel.Name == "AsQualified" {
				a, err := t.expr(sel.X)
				if err != nil {
					return nil, err
				}
				return append([]string{"asqual"}, a...), nil
			}
		}
	}
	return nil, t.errf(e, "expression not of a known shape")
}

func (t *ptrans) cond(e ast.Expr) ([]string, error) {
	switch x := e.(type) {
	case *ast.ParenExpr:
		return t.cond(x.X)
	case *ast.Ident:
		if _, ty, ok := t.varName(e); ok && ty == "bool" {
			return []string{"truth", "var", x.Name}, nil
		}
	case *ast.UnaryExpr:
		if x.Op == token.NOT {
			c, err := t.cond(x.X)
			if err != nil {
				return nil, err
			}
			return append([]string{"not"}, c...), nil
		}
	case *ast.CallExpr:
		if c, ok := isCall(e, "isNotFound", 1); ok {
			a, err := t.expr(c.Args[0])
			if err != nil {
				return nil, err
			}
			return append([]string{"isnf"}, a...), nil
		}
		// lit.IsInteger() with lit a *BasicLit
		if sel, ok := x.Fun.(*ast.SelectorExpr); ok && x.Ellipsis == token.NoPos && len(x.Args) == 0 && sel.Sel.Name == "IsInteger" {
			if v, ty, ok := t.varName(sel.X); ok && ty == "*BasicLit" && t.ex.funcDecl("parser", "*BasicLit", "IsInteger") != nil {
				return []string{"isinteger", "var", v}, nil
			}
		}
	case *ast.BinaryExpr:
		switch x.Op {
		case token.LAND, token.LOR:
			a, err := t.cond(x.X)
			if err != nil {
				return nil, err
			}
			b, err := t.cond(x.Y)
			if err != nil {
				return nil, err
			}
			k := "and"
			if x.Op == token.LOR {
				k = "or"
			}
			return append(append([]string{k}, a...), b...), nil
		case token.EQL, token.NEQ:
			a, err := t.expr(x.X)
			if err != nil {
				return nil, err
			}
			b, err := t.expr(x.Y)
			if err != nil {
				return nil, err
			}
			k := "eq"
			if x.Op == token.NEQ {
				k = "ne"
			}
			return append(append([]string{k}, a...), b...), nil
		case token.LSS:
			// P.pos < len(P.tokens)
			if l, ok := x.X.(*ast.SelectorExpr); ok && l.Sel.Name == "pos" {
				if p, ok := t.parserVar(l.X); ok {
					if c, ok := isCall(x.Y, "len", 1); ok {
						if r, ok := c.Args[0].(*ast.SelectorExpr); ok && r.Sel.Name == "tokens" && isIdent(r.X, p) {
							return []string{"more", p}, nil
						}
					}
				}
			}
		}
	}
	return nil, t.errf(e, "condition not of a known shape")
}

// result types of a method of *parser, or of a few known functions
func (t *ptrans) resultTypes(fd *ast.FuncDecl) []string {
	var out []string
	if fd.Type.Results != nil {
		for _, f := range fd.Type.Results.List {
			n := len(f.Names)
			if n == 0 {
				n = 1
			}
			for i := 0; i < n; i++ {
				out = append(out, typeString(f.Type))
			}
		}
	}
	return out
}

// an assignment target; `define` = the statement is `:=`; ty = static type of the value ("" unknown)
func (t *ptrans) target(e ast.Expr, define bool, ty string) ([]string, error) {
	if isIdent(e, "_") {
		return []string{"blank"}, nil
	}
	if id, ok := e.(*ast.Ident); ok {
		if ptReserved[id.Name] || t.consts[id.Name] {
			return nil, t.errf(e, "assignment target shadows a predeclared name")
		}
		if define && !t.inCurrent(id.Name) {
			// declared after the right-hand side is evaluated: the caller declares it
			return []string{"def", id.Name}, nil
		}
		if _, _, ok := t.varName(e); ok {
			if oty, _ := t.lookup(id.Name); oty == "*parser" {
				return nil, t.errf(e, "assignment to a parser variable")
			}
			return []string{"set", id.Name}, nil
		}
		return nil, t.errf(e, "assignment to an unknown variable")
	}
	if sel, ok := e.(*ast.SelectorExpr); ok && !define {
		if p, ok := t.parserVar(sel.X); ok {
			if sel.Sel.Name == "pos" {
				return []string{"setpos", p}, nil
			}
			return nil, t.errf(e, "assignment to a field of a parser other than pos")
		}
		if v, _, ok := t.varName(sel.X); ok {
			return []string{"fset", v, sel.Sel.Name}, nil
		}
	}
	return nil, t.errf(e, "assignment target not of a known shape")
}

// declare the `def` targets of a translated statement
func (t *ptrans) declareTargets(lhs []ast.Expr, targets [][]string, types []string) {
	for i, tg := range targets {
		if tg[0] == "def" {
			ty := ""
			if i < len(types) {
				ty = types[i]
			}
			t.declare(lhs[i].(*ast.Ident).Name, ty)
		}
	}
}

// L… := recv.method(A…) and the other multi-valued right-hand sides
func (t *ptrans) callAssign(lhs []ast.Expr, define bool, call *ast.CallExpr) ([]wItem, bool, error) {
	if call.Ellipsis != token.NoPos {
		return nil, false, nil
	}
	// firstParse(func() (T, error) {…}, …)
	if isIdent(call.Fun, "firstParse") {
		if len(lhs) != 2 || len(call.Args) == 0 {
			return nil, true, t.errf(call, "firstParse without two results or without productions")
		}
		var closures [][]wItem
		for _, a := range call.Args {
			fl, ok := a.(*ast.FuncLit)
			if !ok || fl.Type.Params.NumFields() != 0 || fl.Type.Results == nil {
				return nil, true, t.errf(a, "production is not a parameterless function literal")
			}
			var res []string
			for _, f := range fl.Type.Results.List {
				if len(f.Names) != 0 {
					return nil, true, t.errf(a, "production with named results")
				}
				res = append(res, typeString(f.Type))
			}
			if len(res) != 2 || res[1] != "error" {
				return nil, true, t.errf(a, "production does not return (T, error)")
			}
			saved := t.results
			t.results = res
			t.push()
			body, err := t.stmts(fl.Body.List)
			t.pop()
			t.results = saved
			if err != nil {
				return nil, true, err
			}
			if len(body) == 0 || body[len(body)-1][0] != "return" {
				return nil, true, t.errf(a, "production does not end in a return")
			}
			closures = append(closures, body)
		}
		var targets [][]string
		for _, l := range lhs {
			tg, err := t.target(l, define, "")
			if err != nil {
				return nil, true, err
			}
			targets = append(targets, tg)
		}
		head := wItem{"firstparse", strconv.Itoa(len(lhs))}
		for _, tg := range targets {
			head = append(head, tg...)
		}
		out := []wItem{head}
		for _, c := range closures {
			out = append(out, wItem{"closure"})
			out = append(out, c...)
			out = append(out, wItem{"end"})
		}
		out = append(out, wItem{"end"})
		t.declareTargets(lhs, targets, []string{"iface", "error"})
		return out, true, nil
	}
	// f() with f a variable of function type (firstParse's own body)
	if f, ty, ok := t.varName(call.Fun); ok && ty == "func" && len(call.Args) == 0 {
		var targets [][]string
		for _, l := range lhs {
			tg, err := t.target(l, define, "")
			if err != nil {
				return nil, true, err
			}
			targets = append(targets, tg)
		}
		head := wItem{"callfn", f, strconv.Itoa(len(lhs))}
		for _, tg := range targets {
			head = append(head, tg...)
		}
		t.declareTargets(lhs, targets, []string{"iface", "error"})
		return []wItem{head}, true, nil
	}
	sel, ok := call.Fun.(*ast.SelectorExpr)
	if !ok {
		return nil, false, nil
	}
	recv, ok := t.parserVar(sel.X)
	if !ok {
		return nil, false, nil
	}
	method := sel.Sel.Name
	md := t.ex.funcDecl("parser", "*parser", method)
	if md == nil {
		return nil, true, t.errf(call, "method %s of *parser not found", method)
	}
	types := t.resultTypes(md)
	if len(types) != len(lhs) {
		return nil, true, t.errf(call, "method %s has %d results, %d targets", method, len(types), len(lhs))
	}
	if method == "endSplit" || method == "prev" {
		return nil, true, t.errf(call, "%s as the right-hand side of an assignment", method)
	}
	args, err := t.exprs(call.Args)
	if err != nil {
		return nil, true, err
	}
	var targets [][]string
	for i, l := range lhs {
		tg, err := t.target(l, define, types[i])
		if err != nil {
			return nil, true, err
		}
		targets = append(targets, tg)
	}
	head := wItem{"call", recv, method, strconv.Itoa(len(lhs))}
	for _, tg := range targets {
		head = append(head, tg...)
	}
	head = append(head, args...)
	t.declareTargets(lhs, targets, types)
	return []wItem{head}, true, nil
}

// static type of an expression, as far as the translator tracks it
func (t *ptrans) typeOf(e ast.Expr) string {
	switch x := e.(type) {
	case *ast.Ident:
		if _, ty, ok := t.varName(e); ok {
			return ty
		}
	case *ast.UnaryExpr:
		if x.Op == token.AND {
			if cl, ok := x.X.(*ast.CompositeLit); ok {
				return "*" + typeString(cl.Type)
			}
		}
	case *ast.SelectorExpr:
		if _, ok := t.parserVar(x.X); ok && x.Sel.Name == "pos" {
			return "int"
		}
	case *ast.IndexExpr:
		return "Token"
	}
	return ""
}

func (t *ptrans) assign(as *ast.AssignStmt, lastInBlock bool) ([]wItem, error) {
	define := as.Tok == token.DEFINE
	if as.Tok != token.DEFINE && as.Tok != token.ASSIGN {
		return nil, t.errf(as, "assignment operator")
	}
	if len(as.Rhs) != 1 {
		return nil, t.errf(as, "assignment with several right-hand sides")
	}
	rhs := as.Rhs[0]
	if call, ok := rhs.(*ast.CallExpr); ok {
		its, is, err := t.callAssign(as.Lhs, define, call)
		if is || err != nil {
			return its, err
		}
	}
	// _, ok := M[E]
	if ix, ok := rhs.(*ast.IndexExpr); ok && len(as.Lhs) == 2 {
		if m, ok := ix.X.(*ast.Ident); ok && m.Name == "joinTypes" && isIdent(as.Lhs[0], "_") && define {
			if _, _, shadow := t.varName(ix.X); shadow {
				return nil, t.errf(as, "joinTypes is shadowed")
			}
			okv, ok := as.Lhs[1].(*ast.Ident)
			if !ok || okv.Name == "_" || t.inCurrent(okv.Name) {
				return nil, t.errf(as, "map lookup target")
			}
			k, err := t.expr(ix.Index)
			if err != nil {
				return nil, err
			}
			t.declare(okv.Name, "bool")
			return []wItem{append(wItem{"mapok", okv.Name, m.Name}, k...)}, nil
		}
	}
	// lit, ok := x.(*BasicLit)
	if ta, ok := rhs.(*ast.TypeAssertExpr); ok {
		star, isStar := ta.Type.(*ast.StarExpr)
		if !define || len(as.Lhs) != 2 || ta.Type == nil || !isStar || !isIdent(star.X, "BasicLit") {
			return nil, t.errf(as, "type assertion not of the shape `v, ok := x.(*BasicLit)`")
		}
		if _, _, shadow := t.varName(star.X); shadow {
			return nil, t.errf(as, "BasicLit is shadowed")
		}
		x, xty, ok := t.varName(ta.X)
		if !ok || xty != "Expr" {
			return nil, t.errf(as, "type assertion on something that is not a variable of type Expr")
		}
		var targets [][]string
		for _, l := range as.Lhs {
			tg, err := t.target(l, define, "")
			if err != nil {
				return nil, err
			}
			if tg[0] != "def" && tg[0] != "blank" {
				return nil, t.errf(as, "type assertion assigns to an existing variable")
			}
			targets = append(targets, tg)
		}
		head := wItem{"astype", "BasicLit", "2"}
		for _, tg := range targets {
			head = append(head, tg...)
		}
		head = append(head, "var", x)
		t.declareTargets(as.Lhs, targets, []string{"*BasicLit", "bool"})
		return []wItem{head}, nil
	}
	if len(as.Lhs) != 1 {
		return nil, t.errf(as, "assignment not of a known shape")
	}
	// v := maps.Keys(joinTypes): message only
	if c, ok := rhs.(*ast.CallExpr); ok && define && isPkgSel(c.Fun, "maps", "Keys") && len(c.Args) == 1 && isIdent(c.Args[0], "joinTypes") {
		v, ok := as.Lhs[0].(*ast.Ident)
		if !ok || v.Name == "_" {
			return nil, t.errf(as, "maps.Keys target")
		}
		if _, _, clash := t.varName(v); clash {
			return nil, t.errf(as, "message-only variable shadows a variable")
		}
		t.msgVars[v.Name] = true
		return []wItem{{"msgonly", "def", v.Name}}, nil
	}
	// p := &parser{source: q, tokens: Scan(q)}
	if u, ok := rhs.(*ast.UnaryExpr); ok && u.Op == token.AND && define {
		if cl, ok := u.X.(*ast.CompositeLit); ok && isIdent(cl.Type, "parser") {
			v, ok := as.Lhs[0].(*ast.Ident)
			if !ok || len(cl.Elts) != 2 {
				return nil, t.errf(as, "parser literal")
			}
			kv0, ok0 := cl.Elts[0].(*ast.KeyValueExpr)
			kv1, ok1 := cl.Elts[1].(*ast.KeyValueExpr)
			if !ok0 || !ok1 || !isIdent(kv0.Key, "source") || !isIdent(kv1.Key, "tokens") {
				return nil, t.errf(as, "parser literal is not {source: q, tokens: Scan(q)}")
			}
			q, qty, ok := t.varName(kv0.Value)
			sc, ok2 := isCall(kv1.Value, "Scan", 1)
			if !ok || qty != "string" || !ok2 || !isIdent(sc.Args[0], q) {
				return nil, t.errf(as, "parser literal is not {source: q, tokens: Scan(q)}")
			}
			t.declare(v.Name, "*parser")
			return []wItem{{"newparser", v.Name, q}}, nil
		}
	}
	tg, err := t.target(as.Lhs[0], define, "")
	if err != nil {
		return nil, err
	}
	ty := t.typeOf(rhs)
	e, err := t.expr(rhs)
	if err != nil {
		return nil, err
	}
	if e[0] == "addr" && !lastInBlock {
		return nil, t.errf(as, "address of a variable taken before the end of the block that declares it")
	}
	if e[0] == "addr" && !t.inCurrent(e[1]) {
		return nil, t.errf(as, "address of a variable of an outer block")
	}
	if e[0] == "var" {
		if vty, _ := t.lookup(e[1]); vty == "*parser" {
			return nil, t.errf(as, "copy of a parser pointer")
		}
	}
	if tg[0] == "def" {
		t.declare(as.Lhs[0].(*ast.Ident).Name, ty)
	}
	return []wItem{append(append(wItem{"assign"}, tg...), e...)}, nil
}

// does the statement list contain a `break` that would leave the enclosing switch, or a fallthrough?
func breaksSwitch(list []ast.Stmt) bool {
	found := false
	var visit func(n ast.Node) bool
	visit = func(n ast.Node) bool {
		switch s := n.(type) {
		case *ast.ForStmt, *ast.RangeStmt, *ast.SwitchStmt, *ast.TypeSwitchStmt, *ast.SelectStmt, *ast.FuncLit:
			return false
		case *ast.BranchStmt:
			if s.Tok == token.BREAK || s.Tok == token.FALLTHROUGH || s.Tok == token.GOTO || s.Label != nil {
				found = true
			}
		}
		return true
	}
	for _, st := range list {
		ast.Inspect(st, visit)
	}
	return found
}

func usesIdent(n ast.Node, name string) bool {
	used := false
	ast.Inspect(n, func(m ast.Node) bool {
		if id, ok := m.(*ast.Ident); ok && id.Name == name {
			used = true
		}
		return true
	})
	return used
}

func (t *ptrans) block(list []ast.Stmt) ([]wItem, error) {
	t.push()
	defer t.pop()
	return t.stmts(list)
}

func (t *ptrans) stmts(list []ast.Stmt) ([]wItem, error) {
	var out []wItem
	for i, st := range list {
		its, err := t.stmt(st, i == len(list)-1)
		if err != nil {
			return nil, err
		}
		out = append(out, its...)
	}
	return out, nil
}

func (t *ptrans) stmt(st ast.Stmt, last bool) ([]wItem, error) {
	switch s := st.(type) {
	case *ast.ExprStmt:
		call, ok := s.X.(*ast.CallExpr)
		if !ok || call.Ellipsis != token.NoPos {
			return nil, t.errf(st, "expression statement is not a call")
		}
		if sel, ok := call.Fun.(*ast.SelectorExpr); ok {
			if p, ok := t.parserVar(sel.X); ok && sel.Sel.Name == "prev" && len(call.Args) == 0 {
				return []wItem{{"prev", p}}, nil
			}
			if isPkgSel(call.Fun, "slices", "Sort") && len(call.Args) == 1 {
				if v, ok := call.Args[0].(*ast.Ident); ok && t.msgVars[v.Name] {
					return []wItem{{"msgonly", "sort", v.Name}}, nil
				}
			}
		}
		return nil, t.errf(st, "call statement not of a known shape")
	case *ast.AssignStmt:
		return t.assign(s, last)
	case *ast.DeclStmt:
		gd, ok := s.Decl.(*ast.GenDecl)
		if !ok || gd.Tok != token.VAR || len(gd.Specs) != 1 {
			return nil, t.errf(st, "declaration is not a single variable")
		}
		vs := gd.Specs[0].(*ast.ValueSpec)
		if len(vs.Names) != 1 || len(vs.Values) != 0 || vs.Type == nil || vs.Names[0].Name == "_" || ptReserved[vs.Names[0].Name] {
			return nil, t.errf(st, "declaration is not `var v T`")
		}
		ty := typeString(vs.Type)
		switch ty {
		case "error", "*Token", "[]Statement":
		default:
			return nil, t.errf(st, "variable of a type without a known zero value")
		}
		t.declare(vs.Names[0].Name, ty)
		return []wItem{{"vardecl", vs.Names[0].Name, ty}}, nil
	case *ast.IfStmt:
		return t.ifStmt(s)
	case *ast.BlockStmt:
		body, err := t.block(s.List)
		if err != nil {
			return nil, err
		}
		out := []wItem{{"scope"}}
		out = append(out, body...)
		return append(out, wItem{"end"}), nil
	case *ast.ForStmt:
		if s.Cond != nil {
			return nil, t.errf(st, "for loop with a condition")
		}
		if s.Init != nil || s.Post != nil {
			// for i := 0; ; i++ { … } with i not used in the body
			init, ok := s.Init.(*ast.AssignStmt)
			inc, ok2 := s.Post.(*ast.IncDecStmt)
			if !ok || !ok2 || init.Tok != token.DEFINE || len(init.Lhs) != 1 || len(init.Rhs) != 1 || !isIntLit(init.Rhs[0], "0") ||
				inc.Tok != token.INC || !isIdent(inc.X, selName(init.Lhs[0])) {
				return nil, t.errf(st, "for loop header is not `for i := 0; ; i++`")
			}
			if usesIdent(s.Body, selName(init.Lhs[0])) {
				return nil, t.errf(st, "the loop counter is used in the body")
			}
		}
		body, err := t.block(s.Body.List)
		if err != nil {
			return nil, err
		}
		out := []wItem{{"for"}}
		out = append(out, body...)
		return append(out, wItem{"end"}), nil
	case *ast.RangeStmt:
		// for _, v := range w[:len(w)-1] { … }
		if s.Tok != token.DEFINE || s.Key == nil || s.Value == nil || !isIdent(s.Key, "_") {
			return nil, t.errf(st, "range loop not of the shape `for _, v := range w[:len(w)-1]`")
		}
		v, ok := s.Value.(*ast.Ident)
		sl, ok2 := s.X.(*ast.SliceExpr)
		if !ok || !ok2 || v.Name == "_" || sl.Low != nil || sl.High == nil || sl.Slice3 {
			return nil, t.errf(st, "range loop not of the shape `for _, v := range w[:len(w)-1]`")
		}
		w, wty, ok := t.varName(sl.X)
		if !ok || wty != "...func" || !isLenMinusOne(sl.High, w) {
			return nil, t.errf(st, "range loop not over the productions but the last")
		}
		t.push()
		t.declare(v.Name, "func")
		body, err := t.stmts(s.Body.List)
		t.pop()
		if err != nil {
			return nil, err
		}
		out := []wItem{{"rangeinit", v.Name, w}}
		out = append(out, body...)
		return append(out, wItem{"end"}), nil
	case *ast.SwitchStmt:
		return t.switchStmt(s)
	case *ast.BranchStmt:
		if s.Label == nil && s.Tok == token.CONTINUE {
			return []wItem{{"continue"}}, nil
		}
		if s.Label == nil && s.Tok == token.BREAK {
			return []wItem{{"break"}}, nil
		}
		return nil, t.errf(st, "branch statement other than a plain break / continue")
	case *ast.ReturnStmt:
		// return w[len(w)-1]()
		if len(s.Results) == 1 {
			if c, ok := s.Results[0].(*ast.CallExpr); ok && len(c.Args) == 0 {
				if ix, ok := c.Fun.(*ast.IndexExpr); ok {
					if w, wty, ok := t.varName(ix.X); ok && wty == "...func" && isLenMinusOne(ix.Index, w) {
						return []wItem{{"returnlast", w}}, nil
					}
				}
			}
		}
		if len(s.Results) != len(t.results) {
			return nil, t.errf(st, "return with %d values in a function with %d results", len(s.Results), len(t.results))
		}
		out := wItem{"return"}
		for i, r := range s.Results {
			e, err := t.expr(r)
			if err != nil {
				return nil, err
			}
			// a pointer returned as an interface value: a nil pointer becomes a non-nil interface
			want := t.results[i]
			if !strings.HasPrefix(want, "*") && want != "error" && e[0] != "nil" {
				ty := t.typeOf(r)
				if strings.HasPrefix(ty, "*") {
					e = append([]string{"toiface"}, e...)
				} else if ty != want && ty != "iface" {
					return nil, t.errf(st, "value of an untracked type returned as %s", want)
				}
			}
			if want == "error" {
				if ty := t.typeOf(r); ty != "" && ty != "error" && ty != "*parseError" {
					return nil, t.errf(st, "value of type %s returned as error", ty)
				}
			}
			out = append(out, e...)
		}
		return []wItem{out}, nil
	}
	return nil, t.errf(st, "statement not of a known shape (%T)", st)
}

func (t *ptrans) switchStmt(s *ast.SwitchStmt) ([]wItem, error) {
	var out []wItem
	if s.Init != nil {
		// switch init; tag { … }  =  { init; switch tag { … } }
		as, ok := s.Init.(*ast.AssignStmt)
		if !ok {
			return nil, t.errf(s, "switch with an initialiser that is not an assignment")
		}
		t.push()
		defer t.pop()
		its, err := t.assign(as, false)
		if err != nil {
			return nil, err
		}
		out = append(out, wItem{"scope"})
		out = append(out, its...)
	}
	var tag []string
	if s.Tag != nil {
		sel, ok := s.Tag.(*ast.SelectorExpr)
		if !ok {
			return nil, t.errf(s, "switch tag is not a field of a variable")
		}
		if _, _, ok := t.varName(sel.X); !ok {
			return nil, t.errf(s, "switch tag is not a field of a variable")
		}
		var err error
		tag, err = t.expr(s.Tag)
		if err != nil {
			return nil, err
		}
	}
	depth := 0
	var def *ast.CaseClause
	for i, c := range s.Body.List {
		cc := c.(*ast.CaseClause)
		if breaksSwitch(cc.Body) {
			return nil, t.errf(cc, "case body with a break of the switch, a fallthrough or a label")
		}
		if cc.List == nil {
			if i != len(s.Body.List)-1 {
				return nil, t.errf(cc, "default is not the last case")
			}
			def = cc
			continue
		}
		var cond []string
		for j, v := range cc.List {
			var one []string
			if s.Tag != nil {
				ve, err := t.expr(v)
				if err != nil {
					return nil, err
				}
				if ve[0] != "str" && ve[0] != "kind" {
					return nil, t.errf(v, "case label is not a constant")
				}
				one = append(append([]string{"eq"}, tag...), ve...)
			} else {
				// switch { case C: … }
				ce, err := t.cond(v)
				if err != nil {
					return nil, err
				}
				one = ce
			}
			if j < len(cc.List)-1 {
				cond = append(append(cond, "or"), one...)
			} else {
				cond = append(cond, one...)
			}
		}
		body, err := t.block(cc.Body)
		if err != nil {
			return nil, err
		}
		if depth > 0 {
			out = append(out, wItem{"else"})
		}
		out = append(out, append(wItem{"if"}, cond...))
		out = append(out, body...)
		depth++
	}
	if depth == 0 {
		return nil, t.errf(s, "switch without cases")
	}
	if def != nil {
		body, err := t.block(def.Body)
		if err != nil {
			return nil, err
		}
		out = append(out, wItem{"else"})
		out = append(out, body...)
	}
	for i := 0; i < depth; i++ {
		out = append(out, wItem{"end"})
	}
	if s.Init != nil {
		out = append(out, wItem{"end"})
	}
	return out, nil
}

func (t *ptrans) ifStmt(s *ast.IfStmt) ([]wItem, error) {
	var out []wItem
	if s.Init != nil {
		as, ok := s.Init.(*ast.AssignStmt)
		if !ok {
			return nil, t.errf(s, "if with an initialiser that is not an assignment")
		}
		t.push()
		defer t.pop()
		its, err := t.assign(as, false)
		if err != nil {
			return nil, err
		}
		out = append(out, wItem{"scope"})
		out = append(out, its...)
	}
	c, err := t.cond(s.Cond)
	if err != nil {
		return nil, err
	}
	out = append(out, append(wItem{"if"}, c...))
	body, err := t.block(s.Body.List)
	if err != nil {
		return nil, err
	}
	out = append(out, body...)
	switch e := s.Else.(type) {
	case nil:
	case *ast.BlockStmt:
		eb, err := t.block(e.List)
		if err != nil {
			return nil, err
		}
		out = append(out, wItem{"else"})
		out = append(out, eb...)
	case *ast.IfStmt:
		eb, err := t.ifStmt(e)
		if err != nil {
			return nil, err
		}
		out = append(out, wItem{"else"})
		out = append(out, eb...)
	default:
		return nil, t.errf(s, "else part")
	}
	out = append(out, wItem{"end"})
	if s.Init != nil {
		out = append(out, wItem{"end"})
	}
	return out, nil
}

// the translated units, in the order of the task
var ptUnits = []string{"countOperator", "whereOperator", "takeOperator", "asOperator", "sortOperator", "topOperator",
	"projectOperator", "extendColumn", "extendOperator", "summarizeColumn", "summarizeOperator", "renderProperty",
	"renderOperator", "joinOperator", "letStatement", "tabularExpr", "firstParse", "Parse", "sortTerm", "rowCount"}

func (ex *extractor) parseIR(sb *strings.Builder) error {
	consts := map[string]bool{}
	for _, f := range ex.pkgs["parser"] {
		for _, d := range f.Decls {
			gd, ok := d.(*ast.GenDecl)
			if !ok || gd.Tok != token.CONST {
				continue
			}
			for _, s := range gd.Specs {
				for _, n := range s.(*ast.ValueSpec).Names {
					if strings.HasPrefix(n.Name, "Token") {
						consts[n.Name] = true
					}
				}
			}
		}
	}
	type unit struct {
		name   string
		params [][2]string
		res    []string
		items  []wItem
	}
	var units []unit
	for _, name := range ptUnits {
		recv := "*parser"
		if name == "Parse" || name == "firstParse" {
			recv = ""
		}
		fd := ex.funcDecl("parser", recv, name)
		if fd == nil {
			return fmt.Errorf("parseIR: %s not found", name)
		}
		t := &ptrans{ex: ex, unit: name, msgVars: map[string]bool{}, consts: consts}
		t.push()
		u := unit{name: name}
		if fd.Recv != nil {
			if len(fd.Recv.List[0].Names) != 1 {
				return fmt.Errorf("parseIR %s: unnamed receiver", name)
			}
			r := fd.Recv.List[0].Names[0].Name
			t.declare(r, "*parser")
			u.params = append(u.params, [2]string{r, "*parser"})
		}
		for _, f := range fd.Type.Params.List {
			if len(f.Names) == 0 {
				return fmt.Errorf("parseIR %s: unnamed parameter", name)
			}
			for _, n := range f.Names {
				if ptReserved[n.Name] || consts[n.Name] {
					return fmt.Errorf("parseIR %s: parameter %s shadows a predeclared name", name, n.Name)
				}
				ty := typeString(f.Type)
				t.declare(n.Name, ty)
				u.params = append(u.params, [2]string{n.Name, ty})
			}
		}
		if fd.Type.Results != nil {
			for _, f := range fd.Type.Results.List {
				if len(f.Names) != 0 {
					return fmt.Errorf("parseIR %s: named results", name)
				}
			}
		}
		t.results = t.resultTypes(fd)
		u.res = t.results
		its, err := t.stmts(fd.Body.List)
		if err != nil {
			return err
		}
		if len(its) == 0 {
			return fmt.Errorf("parseIR %s: empty body", name)
		}
		u.items = its
		units = append(units, u)
	}
	sb.WriteString("/-- parser/parser.go: the statement and operator level of the parser as a flat prefix-coded IR\n")
	sb.WriteString("    (see harness/extract_parse.go): (function, parameters with their types (the receiver first),\n")
	sb.WriteString("    result types, body) -/\n")
	sb.WriteString("def parseIR : List (String × List (String × String) × List String × List (List String)) :=\n  [")
	for i, u := range units {
		if i > 0 {
			sb.WriteString(",\n   ")
		}
		fmt.Fprintf(sb, "(%s, [", leanStr(u.name))
		for j, p := range u.params {
			if j > 0 {
				sb.WriteString(", ")
			}
			fmt.Fprintf(sb, "(%s, %s)", leanStr(p[0]), leanStr(p[1]))
		}
		fmt.Fprintf(sb, "], %s,\n    [", leanStrList(u.res))
		for j, it := range u.items {
			if j > 0 {
				sb.WriteString(",\n     ")
			}
			sb.WriteString(leanStrList(it))
		}
		sb.WriteString("])")
	}
	sb.WriteString("]\n\n")
	return nil
}
