package main

// Translator for the main loop of the command-line tool: `func run(ctx, output, input, logError) error`
// in cmd/pql/main.go.  The whole body becomes one flat, prefix-coded list of items (an item is a
// list of strings); blocks are closed by ["end"], an `if` may have an ["else"] part.  Expressions
// and conditions are prefix-coded inside an item, after the item's fixed arguments.
//
// statements
//
//	["newscanner", v, r]               v := bufio.NewScanner(r)
//	["newsb", v]                       v := new(strings.Builder)
//	["stderrnote", r, text]            if isTerminal(r) { fmt.Fprintln(os.Stderr, "text") }    (stderr only)
//	["varerr", v]                      var v error
//	["forscan", v] … ["end"]           for v.Scan() { … }                 (top level of the body only)
//	["write", b, E…]                   b.Write(E)
//	["writestring", b, E…]             b.WriteString(E)
//	["writebyte", b, c]                b.WriteByte('c')
//	["reset", b]                       b.Reset()
//	["def", v, E…]                     v := E
//	["compile", s, e, E…]              s, e := pql.Compile(E)             ("_" for a blank)
//	["set", v, E…]                     v = E
//	["if", C…] … [["else"] …] ["end"]
//	["scope"] … ["end"]                { … }; `if init; C {A} else {B}` is ["scope"], init, ["if", C…] A ["else"] B ["end"], ["end"]
//	["range", v, E…] … ["end"]         for _, v := range E { … }
//	["continue"]
//	["call", f, E…]                    f(E)                               (f a parameter of function type)
//	["fprintfS", w, pre, suf, E…]      fmt.Fprintf(w, "pre%ssuf", E)
//	["return", E…]
//
// expressions E
//
//	var v | nil | lit "text" | cat E E (E + E) | sbstr v (v.String()) | scanbytes v (v.Bytes()) |
//	scanerr v (v.Err()) | split E (parser.SplitStatements(E)) | scan E (parser.Scan(E)) |
//	init w (w[:len(w)-1]) | last w (w[len(w)-1]) | errnew "text" (errors.New("text")) |
//	errorfW "format" E (fmt.Errorf("…%w…", E))
//
// conditions C
//
//	leneq n E (len(E) == n) | lengt n E (len(E) > n) | isnil v | notnil v |
//	kindis w i K (w[i].Kind == parser.K) | valueis w i "s" (w[i].Value == "s") | and C C
//
// Any other statement, expression or condition shape is an error (the step fails, nothing is
// skipped).  Model/CliIR.lean decodes and interprets the items; Props/C16RunIR.lean proves the
// hand-written model `cliRun` equal to the interpretation of what is regenerated here.

import (
	"fmt"
	"go/ast"
	"go/token"
	"strconv"
	"strings"
)

type ctrans struct {
	ex *extractor
}

func (t *ctrans) errf(n ast.Node, format string, args ...interface{}) error {
	first := strings.SplitN(t.ex.src(n), "\n", 2)[0]
	return fmt.Errorf("cliIR run: %s: %s", fmt.Sprintf(format, args...), first)
}

func identName(e ast.Expr) (string, bool) {
	id, ok := e.(*ast.Ident)
	if !ok || id.Name == "nil" {
		return "", false
	}
	return id.Name, true
}

// pkg.Name
func isPkgSel(e ast.Expr, pkg, name string) bool {
	sel, ok := e.(*ast.SelectorExpr)
	return ok && isIdent(sel.X, pkg) && sel.Sel.Name == name
}

// v.Method with v a plain variable
func methodOf(e ast.Expr) (string, string, bool) {
	sel, ok := e.(*ast.SelectorExpr)
	if !ok {
		return "", "", false
	}
	v, ok := identName(sel.X)
	if !ok || v == "_" {
		return "", "", false
	}
	return v, sel.Sel.Name, true
}

var cliPackages = map[string]bool{"parser": true, "pql": true, "fmt": true, "errors": true, "bufio": true, "strings": true, "os": true}

// len(w)-1
func isLenMinusOne(e ast.Expr, w string) bool {
	b, ok := e.(*ast.BinaryExpr)
	if !ok || b.Op != token.SUB || !isIntLit(b.Y, "1") {
		return false
	}
	c, ok := b.X.(*ast.CallExpr)
	return ok && isIdent(c.Fun, "len") && len(c.Args) == 1 && isIdent(c.Args[0], w)
}

func (t *ctrans) expr(e ast.Expr) ([]string, error) {
	switch x := e.(type) {
	case *ast.ParenExpr:
		return t.expr(x.X)
	case *ast.Ident:
		if x.Name == "nil" {
			return []string{"nil"}, nil
		}
		if x.Name == "_" || cliPackages[x.Name] {
			return nil, t.errf(e, "not a variable")
		}
		return []string{"var", x.Name}, nil
	case *ast.BasicLit:
		if s, ok := strLit(x); ok {
			return []string{"lit", s}, nil
		}
	case *ast.BinaryExpr:
		if x.Op == token.ADD {
			a, err := t.expr(x.X)
			if err != nil {
				return nil, err
			}
			b, err := t.expr(x.Y)
			if err != nil {
				return nil, err
			}
			return append(append([]string{"cat"}, a...), b...), nil
		}
	case *ast.SliceExpr:
		if w, ok := identName(x.X); ok && x.Low == nil && x.High != nil && !x.Slice3 && isLenMinusOne(x.High, w) {
			return []string{"init", w}, nil
		}
	case *ast.IndexExpr:
		if w, ok := identName(x.X); ok && isLenMinusOne(x.Index, w) {
			return []string{"last", w}, nil
		}
	case *ast.CallExpr:
		if x.Ellipsis != token.NoPos {
			break
		}
		switch {
		case isPkgSel(x.Fun, "parser", "SplitStatements") && len(x.Args) == 1:
			a, err := t.expr(x.Args[0])
			if err != nil {
				return nil, err
			}
			return append([]string{"split"}, a...), nil
		case isPkgSel(x.Fun, "parser", "Scan") && len(x.Args) == 1:
			a, err := t.expr(x.Args[0])
			if err != nil {
				return nil, err
			}
			return append([]string{"scan"}, a...), nil
		case isPkgSel(x.Fun, "errors", "New") && len(x.Args) == 1:
			if s, ok := strLit(x.Args[0]); ok {
				return []string{"errnew", s}, nil
			}
		case isPkgSel(x.Fun, "fmt", "Errorf") && len(x.Args) == 2:
			if f, ok := strLit(x.Args[0]); ok && strings.Count(f, "%") == 1 && strings.Count(f, "%w") == 1 {
				a, err := t.expr(x.Args[1])
				if err != nil {
					return nil, err
				}
				return append([]string{"errorfW", f}, a...), nil
			}
		default:
			if v, m, ok := methodOf(x.Fun); ok && len(x.Args) == 0 && !cliPackages[v] {
				switch m {
				case "String":
					return []string{"sbstr", v}, nil
				case "Bytes":
					return []string{"scanbytes", v}, nil
				case "Err":
					return []string{"scanerr", v}, nil
				}
			}
		}
	}
	return nil, t.errf(e, "expression not of a known shape")
}

// w[i] with i an integer literal
func constIndex(e ast.Expr) (string, string, bool) {
	ix, ok := e.(*ast.IndexExpr)
	if !ok {
		return "", "", false
	}
	w, ok := identName(ix.X)
	lit, isLit := ix.Index.(*ast.BasicLit)
	if !ok || !isLit || lit.Kind != token.INT {
		return "", "", false
	}
	if _, err := strconv.ParseUint(lit.Value, 10, 31); err != nil {
		return "", "", false
	}
	return w, lit.Value, true
}

func (t *ctrans) cond(e ast.Expr) ([]string, error) {
	switch x := e.(type) {
	case *ast.ParenExpr:
		return t.cond(x.X)
	case *ast.BinaryExpr:
		switch x.Op {
		case token.LAND:
			a, err := t.cond(x.X)
			if err != nil {
				return nil, err
			}
			b, err := t.cond(x.Y)
			if err != nil {
				return nil, err
			}
			return append(append([]string{"and"}, a...), b...), nil
		case token.EQL, token.GTR, token.NEQ:
			// len(E) == n, len(E) > n
			if c, ok := x.X.(*ast.CallExpr); ok && isIdent(c.Fun, "len") && len(c.Args) == 1 && x.Op != token.NEQ {
				if lit, ok := x.Y.(*ast.BasicLit); ok && lit.Kind == token.INT {
					if _, err := strconv.ParseUint(lit.Value, 10, 31); err == nil {
						a, err := t.expr(c.Args[0])
						if err != nil {
							return nil, err
						}
						k := "leneq"
						if x.Op == token.GTR {
							k = "lengt"
						}
						return append([]string{k, lit.Value}, a...), nil
					}
				}
			}
			// v == nil, v != nil
			if isIdent(x.Y, "nil") && x.Op != token.GTR {
				if v, ok := identName(x.X); ok && v != "_" && !cliPackages[v] {
					if x.Op == token.EQL {
						return []string{"isnil", v}, nil
					}
					return []string{"notnil", v}, nil
				}
			}
			// w[i].Kind == parser.K, w[i].Value == "s"
			if sel, ok := x.X.(*ast.SelectorExpr); ok && x.Op == token.EQL {
				if w, i, ok := constIndex(sel.X); ok {
					switch sel.Sel.Name {
					case "Kind":
						if k, ok := x.Y.(*ast.SelectorExpr); ok && isIdent(k.X, "parser") {
							return []string{"kindis", w, i, k.Sel.Name}, nil
						}
					case "Value":
						if s, ok := strLit(x.Y); ok {
							return []string{"valueis", w, i, s}, nil
						}
					}
				}
			}
		}
	}
	return nil, t.errf(e, "condition not of a known shape")
}

func (t *ctrans) callStmt(call *ast.CallExpr) (wItem, error) {
	if call.Ellipsis != token.NoPos {
		return nil, t.errf(call, "variadic call")
	}
	// fmt.Fprintf(w, "pre%ssuf", E)
	if isPkgSel(call.Fun, "fmt", "Fprintf") {
		if len(call.Args) == 3 {
			w, ok1 := identName(call.Args[0])
			f, ok2 := strLit(call.Args[1])
			if ok1 && ok2 && !cliPackages[w] && strings.Count(f, "%") == 1 && strings.Count(f, "%s") == 1 {
				a, err := t.expr(call.Args[2])
				if err != nil {
					return nil, err
				}
				i := strings.Index(f, "%s")
				return append(wItem{"fprintfS", w, f[:i], f[i+2:]}, a...), nil
			}
		}
		return nil, t.errf(call, "Fprintf not of the shape Fprintf(w, \"…%%s…\", E)")
	}
	// f(E) with f a plain identifier
	if f, ok := identName(call.Fun); ok {
		if len(call.Args) == 1 && f != "_" && f != "len" && f != "new" && f != "panic" && f != "append" && f != "isTerminal" {
			a, err := t.expr(call.Args[0])
			if err != nil {
				return nil, err
			}
			return append(wItem{"call", f}, a...), nil
		}
		return nil, t.errf(call, "call not of a known shape")
	}
	// b.Write(E), b.WriteString(E), b.WriteByte('c'), b.Reset()
	if v, m, ok := methodOf(call.Fun); ok && !cliPackages[v] {
		switch m {
		case "Write", "WriteString":
			if len(call.Args) == 1 {
				a, err := t.expr(call.Args[0])
				if err != nil {
					return nil, err
				}
				return append(wItem{strings.ToLower(m), v}, a...), nil
			}
		case "WriteByte":
			if len(call.Args) == 1 {
				if lit, ok := call.Args[0].(*ast.BasicLit); ok && lit.Kind == token.CHAR {
					c, err := strconv.Unquote(lit.Value)
					if err == nil && len(c) == 1 {
						return wItem{"writebyte", v, c}, nil
					}
				}
			}
		case "Reset":
			if len(call.Args) == 0 {
				return wItem{"reset", v}, nil
			}
		}
	}
	return nil, t.errf(call, "call not of a known shape")
}

func (t *ctrans) assign(as *ast.AssignStmt) (wItem, error) {
	// s, e := pql.Compile(E)
	if as.Tok == token.DEFINE && len(as.Lhs) == 2 && len(as.Rhs) == 1 {
		a, ok1 := as.Lhs[0].(*ast.Ident)
		b, ok2 := as.Lhs[1].(*ast.Ident)
		call, ok3 := as.Rhs[0].(*ast.CallExpr)
		if ok1 && ok2 && ok3 && isPkgSel(call.Fun, "pql", "Compile") && len(call.Args) == 1 && call.Ellipsis == token.NoPos {
			e, err := t.expr(call.Args[0])
			if err != nil {
				return nil, err
			}
			return append(wItem{"compile", a.Name, b.Name}, e...), nil
		}
		return nil, t.errf(as, "two-valued definition that is not `s, e := pql.Compile(E)`")
	}
	if len(as.Lhs) != 1 || len(as.Rhs) != 1 {
		return nil, t.errf(as, "assignment not of a known shape")
	}
	v, ok := identName(as.Lhs[0])
	if !ok || v == "_" || cliPackages[v] {
		return nil, t.errf(as, "assignment target is not a variable")
	}
	rhs := as.Rhs[0]
	switch as.Tok {
	case token.ASSIGN:
		e, err := t.expr(rhs)
		if err != nil {
			return nil, err
		}
		return append(wItem{"set", v}, e...), nil
	case token.DEFINE:
		if call, ok := rhs.(*ast.CallExpr); ok && call.Ellipsis == token.NoPos && len(call.Args) == 1 {
			if isPkgSel(call.Fun, "bufio", "NewScanner") {
				if r, ok := identName(call.Args[0]); ok && !cliPackages[r] {
					return wItem{"newscanner", v, r}, nil
				}
				return nil, t.errf(as, "NewScanner of something that is not a variable")
			}
			if isIdent(call.Fun, "new") {
				if isPkgSel(call.Args[0], "strings", "Builder") {
					return wItem{"newsb", v}, nil
				}
				return nil, t.errf(as, "new of a type that is not strings.Builder")
			}
		}
		e, err := t.expr(rhs)
		if err != nil {
			return nil, err
		}
		return append(wItem{"def", v}, e...), nil
	}
	return nil, t.errf(as, "assignment operator")
}

// `if isTerminal(r) { fmt.Fprintln(os.Stderr, "text") }`: writes to stderr only
func (t *ctrans) stderrNote(s *ast.IfStmt) (wItem, bool) {
	if s.Init != nil || s.Else != nil || len(s.Body.List) != 1 {
		return nil, false
	}
	c, ok := s.Cond.(*ast.CallExpr)
	if !ok || !isIdent(c.Fun, "isTerminal") || len(c.Args) != 1 {
		return nil, false
	}
	r, ok := identName(c.Args[0])
	if !ok {
		return nil, false
	}
	es, ok := s.Body.List[0].(*ast.ExprStmt)
	if !ok {
		return nil, false
	}
	call, ok := es.X.(*ast.CallExpr)
	if !ok || !isPkgSel(call.Fun, "fmt", "Fprintln") || len(call.Args) != 2 || !isPkgSel(call.Args[0], "os", "Stderr") {
		return nil, false
	}
	text, ok := strLit(call.Args[1])
	if !ok {
		return nil, false
	}
	return wItem{"stderrnote", r, text}, true
}

// a statement list; `top` = the body of the function (the scanner loop is admitted only there)
func (t *ctrans) stmts(list []ast.Stmt, top bool) ([]wItem, error) {
	var out []wItem
	for _, st := range list {
		its, err := t.stmt(st, top)
		if err != nil {
			return nil, err
		}
		out = append(out, its...)
	}
	return out, nil
}

func (t *ctrans) stmt(st ast.Stmt, top bool) ([]wItem, error) {
	switch s := st.(type) {
	case *ast.ExprStmt:
		call, ok := s.X.(*ast.CallExpr)
		if !ok {
			return nil, t.errf(st, "expression statement is not a call")
		}
		it, err := t.callStmt(call)
		if err != nil {
			return nil, err
		}
		return []wItem{it}, nil
	case *ast.AssignStmt:
		it, err := t.assign(s)
		if err != nil {
			return nil, err
		}
		return []wItem{it}, nil
	case *ast.DeclStmt:
		// var v error
		gd, ok := s.Decl.(*ast.GenDecl)
		if !ok || gd.Tok != token.VAR || len(gd.Specs) != 1 {
			return nil, t.errf(st, "declaration is not a single variable")
		}
		vs := gd.Specs[0].(*ast.ValueSpec)
		if len(vs.Names) != 1 || len(vs.Values) != 0 || !isIdent(vs.Type, "error") || vs.Names[0].Name == "_" {
			return nil, t.errf(st, "declaration is not `var v error`")
		}
		return []wItem{{"varerr", vs.Names[0].Name}}, nil
	case *ast.IfStmt:
		return t.ifStmt(s)
	case *ast.BlockStmt:
		body, err := t.stmts(s.List, false)
		if err != nil {
			return nil, err
		}
		out := []wItem{{"scope"}}
		out = append(out, body...)
		return append(out, wItem{"end"}), nil
	case *ast.ForStmt:
		// for v.Scan() { … }
		if s.Init != nil || s.Post != nil || s.Cond == nil {
			return nil, t.errf(st, "for loop not of the shape `for v.Scan()`")
		}
		call, ok := s.Cond.(*ast.CallExpr)
		if !ok || len(call.Args) != 0 {
			return nil, t.errf(st, "for loop not of the shape `for v.Scan()`")
		}
		v, m, ok := methodOf(call.Fun)
		if !ok || m != "Scan" || cliPackages[v] {
			return nil, t.errf(st, "for loop not of the shape `for v.Scan()`")
		}
		if !top {
			return nil, t.errf(st, "scanner loop that is not at the top level of the function")
		}
		body, err := t.stmts(s.Body.List, false)
		if err != nil {
			return nil, err
		}
		out := []wItem{{"forscan", v}}
		out = append(out, body...)
		return append(out, wItem{"end"}), nil
	case *ast.RangeStmt:
		// for _, v := range E { … }
		if s.Tok != token.DEFINE || s.Key == nil || s.Value == nil || !isIdent(s.Key, "_") {
			return nil, t.errf(st, "range loop not of the shape `for _, v := range E`")
		}
		v, ok := identName(s.Value)
		if !ok || v == "_" {
			return nil, t.errf(st, "range loop without an element variable")
		}
		e, err := t.expr(s.X)
		if err != nil {
			return nil, err
		}
		body, err := t.stmts(s.Body.List, false)
		if err != nil {
			return nil, err
		}
		out := []wItem{append(wItem{"range", v}, e...)}
		out = append(out, body...)
		return append(out, wItem{"end"}), nil
	case *ast.BranchStmt:
		if s.Tok == token.CONTINUE && s.Label == nil {
			return []wItem{{"continue"}}, nil
		}
		return nil, t.errf(st, "branch statement other than a plain continue")
	case *ast.ReturnStmt:
		if len(s.Results) != 1 {
			return nil, t.errf(st, "return without exactly one value")
		}
		e, err := t.expr(s.Results[0])
		if err != nil {
			return nil, err
		}
		return []wItem{append(wItem{"return"}, e...)}, nil
	}
	return nil, t.errf(st, "statement not of a known shape (%T)", st)
}

func (t *ctrans) ifStmt(s *ast.IfStmt) ([]wItem, error) {
	if it, ok := t.stderrNote(s); ok {
		return []wItem{it}, nil
	}
	var out []wItem
	if s.Init != nil {
		// if init; C {A} else {B}  =  { init; if C {A} else {B} }
		as, ok := s.Init.(*ast.AssignStmt)
		if !ok {
			return nil, t.errf(s, "if with an initialiser that is not an assignment")
		}
		it, err := t.assign(as)
		if err != nil {
			return nil, err
		}
		out = append(out, wItem{"scope"}, it)
	}
	c, err := t.cond(s.Cond)
	if err != nil {
		return nil, err
	}
	out = append(out, append(wItem{"if"}, c...))
	body, err := t.stmts(s.Body.List, false)
	if err != nil {
		return nil, err
	}
	out = append(out, body...)
	switch e := s.Else.(type) {
	case nil:
	case *ast.BlockStmt:
		eb, err := t.stmts(e.List, false)
		if err != nil {
			return nil, err
		}
		out = append(out, wItem{"else"})
		out = append(out, eb...)
	case *ast.IfStmt:
		eb, err := t.ifStmt(e)
		if err != nil {
			return nil, err
		}
		out = append(out, wItem{"else"})
		out = append(out, eb...)
	default:
		return nil, t.errf(s, "else part")
	}
	out = append(out, wItem{"end"})
	if s.Init != nil {
		out = append(out, wItem{"end"})
	}
	return out, nil
}

func (ex *extractor) cliIR(sb *strings.Builder) error {
	fd := ex.funcDecl("cmd", "", "run")
	if fd == nil {
		return fmt.Errorf("cliIR: func run not found in cmd/pql")
	}
	// the signature: parameter names with their types, one result
	var params [][2]string
	for _, f := range fd.Type.Params.List {
		if len(f.Names) == 0 {
			return fmt.Errorf("cliIR run: unnamed parameter")
		}
		for _, n := range f.Names {
			if cliPackages[n.Name] {
				return fmt.Errorf("cliIR run: parameter %s shadows a package", n.Name)
			}
			params = append(params, [2]string{n.Name, cliTypeString(f.Type)})
		}
	}
	if fd.Type.Results == nil || len(fd.Type.Results.List) != 1 || len(fd.Type.Results.List[0].Names) != 0 ||
		typeString(fd.Type.Results.List[0].Type) != "error" {
		return fmt.Errorf("cliIR run: the result is not a single unnamed error")
	}
	// the function must not be a closure user: no function literals, goroutines, defers (refused below as unknown shapes)
	t := &ctrans{ex: ex}
	its, err := t.stmts(fd.Body.List, true)
	if err != nil {
		return err
	}
	// the imports the primitives refer to must be the real packages
	want := map[string]string{"parser": "github.com/runreveal/pql/parser", "pql": "github.com/runreveal/pql", "fmt": "fmt",
		"errors": "errors", "bufio": "bufio", "strings": "strings", "os": "os"}
	for _, f := range ex.pkgs["cmd"] {
		if ex.fset.Position(f.Pos()).Filename != ex.fset.Position(fd.Pos()).Filename {
			continue
		}
		seen := map[string]bool{}
		for _, im := range f.Imports {
			p, _ := strconv.Unquote(im.Path.Value)
			name := p[strings.LastIndex(p, "/")+1:]
			if im.Name != nil {
				name = im.Name.Name
			}
			if w, ok := want[name]; ok {
				if w != p {
					return fmt.Errorf("cliIR run: package name %s is bound to %s", name, p)
				}
				seen[name] = true
			} else if w2, ok := reverseLookup(want, p); ok {
				return fmt.Errorf("cliIR run: package %s imported under the name %s instead of %s", p, name, w2)
			}
		}
		for name := range want {
			if !seen[name] {
				return fmt.Errorf("cliIR run: package %s is not imported", name)
			}
		}
	}
	sb.WriteString("/-- cmd/pql/main.go: the parameters of `run` (name, type) -/\n")
	sb.WriteString("def cliRunParams : List (String × String) :=\n  [")
	for i, p := range params {
		if i > 0 {
			sb.WriteString(", ")
		}
		fmt.Fprintf(sb, "(%s, %s)", leanStr(p[0]), leanStr(p[1]))
	}
	sb.WriteString("]\n\n")
	sb.WriteString("/-- cmd/pql/main.go: the body of `run` as a flat prefix-coded IR (see harness/extract_cli.go) -/\n")
	sb.WriteString("def cliIR : List (List String) :=\n  [")
	for j, it := range its {
		if j > 0 {
			sb.WriteString(",\n   ")
		}
		sb.WriteString(leanStrList(it))
	}
	sb.WriteString("]\n\n")
	return nil
}

// like typeString, with the parameter and result types of a function type spelled out
func cliTypeString(e ast.Expr) string {
	ft, ok := e.(*ast.FuncType)
	if !ok {
		return typeString(e)
	}
	list := func(fl *ast.FieldList) string {
		var out []string
		if fl != nil {
			for _, f := range fl.List {
				n := len(f.Names)
				if n == 0 {
					n = 1
				}
				for i := 0; i < n; i++ {
					out = append(out, cliTypeString(f.Type))
				}
			}
		}
		return strings.Join(out, ",")
	}
	s := "func(" + list(ft.Params) + ")"
	if r := list(ft.Results); r != "" {
		s += " " + r
	}
	return s
}

func reverseLookup(m map[string]string, v string) (string, bool) {
	for k, x := range m {
		if x == v {
			return k, true
		}
	}
	return "", false
}
