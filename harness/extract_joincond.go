package main

// Translator for the two expression-building functions the join case of `splitQueries` calls:
// `buildJoinCondition` and `rewriteSimpleJoinCondition` (pql.go).  Each body becomes one unit of
// `Facts.joinCondIR`, a flat list of items as in extract_write.go / extract_split.go; terms and
// conditions are prefix-coded and self-delimiting.
//
//	<term> ::= var v | index v N (v[N], N a literal) | path v F (v.F, constant indexes kept in F)
//	         | call f <term> | asq <term>            ((<term>).AsQualified())
//	         | node T (K <fval>)* end                &parser.T{K: …, …}   (also the elided `{K: …}` inside a list)
//	<fval> ::= <term> | tok T (parser.T, a token kind) | const c (a package constant) | str "text"
//	         | list <term>* end                      []*parser.U{…}
//	<cond> ::= or <cond> <cond> | leneq0 v (len(v) == 0) | notok v (!v) | lenne1 v F (len(v.F) != 1)
//	         | flag v F (v.F) | mapnonempty m v F (m[v.F] != "")
//
//	["if", <cond>] … ["end"]
//	["assert", v, ok, x, T]          v, ok := x.(*parser.T)
//	["def", v, <term>]               v := <term>
//	["set", v, <term>]               v = <term>
//	["forrange", y, v, N] … ["end"]  for _, y := range v[N:]
//	["return", <term>]
//
// Any other shape is an error.  Model/JoinCondIR.lean interprets the items; Props/C03JoinCondIR.lean
// proves the model's `buildJoinCondition` / `rewriteSimpleJoinCondition` equal to the interpretation.

import (
	"fmt"
	"go/ast"
	"go/token"
	"strings"
)

type jtrans struct {
	w *wtrans
}

func (t *jtrans) errf(n ast.Node, format string, args ...interface{}) error {
	first := strings.SplitN(t.w.ex.src(n), "\n", 2)[0]
	return fmt.Errorf("joinCondIR %s: %s: %s", t.w.unit, fmt.Sprintf(format, args...), first)
}

// &parser.T{…} / (elided) {…} with element type T
func (t *jtrans) node(cl *ast.CompositeLit, elided string) ([]string, error) {
	typ := elided
	if cl.Type != nil {
		sel, ok := cl.Type.(*ast.SelectorExpr)
		if !ok || !isIdent(sel.X, "parser") {
			return nil, t.errf(cl, "literal of a type outside package parser")
		}
		typ = sel.Sel.Name
	}
	if typ == "" {
		return nil, t.errf(cl, "literal without a type")
	}
	out := []string{"node", typ}
	for _, el := range cl.Elts {
		kv, ok := el.(*ast.KeyValueExpr)
		if !ok {
			return nil, t.errf(el, "literal field without a key")
		}
		k, ok := kv.Key.(*ast.Ident)
		if !ok {
			return nil, t.errf(el, "literal key")
		}
		v, err := t.fval(kv.Value)
		if err != nil {
			return nil, err
		}
		out = append(out, k.Name)
		out = append(out, v...)
	}
	return append(out, "end"), nil
}

func (t *jtrans) fval(e ast.Expr) ([]string, error) {
	if s, ok := strLit(e); ok {
		return []string{"str", s}, nil
	}
	if sel, ok := e.(*ast.SelectorExpr); ok && isIdent(sel.X, "parser") && strings.HasPrefix(sel.Sel.Name, "Token") {
		return []string{"tok", sel.Sel.Name}, nil
	}
	if id, ok := e.(*ast.Ident); ok && (id.Name == "leftJoinTableAlias" || id.Name == "rightJoinTableAlias") {
		return []string{"const", id.Name}, nil
	}
	// []*parser.U{…}
	if cl, ok := e.(*ast.CompositeLit); ok {
		if at, ok := cl.Type.(*ast.ArrayType); ok && at.Len == nil {
			star, ok := at.Elt.(*ast.StarExpr)
			if !ok {
				return nil, t.errf(e, "slice literal of non-pointers")
			}
			sel, ok := star.X.(*ast.SelectorExpr)
			if !ok || !isIdent(sel.X, "parser") {
				return nil, t.errf(e, "slice literal element type")
			}
			out := []string{"list"}
			for _, el := range cl.Elts {
				if inner, ok := el.(*ast.CompositeLit); ok && inner.Type == nil {
					n, err := t.node(inner, sel.Sel.Name)
					if err != nil {
						return nil, err
					}
					out = append(out, n...)
					continue
				}
				x, err := t.term(el)
				if err != nil {
					return nil, err
				}
				out = append(out, x...)
			}
			return append(out, "end"), nil
		}
	}
	return t.term(e)
}

func (t *jtrans) term(e ast.Expr) ([]string, error) {
	switch x := e.(type) {
	case *ast.ParenExpr:
		return t.term(x.X)
	case *ast.Ident:
		if v, ok := identNameS(x); ok {
			return []string{"var", v}, nil
		}
	case *ast.IndexExpr:
		if v, ok := identNameS(x.X); ok {
			if lit, ok := x.Index.(*ast.BasicLit); ok && lit.Kind == token.INT {
				return []string{"index", v, lit.Value}, nil
			}
		}
		if r, f, ok := t.w.path(e); ok && f != "" {
			return []string{"path", r, f}, nil
		}
	case *ast.SelectorExpr:
		if r, f, ok := t.w.path(e); ok && f != "" {
			return []string{"path", r, f}, nil
		}
	case *ast.UnaryExpr:
		if cl, ok := x.X.(*ast.CompositeLit); ok && x.Op == token.AND {
			return t.node(cl, "")
		}
	case *ast.CallExpr:
		if f, ok := identNameS(x.Fun); ok && len(x.Args) == 1 && (f == "rewriteSimpleJoinCondition") {
			a, err := t.term(x.Args[0])
			if err != nil {
				return nil, err
			}
			return append([]string{"call", f}, a...), nil
		}
		if sel, ok := x.Fun.(*ast.SelectorExpr); ok && sel.Sel.Name == "AsQualified" && len(x.Args) == 0 {
			a, err := t.term(sel.X)
			if err != nil {
				return nil, err
			}
			return append([]string{"asq"}, a...), nil
		}
	}
	return nil, t.errf(e, "term not of a known shape")
}

func (t *jtrans) cond(e ast.Expr) ([]string, error) {
	switch x := e.(type) {
	case *ast.ParenExpr:
		return t.cond(x.X)
	case *ast.UnaryExpr:
		if x.Op == token.NOT {
			if v, ok := identNameS(x.X); ok {
				return []string{"notok", v}, nil
			}
		}
	case *ast.SelectorExpr:
		if r, f, ok := t.w.path(x); ok && f != "" {
			return []string{"flag", r, f}, nil
		}
	case *ast.BinaryExpr:
		switch x.Op {
		case token.LOR:
			a, err := t.cond(x.X)
			if err != nil {
				return nil, err
			}
			b, err := t.cond(x.Y)
			if err != nil {
				return nil, err
			}
			return append(append([]string{"or"}, a...), b...), nil
		case token.EQL:
			if r, f, ok := t.w.lenOf(x.X); ok && f == "" && isIntLit(x.Y, "0") {
				return []string{"leneq0", r}, nil
			}
		case token.NEQ:
			if r, f, ok := t.w.lenOf(x.X); ok && f != "" && isIntLit(x.Y, "1") {
				return []string{"lenne1", r, f}, nil
			}
			if s, ok := strLit(x.Y); ok && s == "" {
				if ix, ok := x.X.(*ast.IndexExpr); ok {
					m, ok1 := identNameS(ix.X)
					r, f, ok2 := t.w.path(ix.Index)
					if ok1 && ok2 && f != "" {
						return []string{"mapnonempty", m, r, f}, nil
					}
				}
			}
		}
	}
	return nil, t.errf(e, "condition not of a known shape")
}

func (t *jtrans) stmts(list []ast.Stmt) ([]wItem, error) {
	var out []wItem
	for _, st := range list {
		switch s := st.(type) {
		case *ast.ReturnStmt:
			if len(s.Results) != 1 {
				return nil, t.errf(st, "return shape")
			}
			x, err := t.term(s.Results[0])
			if err != nil {
				return nil, err
			}
			out = append(out, append(wItem{"return"}, x...))
		case *ast.IfStmt:
			if s.Init != nil || s.Else != nil {
				return nil, t.errf(st, "if with an initialiser or an else part")
			}
			c, err := t.cond(s.Cond)
			if err != nil {
				return nil, err
			}
			body, err := t.stmts(s.Body.List)
			if err != nil {
				return nil, err
			}
			out = append(out, append(wItem{"if"}, c...))
			out = append(out, body...)
			out = append(out, wItem{"end"})
		case *ast.AssignStmt:
			// v, ok := x.(*parser.T)
			if len(s.Lhs) == 2 && len(s.Rhs) == 1 && s.Tok == token.DEFINE {
				v, ok1 := identNameS(s.Lhs[0])
				okv, ok2 := identNameS(s.Lhs[1])
				ta, ok3 := s.Rhs[0].(*ast.TypeAssertExpr)
				if ok1 && ok2 && ok3 && ta.Type != nil {
					if star, ok := ta.Type.(*ast.StarExpr); ok {
						if sel, ok := star.X.(*ast.SelectorExpr); ok && isIdent(sel.X, "parser") {
							if x, ok := identNameS(ta.X); ok {
								out = append(out, wItem{"assert", v, okv, x, sel.Sel.Name})
								continue
							}
						}
					}
				}
				return nil, t.errf(st, "two-valued definition that is not a type assertion")
			}
			if len(s.Lhs) != 1 || len(s.Rhs) != 1 {
				return nil, t.errf(st, "assignment shape")
			}
			v, ok := identNameS(s.Lhs[0])
			if !ok {
				return nil, t.errf(st, "assignment target is not a variable")
			}
			x, err := t.term(s.Rhs[0])
			if err != nil {
				return nil, err
			}
			switch s.Tok {
			case token.DEFINE:
				out = append(out, append(wItem{"def", v}, x...))
			case token.ASSIGN:
				out = append(out, append(wItem{"set", v}, x...))
			default:
				return nil, t.errf(st, "assignment operator")
			}
		case *ast.RangeStmt:
			// for _, y := range v[N:]
			if s.Tok != token.DEFINE || s.Key == nil || !isIdent(s.Key, "_") || s.Value == nil {
				return nil, t.errf(st, "range loop shape")
			}
			y, ok := identNameS(s.Value)
			sl, ok2 := s.X.(*ast.SliceExpr)
			if !ok || !ok2 || sl.High != nil || sl.Slice3 || sl.Low == nil {
				return nil, t.errf(st, "range loop is not over v[N:]")
			}
			v, ok := identNameS(sl.X)
			lit, ok2 := sl.Low.(*ast.BasicLit)
			if !ok || !ok2 || lit.Kind != token.INT {
				return nil, t.errf(st, "range loop is not over v[N:]")
			}
			body, err := t.stmts(s.Body.List)
			if err != nil {
				return nil, err
			}
			out = append(out, wItem{"forrange", y, v, lit.Value})
			out = append(out, body...)
			out = append(out, wItem{"end"})
		default:
			return nil, t.errf(st, "statement not of a known shape (%T)", st)
		}
	}
	return out, nil
}

func (ex *extractor) joinCondIR(sb *strings.Builder) error {
	sb.WriteString("/-- pql.go: `buildJoinCondition` and `rewriteSimpleJoinCondition` as a flat prefix-coded IR\n")
	sb.WriteString("    (see harness/extract_joincond.go): (function, parameter names, items) -/\n")
	sb.WriteString("def joinCondIR : List (String × List String × List (List String)) :=\n  [")
	for i, name := range []string{"buildJoinCondition", "rewriteSimpleJoinCondition"} {
		fd := ex.funcDecl("pql", "", name)
		if fd == nil {
			return fmt.Errorf("joinCondIR: %s not found", name)
		}
		t := &jtrans{w: &wtrans{ex: ex, unit: name}}
		its, err := t.stmts(fd.Body.List)
		if err != nil {
			return err
		}
		if len(its) == 0 || its[len(its)-1][0] != "return" {
			return fmt.Errorf("joinCondIR %s: does not end in a return", name)
		}
		if i > 0 {
			sb.WriteString(",\n   ")
		}
		fmt.Fprintf(sb, "(%s, %s, [", leanStr(name), leanStrList(paramNames(fd)))
		for j, it := range its {
			if j > 0 {
				sb.WriteString(", ")
			}
			sb.WriteString(leanStrList(it))
		}
		sb.WriteString("])")
	}
	sb.WriteString("]\n\n")
	return nil
}
