package main

// Translator for the control flow of the scanner and of a few table-like parser functions.
//
//   scanDispatch     parser/lex.go  Scan: the tag-less `switch` on the first rune `c`, case by case in
//                    source order, each case as (rune classes, rune literals, action)
//   identShape       (*scanner).ident: continuation predicate, default kind, keyword lookup
//   stringShape      (*scanner).string: the outer switch on the rune and the escape switch
//   quotedIdentShape (*scanner).quotedIdent: the switch on the rune
//   sortTermFlags    parser/parser.go (*parser).sortTerm: which keyword assigns which flag
//   rowCountCheck    (*parser).rowCount: the literal test
//   joinDefaults     (*parser).joinOperator: what the optional `kind = flavor` clause sets / leaves
//
// Every recogniser is deliberately rigid: statements are compared with their printed source text
// where no parameter is extracted, and any other shape is an error (the extractor then fails as a
// whole, DESIGN.md §2).  The Lean side interprets these tables (`Pql.Dispatch.*`) and proves that
// the hand-written model functions equal the interpretation (Props/C09Dispatch.lean,
// Props/C07Defaults.lean), so an edited case breaks a proof obligation.

import (
	"fmt"
	"go/ast"
	"go/token"
	"strconv"
	"strings"
)

func norm(s string) string { return strings.Join(strings.Fields(s), " ") }

func (ex *extractor) nsrc(n ast.Node) string { return norm(ex.src(n)) }

// condAtoms: `F(v) || v == 'x' || …` -> classes (printed callee), rune literals, in source order
func (ex *extractor) condAtoms(e ast.Expr, v string) (classes []string, runes []int, err error) {
	switch t := e.(type) {
	case *ast.ParenExpr:
		return ex.condAtoms(t.X, v)
	case *ast.BinaryExpr:
		if t.Op == token.LOR {
			c1, r1, err := ex.condAtoms(t.X, v)
			if err != nil {
				return nil, nil, err
			}
			c2, r2, err := ex.condAtoms(t.Y, v)
			if err != nil {
				return nil, nil, err
			}
			return append(c1, c2...), append(r1, r2...), nil
		}
		if t.Op == token.EQL && ex.src(t.X) == v {
			if r, ok := charLit(t.Y); ok {
				return nil, []int{r}, nil
			}
		}
	case *ast.CallExpr:
		if len(t.Args) == 1 && ex.src(t.Args[0]) == v {
			switch t.Fun.(type) {
			case *ast.Ident, *ast.SelectorExpr:
				return []string{ex.src(t.Fun)}, nil, nil
			}
		}
	}
	return nil, nil, fmt.Errorf("condition %q is not a disjunction of class(%s) / %s == 'x' terms", ex.src(e), v, v)
}

// `tokens = append(tokens, Token{Kind: K, Span: newSpan(start, s.pos)})`            -> K
// `tokens = append(tokens, errorToken(newSpan(start, s.pos), "literal"))`          -> TokenError
func (ex *extractor) tokenAppend(st ast.Stmt) (string, bool) {
	as, ok := st.(*ast.AssignStmt)
	if !ok || as.Tok != token.ASSIGN || len(as.Lhs) != 1 || len(as.Rhs) != 1 || ex.src(as.Lhs[0]) != "tokens" {
		return "", false
	}
	call, ok := as.Rhs[0].(*ast.CallExpr)
	if !ok || ex.src(call.Fun) != "append" || len(call.Args) != 2 || ex.src(call.Args[0]) != "tokens" || call.Ellipsis.IsValid() {
		return "", false
	}
	switch a := call.Args[1].(type) {
	case *ast.CompositeLit:
		if ex.src(a.Type) != "Token" || len(a.Elts) != 2 {
			return "", false
		}
		kind := ""
		span := false
		for _, el := range a.Elts {
			kv, ok := el.(*ast.KeyValueExpr)
			if !ok {
				return "", false
			}
			switch ex.src(kv.Key) {
			case "Kind":
				id, ok := kv.Value.(*ast.Ident)
				if !ok || !strings.HasPrefix(id.Name, "Token") {
					return "", false
				}
				kind = id.Name
			case "Span":
				if ex.nsrc(kv.Value) != "newSpan(start, s.pos)" {
					return "", false
				}
				span = true
			default:
				return "", false
			}
		}
		if kind == "" || !span {
			return "", false
		}
		return kind, true
	case *ast.CallExpr:
		if ex.src(a.Fun) != "errorToken" || len(a.Args) != 2 || ex.nsrc(a.Args[0]) != "newSpan(start, s.pos)" {
			return "", false
		}
		if bl, ok := a.Args[1].(*ast.BasicLit); !ok || bl.Kind != token.STRING {
			return "", false
		}
		return "TokenError", true
	}
	return "", false
}

type secKind struct {
	r    int
	kind string
}

type scanAction struct {
	tag       string // skip sub single two comment error
	method    string
	kind      string
	seconds   []secKind
	fallback  string
	unread    bool
	opener    int
	term      int
	eofKind   string
	otherKind string
}

func (a scanAction) lean() string {
	switch a.tag {
	case "skip":
		return ".skip"
	case "error":
		return ".error"
	case "sub":
		return fmt.Sprintf(".sub %s", leanStr(a.method))
	case "single":
		return fmt.Sprintf(".single %s", leanStr(a.kind))
	case "two":
		var ps []string
		for _, s := range a.seconds {
			ps = append(ps, fmt.Sprintf("(%d, %s)", s.r, leanStr(s.kind)))
		}
		return fmt.Sprintf(".two [%s] %s %v", strings.Join(ps, ", "), leanStr(a.fallback), a.unread)
	case "comment":
		return fmt.Sprintf(".comment %d %d %s %s %v", a.opener, a.term, leanStr(a.eofKind), leanStr(a.otherKind), a.unread)
	}
	panic("scanAction.lean: " + a.tag)
}

// the fallback branch of a two-rune operator: [`if ok { s.prev() }`] <tokenAppend>
func (ex *extractor) fallbackBranch(stmts []ast.Stmt, what string) (kind string, unread bool, err error) {
	if len(stmts) == 2 {
		if ex.nsrc(stmts[0]) != "if ok { s.prev() }" {
			return "", false, fmt.Errorf("%s: fallback starts with %q, expected `if ok { s.prev() }`", what, ex.nsrc(stmts[0]))
		}
		unread = true
		stmts = stmts[1:]
	}
	if len(stmts) != 1 {
		return "", false, fmt.Errorf("%s: fallback branch has %d statements", what, len(stmts))
	}
	k, ok := ex.tokenAppend(stmts[0])
	if !ok {
		return "", false, fmt.Errorf("%s: fallback does not append one token: %s", what, ex.nsrc(stmts[0]))
	}
	return k, unread, nil
}

// `ok && c == 'x'` -> x
func (ex *extractor) okAndRune(e ast.Expr) (int, bool) {
	b, ok := e.(*ast.BinaryExpr)
	if !ok || b.Op != token.LAND || ex.src(b.X) != "ok" {
		return 0, false
	}
	eq, ok := b.Y.(*ast.BinaryExpr)
	if !ok || eq.Op != token.EQL || ex.src(eq.X) != "c" {
		return 0, false
	}
	return charLit(eq.Y)
}

func (ex *extractor) scanCaseAction(body []ast.Stmt, what string) (scanAction, error) {
	bad := func(format string, args ...any) (scanAction, error) {
		return scanAction{}, fmt.Errorf("Scan: %s: %s", what, fmt.Sprintf(format, args...))
	}
	// A. empty body: the rune is skipped
	if len(body) == 0 {
		return scanAction{tag: "skip"}, nil
	}
	// B. s.prev(); tokens = append(tokens, s.METHOD())
	if len(body) == 2 && ex.nsrc(body[0]) == "s.prev()" {
		src := ex.nsrc(body[1])
		const pre, post = "tokens = append(tokens, s.", "())"
		if strings.HasPrefix(src, pre) && strings.HasSuffix(src, post) {
			m := src[len(pre) : len(src)-len(post)]
			if token.IsIdentifier(m) {
				return scanAction{tag: "sub", method: m}, nil
			}
		}
		return bad("s.prev() not followed by tokens = append(tokens, s.<method>())")
	}
	// C. one token of the width of the rune
	if len(body) == 1 {
		if k, ok := ex.tokenAppend(body[0]); ok {
			if k == "TokenError" {
				return bad("single-rune case builds an error token")
			}
			return scanAction{tag: "single", kind: k}, nil
		}
	}
	// E. if c, ok := s.next(); ok && c == 'x' { <token> } else { [if ok { s.prev() }]; <token> }
	if len(body) == 1 {
		if ifs, ok := body[0].(*ast.IfStmt); ok {
			if ifs.Init == nil || ex.nsrc(ifs.Init) != "c, ok := s.next()" {
				return bad("if without `c, ok := s.next()`")
			}
			r, ok := ex.okAndRune(ifs.Cond)
			if !ok {
				return bad("if condition %q is not `ok && c == 'x'`", ex.src(ifs.Cond))
			}
			if len(ifs.Body.List) != 1 {
				return bad("then-branch is not one statement")
			}
			k, ok := ex.tokenAppend(ifs.Body.List[0])
			if !ok {
				return bad("then-branch does not append one token")
			}
			els, ok := ifs.Else.(*ast.BlockStmt)
			if !ok {
				return bad("no else block")
			}
			fk, unread, err := ex.fallbackBranch(els.List, what)
			if err != nil {
				return scanAction{}, fmt.Errorf("Scan: %v", err)
			}
			return scanAction{tag: "two", seconds: []secKind{{r, k}}, fallback: fk, unread: unread}, nil
		}
	}
	// D. c, ok := s.next(); switch { case ok && c == 'x': <token> … default: [if ok { s.prev() }]; <token> }
	if len(body) == 2 && ex.nsrc(body[0]) == "c, ok := s.next()" {
		sw, ok := body[1].(*ast.SwitchStmt)
		if !ok || sw.Init != nil || sw.Tag != nil {
			return bad("look-ahead not followed by a tag-less switch")
		}
		act := scanAction{tag: "two"}
		hasDef := false
		for i, c := range sw.Body.List {
			cc := c.(*ast.CaseClause)
			if cc.List == nil {
				if i != len(sw.Body.List)-1 {
					return bad("default is not the last case of the inner switch")
				}
				fk, unread, err := ex.fallbackBranch(cc.Body, what)
				if err != nil {
					return scanAction{}, fmt.Errorf("Scan: %v", err)
				}
				act.fallback, act.unread, hasDef = fk, unread, true
				continue
			}
			if len(cc.List) != 1 {
				return bad("inner case with several conditions")
			}
			r, ok := ex.okAndRune(cc.List[0])
			if !ok {
				return bad("inner case %q is not `ok && c == 'x'`", ex.src(cc.List[0]))
			}
			if len(cc.Body) != 1 {
				return bad("inner case body is not one statement")
			}
			k, ok := ex.tokenAppend(cc.Body[0])
			if !ok {
				return bad("inner case does not append one token")
			}
			act.seconds = append(act.seconds, secKind{r, k})
		}
		if !hasDef {
			return bad("inner switch has no default")
		}
		return act, nil
	}
	// F. comment opener
	//   c, ok = s.next()
	//   if !ok { <token>; continue }
	//   if c == 'x' { for { c, ok = s.next(); if !ok || c == 'y' { break } }; continue }
	//   s.prev()          (optional)
	//   <token>
	if len(body) >= 4 && (ex.nsrc(body[0]) == "c, ok = s.next()" || ex.nsrc(body[0]) == "c, ok := s.next()") {
		act := scanAction{tag: "comment"}
		if1, ok := body[1].(*ast.IfStmt)
		if !ok || if1.Init != nil || if1.Else != nil || ex.src(if1.Cond) != "!ok" || len(if1.Body.List) != 2 || ex.nsrc(if1.Body.List[1]) != "continue" {
			return bad("comment case: second statement is not `if !ok { <token>; continue }`")
		}
		if act.eofKind, ok = ex.tokenAppend(if1.Body.List[0]); !ok {
			return bad("comment case: EOF branch does not append one token")
		}
		if2, ok := body[2].(*ast.IfStmt)
		if !ok || if2.Init != nil || if2.Else != nil || len(if2.Body.List) != 2 || ex.nsrc(if2.Body.List[1]) != "continue" {
			return bad("comment case: third statement is not `if c == 'x' { for {…}; continue }`")
		}
		eq, ok := if2.Cond.(*ast.BinaryExpr)
		if !ok || eq.Op != token.EQL || ex.src(eq.X) != "c" {
			return bad("comment case: opener condition %q", ex.src(if2.Cond))
		}
		if act.opener, ok = charLit(eq.Y); !ok {
			return bad("comment case: opener is not a rune literal")
		}
		loop, ok := if2.Body.List[0].(*ast.ForStmt)
		if !ok || loop.Init != nil || loop.Cond != nil || loop.Post != nil || len(loop.Body.List) != 2 ||
			ex.nsrc(loop.Body.List[0]) != "c, ok = s.next()" {
			return bad("comment case: loop shape")
		}
		brk, ok := loop.Body.List[1].(*ast.IfStmt)
		if !ok || brk.Init != nil || brk.Else != nil || ex.nsrc(brk.Body) != "{ break }" {
			return bad("comment case: loop exit shape")
		}
		or, ok := brk.Cond.(*ast.BinaryExpr)
		if !ok || or.Op != token.LOR || ex.src(or.X) != "!ok" {
			return bad("comment case: loop exit condition %q", ex.src(brk.Cond))
		}
		eq2, ok := or.Y.(*ast.BinaryExpr)
		if !ok || eq2.Op != token.EQL || ex.src(eq2.X) != "c" {
			return bad("comment case: loop exit condition %q", ex.src(brk.Cond))
		}
		if act.term, ok = charLit(eq2.Y); !ok {
			return bad("comment case: terminator is not a rune literal")
		}
		rest := body[3:]
		if len(rest) == 2 {
			if ex.nsrc(rest[0]) != "s.prev()" {
				return bad("comment case: %q where s.prev() was expected", ex.nsrc(rest[0]))
			}
			act.unread = true
			rest = rest[1:]
		}
		if len(rest) != 1 {
			return bad("comment case: %d trailing statements", len(rest))
		}
		if act.otherKind, ok = ex.tokenAppend(rest[0]); !ok {
			return bad("comment case: last statement does not append one token")
		}
		return act, nil
	}
	return bad("case body of an unrecognised shape: %s", strings.SplitN(ex.src(body[0]), "\n", 2)[0])
}

func leanStrList(xs []string) string {
	var q []string
	for _, x := range xs {
		q = append(q, leanStr(x))
	}
	return "[" + strings.Join(q, ", ") + "]"
}

func leanIntList(xs []int) string {
	var q []string
	for _, x := range xs {
		q = append(q, strconv.Itoa(x))
	}
	return "[" + strings.Join(q, ", ") + "]"
}

func (ex *extractor) scanDispatch(sb *strings.Builder) error {
	fd := ex.funcDecl("parser", "", "Scan")
	if fd == nil {
		return fmt.Errorf("Scan not found")
	}
	b := fd.Body.List
	if len(b) != 4 || ex.nsrc(b[0]) != "s := scanner{s: query}" || ex.nsrc(b[1]) != "var tokens []Token" || ex.nsrc(b[3]) != "return tokens" {
		return fmt.Errorf("Scan: body is not `s := scanner{…}; var tokens []Token; for {…}; return tokens`")
	}
	loop, ok := b[2].(*ast.ForStmt)
	if !ok || loop.Init != nil || loop.Cond != nil || loop.Post != nil || len(loop.Body.List) != 4 {
		return fmt.Errorf("Scan: loop shape")
	}
	lb := loop.Body.List
	if ex.nsrc(lb[0]) != "start := s.pos" || ex.nsrc(lb[1]) != "c, ok := s.next()" || ex.nsrc(lb[2]) != "if !ok { break }" {
		return fmt.Errorf("Scan: loop prelude is not `start := s.pos; c, ok := s.next(); if !ok { break }`")
	}
	sw, ok := lb[3].(*ast.SwitchStmt)
	if !ok || sw.Init != nil || sw.Tag != nil {
		return fmt.Errorf("Scan: loop does not end in a tag-less switch")
	}
	type row struct {
		classes []string
		runes   []int
		act     scanAction
	}
	var rows []row
	hasDef := false
	for i, c := range sw.Body.List {
		cc := c.(*ast.CaseClause)
		if cc.List == nil {
			if i != len(sw.Body.List)-1 {
				return fmt.Errorf("Scan: default is not the last case")
			}
			if len(cc.Body) != 2 || ex.nsrc(cc.Body[0]) != "span := newSpan(start, s.pos)" ||
				ex.nsrc(cc.Body[1]) != `tokens = append(tokens, errorToken(span, "unrecognized character %q", spanString(query, span)))` {
				return fmt.Errorf("Scan: default case is not the one-rune error token")
			}
			hasDef = true
			continue
		}
		if len(cc.List) != 1 {
			return fmt.Errorf("Scan: case with %d conditions", len(cc.List))
		}
		cl, rs, err := ex.condAtoms(cc.List[0], "c")
		if err != nil {
			return fmt.Errorf("Scan: %v", err)
		}
		what := "case " + ex.src(cc.List[0])
		act, err := ex.scanCaseAction(cc.Body, what)
		if err != nil {
			return err
		}
		if (act.tag == "two" || act.tag == "comment") && (len(cl) != 0 || len(rs) != 1) {
			return fmt.Errorf("Scan: %s: look-ahead case not on a single rune", what)
		}
		rows = append(rows, row{cl, rs, act})
	}
	if !hasDef {
		return fmt.Errorf("Scan: switch has no default")
	}
	sb.WriteString(`/-- what one case of ` + "`Scan`" + `'s main switch does with the rune ` + "`c`" + ` it matched (parser/lex.go):
    * skip: empty body;  * sub m: ` + "`s.prev(); tokens = append(tokens, s.m())`" + `;
    * single k: ` + "`Token{Kind: k, Span: newSpan(start, s.pos)}`" + ` with no look-ahead;
    * two seconds fallback unread: one more rune is read; ` + "`ok && c == r`" + ` for (r, k) in seconds (in order) gives kind k
      over both runes; otherwise kind fallback ("TokenError" = errorToken) over the first rune, and the second
      rune is given back (` + "`if ok { s.prev() }`" + `) iff unread;
    * comment opener term eofKind otherKind unread: one more rune is read; none: eofKind; the opener: runes are
      consumed up to and including term or to EOF, no token; another rune: otherKind, un-read iff unread;
    * error: the default case, an error token over the rune -/
inductive ScanAction
  | skip
  | sub (method : String)
  | single (kind : String)
  | two (seconds : List (Nat × String)) (fallback : String) (unread : Bool)
  | comment (opener term : Nat) (eofKind otherKind : String) (unread : Bool)
  | error
  deriving DecidableEq, Repr

/-- parser/lex.go ` + "`Scan`" + `: the cases of the tag-less switch on the first rune, in source order (Go tests them top
    to bottom): (rune-class predicates or-ed in the condition, rune literals or-ed in the condition, action) -/
def scanCases : List (List String × List Nat × ScanAction) :=
  [`)
	for i, r := range rows {
		if i > 0 {
			sb.WriteString(",\n   ")
		}
		fmt.Fprintf(sb, "(%s, %s, %s)", leanStrList(r.classes), leanIntList(r.runes), r.act.lean())
	}
	sb.WriteString("]\n\n/-- parser/lex.go `Scan`: the default case -/\ndef scanDefault : ScanAction := .error\n\n")
	return nil
}

// ---- (*scanner).ident

func (ex *extractor) identShape(sb *strings.Builder) error {
	fd := ex.funcDecl("parser", "*scanner", "ident")
	if fd == nil {
		return fmt.Errorf("(*scanner).ident not found")
	}
	b := fd.Body.List
	if len(b) != 7 {
		return fmt.Errorf("ident: %d statements", len(b))
	}
	if ex.nsrc(b[0]) != "start := s.pos" || ex.nsrc(b[1]) != "s.next()" {
		return fmt.Errorf("ident: prelude is not `start := s.pos; s.next()`")
	}
	loop, ok := b[2].(*ast.ForStmt)
	if !ok || loop.Init != nil || loop.Cond != nil || loop.Post != nil || len(loop.Body.List) != 3 ||
		ex.nsrc(loop.Body.List[0]) != "c, ok := s.next()" || ex.nsrc(loop.Body.List[1]) != "if !ok { break }" {
		return fmt.Errorf("ident: loop shape")
	}
	stop, ok := loop.Body.List[2].(*ast.IfStmt)
	if !ok || stop.Init != nil || stop.Else != nil || ex.nsrc(stop.Body) != "{ s.prev() break }" {
		return fmt.Errorf("ident: loop exit is not `if !(…) { s.prev(); break }`")
	}
	not, ok := stop.Cond.(*ast.UnaryExpr)
	if !ok || not.Op != token.NOT {
		return fmt.Errorf("ident: loop exit condition is not a negation")
	}
	classes, runes, err := ex.condAtoms(not.X, "c")
	if err != nil {
		return fmt.Errorf("ident: %v", err)
	}
	// tok := Token{Kind: K, Span: newSpan(start, s.pos)}
	const pre = "tok := Token{ Kind: "
	t := ex.nsrc(b[3])
	if !strings.HasPrefix(t, pre) || !strings.HasSuffix(t, ", Span: newSpan(start, s.pos), }") {
		return fmt.Errorf("ident: token construction %q", t)
	}
	kind := strings.TrimSuffix(strings.TrimPrefix(t, pre), ", Span: newSpan(start, s.pos), }")
	if !token.IsIdentifier(kind) {
		return fmt.Errorf("ident: kind %q", kind)
	}
	if ex.nsrc(b[4]) != "tok.Value = spanString(s.s, tok.Span)" {
		return fmt.Errorf("ident: value is not the text of the span")
	}
	if ex.nsrc(b[5]) != `if kind, ok := keywords[tok.Value]; ok { tok.Kind = kind tok.Value = "" }` {
		return fmt.Errorf("ident: keyword lookup shape: %s", ex.nsrc(b[5]))
	}
	if ex.nsrc(b[6]) != "return tok" {
		return fmt.Errorf("ident: does not end in return tok")
	}
	sb.WriteString("/-- parser/lex.go `(*scanner).ident`: the first rune is consumed unchecked; the loop continues while the rune\n")
	sb.WriteString("    satisfies one of these classes or is one of these runes; the token has kind `identKind` and the text of the\n")
	sb.WriteString("    span as value, unless the text is a key of `keywords`: then that kind and the empty value -/\n")
	fmt.Fprintf(sb, "def identCont : List String × List Nat := (%s, %s)\n", leanStrList(classes), leanIntList(runes))
	fmt.Fprintf(sb, "def identKind : String := %s\n", leanStr(kind))
	sb.WriteString("def identKeywordClearsValue : Bool := true\n\n")
	return nil
}

// ---- (*scanner).string and (*scanner).quotedIdent

// one case body of the string / quotedIdent switches -> action text
func (ex *extractor) strCaseAction(body []ast.Stmt, fn string) (string, error) {
	srcs := make([]string, len(body))
	for i, st := range body {
		srcs[i] = ex.nsrc(st)
	}
	all := strings.Join(srcs, " ; ")
	switch fn {
	case "string":
		switch {
		case all == `var value string ; if valueBuilder == nil { value = s.s[valueStart:s.last] } else { value = valueBuilder.String() } ; return Token{ Kind: TokenString, Span: newSpan(start, s.pos), Value: value, }`:
			return ".close", nil
		case all == `s.prev() ; return errorToken(newSpan(start, s.pos), "unterminated string")`:
			return ".bad true", nil
		case all == `return errorToken(newSpan(start, s.pos), "unterminated string")`:
			return ".bad false", nil
		case all == `if valueBuilder != nil { valueBuilder.WriteString(s.s[s.last:s.pos]) }`, all == `valueBuilder.WriteString(s.s[s.last:s.pos])`:
			return ".copy", nil
		case len(body) == 1:
			const pre, post = "valueBuilder.WriteRune(", ")"
			if strings.HasPrefix(all, pre) && strings.HasSuffix(all, post) {
				es, ok := body[0].(*ast.ExprStmt)
				if ok {
					if r, ok := charLit(es.X.(*ast.CallExpr).Args[0]); ok {
						return fmt.Sprintf(".rune %d", r), nil
					}
				}
			}
		}
	}
	return "", fmt.Errorf("%s: case body of an unrecognised shape: %s", fn, all)
}

type strCase struct {
	key string // "none" (the variable quoteChar) or "some N"
	act string
}

func (ex *extractor) strSwitch(sw *ast.SwitchStmt, fn string, special func(cc *ast.CaseClause) (string, bool, error)) (cases []strCase, def string, err error) {
	if sw.Init != nil || ex.src(sw.Tag) != "c" {
		return nil, "", fmt.Errorf("%s: switch is not on c", fn)
	}
	for i, c := range sw.Body.List {
		cc := c.(*ast.CaseClause)
		act := ""
		if special != nil {
			a, ok, err := special(cc)
			if err != nil {
				return nil, "", err
			}
			if ok {
				act = a
			}
		}
		if act == "" {
			act, err = ex.strCaseAction(cc.Body, fn)
			if err != nil {
				return nil, "", err
			}
		}
		if cc.List == nil {
			if i != len(sw.Body.List)-1 {
				return nil, "", fmt.Errorf("%s: default is not the last case", fn)
			}
			def = act
			continue
		}
		for _, e := range cc.List {
			if r, ok := charLit(e); ok {
				cases = append(cases, strCase{fmt.Sprintf("some %d", r), act})
			} else if ex.src(e) == "quoteChar" {
				cases = append(cases, strCase{"none", act})
			} else {
				return nil, "", fmt.Errorf("%s: case label %s", fn, ex.src(e))
			}
		}
	}
	if def == "" {
		return nil, "", fmt.Errorf("%s: switch without default", fn)
	}
	return cases, def, nil
}

func writeStrCases(sb *strings.Builder, cs []strCase) {
	sb.WriteString("[")
	for i, c := range cs {
		if i > 0 {
			sb.WriteString(", ")
		}
		fmt.Fprintf(sb, "(%s, %s)", c.key, c.act)
	}
	sb.WriteString("]")
}

func (ex *extractor) stringShape(sb *strings.Builder) error {
	fd := ex.funcDecl("parser", "*scanner", "string")
	if fd == nil {
		return fmt.Errorf("(*scanner).string not found")
	}
	b := fd.Body.List
	if len(b) != 7 {
		return fmt.Errorf("string: %d statements", len(b))
	}
	if ex.nsrc(b[0]) != "start := s.pos" || ex.nsrc(b[1]) != "quoteChar, ok := s.next()" ||
		!strings.HasPrefix(ex.nsrc(b[2]), "if !ok { return errorToken(indexSpan(start),") {
		return fmt.Errorf("string: prelude shape")
	}
	// if quoteChar != '\'' && quoteChar != '"' { s.prev(); return errorToken(…) }
	guard, ok := b[3].(*ast.IfStmt)
	if !ok || guard.Init != nil || guard.Else != nil || len(guard.Body.List) != 2 || ex.nsrc(guard.Body.List[0]) != "s.prev()" ||
		!strings.HasPrefix(ex.nsrc(guard.Body.List[1]), "return errorToken(indexSpan(start),") {
		return fmt.Errorf("string: quote guard shape")
	}
	var quotes []int
	var conj func(e ast.Expr) bool
	conj = func(e ast.Expr) bool {
		be, ok := e.(*ast.BinaryExpr)
		if !ok {
			return false
		}
		if be.Op == token.LAND {
			return conj(be.X) && conj(be.Y)
		}
		if be.Op == token.NEQ && ex.src(be.X) == "quoteChar" {
			if r, ok := charLit(be.Y); ok {
				quotes = append(quotes, r)
				return true
			}
		}
		return false
	}
	if !conj(guard.Cond) {
		return fmt.Errorf("string: quote guard condition %q", ex.src(guard.Cond))
	}
	if ex.nsrc(b[4]) != "valueStart := s.pos" || ex.nsrc(b[5]) != "var valueBuilder *strings.Builder" {
		return fmt.Errorf("string: value builder prelude")
	}
	loop, ok := b[6].(*ast.ForStmt)
	if !ok || loop.Init != nil || loop.Cond != nil || loop.Post != nil || len(loop.Body.List) != 3 ||
		ex.nsrc(loop.Body.List[0]) != "c, ok := s.next()" ||
		ex.nsrc(loop.Body.List[1]) != `if !ok { return errorToken(newSpan(start, s.pos), "unterminated string") }` {
		return fmt.Errorf("string: loop shape")
	}
	sw, ok := loop.Body.List[2].(*ast.SwitchStmt)
	if !ok {
		return fmt.Errorf("string: loop does not end in a switch")
	}
	var escCases []strCase
	escDef := ""
	outer, outerDef, err := ex.strSwitch(sw, "string", func(cc *ast.CaseClause) (string, bool, error) {
		// the escape case: builder initialisation, one more rune, the inner switch
		if len(cc.Body) != 4 {
			return "", false, nil
		}
		if ex.nsrc(cc.Body[0]) != "if valueBuilder == nil { valueBuilder = new(strings.Builder) valueBuilder.WriteString(s.s[valueStart:s.last]) }" ||
			ex.nsrc(cc.Body[1]) != "c, ok := s.next()" ||
			ex.nsrc(cc.Body[2]) != `if !ok { return errorToken(newSpan(start, s.pos), "unterminated string") }` {
			return "", false, fmt.Errorf("string: escape case prelude")
		}
		in, ok := cc.Body[3].(*ast.SwitchStmt)
		if !ok {
			return "", false, fmt.Errorf("string: escape case does not end in a switch")
		}
		var err error
		escCases, escDef, err = ex.strSwitch(in, "string", nil)
		if err != nil {
			return "", false, err
		}
		return ".escape", true, nil
	})
	if err != nil {
		return err
	}
	if escDef == "" {
		return fmt.Errorf("string: no escape case found")
	}
	sb.WriteString(`/-- what a case of the switches of ` + "`(*scanner).string`" + ` does: close the literal; return "unterminated string"
    (after ` + "`s.prev()`" + ` iff the flag); read the rune after the backslash and switch on it; copy the rune's source
    bytes to the value; append a fixed rune to the value -/
inductive StrAction
  | close
  | bad (unread : Bool)
  | escape
  | copy
  | rune (r : Nat)
  deriving DecidableEq, Repr

/-- parser/lex.go ` + "`(*scanner).string`" + `: the runes accepted as opening quote -/
`)
	fmt.Fprintf(sb, "def stringQuotes : List Nat := %s\n", leanIntList(quotes))
	sb.WriteString("/-- the switch on the rune inside the literal, in source order; key `none` = the opening quote (`quoteChar`);\n    EOF is \"unterminated string\" -/\n")
	sb.WriteString("def stringCases : List (Option Nat × StrAction) := ")
	writeStrCases(sb, outer)
	fmt.Fprintf(sb, "\ndef stringDefault : StrAction := %s\n", outerDef)
	sb.WriteString("/-- the switch on the rune after a backslash; EOF is \"unterminated string\" -/\n")
	sb.WriteString("def stringEscapes : List (Option Nat × StrAction) := ")
	writeStrCases(sb, escCases)
	fmt.Fprintf(sb, "\ndef stringEscapeDefault : StrAction := %s\n\n", escDef)
	return nil
}

func (ex *extractor) quotedIdentShape(sb *strings.Builder) error {
	fd := ex.funcDecl("parser", "*scanner", "quotedIdent")
	if fd == nil {
		return fmt.Errorf("(*scanner).quotedIdent not found")
	}
	b := fd.Body.List
	if len(b) != 3 || ex.nsrc(b[0]) != "start := s.pos" {
		return fmt.Errorf("quotedIdent: %d statements", len(b))
	}
	open, ok := b[1].(*ast.IfStmt)
	if !ok || open.Init == nil || ex.nsrc(open.Init) != "c, ok := s.next()" || open.Else != nil ||
		len(open.Body.List) != 1 || !strings.HasPrefix(ex.nsrc(open.Body.List[0]), "return errorToken(newSpan(start, s.pos),") {
		return fmt.Errorf("quotedIdent: opening check shape")
	}
	// !ok || c != '`'
	or, ok := open.Cond.(*ast.BinaryExpr)
	if !ok || or.Op != token.LOR || ex.src(or.X) != "!ok" {
		return fmt.Errorf("quotedIdent: opening condition")
	}
	ne, ok := or.Y.(*ast.BinaryExpr)
	if !ok || ne.Op != token.NEQ || ex.src(ne.X) != "c" {
		return fmt.Errorf("quotedIdent: opening condition")
	}
	quote, ok := charLit(ne.Y)
	if !ok {
		return fmt.Errorf("quotedIdent: opening rune")
	}
	loop, ok := b[2].(*ast.ForStmt)
	if !ok || loop.Init != nil || loop.Cond != nil || loop.Post != nil || len(loop.Body.List) != 3 ||
		ex.nsrc(loop.Body.List[0]) != "c, ok := s.next()" ||
		ex.nsrc(loop.Body.List[1]) != `if !ok { return errorToken(newSpan(start, s.pos), "parse quoted identifier: unexpected EOF") }` {
		return fmt.Errorf("quotedIdent: loop shape")
	}
	sw, ok := loop.Body.List[2].(*ast.SwitchStmt)
	if !ok || sw.Init != nil || ex.src(sw.Tag) != "c" {
		return fmt.Errorf("quotedIdent: loop does not end in a switch on c")
	}
	closer, eol, eolUnread := -1, -1, false
	for _, c := range sw.Body.List {
		cc := c.(*ast.CaseClause)
		if cc.List == nil {
			return fmt.Errorf("quotedIdent: unexpected default case")
		}
		if len(cc.List) != 1 {
			return fmt.Errorf("quotedIdent: multi-valued case")
		}
		r, ok := charLit(cc.List[0])
		if !ok {
			return fmt.Errorf("quotedIdent: case label")
		}
		var srcs []string
		for _, st := range cc.Body {
			srcs = append(srcs, ex.nsrc(st))
		}
		all := strings.Join(srcs, " ; ")
		q := strconv.QuoteRune(rune(r))
		ret := "return Token{ Kind: TokenQuotedIdentifier, Span: newSpan(start, s.pos), Value: strings.ReplaceAll(s.s[start+len(\"`\"):s.pos-len(\"`\")], \"``\", \"`\"), }"
		switch all {
		case "c, ok = s.next() ; if !ok || c != " + q + " { if ok { s.prev() } " + ret + " }":
			if closer >= 0 {
				return fmt.Errorf("quotedIdent: two closing cases")
			}
			closer = r
		case `s.prev() ; return errorToken(newSpan(start, s.pos), "parse quoted identifier: unexpected end of line")`:
			eol, eolUnread = r, true
		case `return errorToken(newSpan(start, s.pos), "parse quoted identifier: unexpected end of line")`:
			eol, eolUnread = r, false
		default:
			return fmt.Errorf("quotedIdent: case %s of an unrecognised shape: %s", q, all)
		}
	}
	if closer < 0 || eol < 0 {
		return fmt.Errorf("quotedIdent: closing or end-of-line case missing")
	}
	sb.WriteString("/-- parser/lex.go `(*scanner).quotedIdent`: (opening rune; the rune that closes unless doubled (the rune read after\n")
	sb.WriteString("    it is given back); the rune that breaks the identifier off with an error, and whether it is given back);\n")
	sb.WriteString("    every other rune is part of the name; the value is the text between the quotes with doubled closers halved -/\n")
	fmt.Fprintf(sb, "def quotedIdentShape : Nat × Nat × (Nat × Bool) := (%d, %d, (%d, %v))\n\n", quote, closer, eol, eolUnread)
	return nil
}

// ---- (*parser).sortTerm, rowCount, joinOperator

// assignments `term.F = true|false` of a case body; other statements are returned as text
func (ex *extractor) flagAssigns(body []ast.Stmt) (asc, nulls string, others []string) {
	asc, nulls = "none", "none"
	for _, st := range body {
		src := ex.nsrc(st)
		switch src {
		case "term.Asc = true":
			asc = "some true"
		case "term.Asc = false":
			asc = "some false"
		case "term.NullsFirst = true":
			nulls = "some true"
		case "term.NullsFirst = false":
			nulls = "some false"
		default:
			others = append(others, src)
		}
	}
	return
}

func (ex *extractor) sortTermFlags(sb *strings.Builder) error {
	fd := ex.funcDecl("parser", "*parser", "sortTerm")
	if fd == nil {
		return fmt.Errorf("sortTerm not found")
	}
	b := fd.Body.List
	if len(b) != 10 {
		return fmt.Errorf("sortTerm: %d statements", len(b))
	}
	if ex.nsrc(b[0]) != "x, err := p.expr()" || ex.nsrc(b[1]) != "if err != nil { return nil, err }" {
		return fmt.Errorf("sortTerm: prelude")
	}
	// the literal must not set Asc / NullsFirst: they start as the zero value false
	if ex.nsrc(b[2]) != "term := &SortTerm{ X: x, AscDescSpan: nullSpan(), NullsSpan: nullSpan(), }" {
		return fmt.Errorf("sortTerm: initial term %q", ex.nsrc(b[2]))
	}
	eof := "if !ok { return term, nil }"
	if ex.nsrc(b[3]) != "tok, ok := p.next()" || ex.nsrc(b[4]) != eof || ex.nsrc(b[6]) != "tok, ok = p.next()" || ex.nsrc(b[7]) != eof ||
		ex.nsrc(b[9]) != "return term, nil" {
		return fmt.Errorf("sortTerm: token reads")
	}
	back := "p.prev() ; return term, nil"
	// first switch: switch tok.Kind { case TokenIdentifier: switch tok.Value {…}; default: p.prev(); return term, nil }
	sw1, ok := b[5].(*ast.SwitchStmt)
	if !ok || sw1.Init != nil || ex.src(sw1.Tag) != "tok.Kind" || len(sw1.Body.List) != 2 {
		return fmt.Errorf("sortTerm: first switch")
	}
	c0 := sw1.Body.List[0].(*ast.CaseClause)
	c1 := sw1.Body.List[1].(*ast.CaseClause)
	if len(c0.List) != 1 || ex.src(c0.List[0]) != "TokenIdentifier" || len(c0.Body) != 1 || c1.List != nil {
		return fmt.Errorf("sortTerm: first switch cases")
	}
	if _, _, o := ex.flagAssigns(c1.Body); strings.Join(o, " ; ") != back {
		return fmt.Errorf("sortTerm: first switch default")
	}
	in1, ok := c0.Body[0].(*ast.SwitchStmt)
	if !ok || in1.Init != nil || ex.src(in1.Tag) != "tok.Value" {
		return fmt.Errorf("sortTerm: keyword switch")
	}
	type row struct{ kw, asc, nulls, then string }
	var first []row
	hasDef := false
	for _, c := range in1.Body.List {
		cc := c.(*ast.CaseClause)
		asc, nulls, others := ex.flagAssigns(cc.Body)
		o := strings.Join(others, " ; ")
		if cc.List == nil {
			if asc != "none" || nulls != "none" || o != back {
				return fmt.Errorf("sortTerm: keyword switch default")
			}
			hasDef = true
			continue
		}
		then := ""
		switch o {
		case "term.AscDescSpan = tok.Span":
			then = "next" // the keyword is consumed, the nulls clause follows
		case "p.prev()":
			then = "unread" // the keyword is given back, the nulls clause follows
		default:
			return fmt.Errorf("sortTerm: keyword case body: %s", o)
		}
		for _, e := range cc.List {
			bl, ok := e.(*ast.BasicLit)
			if !ok || bl.Kind != token.STRING {
				return fmt.Errorf("sortTerm: keyword label")
			}
			kw, _ := strconv.Unquote(bl.Value)
			first = append(first, row{kw, asc, nulls, then})
		}
	}
	if !hasDef {
		return fmt.Errorf("sortTerm: keyword switch has no default")
	}
	// second switch
	sw2, ok := b[8].(*ast.SwitchStmt)
	if !ok || sw2.Init != nil || sw2.Tag != nil || len(sw2.Body.List) != 2 {
		return fmt.Errorf("sortTerm: second switch")
	}
	d0 := sw2.Body.List[0].(*ast.CaseClause)
	d1 := sw2.Body.List[1].(*ast.CaseClause)
	kwOf := func(e ast.Expr, v string) (string, bool) {
		s := ex.nsrc(e)
		pre := v + ".Kind == TokenIdentifier && " + v + ".Value == "
		if !strings.HasPrefix(s, pre) {
			return "", false
		}
		kw, err := strconv.Unquote(s[len(pre):])
		return kw, err == nil
	}
	if len(d0.List) != 1 || d1.List != nil || len(d0.Body) != 1 {
		return fmt.Errorf("sortTerm: second switch cases")
	}
	intro, ok := kwOf(d0.List[0], "tok")
	if !ok {
		return fmt.Errorf("sortTerm: second switch condition")
	}
	if _, _, o := ex.flagAssigns(d1.Body); strings.Join(o, " ; ") != back {
		return fmt.Errorf("sortTerm: second switch default")
	}
	in2, ok := d0.Body[0].(*ast.SwitchStmt)
	if !ok || in2.Tag != nil || in2.Init == nil || ex.nsrc(in2.Init) != "tok2, _ := p.next()" {
		return fmt.Errorf("sortTerm: first/last switch")
	}
	var second []row
	hasDef = false
	for _, c := range in2.Body.List {
		cc := c.(*ast.CaseClause)
		if cc.List == nil {
			if len(cc.Body) != 2 || ex.nsrc(cc.Body[0]) != "p.prev()" || !strings.HasPrefix(ex.nsrc(cc.Body[1]), "return term, &parseError{") {
				return fmt.Errorf("sortTerm: first/last default is not an error")
			}
			hasDef = true
			continue
		}
		if len(cc.List) != 1 {
			return fmt.Errorf("sortTerm: first/last case")
		}
		kw, ok := kwOf(cc.List[0], "tok2")
		if !ok {
			return fmt.Errorf("sortTerm: first/last condition")
		}
		asc, nulls, others := ex.flagAssigns(cc.Body)
		if strings.Join(others, " ; ") != "term.NullsSpan = newSpan(tok.Span.Start, tok2.Span.End)" {
			return fmt.Errorf("sortTerm: first/last case body")
		}
		second = append(second, row{kw, asc, nulls, "next"})
	}
	if !hasDef {
		return fmt.Errorf("sortTerm: first/last switch has no default")
	}
	sb.WriteString("/-- parser/parser.go `(*parser).sortTerm`.  The flags Asc and NullsFirst start as false (the literal does not set\n")
	sb.WriteString("    them).  `sortTermFirst`: the identifier after the expression → (assignment to Asc, assignment to NullsFirst,\n")
	sb.WriteString("    \"next\" = keyword consumed | \"unread\" = keyword given back), then the nulls clause is tried; any other token ends\n")
	sb.WriteString("    the term.  `sortTermNulls`: (introducing keyword, what the identifier after it assigns); any other token there\n")
	sb.WriteString("    is an error. -/\n")
	wr := func(name string, rows []row, withThen bool) {
		fmt.Fprintf(sb, "def %s : List (String × Option Bool × Option Bool%s) :=\n  [", name, map[bool]string{true: " × String", false: ""}[withThen])
		for i, r := range rows {
			if i > 0 {
				sb.WriteString(", ")
			}
			if withThen {
				fmt.Fprintf(sb, "(%s, %s, %s, %s)", leanStr(r.kw), r.asc, r.nulls, leanStr(r.then))
			} else {
				fmt.Fprintf(sb, "(%s, %s, %s)", leanStr(r.kw), r.asc, r.nulls)
			}
		}
		sb.WriteString("]\n")
	}
	sb.WriteString("def sortTermInit : Bool × Bool := (false, false)\n")
	wr("sortTermFirst", first, true)
	fmt.Fprintf(sb, "def sortTermNullsKeyword : String := %s\n", leanStr(intro))
	wr("sortTermNulls", second, false)
	sb.WriteString("\n")
	return nil
}

func (ex *extractor) rowCountCheck(sb *strings.Builder) error {
	fd := ex.funcDecl("parser", "*parser", "rowCount")
	if fd == nil {
		return fmt.Errorf("rowCount not found")
	}
	b := fd.Body.List
	if len(b) != 4 || ex.nsrc(b[0]) != "x, err := p.expr()" || ex.nsrc(b[1]) != "if err != nil { return x, err }" || ex.nsrc(b[3]) != "return x, nil" {
		return fmt.Errorf("rowCount: shape")
	}
	ifs, ok := b[2].(*ast.IfStmt)
	if !ok || ifs.Init == nil || ifs.Else != nil || ex.src(ifs.Cond) != "ok" || len(ifs.Body.List) != 1 {
		return fmt.Errorf("rowCount: literal test shape")
	}
	const pre, post = "lit, ok := x.(*", ")"
	init := ex.nsrc(ifs.Init)
	if !strings.HasPrefix(init, pre) || !strings.HasSuffix(init, post) {
		return fmt.Errorf("rowCount: type assertion %q", init)
	}
	typ := init[len(pre) : len(init)-len(post)]
	in, ok := ifs.Body.List[0].(*ast.IfStmt)
	if !ok || in.Init != nil || in.Else != nil || len(in.Body.List) != 1 || !strings.HasPrefix(ex.nsrc(in.Body.List[0]), "return x, fmt.Errorf(") {
		return fmt.Errorf("rowCount: inner test shape")
	}
	cond := ex.nsrc(in.Cond)
	if !strings.HasPrefix(cond, "!lit.") || !strings.HasSuffix(cond, "()") {
		return fmt.Errorf("rowCount: inner condition %q", cond)
	}
	meth := cond[len("!lit.") : len(cond)-2]
	sb.WriteString("/-- parser/parser.go `(*parser).rowCount`: after a successful `p.expr()`, a node of this type must satisfy this\n")
	sb.WriteString("    method, else a position-less error is returned together with the node; other node types pass -/\n")
	fmt.Fprintf(sb, "def rowCountCheck : String × String := (%s, %s)\n\n", leanStr(typ), leanStr(meth))
	return nil
}

func (ex *extractor) joinDefaults(sb *strings.Builder) error {
	fd := ex.funcDecl("parser", "*parser", "joinOperator")
	if fd == nil || len(fd.Body.List) < 5 {
		return fmt.Errorf("joinOperator not found")
	}
	b := fd.Body.List
	// op := &JoinOperator{ … }: which span fields start as nullSpan()
	as, ok := b[0].(*ast.AssignStmt)
	if !ok || len(as.Rhs) != 1 || ex.src(as.Lhs[0]) != "op" {
		return fmt.Errorf("joinOperator: first statement")
	}
	un, ok := as.Rhs[0].(*ast.UnaryExpr)
	if !ok {
		return fmt.Errorf("joinOperator: literal")
	}
	cl, ok := un.X.(*ast.CompositeLit)
	if !ok || ex.src(cl.Type) != "JoinOperator" {
		return fmt.Errorf("joinOperator: literal")
	}
	var init [][2]string
	for _, el := range cl.Elts {
		kv, ok := el.(*ast.KeyValueExpr)
		if !ok {
			return fmt.Errorf("joinOperator: literal element")
		}
		init = append(init, [2]string{ex.src(kv.Key), ex.nsrc(kv.Value)})
	}
	// the optional clause: if tok.Kind == TokenIdentifier && tok.Value == "kind" { … } else { p.prev() }
	var kindIf *ast.IfStmt
	for _, st := range b {
		if ifs, ok := st.(*ast.IfStmt); ok && ifs.Else != nil {
			if kindIf != nil {
				return fmt.Errorf("joinOperator: two if/else statements at top level")
			}
			kindIf = ifs
		}
	}
	if kindIf == nil {
		return fmt.Errorf("joinOperator: kind clause not found")
	}
	const pre = "tok.Kind == TokenIdentifier && tok.Value == "
	cond := ex.nsrc(kindIf.Cond)
	if !strings.HasPrefix(cond, pre) {
		return fmt.Errorf("joinOperator: kind clause condition %q", cond)
	}
	kw, err := strconv.Unquote(cond[len(pre):])
	if err != nil {
		return fmt.Errorf("joinOperator: kind keyword")
	}
	if ex.nsrc(kindIf.Else) != "{ p.prev() }" {
		return fmt.Errorf("joinOperator: else branch of the kind clause is not `p.prev()`")
	}
	// what the clause assigns on op (top-level statements of the branch, in order)
	var sets []string
	for _, st := range kindIf.Body.List {
		if a, ok := st.(*ast.AssignStmt); ok && len(a.Lhs) == 1 && strings.HasPrefix(ex.src(a.Lhs[0]), "op.") {
			sets = append(sets, strings.TrimPrefix(ex.src(a.Lhs[0]), "op."))
		}
	}
	// the flavor test: membership in joinTypes, failure is recorded (finalError) and parsing continues
	flavorSoft := false
	for _, st := range kindIf.Body.List {
		if ifs, ok := st.(*ast.IfStmt); ok && ifs.Init != nil && ex.nsrc(ifs.Init) == "_, ok := joinTypes[tok.Value]" && ex.src(ifs.Cond) == "!ok" {
			flavorSoft = true
			for _, in := range ifs.Body.List {
				if _, isRet := in.(*ast.ReturnStmt); isRet {
					flavorSoft = false
				}
			}
		}
	}
	sb.WriteString("/-- parser/parser.go `(*parser).joinOperator`: fields of the initial node with their values; the keyword of the\n")
	sb.WriteString("    optional clause (absent: the token is given back and nothing is set); the fields the clause assigns, in order;\n")
	sb.WriteString("    whether an unknown flavor is recorded without stopping the parse -/\n")
	sb.WriteString("def joinInit : List (String × String) := [")
	for i, kv := range init {
		if i > 0 {
			sb.WriteString(", ")
		}
		fmt.Fprintf(sb, "(%s, %s)", leanStr(kv[0]), leanStr(kv[1]))
	}
	sb.WriteString("]\n")
	fmt.Fprintf(sb, "def joinKindKeyword : String := %s\n", leanStr(kw))
	fmt.Fprintf(sb, "def joinKindSets : List String := %s\n", leanStrList(sets))
	fmt.Fprintf(sb, "def joinUnknownFlavorContinues : Bool := %v\n\n", flavorSoft)
	return nil
}
