package main

// Translator for `func main` of the command-line tool (cmd/pql/main.go): the body of `main`, the function
// literal assigned to `rootCommand.RunE` and the function literal passed to `run` as `logError`.  With
// extract_cli.go (`run`) and extract_cliio.go (`makeInput`, `makeOutput`, `Read`, `Close`, `isTerminal`) every
// statement of cmd/pql/main.go is translated code; what stays primitive is named below.
//
// Every function body becomes one flat, prefix-coded list of items (an item is a list of strings); blocks are
// closed by ["end"], an `if` may have an ["else"] part.  A function literal becomes a unit of its own
// (`main.RunE`, `main.RunE.func1`: parameters and results with their types, body); the place where it stood
// refers to the unit by name.  A function literal may read the variables of the enclosing functions, it must
// not assign to them (so capturing by value is exact).
//
// statements
//
//	["command", v]                        v := &cobra.Command{K: literal, …}        (the fields: Facts.cliMainCommand)
//	["flag", v, c, M, name, short, dflt]  v := c.Flags().M("name", "short", "dflt", usage)   (M = StringP; also Facts.cliMainFlags)
//	["setrune", c, unit]                  c.RunE = func(cmd *cobra.Command, args []string) (err error) { … }
//	["notifycontext", ctx, cancel]        ctx, cancel := signal.NotifyContext(context.Background(), sigterm.Signals()...)
//	["execute", L, c, ctx]                L := c.ExecuteContext(ctx)
//	["callcancel", v]                     v()                                       (v the func() of NotifyContext)
//	["callfn", f, L, L, E…]               L, L := f(E)        (f a function of cmd/pql with one parameter and two results)
//	["callrun", unit, L, E…, E…, E…]      L = run(E, E, E, func(err error) { … })   (unit = the literal's unit)
//	["close", L, E…]                      L = E.Close()       (E an io.ReadCloser / io.WriteCloser; L = blank: a call statement)
//	["assign", L, E…]                     L = E  /  L := E
//	["if", C…] … [["else"] …] ["end"]
//	["scope"] … ["end"]                   `if init; C {A}` is ["scope"], init, ["if", C…] A ["end"], ["end"]
//	["return", n, E1…En]                  return E1, …, En                          (n = 0: the named results)
//	["fprintf", dst, format, E…]          fmt.Fprintf(os.Stderr / os.Stdout, "format", E)   (dst = stderr | stdout)
//	["exit", n]                           os.Exit(n)
//
// targets L:  blank | def v | set v
//
// expressions E:  var v | nil | deref v (*v, v a *string) | ctxof v (v.Context(), v a *cobra.Command) | stdin (os.Stdin)
//
// conditions C:  eq E E | ne E E        (on values of type error)
//
// Primitives (their meaning is stated in Model/CliMainIR.lean): cobra — `ExecuteContext` parses the command
// line, stores the flag values, calls `RunE(cmd, args)` and returns its error, printing nothing itself because
// `SilenceErrors` and `SilenceUsage` are true —, `signal.NotifyContext` / `cancel` / `cmd.Context()`,
// `fmt.Fprintf(os.Stderr, …)`, `os.Exit`.  Any other statement, expression or condition shape is an error (the
// step fails, nothing is skipped).

import (
	"fmt"
	"go/ast"
	"go/token"
	"strconv"
	"strings"
)

type cmUnit struct {
	name   string
	params [][2]string
	res    [][2]string
	items  []wItem
}

type cmShared struct {
	ex      *extractor
	units   []cmUnit
	command [][2]string
	flags   [][5]string
	nCmd    int
}

type cmtrans struct {
	sh      *cmShared
	unit    string
	scopes  []map[string]string // variable → static type
	base    int                 // scopes below this index belong to the enclosing functions
	results [][2]string
	isMain  bool
	nLit    int
}

func (t *cmtrans) errf(n ast.Node, format string, args ...interface{}) error {
	first := strings.SplitN(t.sh.ex.src(n), "\n", 2)[0]
	return fmt.Errorf("cliMainIR %s: %s: %s", t.unit, fmt.Sprintf(format, args...), first)
}

func (t *cmtrans) push() { t.scopes = append(t.scopes, map[string]string{}) }
func (t *cmtrans) pop()  { t.scopes = t.scopes[:len(t.scopes)-1] }
func (t *cmtrans) declare(v, ty string) {
	if v != "_" {
		t.scopes[len(t.scopes)-1][v] = ty
	}
}

// the static type of a variable and the index of the scope that declares it
func (t *cmtrans) lookup(v string) (string, int, bool) {
	for i := len(t.scopes) - 1; i >= 0; i-- {
		if ty, ok := t.scopes[i][v]; ok {
			return ty, i, true
		}
	}
	return "", 0, false
}

var cmReserved = map[string]bool{"os": true, "fmt": true, "cobra": true, "signal": true, "context": true, "sigterm": true,
	"io": true, "nil": true, "true": true, "false": true, "run": true, "makeInput": true, "makeOutput": true, "isTerminal": true,
	"len": true, "new": true, "panic": true, "recover": true, "error": true, "string": true}

func (t *cmtrans) free(name string) bool {
	_, _, shadow := t.lookup(name)
	return !shadow
}

func (t *cmtrans) cmPkg(e ast.Expr, pkg, name string) bool {
	return isPkgSel(e, pkg, name) && t.free(pkg)
}

func (t *cmtrans) cmVar(e ast.Expr) (string, string, bool) {
	id, ok := e.(*ast.Ident)
	if !ok || id.Name == "_" || cmReserved[id.Name] {
		return "", "", false
	}
	ty, _, ok := t.lookup(id.Name)
	return id.Name, ty, ok
}

// can a value of static type `from` be stored where `to` is expected
func cmAssignable(from, to string) bool {
	if from == to {
		return true
	}
	switch to {
	case "io.ReadCloser":
		return from == "nil"
	case "io.WriteCloser":
		return from == "nil"
	case "io.Reader":
		return from == "nil" || from == "io.ReadCloser" || from == "*os.File"
	case "io.Writer":
		return from == "nil" || from == "io.WriteCloser"
	case "error":
		return from == "nil"
	}
	return false
}

func (t *cmtrans) expr(e ast.Expr) ([]string, string, error) {
	switch x := e.(type) {
	case *ast.ParenExpr:
		return t.expr(x.X)
	case *ast.Ident:
		if x.Name == "nil" && t.free("nil") {
			return []string{"nil"}, "nil", nil
		}
		if v, ty, ok := t.cmVar(e); ok {
			return []string{"var", v}, ty, nil
		}
	case *ast.StarExpr:
		if v, ty, ok := t.cmVar(x.X); ok && ty == "*string" {
			return []string{"deref", v}, "string", nil
		}
	case *ast.SelectorExpr:
		if t.cmPkg(e, "os", "Stdin") {
			return []string{"stdin"}, "*os.File", nil
		}
	case *ast.CallExpr:
		if sel, ok := x.Fun.(*ast.SelectorExpr); ok && sel.Sel.Name == "Context" && len(x.Args) == 0 && x.Ellipsis == token.NoPos {
			if v, ty, ok := t.cmVar(sel.X); ok && ty == "*cobra.Command" {
				return []string{"ctxof", v}, "context.Context", nil
			}
		}
	}
	return nil, "", t.errf(e, "expression not of a known shape")
}

func (t *cmtrans) cond(e ast.Expr) ([]string, error) {
	switch x := e.(type) {
	case *ast.ParenExpr:
		return t.cond(x.X)
	case *ast.BinaryExpr:
		if x.Op == token.EQL || x.Op == token.NEQ {
			a, aty, err := t.expr(x.X)
			if err != nil {
				return nil, err
			}
			b, bty, err := t.expr(x.Y)
			if err != nil {
				return nil, err
			}
			if aty != "error" || !cmAssignable(bty, aty) {
				return nil, t.errf(e, "comparison of a %s with a %s", aty, bty)
			}
			k := "eq"
			if x.Op == token.NEQ {
				k = "ne"
			}
			return append(append([]string{k}, a...), b...), nil
		}
	}
	return nil, t.errf(e, "condition not of a known shape")
}

func (t *cmtrans) target(e ast.Expr, define bool, ty string) ([]string, error) {
	if isIdent(e, "_") {
		return []string{"blank"}, nil
	}
	id, ok := e.(*ast.Ident)
	if !ok {
		return nil, t.errf(e, "assignment target not of a known shape")
	}
	if cmReserved[id.Name] {
		return nil, t.errf(e, "assignment target shadows a name the translation relies on")
	}
	if define {
		if _, ok := t.scopes[len(t.scopes)-1][id.Name]; !ok {
			if ty == "nil" {
				return nil, t.errf(e, "variable defined as nil")
			}
			return []string{"def", id.Name}, nil
		}
	}
	vty, depth, ok := t.lookup(id.Name)
	if !ok {
		return nil, t.errf(e, "assignment to an unknown variable")
	}
	if depth < t.base {
		return nil, t.errf(e, "a function literal assigns to a variable of the enclosing function")
	}
	if !cmAssignable(ty, vty) {
		return nil, t.errf(e, "a %s assigned to a variable of type %s", ty, vty)
	}
	return []string{"set", id.Name}, nil
}

func (t *cmtrans) targets(lhs []ast.Expr, define bool, types []string) ([]string, error) {
	if len(lhs) != len(types) {
		return nil, t.errf(lhs[0], "%d targets for %d values", len(lhs), len(types))
	}
	var out []string
	var defs [][2]string
	for i, l := range lhs {
		tg, err := t.target(l, define, types[i])
		if err != nil {
			return nil, err
		}
		if tg[0] == "def" {
			defs = append(defs, [2]string{tg[1], types[i]})
		}
		out = append(out, tg...)
	}
	if define && len(defs) == 0 {
		return nil, t.errf(lhs[0], ":= that declares nothing")
	}
	for _, d := range defs {
		t.declare(d[0], d[1])
	}
	return out, nil
}

// the signature of the function `name` of cmd/pql (no receiver): parameter types, result types
func (t *cmtrans) signature(name string) ([]string, []string, bool) {
	fd := t.sh.ex.funcDecl("cmd", "", name)
	if fd == nil || !t.free(name) {
		return nil, nil, false
	}
	var ps, rs []string
	for _, f := range fd.Type.Params.List {
		n := len(f.Names)
		if n == 0 {
			n = 1
		}
		for i := 0; i < n; i++ {
			ps = append(ps, cliTypeString(f.Type))
		}
	}
	if fd.Type.Results != nil {
		for _, f := range fd.Type.Results.List {
			n := len(f.Names)
			if n == 0 {
				n = 1
			}
			for i := 0; i < n; i++ {
				rs = append(rs, cliTypeString(f.Type))
			}
		}
	}
	return ps, rs, true
}

// a function literal becomes a unit of its own; it sees the variables of the enclosing functions
func (t *cmtrans) funcLit(lit *ast.FuncLit, name string) error {
	c := &cmtrans{sh: t.sh, unit: name, base: len(t.scopes)}
	for _, s := range t.scopes {
		c.scopes = append(c.scopes, s)
	}
	c.push()
	u := cmUnit{name: name}
	for _, f := range lit.Type.Params.List {
		if len(f.Names) == 0 {
			return t.errf(lit, "function literal with an unnamed parameter")
		}
		for _, n := range f.Names {
			if cmReserved[n.Name] {
				return t.errf(lit, "parameter %s shadows a name the translation relies on", n.Name)
			}
			ty := cliTypeString(f.Type)
			c.declare(n.Name, ty)
			u.params = append(u.params, [2]string{n.Name, ty})
		}
	}
	if lit.Type.Results != nil {
		for _, f := range lit.Type.Results.List {
			ty := cliTypeString(f.Type)
			if len(f.Names) == 0 {
				u.res = append(u.res, [2]string{"", ty})
			}
			for _, n := range f.Names {
				if ty != "error" || cmReserved[n.Name] {
					return t.errf(lit, "named result %s of a type without a known zero value, or shadowing", n.Name)
				}
				c.declare(n.Name, ty)
				u.res = append(u.res, [2]string{n.Name, ty})
			}
		}
	}
	c.results = u.res
	its, err := c.stmts(lit.Body.List)
	if err != nil {
		return err
	}
	if len(its) == 0 {
		return t.errf(lit, "function literal with an empty body")
	}
	u.items = its
	t.sh.units = append(t.sh.units, u)
	return nil
}

func (t *cmtrans) litName() string {
	t.nLit++
	return t.unit + ".func" + strconv.Itoa(t.nLit)
}

// E.Close() with E an io.ReadCloser or an io.WriteCloser
func (t *cmtrans) closeCall(call *ast.CallExpr) ([]string, bool, error) {
	sel, ok := call.Fun.(*ast.SelectorExpr)
	if !ok || sel.Sel.Name != "Close" || call.Ellipsis != token.NoPos {
		return nil, false, nil
	}
	if id, ok := sel.X.(*ast.Ident); ok && cmReserved[id.Name] {
		return nil, false, nil
	}
	recv, rty, err := t.expr(sel.X)
	if err != nil {
		return nil, true, err
	}
	if (rty != "io.ReadCloser" && rty != "io.WriteCloser") || len(call.Args) != 0 {
		return nil, true, t.errf(call, "Close on a value of type %s", rty)
	}
	return recv, true, nil
}

func (t *cmtrans) assign(as *ast.AssignStmt) ([]wItem, error) {
	define := as.Tok == token.DEFINE
	if as.Tok != token.DEFINE && as.Tok != token.ASSIGN {
		return nil, t.errf(as, "assignment operator")
	}
	if len(as.Rhs) != 1 {
		return nil, t.errf(as, "assignment with several right-hand sides")
	}
	rhs := as.Rhs[0]
	// c.RunE = func(cmd *cobra.Command, args []string) (err error) { … }
	if sel, ok := as.Lhs[0].(*ast.SelectorExpr); ok {
		lit, isLit := rhs.(*ast.FuncLit)
		c, cty, isVar := t.cmVar(sel.X)
		if !t.isMain || define || len(as.Lhs) != 1 || !isLit || !isVar || cty != "*cobra.Command" || sel.Sel.Name != "RunE" {
			return nil, t.errf(as, "field assignment not of the shape `c.RunE = func(…) error { … }` in main")
		}
		if got := cliTypeString(lit.Type); got != "func(*cobra.Command,[]string) error" {
			return nil, t.errf(as, "RunE of the type %s", got)
		}
		name := t.unit + ".RunE"
		if err := t.funcLit(lit, name); err != nil {
			return nil, err
		}
		return []wItem{{"setrune", c, name}}, nil
	}
	if call, ok := rhs.(*ast.CallExpr); ok {
		// L = E.Close()
		recv, is, err := t.closeCall(call)
		if err != nil {
			return nil, err
		}
		if is {
			tg, err := t.targets(as.Lhs, define, []string{"error"})
			if err != nil {
				return nil, err
			}
			return []wItem{append(append(wItem{"close"}, tg...), recv...)}, nil
		}
		if call.Ellipsis == token.NoPos {
			// L = run(E, E, E, func(err error) { … })
			if isIdent(call.Fun, "run") {
				ps, rs, ok := t.signature("run")
				if !ok || len(ps) != 4 || len(rs) != 1 || rs[0] != "error" || ps[3] != "func(error)" || len(call.Args) != 4 {
					return nil, t.errf(as, "run is not func(_, _, _, func(error)) error called with four arguments")
				}
				it := wItem{}
				for i := 0; i < 3; i++ {
					a, aty, err := t.expr(call.Args[i])
					if err != nil {
						return nil, err
					}
					if !cmAssignable(aty, ps[i]) {
						return nil, t.errf(as, "a %s passed to run as %s", aty, ps[i])
					}
					it = append(it, a...)
				}
				lit, ok := call.Args[3].(*ast.FuncLit)
				if !ok || cliTypeString(lit.Type) != "func(error)" {
					return nil, t.errf(as, "the last argument of run is not a function literal of type func(error)")
				}
				name := t.litName()
				if err := t.funcLit(lit, name); err != nil {
					return nil, err
				}
				tg, err := t.targets(as.Lhs, define, []string{"error"})
				if err != nil {
					return nil, err
				}
				return []wItem{append(append(wItem{"callrun", name}, tg...), it...)}, nil
			}
			// L, L := f(E)
			if f, ok := call.Fun.(*ast.Ident); ok && (f.Name == "makeInput" || f.Name == "makeOutput") {
				ps, rs, ok := t.signature(f.Name)
				if !ok || len(ps) != 1 || len(rs) != 2 || len(call.Args) != 1 {
					return nil, t.errf(as, "%s is not a function with one parameter and two results", f.Name)
				}
				a, aty, err := t.expr(call.Args[0])
				if err != nil {
					return nil, err
				}
				if !cmAssignable(aty, ps[0]) {
					return nil, t.errf(as, "a %s passed to %s as %s", aty, f.Name, ps[0])
				}
				tg, err := t.targets(as.Lhs, define, rs)
				if err != nil {
					return nil, err
				}
				return []wItem{append(append(wItem{"callfn", f.Name}, tg...), a...)}, nil
			}
		}
		if t.isMain {
			return t.mainCall(as, call)
		}
		return nil, t.errf(as, "call not of a known shape")
	}
	if t.isMain && define && len(as.Lhs) == 1 {
		if its, is, err := t.commandLit(as); is {
			return its, err
		}
	}
	if len(as.Lhs) != 1 {
		return nil, t.errf(as, "assignment not of a known shape")
	}
	e, ety, err := t.expr(rhs)
	if err != nil {
		return nil, err
	}
	tg, err := t.targets(as.Lhs, define, []string{ety})
	if err != nil {
		return nil, err
	}
	return []wItem{append(append(wItem{"assign"}, tg...), e...)}, nil
}

// v := &cobra.Command{K: literal, …}
func (t *cmtrans) commandLit(as *ast.AssignStmt) ([]wItem, bool, error) {
	u, ok := as.Rhs[0].(*ast.UnaryExpr)
	if !ok || u.Op != token.AND {
		return nil, false, nil
	}
	cl, ok := u.X.(*ast.CompositeLit)
	if !ok || !t.cmPkg(cl.Type, "cobra", "Command") {
		return nil, true, t.errf(as, "composite literal that is not a cobra.Command")
	}
	t.sh.nCmd++
	if t.sh.nCmd > 1 {
		return nil, true, t.errf(as, "a second cobra.Command")
	}
	for _, el := range cl.Elts {
		kv, ok := el.(*ast.KeyValueExpr)
		if !ok {
			return nil, true, t.errf(as, "cobra.Command literal without field names")
		}
		k, ok := kv.Key.(*ast.Ident)
		if !ok {
			return nil, true, t.errf(as, "cobra.Command literal without field names")
		}
		if s, ok := strLit(kv.Value); ok {
			t.sh.command = append(t.sh.command, [2]string{k.Name, s})
		} else if (isIdent(kv.Value, "true") || isIdent(kv.Value, "false")) && t.free("true") && t.free("false") {
			t.sh.command = append(t.sh.command, [2]string{k.Name, kv.Value.(*ast.Ident).Name})
		} else {
			// a function, a slice of sub-commands, …: behaviour this translation does not know
			return nil, true, t.errf(kv, "field %s of the cobra.Command is not a string or boolean literal", k.Name)
		}
	}
	tg, err := t.targets(as.Lhs, true, []string{"*cobra.Command"})
	if err != nil {
		return nil, true, err
	}
	if tg[0] != "def" {
		return nil, true, t.errf(as, "the cobra.Command is not bound to a new variable")
	}
	return []wItem{{"command", tg[1]}}, true, nil
}

// the calls of main: Flags().StringP, signal.NotifyContext, ExecuteContext
func (t *cmtrans) mainCall(as *ast.AssignStmt, call *ast.CallExpr) ([]wItem, error) {
	define := as.Tok == token.DEFINE
	// ctx, cancel := signal.NotifyContext(context.Background(), sigterm.Signals()...)
	if t.cmPkg(call.Fun, "signal", "NotifyContext") {
		ok := len(call.Args) == 2 && call.Ellipsis != token.NoPos && define && len(as.Lhs) == 2
		if ok {
			bg, ok1 := call.Args[0].(*ast.CallExpr)
			sg, ok2 := call.Args[1].(*ast.CallExpr)
			ok = ok1 && ok2 && t.cmPkg(bg.Fun, "context", "Background") && len(bg.Args) == 0 &&
				t.cmPkg(sg.Fun, "sigterm", "Signals") && len(sg.Args) == 0
		}
		if !ok {
			return nil, t.errf(as, "NotifyContext not of the shape `ctx, cancel := signal.NotifyContext(context.Background(), sigterm.Signals()...)`")
		}
		tg, err := t.targets(as.Lhs, true, []string{"context.Context", "func()"})
		if err != nil {
			return nil, err
		}
		if len(tg) != 4 || tg[0] != "def" || tg[2] != "def" {
			return nil, t.errf(as, "NotifyContext does not define two new variables")
		}
		return []wItem{{"notifycontext", tg[1], tg[3]}}, nil
	}
	sel, ok := call.Fun.(*ast.SelectorExpr)
	if !ok || call.Ellipsis != token.NoPos {
		return nil, t.errf(as, "call not of a known shape")
	}
	// L := c.ExecuteContext(ctx)
	if c, cty, ok := t.cmVar(sel.X); ok && cty == "*cobra.Command" && sel.Sel.Name == "ExecuteContext" && len(call.Args) == 1 {
		x, xty, ok := t.cmVar(call.Args[0])
		if !ok || xty != "context.Context" {
			return nil, t.errf(as, "ExecuteContext of something that is not a context variable")
		}
		tg, err := t.targets(as.Lhs, define, []string{"error"})
		if err != nil {
			return nil, err
		}
		return []wItem{append(append(wItem{"execute"}, tg...), c, x)}, nil
	}
	// v := c.Flags().StringP("name", "short", "default", "usage")
	if fl, ok := sel.X.(*ast.CallExpr); ok && len(fl.Args) == 0 && fl.Ellipsis == token.NoPos {
		if fsel, ok := fl.Fun.(*ast.SelectorExpr); ok && fsel.Sel.Name == "Flags" {
			c, cty, ok := t.cmVar(fsel.X)
			if !ok || cty != "*cobra.Command" || sel.Sel.Name != "StringP" || len(call.Args) != 4 || !define || len(as.Lhs) != 1 {
				return nil, t.errf(as, "flag definition not of the shape `v := c.Flags().StringP(name, short, default, usage)`")
			}
			var lits [4]string
			for i, a := range call.Args {
				s, ok := strLit(a)
				if !ok {
					return nil, t.errf(as, "flag definition with an argument that is not a string literal")
				}
				lits[i] = s
			}
			tg, err := t.targets(as.Lhs, true, []string{"*string"})
			if err != nil {
				return nil, err
			}
			if tg[0] != "def" {
				return nil, t.errf(as, "flag definition does not define a new variable")
			}
			t.sh.flags = append(t.sh.flags, [5]string{tg[1], "StringP", lits[0], lits[1], lits[2]})
			return []wItem{{"flag", tg[1], c, "StringP", lits[0], lits[1], lits[2]}}, nil
		}
	}
	return nil, t.errf(as, "call not of a known shape")
}

func (t *cmtrans) block(list []ast.Stmt) ([]wItem, error) {
	t.push()
	defer t.pop()
	sub := *t
	sub.isMain = false // the special statements of main are admitted at its top level only
	its, err := sub.stmts(list)
	t.nLit = sub.nLit
	return its, err
}

func (t *cmtrans) stmts(list []ast.Stmt) ([]wItem, error) {
	var out []wItem
	for _, st := range list {
		its, err := t.stmt(st)
		if err != nil {
			return nil, err
		}
		out = append(out, its...)
	}
	return out, nil
}

func (t *cmtrans) stmt(st ast.Stmt) ([]wItem, error) {
	switch s := st.(type) {
	case *ast.ExprStmt:
		call, ok := s.X.(*ast.CallExpr)
		if !ok {
			return nil, t.errf(st, "expression statement is not a call")
		}
		recv, is, err := t.closeCall(call)
		if err != nil {
			return nil, err
		}
		if is {
			return []wItem{append(wItem{"close", "blank"}, recv...)}, nil
		}
		if call.Ellipsis != token.NoPos {
			return nil, t.errf(st, "variadic call")
		}
		// fmt.Fprintf(os.Stderr, "format", E)
		if t.cmPkg(call.Fun, "fmt", "Fprintf") {
			if len(call.Args) == 3 {
				dst := ""
				if t.cmPkg(call.Args[0], "os", "Stderr") {
					dst = "stderr"
				} else if t.cmPkg(call.Args[0], "os", "Stdout") {
					dst = "stdout"
				}
				f, ok := strLit(call.Args[1])
				if dst != "" && ok && strings.Count(f, "%") == 1 {
					a, aty, err := t.expr(call.Args[2])
					if err != nil {
						return nil, err
					}
					if aty != "error" {
						return nil, t.errf(st, "Fprintf of a %s", aty)
					}
					return []wItem{append(wItem{"fprintf", dst, f}, a...)}, nil
				}
			}
			return nil, t.errf(st, "Fprintf not of the shape fmt.Fprintf(os.Stderr, \"…%%v…\", err)")
		}
		// os.Exit(n)
		if t.cmPkg(call.Fun, "os", "Exit") && len(call.Args) == 1 {
			if n, ok := smallInt(call.Args[0]); ok {
				return []wItem{{"exit", n}}, nil
			}
			return nil, t.errf(st, "os.Exit of something that is not a small integer literal")
		}
		// cancel()
		if v, vty, ok := t.cmVar(call.Fun); ok && vty == "func()" && len(call.Args) == 0 {
			return []wItem{{"callcancel", v}}, nil
		}
		return nil, t.errf(st, "call statement not of a known shape")
	case *ast.AssignStmt:
		return t.assign(s)
	case *ast.IfStmt:
		return t.ifStmt(s)
	case *ast.BlockStmt:
		body, err := t.block(s.List)
		if err != nil {
			return nil, err
		}
		out := []wItem{{"scope"}}
		out = append(out, body...)
		return append(out, wItem{"end"}), nil
	case *ast.ReturnStmt:
		if len(s.Results) == 0 {
			for _, r := range t.results {
				if r[0] == "" {
					return nil, t.errf(s, "bare return in a function without named results")
				}
				if _, depth, _ := t.lookup(r[0]); depth != t.base {
					return nil, t.errf(s, "bare return while the result %s is shadowed", r[0])
				}
			}
			return []wItem{{"return", "0"}}, nil
		}
		if len(s.Results) != len(t.results) {
			return nil, t.errf(s, "return with %d values in a function with %d results", len(s.Results), len(t.results))
		}
		out := wItem{"return", strconv.Itoa(len(s.Results))}
		for i, r := range s.Results {
			e, ety, err := t.expr(r)
			if err != nil {
				return nil, err
			}
			if !cmAssignable(ety, t.results[i][1]) {
				return nil, t.errf(s, "a %s returned as %s", ety, t.results[i][1])
			}
			out = append(out, e...)
		}
		return []wItem{out}, nil
	}
	return nil, t.errf(st, "statement not of a known shape (%T)", st)
}

func (t *cmtrans) ifStmt(s *ast.IfStmt) ([]wItem, error) {
	var out []wItem
	if s.Init != nil {
		as, ok := s.Init.(*ast.AssignStmt)
		if !ok {
			return nil, t.errf(s, "if with an initialiser that is not an assignment")
		}
		t.push()
		defer t.pop()
		sub := *t
		sub.isMain = false
		its, err := sub.assign(as)
		t.nLit = sub.nLit
		if err != nil {
			return nil, err
		}
		out = append(out, wItem{"scope"})
		out = append(out, its...)
	}
	c, err := t.cond(s.Cond)
	if err != nil {
		return nil, err
	}
	out = append(out, append(wItem{"if"}, c...))
	body, err := t.block(s.Body.List)
	if err != nil {
		return nil, err
	}
	out = append(out, body...)
	switch e := s.Else.(type) {
	case nil:
	case *ast.BlockStmt:
		eb, err := t.block(e.List)
		if err != nil {
			return nil, err
		}
		out = append(out, wItem{"else"})
		out = append(out, eb...)
	case *ast.IfStmt:
		eb, err := t.ifStmt(e)
		if err != nil {
			return nil, err
		}
		out = append(out, wItem{"else"})
		out = append(out, eb...)
	default:
		return nil, t.errf(s, "else part")
	}
	out = append(out, wItem{"end"})
	if s.Init != nil {
		out = append(out, wItem{"end"})
	}
	return out, nil
}

func (ex *extractor) cliMainIR(sb *strings.Builder) error {
	fd := ex.funcDecl("cmd", "", "main")
	if fd == nil {
		return fmt.Errorf("cliMainIR: func main not found in cmd/pql")
	}
	if ex.funcDecl("cmd", "", "init") != nil {
		return fmt.Errorf("cliMainIR: cmd/pql has an init function")
	}
	sh := &cmShared{ex: ex}
	t := &cmtrans{sh: sh, unit: "main", isMain: true}
	t.push()
	its, err := t.stmts(fd.Body.List)
	if err != nil {
		return err
	}
	if sh.nCmd != 1 {
		return fmt.Errorf("cliMainIR: main does not build exactly one cobra.Command")
	}
	units := append([]cmUnit{{name: "main", items: its}}, sh.units...)
	// the imports the primitives refer to must be the real packages
	want := map[string]string{"fmt": "fmt", "os": "os", "cobra": "github.com/spf13/cobra", "signal": "os/signal",
		"context": "context", "sigterm": "zombiezen.com/go/bass/sigterm", "io": "io"}
	for _, f := range ex.pkgs["cmd"] {
		if !(f.Pos() <= fd.Pos() && fd.End() <= f.End()) {
			continue
		}
		seen := map[string]bool{}
		for _, im := range f.Imports {
			p, _ := strconv.Unquote(im.Path.Value)
			name := p[strings.LastIndex(p, "/")+1:]
			if im.Name != nil {
				name = im.Name.Name
			}
			if w, ok := want[name]; ok {
				if w != p {
					return fmt.Errorf("cliMainIR: package name %s is bound to %s", name, p)
				}
				seen[name] = true
			} else if w2, ok := reverseLookup(want, p); ok {
				return fmt.Errorf("cliMainIR: package %s imported under the name %s instead of %s", p, name, w2)
			}
		}
		for name := range want {
			if !seen[name] {
				return fmt.Errorf("cliMainIR: package %s is not imported", name)
			}
		}
	}
	pairs := func(ps [][2]string) string {
		var q []string
		for _, p := range ps {
			q = append(q, fmt.Sprintf("(%s, %s)", leanStr(p[0]), leanStr(p[1])))
		}
		return "[" + strings.Join(q, ", ") + "]"
	}
	sb.WriteString("/-- cmd/pql/main.go, `main`: the fields of the `cobra.Command` literal (field, string value or \"true\" / \"false\") -/\n")
	fmt.Fprintf(sb, "def cliMainCommand : List (String × String) :=\n  %s\n\n", pairs(sh.command))
	sb.WriteString("/-- cmd/pql/main.go, `main`: the flags of the command (variable, method, name, shorthand, default) -/\n")
	sb.WriteString("def cliMainFlags : List (String × String × String × String × String) :=\n  [")
	for i, f := range sh.flags {
		if i > 0 {
			sb.WriteString(", ")
		}
		fmt.Fprintf(sb, "(%s, %s, %s, %s, %s)", leanStr(f[0]), leanStr(f[1]), leanStr(f[2]), leanStr(f[3]), leanStr(f[4]))
	}
	sb.WriteString("]\n\n")
	sb.WriteString("/-- cmd/pql/main.go: `main`, the function literal assigned to `RunE` and the one passed to `run`, as a flat\n")
	sb.WriteString("    prefix-coded IR (see harness/extract_climain.go): (unit, parameters with their types, results (name or \"\", type), body) -/\n")
	sb.WriteString("def cliMainIR : List (String × List (String × String) × List (String × String) × List (List String)) :=\n  [")
	for i, u := range units {
		if i > 0 {
			sb.WriteString(",\n   ")
		}
		fmt.Fprintf(sb, "(%s, %s, %s,\n    [", leanStr(u.name), pairs(u.params), pairs(u.res))
		for j, it := range u.items {
			if j > 0 {
				sb.WriteString(",\n     ")
			}
			sb.WriteString(leanStrList(it))
		}
		sb.WriteString("])")
	}
	sb.WriteString("]\n\n")
	return nil
}
