package main

// Translator for the parser's ERROR ALGEBRA (parser/parser.go): the bodies of `joinErrors`,
// `makeErrorOpaque` and `isNotFound` (`Facts.errIR`), the error types of package parser with their
// method sets (`Facts.errTypes`) and every place of package parser that constructs an error value
// (`Facts.errSites`).  Items are flat lists of strings as in the other translators; blocks are closed by
// ["end"], an `if` may have an ["else"] part; terms and conditions are prefix-coded.
//
//	<t> ::= var v | nil | fld v f (v.f) | munwrap <t> (<t>.Unwrap() of a multiUnwrapper) | clone <t> (slices.Clone)
//	      | appendall <t> <t> (append(a, b...)) | append1 <t> <t> (append(a, b)) | opaque <t> (opaqueError{<t>})
//	      | errorsjoin <t> (errors.Join(<t>...)) | errorsas T <t> (errors.As(<t>, new(T))) | new T (new(T))
//	<c> ::= isnil <t> (<t> == nil / `case nil`) | truth v | leneq0 v (len(v) == 0)
//	      | dyn v T (`case T:` of a type switch on v, T a concrete type) | impl v I (`case I:`, I an interface type)
//
//	["vardecl", v, T]                 var v T
//	["def", v, <t>]  ["set", v, <t>]  v := <t>   /  v = <t>
//	["assert", v, ok, x, I]           v, ok := x.(I)            (I an interface type of package parser)
//	["if", <c>] … [["else"] …] ["end"]
//	["range", i, x, xs] … ["end"]     for i, x := range xs { … }   (i may be "_"; the body never assigns xs itself)
//	["setidx", xs, i, <t>]            xs[i] = <t>
//	["copy", dst, src]                *dst = *src
//	["fset", v, f, <t>]               v.f = <t>
//	["continue"]  ["return", <t>]
//
// A type switch `switch e := x.(type) { case nil: A; case T: B; case I: C; default: D }` (no `break`, no
// `fallthrough`, one type per case, `default` last) is emitted as the equivalent if-else chain in source order,
// every non-nil case body starting with ["def", e, "var", x].
//
// errTypes: (type name, fields "name:type" (":type" = embedded; ["interface"] for an interface type),
// methods [receiver, name, result, "field", f] when the body is `return recv.f`, else [receiver, name, result, "other"];
// for an interface ["", name, result]).  All types of package parser that have a method named Error, Unwrap,
// As or Is, embed `error`, or are interfaces with a method of these names.
//
// errSites: (enclosing function, shape) for every composite literal of one of these types, every
// `errors.New` / `fmt.Errorf` / `errors.Join` / `errors.As` / `errors.Is` / `new(T)` of package parser:
//	perr plain | perr nf plain     &parseError{source: …, span: …, err: X}; X = errors.New / fmt.Errorf without %w,
//	                               or notFoundError{such an X}
//	plain                          errors.New / fmt.Errorf without %w, standing alone
//	wrapw                          fmt.Errorf("…%w", e): exactly one verb, the %w, exactly one argument
//	unit                           inside one of the three translated functions (meaning: Facts.errIR)
// Any other shape is an error (the step fails, nothing is skipped).

import (
	"fmt"
	"go/ast"
	"go/token"
	"strings"
)

var errUnits = []string{"joinErrors", "makeErrorOpaque", "isNotFound"}

type etrans struct {
	ex     *extractor
	unit   string
	ifaces map[string]bool // interface types of package parser
	types  map[string]bool // all declared types of package parser
}

func (t *etrans) errf(n ast.Node, format string, args ...interface{}) error {
	first := strings.SplitN(t.ex.src(n), "\n", 2)[0]
	return fmt.Errorf("errIR %s: %s: %s", t.unit, fmt.Sprintf(format, args...), first)
}

func errIsSel(e ast.Expr, pkg, name string) bool {
	sel, ok := e.(*ast.SelectorExpr)
	return ok && isIdent(sel.X, pkg) && sel.Sel.Name == name
}

func (t *etrans) term(e ast.Expr) ([]string, error) {
	switch x := e.(type) {
	case *ast.ParenExpr:
		return t.term(x.X)
	case *ast.Ident:
		if x.Name == "nil" {
			return []string{"nil"}, nil
		}
		if v, ok := identNameS(x); ok {
			return []string{"var", v}, nil
		}
	case *ast.SelectorExpr:
		if v, ok := identNameS(x.X); ok {
			return []string{"fld", v, x.Sel.Name}, nil
		}
	case *ast.CompositeLit:
		// opaqueError{<t>}
		if isIdent(x.Type, "opaqueError") && len(x.Elts) == 1 {
			if _, kv := x.Elts[0].(*ast.KeyValueExpr); !kv {
				a, err := t.term(x.Elts[0])
				if err != nil {
					return nil, err
				}
				return append([]string{"opaque"}, a...), nil
			}
		}
	case *ast.CallExpr:
		// <t>.Unwrap()
		if sel, ok := x.Fun.(*ast.SelectorExpr); ok && sel.Sel.Name == "Unwrap" && len(x.Args) == 0 && !isIdent(sel.X, "errors") {
			a, err := t.term(sel.X)
			if err != nil {
				return nil, err
			}
			return append([]string{"munwrap"}, a...), nil
		}
		if errIsSel(x.Fun, "slices", "Clone") && len(x.Args) == 1 && x.Ellipsis == token.NoPos {
			a, err := t.term(x.Args[0])
			if err != nil {
				return nil, err
			}
			return append([]string{"clone"}, a...), nil
		}
		if isIdent(x.Fun, "append") && len(x.Args) == 2 {
			a, err := t.term(x.Args[0])
			if err != nil {
				return nil, err
			}
			b, err := t.term(x.Args[1])
			if err != nil {
				return nil, err
			}
			k := "append1"
			if x.Ellipsis != token.NoPos {
				k = "appendall"
			}
			return append(append([]string{k}, a...), b...), nil
		}
		if errIsSel(x.Fun, "errors", "Join") && len(x.Args) == 1 && x.Ellipsis != token.NoPos {
			a, err := t.term(x.Args[0])
			if err != nil {
				return nil, err
			}
			return append([]string{"errorsjoin"}, a...), nil
		}
		if errIsSel(x.Fun, "errors", "As") && len(x.Args) == 2 && x.Ellipsis == token.NoPos {
			if nw, ok := isCall(x.Args[1], "new", 1); ok {
				if ty, ok := nw.Args[0].(*ast.Ident); ok && t.types[ty.Name] {
					a, err := t.term(x.Args[0])
					if err != nil {
						return nil, err
					}
					return append([]string{"errorsas", ty.Name}, a...), nil
				}
			}
		}
		if nw, ok := isCall(x, "new", 1); ok {
			if ty, ok := nw.Args[0].(*ast.Ident); ok && t.types[ty.Name] {
				return []string{"new", ty.Name}, nil
			}
		}
	}
	return nil, t.errf(e, "term not of a known shape")
}

func (t *etrans) cond(e ast.Expr) ([]string, error) {
	switch x := e.(type) {
	case *ast.ParenExpr:
		return t.cond(x.X)
	case *ast.Ident:
		if v, ok := identNameS(x); ok && v != "true" && v != "false" {
			return []string{"truth", v}, nil
		}
	case *ast.BinaryExpr:
		if x.Op == token.EQL {
			if isIdent(x.Y, "nil") {
				a, err := t.term(x.X)
				if err != nil {
					return nil, err
				}
				return append([]string{"isnil"}, a...), nil
			}
			if c, ok := isCall(x.X, "len", 1); ok && isIntLit(x.Y, "0") {
				if v, ok := identNameS(c.Args[0]); ok {
					return []string{"leneq0", v}, nil
				}
			}
		}
	}
	return nil, t.errf(e, "condition not of a known shape")
}

// the case type of a type switch: "nil", a concrete type ("*parseError") or an interface of package parser
func (t *etrans) caseCond(x string, ty ast.Expr) ([]string, error) {
	if isIdent(ty, "nil") {
		return []string{"isnil", "var", x}, nil
	}
	if id, ok := ty.(*ast.Ident); ok && t.types[id.Name] {
		if t.ifaces[id.Name] {
			return []string{"impl", x, id.Name}, nil
		}
		return []string{"dyn", x, id.Name}, nil
	}
	if st, ok := ty.(*ast.StarExpr); ok {
		if id, ok := st.X.(*ast.Ident); ok && t.types[id.Name] && !t.ifaces[id.Name] {
			return []string{"dyn", x, "*" + id.Name}, nil
		}
	}
	return nil, t.errf(ty, "case type not of a known shape")
}

func errAssigns(list []ast.Stmt, v string) bool {
	found := false
	for _, st := range list {
		ast.Inspect(st, func(n ast.Node) bool {
			if a, ok := n.(*ast.AssignStmt); ok {
				for _, l := range a.Lhs {
					if isIdent(l, v) {
						found = true
					}
				}
			}
			return true
		})
	}
	return found
}

func errHasBreak(list []ast.Stmt) bool {
	found := false
	for _, st := range list {
		ast.Inspect(st, func(n ast.Node) bool {
			if b, ok := n.(*ast.BranchStmt); ok && (b.Tok == token.BREAK || b.Tok == token.FALLTHROUGH || b.Tok == token.GOTO || b.Label != nil) {
				found = true
			}
			return true
		})
	}
	return found
}

func (t *etrans) stmts(list []ast.Stmt, inLoop bool) ([]wItem, error) {
	var out []wItem
	for _, st := range list {
		switch s := st.(type) {
		case *ast.ReturnStmt:
			if len(s.Results) != 1 {
				return nil, t.errf(st, "return shape")
			}
			x, err := t.term(s.Results[0])
			if err != nil {
				return nil, err
			}
			out = append(out, append(wItem{"return"}, x...))
		case *ast.BranchStmt:
			if s.Tok != token.CONTINUE || s.Label != nil || !inLoop {
				return nil, t.errf(st, "branch statement other than a plain continue in a loop")
			}
			out = append(out, wItem{"continue"})
		case *ast.DeclStmt:
			gd, ok := s.Decl.(*ast.GenDecl)
			if !ok || gd.Tok != token.VAR || len(gd.Specs) != 1 {
				return nil, t.errf(st, "declaration shape")
			}
			vs := gd.Specs[0].(*ast.ValueSpec)
			if len(vs.Names) != 1 || len(vs.Values) != 0 || vs.Type == nil {
				return nil, t.errf(st, "declaration shape")
			}
			out = append(out, wItem{"vardecl", vs.Names[0].Name, typeString(vs.Type)})
		case *ast.IfStmt:
			if s.Init != nil {
				return nil, t.errf(st, "if with an initialiser")
			}
			c, err := t.cond(s.Cond)
			if err != nil {
				return nil, err
			}
			body, err := t.stmts(s.Body.List, inLoop)
			if err != nil {
				return nil, err
			}
			out = append(out, append(wItem{"if"}, c...))
			out = append(out, body...)
			if s.Else != nil {
				eb, ok := s.Else.(*ast.BlockStmt)
				if !ok {
					return nil, t.errf(st, "else-if")
				}
				els, err := t.stmts(eb.List, inLoop)
				if err != nil {
					return nil, err
				}
				out = append(out, wItem{"else"})
				out = append(out, els...)
			}
			out = append(out, wItem{"end"})
		case *ast.RangeStmt:
			if s.Tok != token.DEFINE || s.Key == nil || s.Value == nil {
				return nil, t.errf(st, "range loop shape")
			}
			ik, ok0 := s.Key.(*ast.Ident)
			x, ok1 := identNameS(s.Value)
			xs, ok2 := identNameS(s.X)
			if !ok0 || !ok1 || !ok2 {
				return nil, t.errf(st, "range loop is not `for i, x := range xs`")
			}
			if errAssigns(s.Body.List, xs) {
				return nil, t.errf(st, "loop body assigns the ranged variable")
			}
			if errHasBreak(s.Body.List) {
				return nil, t.errf(st, "loop body with break / goto / label")
			}
			body, err := t.stmts(s.Body.List, true)
			if err != nil {
				return nil, err
			}
			out = append(out, wItem{"range", ik.Name, x, xs})
			out = append(out, body...)
			out = append(out, wItem{"end"})
		case *ast.AssignStmt:
			// v, ok := x.(I)
			if len(s.Lhs) == 2 && len(s.Rhs) == 1 && s.Tok == token.DEFINE {
				v, ok1 := identNameS(s.Lhs[0])
				okv, ok2 := identNameS(s.Lhs[1])
				ta, ok3 := s.Rhs[0].(*ast.TypeAssertExpr)
				if ok1 && ok2 && ok3 && ta.Type != nil {
					x, ok4 := identNameS(ta.X)
					id, ok5 := ta.Type.(*ast.Ident)
					if ok4 && ok5 && t.ifaces[id.Name] {
						out = append(out, wItem{"assert", v, okv, x, id.Name})
						continue
					}
				}
				return nil, t.errf(st, "two-valued definition that is not an assertion to an interface of the package")
			}
			if len(s.Lhs) != 1 || len(s.Rhs) != 1 {
				return nil, t.errf(st, "assignment shape")
			}
			if l, ok := s.Lhs[0].(*ast.StarExpr); ok {
				// *dst = *src
				dst, ok1 := identNameS(l.X)
				rs, ok2 := s.Rhs[0].(*ast.StarExpr)
				if !ok1 || !ok2 || s.Tok != token.ASSIGN {
					return nil, t.errf(st, "assignment through a pointer")
				}
				src, ok := identNameS(rs.X)
				if !ok {
					return nil, t.errf(st, "assignment through a pointer")
				}
				out = append(out, wItem{"copy", dst, src})
				continue
			}
			x, err := t.term(s.Rhs[0])
			if err != nil {
				return nil, err
			}
			switch l := s.Lhs[0].(type) {
			case *ast.Ident:
				v, ok := identNameS(l)
				if !ok {
					return nil, t.errf(st, "assignment target")
				}
				switch s.Tok {
				case token.DEFINE:
					out = append(out, append(wItem{"def", v}, x...))
				case token.ASSIGN:
					out = append(out, append(wItem{"set", v}, x...))
				default:
					return nil, t.errf(st, "assignment operator")
				}
			case *ast.IndexExpr:
				xs, ok1 := identNameS(l.X)
				i, ok2 := identNameS(l.Index)
				if !ok1 || !ok2 || s.Tok != token.ASSIGN {
					return nil, t.errf(st, "indexed assignment shape")
				}
				out = append(out, append(wItem{"setidx", xs, i}, x...))
			case *ast.SelectorExpr:
				v, ok := identNameS(l.X)
				if !ok || s.Tok != token.ASSIGN {
					return nil, t.errf(st, "field assignment shape")
				}
				out = append(out, append(wItem{"fset", v, l.Sel.Name}, x...))
			default:
				return nil, t.errf(st, "assignment target")
			}
		case *ast.TypeSwitchStmt:
			its, err := t.typeSwitch(s, inLoop)
			if err != nil {
				return nil, err
			}
			out = append(out, its...)
		default:
			return nil, t.errf(st, "statement not of a known shape (%T)", st)
		}
	}
	return out, nil
}

func (t *etrans) typeSwitch(s *ast.TypeSwitchStmt, inLoop bool) ([]wItem, error) {
	if s.Init != nil {
		return nil, t.errf(s, "type switch with an initialiser")
	}
	bind := ""
	var ta *ast.TypeAssertExpr
	switch a := s.Assign.(type) {
	case *ast.AssignStmt:
		if len(a.Lhs) != 1 || len(a.Rhs) != 1 || a.Tok != token.DEFINE {
			return nil, t.errf(s, "type switch guard")
		}
		b, ok := identNameS(a.Lhs[0])
		if !ok {
			return nil, t.errf(s, "type switch guard")
		}
		bind = b
		ta, _ = a.Rhs[0].(*ast.TypeAssertExpr)
	case *ast.ExprStmt:
		ta, _ = a.X.(*ast.TypeAssertExpr)
	}
	if ta == nil || ta.Type != nil {
		return nil, t.errf(s, "type switch guard")
	}
	x, ok := identNameS(ta.X)
	if !ok {
		return nil, t.errf(s, "type switch on something other than a variable")
	}
	var out []wItem
	depth := 0
	seenDefault := false
	for i, c := range s.Body.List {
		cc := c.(*ast.CaseClause)
		if seenDefault {
			return nil, t.errf(cc, "default is not the last case")
		}
		if errHasBreak(cc.Body) {
			return nil, t.errf(cc, "case body with break / fallthrough")
		}
		if bind != "" && errAssigns(cc.Body, x) {
			return nil, t.errf(cc, "case body assigns the switched variable")
		}
		body, err := t.stmts(cc.Body, inLoop)
		if err != nil {
			return nil, err
		}
		isNil := false
		if cc.List == nil {
			seenDefault = true
			if i == 0 {
				return nil, t.errf(cc, "type switch with nothing but a default")
			}
		} else {
			if len(cc.List) != 1 {
				return nil, t.errf(cc, "case with several types")
			}
			cnd, err := t.caseCond(x, cc.List[0])
			if err != nil {
				return nil, err
			}
			isNil = cnd[0] == "isnil"
			out = append(out, append(wItem{"if"}, cnd...))
			depth++
		}
		if bind != "" && !isNil {
			out = append(out, wItem{"def", bind, "var", x})
		}
		out = append(out, body...)
		if !seenDefault && i+1 < len(s.Body.List) {
			out = append(out, wItem{"else"})
		}
	}
	for ; depth > 0; depth-- {
		out = append(out, wItem{"end"})
	}
	return out, nil
}

// ---- the error types and their method sets

var errMethodNames = map[string]bool{"Error": true, "Unwrap": true, "As": true, "Is": true}

func errRecvBase(fd *ast.FuncDecl) (string, string, string) {
	if fd.Recv == nil || len(fd.Recv.List) != 1 {
		return "", "", ""
	}
	f := fd.Recv.List[0]
	name := ""
	if len(f.Names) == 1 {
		name = f.Names[0].Name
	}
	ts := typeString(f.Type)
	return name, ts, strings.TrimPrefix(ts, "*")
}

func errResultString(ft *ast.FuncType) string {
	var ps, rs []string
	if ft.Params != nil {
		for _, p := range ft.Params.List {
			n := len(p.Names)
			if n == 0 {
				n = 1
			}
			for i := 0; i < n; i++ {
				ps = append(ps, typeString(p.Type))
			}
		}
	}
	if ft.Results != nil {
		for _, r := range ft.Results.List {
			n := len(r.Names)
			if n == 0 {
				n = 1
			}
			for i := 0; i < n; i++ {
				rs = append(rs, typeString(r.Type))
			}
		}
	}
	out := strings.Join(rs, ",")
	if len(ps) > 0 {
		out = "(" + strings.Join(ps, ",") + ")" + out
	}
	return out
}

func (ex *extractor) errTypeTable() (names []string, fields map[string][]string, methods map[string][][]string, ifaces, all map[string]bool) {
	fields = map[string][]string{}
	methods = map[string][][]string{}
	ifaces = map[string]bool{}
	all = map[string]bool{}
	interesting := map[string]bool{}
	var order []string
	for _, f := range ex.pkgs["parser"] {
		for _, d := range f.Decls {
			gd, ok := d.(*ast.GenDecl)
			if !ok || gd.Tok != token.TYPE {
				continue
			}
			for _, s := range gd.Specs {
				ts := s.(*ast.TypeSpec)
				all[ts.Name.Name] = true
				order = append(order, ts.Name.Name)
				switch ty := ts.Type.(type) {
				case *ast.StructType:
					for _, fl := range ty.Fields.List {
						if len(fl.Names) == 0 {
							fields[ts.Name.Name] = append(fields[ts.Name.Name], ":"+typeString(fl.Type))
							if isIdent(fl.Type, "error") {
								interesting[ts.Name.Name] = true
							}
						}
						for _, n := range fl.Names {
							fields[ts.Name.Name] = append(fields[ts.Name.Name], n.Name+":"+typeString(fl.Type))
						}
					}
				case *ast.InterfaceType:
					ifaces[ts.Name.Name] = true
					fields[ts.Name.Name] = []string{"interface"}
					for _, m := range ty.Methods.List {
						ft, isF := m.Type.(*ast.FuncType)
						if !isF || len(m.Names) != 1 {
							if isIdent(m.Type, "error") {
								interesting[ts.Name.Name] = true
							}
							methods[ts.Name.Name] = append(methods[ts.Name.Name], []string{"", ":" + typeString(m.Type), ""})
							continue
						}
						if errMethodNames[m.Names[0].Name] {
							interesting[ts.Name.Name] = true
						}
						methods[ts.Name.Name] = append(methods[ts.Name.Name], []string{"", m.Names[0].Name, errResultString(ft)})
					}
				default:
					fields[ts.Name.Name] = []string{"=" + typeString(ts.Type)}
				}
			}
		}
	}
	for _, f := range ex.pkgs["parser"] {
		for _, d := range f.Decls {
			fd, ok := d.(*ast.FuncDecl)
			if !ok || fd.Recv == nil {
				continue
			}
			rname, rtype, base := errRecvBase(fd)
			if !errMethodNames[fd.Name.Name] {
				continue
			}
			interesting[base] = true
			m := []string{rtype, fd.Name.Name, errResultString(fd.Type)}
			shape := []string{"other"}
			if fd.Body != nil && len(fd.Body.List) == 1 {
				if r, ok := fd.Body.List[0].(*ast.ReturnStmt); ok && len(r.Results) == 1 {
					if sel, ok := r.Results[0].(*ast.SelectorExpr); ok && rname != "" && isIdent(sel.X, rname) {
						shape = []string{"field", sel.Sel.Name}
					}
				}
			}
			methods[base] = append(methods[base], append(m, shape...))
		}
	}
	for _, n := range order {
		if interesting[n] {
			names = append(names, n)
		}
	}
	return
}

// ---- the constructor sites

func errFormatVerbs(f string) (verbs []byte) {
	for i := 0; i < len(f); i++ {
		if f[i] != '%' {
			continue
		}
		i++
		// flags, width, precision, argument index
		for i < len(f) && strings.IndexByte("+-# 0123456789.[]*", f[i]) >= 0 {
			i++
		}
		if i < len(f) {
			if f[i] != '%' {
				verbs = append(verbs, f[i])
			}
		}
	}
	return
}

// errors.New(…) / fmt.Errorf(format without %w, …)
func errPlainCall(e ast.Expr) bool {
	c, ok := e.(*ast.CallExpr)
	if !ok || c.Ellipsis != token.NoPos {
		return false
	}
	if errIsSel(c.Fun, "errors", "New") && len(c.Args) == 1 {
		return true
	}
	if errIsSel(c.Fun, "fmt", "Errorf") && len(c.Args) >= 1 {
		f, ok := strLit(c.Args[0])
		if !ok {
			return false
		}
		for _, v := range errFormatVerbs(f) {
			if v == 'w' {
				return false
			}
		}
		return true
	}
	return false
}

func (ex *extractor) errSiteList(errTypes map[string]bool) ([][2]string, error) {
	var out [][2]string
	isUnit := map[string]bool{}
	for _, u := range errUnits {
		isUnit[u] = true
	}
	for _, f := range ex.pkgs["parser"] {
		for _, d := range f.Decls {
			fd, ok := d.(*ast.FuncDecl)
			if !ok || fd.Body == nil {
				continue
			}
			name := fd.Name.Name
			if _, rt, _ := errRecvBase(fd); rt != "" {
				name = "(" + rt + ")." + name
			}
			var firstErr error
			bad := func(n ast.Node, what string) {
				if firstErr == nil {
					firstErr = fmt.Errorf("errSites %s: %s: %s", name, what, strings.SplitN(ex.src(n), "\n", 2)[0])
				}
			}
			add := func(shape string) {
				if isUnit[fd.Name.Name] && fd.Recv == nil {
					shape = "unit"
				}
				out = append(out, [2]string{name, shape})
			}
			inUnit := isUnit[fd.Name.Name] && fd.Recv == nil
			ast.Inspect(fd.Body, func(n ast.Node) bool {
				switch x := n.(type) {
				case *ast.UnaryExpr:
					if cl, ok := x.X.(*ast.CompositeLit); ok && x.Op == token.AND && isIdent(cl.Type, "parseError") {
						if inUnit {
							add("unit")
							return false
						}
						var errv ast.Expr
						keys := map[string]bool{}
						for _, el := range cl.Elts {
							kv, ok := el.(*ast.KeyValueExpr)
							if !ok {
								bad(x, "parseError literal without keys")
								return false
							}
							k, _ := kv.Key.(*ast.Ident)
							if k == nil || keys[k.Name] {
								bad(x, "parseError literal key")
								return false
							}
							keys[k.Name] = true
							if k.Name == "err" {
								errv = kv.Value
							}
						}
						if !keys["source"] || !keys["span"] || !keys["err"] || len(keys) != 3 {
							bad(x, "parseError literal that does not set exactly source, span, err")
							return false
						}
						if errPlainCall(errv) {
							add("perr plain")
							return false
						}
						if nf, ok := errv.(*ast.CompositeLit); ok && isIdent(nf.Type, "notFoundError") && len(nf.Elts) == 1 && errPlainCall(nf.Elts[0]) {
							add("perr nf plain")
							return false
						}
						bad(x, "parseError literal whose err is neither a plain error nor notFoundError{plain error}")
						return false
					}
				case *ast.CompositeLit:
					if id, ok := x.Type.(*ast.Ident); ok && errTypes[id.Name] {
						if inUnit {
							add("unit")
							return true
						}
						bad(x, "literal of an error type outside the translated functions and outside &parseError{…}")
						return false
					}
				case *ast.CallExpr:
					if errPlainCall(x) {
						add("plain")
						return false
					}
					if errIsSel(x.Fun, "fmt", "Errorf") {
						if f, ok := strLit(x.Args[0]); ok && x.Ellipsis == token.NoPos {
							if vs := errFormatVerbs(f); len(vs) == 1 && vs[0] == 'w' && len(x.Args) == 2 {
								add("wrapw")
								return true
							}
						}
						bad(x, "fmt.Errorf of an unknown shape")
						return false
					}
					if sel, ok := x.Fun.(*ast.SelectorExpr); ok && isIdent(sel.X, "errors") {
						if inUnit {
							add("unit")
							return true
						}
						bad(x, "call into package errors outside the translated functions")
						return false
					}
					if nw, ok := isCall(x, "new", 1); ok {
						if id, ok := nw.Args[0].(*ast.Ident); ok && errTypes[id.Name] {
							if inUnit {
								add("unit")
								return true
							}
							bad(x, "new of an error type outside the translated functions")
							return false
						}
					}
				}
				return true
			})
			if firstErr != nil {
				return nil, firstErr
			}
		}
	}
	return out, nil
}

func (ex *extractor) errIR(sb *strings.Builder) error {
	names, fields, methods, ifaces, all := ex.errTypeTable()
	if len(names) == 0 {
		return fmt.Errorf("errIR: no error types found")
	}
	sb.WriteString("/-- parser/parser.go: the error algebra (`joinErrors`, `makeErrorOpaque`, `isNotFound`) as a flat prefix-coded IR\n")
	sb.WriteString("    (see harness/extract_err.go): (function, parameter names, signature, items) -/\n")
	sb.WriteString("def errIR : List (String × List String × String × List (List String)) :=\n  [")
	for i, name := range errUnits {
		fd := ex.funcDecl("parser", "", name)
		if fd == nil || fd.Body == nil {
			return fmt.Errorf("errIR: %s not found", name)
		}
		t := &etrans{ex: ex, unit: name, ifaces: ifaces, types: all}
		its, err := t.stmts(fd.Body.List, false)
		if err != nil {
			return err
		}
		if len(its) == 0 {
			return fmt.Errorf("errIR %s: empty body", name)
		}
		// parameter names, and the signature (a variadic parameter is a slice inside the function)
		ps := paramNames(fd)
		sig := "func" + errResultString(fd.Type)
		if i > 0 {
			sb.WriteString(",\n   ")
		}
		fmt.Fprintf(sb, "(%s, %s, %s, [", leanStr(name), leanStrList(ps), leanStr(sig))
		for j, it := range its {
			if j > 0 {
				sb.WriteString(", ")
			}
			sb.WriteString(leanStrList(it))
		}
		sb.WriteString("])")
	}
	sb.WriteString("]\n\n")

	sb.WriteString("/-- package parser: the types that are errors or error-unwrapping interfaces: (name, fields, methods) -/\n")
	sb.WriteString("def errTypes : List (String × List String × List (List String)) :=\n  [")
	errTypeSet := map[string]bool{}
	for i, n := range names {
		errTypeSet[n] = true
		if i > 0 {
			sb.WriteString(",\n   ")
		}
		fmt.Fprintf(sb, "(%s, %s, [", leanStr(n), leanStrList(fields[n]))
		for j, m := range methods[n] {
			if j > 0 {
				sb.WriteString(", ")
			}
			sb.WriteString(leanStrList(m))
		}
		sb.WriteString("])")
	}
	sb.WriteString("]\n\n")

	sites, err := ex.errSiteList(errTypeSet)
	if err != nil {
		return err
	}
	sb.WriteString("/-- package parser: every expression that constructs an error value: (enclosing function, shape) -/\n")
	sb.WriteString("def errSites : List (String × String) :=\n  [")
	for i, s := range sites {
		if i > 0 {
			if i%4 == 0 {
				sb.WriteString(",\n   ")
			} else {
				sb.WriteString(", ")
			}
		}
		fmt.Fprintf(sb, "(%s, %s)", leanStr(s[0]), leanStr(s[1]))
	}
	sb.WriteString("]\n\n")
	return nil
}
