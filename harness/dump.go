package main

import (
	"fmt"
	"reflect"
	"sort"
	"strconv"
	"strings"

	"github.com/runreveal/pql"
	"github.com/runreveal/pql/parser"
)

var spanType = reflect.TypeOf(parser.Span{})
var kindType = reflect.TypeOf(parser.TokenKind(0))
var nodeType = reflect.TypeOf((*parser.Node)(nil)).Elem()

// dumpNode prints an AST canonically by reflection over exported fields:
// (Type Field=value …) with fields sorted by name, spans "a:b", strings in hex, nil.
func dumpNode(v any) string {
	sb := new(strings.Builder)
	dumpValue(sb, reflect.ValueOf(v))
	return sb.String()
}

func dumpValue(sb *strings.Builder, v reflect.Value) {
	if !v.IsValid() {
		sb.WriteString("nil")
		return
	}
	switch v.Kind() {
	case reflect.Interface:
		if v.IsNil() {
			sb.WriteString("nil")
			return
		}
		dumpValue(sb, v.Elem())
	case reflect.Pointer:
		if v.IsNil() {
			sb.WriteString("nil")
			return
		}
		if v.Type().Implements(nodeType) && v.Elem().Kind() == reflect.Struct {
			// a node: print the result of its Span() method as pseudo-field "@"
			dumpStruct(sb, v.Elem(), spanResult(v.Interface().(parser.Node)))
			return
		}
		dumpValue(sb, v.Elem())
	case reflect.Struct:
		if v.Type() == spanType {
			sp := v.Interface().(parser.Span)
			sb.WriteString(strconv.Itoa(sp.Start))
			sb.WriteByte(':')
			sb.WriteString(strconv.Itoa(sp.End))
			return
		}
		dumpStruct(sb, v, "")
	case reflect.Slice:
		sb.WriteByte('[')
		for i := 0; i < v.Len(); i++ {
			if i > 0 {
				sb.WriteByte(' ')
			}
			dumpValue(sb, v.Index(i))
		}
		sb.WriteByte(']')
	case reflect.String:
		sb.WriteString(hexs(v.String()))
	case reflect.Bool:
		if v.Bool() {
			sb.WriteByte('t')
		} else {
			sb.WriteByte('f')
		}
	case reflect.Int:
		if v.Type() == kindType {
			sb.WriteString(kindName(parser.TokenKind(v.Int())))
		} else {
			sb.WriteString(strconv.FormatInt(v.Int(), 10))
		}
	default:
		fmt.Fprintf(sb, "?%s", v.Kind())
	}
}

func spanResult(n parser.Node) (res string) {
	defer func() {
		if r := recover(); r != nil {
			res = "PANIC"
		}
	}()
	sp := n.Span()
	return strconv.Itoa(sp.Start) + ":" + strconv.Itoa(sp.End)
}

func dumpStruct(sb *strings.Builder, v reflect.Value, at string) {
	t := v.Type()
	names := make([]string, 0, t.NumField())
	for i := 0; i < t.NumField(); i++ {
		if t.Field(i).IsExported() {
			names = append(names, t.Field(i).Name)
		}
	}
	sort.Strings(names)
	sb.WriteByte('(')
	sb.WriteString(t.Name())
	if at != "" {
		sb.WriteString(" @=")
		sb.WriteString(at)
	}
	for _, n := range names {
		sb.WriteByte(' ')
		sb.WriteString(n)
		sb.WriteByte('=')
		dumpValue(sb, v.FieldByName(n))
	}
	sb.WriteByte(')')
}

// fmtParse prints the result of parser.Parse:
//   OK|ERR <nerrs> (start end haspos notfound)* ;; stmt ;; stmt …
func fmtParse(stmts []parser.Statement, err error) string {
	sb := new(strings.Builder)
	if err == nil {
		sb.WriteString("OK 0")
	} else {
		leaves := parser.VerifErrors(err)
		sb.WriteString("ERR ")
		sb.WriteString(strconv.Itoa(len(leaves)))
		for _, l := range leaves {
			fmt.Fprintf(sb, " %d %d %s %s", l.Start, l.End, tf(l.HasPos), tf(l.NotFound))
		}
	}
	for _, s := range stmts {
		sb.WriteString(" ;; ")
		sb.WriteString(dumpNode(s))
	}
	return sb.String()
}

func tf(b bool) string {
	if b {
		return "t"
	}
	return "f"
}

func init() {
	moreOps["PARSE"] = func(c Case) string {
		src := unhex(c.Fields[0])
		// the same text at another offset first (a cache keyed by text would now hold stale positions)
		if len(src) <= 512 {
			parser.Parse(" " + src)
			parser.Parse("T;\n" + src)
		}
		first := fmtParse(parser.Parse(src))
		// history: Parse is a function of its argument; parse related sources (a prefix, an
		// extension, a failing and a succeeding one) in between and ask again
		if len(src) <= 512 {
			for _, other := range []string{src[:len(src)/2], src + " | count", "T | where (", "T | take 1", src + ";" + src} {
				parser.Parse(other)
				if again := fmtParse(parser.Parse(src)); again != first {
					return again
				}
			}
		}
		return first
	}
	moreOps["PARSEV"] = moreOps["PARSE"]
}

func stmtKinds(stmts []parser.Statement, err error) string {
	k := ""
	for _, st := range stmts {
		switch st.(type) {
		case *parser.LetStatement:
			k += "L"
		case *parser.TabularExpr:
			k += "T"
		default:
			k += "?"
		}
	}
	if k == "" {
		k = "-"
	}
	if err != nil {
		return k + " e"
	}
	return k + " o"
}

func init() {
	// PIECES src | kinds(whole) e|o ;; kinds(piece 1) e|o ;; …   (L let, T tabular; e = Parse returned an error)
	// Parse of the whole source next to Parse of every piece of SplitStatements (C15)
	moreOps["PIECES"] = func(c Case) string {
		src := unhex(c.Fields[0])
		parts := []string{stmtKinds(parser.Parse(src))}
		for _, p := range parser.SplitStatements(src) {
			parts = append(parts, stmtKinds(parser.Parse(p)))
		}
		return strings.Join(parts, " ;; ")
	}
}

func init() {
	// LINECOL src pos | parserLine parserCol pqlLine pqlCol   (both copies of linecol)
	moreOps["LINECOL"] = func(c Case) string {
		src := unhex(c.Fields[0])
		pos, _ := strconv.Atoi(c.Fields[1])
		if pos < 0 || pos > len(src) {
			return "OUT-OF-RANGE"
		}
		l1, c1 := parser.VerifLinecol(src, pos)
		l2, c2 := pql.VerifLinecol(src, pos)
		return fmt.Sprintf("%d %d %d %d", l1, c1, l2, c2)
	}
}
