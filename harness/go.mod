module verifharness

go 1.21.6

require github.com/runreveal/pql v0.0.0

require golang.org/x/exp v0.0.0-20240213143201-ec583247a57a // indirect

replace github.com/runreveal/pql => /repo
