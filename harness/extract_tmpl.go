package main

// Translator for the straight-line "writer" code of pql.go: the bodies of the write*Function
// rewrites and the BinaryExpr / InExpr / IndexExpr / CallExpr(pass-through) cases of
// writeExpression.  Each becomes a template: a list of items
//
//	("lit",  text, "")        sb.WriteString("text")
//	("var",  name, "")        sb.WriteString(name)            (sqlOp, x.Func.Name)
//	("plain"|"maybe"|"tight", slot, "")
//	                          if err := writeExpression[MaybeParen|Tight](ctx, sb, <slot>); err != nil { return err }
//	                          slot: "0","1",… for x.Args[i]; a field name (X, Y, Index) for x.F
//	("loop",  sep, kind:slot) for i, e := range x.F { if i > 0 { WriteString(sep) }; write e }
//	("loop1", sep, kind:slot) for _, e := range x.F[1:] { WriteString(sep); write e }
//
// Any other statement shape is an error (the extractor then fails as a whole and the check
// falls back to the committed facts, see DESIGN.md §2).  The Lean side interprets the templates
// (`Pql.Tmpl.interp`) and proves that the hand-written model equals the interpretation
// (Props/C01Templates.lean), so a changed writer body breaks a proof obligation.

import (
	"bytes"
	"fmt"
	"go/ast"
	"go/printer"
	"go/token"
	"sort"
	"strconv"
	"strings"
)

type titem struct{ kind, a, b string }

func (ex *extractor) src(n ast.Node) string {
	var b bytes.Buffer
	printer.Fprint(&b, ex.fset, n)
	return b.String()
}

var writerKinds = map[string]string{
	"writeExpression":           "plain",
	"writeExpressionMaybeParen": "maybe",
	"writeExpressionTight":      "tight",
}

// slotOf: x.Args[N] -> "N"; x.F -> "F"; loop variable -> "@"
func slotOf(e ast.Expr, loopVar string) (string, bool) {
	switch t := e.(type) {
	case *ast.IndexExpr:
		if sel, ok := t.X.(*ast.SelectorExpr); ok && sel.Sel.Name == "Args" {
			if lit, ok := t.Index.(*ast.BasicLit); ok && lit.Kind == token.INT {
				return lit.Value, true
			}
		}
	case *ast.SelectorExpr:
		if id, ok := t.X.(*ast.Ident); ok && id.Name == "x" {
			return t.Sel.Name, true
		}
	case *ast.Ident:
		if loopVar != "" && t.Name == loopVar {
			return "@", true
		}
	}
	return "", false
}

// `if err := F(ctx, sb, A); err != nil { return err }`
func (ex *extractor) writeCall(st ast.Stmt, loopVar string) (titem, bool) {
	ifs, ok := st.(*ast.IfStmt)
	if !ok || ifs.Init == nil || ifs.Else != nil {
		return titem{}, false
	}
	as, ok := ifs.Init.(*ast.AssignStmt)
	if !ok || len(as.Lhs) != 1 || len(as.Rhs) != 1 || selName(as.Lhs[0]) != "err" || as.Tok != token.DEFINE {
		return titem{}, false
	}
	call, ok := as.Rhs[0].(*ast.CallExpr)
	if !ok || len(call.Args) != 3 || selName(call.Args[0]) != "ctx" || selName(call.Args[1]) != "sb" {
		return titem{}, false
	}
	fid, ok := call.Fun.(*ast.Ident)
	if !ok {
		return titem{}, false
	}
	kind, ok := writerKinds[fid.Name]
	if !ok {
		return titem{}, false
	}
	if ex.src(ifs.Cond) != "err != nil" || len(ifs.Body.List) != 1 || ex.src(ifs.Body.List[0]) != "return err" {
		return titem{}, false
	}
	slot, ok := slotOf(call.Args[2], loopVar)
	if !ok {
		return titem{}, false
	}
	return titem{kind, slot, ""}, true
}

// `sb.WriteString(<lit or name>)`
func (ex *extractor) writeString(st ast.Stmt) (titem, bool) {
	es, ok := st.(*ast.ExprStmt)
	if !ok {
		return titem{}, false
	}
	call, ok := es.X.(*ast.CallExpr)
	if !ok || len(call.Args) != 1 {
		return titem{}, false
	}
	sel, ok := call.Fun.(*ast.SelectorExpr)
	if !ok || sel.Sel.Name != "WriteString" || selName(sel.X) != "sb" {
		return titem{}, false
	}
	switch a := call.Args[0].(type) {
	case *ast.BasicLit:
		if a.Kind == token.STRING {
			s, err := strconv.Unquote(a.Value)
			if err == nil {
				return titem{"lit", s, ""}, true
			}
		}
	case *ast.Ident, *ast.SelectorExpr:
		return titem{"var", ex.src(a), ""}, true
	}
	return titem{}, false
}

// a straight-line statement list; `return nil` may end it
func (ex *extractor) template(stmts []ast.Stmt, what string) ([]titem, error) {
	var out []titem
	for i, st := range stmts {
		if it, ok := ex.writeString(st); ok {
			out = append(out, it)
			continue
		}
		if it, ok := ex.writeCall(st, ""); ok {
			out = append(out, it)
			continue
		}
		if rs, ok := st.(*ast.RangeStmt); ok {
			it, err := ex.rangeLoop(rs, what)
			if err != nil {
				return nil, err
			}
			out = append(out, it)
			continue
		}
		if r, ok := st.(*ast.ReturnStmt); ok && i == len(stmts)-1 && len(r.Results) == 1 && selName(r.Results[0]) == "nil" {
			continue
		}
		return nil, fmt.Errorf("%s: statement not of a template shape: %s", what, strings.SplitN(ex.src(st), "\n", 2)[0])
	}
	return out, nil
}

func (ex *extractor) rangeLoop(rs *ast.RangeStmt, what string) (titem, error) {
	bad := func(msg string) (titem, error) { return titem{}, fmt.Errorf("%s: range loop: %s", what, msg) }
	if rs.Value == nil || rs.Tok != token.DEFINE {
		return bad("no value variable")
	}
	elem := selName(rs.Value)
	body := rs.Body.List
	if len(body) != 2 {
		return bad("body is not two statements")
	}
	w, ok := ex.writeCall(body[1], elem)
	if !ok || w.a != "@" {
		return bad("second statement does not write the element")
	}
	// for _, e := range x.F[1:] { sb.WriteString(sep); write e }
	if sl, ok := rs.X.(*ast.SliceExpr); ok {
		field, ok2 := slotOf(sl.X, "")
		if !ok2 || sl.High != nil || sl.Low == nil || ex.src(sl.Low) != "1" || selName(rs.Key) != "_" {
			return bad("slice shape")
		}
		sep, ok3 := ex.writeString(body[0])
		if !ok3 || sep.kind != "lit" {
			return bad("first statement is not WriteString(sep)")
		}
		return titem{"loop1", sep.a, w.kind + ":" + field}, nil
	}
	// for i, e := range x.F { if i > 0 { sb.WriteString(sep) }; write e }
	field, ok := slotOf(rs.X, "")
	if !ok || rs.Key == nil {
		return bad("range expression")
	}
	idx := selName(rs.Key)
	ifs, ok := body[0].(*ast.IfStmt)
	if !ok || ifs.Init != nil || ifs.Else != nil || ex.src(ifs.Cond) != idx+" > 0" || len(ifs.Body.List) != 1 {
		return bad("first statement is not `if i > 0 { … }`")
	}
	sep, ok := ex.writeString(ifs.Body.List[0])
	if !ok || sep.kind != "lit" {
		return bad("separator")
	}
	return titem{"loop", sep.a, w.kind + ":" + field}, nil
}

func caseNames(cc *ast.CaseClause) []string {
	var ns []string
	for _, e := range cc.List {
		switch t := e.(type) {
		case *ast.StarExpr:
			ns = append(ns, selName(t.X))
		default:
			ns = append(ns, selName(e))
		}
	}
	return ns
}

func (ex *extractor) writeTemplates(sb *strings.Builder) error {
	tm := map[string][]titem{}

	// 1. the write*Function bodies after the arity guard
	fd := ex.funcDecl("pql", "", "initKnownFunctions")
	if fd == nil {
		return fmt.Errorf("initKnownFunctions not found")
	}
	writers := map[string]bool{}
	ast.Inspect(fd, func(n ast.Node) bool {
		if kv, ok := n.(*ast.KeyValueExpr); ok && selName(kv.Key) == "write" {
			writers[selName(kv.Value)] = true
		}
		return true
	})
	for w := range writers {
		wfd := ex.funcDecl("pql", "", w)
		if wfd == nil || len(wfd.Body.List) == 0 {
			return fmt.Errorf("writer %s not found", w)
		}
		t, err := ex.template(wfd.Body.List[1:], w)
		if err != nil {
			return err
		}
		tm[w] = t
	}

	// 2. writeExpression: the cases of the type switch
	we := ex.funcDecl("pql", "", "writeExpression")
	if we == nil {
		return fmt.Errorf("writeExpression not found")
	}
	var ts *ast.TypeSwitchStmt
	for _, st := range we.Body.List {
		if t, ok := st.(*ast.TypeSwitchStmt); ok {
			ts = t
		}
	}
	if ts == nil {
		return fmt.Errorf("writeExpression: no type switch at top level")
	}
	seen := map[string]bool{}
	for _, c := range ts.Body.List {
		cc := c.(*ast.CaseClause)
		names := caseNames(cc)
		if len(names) != 1 {
			continue
		}
		switch names[0] {
		case "InExpr", "IndexExpr":
			t, err := ex.template(cc.Body, names[0])
			if err != nil {
				return err
			}
			tm[names[0]] = t
			seen[names[0]] = true
		case "CallExpr":
			// if f := initKnownFunctions()[x.Func.Name]; f != nil { f.write … } else { <template> }
			if len(cc.Body) != 1 {
				return fmt.Errorf("CallExpr case: shape")
			}
			ifs, ok := cc.Body[0].(*ast.IfStmt)
			if !ok || ifs.Init == nil || ex.src(ifs.Init) != "f := initKnownFunctions()[x.Func.Name]" || ex.src(ifs.Cond) != "f != nil" {
				return fmt.Errorf("CallExpr case: lookup shape")
			}
			if len(ifs.Body.List) != 1 || !strings.HasPrefix(ex.src(ifs.Body.List[0]), "if err := f.write(ctx, sb, x); err != nil") {
				return fmt.Errorf("CallExpr case: known-function branch")
			}
			els, ok := ifs.Else.(*ast.BlockStmt)
			if !ok {
				return fmt.Errorf("CallExpr case: else branch")
			}
			t, err := ex.template(els.List, "CallExpr:default")
			if err != nil {
				return err
			}
			tm["CallExpr:default"] = t
			seen["CallExpr"] = true
		case "BinaryExpr":
			if len(cc.Body) != 1 {
				return fmt.Errorf("BinaryExpr case: shape")
			}
			sw, ok := cc.Body[0].(*ast.SwitchStmt)
			if !ok || sw.Init != nil || ex.src(sw.Tag) != "x.Op" {
				return fmt.Errorf("BinaryExpr case: not a switch on x.Op")
			}
			for _, oc := range sw.Body.List {
				occ := oc.(*ast.CaseClause)
				if occ.List == nil {
					// default: if sqlOp, ok := binaryOps[x.Op]; ok { <template> } else { Fprintf placeholder }
					if len(occ.Body) != 1 {
						return fmt.Errorf("BinaryExpr default: shape")
					}
					ifs, ok := occ.Body[0].(*ast.IfStmt)
					if !ok || ifs.Init == nil || ex.src(ifs.Init) != "sqlOp, ok := binaryOps[x.Op]" || ex.src(ifs.Cond) != "ok" {
						return fmt.Errorf("BinaryExpr default: lookup shape")
					}
					t, err := ex.template(ifs.Body.List, "BinaryExpr:default")
					if err != nil {
						return err
					}
					tm["BinaryExpr:default"] = t
					els, ok := ifs.Else.(*ast.BlockStmt)
					if !ok || len(els.List) != 1 || !strings.HasPrefix(ex.src(els.List[0]), "fmt.Fprintf(sb, \"NULL /* unhandled %s binary op */ \"") {
						return fmt.Errorf("BinaryExpr default: placeholder branch")
					}
					continue
				}
				if len(occ.List) != 1 {
					return fmt.Errorf("BinaryExpr: multi-valued case")
				}
				op := selName(occ.List[0])
				body := occ.Body
				if op == "TokenEq" {
					// if ctx.mode == joinExprMode { xl, xr := …; yl, yr := …; if (xl || yl) && (xr || yr) { <template>; return nil } }
					if len(body) == 0 {
						return fmt.Errorf("BinaryExpr TokenEq: empty")
					}
					ifs, ok := body[0].(*ast.IfStmt)
					if !ok || ifs.Init != nil || ifs.Else != nil || ex.src(ifs.Cond) != "ctx.mode == joinExprMode" || len(ifs.Body.List) != 3 {
						return fmt.Errorf("BinaryExpr TokenEq: join-mode guard shape")
					}
					if ex.src(ifs.Body.List[0]) != "xl, xr := hasJoinTerms(x.X)" || ex.src(ifs.Body.List[1]) != "yl, yr := hasJoinTerms(x.Y)" {
						return fmt.Errorf("BinaryExpr TokenEq: hasJoinTerms calls")
					}
					in, ok := ifs.Body.List[2].(*ast.IfStmt)
					if !ok || in.Init != nil || in.Else != nil || ex.src(in.Cond) != "(xl || yl) && (xr || yr)" {
						return fmt.Errorf("BinaryExpr TokenEq: both-sides condition")
					}
					n := len(in.Body.List)
					if n == 0 || ex.src(in.Body.List[n-1]) != "return nil" {
						return fmt.Errorf("BinaryExpr TokenEq: join branch does not return")
					}
					t, err := ex.template(in.Body.List, "BinaryExpr:TokenEq:join")
					if err != nil {
						return err
					}
					tm["BinaryExpr:TokenEq:join"] = t
					body = body[1:]
				}
				t, err := ex.template(body, "BinaryExpr:"+op)
				if err != nil {
					return err
				}
				tm["BinaryExpr:"+op] = t
			}
			seen["BinaryExpr"] = true
		}
	}
	for _, n := range []string{"InExpr", "IndexExpr", "CallExpr", "BinaryExpr"} {
		if !seen[n] {
			return fmt.Errorf("writeExpression: case %s not found", n)
		}
	}

	var keys []string
	for k := range tm {
		keys = append(keys, k)
	}
	sort.Strings(keys)
	sb.WriteString("/-- pql.go: the straight-line writer code as templates (see harness/extract_tmpl.go):\n")
	sb.WriteString("    bodies of the write*Function rewrites after the arity guard, and the BinaryExpr / InExpr /\n")
	sb.WriteString("    IndexExpr / pass-through CallExpr cases of writeExpression -/\n")
	sb.WriteString("def writeTemplates : List (String × List (String × String × String)) :=\n  [")
	for i, k := range keys {
		if i > 0 {
			sb.WriteString(",\n   ")
		}
		fmt.Fprintf(sb, "(%s, [", leanStr(k))
		for j, it := range tm[k] {
			if j > 0 {
				sb.WriteString(", ")
			}
			fmt.Fprintf(sb, "(%s, %s, %s)", leanStr(it.kind), leanStr(it.a), leanStr(it.b))
		}
		sb.WriteString("])")
	}
	sb.WriteString("]\n\n")
	return nil
}

// ---- parser.go tabularExpr: the switch on the operator keyword

// operatorKeywords: (keyword, parsing method, node type the method returns), in source order
func (ex *extractor) operatorKeywords(sb *strings.Builder) error {
	fd := ex.funcDecl("parser", "*parser", "tabularExpr")
	if fd == nil {
		return fmt.Errorf("tabularExpr not found")
	}
	var sw *ast.SwitchStmt
	ast.Inspect(fd, func(n ast.Node) bool {
		if s, ok := n.(*ast.SwitchStmt); ok && sw == nil && s.Tag != nil && ex.src(s.Tag) == "operatorName.Value" {
			sw = s
		}
		return true
	})
	if sw == nil {
		return fmt.Errorf("tabularExpr: no switch on operatorName.Value")
	}
	type row struct{ kw, method, node string }
	var rows []row
	hasDefault := false
	for _, c := range sw.Body.List {
		cc := c.(*ast.CaseClause)
		if cc.List == nil {
			hasDefault = true
			// the default branch must report an error and not build an operator
			if !strings.Contains(ex.src(cc), "unknown operator name") {
				return fmt.Errorf("tabularExpr: default branch does not report an unknown operator")
			}
			continue
		}
		// op, err := opParser.<method>(pipeToken, operatorName)
		if len(cc.Body) == 0 {
			return fmt.Errorf("tabularExpr: empty case")
		}
		as, ok := cc.Body[0].(*ast.AssignStmt)
		if !ok || len(as.Rhs) != 1 {
			return fmt.Errorf("tabularExpr: case does not start with a method call")
		}
		call, ok := as.Rhs[0].(*ast.CallExpr)
		if !ok || len(call.Args) != 2 || ex.src(call.Args[0]) != "pipeToken" || ex.src(call.Args[1]) != "operatorName" {
			return fmt.Errorf("tabularExpr: unexpected call shape %s", ex.src(as))
		}
		sel, ok := call.Fun.(*ast.SelectorExpr)
		if !ok || ex.src(sel.X) != "opParser" {
			return fmt.Errorf("tabularExpr: call is not on opParser")
		}
		method := sel.Sel.Name
		md := ex.funcDecl("parser", "*parser", method)
		if md == nil || md.Type.Results == nil || len(md.Type.Results.List) != 2 {
			return fmt.Errorf("tabularExpr: method %s not found or unexpected results", method)
		}
		star, ok := md.Type.Results.List[0].Type.(*ast.StarExpr)
		if !ok {
			return fmt.Errorf("method %s: first result is not a pointer", method)
		}
		node := selName(star.X)
		for _, e := range cc.List {
			lit, ok := e.(*ast.BasicLit)
			if !ok || lit.Kind != token.STRING {
				return fmt.Errorf("tabularExpr: case label is not a string")
			}
			kw, _ := strconv.Unquote(lit.Value)
			rows = append(rows, row{kw, method, node})
		}
	}
	if !hasDefault {
		return fmt.Errorf("tabularExpr: switch has no default")
	}
	sb.WriteString("/-- parser/parser.go `tabularExpr`: operator keyword → (parsing method, node type it returns), in source order;\n")
	sb.WriteString("    any other identifier after `|` is an error (\"unknown operator name\") -/\n")
	sb.WriteString("def operatorKeywords : List (String × String × String) :=\n  [")
	for i, r := range rows {
		if i > 0 {
			sb.WriteString(", ")
		}
		fmt.Fprintf(sb, "(%s, %s, %s)", leanStr(r.kw), leanStr(r.method), leanStr(r.node))
	}
	sb.WriteString("]\n\n")
	return nil
}
