package main

import "strings"

// lexAlphabet is the representative alphabet for exhaustive scanner enumeration:
// one or two members of every character class the scanner distinguishes in any state
// (identifier start/continuation, the letters that mean something inside numbers and
// escapes, digits, dot, the three quote characters, backslash, newline, space, the
// operator characters with look-ahead, separators, an invalid byte and a non-ASCII
// white-space rune).
var lexAlphabet = []string{
	"a", "e", "x", "n", "0", "1", ".", "_", "$", "\"", "'", "`", "\\", "\n", " ",
	"/", ";", "=", "!", "<", "~", "+", "(", "\xff", "\u00a0",
}

func init() {
	caseSets["lex"] = genLex
}

// enumerate calls f with every string of exactly n symbols over alphabet.
func enumerate(alphabet []string, n int, f func(string)) {
	idx := make([]int, n)
	var sb strings.Builder
	for {
		sb.Reset()
		for _, i := range idx {
			sb.WriteString(alphabet[i])
		}
		f(sb.String())
		k := n - 1
		for k >= 0 {
			idx[k]++
			if idx[k] < len(alphabet) {
				break
			}
			idx[k] = 0
			k--
		}
		if k < 0 {
			return
		}
	}
}

// lexPieces are lexemes and fragments used to build random longer sources.
var lexPieces = []string{
	"foo", "let", "and", "or", "in", "by", "In", "BY", "Or", "AND", "iN", "Let", "and1", "_or", "$left", "_x1", "a$b", "0", "007", "1.5", ".5", "1.", "1e5", "1E+5",
	"1e-", "1e", "0x1F", "0X", "0xg", "0xffffffffffffffff", "0x10000000000000000", "18446744073709551616", "0x00000000000000001", "0X0000000000000000ff", "0x0000ffffffffffffffff",
	"0x000000000000000000000000", "0x00010000000000000000", "0x0000000000000000", "0x00000000000000000", "0e0", "1e0", "7E+00", "1e000",
	"1.2.3", "1..2", "0.e1", "00.5", "0e0", "'a'", "\"b\"", "'it''s'", "'a\\'b'", "\"\\n\\t\\\\\"", "'unterminated",
	"\"x\ny\"", "'\\\n'", "`q`", "`a``b`", "`open", "`x\ny`", "//c\n", "// to eof", "/", "/ /", "=", "==", "=~", "!=",
	"!~", "!", "<", "<=", ">", ">=", "+", "-", "*", "%", "|", ".", ",", ";", "(", ")", "[", "]", " ", "\t", "\n",
	"\r\n", "\u0085", "\u00a0", "\u2003", "\u3000", "\ufeff", "\x00", "\xff", "\xc2", "\xe2\x80", "é", "日本", "#", "@", "{", "}",
	"^", "&", "?", "\\", "~", "\x7f", "\ufffd",
	// literals that end WITHOUT their closing quote after an escape, and escaped literals that may follow them
	"'x\\ty\n", "\"C:\\\\logs\n", "\"one\\\n", "'q\\'r\n", "\"p\\tq\"", "'two\\n'", "\"C:\\\\logs\\\\app.log\"", "'A:\\\\' // 3.5'\n", "\"A:\\\\\" // x\"\n", "//\x00 c\n", "// c \x00",
}

func randomLexSource(maxPieces int) string {
	var sb strings.Builder
	n := 1 + rng.Intn(maxPieces)
	for i := 0; i < n; i++ {
		switch rng.Intn(10) {
		case 0:
			sb.WriteByte(byte(rng.Intn(256)))
		case 1:
			sb.WriteString(lexAlphabet[rng.Intn(len(lexAlphabet))])
		default:
			sb.WriteString(lexPieces[rng.Intn(len(lexPieces))])
		}
	}
	return sb.String()
}

func genLex(tier string, emit func(op string, fields ...string)) {
	maxLen := 3
	nRandom := 20000
	if tier == "thorough" {
		maxLen = 4
		nRandom = 300000
	}
	emit("SCAN", hexs(""))
	emit("SPLIT", hexs(""))
	for n := 1; n <= maxLen; n++ {
		enumerate(lexAlphabet, n, func(s string) {
			emit("SCAN", hexs(s))
			emit("SPLIT", hexs(s))
		})
	}
	for i := 0; i < nRandom; i++ {
		s := randomLexSource(12)
		emit("SCAN", hexs(s))
		emit("SPLIT", hexs(s))
	}
	// numeric accessors of literals (IsFloat / IsInteger / Uint64) on number spellings
	digits := []string{"0", "1", "7", "9", "00", "12", "007"}
	for _, ip := range digits {
		for _, fr := range []string{"", ".", ".0", ".5", ".25"} {
			for _, ex := range []string{"", "e0", "e3", "E3", "e+2", "E+2", "e-1", "E-1"} {
				emit("NUM", hexs(ip+fr+ex))
			}
		}
	}
	for _, t := range []string{".5", ".5e1", ".5E1", "0x0", "0x1F", "0XaB", "0xe", "0xE", "0x1e3", "0x1E3", "0xffffffffffffffff", "18446744073709551615",
		"18446744073709551616", "99999999999999999999", "1e400", "4294967296", "1E0", "0E0", "0e0"} {
		emit("NUM", hexs(t))
	}
	for i := 0; i < nRandom/20; i++ {
		emit("NUM", hexs(pick(numberLits)))
	}
}
