package main

// Translator for the small functions of parser/span.go and parser/ast.go and for the loop of `Walk`:
//
//	newSpan, indexSpan, nullSpan, (Span).IsValid, (Span).Len, unionSpans          (span.go)
//	nodeSpan, nodeSliceSpan, (*Ident).AsQualified, Walk                            (ast.go)
//
// Each body becomes one unit of `Facts.astIR`: (name, parameter names — the receiver first —, items).
// Items are flat; expressions are prefix-coded and self-delimiting.
//
//	<e> ::= var v | int N | neg <e> | not <e> | fld F <e> (e.F) | len <e>
//	      | op2 O <e> <e>            O = sub | ge | le | gt | and (&&, short-circuit) | min | max (the builtins)
//	      | isnili <e> | isnilp <e>  e == nil, e of interface / pointer type (e != nil is `not isnil…`)
//	      | call f <e>* end          f(e, …), f a function of the package
//	      | callv f <e>              f(e...)
//	      | callvar f <e>* end       f(e, …), f a parameter of function type (the visitor)
//	      | mcall M <e>              e.M()
//	      | idx <e> <e>              a[i]
//	      | sliceto <e> <e>          a[:hi]
//	      | spanlit <e> <e>          Span{Start: a, End: b}
//	      | nodeslit <e>* end        []Node{e, …}
//	      | make0 T <e>              make([]T, 0, cap)
//	      | newqid <e>* end          &QualifiedIdent{Parts: []*Ident{e, …}}
//	      | nilptr T                 nil returned as a *T
//	      | append <e> <e>           append(a, x)
//
//	["def", v, <e>]   ["set", v, <e>]   ["return", <e>]   ["return"]   ["continue"]   ["expr", <e>]   ["panic"]
//	["if", <e>] … (["else"] …) ["end"]
//	["ifdef", v, <e>, <e>] … ["end"]          if v := e; cond { … }
//	["forrange", y, <e>] … ["end"]            for _, y := range e { … }
//	["while", <e>] … ["end"]                  for cond { … }
//	["typeswitch", v, <e>]  (["case", T] … ["end"])*  ["default"] … ["end"]  ["end"]     switch v := e.(type)
//	["pushtable", stack, v, T]                the push statements of the Walk case for *T — exactly the shapes the
//	                                          table Facts.walkCases describes (one / opt / rev / revloop), checked
//	                                          here statement by statement and emitted again as `astWalkCases` so
//	                                          that Lean can compare the two readings.
//
// Besides the units: `astWalkCases` (type, "visit" | "ifvisit", pushes) in source order, `astWalkLoops`, and
// `astSpanReturns` (type, "union" | "direct": whether Span() ends in `return unionSpans(…)` or returns its only
// argument as it is — Facts.spanUnion does not tell the two apart).
// Any other shape is an error.

import (
	"fmt"
	"go/ast"
	"go/token"
	"strings"
)

type atrans struct {
	ex      *extractor
	unit    string
	vtypes  map[string]string // declared type of parameters / receiver
	result  string            // result type of the function ("" if none)
	units   map[string]bool   // names callable with `call`
	swVar   string            // variable bound by the enclosing type switch
	swType  string            // type of the enclosing case
	cases   *[]astWalkCase
	loops   *[]string
	inWalk  bool
	stackVr string
}

type astWalkCase struct {
	typ, form string
	pushes    []string
}

func (t *atrans) errf(n ast.Node, format string, args ...interface{}) error {
	first := strings.SplitN(t.ex.src(n), "\n", 2)[0]
	return fmt.Errorf("astIR %s: %s: %s", t.unit, fmt.Sprintf(format, args...), first)
}

func astIsNil(e ast.Expr) bool { return isIdent(e, "nil") }

// static kind of an expression that is compared with nil: "p" pointer, "i" interface
func (t *atrans) nilKind(e ast.Expr) (string, bool) {
	id, ok := e.(*ast.Ident)
	if !ok {
		return "", false
	}
	ty, ok := t.vtypes[id.Name]
	if !ok {
		return "", false
	}
	if strings.HasPrefix(ty, "*") {
		return "p", true
	}
	switch ty {
	case "Node", "Expr", "Statement", "TabularDataSource", "TabularOperator":
		return "i", true
	}
	return "", false
}

func (t *atrans) exprs(list []ast.Expr) ([]string, error) {
	var out []string
	for _, a := range list {
		x, err := t.expr(a)
		if err != nil {
			return nil, err
		}
		out = append(out, x...)
	}
	return append(out, "end"), nil
}

func (t *atrans) expr(e ast.Expr) ([]string, error) {
	switch x := e.(type) {
	case *ast.ParenExpr:
		return t.expr(x.X)
	case *ast.Ident:
		if v, ok := identNameS(x); ok && v != "true" && v != "false" {
			return []string{"var", v}, nil
		}
	case *ast.BasicLit:
		if x.Kind == token.INT {
			return []string{"int", x.Value}, nil
		}
	case *ast.UnaryExpr:
		switch x.Op {
		case token.SUB, token.NOT:
			a, err := t.expr(x.X)
			if err != nil {
				return nil, err
			}
			return append([]string{map[token.Token]string{token.SUB: "neg", token.NOT: "not"}[x.Op]}, a...), nil
		case token.AND:
			// &QualifiedIdent{Parts: []*Ident{…}}
			cl, ok := x.X.(*ast.CompositeLit)
			if !ok || !isIdent(cl.Type, "QualifiedIdent") || len(cl.Elts) != 1 {
				break
			}
			kv, ok := cl.Elts[0].(*ast.KeyValueExpr)
			if !ok || !isIdent(kv.Key, "Parts") {
				break
			}
			inner, ok := kv.Value.(*ast.CompositeLit)
			if !ok || typeString(inner.Type) != "[]*Ident" {
				break
			}
			a, err := t.exprs(inner.Elts)
			if err != nil {
				return nil, err
			}
			return append([]string{"newqid"}, a...), nil
		}
	case *ast.BinaryExpr:
		if x.Op == token.EQL || x.Op == token.NEQ {
			if !astIsNil(x.Y) {
				break
			}
			k, ok := t.nilKind(x.X)
			if !ok {
				return nil, t.errf(e, "nil comparison of something that is not a parameter of pointer or interface type")
			}
			a, err := t.expr(x.X)
			if err != nil {
				return nil, err
			}
			out := append([]string{"isnil" + k}, a...)
			if x.Op == token.NEQ {
				out = append([]string{"not"}, out...)
			}
			return out, nil
		}
		op, ok := map[token.Token]string{token.SUB: "sub", token.GEQ: "ge", token.LEQ: "le", token.GTR: "gt", token.LAND: "and"}[x.Op]
		if !ok {
			break
		}
		a, err := t.expr(x.X)
		if err != nil {
			return nil, err
		}
		b, err := t.expr(x.Y)
		if err != nil {
			return nil, err
		}
		return append(append([]string{"op2", op}, a...), b...), nil
	case *ast.SelectorExpr:
		a, err := t.expr(x.X)
		if err != nil {
			return nil, err
		}
		return append([]string{"fld", x.Sel.Name}, a...), nil
	case *ast.IndexExpr:
		a, err := t.expr(x.X)
		if err != nil {
			return nil, err
		}
		b, err := t.expr(x.Index)
		if err != nil {
			return nil, err
		}
		return append(append([]string{"idx"}, a...), b...), nil
	case *ast.SliceExpr:
		if x.Low != nil || x.High == nil || x.Slice3 {
			break
		}
		a, err := t.expr(x.X)
		if err != nil {
			return nil, err
		}
		b, err := t.expr(x.High)
		if err != nil {
			return nil, err
		}
		return append(append([]string{"sliceto"}, a...), b...), nil
	case *ast.CompositeLit:
		switch typeString(x.Type) {
		case "Span":
			if len(x.Elts) != 2 {
				break
			}
			var parts [][]string
			for i, key := range []string{"Start", "End"} {
				kv, ok := x.Elts[i].(*ast.KeyValueExpr)
				if !ok || !isIdent(kv.Key, key) {
					return nil, t.errf(e, "Span literal is not Span{Start: …, End: …}")
				}
				a, err := t.expr(kv.Value)
				if err != nil {
					return nil, err
				}
				parts = append(parts, a)
			}
			return append(append([]string{"spanlit"}, parts[0]...), parts[1]...), nil
		case "[]Node":
			for _, el := range x.Elts {
				if _, ok := el.(*ast.KeyValueExpr); ok {
					return nil, t.errf(e, "keyed slice literal")
				}
			}
			a, err := t.exprs(x.Elts)
			if err != nil {
				return nil, err
			}
			return append([]string{"nodeslit"}, a...), nil
		}
	case *ast.CallExpr:
		if sel, ok := x.Fun.(*ast.SelectorExpr); ok {
			if len(x.Args) != 0 || x.Ellipsis != token.NoPos {
				break
			}
			a, err := t.expr(sel.X)
			if err != nil {
				return nil, err
			}
			return append([]string{"mcall", sel.Sel.Name}, a...), nil
		}
		f, ok := identNameS(x.Fun)
		if !ok {
			break
		}
		if x.Ellipsis != token.NoPos {
			if len(x.Args) != 1 || !t.units[f] {
				break
			}
			a, err := t.expr(x.Args[0])
			if err != nil {
				return nil, err
			}
			return append([]string{"callv", f}, a...), nil
		}
		switch f {
		case "len":
			if len(x.Args) != 1 {
				break
			}
			a, err := t.expr(x.Args[0])
			if err != nil {
				return nil, err
			}
			return append([]string{"len"}, a...), nil
		case "min", "max", "append":
			if len(x.Args) != 2 {
				break
			}
			a, err := t.expr(x.Args[0])
			if err != nil {
				return nil, err
			}
			b, err := t.expr(x.Args[1])
			if err != nil {
				return nil, err
			}
			if f == "append" {
				return append(append([]string{"append"}, a...), b...), nil
			}
			return append(append([]string{"op2", f}, a...), b...), nil
		case "make":
			if len(x.Args) != 3 || !isIntLit(x.Args[1], "0") {
				break
			}
			at, ok := x.Args[0].(*ast.ArrayType)
			if !ok || at.Len != nil {
				break
			}
			c, err := t.expr(x.Args[2])
			if err != nil {
				return nil, err
			}
			return append([]string{"make0", typeString(at.Elt)}, c...), nil
		}
		if ty, ok := t.vtypes[f]; ok {
			if ty != "func" {
				break
			}
			a, err := t.exprs(x.Args)
			if err != nil {
				return nil, err
			}
			return append([]string{"callvar", f}, a...), nil
		}
		if t.units[f] {
			a, err := t.exprs(x.Args)
			if err != nil {
				return nil, err
			}
			return append([]string{"call", f}, a...), nil
		}
	}
	return nil, t.errf(e, "expression not of a known shape (%T)", e)
}

// ---- the push statements of a Walk case, read strictly

// stack = append(stack, <target>)
func (t *atrans) pushTarget(st ast.Stmt) (ast.Expr, bool) {
	as, ok := st.(*ast.AssignStmt)
	if !ok || as.Tok != token.ASSIGN || len(as.Lhs) != 1 || len(as.Rhs) != 1 || !isIdent(as.Lhs[0], t.stackVr) {
		return nil, false
	}
	c, ok := as.Rhs[0].(*ast.CallExpr)
	if !ok || !isIdent(c.Fun, "append") || len(c.Args) != 2 || c.Ellipsis != token.NoPos || !isIdent(c.Args[0], t.stackVr) {
		return nil, false
	}
	return c.Args[1], true
}

// n.F  (n the variable bound by the type switch)
func (t *atrans) recvField(e ast.Expr) (string, bool) {
	sel, ok := e.(*ast.SelectorExpr)
	if !ok || !isIdent(sel.X, t.swVar) {
		return "", false
	}
	return sel.Sel.Name, true
}

// n.F[i].G
func (t *atrans) elemField(e ast.Expr, field, idx string) (string, bool) {
	sel, ok := e.(*ast.SelectorExpr)
	if !ok {
		return "", false
	}
	ix, ok := sel.X.(*ast.IndexExpr)
	if !ok || !isIdent(ix.Index, idx) {
		return "", false
	}
	f, ok := t.recvField(ix.X)
	if !ok || f != field {
		return "", false
	}
	return sel.Sel.Name, true
}

// one / opt on `get(target)`
func (t *atrans) simplePush(st ast.Stmt, get func(ast.Expr) (string, bool)) (string, bool) {
	if tg, ok := t.pushTarget(st); ok {
		if f, ok := get(tg); ok {
			return "one:" + f, true
		}
		return "", false
	}
	ifs, ok := st.(*ast.IfStmt)
	if !ok || ifs.Init != nil || ifs.Else != nil || len(ifs.Body.List) != 1 {
		return "", false
	}
	be, ok := ifs.Cond.(*ast.BinaryExpr)
	if !ok || be.Op != token.NEQ || !astIsNil(be.Y) {
		return "", false
	}
	cf, ok := get(be.X)
	if !ok {
		return "", false
	}
	tg, ok := t.pushTarget(ifs.Body.List[0])
	if !ok {
		return "", false
	}
	pf, ok := get(tg)
	if !ok || pf != cf {
		return "", false
	}
	return "opt:" + cf, true
}

func (t *atrans) walkPushes(list []ast.Stmt) ([]string, error) {
	var out []string
	for _, st := range list {
		if p, ok := t.simplePush(st, t.recvField); ok {
			out = append(out, p)
			continue
		}
		fs, ok := st.(*ast.ForStmt)
		if !ok || fs.Init == nil || fs.Cond == nil || fs.Post == nil {
			return nil, t.errf(st, "push statement not of a known shape")
		}
		// for i := len(n.F) - 1; i >= 0; i-- { … }
		init, ok := fs.Init.(*ast.AssignStmt)
		if !ok || init.Tok != token.DEFINE || len(init.Lhs) != 1 || len(init.Rhs) != 1 {
			return nil, t.errf(st, "loop initialiser")
		}
		idx, ok := identNameS(init.Lhs[0])
		if !ok {
			return nil, t.errf(st, "loop variable")
		}
		be, ok := init.Rhs[0].(*ast.BinaryExpr)
		if !ok || be.Op != token.SUB || !isIntLit(be.Y, "1") {
			return nil, t.errf(st, "loop does not start at len(n.F) - 1")
		}
		lc, ok := be.X.(*ast.CallExpr)
		if !ok || !isIdent(lc.Fun, "len") || len(lc.Args) != 1 {
			return nil, t.errf(st, "loop does not start at len(n.F) - 1")
		}
		field, ok := t.recvField(lc.Args[0])
		if !ok {
			return nil, t.errf(st, "loop does not start at len(n.F) - 1")
		}
		cond, ok := fs.Cond.(*ast.BinaryExpr)
		if !ok || cond.Op != token.GEQ || !isIdent(cond.X, idx) || !isIntLit(cond.Y, "0") {
			return nil, t.errf(st, "loop condition is not `i >= 0`")
		}
		post, ok := fs.Post.(*ast.IncDecStmt)
		if !ok || post.Tok != token.DEC || !isIdent(post.X, idx) {
			return nil, t.errf(st, "loop post statement is not `i--`")
		}
		// body: a single push of n.F[i], or pushes of fields of n.F[i]
		if len(fs.Body.List) == 1 {
			if tg, ok := t.pushTarget(fs.Body.List[0]); ok {
				if ix, ok := tg.(*ast.IndexExpr); ok && isIdent(ix.Index, idx) {
					if f, ok := t.recvField(ix.X); ok && f == field {
						out = append(out, "rev:"+field)
						continue
					}
				}
			}
		}
		var inner []string
		for _, b := range fs.Body.List {
			p, ok := t.simplePush(b, func(e ast.Expr) (string, bool) { return t.elemField(e, field, idx) })
			if !ok {
				return nil, t.errf(b, "push statement in a loop not of a known shape")
			}
			inner = append(inner, leanPair(p))
		}
		if len(inner) == 0 {
			return nil, t.errf(st, "empty loop")
		}
		out = append(out, "revloop:"+field)
		*t.loops = append(*t.loops, "("+leanStr(t.swType)+", "+leanStr(field)+", ["+strings.Join(inner, ", ")+"])")
	}
	return out, nil
}

// ---- statements

func (t *atrans) block(list []ast.Stmt) ([]wItem, error) {
	var out []wItem
	for _, st := range list {
		its, err := t.stmt(st)
		if err != nil {
			return nil, err
		}
		out = append(out, its...)
	}
	return out, nil
}

func (t *atrans) stmt(st ast.Stmt) ([]wItem, error) {
	switch s := st.(type) {
	case *ast.AssignStmt:
		if len(s.Lhs) != 1 || len(s.Rhs) != 1 {
			return nil, t.errf(st, "assignment shape")
		}
		v, ok := identNameS(s.Lhs[0])
		if !ok {
			return nil, t.errf(st, "assignment target is not a variable")
		}
		x, err := t.expr(s.Rhs[0])
		if err != nil {
			return nil, err
		}
		switch s.Tok {
		case token.DEFINE:
			return []wItem{append(wItem{"def", v}, x...)}, nil
		case token.ASSIGN:
			return []wItem{append(wItem{"set", v}, x...)}, nil
		}
		return nil, t.errf(st, "assignment operator")
	case *ast.ReturnStmt:
		if len(s.Results) == 0 {
			return []wItem{{"return"}}, nil
		}
		if len(s.Results) != 1 {
			return nil, t.errf(st, "return shape")
		}
		if astIsNil(s.Results[0]) {
			if !strings.HasPrefix(t.result, "*") {
				return nil, t.errf(st, "nil returned as something that is not a pointer")
			}
			return []wItem{{"return", "nilptr", strings.TrimPrefix(t.result, "*")}}, nil
		}
		x, err := t.expr(s.Results[0])
		if err != nil {
			return nil, err
		}
		return []wItem{append(wItem{"return"}, x...)}, nil
	case *ast.BranchStmt:
		if s.Tok == token.CONTINUE && s.Label == nil {
			return []wItem{{"continue"}}, nil
		}
	case *ast.ExprStmt:
		c, ok := s.X.(*ast.CallExpr)
		if !ok {
			break
		}
		if isIdent(c.Fun, "panic") && len(c.Args) == 1 {
			return []wItem{{"panic"}}, nil
		}
		x, err := t.expr(c)
		if err != nil {
			return nil, err
		}
		return []wItem{append(wItem{"expr"}, x...)}, nil
	case *ast.IfStmt:
		c, err := t.expr(s.Cond)
		if err != nil {
			return nil, err
		}
		var head wItem
		if s.Init != nil {
			init, ok := s.Init.(*ast.AssignStmt)
			if !ok || init.Tok != token.DEFINE || len(init.Lhs) != 1 || len(init.Rhs) != 1 || s.Else != nil {
				return nil, t.errf(st, "if with an initialiser that is not `v := e` (or with an else part)")
			}
			v, ok := identNameS(init.Lhs[0])
			if !ok {
				return nil, t.errf(st, "if initialiser target")
			}
			x, err := t.expr(init.Rhs[0])
			if err != nil {
				return nil, err
			}
			head = append(append(wItem{"ifdef", v}, x...), c...)
		} else {
			head = append(wItem{"if"}, c...)
		}
		var body []wItem
		// inside a Walk case: `if visit(n) { pushes }`
		if t.inWalk && t.swType != "" && s.Init == nil && s.Else == nil && len(c) > 0 && c[0] == "callvar" {
			pushes, err := t.walkPushes(s.Body.List)
			if err != nil {
				return nil, err
			}
			if len(*t.cases) == 0 || (*t.cases)[len(*t.cases)-1].typ != t.swType || (*t.cases)[len(*t.cases)-1].form != "" {
				return nil, t.errf(st, "second visitor call in a case")
			}
			(*t.cases)[len(*t.cases)-1].form = "ifvisit"
			(*t.cases)[len(*t.cases)-1].pushes = pushes
			if len(pushes) > 0 {
				body = []wItem{{"pushtable", t.stackVr, t.swVar, t.swType}}
			}
		} else {
			body, err = t.block(s.Body.List)
			if err != nil {
				return nil, err
			}
		}
		out := append([]wItem{head}, body...)
		if s.Else != nil {
			eb, ok := s.Else.(*ast.BlockStmt)
			if !ok {
				return nil, t.errf(st, "else-if")
			}
			els, err := t.block(eb.List)
			if err != nil {
				return nil, err
			}
			out = append(out, wItem{"else"})
			out = append(out, els...)
		}
		return append(out, wItem{"end"}), nil
	case *ast.RangeStmt:
		if s.Tok != token.DEFINE || s.Key == nil || !isIdent(s.Key, "_") || s.Value == nil {
			return nil, t.errf(st, "range loop shape")
		}
		y, ok := identNameS(s.Value)
		if !ok {
			return nil, t.errf(st, "range loop variable")
		}
		x, err := t.expr(s.X)
		if err != nil {
			return nil, err
		}
		body, err := t.block(s.Body.List)
		if err != nil {
			return nil, err
		}
		out := append([]wItem{append(wItem{"forrange", y}, x...)}, body...)
		return append(out, wItem{"end"}), nil
	case *ast.ForStmt:
		if s.Init != nil || s.Post != nil || s.Cond == nil {
			return nil, t.errf(st, "for loop with an initialiser or a post statement, or without a condition")
		}
		c, err := t.expr(s.Cond)
		if err != nil {
			return nil, err
		}
		body, err := t.block(s.Body.List)
		if err != nil {
			return nil, err
		}
		out := append([]wItem{append(wItem{"while"}, c...)}, body...)
		return append(out, wItem{"end"}), nil
	case *ast.TypeSwitchStmt:
		if !t.inWalk || t.swVar != "" || s.Init != nil {
			return nil, t.errf(st, "type switch outside Walk, nested, or with an initialiser")
		}
		as, ok := s.Assign.(*ast.AssignStmt)
		if !ok || as.Tok != token.DEFINE || len(as.Lhs) != 1 || len(as.Rhs) != 1 {
			return nil, t.errf(st, "type switch does not bind a variable")
		}
		v, ok := identNameS(as.Lhs[0])
		ta, ok2 := as.Rhs[0].(*ast.TypeAssertExpr)
		if !ok || !ok2 || ta.Type != nil {
			return nil, t.errf(st, "type switch subject")
		}
		x, err := t.expr(ta.X)
		if err != nil {
			return nil, err
		}
		out := []wItem{append(wItem{"typeswitch", v}, x...)}
		t.swVar = v
		// the bound variable shadows (in the cases it has the case's type)
		saved, had := t.vtypes[v]
		delete(t.vtypes, v)
		var deflt []wItem
		seenDefault := false
		for _, c := range s.Body.List {
			cc := c.(*ast.CaseClause)
			if cc.List == nil {
				if seenDefault {
					return nil, t.errf(cc, "two default cases")
				}
				seenDefault = true
				t.swType = ""
				body, err := t.block(cc.Body)
				if err != nil {
					return nil, err
				}
				deflt = append(append([]wItem{{"default"}}, body...), wItem{"end"})
				continue
			}
			if len(cc.List) != 1 {
				return nil, t.errf(cc, "case with several types")
			}
			star, ok := cc.List[0].(*ast.StarExpr)
			if !ok {
				return nil, t.errf(cc, "case type is not a pointer to a node struct")
			}
			ty, ok := identNameS(star.X)
			if !ok {
				return nil, t.errf(cc, "case type")
			}
			t.swType = ty
			*t.cases = append(*t.cases, astWalkCase{typ: ty})
			body, err := t.block(cc.Body)
			if err != nil {
				return nil, err
			}
			last := &(*t.cases)[len(*t.cases)-1]
			if last.form == "" {
				// the case must be exactly `visit(n)`
				if len(body) != 1 || len(body[0]) < 2 || body[0][0] != "expr" || body[0][1] != "callvar" {
					return nil, t.errf(cc, "case that neither is a visitor call nor is guarded by one")
				}
				last.form = "visit"
			} else if len(cc.Body) != 1 {
				return nil, t.errf(cc, "statements beside the guarded pushes")
			}
			out = append(out, wItem{"case", ty})
			out = append(out, body...)
			out = append(out, wItem{"end"})
		}
		t.swVar, t.swType = "", ""
		if had {
			t.vtypes[v] = saved
		}
		if !seenDefault {
			deflt = []wItem{{"default"}, {"end"}}
		}
		out = append(out, deflt...)
		return append(out, wItem{"end"}), nil
	}
	return nil, t.errf(st, "statement not of a known shape (%T)", st)
}

type astUnit struct{ recv, name, key string }

var astUnits = []astUnit{
	{"", "newSpan", "newSpan"}, {"", "indexSpan", "indexSpan"}, {"", "nullSpan", "nullSpan"},
	{"Span", "IsValid", "Span.IsValid"}, {"Span", "Len", "Span.Len"}, {"", "unionSpans", "unionSpans"},
	{"", "nodeSpan", "nodeSpan"}, {"", "nodeSliceSpan", "nodeSliceSpan"},
	{"*Ident", "AsQualified", "Ident.AsQualified"}, {"", "Walk", "Walk"},
}

func (ex *extractor) astIR(sb *strings.Builder) error {
	callable := map[string]bool{}
	for _, u := range astUnits {
		if u.recv == "" {
			callable[u.name] = true
		}
	}
	var cases []astWalkCase
	var loops []string
	sb.WriteString("/-- parser/span.go, parser/ast.go: the span helpers, `nodeSpan`, `nodeSliceSpan`, `(*Ident).AsQualified` and\n")
	sb.WriteString("    `Walk` as a flat prefix-coded IR (see harness/extract_ast.go): (unit, parameter names, items) -/\n")
	sb.WriteString("def astIR : List (String × List String × List (List String)) :=\n  [")
	for i, u := range astUnits {
		fd := ex.funcDecl("parser", u.recv, u.name)
		if fd == nil || fd.Body == nil {
			return fmt.Errorf("astIR: %s not found", u.key)
		}
		t := &atrans{ex: ex, unit: u.key, vtypes: map[string]string{}, units: callable, cases: &cases, loops: &loops, inWalk: u.name == "Walk"}
		var params []string
		if fd.Recv != nil {
			if len(fd.Recv.List) != 1 || len(fd.Recv.List[0].Names) != 1 {
				return fmt.Errorf("astIR %s: receiver", u.key)
			}
			r := fd.Recv.List[0].Names[0].Name
			params = append(params, r)
			t.vtypes[r] = typeString(fd.Recv.List[0].Type)
		}
		for _, f := range fd.Type.Params.List {
			for _, n := range f.Names {
				params = append(params, n.Name)
				t.vtypes[n.Name] = typeString(f.Type)
			}
		}
		if fd.Type.Results != nil {
			if len(fd.Type.Results.List) != 1 || len(fd.Type.Results.List[0].Names) != 0 {
				return fmt.Errorf("astIR %s: results", u.key)
			}
			t.result = typeString(fd.Type.Results.List[0].Type)
		}
		list := fd.Body.List
		if t.inWalk {
			// the first statement names the stack
			if len(list) == 0 {
				return fmt.Errorf("astIR Walk: empty body")
			}
			as, ok := list[0].(*ast.AssignStmt)
			if !ok || as.Tok != token.DEFINE || len(as.Lhs) != 1 {
				return t.errf(list[0], "Walk does not start by defining its stack")
			}
			t.stackVr, _ = identNameS(as.Lhs[0])
		}
		its, err := t.block(list)
		if err != nil {
			return err
		}
		if t.result != "" && (len(its) == 0 || its[len(its)-1][0] != "return") {
			return fmt.Errorf("astIR %s: does not end in a return", u.key)
		}
		if i > 0 {
			sb.WriteString(",\n   ")
		}
		fmt.Fprintf(sb, "(%s, %s, [", leanStr(u.key), leanStrList(params))
		for j, it := range its {
			if j > 0 {
				sb.WriteString(", ")
			}
			sb.WriteString(leanStrList(it))
		}
		sb.WriteString("])")
	}
	sb.WriteString("]\n\n")

	sb.WriteString("/-- the cases of Walk's type switch in source order: (type, \"visit\" = `visit(n)` | \"ifvisit\" = `if visit(n) { pushes }`,\n")
	sb.WriteString("    pushes as in Facts.walkCases, read a second time and strictly by harness/extract_ast.go) -/\n")
	sb.WriteString("def astWalkCases : List (String × String × List (String × String)) :=\n  [")
	for i, c := range cases {
		if i > 0 {
			sb.WriteString(",\n   ")
		}
		var ps []string
		for _, p := range c.pushes {
			ps = append(ps, leanPair(p))
		}
		fmt.Fprintf(sb, "(%s, %s, [%s])", leanStr(c.typ), leanStr(c.form), strings.Join(ps, ", "))
	}
	sb.WriteString("]\n")
	sb.WriteString("def astWalkLoops : List (String × String × List (String × String)) := [" + strings.Join(loops, ", ") + "]\n\n")

	// Span() methods: union or direct return
	sb.WriteString("/-- whether `(*T).Span()` ends in `return unionSpans(…)` (\"union\") or returns its only argument as it is (\"direct\") -/\n")
	sb.WriteString("def astSpanReturns : List (String × String) :=\n  [")
	for i, ty := range ex.nodeTypes() {
		fd := ex.funcDecl("parser", "*"+ty, "Span")
		if fd == nil || len(fd.Body.List) == 0 {
			return fmt.Errorf("astIR: (*%s).Span not found", ty)
		}
		ret, ok := fd.Body.List[len(fd.Body.List)-1].(*ast.ReturnStmt)
		if !ok || len(ret.Results) != 1 {
			return fmt.Errorf("astIR (*%s).Span: does not end in a return of one value", ty)
		}
		form := "direct"
		if c, ok := ret.Results[0].(*ast.CallExpr); ok && isIdent(c.Fun, "unionSpans") {
			if c.Ellipsis != token.NoPos {
				return fmt.Errorf("astIR (*%s).Span: unionSpans(xs...)", ty)
			}
			form = "union"
		}
		if i > 0 {
			sb.WriteString(", ")
		}
		fmt.Fprintf(sb, "(%s, %s)", leanStr(ty), leanStr(form))
	}
	sb.WriteString("]\n\n")
	return nil
}
